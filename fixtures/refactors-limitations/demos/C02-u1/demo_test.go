package demo

import (
	"fmt"
	"math"
	"math/rand"
	"sort"
	"sync"
	"testing"

	"gopkg.in/typ.v4/avl"
)

// ---------------------------------------------------------------------------
// Shape reconstruction from the public traversals.

type shape struct {
	left, right *shape
}

// rebuild reconstructs the binary tree from its pre-order and in-order
// traversals. All values must be distinct.
func rebuild[T comparable](pre, in []T) (*shape, error) {
	if len(pre) != len(in) {
		return nil, fmt.Errorf("pre-order has %d values, in-order has %d", len(pre), len(in))
	}
	pos := make(map[T]int, len(in))
	for i, v := range in {
		if _, dup := pos[v]; dup {
			return nil, fmt.Errorf("value %v occurs twice in in-order", v)
		}
		pos[v] = i
	}
	next := 0
	var build func(lo, hi int) (*shape, error)
	build = func(lo, hi int) (*shape, error) {
		if lo >= hi {
			return nil, nil
		}
		if next >= len(pre) {
			return nil, fmt.Errorf("pre-order exhausted")
		}
		v := pre[next]
		next++
		p, ok := pos[v]
		if !ok || p < lo || p >= hi {
			return nil, fmt.Errorf("pre-order value %v not inside in-order window [%d,%d)", v, lo, hi)
		}
		l, err := build(lo, p)
		if err != nil {
			return nil, err
		}
		r, err := build(p+1, hi)
		if err != nil {
			return nil, err
		}
		return &shape{l, r}, nil
	}
	s, err := build(0, len(in))
	if err != nil {
		return nil, err
	}
	if next != len(pre) {
		return nil, fmt.Errorf("pre-order has %d unused values", len(pre)-next)
	}
	return s, nil
}

// checkBalanced returns the height (empty = -1, leaf = 0) and fails if any
// node violates the AVL condition.
func checkBalanced(s *shape) (height int, err error) {
	if s == nil {
		return -1, nil
	}
	lh, err := checkBalanced(s.left)
	if err != nil {
		return 0, err
	}
	rh, err := checkBalanced(s.right)
	if err != nil {
		return 0, err
	}
	d := lh - rh
	if d < -1 || d > 1 {
		return 0, fmt.Errorf("unbalanced node: left height %d, right height %d", lh, rh)
	}
	if lh > rh {
		return lh + 1, nil
	}
	return rh + 1, nil
}

func depthBound(n int) float64 {
	return 1.4405 * math.Log2(float64(n)+2)
}

// checkTree verifies every clause of the property for a tree of distinct
// values: size, sorted in-order equal to the model, AVL balance at every
// node and the depth bound.
func checkTree[T comparable](t *testing.T, tree *avl.Tree[T], model []T, less func(a, b T) bool, ctx string) {
	t.Helper()
	pre := tree.SlicePreOrder()
	in := tree.SliceInOrder()
	post := tree.SlicePostOrder()
	n := len(model)
	if tree.Len() != n || len(pre) != n || len(in) != n || len(post) != n {
		t.Fatalf("%s: want %d values, got Len=%d pre=%d in=%d post=%d", ctx, n, tree.Len(), len(pre), len(in), len(post))
	}
	want := append([]T(nil), model...)
	sort.Slice(want, func(i, j int) bool { return less(want[i], want[j]) })
	for i := range want {
		if in[i] != want[i] {
			t.Fatalf("%s: in-order[%d] = %v, want %v\nin-order: %v", ctx, i, in[i], want[i], in)
		}
	}
	s, err := rebuild(pre, in)
	if err != nil {
		t.Fatalf("%s: traversals do not describe a tree: %v\npre: %v\nin:  %v", ctx, err, pre, in)
	}
	h, err := checkBalanced(s)
	if err != nil {
		t.Fatalf("%s: %v\npre: %v\nin:  %v", ctx, err, pre, in)
	}
	if levels := float64(h + 1); levels > depthBound(n) {
		t.Fatalf("%s: %d levels for %d values exceeds bound %.3f", ctx, h+1, n, depthBound(n))
	}
}

func intLess(a, b int) bool { return a < b }

// counting comparator ------------------------------------------------------

type counter struct{ n int }

func (c *counter) cmp(a, b int) int {
	c.n++
	switch {
	case a < b:
		return -1
	case a > b:
		return 1
	}
	return 0
}

func opBudget(n int) int {
	// One comparison per level is what the implementation needs; allow a
	// generous multiple of the depth bound.
	return int(3*depthBound(n)) + 4
}

// model helpers --------------------------------------------------------------

func removeFrom(model []int, v int) []int {
	for i, x := range model {
		if x == v {
			return append(model[:i:i], model[i+1:]...)
		}
	}
	return model
}

func has(model []int, v int) bool {
	for _, x := range model {
		if x == v {
			return true
		}
	}
	return false
}

// ---------------------------------------------------------------------------
// Tests

func TestEmptyAndSingle(t *testing.T) {
	tree := avl.NewOrdered[int]()
	checkTree(t, &tree, nil, intLess, "empty")
	if tree.Remove(1) {
		t.Fatal("Remove on empty tree returned true")
	}
	if tree.Contains(1) {
		t.Fatal("Contains on empty tree returned true")
	}
	tree.Add(7)
	checkTree(t, &tree, []int{7}, intLess, "single")
	if tree.Remove(8) {
		t.Fatal("Remove of missing value returned true")
	}
	checkTree(t, &tree, []int{7}, intLess, "single after failed remove")
	if !tree.Remove(7) {
		t.Fatal("Remove of the only value returned false")
	}
	checkTree(t, &tree, nil, intLess, "emptied")
	tree.Add(3)
	tree.Add(4)
	checkTree(t, &tree, []int{3, 4}, intLess, "two (right child)")
	tree.Clear()
	checkTree(t, &tree, nil, intLess, "cleared")
	tree.Add(4)
	tree.Add(3)
	checkTree(t, &tree, []int{4, 3}, intLess, "two (left child)")
	tree.Add(2)
	checkTree(t, &tree, []int{4, 3, 2}, intLess, "three, left-left rotation")
	if got := fmt.Sprint(tree.SlicePreOrder()); got != "[3 2 4]" {
		t.Fatalf("pre-order after left-left rotation = %s", got)
	}
}

func patterns(n int) map[string][]int {
	asc := make([]int, n)
	desc := make([]int, n)
	zig := make([]int, n)
	inward := make([]int, n)
	for i := 0; i < n; i++ {
		asc[i] = i
		desc[i] = n - 1 - i
		if i%2 == 0 {
			zig[i] = i / 2
			inward[i] = i / 2
		} else {
			zig[i] = n - 1 - i/2
			inward[i] = n/2 + i/2 + 1000000
		}
	}
	m := map[string][]int{"asc": asc, "desc": desc, "zigzag": zig, "two-runs": inward}
	for seed := int64(1); seed <= 3; seed++ {
		r := rand.New(rand.NewSource(seed))
		m[fmt.Sprintf("perm%d", seed)] = r.Perm(n)
	}
	return m
}

func TestInsertionOrders_CheckedAfterEveryAdd(t *testing.T) {
	const n = 1023
	for name, order := range patterns(n) {
		name, order := name, order
		t.Run(name, func(t *testing.T) {
			c := &counter{}
			tree := avl.New(c.cmp)
			var model []int
			for i, v := range order {
				before := c.n
				tree.Add(v)
				if used := c.n - before; used > opBudget(i+1) {
					t.Fatalf("Add #%d used %d comparisons, budget %d", i, used, opBudget(i+1))
				}
				model = append(model, v)
				// full check is O(n log n); do it always for small sizes and
				// at every step near powers of two, otherwise every 7th step
				if i < 130 || i%7 == 0 || (i&(i+1)) == 0 || (i&(i-1)) == 0 || i == n-1 {
					checkTree(t, &tree, model, intLess, fmt.Sprintf("%s after add #%d (%d)", name, i, v))
				}
			}
			for _, v := range order {
				before := c.n
				if !tree.Contains(v) {
					t.Fatalf("Contains(%d) = false", v)
				}
				if used := c.n - before; used > opBudget(n) {
					t.Fatalf("Contains used %d comparisons, budget %d", used, opBudget(n))
				}
			}
			if tree.Contains(-5) || tree.Contains(n+5) {
				t.Fatal("Contains of missing value returned true")
			}
		})
	}
}

func TestRemovalOrders_CheckedAfterEveryRemove(t *testing.T) {
	const n = 300
	inserts := patterns(n)
	removals := patterns(n)
	for iname, ins := range inserts {
		for rname, rem := range removals {
			if rname == "two-runs" {
				continue
			}
			// map removal pattern (a permutation of 0..n-1) onto inserted values
			sorted := append([]int(nil), ins...)
			sort.Ints(sorted)
			c := &counter{}
			tree := avl.New(c.cmp)
			model := append([]int(nil), ins...)
			for _, v := range ins {
				tree.Add(v)
			}
			checkTree(t, &tree, model, intLess, iname+" built")
			for i, idx := range rem {
				v := sorted[idx]
				before := c.n
				if !tree.Remove(v) {
					t.Fatalf("%s/%s: Remove(%d) = false", iname, rname, v)
				}
				if used := c.n - before; used > opBudget(len(model)) {
					t.Fatalf("Remove used %d comparisons, budget %d", used, opBudget(len(model)))
				}
				model = removeFrom(model, v)
				checkTree(t, &tree, model, intLess, fmt.Sprintf("%s/%s after remove #%d (%d)", iname, rname, i, v))
				if tree.Contains(v) {
					t.Fatalf("%s/%s: Contains(%d) after Remove", iname, rname, v)
				}
				if tree.Remove(v) {
					t.Fatalf("%s/%s: second Remove(%d) = true", iname, rname, v)
				}
			}
		}
	}
}

func TestAlwaysRemoveRoot(t *testing.T) {
	for _, n := range []int{1, 2, 3, 7, 8, 64, 255, 400} {
		tree := avl.NewOrdered[int]()
		var model []int
		for i := 0; i < n; i++ {
			tree.Add(i * 3)
			model = append(model, i*3)
		}
		for len(model) > 0 {
			root := tree.SlicePreOrder()[0]
			if !tree.Remove(root) {
				t.Fatalf("Remove(root %d) = false", root)
			}
			model = removeFrom(model, root)
			checkTree(t, &tree, model, intLess, fmt.Sprintf("n=%d after removing root %d", n, root))
		}
	}
}

func TestRandomInterleavings(t *testing.T) {
	for seed := int64(1); seed <= 12; seed++ {
		r := rand.New(rand.NewSource(seed))
		c := &counter{}
		tree := avl.New(c.cmp)
		var model []int
		universe := 40 + int(seed)*25
		pAdd := 0.45 + 0.03*float64(seed%5)
		for step := 0; step < 1500; step++ {
			v := r.Intn(universe)
			before := c.n
			sizeBefore := len(model)
			switch {
			case r.Float64() < pAdd:
				if has(model, v) {
					// keep values distinct so that the shape is observable
					if !tree.Contains(v) {
						t.Fatalf("seed %d step %d: Contains(%d) = false", seed, step, v)
					}
				} else {
					tree.Add(v)
					model = append(model, v)
				}
			default:
				want := has(model, v)
				if got := tree.Remove(v); got != want {
					t.Fatalf("seed %d step %d: Remove(%d) = %v, want %v", seed, step, v, got, want)
				}
				model = removeFrom(model, v)
			}
			if used := c.n - before; used > opBudget(sizeBefore+1) {
				t.Fatalf("seed %d step %d: %d comparisons for size %d, budget %d", seed, step, used, sizeBefore, opBudget(sizeBefore+1))
			}
			checkTree(t, &tree, model, intLess, fmt.Sprintf("seed %d step %d", seed, step))
			probe := r.Intn(universe)
			if got, want := tree.Contains(probe), has(model, probe); got != want {
				t.Fatalf("seed %d step %d: Contains(%d) = %v, want %v", seed, step, probe, got, want)
			}
		}
	}
}

func permutations(n int) [][]int {
	var out [][]int
	a := make([]int, n)
	for i := range a {
		a[i] = i
	}
	var rec func(k int)
	rec = func(k int) {
		if k == n {
			out = append(out, append([]int(nil), a...))
			return
		}
		for i := k; i < n; i++ {
			a[k], a[i] = a[i], a[k]
			rec(k + 1)
			a[k], a[i] = a[i], a[k]
		}
	}
	rec(0)
	return out
}

func TestExhaustiveSmall(t *testing.T) {
	// every insertion order of up to 7 values, checked after every Add
	for n := 1; n <= 7; n++ {
		for _, ins := range permutations(n) {
			tree := avl.NewOrdered[int]()
			for i, v := range ins {
				tree.Add(v)
				checkTree(t, &tree, ins[:i+1], intLess, fmt.Sprintf("ins %v after #%d", ins, i))
			}
		}
	}
	// every insertion order x every deletion order of 5 values
	perms := permutations(5)
	for _, ins := range perms {
		for _, del := range perms {
			tree := avl.NewOrdered[int]()
			for _, v := range ins {
				tree.Add(v)
			}
			model := append([]int(nil), ins...)
			for i, v := range del {
				if !tree.Remove(v) {
					t.Fatalf("ins %v del %v: Remove(%d) = false", ins, del, v)
				}
				model = removeFrom(model, v)
				checkTree(t, &tree, model, intLess, fmt.Sprintf("ins %v del %v after #%d", ins, del, i))
			}
		}
	}
	// every insertion order of 6 values, then each single removal followed by
	// re-insertion of that value and one more
	for _, ins := range permutations(6) {
		for _, v := range ins {
			tree := avl.NewOrdered[int]()
			for _, x := range ins {
				tree.Add(x)
			}
			if !tree.Remove(v) {
				t.Fatalf("ins %v: Remove(%d) = false", ins, v)
			}
			model := removeFrom(append([]int(nil), ins...), v)
			checkTree(t, &tree, model, intLess, fmt.Sprintf("ins %v removed %d", ins, v))
			tree.Add(v)
			tree.Add(100)
			model = append(model, v, 100)
			checkTree(t, &tree, model, intLess, fmt.Sprintf("ins %v removed and re-added %d", ins, v))
		}
	}
}

func TestStringsAndCustomComparator(t *testing.T) {
	// strings with the default comparator
	st := avl.NewOrdered[string]()
	var smodel []string
	for i := 0; i < 500; i++ {
		s := fmt.Sprintf("key-%04d", i)
		st.Add(s)
		smodel = append(smodel, s)
		checkTree(t, &st, smodel, func(a, b string) bool { return a < b }, "strings asc")
	}
	// reversed comparator: ascending input is descending in tree order
	rev := avl.New(func(a, b int) int {
		switch {
		case a > b:
			return -1
		case a < b:
			return 1
		}
		return 0
	})
	var model []int
	for i := 0; i < 600; i++ {
		rev.Add(i)
		model = append(model, i)
		checkTree(t, &rev, model, func(a, b int) bool { return a > b }, "reversed comparator add")
	}
	for i := 0; i < 600; i += 2 {
		if !rev.Remove(i) {
			t.Fatalf("Remove(%d) = false", i)
		}
		model = removeFrom(model, i)
		checkTree(t, &rev, model, func(a, b int) bool { return a > b }, "reversed comparator remove")
	}
}

type item struct{ key, id int }

func TestDuplicateKeysStayBalanced(t *testing.T) {
	// Values are distinct (so the shape is observable) but many compare as
	// equal. Only the shape clauses are asserted here.
	for seed := int64(1); seed <= 4; seed++ {
		r := rand.New(rand.NewSource(seed))
		tree := avl.New(func(a, b item) int {
			switch {
			case a.key < b.key:
				return -1
			case a.key > b.key:
				return 1
			}
			return 0
		})
		var live []item
		size := 0
		for step := 0; step < 1200; step++ {
			if len(live) == 0 || r.Intn(100) < 60 {
				it := item{key: r.Intn(6), id: step}
				tree.Add(it)
				live = append(live, it)
				size++
			} else {
				i := r.Intn(len(live))
				it := live[i]
				live = append(live[:i], live[i+1:]...)
				if tree.Remove(it) {
					size--
				}
			}
			if tree.Len() != size {
				t.Fatalf("seed %d step %d: Len = %d, want %d", seed, step, tree.Len(), size)
			}
			pre, in := tree.SlicePreOrder(), tree.SliceInOrder()
			for i := 1; i < len(in); i++ {
				if in[i-1].key > in[i].key {
					t.Fatalf("seed %d step %d: in-order keys not sorted: %v", seed, step, in)
				}
			}
			s, err := rebuild(pre, in)
			if err != nil {
				t.Fatalf("seed %d step %d: %v", seed, step, err)
			}
			h, err := checkBalanced(s)
			if err != nil {
				t.Fatalf("seed %d step %d: %v", seed, step, err)
			}
			if float64(h+1) > depthBound(len(in)) {
				t.Fatalf("seed %d step %d: %d levels for %d values", seed, step, h+1, len(in))
			}
		}
	}
}

func TestCloneIsBalancedAndIndependent(t *testing.T) {
	r := rand.New(rand.NewSource(99))
	tree := avl.NewOrdered[int]()
	var model []int
	for _, v := range r.Perm(700) {
		tree.Add(v)
		model = append(model, v)
	}
	for _, v := range r.Perm(700)[:250] {
		tree.Remove(v)
		model = removeFrom(model, v)
	}
	checkTree(t, &tree, model, intLess, "original")
	clone := tree.Clone()
	checkTree(t, &clone, model, intLess, "clone")
	before := fmt.Sprint(tree.SlicePreOrder())
	cmodel := append([]int(nil), model...)
	for i := 0; i < 300; i++ {
		clone.Add(1000 + i)
		cmodel = append(cmodel, 1000+i)
		if i%3 == 0 {
			v := cmodel[0]
			clone.Remove(v)
			cmodel = removeFrom(cmodel, v)
		}
		checkTree(t, &clone, cmodel, intLess, "mutated clone")
	}
	if after := fmt.Sprint(tree.SlicePreOrder()); after != before {
		t.Fatal("mutating the clone changed the original")
	}
	checkTree(t, &tree, model, intLess, "original after clone mutation")
}

func TestConcurrentIndependentTreesAndSharedReaders(t *testing.T) {
	shared := avl.NewOrdered[int]()
	var sharedModel []int
	for i := 0; i < 2000; i++ {
		shared.Add(i)
		sharedModel = append(sharedModel, i)
	}
	checkTree(t, &shared, sharedModel, intLess, "shared")
	wantPre := fmt.Sprint(shared.SlicePreOrder())

	var wg sync.WaitGroup
	errs := make(chan error, 64)
	for g := 0; g < 8; g++ {
		g := g
		wg.Add(1)
		go func() {
			defer wg.Done()
			// read-only use of the shared tree
			for i := 0; i < 2000; i += 7 {
				if !shared.Contains(i) {
					errs <- fmt.Errorf("goroutine %d: shared.Contains(%d) = false", g, i)
					return
				}
			}
			if shared.Contains(-1) || shared.Len() != 2000 {
				errs <- fmt.Errorf("goroutine %d: shared tree looks wrong", g)
				return
			}
			if got := fmt.Sprint(shared.SlicePreOrder()); got != wantPre {
				errs <- fmt.Errorf("goroutine %d: shared pre-order changed", g)
				return
			}
			// private tree with its own history
			r := rand.New(rand.NewSource(int64(100 + g)))
			tree := avl.NewOrdered[int]()
			var model []int
			for step := 0; step < 600; step++ {
				v := r.Intn(150)
				if r.Intn(3) > 0 {
					if !has(model, v) {
						tree.Add(v)
						model = append(model, v)
					}
				} else {
					if tree.Remove(v) != has(model, v) {
						errs <- fmt.Errorf("goroutine %d step %d: Remove(%d) disagrees with model", g, step, v)
						return
					}
					model = removeFrom(model, v)
				}
				pre, in := tree.SlicePreOrder(), tree.SliceInOrder()
				if len(in) != len(model) || !sort.IntsAreSorted(in) {
					errs <- fmt.Errorf("goroutine %d step %d: bad in-order", g, step)
					return
				}
				s, err := rebuild(pre, in)
				if err == nil {
					var h int
					h, err = checkBalanced(s)
					if err == nil && float64(h+1) > depthBound(len(in)) {
						err = fmt.Errorf("%d levels for %d values", h+1, len(in))
					}
				}
				if err != nil {
					errs <- fmt.Errorf("goroutine %d step %d: %v", g, step, err)
					return
				}
			}
		}()
	}
	wg.Wait()
	close(errs)
	for err := range errs {
		t.Error(err)
	}
}
