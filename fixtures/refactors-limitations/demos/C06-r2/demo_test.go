// Lock-step differential test: lists.List / lists.Ring (gopkg.in/typ.v4)
// against the reference model container/list / container/ring.
package demo_test

import (
	"container/list"
	"container/ring"
	"math/rand"
	"testing"

	"gopkg.in/typ.v4/lists"
)

// ---------------------------------------------------------------- lists

const walkCap = 5000

type listPair struct {
	s *lists.List[int]
	r *list.List
}

type listWorld struct {
	t   *testing.T
	ls  []listPair
	hs  []*lists.Element[int]
	hr  []*list.Element
	is  map[*lists.Element[int]]int
	ir  map[*list.Element]int
	val int
	log []string
}

func newListWorld(t *testing.T, n int) *listWorld {
	w := &listWorld{t: t, is: map[*lists.Element[int]]int{}, ir: map[*list.Element]int{}}
	for i := 0; i < n; i++ {
		w.ls = append(w.ls, listPair{})
		w.fresh(i, i%3)
	}
	return w
}

// fresh replaces list k with a brand new one; how selects the flavour.
func (w *listWorld) fresh(k, how int) {
	switch how {
	case 0: // zero value via new
		w.ls[k] = listPair{new(lists.List[int]), new(list.List)}
	case 1: // constructor
		w.ls[k] = listPair{lists.New[int](), list.New()}
	default: // zero value composite literal
		w.ls[k] = listPair{&lists.List[int]{}, &list.List{}}
	}
}

func rval(e *list.Element) int {
	if e.Value == nil {
		return 0
	}
	return e.Value.(int)
}

// reg maps a pair of element pointers to a common handle index (-1 for nil),
// failing if the two sides disagree about identity.
func (w *listWorld) reg(s *lists.Element[int], r *list.Element, what string) int {
	w.t.Helper()
	if (s == nil) != (r == nil) {
		w.t.Fatalf("%s: nil mismatch: typ nil=%v std nil=%v\nlog: %v", what, s == nil, r == nil, w.tail())
	}
	if s == nil {
		return -1
	}
	i, okS := w.is[s]
	j, okR := w.ir[r]
	if okS != okR || (okS && i != j) {
		w.t.Fatalf("%s: identity mismatch: typ (%d,%v) std (%d,%v)\nlog: %v", what, i, okS, j, okR, w.tail())
	}
	if okS {
		return i
	}
	w.hs = append(w.hs, s)
	w.hr = append(w.hr, r)
	w.is[s] = len(w.hs) - 1
	w.ir[r] = len(w.hr) - 1
	return len(w.hs) - 1
}

func (w *listWorld) tail() []string {
	if len(w.log) > 25 {
		return w.log[len(w.log)-25:]
	}
	return w.log
}

func (w *listWorld) check() {
	w.t.Helper()
	for k, p := range w.ls {
		if a, b := p.s.Len(), p.r.Len(); a != b {
			w.t.Fatalf("list %d: Len %d vs %d\nlog: %v", k, a, b, w.tail())
		}
		es, er := p.s.Front(), p.r.Front()
		for n := 0; n < walkCap; n++ {
			if w.reg(es, er, "forward walk") < 0 {
				break
			}
			if es.Value != rval(er) {
				w.t.Fatalf("list %d: forward value %d vs %d\nlog: %v", k, es.Value, rval(er), w.tail())
			}
			es, er = es.Next(), er.Next()
		}
		es, er = p.s.Back(), p.r.Back()
		for n := 0; n < walkCap; n++ {
			if w.reg(es, er, "backward walk") < 0 {
				break
			}
			if es.Value != rval(er) {
				w.t.Fatalf("list %d: backward value %d vs %d\nlog: %v", k, es.Value, rval(er), w.tail())
			}
			es, er = es.Prev(), er.Prev()
		}
	}
	for i := 0; i < len(w.hs); i++ {
		w.reg(w.hs[i].Next(), w.hr[i].Next(), "handle Next")
		w.reg(w.hs[i].Prev(), w.hr[i].Prev(), "handle Prev")
		if w.hs[i].Value != rval(w.hr[i]) {
			w.t.Fatalf("handle %d: value %d vs %d\nlog: %v", i, w.hs[i].Value, rval(w.hr[i]), w.tail())
		}
	}
}

const (
	opPushFront = iota
	opPushBack
	opInsertBefore
	opInsertAfter
	opRemove
	opMoveToFront
	opMoveToBack
	opMoveBefore
	opMoveAfter
	opPushBackList
	opPushFrontList
	opSetValue
	opInit
	opFresh
	numListOps
)

var listOpNames = [...]string{"PushFront", "PushBack", "InsertBefore", "InsertAfter", "Remove",
	"MoveToFront", "MoveToBack", "MoveBefore", "MoveAfter", "PushBackList", "PushFrontList",
	"SetValue", "Init", "Fresh"}

func itoa(i int) string {
	if i < 0 {
		return "-" + itoa(-i)
	}
	if i < 10 {
		return string(rune('0' + i))
	}
	return itoa(i/10) + string(rune('0'+i%10))
}

// apply runs one operation on both sides. h1/h2 index the handle table
// (ignored when the table is empty for ops that need a handle).
func (w *listWorld) apply(op, k, k2, h1, h2 int) (panicked bool) {
	w.t.Helper()
	w.log = append(w.log, listOpNames[op]+"(l"+itoa(k)+",l"+itoa(k2)+",h"+itoa(h1)+",h"+itoa(h2)+")")
	p := w.ls[k]
	needH := op >= opInsertBefore && op <= opMoveAfter || op == opSetValue
	if needH && len(w.hs) == 0 {
		return false
	}
	w.val++
	v := w.val
	switch op {
	case opPushFront:
		w.reg(p.s.PushFront(v), p.r.PushFront(v), "PushFront result")
	case opPushBack:
		w.reg(p.s.PushBack(v), p.r.PushBack(v), "PushBack result")
	case opInsertBefore:
		w.reg(p.s.InsertBefore(v, w.hs[h1]), p.r.InsertBefore(v, w.hr[h1]), "InsertBefore result")
	case opInsertAfter:
		w.reg(p.s.InsertAfter(v, w.hs[h1]), p.r.InsertAfter(v, w.hr[h1]), "InsertAfter result")
	case opRemove:
		a := p.s.Remove(w.hs[h1])
		b := p.r.Remove(w.hr[h1])
		bv := 0
		if b != nil {
			bv = b.(int)
		}
		if a != bv {
			w.t.Fatalf("Remove result %d vs %d\nlog: %v", a, bv, w.tail())
		}
	case opMoveToFront:
		p.s.MoveToFront(w.hs[h1])
		p.r.MoveToFront(w.hr[h1])
	case opMoveToBack:
		p.s.MoveToBack(w.hs[h1])
		p.r.MoveToBack(w.hr[h1])
	case opMoveBefore:
		p.s.MoveBefore(w.hs[h1], w.hs[h2])
		p.r.MoveBefore(w.hr[h1], w.hr[h2])
	case opMoveAfter:
		p.s.MoveAfter(w.hs[h1], w.hs[h2])
		p.r.MoveAfter(w.hr[h1], w.hr[h2])
	case opPushBackList:
		// After Init on a non-empty list, stale elements can make Len()
		// exceed the walkable length, in which case both sides panic.
		ps := try(func() { p.s.PushBackList(w.ls[k2].s) })
		pr := try(func() { p.r.PushBackList(w.ls[k2].r) })
		if ps != pr {
			w.t.Fatalf("PushBackList panic mismatch: typ %v std %v\nlog: %v", ps, pr, w.tail())
		}
		if ps {
			return true
		}
	case opPushFrontList:
		ps := try(func() { p.s.PushFrontList(w.ls[k2].s) })
		pr := try(func() { p.r.PushFrontList(w.ls[k2].r) })
		if ps != pr {
			w.t.Fatalf("PushFrontList panic mismatch: typ %v std %v\nlog: %v", ps, pr, w.tail())
		}
		if ps {
			return true
		}
	case opSetValue:
		w.hs[h1].Value = v
		w.hr[h1].Value = v
	case opInit:
		if p.s.Init() != p.s || p.r.Init() != p.r {
			w.t.Fatalf("Init did not return receiver")
		}
	case opFresh:
		w.fresh(k, h1%3)
	}
	w.check()
	return false
}

func try(f func()) (panicked bool) {
	defer func() {
		if recover() != nil {
			panicked = true
		}
	}()
	f()
	return false
}

// owner returns the index of the list currently containing handle h
// according to the reference model, or -1.
func (w *listWorld) owner(h int) int {
	for k, p := range w.ls {
		n := 0
		for e := p.r.Front(); e != nil && n < walkCap; e, n = e.Next(), n+1 {
			if e == w.hr[h] {
				return k
			}
		}
	}
	return -1
}

func (w *listWorld) totalLen() int {
	n := 0
	for _, p := range w.ls {
		if l := p.r.Len(); l > 0 {
			n += l
		}
	}
	return n
}

func runListTrial(t *testing.T, rng *rand.Rand, steps int, allowInit bool) {
	w := newListWorld(t, 3)
	w.check()
	for s := 0; s < steps; s++ {
		op := rng.Intn(numListOps)
		if op == opInit && (!allowInit || rng.Intn(4) != 0) {
			op = opPushBack
		}
		if op == opFresh && rng.Intn(5) != 0 {
			op = opPushFront
		}
		if (op == opPushBackList || op == opPushFrontList) && w.totalLen() > 60 {
			op = opRemove
		}
		k, k2 := rng.Intn(3), rng.Intn(3)
		if rng.Intn(3) == 0 {
			k2 = k // pushing a list onto itself
		}
		h1, h2 := 0, 0
		if n := len(w.hs); n > 0 {
			h1, h2 = rng.Intn(n), rng.Intn(n)
			// bias towards recently created handles (more likely alive)
			if rng.Intn(2) == 0 && n > 8 {
				h1 = n - 1 - rng.Intn(8)
			}
			if rng.Intn(2) == 0 && n > 8 {
				h2 = n - 1 - rng.Intn(8)
			}
			if rng.Intn(8) == 0 {
				h2 = h1
			}
			// bias towards calling on the list that owns the handle
			if rng.Intn(10) < 6 {
				if o := w.owner(h1); o >= 0 {
					k = o
				}
			}
			if rng.Intn(10) < 5 {
				// pick a mark from the same list
				if o := w.owner(h2); o >= 0 && o != k {
					for try := 0; try < 5; try++ {
						c := rng.Intn(n)
						if w.owner(c) == k {
							h2 = c
							break
						}
					}
				}
			}
		}
		if w.apply(op, k, k2, h1, h2) {
			return // both sides panicked identically; the trial ends here
		}
	}
}

func TestListRandomLockstep(t *testing.T) {
	for seed := int64(0); seed < 150; seed++ {
		rng := rand.New(rand.NewSource(seed))
		runListTrial(t, rng, 200, false)
	}
}

// Init on a non-empty list leaves stale elements that still claim
// ownership; container/list has well-defined (if odd) behaviour there.
func TestListRandomLockstepWithInit(t *testing.T) {
	for seed := int64(1000); seed < 1080; seed++ {
		rng := rand.New(rand.NewSource(seed))
		runListTrial(t, rng, 200, true)
	}
}

func TestListScriptedSpecialCases(t *testing.T) {
	w := newListWorld(t, 3) // list 0 and 2 are zero values, list 1 is New()
	w.check()
	// zero-value lists: list-to-list pushes with empty/zero operands
	w.apply(opPushBackList, 0, 0, 0, 0)
	w.apply(opPushFrontList, 2, 2, 0, 0)
	w.apply(opPushBackList, 0, 2, 0, 0)
	w.apply(opPushFrontList, 0, 1, 0, 0)
	w.fresh(0, 0)
	w.fresh(2, 2)
	w.apply(opPushBack, 1, 0, 0, 0)  // h0 in l1
	w.apply(opPushFront, 1, 0, 0, 0) // h1 in l1
	w.apply(opPushBack, 1, 0, 0, 0)  // h2 in l1
	// foreign handles on zero-value lists
	for _, op := range []int{opInsertBefore, opInsertAfter, opRemove, opMoveToFront, opMoveToBack} {
		w.apply(op, 0, 0, 0, 0)
		w.apply(op, 2, 0, 1, 0)
	}
	w.apply(opMoveBefore, 0, 0, 0, 1)
	w.apply(opMoveAfter, 2, 0, 2, 1)
	// zero-value list first use through each entry point
	w.apply(opPushFront, 0, 0, 0, 0) // h3 in l0
	w.apply(opPushBack, 2, 0, 0, 0)  // h4 in l2
	// mixed ownership in Move*
	w.apply(opMoveBefore, 1, 0, 0, 3)
	w.apply(opMoveBefore, 1, 0, 3, 0)
	w.apply(opMoveAfter, 1, 0, 0, 4)
	w.apply(opMoveAfter, 1, 0, 4, 0)
	w.apply(opMoveBefore, 0, 0, 0, 1) // both in l1, called on l0
	// e == mark
	w.apply(opMoveBefore, 1, 0, 1, 1)
	w.apply(opMoveAfter, 1, 0, 1, 1)
	// all orderings within l1 (h1,h0,h2)
	for a := 0; a < 3; a++ {
		for b := 0; b < 3; b++ {
			w.apply(opMoveBefore, 1, 0, a, b)
			w.apply(opMoveAfter, 1, 0, a, b)
		}
		w.apply(opMoveToFront, 1, 0, a, 0)
		w.apply(opMoveToFront, 1, 0, a, 0)
		w.apply(opMoveToBack, 1, 0, a, 0)
		w.apply(opMoveToBack, 1, 0, a, 0)
	}
	// self push
	w.apply(opPushBackList, 1, 1, 0, 0)
	w.apply(opPushFrontList, 1, 1, 0, 0)
	w.apply(opPushBackList, 0, 0, 0, 0)
	w.apply(opPushFrontList, 0, 0, 0, 0)
	w.apply(opPushBackList, 0, 1, 0, 0)
	w.apply(opPushFrontList, 2, 1, 0, 0)
	// removed handles
	w.apply(opRemove, 1, 0, 0, 0)
	for _, op := range []int{opRemove, opInsertBefore, opInsertAfter, opMoveToFront, opMoveToBack} {
		w.apply(op, 1, 0, 0, 0)
	}
	w.apply(opMoveBefore, 1, 0, 0, 1)
	w.apply(opMoveBefore, 1, 0, 1, 0)
	w.apply(opMoveAfter, 1, 0, 0, 1)
	w.apply(opMoveAfter, 1, 0, 1, 0)
	// drain everything via handles
	for h := 0; h < len(w.hs); h++ {
		if o := w.owner(h); o >= 0 {
			w.apply(opRemove, o, 0, h, 0)
		}
	}
	for k := range w.ls {
		if w.ls[k].s.Len() != 0 || w.ls[k].s.Front() != nil || w.ls[k].s.Back() != nil {
			t.Fatalf("list %d not empty after draining", k)
		}
	}
	// Init then reuse; stale handle operations
	w.apply(opPushBack, 1, 0, 0, 0)
	w.apply(opPushBack, 1, 0, 0, 0)
	w.apply(opPushBack, 1, 0, 0, 0)
	n := len(w.hs)
	w.apply(opInit, 1, 0, 0, 0)
	w.apply(opPushBack, 1, 0, 0, 0)
	w.apply(opRemove, 1, 0, n-2, 0)
	w.apply(opMoveToFront, 1, 0, n-1, 0)
	w.apply(opInsertAfter, 1, 0, n-3, 0)
	w.apply(opMoveBefore, 1, 0, n-3, n)
	// a detached zero Element
	var ze lists.Element[int]
	if ze.Next() != nil || ze.Prev() != nil {
		t.Fatalf("zero Element Next/Prev not nil")
	}
}

// ---------------------------------------------------------------- rings

type ringWorld struct {
	t   *testing.T
	hs  []*lists.Ring[int]
	hr  []*ring.Ring
	is  map[*lists.Ring[int]]int
	ir  map[*ring.Ring]int
	val int
	log []string
}

func newRingWorld(t *testing.T) *ringWorld {
	return &ringWorld{t: t, is: map[*lists.Ring[int]]int{}, ir: map[*ring.Ring]int{}}
}

func (w *ringWorld) tail() []string {
	if len(w.log) > 25 {
		return w.log[len(w.log)-25:]
	}
	return w.log
}

func (w *ringWorld) add(s *lists.Ring[int], r *ring.Ring) {
	w.val++
	s.Value = w.val
	r.Value = w.val
	w.hs = append(w.hs, s)
	w.hr = append(w.hr, r)
	w.is[s] = len(w.hs) - 1
	w.ir[r] = len(w.hr) - 1
}

// same checks that two results denote the same handle (or both nil).
func (w *ringWorld) same(s *lists.Ring[int], r *ring.Ring, what string) {
	w.t.Helper()
	if (s == nil) != (r == nil) {
		w.t.Fatalf("%s: nil mismatch typ nil=%v std nil=%v\nlog: %v", what, s == nil, r == nil, w.tail())
	}
	if s == nil {
		return
	}
	i, okS := w.is[s]
	j, okR := w.ir[r]
	if !okS || !okR || i != j {
		w.t.Fatalf("%s: identity mismatch typ (%d,%v) std (%d,%v)\nlog: %v", what, i, okS, j, okR, w.tail())
	}
}

func (w *ringWorld) newRing(n int) {
	w.log = append(w.log, "NewRing("+itoa(n)+")")
	s := lists.NewRing[int](n)
	r := ring.New(n)
	if (s == nil) != (r == nil) {
		w.t.Fatalf("NewRing(%d) nil mismatch", n)
	}
	if s == nil {
		return
	}
	if s.Len() != r.Len() || s.Len() != n {
		w.t.Fatalf("NewRing(%d) Len %d vs %d", n, s.Len(), r.Len())
	}
	for i := 0; i < n; i++ {
		if s.Value != 0 || r.Value != nil {
			w.t.Fatalf("NewRing(%d) value not zero", n)
		}
		w.add(s, r)
		s, r = s.Next(), r.Next()
	}
}

func (w *ringWorld) zeroRing(how int) {
	w.log = append(w.log, "ZeroRing")
	if how%2 == 0 {
		w.add(new(lists.Ring[int]), new(ring.Ring))
	} else {
		w.add(&lists.Ring[int]{}, &ring.Ring{})
	}
}

func (w *ringWorld) doVals(h int) {
	w.t.Helper()
	var a, b []int
	w.hs[h].Do(func(v int) { a = append(a, v) })
	w.hr[h].Do(func(v any) { b = append(b, v.(int)) })
	if len(a) != len(b) {
		w.t.Fatalf("Do(h%d): %v vs %v\nlog: %v", h, a, b, w.tail())
	}
	for i := range a {
		if a[i] != b[i] {
			w.t.Fatalf("Do(h%d): %v vs %v\nlog: %v", h, a, b, w.tail())
		}
	}
}

const (
	rNext = iota
	rPrev
	rMove
	rLink
	rLinkNil
	rUnlink
	rLen
	rDo
	numRingOps
)

var ringOpNames = [...]string{"Next", "Prev", "Move", "Link", "LinkNil", "Unlink", "Len", "Do"}

func (w *ringWorld) apply(op, h, h2, n int) {
	w.t.Helper()
	w.log = append(w.log, ringOpNames[op]+"(h"+itoa(h)+",h"+itoa(h2)+","+itoa(n)+")")
	s, r := w.hs[h], w.hr[h]
	switch op {
	case rNext:
		w.same(s.Next(), r.Next(), "Next")
	case rPrev:
		w.same(s.Prev(), r.Prev(), "Prev")
	case rMove:
		w.same(s.Move(n), r.Move(n), "Move")
	case rLink:
		w.same(s.Link(w.hs[h2]), r.Link(w.hr[h2]), "Link")
	case rLinkNil:
		w.same(s.Link(nil), r.Link(nil), "Link(nil)")
	case rUnlink:
		w.same(s.Unlink(n), r.Unlink(n), "Unlink")
	case rLen:
		if a, b := s.Len(), r.Len(); a != b {
			w.t.Fatalf("Len(h%d) %d vs %d\nlog: %v", h, a, b, w.tail())
		}
	case rDo:
		w.doVals(h)
	}
}

// fullCheck observes every handle (this initialises zero rings on both
// sides, exactly as the public API does).
func (w *ringWorld) fullCheck() {
	w.t.Helper()
	for h := range w.hs {
		w.same(w.hs[h].Next(), w.hr[h].Next(), "check Next")
		w.same(w.hs[h].Prev(), w.hr[h].Prev(), "check Prev")
		if a, b := w.hs[h].Len(), w.hr[h].Len(); a != b {
			w.t.Fatalf("check Len(h%d) %d vs %d\nlog: %v", h, a, b, w.tail())
		}
		if w.hs[h].Value != w.hr[h].Value.(int) {
			w.t.Fatalf("check Value(h%d)", h)
		}
	}
	for h := range w.hs {
		w.doVals(h)
		// backward traversal
		s, r := w.hs[h], w.hr[h]
		for i := 0; i < len(w.hs)+1; i++ {
			s, r = s.Prev(), r.Prev()
			w.same(s, r, "backward walk")
		}
		for _, n := range []int{-7, -1, 0, 1, 2, 13} {
			w.same(w.hs[h].Move(n), w.hr[h].Move(n), "check Move")
		}
	}
}

func TestRingRandomLockstep(t *testing.T) {
	for seed := int64(0); seed < 300; seed++ {
		rng := rand.New(rand.NewSource(seed))
		w := newRingWorld(t)
		for step := 0; step < 200; step++ {
			if len(w.hs) == 0 || (len(w.hs) < 40 && rng.Intn(8) == 0) {
				if rng.Intn(2) == 0 {
					w.zeroRing(rng.Intn(2))
				} else {
					w.newRing([]int{-3, -1, 0, 1, 1, 2, 3, 5, 8}[rng.Intn(9)])
				}
				continue
			}
			op := rng.Intn(numRingOps)
			h, h2 := rng.Intn(len(w.hs)), rng.Intn(len(w.hs))
			if rng.Intn(10) == 0 {
				h2 = h
			}
			n := rng.Intn(31) - 10
			if rng.Intn(10) == 0 {
				n = rng.Intn(200) - 100
			}
			w.apply(op, h, h2, n)
			if rng.Intn(5) == 0 {
				w.fullCheck()
			}
		}
		w.fullCheck()
	}
}

func TestRingScriptedSpecialCases(t *testing.T) {
	// nil rings
	var ns *lists.Ring[int]
	var nr *ring.Ring
	if ns.Len() != nr.Len() || ns.Len() != 0 {
		t.Fatalf("nil Len")
	}
	called := false
	ns.Do(func(int) { called = true })
	nr.Do(func(any) { called = true })
	if called {
		t.Fatalf("Do on nil ring called f")
	}
	for _, n := range []int{-5, -1, 0} {
		if lists.NewRing[int](n) != nil || ring.New(n) != nil {
			t.Fatalf("NewRing(%d) not nil", n)
		}
	}

	// every first operation on a zero ring, with every kind of partner
	for first := 0; first < numRingOps; first++ {
		for _, n := range []int{-3, -1, 0, 1, 2, 5} {
			for partner := 0; partner < 4; partner++ {
				w := newRingWorld(t)
				w.zeroRing(first) // h0: zero
				switch partner {
				case 0:
					w.zeroRing(n) // h1: another zero ring
				case 1:
					w.newRing(1)
				case 2:
					w.newRing(3)
				case 3: // self
				}
				h2 := 1
				if partner == 3 {
					h2 = 0
				}
				w.apply(first, 0, h2, n)
				if partner != 3 {
					// and the mirrored call: initialised/zero receiver, zero argument
					w.apply(rLink, h2, 0, 0)
				}
				w.fullCheck()
			}
		}
	}

	// same-ring and different-ring Link for every pair, every Unlink count
	for size := 1; size <= 5; size++ {
		for a := 0; a < size; a++ {
			for b := 0; b < size; b++ {
				w := newRingWorld(t)
				w.newRing(size)
				w.newRing(3)
				w.apply(rLink, a, b, 0) // same ring
				w.fullCheck()
				w.apply(rLink, a, size+b%3, 0) // possibly different ring
				w.fullCheck()
			}
			for n := -2; n <= 2*size+2; n++ {
				w := newRingWorld(t)
				w.newRing(size)
				w.apply(rUnlink, a, 0, n)
				w.fullCheck()
				w.apply(rMove, a, 0, n)
				w.apply(rMove, a, 0, -n)
			}
		}
	}
}
