package demo

import (
	"fmt"
	"math"
	"math/rand"
	"reflect"
	"runtime"
	"strings"
	"sync"
	"testing"

	"gopkg.in/typ.v4/slices"
)

// ints is a named slice type; the functions must keep it (S, not []E).
type ints []int

// piece describes one returned piece by its position in the backing array.
type piece struct {
	off, length, capacity int
}

func sameInts(a, b ints) bool {
	if len(a) != len(b) {
		return false
	}
	for i := range a {
		if a[i] != b[i] {
			return false
		}
	}
	return true
}

func mkInput(n, extraCap int) ints {
	in := make(ints, n, n+extraCap)
	for i := range in {
		in[i] = 1000 + i
	}
	return in
}

// describe locates p inside in (by address) and checks its contents.
func describe(t *testing.T, what string, in ints, p ints) piece {
	t.Helper()
	if len(p) == 0 {
		return piece{off: -1, length: 0, capacity: cap(p)}
	}
	full := in[:cap(in)]
	for off := range full {
		if &full[off] == &p[0] {
			for k := range p {
				if p[k] != 1000+off+k && off+k < len(in) {
					t.Fatalf("%s: content mismatch at offset %d", what, off+k)
				}
			}
			return piece{off: off, length: len(p), capacity: cap(p)}
		}
	}
	t.Fatalf("%s: piece does not alias the input", what)
	return piece{}
}

func modelChunk(n, c, size int) []piece {
	var want []piece
	for j := 0; j < n; j += size {
		l := size
		if n-j < l {
			l = n - j
		}
		want = append(want, piece{off: j, length: l, capacity: c - j})
	}
	return want
}

func modelWindowed(n, c, size int) []piece {
	var want []piece
	for j := 0; j+size <= n; j++ {
		want = append(want, piece{off: j, length: size, capacity: c - j})
	}
	return want
}

func checkChunk(t *testing.T, n, extraCap, size int) {
	t.Helper()
	in := mkInput(n, extraCap)
	snapshot := append(ints(nil), in...)
	what := fmt.Sprintf("Chunk(n=%d,cap=%d,size=%d)", n, cap(in), size)

	var got []ints = slices.Chunk(in, size)
	want := modelChunk(n, cap(in), size)

	wantCount := 0
	if n > 0 {
		wantCount = (n + size - 1) / size
		if size > n {
			wantCount = 1
		}
	}
	if len(got) != wantCount || len(want) != wantCount {
		t.Fatalf("%s: got %d chunks, want %d", what, len(got), wantCount)
	}
	if n == 0 && got != nil {
		t.Fatalf("%s: want nil result for empty input", what)
	}
	if n > 0 && cap(got) != len(got) {
		t.Fatalf("%s: result cap=%d len=%d", what, cap(got), len(got))
	}
	var concat ints
	for i, c := range got {
		if len(c) == 0 {
			t.Fatalf("%s: chunk %d is empty", what, i)
		}
		if i < len(got)-1 && len(c) != size {
			t.Fatalf("%s: chunk %d has len %d", what, i, len(c))
		}
		if len(c) > size {
			t.Fatalf("%s: chunk %d too long: %d", what, i, len(c))
		}
		if d := describe(t, what, in, c); d != want[i] {
			t.Fatalf("%s: chunk %d = %+v, want %+v", what, i, d, want[i])
		}
		concat = append(concat, c...)
	}
	if len(concat) != n || !sameInts(concat, snapshot) {
		t.Fatalf("%s: concatenation differs from input", what)
	}

	// ChunkFunc: identical sequence of pieces.
	var seq []piece
	slices.ChunkFunc(in, size, func(chunk ints) {
		seq = append(seq, describe(t, what+" func", in, chunk))
	})
	if !reflect.DeepEqual(seq, want) {
		t.Fatalf("%s: ChunkFunc sequence %+v, want %+v", what, seq, want)
	}
	if !sameInts(in, snapshot) {
		t.Fatalf("%s: input modified", what)
	}
}

func checkWindowed(t *testing.T, n, extraCap, size int) {
	t.Helper()
	in := mkInput(n, extraCap)
	snapshot := append(ints(nil), in...)
	what := fmt.Sprintf("Windowed(n=%d,cap=%d,size=%d)", n, cap(in), size)

	var got []ints = slices.Windowed(in, size)
	want := modelWindowed(n, cap(in), size)
	wantCount := n - size + 1
	if wantCount < 0 {
		wantCount = 0
	}
	if len(got) != wantCount || len(want) != wantCount {
		t.Fatalf("%s: got %d windows, want %d", what, len(got), wantCount)
	}
	if n < size && got != nil {
		t.Fatalf("%s: want nil result", what)
	}
	if n >= size && (got == nil || cap(got) != len(got)) {
		t.Fatalf("%s: result nil or cap=%d len=%d", what, cap(got), len(got))
	}
	for i, w := range got {
		if len(w) != size {
			t.Fatalf("%s: window %d has len %d", what, i, len(w))
		}
		if d := describe(t, what, in, w); d != want[i] {
			t.Fatalf("%s: window %d = %+v, want %+v", what, i, d, want[i])
		}
		if !sameInts(w, snapshot[i:i+size]) {
			t.Fatalf("%s: window %d content", what, i)
		}
	}
	var seq []piece
	slices.WindowedFunc(in, size, func(window ints) {
		seq = append(seq, describe(t, what+" func", in, window))
	})
	if !reflect.DeepEqual(seq, want) {
		t.Fatalf("%s: WindowedFunc sequence %+v, want %+v", what, seq, want)
	}
	if !sameInts(in, snapshot) {
		t.Fatalf("%s: input modified", what)
	}
}

func checkPairs(t *testing.T, n, extraCap int) {
	t.Helper()
	in := mkInput(n, extraCap)
	snapshot := append(ints(nil), in...)
	what := fmt.Sprintf("Pairs(n=%d)", n)

	var got [][2]int = slices.Pairs(in)
	wantCount := n - 1
	if wantCount < 0 {
		wantCount = 0
	}
	if len(got) != wantCount {
		t.Fatalf("%s: got %d pairs, want %d", what, len(got), wantCount)
	}
	if n < 2 && got != nil {
		t.Fatalf("%s: want nil result", what)
	}
	if n >= 2 && (got == nil || cap(got) != len(got)) {
		t.Fatalf("%s: result nil or cap=%d len=%d", what, cap(got), len(got))
	}
	for i, p := range got {
		if p != [2]int{snapshot[i], snapshot[i+1]} {
			t.Fatalf("%s: pair %d = %v", what, i, p)
		}
	}
	var seq [][2]int
	slices.PairsFunc(in, func(a, b int) {
		seq = append(seq, [2]int{a, b})
	})
	if len(seq) != len(got) {
		t.Fatalf("%s: PairsFunc made %d calls, want %d", what, len(seq), len(got))
	}
	for i := range seq {
		if seq[i] != got[i] {
			t.Fatalf("%s: PairsFunc call %d = %v, want %v", what, i, seq[i], got[i])
		}
	}
	// Pairs are copies: writing to them must not touch the input.
	for i := range got {
		got[i][0], got[i][1] = -1, -1
	}
	if !sameInts(in, snapshot) {
		t.Fatalf("%s: input modified", what)
	}
}

func TestExhaustiveSmall(t *testing.T) {
	for n := 0; n <= 40; n++ {
		for _, extra := range []int{0, 3} {
			checkPairs(t, n, extra)
			for size := 1; size <= 45; size++ {
				checkChunk(t, n, extra, size)
				checkWindowed(t, n, extra, size)
			}
		}
	}
}

func TestRandomised(t *testing.T) {
	for _, seed := range []int64{1, 13, 1313} {
		rng := rand.New(rand.NewSource(seed))
		for it := 0; it < 400; it++ {
			n := rng.Intn(300)
			extra := rng.Intn(5)
			var size int
			switch rng.Intn(5) {
			case 0:
				size = 1
			case 1:
				size = n + rng.Intn(3) // size == n, n+1, n+2
			case 2:
				size = n/2 + 1
			default:
				size = 1 + rng.Intn(n+10)
			}
			if size < 1 {
				size = 1
			}
			checkChunk(t, n, extra, size)
			checkWindowed(t, n, extra, size)
			checkPairs(t, n, extra)
		}
	}
}

func TestHugeSizes(t *testing.T) {
	for _, size := range []int{1 << 30, math.MaxInt32, math.MaxInt - 1, math.MaxInt} {
		for _, n := range []int{0, 1, 2, 7} {
			checkChunk(t, n, 2, size)
			checkWindowed(t, n, 2, size)
		}
	}
}

func TestNilAndEmptyInputs(t *testing.T) {
	var nilIn ints
	empty := ints{}
	for _, in := range []ints{nilIn, empty} {
		for _, size := range []int{1, 2, 100} {
			if got := slices.Chunk(in, size); got != nil {
				t.Fatalf("Chunk(empty,%d) = %v", size, got)
			}
			if got := slices.Windowed(in, size); got != nil {
				t.Fatalf("Windowed(empty,%d) = %v", size, got)
			}
			slices.ChunkFunc(in, size, func(ints) { t.Fatal("ChunkFunc callback on empty input") })
			slices.WindowedFunc(in, size, func(ints) { t.Fatal("WindowedFunc callback on empty input") })
		}
		if got := slices.Pairs(in); got != nil {
			t.Fatalf("Pairs(empty) = %v", got)
		}
		slices.PairsFunc(in, func(a, b int) { t.Fatal("PairsFunc callback on empty input") })
	}
	one := ints{5}
	if got := slices.Pairs(one); got != nil {
		t.Fatalf("Pairs(one) = %v", got)
	}
	slices.PairsFunc(one, func(a, b int) { t.Fatal("PairsFunc callback on single element") })
}

// Pieces alias the input: writes through a piece are seen in the input and
// the other way round (Chunk, Windowed and their Func variants).
func TestAliasing(t *testing.T) {
	in := mkInput(7, 0)
	chunks := slices.Chunk(in, 3)
	chunks[2][0] = -7
	if in[6] != -7 {
		t.Fatal("Chunk pieces must alias the input")
	}
	in[0] = -1
	if chunks[0][0] != -1 {
		t.Fatal("Chunk pieces must alias the input")
	}
	whole := slices.Chunk(in, 7)
	if len(whole) != 1 || &whole[0][0] != &in[0] || len(whole[0]) != 7 {
		t.Fatal("Chunk with size == n must return the input as the only piece")
	}
	bigger := slices.Chunk(in, 8)
	if len(bigger) != 1 || &bigger[0][0] != &in[0] || len(bigger[0]) != 7 {
		t.Fatal("Chunk with size > n must return the input as the only piece")
	}
	// The result slice itself is fresh on every call.
	again := slices.Chunk(in, 8)
	again[0] = nil
	if bigger[0] == nil {
		t.Fatal("Chunk result must be a fresh slice")
	}
	wins := slices.Windowed(in, 7)
	if len(wins) != 1 || &wins[0][0] != &in[0] {
		t.Fatal("Windowed with size == n must return the input as the only window")
	}
	slices.WindowedFunc(in, 2, func(w ints) { w[1] = w[0] })
	for i := range in {
		if in[i] != -1 {
			t.Fatalf("WindowedFunc windows must alias the input: %v", in)
		}
	}
}

// Callback panics propagate and stop the iteration.
func TestCallbackPanicPropagates(t *testing.T) {
	in := mkInput(10, 0)
	calls := 0
	func() {
		defer func() {
			if r := recover(); r != "stop" {
				t.Fatalf("recovered %v", r)
			}
		}()
		slices.ChunkFunc(in, 3, func(ints) {
			calls++
			if calls == 2 {
				panic("stop")
			}
		})
	}()
	if calls != 2 {
		t.Fatalf("ChunkFunc made %d calls", calls)
	}
	calls = 0
	func() {
		defer func() { recover() }()
		slices.WindowedFunc(in, 3, func(ints) {
			calls++
			if calls == 3 {
				panic("stop")
			}
		})
	}()
	if calls != 3 {
		t.Fatalf("WindowedFunc made %d calls", calls)
	}
	calls = 0
	func() {
		defer func() { recover() }()
		slices.PairsFunc(in, func(a, b int) {
			calls++
			if calls == 4 {
				panic("stop")
			}
		})
	}()
	if calls != 4 {
		t.Fatalf("PairsFunc made %d calls", calls)
	}
}

// outcome runs f and renders what happened, so that behaviour outside the
// property's domain (size <= 0) is pinned too.
func outcome(f func() string) (res string) {
	defer func() {
		if r := recover(); r != nil {
			if re, ok := r.(runtime.Error); ok {
				msg := re.Error()
				for _, key := range []string{"divide by zero", "makeslice: len out of range", "slice bounds out of range", "index out of range"} {
					if strings.Contains(msg, key) {
						res = "panic: " + key
						return
					}
				}
				res = "panic: runtime: " + msg
				return
			}
			res = fmt.Sprint("panic: ", r)
		}
	}()
	return f()
}

func render(pieces []ints) string {
	if pieces == nil {
		return "nil"
	}
	return fmt.Sprint(len(pieces), cap(pieces), pieces)
}

func TestNonPositiveSizesUnchanged(t *testing.T) {
	five := func() ints { return ints{1, 2, 3, 4, 5} }
	cases := []struct {
		name string
		f    func() string
		want string
	}{
		{"Chunk(nil,0)", func() string { return render(slices.Chunk(ints(nil), 0)) }, "nil"},
		{"Chunk(nil,-1)", func() string { return render(slices.Chunk(ints(nil), -1)) }, "nil"},
		{"Chunk(5,0)", func() string { return render(slices.Chunk(five(), 0)) }, "panic: divide by zero"},
		{"Chunk(5,-2)", func() string { return render(slices.Chunk(five(), -2)) }, "panic: makeslice: len out of range"},
		{"Chunk(5,-3)", func() string { return render(slices.Chunk(five(), -3)) }, "panic: slice bounds out of range"},
		{"Chunk(5,-5)", func() string { return render(slices.Chunk(five(), -5)) }, "panic: makeslice: len out of range"},
		{"Chunk(5,-6)", func() string { return render(slices.Chunk(five(), -6)) }, "1 1 [[1 2 3 4 5]]"},
		{"Chunk(5,MinInt)", func() string { return render(slices.Chunk(five(), math.MinInt)) }, "1 1 [[1 2 3 4 5]]"},
		{"Windowed(nil,0)", func() string { return render(slices.Windowed(ints(nil), 0)) }, "1 1 [[]]"},
		{"Windowed(5,0)", func() string { return render(slices.Windowed(five(), 0)) }, "6 6 [[] [] [] [] [] []]"},
		{"Windowed(5,-1)", func() string { return render(slices.Windowed(five(), -1)) }, "panic: slice bounds out of range"},
		{"Windowed(nil,-1)", func() string { return render(slices.Windowed(ints(nil), -1)) }, "panic: slice bounds out of range"},
	}
	for _, c := range cases {
		if got := outcome(c.f); got != c.want {
			t.Errorf("%s: got %q, want %q", c.name, got, c.want)
		}
	}

	funcCases := []struct {
		name string
		run  func(cb func(ints))
		want string
	}{
		{"ChunkFunc(nil,0)", func(cb func(ints)) { slices.ChunkFunc(ints(nil), 0, cb) }, "calls: []"},
		{"ChunkFunc(5,0)", func(cb func(ints)) { slices.ChunkFunc(five(), 0, cb) }, "panic: divide by zero after []"},
		{"ChunkFunc(5,-2)", func(cb func(ints)) { slices.ChunkFunc(five(), -2, cb) }, "panic: slice bounds out of range after []"},
		{"ChunkFunc(5,-6)", func(cb func(ints)) { slices.ChunkFunc(five(), -6, cb) }, "calls: [[1 2 3 4 5]]"},
		{"WindowedFunc(5,0)", func(cb func(ints)) { slices.WindowedFunc(five(), 0, cb) }, "calls: [[] [] [] [] [] []]"},
		{"WindowedFunc(nil,0)", func(cb func(ints)) { slices.WindowedFunc(ints(nil), 0, cb) }, "calls: [[]]"},
		{"WindowedFunc(5,-1)", func(cb func(ints)) { slices.WindowedFunc(five(), -1, cb) }, "panic: slice bounds out of range after []"},
	}
	for _, c := range funcCases {
		var calls []ints
		got := outcome(func() string {
			c.run(func(p ints) { calls = append(calls, p) })
			return "calls: " + fmt.Sprint(calls)
		})
		if strings.HasPrefix(got, "panic:") {
			got += " after " + fmt.Sprint(calls)
		}
		if got != c.want {
			t.Errorf("%s: got %q, want %q", c.name, got, c.want)
		}
	}
}

// The functions only read their input, so any number of goroutines may
// partition the same slice at once (run with -race).
func TestConcurrentReaders(t *testing.T) {
	in := mkInput(101, 4)
	var wg sync.WaitGroup
	errs := make(chan string, 64)
	for g := 0; g < 8; g++ {
		wg.Add(1)
		go func(g int) {
			defer wg.Done()
			for size := 1; size <= 110; size++ {
				chunks := slices.Chunk(in, size)
				if want := (101 + size - 1) / size; len(chunks) != want {
					errs <- fmt.Sprintf("g%d: Chunk size %d: %d chunks", g, size, len(chunks))
					return
				}
				total, calls := 0, 0
				slices.ChunkFunc(in, size, func(c ints) {
					if calls >= len(chunks) || &c[0] != &chunks[calls][0] || len(c) != len(chunks[calls]) {
						errs <- fmt.Sprintf("g%d: ChunkFunc size %d call %d differs", g, size, calls)
					}
					calls++
					total += len(c)
				})
				if total != 101 || calls != len(chunks) {
					errs <- fmt.Sprintf("g%d: ChunkFunc size %d covered %d in %d calls", g, size, total, calls)
					return
				}
				wins := slices.Windowed(in, size)
				wantW := 101 - size + 1
				if wantW < 0 {
					wantW = 0
				}
				calls = 0
				slices.WindowedFunc(in, size, func(w ints) {
					if calls >= len(wins) || &w[0] != &wins[calls][0] || len(w) != size {
						errs <- fmt.Sprintf("g%d: WindowedFunc size %d call %d differs", g, size, calls)
					}
					calls++
				})
				if len(wins) != wantW || calls != wantW {
					errs <- fmt.Sprintf("g%d: Windowed size %d: %d windows, %d calls", g, size, len(wins), calls)
					return
				}
			}
			pairs := slices.Pairs(in)
			calls := 0
			slices.PairsFunc(in, func(a, b int) {
				if calls >= len(pairs) || pairs[calls] != [2]int{a, b} || b != a+1 {
					errs <- fmt.Sprintf("g%d: PairsFunc call %d differs", g, calls)
				}
				calls++
			})
			if len(pairs) != 100 || calls != 100 {
				errs <- fmt.Sprintf("g%d: %d pairs, %d calls", g, len(pairs), calls)
			}
		}(g)
	}
	wg.Wait()
	close(errs)
	for e := range errs {
		t.Error(e)
	}
}

// Non-int element types and unnamed slice types work the same way.
func TestOtherElementTypes(t *testing.T) {
	in := []string{"a", "b", "c", "d", "e"}
	if got := fmt.Sprint(slices.Chunk(in, 2)); got != "[[a b] [c d] [e]]" {
		t.Fatalf("Chunk = %s", got)
	}
	if got := fmt.Sprint(slices.Chunk(in, 3)); got != "[[a b c] [d e]]" {
		t.Fatalf("Chunk = %s", got)
	}
	if got := fmt.Sprint(slices.Windowed(in, 4)); got != "[[a b c d] [b c d e]]" {
		t.Fatalf("Windowed = %s", got)
	}
	if got := fmt.Sprint(slices.Pairs(in)); got != "[[a b] [b c] [c d] [d e]]" {
		t.Fatalf("Pairs = %s", got)
	}
	type empty struct{}
	zs := make([]empty, 5)
	if got := slices.Chunk(zs, 2); len(got) != 3 || len(got[0]) != 2 || len(got[2]) != 1 {
		t.Fatalf("Chunk of zero-size elements = %v", got)
	}
	if got := slices.Windowed(zs, 2); len(got) != 4 {
		t.Fatalf("Windowed of zero-size elements = %v", got)
	}
	if got := slices.Pairs(zs); len(got) != 4 {
		t.Fatalf("Pairs of zero-size elements = %v", got)
	}
}
