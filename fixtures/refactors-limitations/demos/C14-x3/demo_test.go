package demo

import (
	"errors"
	"fmt"
	"math/rand"
	"reflect"
	"runtime"
	"sort"
	"strconv"
	"sync"
	"testing"

	"gopkg.in/typ.v4/maps"
	"gopkg.in/typ.v4/slices"
)

// ints is a named slice type, so that the S ~[]E type parameters are exercised
// with something other than a plain []int.
type ints []int

// imap is a named map type for the same reason.
type imap map[int]int

const sentinel = -777

// guarded is an input slice that lives inside a larger backing array. The
// spare capacity behind the slice is filled with sentinels, so that a helper
// that appends into (or otherwise scribbles over) its input is detected.
type guarded struct {
	backing []int
	s       ints
	snap    []int
}

func guard(vals []int) *guarded {
	g := &guarded{}
	if vals == nil {
		return g // nil input slice, no backing at all
	}
	g.backing = make([]int, len(vals)+5)
	copy(g.backing, vals)
	for i := len(vals); i < len(g.backing); i++ {
		g.backing[i] = sentinel
	}
	g.s = ints(g.backing[:len(vals)])
	g.snap = append([]int(nil), g.backing...)
	return g
}

func (g *guarded) check(t *testing.T, what string) {
	t.Helper()
	if !reflect.DeepEqual(g.backing, g.snap) {
		t.Fatalf("%s: input was modified: have %v, had %v", what, g.backing, g.snap)
	}
}

// scribble overwrites every element of a returned slice, including its spare
// capacity, and then appends to it; the input must not notice.
func scribble(t *testing.T, what string, g *guarded, res []int) {
	t.Helper()
	res = res[:cap(res)]
	for i := range res {
		res[i] = 424242
	}
	res = append(res, 1, 2, 3)
	_ = res
	g.check(t, what+" (after scribbling over the result)")
}

func mod(v, m int) int { return ((v % m) + m) % m }

// inputs returns the set of slices every slice helper is run against.
func inputs() [][]int {
	in := [][]int{
		nil,
		{},
		{5},
		{0},
		{5, 5},
		{1, 2, 3},
		{3, 2, 1},
		{3, 3, 3, 3},
		{0, 0, 1, 0, 0},
		{1, 0, 0, 0, 1},
		{-1, 4, -1, 4, 2, 2, -3},
		{0, 1, 2, 3, 4, 5, 6, 7, 8, 9},
	}
	rng := rand.New(rand.NewSource(14))
	for i := 0; i < 150; i++ {
		n := rng.Intn(15)
		s := make([]int, n)
		span := 1 + rng.Intn(6)
		for j := range s {
			s[j] = rng.Intn(span) - rng.Intn(2)
		}
		in = append(in, s)
	}
	return in
}

func eq(t *testing.T, what string, got, want interface{}) {
	t.Helper()
	if !reflect.DeepEqual(got, want) {
		t.Fatalf("%s:\n got  %#v\n want %#v", what, got, want)
	}
}

// ---------------------------------------------------------------- Fold

func acc(state string, v int) string { return "(" + state + "," + strconv.Itoa(v) + ")" }

func wantFold(s []int, seed string) string {
	if len(s) == 0 {
		return seed
	}
	return acc(wantFold(s[:len(s)-1], seed), s[len(s)-1])
}

func wantFoldReverse(s []int, seed string) string {
	if len(s) == 0 {
		return seed
	}
	return acc(wantFoldReverse(s[1:], seed), s[0])
}

func TestFold(t *testing.T) {
	for _, in := range inputs() {
		g := guard(in)
		eq(t, fmt.Sprint("Fold ", in), slices.Fold(g.s, "seed", acc), wantFold(in, "seed"))
		eq(t, fmt.Sprint("FoldReverse ", in), slices.FoldReverse(g.s, "seed", acc), wantFoldReverse(in, "seed"))
		// numeric, non-commutative accumulator
		sub := func(st, v int) int { return st*3 - v }
		w := 7
		for _, v := range in {
			w = w*3 - v
		}
		eq(t, "Fold numeric", slices.Fold(g.s, 7, sub), w)
		w = 7
		for i := len(in) - 1; i >= 0; i-- {
			w = w*3 - in[i]
		}
		eq(t, "FoldReverse numeric", slices.FoldReverse(g.s, 7, sub), w)
		g.check(t, "Fold/FoldReverse")
	}
	// empty: seed as is, accumulator never called
	never := func(st *int, v int) *int { t.Fatal("acc called on empty slice"); return nil }
	seed := new(int)
	if slices.Fold(ints(nil), seed, never) != seed || slices.Fold(ints{}, seed, never) != seed ||
		slices.FoldReverse(ints(nil), seed, never) != seed || slices.FoldReverse(ints{}, seed, never) != seed {
		t.Fatal("seed not returned as is for an empty slice")
	}
}

// ---------------------------------------------------------------- Map, MapErr

func TestMapAndMapErr(t *testing.T) {
	boom := errors.New("boom")
	for _, in := range inputs() {
		g := guard(in)
		calls := 0
		got := slices.Map(g.s, func(v int) string {
			calls++
			return fmt.Sprintf("%d@%d", v, calls-1)
		})
		want := make([]string, 0)
		for i, v := range in {
			want = append(want, fmt.Sprintf("%d@%d", v, i))
		}
		eq(t, fmt.Sprint("Map ", in), got, want)
		eq(t, "Map calls", calls, len(in))
		g.check(t, "Map")

		gotI := slices.Map(g.s, func(v int) int { return v*3 + 1 })
		scribble(t, "Map", g, gotI)

		for failAt := -1; failAt <= len(in); failAt++ {
			calls = 0
			var seen []int
			res, err := slices.MapErr(g.s, func(v int) (int, error) {
				calls++
				seen = append(seen, v)
				if calls-1 == failAt {
					return 999, boom
				}
				return v*10 + calls - 1, nil
			})
			if failAt >= 0 && failAt < len(in) {
				if res != nil || err != boom {
					t.Fatalf("MapErr %v failAt %d: got (%v, %v), want (nil, boom)", in, failAt, res, err)
				}
				eq(t, "MapErr calls", calls, failAt+1)
				eq(t, "MapErr seen", seen, append([]int(nil), in[:failAt+1]...))
			} else {
				if err != nil {
					t.Fatalf("MapErr %v: unexpected error %v", in, err)
				}
				wantI := make([]int, 0)
				for i, v := range in {
					wantI = append(wantI, v*10+i)
				}
				eq(t, fmt.Sprint("MapErr ", in), res, wantI)
				eq(t, "MapErr calls", calls, len(in))
				scribble(t, "MapErr", g, res)
			}
			g.check(t, "MapErr")
		}
	}
}

// ---------------------------------------------------------------- Filter, Any, All, IndexFunc

// positional returns a predicate that ignores the value and answers with bit
// number (call count) of mask, and a pointer to its call counter.
func positional(mask uint32) (func(int) bool, *int) {
	calls := new(int)
	return func(int) bool {
		*calls++
		return mask&(1<<uint(*calls-1)) != 0
	}, calls
}

func TestFilterAnyAllIndexFunc(t *testing.T) {
	rng := rand.New(rand.NewSource(1414))
	for _, in := range inputs() {
		g := guard(in)
		// value predicates
		for m := 1; m <= 3; m++ {
			for r := 0; r < m; r++ {
				m, r := m, r
				pred := func(v int) bool { return mod(v, m) == r }
				want := ints{}
				first := -1
				all := true
				for i, v := range in {
					if pred(v) {
						want = append(want, v)
						if first < 0 {
							first = i
						}
					} else {
						all = false
					}
				}
				got := slices.Filter(g.s, pred)
				eq(t, fmt.Sprint("Filter ", in, m, r), got, want)
				eq(t, "Any", slices.Any(g.s, pred), first >= 0)
				eq(t, "All", slices.All(g.s, pred), all)
				eq(t, "IndexFunc", slices.IndexFunc(g.s, pred), first)
				g.check(t, "Filter/Any/All/IndexFunc")
				scribble(t, "Filter", g, got)
			}
		}
		// positional predicates, with call counting
		masks := []uint32{0, ^uint32(0), 1, 2, 1 << 5}
		for i := 0; i < 6; i++ {
			masks = append(masks, rng.Uint32())
		}
		for _, mask := range masks {
			bit := func(i int) bool { return mask&(1<<uint(i)) != 0 }
			want := ints{}
			firstTrue, firstFalse := -1, -1
			for i, v := range in {
				if bit(i) {
					want = append(want, v)
					if firstTrue < 0 {
						firstTrue = i
					}
				} else if firstFalse < 0 {
					firstFalse = i
				}
			}
			p, calls := positional(mask)
			eq(t, fmt.Sprint("Filter positional ", in, mask), slices.Filter(g.s, p), want)
			eq(t, "Filter calls", *calls, len(in))

			p, calls = positional(mask)
			eq(t, "Any positional", slices.Any(g.s, p), firstTrue >= 0)
			if firstTrue >= 0 {
				eq(t, "Any calls", *calls, firstTrue+1)
			} else {
				eq(t, "Any calls", *calls, len(in))
			}

			p, calls = positional(mask)
			eq(t, "All positional", slices.All(g.s, p), firstFalse < 0)
			if firstFalse >= 0 {
				eq(t, "All calls", *calls, firstFalse+1)
			} else {
				eq(t, "All calls", *calls, len(in))
			}

			p, calls = positional(mask)
			eq(t, "IndexFunc positional", slices.IndexFunc(g.s, p), firstTrue)
			if firstTrue >= 0 {
				eq(t, "IndexFunc calls", *calls, firstTrue+1)
			} else {
				eq(t, "IndexFunc calls", *calls, len(in))
			}
			g.check(t, "positional predicates")
		}
	}
	// empty input: callbacks are not needed at all
	eq(t, "Any(nil)", slices.Any(ints(nil), nil), false)
	eq(t, "All(nil)", slices.All(ints(nil), nil), true)
	eq(t, "IndexFunc(nil)", slices.IndexFunc(ints(nil), nil), -1)
	eq(t, "Filter(nil)", slices.Filter(ints(nil), nil), ints{})
	eq(t, "Map(nil)", slices.Map(ints(nil), (func(int) int)(nil)), []int{})
}

// ---------------------------------------------------------------- Index, Contains, ContainsFunc

func TestIndexContains(t *testing.T) {
	for _, in := range inputs() {
		g := guard(in)
		for value := -4; value <= 10; value++ {
			first := -1
			for i, v := range in {
				if v == value {
					first = i
					break
				}
			}
			eq(t, fmt.Sprint("Index ", in, value), slices.Index(g.s, value), first)
			eq(t, fmt.Sprint("Contains ", in, value), slices.Contains(g.s, value), first >= 0)

			// asymmetric equality: pins the (element, value) argument order
			firstSucc := -1
			for i, v := range in {
				if v == value+1 {
					firstSucc = i
					break
				}
			}
			calls := 0
			got := slices.ContainsFunc(g.s, value, func(a, b int) bool {
				if b != value {
					t.Fatalf("ContainsFunc: second argument is %d, want the searched value %d", b, value)
				}
				if calls >= len(in) || a != in[calls] {
					t.Fatalf("ContainsFunc: call %d got element %d", calls, a)
				}
				calls++
				return a == b+1
			})
			eq(t, fmt.Sprint("ContainsFunc ", in, value), got, firstSucc >= 0)
			if firstSucc >= 0 {
				eq(t, "ContainsFunc calls", calls, firstSucc+1)
			} else {
				eq(t, "ContainsFunc calls", calls, len(in))
			}
		}
		g.check(t, "Index/Contains/ContainsFunc")
	}
}

// ---------------------------------------------------------------- Distinct, DistinctFunc

func TestDistinct(t *testing.T) {
	for _, in := range inputs() {
		g := guard(in)
		want := ints{}
		seen := map[int]bool{}
		for _, v := range in {
			if !seen[v] {
				seen[v] = true
				want = append(want, v)
			}
		}
		got := slices.Distinct(g.s)
		eq(t, fmt.Sprint("Distinct ", in), got, want)
		g.check(t, "Distinct")
		scribble(t, "Distinct", g, got)

		got = slices.DistinctFunc(g.s, func(a, b int) bool { return a == b })
		eq(t, fmt.Sprint("DistinctFunc == ", in), got, want)
		scribble(t, "DistinctFunc", g, got)

		// equivalence classes modulo 3: the first of each class survives
		want = ints{}
		seen = map[int]bool{}
		for _, v := range in {
			if !seen[mod(v, 3)] {
				seen[mod(v, 3)] = true
				want = append(want, v)
			}
		}
		got = slices.DistinctFunc(g.s, func(a, b int) bool { return mod(a, 3) == mod(b, 3) })
		eq(t, fmt.Sprint("DistinctFunc mod 3 ", in), got, want)

		// asymmetric relation: pins the (kept element, candidate) argument order
		want = ints{}
		for _, v := range in {
			dup := false
			for _, k := range want {
				if k == v+1 {
					dup = true
					break
				}
			}
			if !dup {
				want = append(want, v)
			}
		}
		got = slices.DistinctFunc(g.s, func(a, b int) bool { return a == b+1 })
		eq(t, fmt.Sprint("DistinctFunc asymmetric ", in), got, want)
		g.check(t, "DistinctFunc")
	}
	// another element type, and a struct one
	eq(t, "Distinct strings", slices.Distinct([]string{"b", "a", "b", "", "a", ""}), []string{"b", "a", ""})
	type pt struct{ x, y int }
	eq(t, "Distinct structs", slices.Distinct([]pt{{1, 2}, {2, 1}, {1, 2}}), []pt{{1, 2}, {2, 1}})
}

// ---------------------------------------------------------------- Except, ExceptSet

func TestExcept(t *testing.T) {
	all := inputs()
	for i, in := range all {
		for j := 0; j < 6; j++ {
			ex := all[(i*7+j*13)%len(all)]
			g, gx := guard(in), guard(ex)
			want := ints{}
			for _, v := range in {
				found := false
				for _, x := range ex {
					if x == v {
						found = true
					}
				}
				if !found {
					want = append(want, v)
				}
			}
			got := slices.Except(g.s, gx.s)
			eq(t, fmt.Sprint("Except ", in, ex), got, want)
			g.check(t, "Except")
			gx.check(t, "Except (exclude)")
			scribble(t, "Except", g, got)
			gx.check(t, "Except (exclude, after scribble)")

			set := maps.NewSetFromSlice(gx.s)
			before := set.Len()
			got = slices.ExceptSet(g.s, set)
			eq(t, fmt.Sprint("ExceptSet ", in, ex), got, want)
			eq(t, "ExceptSet set size", set.Len(), before)
			for _, x := range ex {
				if !set.Has(x) {
					t.Fatalf("ExceptSet modified the set: lost %d", x)
				}
			}
			g.check(t, "ExceptSet")
			scribble(t, "ExceptSet", g, got)
		}
	}
	// an empty input never consults the set
	eq(t, "ExceptSet(nil, nil)", slices.ExceptSet[ints, int](nil, nil), ints{})
}

// ---------------------------------------------------------------- GroupBy, CountBy

func TestGroupByCountBy(t *testing.T) {
	type keyerMaker func() func(int) int
	keyers := map[string]keyerMaker{
		"mod3":     func() func(int) int { return func(v int) int { return mod(v, 3) } },
		"identity": func() func(int) int { return func(v int) int { return v } },
		"constant": func() func(int) int { return func(int) int { return 42 } },
		"position parity": func() func(int) int {
			n := 0
			return func(int) int { n++; return (n - 1) % 2 }
		},
		"position/3": func() func(int) int {
			n := 0
			return func(int) int { n++; return -((n - 1) / 3) }
		},
		"all distinct": func() func(int) int {
			n := 0
			return func(int) int { n++; return n }
		},
	}
	for _, in := range inputs() {
		for name, mk := range keyers {
			g := guard(in)
			// reference
			k := mk()
			var order []int
			members := map[int][]int{}
			for _, v := range in {
				key := k(v)
				if _, ok := members[key]; !ok {
					order = append(order, key)
				}
				members[key] = append(members[key], v)
			}
			wantG := []slices.Grouping[int, int]{}
			wantC := []slices.Counting[int]{}
			for _, key := range order {
				wantG = append(wantG, slices.Grouping[int, int]{Key: key, Values: members[key]})
				wantC = append(wantC, slices.Counting[int]{Key: key, Count: len(members[key])})
			}

			gotG := slices.GroupBy(g.s, mk())
			eq(t, fmt.Sprint("GroupBy ", name, in), gotG, wantG)
			gotC := slices.CountBy(g.s, mk())
			eq(t, fmt.Sprint("CountBy ", name, in), gotC, wantC)
			g.check(t, "GroupBy/CountBy")

			total, totalC := 0, 0
			for i := range gotG {
				total += len(gotG[i].Values)
				totalC += gotC[i].Count
			}
			eq(t, "GroupBy sizes sum", total, len(in))
			eq(t, "CountBy counts sum", totalC, len(in))

			// groups are private: scribbling over one does not touch the
			// input or the other groups
			for i := range gotG {
				scribble(t, "GroupBy values", g, gotG[i].Values)
				for j := range gotG {
					if j != i && j > i {
						eq(t, "GroupBy other group after scribble", gotG[j].Values, wantG[j].Values)
					}
				}
			}
		}
	}
	// keyer called once per element, in order
	var seen []int
	slices.GroupBy(ints{4, 5, 4, 6}, func(v int) string { seen = append(seen, v); return "k" })
	eq(t, "GroupBy keyer calls", seen, []int{4, 5, 4, 6})
	seen = nil
	slices.CountBy(ints{4, 5, 4, 6}, func(v int) string { seen = append(seen, v); return "k" })
	eq(t, "CountBy keyer calls", seen, []int{4, 5, 4, 6})
}

// ---------------------------------------------------------------- Trim family

// sameWindow checks that res is exactly in[lo:hi] of the guarded input: same
// contents, same memory, same capacity.
func sameWindow(t *testing.T, what string, g *guarded, res ints, lo, hi int) {
	t.Helper()
	if g.s == nil {
		if res != nil {
			t.Fatalf("%s: nil input gave non-nil %v", what, res)
		}
		return
	}
	if res == nil {
		t.Fatalf("%s: non-nil input gave nil result", what)
	}
	eq(t, what+" contents", []int(res), g.backing[lo:hi])
	eq(t, what+" cap", cap(res), cap(g.s)-lo)
	if len(res) > 0 && &res[0] != &g.s[lo] {
		t.Fatalf("%s: result is not a sub-slice of its argument", what)
	}
	// also for empty results: the window sits at offset lo of the backing
	full := res[:cap(res)]
	if len(full) > 0 && &full[0] != &g.backing[lo] {
		t.Fatalf("%s: result window does not start at offset %d of its argument", what, lo)
	}
}

func TestTrim(t *testing.T) {
	unwantedSets := [][]int{nil, {}, {0}, {0, 1}, {5, 3}, {1, 1, 1}, {-1, 0, 1, 2, 3, 4, 5, 6, 7, 8, 9}}
	type pred struct {
		name string
		f    func(int) bool
	}
	preds := []pred{
		{"even", func(v int) bool { return mod(v, 2) == 0 }},
		{"<2", func(v int) bool { return v < 2 }},
		{"always", func(int) bool { return true }},
		{"never", func(int) bool { return false }},
	}
	for _, uw := range unwantedSets {
		uw := uw
		preds = append(preds, pred{fmt.Sprint("in", uw), func(v int) bool {
			for _, u := range uw {
				if u == v {
					return true
				}
			}
			return false
		}})
	}
	bounds := func(in []int, f func(int) bool) (loOnly, hiOnly, lo, hi int) {
		loOnly = 0
		for loOnly < len(in) && f(in[loOnly]) {
			loOnly++
		}
		hiOnly = len(in)
		for hiOnly > 0 && f(in[hiOnly-1]) {
			hiOnly--
		}
		hi = hiOnly
		lo = 0
		for lo < hi && f(in[lo]) {
			lo++
		}
		return
	}
	for _, in := range inputs() {
		for _, p := range preds {
			g := guard(in)
			loOnly, hiOnly, lo, hi := bounds(in, p.f)
			var log []int
			logged := func(v int) bool { log = append(log, v); return p.f(v) }

			sameWindow(t, fmt.Sprint("TrimLeftFunc ", p.name, in), g, slices.TrimLeftFunc(g.s, logged), loOnly, len(in))
			wantLog := []int(nil)
			for i := 0; i < loOnly; i++ {
				wantLog = append(wantLog, in[i])
			}
			if loOnly < len(in) {
				wantLog = append(wantLog, in[loOnly])
			}
			eq(t, "TrimLeftFunc callback sequence", log, wantLog)

			log = nil
			sameWindow(t, fmt.Sprint("TrimRightFunc ", p.name, in), g, slices.TrimRightFunc(g.s, logged), 0, hiOnly)
			wantLog = nil
			for i := len(in) - 1; i >= hiOnly; i-- {
				wantLog = append(wantLog, in[i])
			}
			if hiOnly > 0 {
				wantLog = append(wantLog, in[hiOnly-1])
			}
			eq(t, "TrimRightFunc callback sequence", log, wantLog)

			log = nil
			sameWindow(t, fmt.Sprint("TrimFunc ", p.name, in), g, slices.TrimFunc(g.s, logged), lo, hi)
			if hi > 0 { // right pass as above, then the left pass over in[:hi]
				for i := 0; i <= lo; i++ {
					wantLog = append(wantLog, in[i])
				}
			}
			eq(t, "TrimFunc callback sequence", log, wantLog)
			g.check(t, "Trim*Func")
		}
		for _, uw := range unwantedSets {
			g, gu := guard(in), guard(uw)
			f := func(v int) bool {
				for _, u := range uw {
					if u == v {
						return true
					}
				}
				return false
			}
			loOnly, hiOnly, lo, hi := bounds(in, f)
			sameWindow(t, fmt.Sprint("TrimLeft ", uw, in), g, slices.TrimLeft(g.s, gu.s), loOnly, len(in))
			sameWindow(t, fmt.Sprint("TrimRight ", uw, in), g, slices.TrimRight(g.s, gu.s), 0, hiOnly)
			sameWindow(t, fmt.Sprint("Trim ", uw, in), g, slices.Trim(g.s, gu.s), lo, hi)
			g.check(t, "Trim*")
			gu.check(t, "Trim* (unwanted)")
		}
	}
	// empty input: callback not needed
	if slices.TrimFunc(ints(nil), nil) != nil || slices.TrimLeftFunc(ints(nil), nil) != nil || slices.TrimRightFunc(ints(nil), nil) != nil {
		t.Fatal("Trim*Func(nil) is not nil")
	}
}

// ---------------------------------------------------------------- TryGet, SafeGet, SafeGetOr, Last

func mustPanicRuntime(t *testing.T, what string, f func()) {
	t.Helper()
	defer func() {
		t.Helper()
		r := recover()
		if r == nil {
			t.Fatalf("%s: did not panic", what)
		}
		if _, ok := r.(runtime.Error); !ok {
			t.Fatalf("%s: panicked with %v, want an out-of-range runtime error", what, r)
		}
	}()
	f()
}

func TestGetters(t *testing.T) {
	for _, in := range inputs() {
		g := guard(in)
		idx := []int{-1 << 62, -3, -2, -1, len(in), len(in) + 1, len(in) + 4, len(in) + 5, len(in) + 6, 1 << 62}
		for i := range in {
			idx = append(idx, i)
		}
		for _, i := range idx {
			ok := i >= 0 && i < len(in)
			wantV, wantOr := 0, 31337
			if ok {
				wantV, wantOr = in[i], in[i]
			}
			v, gotOK := slices.TryGet(g.s, i)
			eq(t, fmt.Sprint("TryGet ok ", in, i), gotOK, ok)
			eq(t, fmt.Sprint("TryGet ", in, i), v, wantV)
			eq(t, fmt.Sprint("SafeGet ", in, i), slices.SafeGet(g.s, i), wantV)
			eq(t, fmt.Sprint("SafeGetOr ", in, i), slices.SafeGetOr(g.s, i, 31337), wantOr)
		}
		if len(in) > 0 {
			eq(t, fmt.Sprint("Last ", in), slices.Last(g.s), in[len(in)-1])
		} else {
			mustPanicRuntime(t, fmt.Sprint("Last ", in), func() { slices.Last(g.s) })
		}
		g.check(t, "getters")
	}
	// non-int element type: the zero value is the type's zero
	s, ok := slices.TryGet([]string{"a"}, 1)
	eq(t, "TryGet string", []interface{}{s, ok}, []interface{}{"", false})
	eq(t, "SafeGet ptr", slices.SafeGet([]*int{}, 0), (*int)(nil))
}

// ---------------------------------------------------------------- maps

func randomMaps() []imap {
	ms := []imap{nil, {}, {0: 0}, {1: 0, 2: 0, 3: 0}, {7: 1, 8: 2, 9: 1}}
	rng := rand.New(rand.NewSource(4141))
	for i := 0; i < 80; i++ {
		m := imap{}
		n := rng.Intn(20)
		for j := 0; j < n; j++ {
			m[rng.Intn(30)-5] = rng.Intn(6)
		}
		ms = append(ms, m)
	}
	return ms
}

func copyMap(m imap) imap {
	if m == nil {
		return nil
	}
	c := imap{}
	for k, v := range m {
		c[k] = v
	}
	return c
}

func TestMaps(t *testing.T) {
	for _, m := range randomMaps() {
		snap := copyMap(m)
		what := fmt.Sprint(map[int]int(m))

		// Clone
		c := maps.Clone(m)
		if c == nil {
			t.Fatalf("Clone(%s) is nil", what)
		}
		eq(t, "Clone len "+what, len(c), len(m))
		for k, v := range m {
			if cv, ok := c[k]; !ok || cv != v {
				t.Fatalf("Clone(%s): key %d is (%d,%v)", what, k, cv, ok)
			}
		}
		for k := range c {
			c[k] = -1
		}
		c[1000] = 1
		for k := range c {
			if k%2 == 0 {
				delete(c, k)
			}
		}
		eq(t, "Clone left the input alone "+what, m, snap)

		// Keys, Values
		keys := maps.Keys(m)
		values := maps.Values(m)
		if keys == nil || values == nil {
			t.Fatalf("Keys/Values(%s) is nil", what)
		}
		wantK, wantV := []int{}, []int{}
		for k, v := range snap {
			wantK = append(wantK, k)
			wantV = append(wantV, v)
		}
		sortedCopy := func(s []int) []int { c := append([]int{}, s...); sort.Ints(c); return c }
		eq(t, "Keys "+what, sortedCopy(keys), sortedCopy(wantK))
		eq(t, "Values "+what, sortedCopy(values), sortedCopy(wantV))
		for i := range keys[:cap(keys)] {
			keys[:cap(keys)][i] = 555
		}
		for i := range values[:cap(values)] {
			values[:cap(values)][i] = 555
		}
		eq(t, "Keys/Values left the input alone "+what, m, snap)

		// KeyOf, ContainsValue, HasKey
		for value := -2; value <= 7; value++ {
			has := false
			for _, v := range snap {
				if v == value {
					has = true
				}
			}
			eq(t, fmt.Sprint("ContainsValue ", what, value), maps.ContainsValue(m, value), has)
			k, ok := maps.KeyOf(m, value)
			eq(t, fmt.Sprint("KeyOf ok ", what, value), ok, has)
			if has {
				if v, present := snap[k]; !present || v != value {
					t.Fatalf("KeyOf(%s, %d) = %d, which maps to (%d,%v)", what, value, k, v, present)
				}
			} else {
				eq(t, fmt.Sprint("KeyOf zero key ", what, value), k, 0)
			}
		}
		for key := -8; key <= 32; key++ {
			_, has := snap[key]
			eq(t, fmt.Sprint("HasKey ", what, key), maps.HasKey(m, key), has)
		}
		eq(t, "lookups left the input alone "+what, m, snap)

		// Clear: empties the very map it is given (and only that one)
		alias := m
		other := copyMap(m)
		maps.Clear(m)
		eq(t, "Clear len "+what, len(alias), 0)
		for k := range alias {
			t.Fatalf("Clear(%s) left key %d", what, k)
		}
		eq(t, "Clear other map "+what, other, snap)
		if m != nil {
			m[3] = 4 // still usable
			eq(t, "map usable after Clear", alias, imap{3: 4})
		}
	}
	// HasKey sees a key that holds the zero value; KeyOf finds zero values
	z := map[string]int{"zero": 0}
	eq(t, "HasKey zero value", maps.HasKey(z, "zero"), true)
	eq(t, "HasKey absent", maps.HasKey(z, ""), false)
	k, ok := maps.KeyOf(z, 0)
	eq(t, "KeyOf zero value", []interface{}{k, ok}, []interface{}{"zero", true})
	k, ok = maps.KeyOf(z, 1)
	eq(t, "KeyOf absent", []interface{}{k, ok}, []interface{}{"", false})
}

// ---------------------------------------------------------------- shared read-only use

// The helpers only read their inputs, so any number of goroutines may run them
// over the same slice and map at once (checked by the race detector).
func TestConcurrentReaders(t *testing.T) {
	in := []int{3, 1, 4, 1, 5, 9, 2, 6, 5, 3, 5, 0, 0}
	g := guard(in)
	unw := ints{3, 0}
	m := imap{1: 2, 3: 4, 5: 2}
	msnap := copyMap(m)
	set := maps.NewSetFromSlice(ints{1, 5})
	wantFoldS := wantFold(in, "s")
	var wg sync.WaitGroup
	for w := 0; w < 8; w++ {
		wg.Add(1)
		go func() {
			defer wg.Done()
			for i := 0; i < 50; i++ {
				even := func(v int) bool { return v%2 == 0 }
				if slices.Fold(g.s, "s", acc) != wantFoldS {
					t.Error("Fold differs")
				}
				_ = slices.FoldReverse(g.s, "s", acc)
				if len(slices.Map(g.s, strconv.Itoa)) != len(in) {
					t.Error("Map differs")
				}
				if !reflect.DeepEqual(slices.Filter(g.s, even), ints{4, 2, 6, 0, 0}) {
					t.Error("Filter differs")
				}
				if !reflect.DeepEqual(slices.Distinct(g.s), ints{3, 1, 4, 5, 9, 2, 6, 0}) {
					t.Error("Distinct differs")
				}
				if !reflect.DeepEqual(slices.Trim(g.s, unw), ints{1, 4, 1, 5, 9, 2, 6, 5, 3, 5}) {
					t.Error("Trim differs")
				}
				if !reflect.DeepEqual(slices.ExceptSet(g.s, set), ints{3, 4, 9, 2, 6, 3, 0, 0}) {
					t.Error("ExceptSet differs")
				}
				if !reflect.DeepEqual(slices.Except(g.s, unw), ints{1, 4, 1, 5, 9, 2, 6, 5, 5}) {
					t.Error("Except differs")
				}
				if len(slices.GroupBy(g.s, func(v int) int { return v % 3 })) != 3 ||
					len(slices.CountBy(g.s, func(v int) int { return v % 3 })) != 3 {
					t.Error("GroupBy/CountBy differ")
				}
				if slices.Index(g.s, 9) != 5 || !slices.Contains(g.s, 6) || slices.Any(g.s, func(v int) bool { return v > 9 }) ||
					!slices.All(g.s, func(v int) bool { return v >= 0 }) || slices.SafeGet(g.s, 2) != 4 || slices.Last(g.s) != 0 {
					t.Error("lookups differ")
				}
				if len(maps.Keys(m)) != 3 || len(maps.Values(m)) != 3 || !maps.ContainsValue(m, 4) || !maps.HasKey(m, 5) ||
					!reflect.DeepEqual(maps.Clone(m), msnap) {
					t.Error("maps helpers differ")
				}
				if k, ok := maps.KeyOf(m, 4); !ok || k != 3 {
					t.Error("KeyOf differs")
				}
			}
		}()
	}
	wg.Wait()
	g.check(t, "concurrent readers")
	eq(t, "concurrent readers map", m, msnap)
}
