package demo

import (
	"fmt"
	"math/rand"
	"runtime"
	"sort"
	"sync"
	"sync/atomic"
	"testing"
	"time"

	"gopkg.in/typ.v4/sync2"
)

// ---------------------------------------------------------------------------
// Sequential: model-based comparison with an ordinary map.
// ---------------------------------------------------------------------------

type opKind int

const (
	opLoad opKind = iota
	opStore
	opLoadOrStore
	opLoadAndDelete
	opDelete
	opRange
	numOps
)

func (k opKind) String() string {
	return [...]string{"Load", "Store", "LoadOrStore", "LoadAndDelete", "Delete", "Range"}[k]
}

func snapshot(t *testing.T, m *sync2.Map[int, int]) map[int]int {
	t.Helper()
	got := map[int]int{}
	m.Range(func(k, v int) bool {
		if _, dup := got[k]; dup {
			t.Fatalf("Range visited key %d twice", k)
		}
		got[k] = v
		return true
	})
	return got
}

func sameMap(a, b map[int]int) bool {
	if len(a) != len(b) {
		return false
	}
	for k, v := range a {
		if w, ok := b[k]; !ok || w != v {
			return false
		}
	}
	return true
}

func checkAll(t *testing.T, m *sync2.Map[int, int], model map[int]int, keys int, ctx string) {
	t.Helper()
	for k := -1; k <= keys; k++ {
		v, ok := m.Load(k)
		w, wok := model[k]
		if ok != wok || v != w {
			t.Fatalf("%s: Load(%d) = (%d,%v), model (%d,%v)", ctx, k, v, ok, w, wok)
		}
	}
	if got := snapshot(t, m); !sameMap(got, model) {
		t.Fatalf("%s: Range saw %v, model %v", ctx, got, model)
	}
}

func TestSequentialModel(t *testing.T) {
	for seed := int64(1); seed <= 300; seed++ {
		rng := rand.New(rand.NewSource(seed))
		keys := 1 + rng.Intn(6)
		steps := 20 + rng.Intn(200)
		// Bias of the operation mix differs per seed so that some runs are
		// load-heavy (promotion), some delete-heavy (nil / expunged entries).
		weights := make([]int, numOps)
		for i := range weights {
			weights[i] = 1 + rng.Intn(5)
		}
		total := 0
		for _, w := range weights {
			total += w
		}
		pick := func() opKind {
			n := rng.Intn(total)
			for i, w := range weights {
				if n < w {
					return opKind(i)
				}
				n -= w
			}
			panic("unreachable")
		}
		var m sync2.Map[int, int]
		model := map[int]int{}
		for step := 0; step < steps; step++ {
			op := pick()
			k := rng.Intn(keys)
			val := seed*100000 + int64(step) + 1
			v := int(val)
			ctx := fmt.Sprintf("seed %d step %d %v(%d,%d)", seed, step, op, k, v)
			switch op {
			case opLoad:
				got, ok := m.Load(k)
				want, wok := model[k]
				if got != want || ok != wok {
					t.Fatalf("%s = (%d,%v), want (%d,%v)", ctx, got, ok, want, wok)
				}
			case opStore:
				m.Store(k, v)
				model[k] = v
			case opLoadOrStore:
				got, loaded := m.LoadOrStore(k, v)
				want, wok := model[k]
				if !wok {
					want = v
					model[k] = v
				}
				if got != want || loaded != wok {
					t.Fatalf("%s = (%d,%v), want (%d,%v)", ctx, got, loaded, want, wok)
				}
			case opLoadAndDelete:
				got, loaded := m.LoadAndDelete(k)
				want, wok := model[k]
				delete(model, k)
				if got != want || loaded != wok {
					t.Fatalf("%s = (%d,%v), want (%d,%v)", ctx, got, loaded, want, wok)
				}
			case opDelete:
				m.Delete(k)
				delete(model, k)
			case opRange:
				if got := snapshot(t, &m); !sameMap(got, model) {
					t.Fatalf("%s: Range saw %v, model %v", ctx, got, model)
				}
			}
			if step%17 == 0 {
				checkAll(t, &m, model, keys, ctx)
			}
		}
		checkAll(t, &m, model, keys, fmt.Sprintf("seed %d end", seed))
	}
}

// The zero map, and a map that has been emptied again.
func TestEmpty(t *testing.T) {
	var m sync2.Map[string, string]
	if v, ok := m.Load(""); ok || v != "" {
		t.Fatalf("Load on zero map = (%q,%v)", v, ok)
	}
	if v, ok := m.LoadAndDelete("x"); ok || v != "" {
		t.Fatalf("LoadAndDelete on zero map = (%q,%v)", v, ok)
	}
	m.Delete("x")
	calls := 0
	m.Range(func(string, string) bool { calls++; return true })
	if calls != 0 {
		t.Fatalf("Range on zero map called f %d times", calls)
	}
	if v, loaded := m.LoadOrStore("a", "1"); loaded || v != "1" {
		t.Fatalf("LoadOrStore = (%q,%v)", v, loaded)
	}
	if v, loaded := m.LoadOrStore("a", "2"); !loaded || v != "1" {
		t.Fatalf("LoadOrStore = (%q,%v)", v, loaded)
	}
	if v, ok := m.LoadAndDelete("a"); !ok || v != "1" {
		t.Fatalf("LoadAndDelete = (%q,%v)", v, ok)
	}
	if v, ok := m.LoadAndDelete("a"); ok || v != "" {
		t.Fatalf("second LoadAndDelete = (%q,%v)", v, ok)
	}
	if v, ok := m.Load("a"); ok || v != "" {
		t.Fatalf("Load after delete = (%q,%v)", v, ok)
	}
	m.Range(func(string, string) bool { calls++; return true })
	if calls != 0 {
		t.Fatalf("Range on emptied map called f %d times", calls)
	}
}

// Hand-written walk through the read/dirty/expunged state machine.
func TestStateMachineWalk(t *testing.T) {
	var m sync2.Map[int, int]
	model := map[int]int{}
	store := func(k, v int) { m.Store(k, v); model[k] = v }
	del := func(k int) { m.Delete(k); delete(model, k) }
	promoteByLoads := func() {
		// Loads of an absent key take the slow path while read is amended and
		// eventually promote dirty.
		for i := 0; i < 64; i++ {
			if _, ok := m.Load(-5); ok {
				t.Fatal("absent key found")
			}
		}
	}
	check := func(ctx string) { t.Helper(); checkAll(t, &m, model, 12, ctx) }

	store(1, 10)
	store(2, 20)
	store(3, 30)
	check("fresh dirty")
	promoteByLoads()
	check("promoted")
	del(1) // nil entry in read, dirty == nil
	check("deleted in read")
	store(4, 40) // dirtyLocked: entry 1 becomes expunged
	check("expunged 1")
	store(1, 11) // store to an expunged entry must re-enter dirty
	check("unexpunged by Store")
	promoteByLoads()
	check("promoted again")
	if v, ok := m.Load(1); !ok || v != 11 {
		t.Fatalf("value stored to an expunged entry lost after promotion: (%d,%v)", v, ok)
	}
	del(2)
	store(5, 50) // 2 expunged
	if v, loaded := m.LoadOrStore(2, 22); loaded || v != 22 {
		t.Fatalf("LoadOrStore on expunged = (%d,%v)", v, loaded)
	}
	model[2] = 22
	check("unexpunged by LoadOrStore")
	promoteByLoads()
	check("promoted third")
	if v, ok := m.Load(2); !ok || v != 22 {
		t.Fatalf("value stored by LoadOrStore to an expunged entry lost: (%d,%v)", v, ok)
	}
	// A key only in dirty: LoadOrStore hit, Store overwrite, LoadAndDelete.
	store(6, 60)
	if v, loaded := m.LoadOrStore(6, 66); !loaded || v != 60 {
		t.Fatalf("LoadOrStore dirty hit = (%d,%v)", v, loaded)
	}
	store(6, 61)
	if v, ok := m.LoadAndDelete(6); !ok || v != 61 {
		t.Fatalf("LoadAndDelete dirty = (%d,%v)", v, ok)
	}
	delete(model, 6)
	check("dirty-only key removed")
	store(6, 62)
	check("dirty-only key stored again")
	// Range promotes.
	store(7, 70)
	check("before Range promote")
	del(7)
	del(3)
	store(8, 80)
	del(8)
	check("after deletes")
	// Delete everything, then refill.
	for k := 0; k < 12; k++ {
		del(k)
	}
	check("all deleted")
	promoteByLoads()
	for k := 0; k < 12; k++ {
		store(k, 1000+k)
		check(fmt.Sprintf("refill %d", k))
	}
	for k := 0; k < 12; k += 2 {
		if v, ok := m.LoadAndDelete(k); !ok || v != 1000+k {
			t.Fatalf("LoadAndDelete(%d) = (%d,%v)", k, v, ok)
		}
		delete(model, k)
		if v, ok := m.LoadAndDelete(k); ok || v != 0 {
			t.Fatalf("repeated LoadAndDelete(%d) = (%d,%v)", k, v, ok)
		}
	}
	check("half deleted")
}

// Range stops as soon as f returns false and never repeats a key.
func TestRangeStops(t *testing.T) {
	for _, promoted := range []bool{false, true} {
		var m sync2.Map[int, int]
		for k := 0; k < 10; k++ {
			m.Store(k, k*k)
		}
		if promoted {
			m.Range(func(int, int) bool { return true })
		}
		m.Delete(3)
		for stopAfter := 1; stopAfter <= 9; stopAfter++ {
			calls := 0
			seen := map[int]bool{}
			m.Range(func(k, v int) bool {
				calls++
				if seen[k] || k == 3 || v != k*k {
					t.Fatalf("bad visit %d=%d (seen %v)", k, v, seen)
				}
				seen[k] = true
				return calls < stopAfter
			})
			if calls != stopAfter {
				t.Fatalf("promoted=%v: f called %d times, want %d", promoted, calls, stopAfter)
			}
		}
	}
}

// Calling the map from inside the Range callback must not deadlock and must
// behave like a map.
func TestRangeReentrant(t *testing.T) {
	var m sync2.Map[int, int]
	for k := 0; k < 8; k++ {
		m.Store(k, k)
	}
	visited := 0
	m.Range(func(k, v int) bool {
		visited++
		m.Store(k+100, v)
		m.Delete(k)
		if _, ok := m.Load(k); ok {
			t.Fatalf("key %d still present after Delete in callback", k)
		}
		if got, loaded := m.LoadOrStore(k+100, -1); !loaded || got != v {
			t.Fatalf("LoadOrStore in callback = (%d,%v)", got, loaded)
		}
		return true
	})
	if visited != 8 {
		t.Fatalf("visited %d, want 8", visited)
	}
	want := map[int]int{}
	for k := 0; k < 8; k++ {
		want[k+100] = k
	}
	if got := snapshot(t, &m); !sameMap(got, want) {
		t.Fatalf("after reentrant Range: %v", got)
	}
}

// A panic raised by the Range callback propagates to the caller and leaves
// the map usable (no lock is left held), whether or not that Range promoted.
func TestRangeCallbackPanicLeavesMapUsable(t *testing.T) {
	var m sync2.Map[int, int]
	for round := 0; round < 4; round++ {
		m.Store(round, round) // amends the read map: the next Range promotes
		func() {
			defer func() {
				if r := recover(); r != "boom" {
					t.Fatalf("recovered %v, want boom", r)
				}
			}()
			m.Range(func(int, int) bool { panic("boom") })
			t.Fatal("Range returned normally")
		}()
		done := make(chan struct{})
		go func() {
			defer close(done)
			m.Store(100+round, round)
			if v, ok := m.Load(round); !ok || v != round {
				t.Errorf("Load after panic = (%d,%v)", v, ok)
			}
			if v, ok := m.LoadAndDelete(100 + round); !ok || v != round {
				t.Errorf("LoadAndDelete after panic = (%d,%v)", v, ok)
			}
			if v, loaded := m.LoadOrStore(round, -1); !loaded || v != round {
				t.Errorf("LoadOrStore after panic = (%d,%v)", v, loaded)
			}
			n := 0
			m.Range(func(int, int) bool { n++; return true })
			if n != round+1 {
				t.Errorf("Range after panic visited %d keys, want %d", n, round+1)
			}
		}()
		select {
		case <-done:
		case <-time.After(10 * time.Second):
			t.Fatal("map unusable after a panic (deadlock)")
		}
	}
}

// Pointer values and zero values are kept distinct from "absent".
func TestZeroValuesArePresent(t *testing.T) {
	var m sync2.Map[string, *int]
	m.Store("nil", nil)
	if v, ok := m.Load("nil"); !ok || v != nil {
		t.Fatalf("Load(nil value) = (%v,%v)", v, ok)
	}
	if v, loaded := m.LoadOrStore("nil", new(int)); !loaded || v != nil {
		t.Fatalf("LoadOrStore(nil value) = (%v,%v)", v, loaded)
	}
	n := 0
	m.Range(func(k string, v *int) bool { n++; return true })
	if n != 1 {
		t.Fatalf("Range skipped the nil value")
	}
	if v, loaded := m.LoadAndDelete("nil"); !loaded || v != nil {
		t.Fatalf("LoadAndDelete(nil value) = (%v,%v)", v, loaded)
	}
	if _, ok := m.Load("nil"); ok {
		t.Fatal("still present")
	}
	var z sync2.Map[int, int]
	z.Store(0, 0)
	if v, ok := z.Load(0); !ok || v != 0 {
		t.Fatalf("zero value lost")
	}
	if v, loaded := z.LoadOrStore(0, 5); !loaded || v != 0 {
		t.Fatalf("LoadOrStore over zero value = (%d,%v)", v, loaded)
	}
}

// Stored values are copies: later changes of the caller's variable are not
// observed.
func TestStoredValueIsCopied(t *testing.T) {
	var m sync2.Map[int, [2]int]
	v := [2]int{1, 2}
	m.Store(1, v)
	m.LoadOrStore(2, v)
	v[0] = 99
	for _, k := range []int{1, 2} {
		if got, _ := m.Load(k); got != [2]int{1, 2} {
			t.Fatalf("key %d aliased the caller's variable: %v", k, got)
		}
	}
	m.Range(func(int, [2]int) bool { return true }) // promote
	m.Store(1, v)
	v[1] = 98
	if got, _ := m.Load(1); got != [2]int{99, 2} {
		t.Fatalf("fast-path Store aliased the caller's variable: %v", got)
	}
}

// ---------------------------------------------------------------------------
// Concurrent: small recorded histories checked for linearizability.
// ---------------------------------------------------------------------------

type call struct {
	kind     opKind
	key, arg int
	ret      int
	ok       bool
	inv, res int64
}

func (c call) String() string {
	return fmt.Sprintf("%v(k%d,%d)=(%d,%v)@[%d,%d]", c.kind, c.key, c.arg, c.ret, c.ok, c.inv, c.res)
}

// apply runs c against the model and reports whether the recorded result is
// what a sequential map would have returned.
func applyModel(model map[int]int, c call) bool {
	cur, present := model[c.key]
	switch c.kind {
	case opLoad:
		return c.ok == present && c.ret == cur
	case opStore:
		model[c.key] = c.arg
		return true
	case opLoadOrStore:
		if present {
			return c.ok && c.ret == cur
		}
		model[c.key] = c.arg
		return !c.ok && c.ret == c.arg
	case opLoadAndDelete:
		delete(model, c.key)
		return c.ok == present && c.ret == cur
	case opDelete:
		delete(model, c.key)
		return true
	}
	panic("bad kind")
}

func modelKey(model map[int]int, done uint32) string {
	ks := make([]int, 0, len(model))
	for k := range model {
		ks = append(ks, k)
	}
	sort.Ints(ks)
	s := fmt.Sprint(done)
	for _, k := range ks {
		s += fmt.Sprintf(",%d=%d", k, model[k])
	}
	return s
}

func linearizable(calls []call, model map[int]int, done uint32, dead map[string]bool) bool {
	if done == uint32(1)<<uint(len(calls))-1 {
		return true
	}
	mk := modelKey(model, done)
	if dead[mk] {
		return false
	}
	minRes := int64(1 << 62)
	for i, c := range calls {
		if done&(1<<uint(i)) == 0 && c.res < minRes {
			minRes = c.res
		}
	}
	for i, c := range calls {
		if done&(1<<uint(i)) != 0 || c.inv > minRes {
			continue
		}
		next := make(map[int]int, len(model)+1)
		for k, v := range model {
			next[k] = v
		}
		if applyModel(next, c) && linearizable(calls, next, done|1<<uint(i), dead) {
			return true
		}
	}
	dead[mk] = true
	return false
}

// prepare drives a fresh map into one of several internal states and returns
// the model of its contents. Keys 0..2 are the contended keys.
func prepare(m *sync2.Map[int, int], rng *rand.Rand) map[int]int {
	model := map[int]int{}
	store := func(k, v int) { m.Store(k, v); model[k] = v }
	del := func(k int) { m.Delete(k); delete(model, k) }
	promote := func() { m.Range(func(int, int) bool { return true }) }
	switch rng.Intn(7) {
	case 0: // zero map
	case 1: // everything in dirty only
		store(0, 1)
		store(1, 2)
	case 2: // everything in read, dirty nil
		store(0, 1)
		store(1, 2)
		store(2, 3)
		promote()
	case 3: // nil entries in read
		store(0, 1)
		store(1, 2)
		promote()
		del(0)
	case 4: // expunged entries, amended
		store(0, 1)
		store(1, 2)
		promote()
		del(0)
		del(1)
		store(2, 3)
	case 5: // amended and one miss short of promotion
		store(0, 1)
		promote()
		store(1, 2)
	case 6: // expunged entry plus a big dirty map
		store(0, 1)
		promote()
		del(0)
		for k := 10; k < 14; k++ {
			store(k, k)
		}
		store(1, 5)
	}
	return model
}

func TestConcurrentHistoriesLinearizable(t *testing.T) {
	iters := 4000
	if testing.Short() {
		iters = 500
	}
	for it := 0; it < iters; it++ {
		rng := rand.New(rand.NewSource(int64(it) + 1))
		var m sync2.Map[int, int]
		model := prepare(&m, rng)
		workers := 2 + rng.Intn(3)
		perWorker := 2 + rng.Intn(3)
		if workers*perWorker > 12 {
			perWorker = 12 / workers
		}
		nkeys := 1 + rng.Intn(3)
		plans := make([][]call, workers)
		val := 100
		for w := range plans {
			for j := 0; j < perWorker; j++ {
				val++
				plans[w] = append(plans[w], call{kind: opKind(rng.Intn(int(opRange))), key: rng.Intn(nkeys), arg: val})
			}
		}
		var clock int64
		var wg sync.WaitGroup
		start := make(chan struct{})
		for w := range plans {
			wg.Add(1)
			go func(plan []call) {
				defer wg.Done()
				<-start
				for i := range plan {
					c := &plan[i]
					c.inv = atomic.AddInt64(&clock, 1)
					switch c.kind {
					case opLoad:
						c.ret, c.ok = m.Load(c.key)
					case opStore:
						m.Store(c.key, c.arg)
					case opLoadOrStore:
						c.ret, c.ok = m.LoadOrStore(c.key, c.arg)
					case opLoadAndDelete:
						c.ret, c.ok = m.LoadAndDelete(c.key)
					case opDelete:
						m.Delete(c.key)
					}
					c.res = atomic.AddInt64(&clock, 1)
					if i%2 == 0 {
						runtime.Gosched()
					}
				}
			}(plans[w])
		}
		close(start)
		wg.Wait()
		var all []call
		for _, p := range plans {
			all = append(all, p...)
		}
		// Append final loads of every key (sequential, after everything) so the
		// final state is checked as well.
		for k := 0; k < 3; k++ {
			c := call{kind: opLoad, key: k}
			c.inv = atomic.AddInt64(&clock, 1)
			c.ret, c.ok = m.Load(k)
			c.res = atomic.AddInt64(&clock, 1)
			all = append(all, c)
		}
		if !linearizable(all, model, 0, map[string]bool{}) {
			t.Fatalf("iteration %d: history not linearizable from %v:\n%v", it, model, all)
		}
		// The state must also survive a promotion.
		before := snapshot(t, &m)
		for i := 0; i < 40; i++ {
			m.Load(-1)
		}
		m.Store(999, 1)
		m.Delete(999)
		for i := 0; i < 40; i++ {
			m.Load(-1)
		}
		if after := snapshot(t, &m); !sameMap(before, after) {
			t.Fatalf("iteration %d: contents changed across promotion: %v -> %v", it, before, after)
		}
	}
}

// ---------------------------------------------------------------------------
// Concurrent: targeted invariants under heavier load.
// ---------------------------------------------------------------------------

// Each goroutine owns a disjoint set of keys and checks them against its own
// private model while the others force promotions, dirty re-creation and
// expunging around it.
func TestConcurrentDisjointKeysMatchModel(t *testing.T) {
	const workers = 4
	steps := 6000
	if testing.Short() {
		steps = 1500
	}
	var m sync2.Map[int, int]
	var wg sync.WaitGroup
	for w := 0; w < workers; w++ {
		wg.Add(1)
		go func(w int) {
			defer wg.Done()
			rng := rand.New(rand.NewSource(int64(w) + 42))
			model := map[int]int{}
			for step := 0; step < steps; step++ {
				k := w + workers*rng.Intn(5)
				v := step + 1
				switch opKind(rng.Intn(int(numOps))) {
				case opLoad:
					got, ok := m.Load(k)
					if want, wok := model[k]; got != want || ok != wok {
						t.Errorf("w%d step %d Load(%d) = (%d,%v), want (%d,%v)", w, step, k, got, ok, want, wok)
						return
					}
				case opStore:
					m.Store(k, v)
					model[k] = v
				case opLoadOrStore:
					got, loaded := m.LoadOrStore(k, v)
					want, wok := model[k]
					if !wok {
						want, model[k] = v, v
					}
					if got != want || loaded != wok {
						t.Errorf("w%d step %d LoadOrStore(%d) = (%d,%v), want (%d,%v)", w, step, k, got, loaded, want, wok)
						return
					}
				case opLoadAndDelete:
					got, loaded := m.LoadAndDelete(k)
					want, wok := model[k]
					delete(model, k)
					if got != want || loaded != wok {
						t.Errorf("w%d step %d LoadAndDelete(%d) = (%d,%v), want (%d,%v)", w, step, k, got, loaded, want, wok)
						return
					}
				case opDelete:
					m.Delete(k)
					delete(model, k)
				case opRange:
					seen := map[int]int{}
					m.Range(func(rk, rv int) bool {
						if _, dup := seen[rk]; dup {
							t.Errorf("Range visited %d twice", rk)
						}
						seen[rk] = rv
						return true
					})
					for rk, rv := range seen {
						if rk%workers == w {
							if want, ok := model[rk]; !ok || want != rv {
								t.Errorf("w%d step %d Range saw own key %d=%d, model (%d,%v)", w, step, rk, rv, want, ok)
								return
							}
						}
					}
					for mk := range model {
						if _, ok := seen[mk]; !ok {
							t.Errorf("w%d step %d Range missed own untouched key %d", w, step, mk)
							return
						}
					}
				}
			}
			for k, want := range model {
				if got, ok := m.Load(k); !ok || got != want {
					t.Errorf("w%d final Load(%d) = (%d,%v), want %d", w, k, got, ok, want)
				}
			}
		}(w)
	}
	wg.Wait()
}

// Exactly one LoadOrStore wins per key generation, and everybody agrees on
// the winner.
func TestConcurrentLoadOrStoreSingleWinner(t *testing.T) {
	const workers = 4
	rounds := 1500
	if testing.Short() {
		rounds = 300
	}
	var m sync2.Map[int, int]
	m.Store(-1, 0)
	for r := 0; r < rounds; r++ {
		key := r % 7 // keys are reused, so entries go through nil/expunged
		actual := make([]int, workers)
		loaded := make([]bool, workers)
		var wg sync.WaitGroup
		for w := 0; w < workers; w++ {
			wg.Add(1)
			go func(w int) {
				defer wg.Done()
				if w == 1 {
					m.Load(-2) // a miss, may promote
				}
				actual[w], loaded[w] = m.LoadOrStore(key, r*10+w)
			}(w)
		}
		wg.Wait()
		winners := 0
		for w := 0; w < workers; w++ {
			if !loaded[w] {
				winners++
				if actual[w] != r*10+w {
					t.Fatalf("round %d: storing call returned %d", r, actual[w])
				}
			}
			if actual[w] != actual[0] {
				t.Fatalf("round %d: callers disagree: %v %v", r, actual, loaded)
			}
		}
		if winners != 1 {
			t.Fatalf("round %d: %d winners (%v %v)", r, winners, actual, loaded)
		}
		if v, ok := m.Load(key); !ok || v != actual[0] {
			t.Fatalf("round %d: Load = (%d,%v), want %d", r, v, ok, actual[0])
		}
		if v, ok := m.LoadAndDelete(key); !ok || v != actual[0] {
			t.Fatalf("round %d: LoadAndDelete = (%d,%v), want %d", r, v, ok, actual[0])
		}
		if r%3 == 0 {
			m.Store(1000+r, r) // new key: re-creates dirty, expunging deleted entries
		}
		if r%5 == 0 {
			m.Delete(1000 + r)
		}
	}
}

// Every stored token is taken by exactly one LoadAndDelete: nothing is lost
// and nothing is handed out twice.
func TestConcurrentTokensTakenOnce(t *testing.T) {
	const producers, consumers, keys = 2, 3, 5
	perProducer := 4000
	if testing.Short() {
		perProducer = 800
	}
	var m sync2.Map[int, int]
	var taken sync.Map // token -> struct{}
	var dup, count int64
	var wg, pwg sync.WaitGroup
	var producersDone int32
	for p := 0; p < producers; p++ {
		wg.Add(1)
		pwg.Add(1)
		go func(p int) {
			defer wg.Done()
			defer pwg.Done()
			for i := 0; i < perProducer; i++ {
				token := p*perProducer + i + 1
				key := p*keys + i%keys
				// Only put a token into a free slot so that none is overwritten.
				for {
					if _, loaded := m.LoadOrStore(key, token); !loaded {
						break
					}
					runtime.Gosched()
				}
			}
		}(p)
	}
	for c := 0; c < consumers; c++ {
		wg.Add(1)
		go func(c int) {
			defer wg.Done()
			for {
				finished := atomic.LoadInt32(&producersDone) == 1
				got := 0
				for key := 0; key < producers*keys; key++ {
					if v, ok := m.LoadAndDelete(key); ok {
						got++
						atomic.AddInt64(&count, 1)
						if _, again := taken.LoadOrStore(v, struct{}{}); again {
							atomic.AddInt64(&dup, 1)
						}
					} else if v != 0 {
						t.Errorf("LoadAndDelete miss returned %d", v)
					}
				}
				if finished && got == 0 {
					return
				}
				if c == 0 {
					m.Load(-1)
				}
			}
		}(c)
	}
	pwg.Wait()
	atomic.StoreInt32(&producersDone, 1)
	wg.Wait()
	if dup != 0 {
		t.Fatalf("%d tokens were handed out twice", dup)
	}
	if int(count) != producers*perProducer {
		t.Fatalf("%d tokens taken, %d stored", count, producers*perProducer)
	}
	m.Range(func(k, v int) bool {
		t.Errorf("left over %d=%d", k, v)
		return true
	})
}

// One writer per key stores increasing values (sometimes deleting in
// between); readers must never see a value go backwards, a value that was
// never written, or a deleted key come back.
func TestConcurrentMonotonicReads(t *testing.T) {
	const keys = 4
	steps := 5000
	if testing.Short() {
		steps = 1000
	}
	var m sync2.Map[int, int]
	var published [keys]int64 // highest value whose Store has been invoked
	var finalGone [keys]int32
	var wg sync.WaitGroup
	stop := make(chan struct{})
	for k := 0; k < keys; k++ {
		wg.Add(1)
		go func(k int) {
			defer wg.Done()
			rng := rand.New(rand.NewSource(int64(k) + 7))
			for v := 1; v <= steps; v++ {
				atomic.StoreInt64(&published[k], int64(v))
				switch rng.Intn(4) {
				case 0:
					m.Delete(k)
					m.Store(k, v)
				case 1:
					if old, ok := m.LoadAndDelete(k); ok && old != v-1 {
						t.Errorf("key %d: LoadAndDelete = %d, want %d", k, old, v-1)
					}
					if got, loaded := m.LoadOrStore(k, v); loaded || got != v {
						t.Errorf("key %d: LoadOrStore after delete = (%d,%v)", k, got, loaded)
					}
				default:
					m.Store(k, v)
				}
				if got, ok := m.Load(k); !ok || got != v {
					t.Errorf("key %d: own Load = (%d,%v), want %d", k, got, ok, v)
					return
				}
				if v%64 == 0 {
					m.Store(100+k*1000+v, v) // churn: new keys amend the read map
					m.Delete(100 + k*1000 + v - 64)
				}
			}
			m.Delete(k)
			atomic.StoreInt32(&finalGone[k], 1)
		}(k)
	}
	var rwg sync.WaitGroup
	for r := 0; r < 3; r++ {
		rwg.Add(1)
		go func(r int) {
			defer rwg.Done()
			var last [keys]int
			for {
				select {
				case <-stop:
					return
				default:
				}
				for k := 0; k < keys; k++ {
					gone := atomic.LoadInt32(&finalGone[k]) == 1
					var v int
					var ok bool
					if r == 2 {
						m.Range(func(rk, rv int) bool {
							if rk == k {
								v, ok = rv, true
							}
							return true
						})
					} else {
						v, ok = m.Load(k)
					}
					if !ok {
						continue
					}
					if gone {
						t.Errorf("key %d came back (%d) after its final delete", k, v)
						return
					}
					if hi := int(atomic.LoadInt64(&published[k])); v > hi || v < 1 {
						t.Errorf("key %d: read %d before it was written (published %d)", k, v, hi)
						return
					}
					if v < last[k] {
						t.Errorf("key %d: value went backwards %d -> %d", k, last[k], v)
						return
					}
					last[k] = v
				}
			}
		}(r)
	}
	wg.Wait()
	close(stop)
	rwg.Wait()
	for k := 0; k < keys; k++ {
		if v, ok := m.Load(k); ok {
			t.Errorf("key %d present (%d) at the end", k, v)
		}
	}
}

// Range while others write: stable keys are always visited exactly once with
// their value; volatile keys at most once with a value that was written.
func TestConcurrentRange(t *testing.T) {
	const stable, volatile = 16, 8
	rounds := 400
	if testing.Short() {
		rounds = 100
	}
	var m sync2.Map[int, int]
	for k := 0; k < stable; k++ {
		m.Store(k, -k-1)
	}
	stop := make(chan struct{})
	var wg sync.WaitGroup
	for w := 0; w < 3; w++ {
		wg.Add(1)
		go func(w int) {
			defer wg.Done()
			rng := rand.New(rand.NewSource(int64(w) + 99))
			for i := 1; ; i++ {
				select {
				case <-stop:
					return
				default:
				}
				k := stable + rng.Intn(volatile)
				switch rng.Intn(4) {
				case 0:
					m.Store(k, k*1000000+i)
				case 1:
					m.LoadOrStore(k, k*1000000+i)
				case 2:
					m.Delete(k)
				case 3:
					m.Load(k)
				}
			}
		}(w)
	}
	for r := 0; r < rounds; r++ {
		seen := map[int]int{}
		m.Range(func(k, v int) bool {
			if _, dup := seen[k]; dup {
				t.Fatalf("Range visited %d twice", k)
			}
			seen[k] = v
			return true
		})
		for k := 0; k < stable; k++ {
			if v, ok := seen[k]; !ok || v != -k-1 {
				t.Fatalf("round %d: stable key %d seen as (%d,%v)", r, k, v, ok)
			}
		}
		for k, v := range seen {
			if k >= stable && v/1000000 != k {
				t.Fatalf("round %d: key %d seen with foreign value %d", r, k, v)
			}
			if k >= stable+volatile {
				t.Fatalf("round %d: unknown key %d", r, k)
			}
		}
	}
	close(stop)
	wg.Wait()
}
