package demo_test

import (
	"fmt"
	"runtime"
	"sync"
	"sync/atomic"
	"testing"
	"time"

	"gopkg.in/typ.v4/sync2"
)

// refOnce is the simple reference model: a mutex-guarded "first caller wins"
// cell holding up to three results. A panicking action still consumes the
// single shot and leaves zero results behind (this is what sync.Once does).
type refOnce struct {
	mu   sync.Mutex
	done bool
	r    [3]any
}

func (m *refOnce) do(f func() [3]any) [3]any {
	m.mu.Lock()
	defer m.mu.Unlock()
	if !m.done {
		func() {
			defer func() { m.done = true }()
			m.r = f()
		}()
	}
	return m.r
}

type payload struct {
	id   int
	text string
}

// catch runs fn and reports the recovered panic value, if any.
func catch(fn func()) (p any, panicked bool) {
	defer func() {
		if r := recover(); r != nil {
			p, panicked = r, true
		}
	}()
	fn()
	return nil, false
}

var callerCounts = []int{1, 2, 3, 8, 33, 100}

func TestOnce1Concurrent(t *testing.T) {
	for _, n := range callerCounts {
		for round := 0; round < 20; round++ {
			var o sync2.Once1[*payload]
			var calls int32
			completed := 0 // plain variable: visibility must come from Do
			winner := -1
			got := make([]*payload, n)
			seen := make([]int, n)
			start := make(chan struct{})
			var wg sync.WaitGroup
			for i := 0; i < n; i++ {
				i := i
				wg.Add(1)
				go func() {
					defer wg.Done()
					<-start
					if i%3 == 0 {
						runtime.Gosched()
					}
					got[i] = o.Do(func() *payload {
						atomic.AddInt32(&calls, 1)
						if round%4 == 0 {
							time.Sleep(200 * time.Microsecond)
						}
						winner = i
						completed = 1
						return &payload{id: i, text: fmt.Sprint("p", i)}
					})
					seen[i] = completed
				}()
			}
			close(start)
			wg.Wait()
			if c := atomic.LoadInt32(&calls); c != 1 {
				t.Fatalf("n=%d: %d invocations, want 1", n, c)
			}
			if winner < 0 || winner >= n {
				t.Fatalf("n=%d: bad winner %d", n, winner)
			}
			for i := 0; i < n; i++ {
				if got[i] != got[0] {
					t.Fatalf("n=%d: caller %d got different pointer", n, i)
				}
				if seen[i] != 1 {
					t.Fatalf("n=%d: caller %d returned before completion", n, i)
				}
			}
			if got[0] == nil || got[0].id != winner || got[0].text != fmt.Sprint("p", winner) {
				t.Fatalf("n=%d: result %+v does not come from winner %d", n, got[0], winner)
			}
			if o.R1 != got[0] {
				t.Fatalf("n=%d: field R1 differs from returned value", n)
			}
			// later callers, other functions
			for k := 0; k < 3; k++ {
				later := o.Do(func() *payload {
					atomic.AddInt32(&calls, 1)
					return &payload{id: -1}
				})
				if later != got[0] {
					t.Fatalf("later call returned a different value")
				}
			}
			if c := atomic.LoadInt32(&calls); c != 1 {
				t.Fatalf("later callers were invoked: %d", c)
			}
		}
	}
}

func TestOnce2Concurrent(t *testing.T) {
	for _, n := range callerCounts {
		for round := 0; round < 20; round++ {
			var o sync2.Once2[int, string]
			var calls int32
			completed := 0
			winner := -1
			type res struct {
				a int
				b string
			}
			got := make([]res, n)
			seen := make([]int, n)
			start := make(chan struct{})
			var wg sync.WaitGroup
			for i := 0; i < n; i++ {
				i := i
				wg.Add(1)
				go func() {
					defer wg.Done()
					<-start
					a, b := o.Do(func() (int, string) {
						atomic.AddInt32(&calls, 1)
						if round%4 == 1 {
							time.Sleep(200 * time.Microsecond)
						}
						winner = i
						completed = 1
						return i + 1000, fmt.Sprint("s", i)
					})
					got[i] = res{a, b}
					seen[i] = completed
				}()
			}
			close(start)
			wg.Wait()
			if c := atomic.LoadInt32(&calls); c != 1 {
				t.Fatalf("n=%d: %d invocations, want 1", n, c)
			}
			want := res{winner + 1000, fmt.Sprint("s", winner)}
			for i := 0; i < n; i++ {
				if got[i] != want {
					t.Fatalf("n=%d: caller %d got %+v want %+v", n, i, got[i], want)
				}
				if seen[i] != 1 {
					t.Fatalf("n=%d: caller %d returned before completion", n, i)
				}
			}
			if o.R1 != want.a || o.R2 != want.b {
				t.Fatalf("fields %v %v differ from %+v", o.R1, o.R2, want)
			}
			a, b := o.Do(func() (int, string) {
				atomic.AddInt32(&calls, 1)
				return -5, "later"
			})
			if (res{a, b}) != want || atomic.LoadInt32(&calls) != 1 {
				t.Fatalf("later call: got %v %v calls=%d", a, b, calls)
			}
		}
	}
}

func TestOnce3Concurrent(t *testing.T) {
	for _, n := range callerCounts {
		for round := 0; round < 20; round++ {
			var o sync2.Once3[int, string, error]
			var calls int32
			completed := 0
			winner := -1
			type res struct {
				a int
				b string
				c error
			}
			errs := make([]error, n)
			for i := range errs {
				errs[i] = fmt.Errorf("err %d", i)
			}
			got := make([]res, n)
			seen := make([]int, n)
			start := make(chan struct{})
			var wg sync.WaitGroup
			for i := 0; i < n; i++ {
				i := i
				wg.Add(1)
				go func() {
					defer wg.Done()
					<-start
					a, b, c := o.Do(func() (int, string, error) {
						atomic.AddInt32(&calls, 1)
						if round%4 == 2 {
							time.Sleep(200 * time.Microsecond)
						}
						winner = i
						completed = 1
						return i * 7, fmt.Sprint("t", i), errs[i]
					})
					got[i] = res{a, b, c}
					seen[i] = completed
				}()
			}
			close(start)
			wg.Wait()
			if c := atomic.LoadInt32(&calls); c != 1 {
				t.Fatalf("n=%d: %d invocations, want 1", n, c)
			}
			want := res{winner * 7, fmt.Sprint("t", winner), errs[winner]}
			for i := 0; i < n; i++ {
				if got[i] != want {
					t.Fatalf("n=%d: caller %d got %+v want %+v", n, i, got[i], want)
				}
				if seen[i] != 1 {
					t.Fatalf("n=%d: caller %d returned before completion", n, i)
				}
			}
			if o.R1 != want.a || o.R2 != want.b || o.R3 != want.c {
				t.Fatalf("fields differ from %+v", want)
			}
			a, b, c := o.Do(func() (int, string, error) {
				atomic.AddInt32(&calls, 1)
				return -5, "later", nil
			})
			if (res{a, b, c}) != want || atomic.LoadInt32(&calls) != 1 {
				t.Fatalf("later call: got %v %v %v calls=%d", a, b, c, calls)
			}
		}
	}
}

// TestSequentialAgainstModel drives the three types and the reference model
// with the same sequential history of actions: normal returns, zero values,
// panicking first actions, nil functions, actions that poke the result fields.
func TestSequentialAgainstModel(t *testing.T) {
	type step struct {
		name  string
		vals  [3]any // what the function returns
		panic any    // non-nil: the function panics with this value
		isNil bool   // pass a nil function
	}
	histories := [][]step{
		{{name: "a", vals: [3]any{1, "x", 1.5}}, {name: "b", vals: [3]any{2, "y", 2.5}}, {name: "c", vals: [3]any{3, "z", 3.5}}},
		{{name: "zero", vals: [3]any{0, "", 0.0}}, {name: "b", vals: [3]any{2, "y", 2.5}}},
		{{name: "boom", panic: "boom"}, {name: "b", vals: [3]any{2, "y", 2.5}}, {name: "boom2", panic: "again"}},
		{{name: "nilfn", isNil: true}, {name: "b", vals: [3]any{2, "y", 2.5}}, {name: "nilfn2", isNil: true}},
		{{name: "a", vals: [3]any{9, "q", -1.0}}, {name: "nilfn", isNil: true}, {name: "boom", panic: 42}},
	}
	for hi, h := range histories {
		var o1 sync2.Once1[int]
		var o2 sync2.Once2[int, string]
		var o3 sync2.Once3[int, string, float64]
		var m1, m2, m3 refOnce
		var inv1, inv2, inv3, invM int
		for si, s := range h {
			s := s
			tag := fmt.Sprintf("history %d step %d (%s)", hi, si, s.name)
			body := func(cnt *int) [3]any {
				*cnt++
				if s.panic != nil {
					panic(s.panic)
				}
				return s.vals
			}
			modelFn := func() [3]any {
				if s.isNil {
					var f func() [3]any
					return f() // nil call: runtime panic
				}
				return body(&invM)
			}
			// Once1
			var w1, g1 [3]any
			invM = 0
			_, wp := catch(func() { w1 = m1.do(modelFn) })
			var f1 func() int
			if !s.isNil {
				f1 = func() int { v := body(&inv1); o1.R1 = -777; return v[0].(int) }
			}
			pv, gp := catch(func() { g1[0] = o1.Do(f1) })
			if gp != wp {
				t.Fatalf("%s Once1: panicked=%v want %v (%v)", tag, gp, wp, pv)
			}
			if gp && s.panic != nil && pv != s.panic {
				t.Fatalf("%s Once1: panic value %v want %v", tag, pv, s.panic)
			}
			if !gp {
				want := w1[0]
				if want == nil {
					want = 0
				}
				if g1[0] != want || o1.R1 != want {
					t.Fatalf("%s Once1: got %v field %v want %v", tag, g1[0], o1.R1, want)
				}
			}
			// Once2
			var w2 [3]any
			_, wp = catch(func() { w2 = m2.do(modelFn) })
			var f2 func() (int, string)
			if !s.isNil {
				f2 = func() (int, string) {
					v := body(&inv2)
					o2.R1, o2.R2 = -777, "poked"
					return v[0].(int), v[1].(string)
				}
			}
			var a2 int
			var b2 string
			pv, gp = catch(func() { a2, b2 = o2.Do(f2) })
			if gp != wp {
				t.Fatalf("%s Once2: panicked=%v want %v (%v)", tag, gp, wp, pv)
			}
			if gp && s.panic != nil && pv != s.panic {
				t.Fatalf("%s Once2: panic value %v want %v", tag, pv, s.panic)
			}
			if !gp {
				wa, wb := 0, ""
				if w2[0] != nil {
					wa, wb = w2[0].(int), w2[1].(string)
				}
				if a2 != wa || b2 != wb || o2.R1 != wa || o2.R2 != wb {
					t.Fatalf("%s Once2: got %v %v fields %v %v want %v %v", tag, a2, b2, o2.R1, o2.R2, wa, wb)
				}
			}
			// Once3
			var w3 [3]any
			_, wp = catch(func() { w3 = m3.do(modelFn) })
			var f3 func() (int, string, float64)
			if !s.isNil {
				f3 = func() (int, string, float64) {
					v := body(&inv3)
					o3.R1, o3.R2, o3.R3 = -777, "poked", -7.5
					return v[0].(int), v[1].(string), v[2].(float64)
				}
			}
			var a3 int
			var b3 string
			var c3 float64
			pv, gp = catch(func() { a3, b3, c3 = o3.Do(f3) })
			if gp != wp {
				t.Fatalf("%s Once3: panicked=%v want %v (%v)", tag, gp, wp, pv)
			}
			if gp && s.panic != nil && pv != s.panic {
				t.Fatalf("%s Once3: panic value %v want %v", tag, pv, s.panic)
			}
			if !gp {
				wa, wb, wc := 0, "", 0.0
				if w3[0] != nil {
					wa, wb, wc = w3[0].(int), w3[1].(string), w3[2].(float64)
				}
				if a3 != wa || b3 != wb || c3 != wc || o3.R1 != wa || o3.R2 != wb || o3.R3 != wc {
					t.Fatalf("%s Once3: got %v %v %v want %v %v %v", tag, a3, b3, c3, wa, wb, wc)
				}
			}
		}
		// Only a non-nil first function can ever have been invoked, and once.
		wantInv := 0
		if !h[0].isNil {
			wantInv = 1
		}
		if inv1 != wantInv || inv2 != wantInv || inv3 != wantInv {
			t.Fatalf("history %d: invocations %d %d %d want %d", hi, inv1, inv2, inv3, wantInv)
		}
	}
}

// A panicking first action with concurrent waiters: the single shot is used
// up, exactly one function ran, and everybody else sees zero values.
func TestPanickingWinnerConcurrent(t *testing.T) {
	for round := 0; round < 50; round++ {
		const n = 16
		var o sync2.Once2[int, string]
		var calls, panics int32
		start := make(chan struct{})
		var wg sync.WaitGroup
		for i := 0; i < n; i++ {
			wg.Add(1)
			go func() {
				defer wg.Done()
				<-start
				var a int
				var b string
				_, p := catch(func() {
					a, b = o.Do(func() (int, string) {
						atomic.AddInt32(&calls, 1)
						panic("first fails")
					})
				})
				if p {
					atomic.AddInt32(&panics, 1)
				} else if a != 0 || b != "" {
					t.Errorf("waiter got %v %q, want zero values", a, b)
				}
			}()
		}
		close(start)
		wg.Wait()
		if calls != 1 || panics != 1 {
			t.Fatalf("calls=%d panics=%d, want 1 and 1", calls, panics)
		}
	}
}

// Waiters must block until the running action has finished.
func TestWaitersBlockUntilDone(t *testing.T) {
	var o sync2.Once3[int, int, int]
	entered := make(chan struct{})
	release := make(chan struct{})
	finished := false
	first := make(chan [3]int, 1)
	go func() {
		a, b, c := o.Do(func() (int, int, int) {
			close(entered)
			<-release
			finished = true
			return 1, 2, 3
		})
		first <- [3]int{a, b, c}
	}()
	<-entered
	const n = 8
	out := make(chan [3]int, n)
	for i := 0; i < n; i++ {
		go func() {
			a, b, c := o.Do(func() (int, int, int) { return -1, -1, -1 })
			if !finished {
				t.Errorf("waiter returned before the action finished")
			}
			out <- [3]int{a, b, c}
		}()
	}
	select {
	case v := <-out:
		t.Fatalf("waiter returned %v while the action was still running", v)
	case <-time.After(30 * time.Millisecond):
	}
	close(release)
	if v := <-first; v != [3]int{1, 2, 3} {
		t.Fatalf("first caller got %v", v)
	}
	for i := 0; i < n; i++ {
		if v := <-out; v != [3]int{1, 2, 3} {
			t.Fatalf("waiter got %v", v)
		}
	}
}
