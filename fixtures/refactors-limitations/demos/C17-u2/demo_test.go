package demo

import (
	"fmt"
	"math/rand"
	"runtime"
	"sync"
	"sync/atomic"
	"testing"
	"time"

	"gopkg.in/typ.v4/sync2"
)

// result is what the i-th candidate function would return.
type result struct {
	a int
	b string
	c *int
}

// harness abstracts over Once1/Once2/Once3 so that the same scenarios run
// against all three. do(i, body) calls Do with a function that runs body and
// then returns the values derived from id i; it reports the values Do returned
// folded back into a result (unused positions are filled in from the id that
// position a identifies, so they can be compared uniformly).
type harness struct {
	name string
	// fresh returns a new once-object wrapped in a do function and a function
	// reading the exported result fields directly.
	fresh func(ptrs []*int) (do func(i int, body func()) result, fields func() result)
}

func mk(i int, ptrs []*int) result {
	return result{a: i + 1, b: fmt.Sprintf("id-%d", i), c: ptrs[i]}
}

func harnesses() []harness {
	return []harness{
		{
			name: "Once1",
			fresh: func(ptrs []*int) (func(int, func()) result, func() result) {
				var o sync2.Once1[*int]
				do := func(i int, body func()) result {
					p := o.Do(func() *int {
						body()
						return ptrs[i]
					})
					return fromPtr(p, ptrs)
				}
				return do, func() result { return fromPtr(o.R1, ptrs) }
			},
		},
		{
			name: "Once2",
			fresh: func(ptrs []*int) (func(int, func()) result, func() result) {
				var o sync2.Once2[int, *int]
				fold := func(a int, p *int) result {
					r := fromPtr(p, ptrs)
					r.a = a
					return r
				}
				do := func(i int, body func()) result {
					a, p := o.Do(func() (int, *int) {
						body()
						return i + 1, ptrs[i]
					})
					return fold(a, p)
				}
				return do, func() result { return fold(o.R1, o.R2) }
			},
		},
		{
			name: "Once3",
			fresh: func(ptrs []*int) (func(int, func()) result, func() result) {
				var o sync2.Once3[int, string, *int]
				do := func(i int, body func()) result {
					a, b, p := o.Do(func() (int, string, *int) {
						body()
						return i + 1, fmt.Sprintf("id-%d", i), ptrs[i]
					})
					return result{a, b, p}
				}
				return do, func() result { return result{o.R1, o.R2, o.R3} }
			},
		},
	}
}

// fromPtr rebuilds a full result from the pointer position alone.
func fromPtr(p *int, ptrs []*int) result {
	for i, q := range ptrs {
		if p == q {
			return mk(i, ptrs)
		}
	}
	return result{c: p}
}

func mkPtrs(n int) []*int {
	ptrs := make([]*int, n)
	for i := range ptrs {
		ptrs[i] = new(int)
		*ptrs[i] = i
	}
	return ptrs
}

// TestConcurrentExactlyOnce: n goroutines race to call Do, each with its own
// function. Exactly one function runs, exactly once; every caller gets that
// function's values; every caller sees the plain (non-atomic) completion flag
// the action wrote last - under -race this also proves the happens-before edge.
func TestConcurrentExactlyOnce(t *testing.T) {
	for _, h := range harnesses() {
		h := h
		t.Run(h.name, func(t *testing.T) {
			rng := rand.New(rand.NewSource(17))
			for _, n := range []int{1, 2, 3, 8, 32, 100} {
				for rep := 0; rep < 40; rep++ {
					ptrs := mkPtrs(n)
					do, fields := h.fresh(ptrs)
					var calls int32
					var winner int32 = -1
					completed := false // plain variable on purpose
					sideEffect := 0    // plain variable on purpose
					delays := make([]int, n)
					for i := range delays {
						delays[i] = rng.Intn(4)
					}
					slow := rng.Intn(2) == 0
					start := make(chan struct{})
					got := make([]result, n)
					sawDone := make([]bool, n)
					sawSide := make([]int, n)
					var wg sync.WaitGroup
					for i := 0; i < n; i++ {
						i := i
						wg.Add(1)
						go func() {
							defer wg.Done()
							<-start
							for k := 0; k < delays[i]; k++ {
								runtime.Gosched()
							}
							got[i] = do(i, func() {
								atomic.AddInt32(&calls, 1)
								atomic.StoreInt32(&winner, int32(i))
								sideEffect = 1000 + i
								if slow {
									time.Sleep(200 * time.Microsecond)
								} else {
									runtime.Gosched()
								}
								completed = true
							})
							sawDone[i] = completed
							sawSide[i] = sideEffect
						}()
					}
					close(start)
					wg.Wait()
					if c := atomic.LoadInt32(&calls); c != 1 {
						t.Fatalf("n=%d rep=%d: %d invocations, want exactly 1", n, rep, c)
					}
					w := int(atomic.LoadInt32(&winner))
					want := mk(w, ptrs)
					for i := 0; i < n; i++ {
						if got[i] != want {
							t.Fatalf("n=%d rep=%d: caller %d got %+v, want %+v (winner %d)", n, rep, i, got[i], want, w)
						}
						if !sawDone[i] {
							t.Fatalf("n=%d rep=%d: caller %d returned before the action completed", n, rep, i)
						}
						if sawSide[i] != 1000+w {
							t.Fatalf("n=%d rep=%d: caller %d saw side effect %d", n, rep, i, sawSide[i])
						}
					}
					// Later callers, from this and from new goroutines.
					for i := 0; i < n+2; i++ {
						r := do(i%n, func() { atomic.AddInt32(&calls, 1) })
						if r != want {
							t.Fatalf("late caller got %+v, want %+v", r, want)
						}
					}
					var wg2 sync.WaitGroup
					for i := 0; i < 4; i++ {
						i := i
						wg2.Add(1)
						go func() {
							defer wg2.Done()
							r := do(i%n, func() { atomic.AddInt32(&calls, 1) })
							if r != want {
								t.Errorf("late goroutine got %+v, want %+v", r, want)
							}
							if !completed {
								t.Errorf("late goroutine does not see completion")
							}
						}()
					}
					wg2.Wait()
					if c := atomic.LoadInt32(&calls); c != 1 {
						t.Fatalf("n=%d rep=%d: %d invocations after late calls, want 1", n, rep, c)
					}
					if f := fields(); f != want {
						t.Fatalf("exported fields hold %+v, want %+v", f, want)
					}
				}
			}
		})
	}
}

// TestCallersBlockUntilActionCompletes: while the action is running, no other
// Do call returns.
func TestCallersBlockUntilActionCompletes(t *testing.T) {
	for _, h := range harnesses() {
		h := h
		t.Run(h.name, func(t *testing.T) {
			const n = 6
			ptrs := mkPtrs(n + 1)
			do, _ := h.fresh(ptrs)
			entered := make(chan struct{})
			release := make(chan struct{})
			var calls int32
			firstDone := make(chan result, 1)
			go func() {
				firstDone <- do(0, func() {
					atomic.AddInt32(&calls, 1)
					close(entered)
					<-release
				})
			}()
			<-entered
			var returned int32
			res := make(chan result, n)
			for i := 1; i <= n; i++ {
				i := i
				go func() {
					r := do(i, func() { atomic.AddInt32(&calls, 1) })
					atomic.AddInt32(&returned, 1)
					res <- r
				}()
			}
			time.Sleep(30 * time.Millisecond)
			if r := atomic.LoadInt32(&returned); r != 0 {
				t.Fatalf("%d callers returned while the action was still running", r)
			}
			select {
			case <-firstDone:
				t.Fatal("first caller returned before the action finished")
			default:
			}
			close(release)
			want := mk(0, ptrs)
			if r := <-firstDone; r != want {
				t.Fatalf("first caller got %+v, want %+v", r, want)
			}
			for i := 0; i < n; i++ {
				select {
				case r := <-res:
					if r != want {
						t.Fatalf("waiter got %+v, want %+v", r, want)
					}
				case <-time.After(5 * time.Second):
					t.Fatal("waiter never returned")
				}
			}
			if c := atomic.LoadInt32(&calls); c != 1 {
				t.Fatalf("%d invocations, want 1", c)
			}
		})
	}
}

// TestSequential covers the single-goroutine clauses including zero results.
func TestSequential(t *testing.T) {
	t.Run("Once1", func(t *testing.T) {
		var o sync2.Once1[int]
		n := 0
		for i := 0; i < 5; i++ {
			i := i
			if v := o.Do(func() int { n++; return 40 + i }); v != 40 {
				t.Fatalf("call %d: got %d", i, v)
			}
		}
		if n != 1 || o.R1 != 40 {
			t.Fatalf("n=%d R1=%d", n, o.R1)
		}
		var z sync2.Once1[string]
		if v := z.Do(func() string { return "" }); v != "" {
			t.Fatal(v)
		}
		if v := z.Do(func() string { t.Error("second function invoked"); return "x" }); v != "" {
			t.Fatal(v)
		}
	})
	t.Run("Once2", func(t *testing.T) {
		var o sync2.Once2[int, error]
		n := 0
		e := fmt.Errorf("boom")
		for i := 0; i < 5; i++ {
			i := i
			v, err := o.Do(func() (int, error) { n++; return 40 + i, e })
			if v != 40 || err != e {
				t.Fatalf("call %d: got %d %v", i, v, err)
			}
		}
		if n != 1 || o.R1 != 40 || o.R2 != e {
			t.Fatalf("n=%d fields=%v %v", n, o.R1, o.R2)
		}
		var z sync2.Once2[[]int, map[string]int]
		a, b := z.Do(func() ([]int, map[string]int) { return nil, nil })
		if a != nil || b != nil {
			t.Fatal(a, b)
		}
		a, b = z.Do(func() ([]int, map[string]int) { t.Error("invoked"); return []int{1}, map[string]int{} })
		if a != nil || b != nil {
			t.Fatal(a, b)
		}
	})
	t.Run("Once3", func(t *testing.T) {
		var o sync2.Once3[int, string, []byte]
		n := 0
		buf := []byte("abc")
		for i := 0; i < 5; i++ {
			i := i
			a, b, c := o.Do(func() (int, string, []byte) { n++; return 40 + i, fmt.Sprint(i), buf })
			if a != 40 || b != "0" || &c[0] != &buf[0] || len(c) != 3 {
				t.Fatalf("call %d: got %d %q %v", i, a, b, c)
			}
		}
		if n != 1 || o.R1 != 40 || o.R2 != "0" || &o.R3[0] != &buf[0] {
			t.Fatalf("n=%d fields=%v %v %v", n, o.R1, o.R2, o.R3)
		}
	})
	t.Run("independent", func(t *testing.T) {
		var a, b sync2.Once1[int]
		if a.Do(func() int { return 1 }) != 1 || b.Do(func() int { return 2 }) != 2 {
			t.Fatal("values mixed up")
		}
		if a.Do(func() int { return 3 }) != 1 || b.Do(func() int { return 4 }) != 2 {
			t.Fatal("values mixed up on second call")
		}
	})
	t.Run("new", func(t *testing.T) {
		o := new(sync2.Once2[string, bool])
		s, ok := o.Do(func() (string, bool) { return "x", true })
		if s != "x" || !ok {
			t.Fatal(s, ok)
		}
		s, ok = o.Do(nil) // never invoked, so nil is fine here
		if s != "x" || !ok {
			t.Fatal(s, ok)
		}
	})
}

func catch(f func()) (v interface{}, panicked bool) {
	defer func() {
		if r := recover(); r != nil {
			v, panicked = r, true
		}
	}()
	f()
	return nil, false
}

// TestPanicAndGoexit: a panicking (or exiting) action still counts as the one
// invocation: the panic reaches the caller, nothing is invoked later, and later
// callers get the zero values.
func TestPanicAndGoexit(t *testing.T) {
	t.Run("Once1/panic", func(t *testing.T) {
		var o sync2.Once1[int]
		v, p := catch(func() { o.Do(func() int { panic("first") }) })
		if !p || v != "first" {
			t.Fatalf("panic %v %v", v, p)
		}
		for i := 0; i < 3; i++ {
			if r := o.Do(func() int { t.Error("invoked after panic"); return 7 }); r != 0 {
				t.Fatalf("got %d, want 0", r)
			}
		}
	})
	t.Run("Once2/panic", func(t *testing.T) {
		var o sync2.Once2[int, string]
		v, p := catch(func() { o.Do(func() (int, string) { panic("first") }) })
		if !p || v != "first" {
			t.Fatalf("panic %v %v", v, p)
		}
		a, b := o.Do(func() (int, string) { t.Error("invoked after panic"); return 7, "x" })
		if a != 0 || b != "" {
			t.Fatal(a, b)
		}
	})
	t.Run("Once3/panic", func(t *testing.T) {
		var o sync2.Once3[int, string, *int]
		v, p := catch(func() { o.Do(func() (int, string, *int) { panic("first") }) })
		if !p || v != "first" {
			t.Fatalf("panic %v %v", v, p)
		}
		a, b, c := o.Do(func() (int, string, *int) { t.Error("invoked after panic"); return 7, "x", new(int) })
		if a != 0 || b != "" || c != nil {
			t.Fatal(a, b, c)
		}
	})
	t.Run("nil func", func(t *testing.T) {
		var o1 sync2.Once1[int]
		if v, p := catch(func() { o1.Do(nil) }); !p {
			t.Fatal("no panic on nil func")
		} else if _, ok := v.(runtime.Error); !ok {
			t.Fatalf("panic value %T %v", v, v)
		}
		if r := o1.Do(func() int { t.Error("invoked"); return 1 }); r != 0 {
			t.Fatal(r)
		}
		var o2 sync2.Once2[int, int]
		if v, p := catch(func() { o2.Do(nil) }); !p {
			t.Fatal("no panic on nil func")
		} else if _, ok := v.(runtime.Error); !ok {
			t.Fatalf("panic value %T %v", v, v)
		}
		if a, b := o2.Do(func() (int, int) { t.Error("invoked"); return 1, 1 }); a != 0 || b != 0 {
			t.Fatal(a, b)
		}
		var o3 sync2.Once3[int, int, int]
		if v, p := catch(func() { o3.Do(nil) }); !p {
			t.Fatal("no panic on nil func")
		} else if _, ok := v.(runtime.Error); !ok {
			t.Fatalf("panic value %T %v", v, v)
		}
		if a, b, c := o3.Do(func() (int, int, int) { t.Error("invoked"); return 1, 1, 1 }); a != 0 || b != 0 || c != 0 {
			t.Fatal(a, b, c)
		}
	})
	t.Run("nil receiver", func(t *testing.T) {
		var o1 *sync2.Once1[int]
		if v, p := catch(func() { o1.Do(func() int { return 1 }) }); !p {
			t.Fatal("no panic on nil receiver")
		} else if _, ok := v.(runtime.Error); !ok {
			t.Fatalf("panic value %T %v", v, v)
		}
		var o2 *sync2.Once2[int, int]
		if _, p := catch(func() { o2.Do(func() (int, int) { return 1, 1 }) }); !p {
			t.Fatal("no panic on nil receiver")
		}
		var o3 *sync2.Once3[int, int, int]
		if _, p := catch(func() { o3.Do(func() (int, int, int) { return 1, 1, 1 }) }); !p {
			t.Fatal("no panic on nil receiver")
		}
	})
	t.Run("goexit", func(t *testing.T) {
		var o sync2.Once2[int, string]
		done := make(chan struct{})
		go func() {
			defer close(done)
			o.Do(func() (int, string) { runtime.Goexit(); return 1, "x" })
		}()
		<-done
		a, b := o.Do(func() (int, string) { t.Error("invoked after Goexit"); return 7, "x" })
		if a != 0 || b != "" {
			t.Fatal(a, b)
		}
	})
	t.Run("panic under contention", func(t *testing.T) {
		for rep := 0; rep < 50; rep++ {
			var o sync2.Once1[int]
			var calls, panics int32
			var wg sync.WaitGroup
			start := make(chan struct{})
			for i := 0; i < 8; i++ {
				wg.Add(1)
				go func() {
					defer wg.Done()
					<-start
					_, p := catch(func() {
						if r := o.Do(func() int { atomic.AddInt32(&calls, 1); panic("x") }); r != 0 {
							t.Errorf("got %d, want 0", r)
						}
					})
					if p {
						atomic.AddInt32(&panics, 1)
					}
				}()
			}
			close(start)
			wg.Wait()
			if calls != 1 || panics != 1 {
				t.Fatalf("calls=%d panics=%d, want 1 and 1", calls, panics)
			}
		}
	})
}

// TestManyObjectsHammer: many once-objects hit by many goroutines in random
// order; a model (first writer per object, recorded atomically inside the
// action) predicts every returned value.
func TestManyObjectsHammer(t *testing.T) {
	const objs, workers, ops = 64, 8, 2000
	var o1 [objs]sync2.Once1[int]
	var o2 [objs]sync2.Once2[int, int]
	var o3 [objs]sync2.Once3[int, int, int]
	var model [3][objs]int64 // value chosen by the one invocation, 0 = none yet
	var counts [3][objs]int32
	var wg sync.WaitGroup
	for w := 0; w < workers; w++ {
		w := w
		wg.Add(1)
		go func() {
			defer wg.Done()
			rng := rand.New(rand.NewSource(int64(1700 + w)))
			for k := 0; k < ops; k++ {
				j := rng.Intn(objs)
				val := w*ops + k + 1
				switch rng.Intn(3) {
				case 0:
					r := o1[j].Do(func() int {
						atomic.AddInt32(&counts[0][j], 1)
						atomic.StoreInt64(&model[0][j], int64(val))
						return val
					})
					if m := atomic.LoadInt64(&model[0][j]); int64(r) != m {
						t.Errorf("Once1[%d]: got %d, model %d", j, r, m)
						return
					}
				case 1:
					a, b := o2[j].Do(func() (int, int) {
						atomic.AddInt32(&counts[1][j], 1)
						atomic.StoreInt64(&model[1][j], int64(val))
						return val, -val
					})
					if m := atomic.LoadInt64(&model[1][j]); int64(a) != m || int64(b) != -m {
						t.Errorf("Once2[%d]: got %d %d, model %d", j, a, b, m)
						return
					}
				case 2:
					a, b, c := o3[j].Do(func() (int, int, int) {
						atomic.AddInt32(&counts[2][j], 1)
						atomic.StoreInt64(&model[2][j], int64(val))
						return val, -val, 2 * val
					})
					if m := atomic.LoadInt64(&model[2][j]); int64(a) != m || int64(b) != -m || int64(c) != 2*m {
						t.Errorf("Once3[%d]: got %d %d %d, model %d", j, a, b, c, m)
						return
					}
				}
			}
		}()
	}
	wg.Wait()
	for k := 0; k < 3; k++ {
		for j := 0; j < objs; j++ {
			if c := counts[k][j]; c > 1 {
				t.Fatalf("kind %d object %d: %d invocations", k, j, c)
			}
		}
	}
}
