package demo

import (
	"fmt"
	"math"
	"math/rand"
	"reflect"
	"sort"
	"sync"
	"testing"

	"gopkg.in/typ.v4/slices"
)

// ---------------------------------------------------------------------------
// helpers

type item struct {
	key int
	tag int // original position, unique
}

type items []item // named slice type, exercises S ~[]E

func byKey(a, b item) bool { return a.key < b.key }

// genInts returns a slice of length n with the given duplicate pattern.
func genInts(r *rand.Rand, n, pattern int) []int {
	s := make([]int, n)
	for i := range s {
		switch pattern {
		case 0: // wide range, few duplicates
			s[i] = r.Intn(1<<20) - 1<<19
		case 1: // many duplicates
			s[i] = r.Intn(4)
		case 2: // all equal
			s[i] = 7
		case 3: // already ascending
			s[i] = i
		case 4: // descending
			s[i] = n - i
		case 5: // ascending with runs of duplicates
			s[i] = i / 3
		case 6: // organ pipe
			if i < n/2 {
				s[i] = i
			} else {
				s[i] = n - i
			}
		default: // small range incl. negatives
			s[i] = r.Intn(11) - 5
		}
	}
	return s
}

const nPatterns = 8

func lengths() []int {
	ls := []int{}
	for n := 0; n <= 40; n++ {
		ls = append(ls, n)
	}
	// lengths around the insertion sort / pdqsort / stable block thresholds and bigger ones
	ls = append(ls, 49, 50, 51, 63, 64, 65, 100, 127, 128, 129, 200, 257, 500, 1000)
	return ls
}

func tagged(keys []int) items {
	s := make(items, len(keys))
	for i, k := range keys {
		s[i] = item{k, i}
	}
	return s
}

func cloneInts(s []int) []int { return append([]int(nil), s...) }
func cloneItems(s items) items { return append(items(nil), s...) }

func isPermInts(a, b []int) bool {
	if len(a) != len(b) {
		return false
	}
	m := map[int]int{}
	for _, v := range a {
		m[v]++
	}
	for _, v := range b {
		m[v]--
	}
	for _, c := range m {
		if c != 0 {
			return false
		}
	}
	return true
}

func isPermItems(a, b items) bool {
	if len(a) != len(b) {
		return false
	}
	m := map[item]int{}
	for _, v := range a {
		m[v]++
	}
	for _, v := range b {
		m[v]--
	}
	for _, c := range m {
		if c != 0 {
			return false
		}
	}
	return true
}

// model adapters, written independently of the library
type modelLess struct {
	s    items
	less func(a, b item) bool
}

func (m modelLess) Len() int           { return len(m.s) }
func (m modelLess) Swap(i, j int)      { m.s[i], m.s[j] = m.s[j], m.s[i] }
func (m modelLess) Less(i, j int) bool { return m.less(m.s[i], m.s[j]) }

type pair struct{ a, b item }

func mustPanic(t *testing.T, name string, f func()) {
	t.Helper()
	defer func() {
		if recover() == nil {
			t.Errorf("%s: expected a panic", name)
		}
	}()
	f()
}

func mustNotPanic(t *testing.T, name string, f func()) {
	t.Helper()
	defer func() {
		if r := recover(); r != nil {
			t.Errorf("%s: unexpected panic: %v", name, r)
		}
	}()
	f()
}

// ---------------------------------------------------------------------------
// Sort / SortDesc on ordered element types

func TestSortOrderedInts(t *testing.T) {
	r := rand.New(rand.NewSource(1))
	for _, n := range lengths() {
		for p := 0; p < nPatterns; p++ {
			in := genInts(r, n, p)

			asc := cloneInts(in)
			slices.Sort(asc)
			want := cloneInts(in)
			sort.Ints(want)
			if !reflect.DeepEqual(asc, want) {
				t.Fatalf("Sort n=%d p=%d: got %v want %v", n, p, asc, want)
			}
			if !isPermInts(in, asc) || !sort.IntsAreSorted(asc) {
				t.Fatalf("Sort n=%d p=%d: not a sorted permutation", n, p)
			}

			desc := cloneInts(in)
			slices.SortDesc(desc)
			for i := range want {
				if desc[i] != want[len(want)-1-i] {
					t.Fatalf("SortDesc n=%d p=%d: got %v", n, p, desc)
				}
			}
			for i := 1; i < len(desc); i++ {
				if desc[i-1] < desc[i] {
					t.Fatalf("SortDesc n=%d p=%d: not descending at %d", n, p, i)
				}
			}
			if !isPermInts(in, desc) {
				t.Fatalf("SortDesc n=%d p=%d: not a permutation", n, p)
			}
		}
	}
}

type myInts []int
type celsius float64

func TestSortOrderedOtherTypes(t *testing.T) {
	r := rand.New(rand.NewSource(2))
	for _, n := range []int{0, 1, 2, 3, 5, 12, 13, 50, 300} {
		// strings
		ss := make([]string, n)
		for i := range ss {
			ss[i] = fmt.Sprintf("k%03d", r.Intn(n+1))
		}
		want := append([]string(nil), ss...)
		sort.Strings(want)
		got := append([]string(nil), ss...)
		slices.Sort(got)
		if !reflect.DeepEqual(got, want) {
			t.Fatalf("Sort strings n=%d: got %v want %v", n, got, want)
		}
		got = append([]string(nil), ss...)
		slices.SortDesc(got)
		for i := range want {
			if got[i] != want[n-1-i] {
				t.Fatalf("SortDesc strings n=%d: %v", n, got)
			}
		}

		// floats without NaN, without zeros of both signs (distinguishable equal values)
		fs := make([]float64, n)
		for i := range fs {
			switch r.Intn(10) {
			case 0:
				fs[i] = math.Inf(1)
			case 1:
				fs[i] = math.Inf(-1)
			default:
				fs[i] = float64(r.Intn(40)-20) + 0.5
			}
		}
		wantF := append([]float64(nil), fs...)
		sort.Float64s(wantF)
		gotF := append([]float64(nil), fs...)
		slices.Sort(gotF)
		if !reflect.DeepEqual(gotF, wantF) {
			t.Fatalf("Sort floats n=%d: got %v want %v", n, gotF, wantF)
		}
		gotF = append([]float64(nil), fs...)
		slices.SortDesc(gotF)
		for i := range wantF {
			if gotF[i] != wantF[n-1-i] {
				t.Fatalf("SortDesc floats n=%d: %v", n, gotF)
			}
		}

		// named slice type and named element type
		mi := myInts(genInts(r, n, 7))
		wantI := cloneInts(mi)
		sort.Ints(wantI)
		slices.Sort(mi)
		if len(mi) != len(wantI) || (n > 0 && !reflect.DeepEqual([]int(mi), wantI)) {
			t.Fatalf("Sort myInts n=%d: %v", n, mi)
		}
		cs := make([]celsius, n)
		for i := range cs {
			cs[i] = celsius(r.Intn(9)) / 2
		}
		orig := append([]celsius(nil), cs...)
		slices.SortDesc(cs)
		for i := 1; i < n; i++ {
			if cs[i-1] < cs[i] {
				t.Fatalf("SortDesc celsius n=%d: %v", n, cs)
			}
		}
		cnt := map[celsius]int{}
		for _, v := range orig {
			cnt[v]++
		}
		for _, v := range cs {
			cnt[v]--
		}
		for _, c := range cnt {
			if c != 0 {
				t.Fatalf("SortDesc celsius n=%d: not a permutation", n)
			}
		}
	}
}

// Sort only touches the slice it is given: neighbours in the same backing
// array stay untouched.
func TestSortSubslice(t *testing.T) {
	r := rand.New(rand.NewSource(3))
	back := genInts(r, 100, 0)
	orig := cloneInts(back)
	slices.Sort(back[20:70])
	if !reflect.DeepEqual(back[:20], orig[:20]) || !reflect.DeepEqual(back[70:], orig[70:]) {
		t.Fatal("Sort changed elements outside the slice")
	}
	if !sort.IntsAreSorted(back[20:70]) || !isPermInts(back[20:70], orig[20:70]) {
		t.Fatal("Sort of subslice wrong")
	}
	back2 := tagged(orig)
	slices.SortStableDescFunc(back2[10:90:90], byKey)
	for i := 0; i < 10; i++ {
		if back2[i].tag != i || back2[90+i].tag != 90+i {
			t.Fatal("SortStableDescFunc changed elements outside the slice")
		}
	}
}

// ---------------------------------------------------------------------------
// SortFunc / SortDescFunc (unstable) on tagged elements

func TestSortFuncAndDescFunc(t *testing.T) {
	r := rand.New(rand.NewSource(4))
	for _, n := range lengths() {
		for p := 0; p < nPatterns; p++ {
			in := tagged(genInts(r, n, p))

			// ascending
			got := cloneItems(in)
			var trace []pair
			slices.SortFunc(got, func(a, b item) bool {
				trace = append(trace, pair{a, b})
				return a.key < b.key
			})
			if !isPermItems(in, got) {
				t.Fatalf("SortFunc n=%d p=%d: not a permutation", n, p)
			}
			for i := 1; i < n; i++ {
				if got[i].key < got[i-1].key {
					t.Fatalf("SortFunc n=%d p=%d: not ascending at %d", n, p, i)
				}
			}
			// exact agreement with sort.Sort driven by an independent adapter
			// (same comparisons, in the same order, same final arrangement)
			want := cloneItems(in)
			var wtrace []pair
			sort.Sort(modelLess{want, func(a, b item) bool {
				wtrace = append(wtrace, pair{a, b})
				return a.key < b.key
			}})
			if !reflect.DeepEqual(got, want) {
				t.Fatalf("SortFunc n=%d p=%d: differs from sort.Sort model", n, p)
			}
			if !reflect.DeepEqual(trace, wtrace) {
				t.Fatalf("SortFunc n=%d p=%d: comparison sequence differs from model", n, p)
			}

			// descending
			got = cloneItems(in)
			trace = nil
			slices.SortDescFunc(got, func(a, b item) bool {
				trace = append(trace, pair{a, b})
				return a.key < b.key
			})
			if !isPermItems(in, got) {
				t.Fatalf("SortDescFunc n=%d p=%d: not a permutation", n, p)
			}
			for i := 1; i < n; i++ {
				if got[i-1].key < got[i].key {
					t.Fatalf("SortDescFunc n=%d p=%d: not descending at %d", n, p, i)
				}
			}
			want = cloneItems(in)
			wtrace = nil
			sort.Sort(sort.Reverse(modelLess{want, func(a, b item) bool {
				wtrace = append(wtrace, pair{a, b})
				return a.key < b.key
			}}))
			if !reflect.DeepEqual(got, want) {
				t.Fatalf("SortDescFunc n=%d p=%d: differs from sort.Reverse model", n, p)
			}
			if !reflect.DeepEqual(trace, wtrace) {
				t.Fatalf("SortDescFunc n=%d p=%d: comparison sequence differs from model", n, p)
			}
		}
	}
}

// A less function on a different notion of order (strings by length).
func TestSortFuncCustomOrder(t *testing.T) {
	r := rand.New(rand.NewSource(5))
	for _, n := range []int{0, 1, 2, 7, 12, 13, 40, 333} {
		in := make([]string, n)
		for i := range in {
			in[i] = fmt.Sprintf("%0*d", 1+r.Intn(5), i)
		}
		byLen := func(a, b string) bool { return len(a) < len(b) }
		got := append([]string(nil), in...)
		slices.SortFunc(got, byLen)
		for i := 1; i < n; i++ {
			if len(got[i]) < len(got[i-1]) {
				t.Fatalf("SortFunc byLen n=%d: %v", n, got)
			}
		}
		got2 := append([]string(nil), in...)
		slices.SortDescFunc(got2, byLen)
		for i := 1; i < n; i++ {
			if len(got2[i-1]) < len(got2[i]) {
				t.Fatalf("SortDescFunc byLen n=%d: %v", n, got2)
			}
		}
		a := append([]string(nil), in...)
		sort.Strings(a)
		b := append([]string(nil), got...)
		sort.Strings(b)
		c := append([]string(nil), got2...)
		sort.Strings(c)
		if !reflect.DeepEqual(a, b) || !reflect.DeepEqual(a, c) {
			t.Fatalf("SortFunc byLen n=%d: not a permutation", n)
		}
	}
}

// ---------------------------------------------------------------------------
// Stable variants: the result is fully determined

func TestSortStable(t *testing.T) {
	r := rand.New(rand.NewSource(6))
	for _, n := range lengths() {
		for p := 0; p < nPatterns; p++ {
			in := tagged(genInts(r, n, p))

			got := cloneItems(in)
			slices.SortStableFunc(got, byKey)
			want := cloneItems(in)
			sort.SliceStable(want, func(i, j int) bool { return want[i].key < want[j].key })
			if !reflect.DeepEqual(got, want) {
				t.Fatalf("SortStableFunc n=%d p=%d:\n got %v\nwant %v", n, p, got, want)
			}
			for i := 1; i < n; i++ {
				if got[i].key < got[i-1].key {
					t.Fatalf("SortStableFunc n=%d p=%d: not ascending", n, p)
				}
				if got[i].key == got[i-1].key && got[i].tag < got[i-1].tag {
					t.Fatalf("SortStableFunc n=%d p=%d: tie order broken at %d", n, p, i)
				}
			}
			if !isPermItems(in, got) {
				t.Fatalf("SortStableFunc n=%d p=%d: not a permutation", n, p)
			}

			got = cloneItems(in)
			slices.SortStableDescFunc(got, byKey)
			want = cloneItems(in)
			sort.SliceStable(want, func(i, j int) bool { return want[j].key < want[i].key })
			if !reflect.DeepEqual(got, want) {
				t.Fatalf("SortStableDescFunc n=%d p=%d:\n got %v\nwant %v", n, p, got, want)
			}
			for i := 1; i < n; i++ {
				if got[i-1].key < got[i].key {
					t.Fatalf("SortStableDescFunc n=%d p=%d: not descending", n, p)
				}
				if got[i].key == got[i-1].key && got[i].tag < got[i-1].tag {
					t.Fatalf("SortStableDescFunc n=%d p=%d: tie order broken at %d", n, p, i)
				}
			}
			if !isPermItems(in, got) {
				t.Fatalf("SortStableDescFunc n=%d p=%d: not a permutation", n, p)
			}
		}
	}
}

// A hand-checked example of tie order.
func TestSortStableExample(t *testing.T) {
	in := items{{2, 0}, {1, 1}, {2, 2}, {1, 3}, {3, 4}, {1, 5}, {2, 6}}
	a := cloneItems(in)
	slices.SortStableFunc(a, byKey)
	wantA := items{{1, 1}, {1, 3}, {1, 5}, {2, 0}, {2, 2}, {2, 6}, {3, 4}}
	if !reflect.DeepEqual(a, wantA) {
		t.Fatalf("SortStableFunc: %v", a)
	}
	d := cloneItems(in)
	slices.SortStableDescFunc(d, byKey)
	wantD := items{{3, 4}, {2, 0}, {2, 2}, {2, 6}, {1, 1}, {1, 3}, {1, 5}}
	if !reflect.DeepEqual(d, wantD) {
		t.Fatalf("SortStableDescFunc: %v", d)
	}
}

// ---------------------------------------------------------------------------
// nil / empty / tiny inputs and nil less

func TestSortEdgeCases(t *testing.T) {
	mustNotPanic(t, "Sort(nil)", func() { slices.Sort([]int(nil)) })
	mustNotPanic(t, "SortDesc(nil)", func() { slices.SortDesc([]string(nil)) })
	mustNotPanic(t, "Sort(empty)", func() { slices.Sort([]int{}) })
	one := []int{42}
	slices.Sort(one)
	slices.SortDesc(one)
	if one[0] != 42 {
		t.Fatal("single element changed")
	}
	two := []int{2, 1}
	slices.Sort(two)
	if two[0] != 1 || two[1] != 2 {
		t.Fatalf("Sort two: %v", two)
	}
	slices.SortDesc(two)
	if two[0] != 2 || two[1] != 1 {
		t.Fatalf("SortDesc two: %v", two)
	}

	type sorter struct {
		name string
		f    func(items, func(a, b item) bool)
	}
	sorters := []sorter{
		{"SortFunc", func(s items, l func(a, b item) bool) { slices.SortFunc(s, l) }},
		{"SortDescFunc", func(s items, l func(a, b item) bool) { slices.SortDescFunc(s, l) }},
		{"SortStableFunc", func(s items, l func(a, b item) bool) { slices.SortStableFunc(s, l) }},
		{"SortStableDescFunc", func(s items, l func(a, b item) bool) { slices.SortStableDescFunc(s, l) }},
	}
	for _, s := range sorters {
		s := s
		// with fewer than two elements less is never needed, not even a nil one
		calls := 0
		counting := func(a, b item) bool { calls++; return a.key < b.key }
		mustNotPanic(t, s.name+"(nil, less)", func() { s.f(nil, counting) })
		mustNotPanic(t, s.name+"(empty, less)", func() { s.f(items{}, counting) })
		single := items{{5, 0}}
		mustNotPanic(t, s.name+"(single, less)", func() { s.f(single, counting) })
		if calls != 0 {
			t.Errorf("%s: less called %d times on slices shorter than 2", s.name, calls)
		}
		mustNotPanic(t, s.name+"(nil, nil)", func() { s.f(nil, nil) })
		mustNotPanic(t, s.name+"(empty, nil)", func() { s.f(items{}, nil) })
		mustNotPanic(t, s.name+"(single, nil)", func() { s.f(single, nil) })
		if single[0] != (item{5, 0}) {
			t.Errorf("%s: single element changed", s.name)
		}
		// two or more elements need less: a nil one panics and nothing was moved yet
		for _, n := range []int{2, 3, 20, 100} {
			in := tagged(genInts(rand.New(rand.NewSource(int64(n))), n, 0))
			orig := cloneItems(in)
			mustPanic(t, fmt.Sprintf("%s(len %d, nil)", s.name, n), func() { s.f(in, nil) })
			if !reflect.DeepEqual(in, orig) {
				t.Errorf("%s(len %d, nil less): slice modified before the panic", s.name, n)
			}
		}
		// a panic inside less propagates and the slice is still a permutation
		in := tagged(genInts(rand.New(rand.NewSource(99)), 60, 0))
		orig := cloneItems(in)
		k := 0
		mustPanic(t, s.name+" panicking less", func() {
			s.f(in, func(a, b item) bool {
				k++
				if k == 100 {
					panic("boom")
				}
				return a.key < b.key
			})
		})
		if !isPermItems(in, orig) {
			t.Errorf("%s: slice no longer a permutation after panic in less", s.name)
		}
	}
}

// ---------------------------------------------------------------------------
// BinarySearch / BinarySearchFunc

func lowerBound(s []int, v int) int {
	for i, x := range s {
		if !(x < v) {
			return i
		}
	}
	return len(s)
}

func TestBinarySearch(t *testing.T) {
	r := rand.New(rand.NewSource(7))
	for _, n := range lengths() {
		for _, p := range []int{0, 1, 2, 3, 5, 7} {
			s := genInts(r, n, p)
			sort.Ints(s)
			if p == 0 {
				for i := range s { // keep the target sweep small
					s[i] = s[i] % 64
				}
				sort.Ints(s)
			}
			lo, hi := -2, 2
			if n > 0 {
				lo, hi = s[0]-2, s[n-1]+2
			}
			for v := lo; v <= hi; v++ {
				want := lowerBound(s, v)
				if got := slices.BinarySearch(s, v); got != want {
					t.Fatalf("BinarySearch(%v, %d) = %d, want %d", s, v, got, want)
				}
				calls := 0
				got := slices.BinarySearchFunc(s, func(a int) bool { calls++; return a < v })
				if got != want {
					t.Fatalf("BinarySearchFunc(%v, <%d) = %d, want %d", s, v, got, want)
				}
				if n > 0 && calls == 0 {
					t.Fatalf("BinarySearchFunc never consulted less on a non-empty slice")
				}
				if n == 0 && calls != 0 {
					t.Fatalf("BinarySearchFunc consulted less on an empty slice")
				}
				// first match if present, else insertion point
				if want < n && s[want] == v {
					if want > 0 && s[want-1] == v {
						t.Fatalf("not the first match")
					}
				} else {
					if want > 0 && !(s[want-1] < v) {
						t.Fatalf("bad insertion point")
					}
					if want < n && !(v < s[want]) {
						t.Fatalf("bad insertion point")
					}
				}
			}
			// input is not modified
			if !sort.IntsAreSorted(s) {
				t.Fatal("BinarySearch modified its input")
			}
		}
	}
}

func TestBinarySearchOtherTypesAndEdges(t *testing.T) {
	if got := slices.BinarySearch([]int(nil), 3); got != 0 {
		t.Fatalf("BinarySearch(nil) = %d", got)
	}
	if got := slices.BinarySearch([]int{}, 3); got != 0 {
		t.Fatalf("BinarySearch(empty) = %d", got)
	}
	if got := slices.BinarySearchFunc([]int(nil), func(int) bool { return true }); got != 0 {
		t.Fatalf("BinarySearchFunc(nil) = %d", got)
	}
	// nil less: not needed on an empty slice, needed (panic) otherwise
	mustNotPanic(t, "BinarySearchFunc(nil, nil)", func() {
		if got := slices.BinarySearchFunc([]int(nil), nil); got != 0 {
			t.Errorf("BinarySearchFunc(nil, nil) = %d", got)
		}
	})
	mustNotPanic(t, "BinarySearchFunc(empty, nil)", func() {
		if got := slices.BinarySearchFunc([]string{}, nil); got != 0 {
			t.Errorf("BinarySearchFunc(empty, nil) = %d", got)
		}
	})
	for _, n := range []int{1, 2, 3, 10} {
		mustPanic(t, fmt.Sprintf("BinarySearchFunc(len %d, nil)", n), func() {
			slices.BinarySearchFunc(make([]int, n), nil)
		})
	}
	// a panic in less propagates
	mustPanic(t, "BinarySearchFunc panicking less", func() {
		slices.BinarySearchFunc([]int{1, 2, 3}, func(int) bool { panic("boom") })
	})
	// always true -> len, always false -> 0
	s := []int{1, 2, 3, 4, 5}
	if got := slices.BinarySearchFunc(s, func(int) bool { return true }); got != 5 {
		t.Fatalf("all less: %d", got)
	}
	if got := slices.BinarySearchFunc(s, func(int) bool { return false }); got != 0 {
		t.Fatalf("none less: %d", got)
	}

	strs := []string{"a", "b", "b", "b", "d", "d", "f"}
	cases := map[string]int{"": 0, "a": 0, "aa": 1, "b": 1, "c": 4, "d": 4, "e": 6, "f": 6, "g": 7}
	for v, want := range cases {
		if got := slices.BinarySearch(strs, v); got != want {
			t.Errorf("BinarySearch(strs, %q) = %d, want %d", v, got, want)
		}
		v := v
		if got := slices.BinarySearchFunc(strs, func(a string) bool { return a < v }); got != want {
			t.Errorf("BinarySearchFunc(strs, %q) = %d, want %d", v, got, want)
		}
	}

	fl := []float64{math.Inf(-1), -1.5, 0, 0, 2.25, math.Inf(1)}
	fcases := []struct {
		v    float64
		want int
	}{{math.Inf(-1), 0}, {-2, 1}, {-1.5, 1}, {-1, 2}, {0, 2}, {1, 4}, {2.25, 4}, {3, 5}, {math.Inf(1), 5}}
	for _, c := range fcases {
		if got := slices.BinarySearch(fl, c.v); got != c.want {
			t.Errorf("BinarySearch(floats, %v) = %d, want %d", c.v, got, c.want)
		}
	}
	// above everything
	if got := slices.BinarySearch([]float64{1, 2, 3}, 4); got != 3 {
		t.Errorf("above all: %d", got)
	}

	// struct elements through BinarySearchFunc, named slice type
	its := items{{1, 0}, {1, 1}, {3, 2}, {3, 3}, {3, 4}, {8, 5}}
	for v, want := range map[int]int{0: 0, 1: 0, 2: 2, 3: 2, 4: 5, 8: 5, 9: 6} {
		v := v
		if got := slices.BinarySearchFunc(its, func(a item) bool { return a.key < v }); got != want {
			t.Errorf("BinarySearchFunc(items, %d) = %d, want %d", v, got, want)
		}
	}

	// sorting then searching agree
	r := rand.New(rand.NewSource(8))
	for i := 0; i < 50; i++ {
		s := genInts(r, r.Intn(80), 7)
		slices.Sort(s)
		for v := -7; v <= 7; v++ {
			if got, want := slices.BinarySearch(s, v), lowerBound(s, v); got != want {
				t.Fatalf("Sort+BinarySearch(%v,%d) = %d want %d", s, v, got, want)
			}
		}
	}
}

// ---------------------------------------------------------------------------
// Shuffle / ShuffleRand

func TestShuffleRand(t *testing.T) {
	for _, n := range lengths() {
		for seed := int64(1); seed <= 5; seed++ {
			in := make([]int, n)
			for i := range in {
				in[i] = i / 2 // duplicates
			}
			a := cloneInts(in)
			ra := rand.New(rand.NewSource(seed))
			slices.ShuffleRand(a, ra)
			if !isPermInts(in, a) {
				t.Fatalf("ShuffleRand n=%d: not a permutation", n)
			}
			// deterministic in the generator
			b := cloneInts(in)
			rb := rand.New(rand.NewSource(seed))
			slices.ShuffleRand(b, rb)
			if !reflect.DeepEqual(a, b) {
				t.Fatalf("ShuffleRand n=%d seed=%d: not deterministic", n, seed)
			}
			// same as the generator's own Fisher-Yates on a copy, and the
			// generator is advanced by exactly as much
			c := cloneInts(in)
			rc := rand.New(rand.NewSource(seed))
			rc.Shuffle(len(c), func(i, j int) { c[i], c[j] = c[j], c[i] })
			if !reflect.DeepEqual(a, c) {
				t.Fatalf("ShuffleRand n=%d seed=%d: differs from rand.Shuffle model", n, seed)
			}
			if x, y, z := ra.Int63(), rb.Int63(), rc.Int63(); x != y || x != z {
				t.Fatalf("ShuffleRand n=%d seed=%d: generator state differs", n, seed)
			}
		}
	}
	// tagged elements, named slice: every element survives exactly once
	its := tagged(genInts(rand.New(rand.NewSource(1)), 300, 1))
	orig := cloneItems(its)
	slices.ShuffleRand(its, rand.New(rand.NewSource(77)))
	if !isPermItems(its, orig) {
		t.Fatal("ShuffleRand items: not a permutation")
	}
	if reflect.DeepEqual(its, orig) {
		t.Fatal("ShuffleRand of 300 elements left the order unchanged")
	}
	// different seeds give different orders on a large slice
	x := make([]int, 200)
	y := make([]int, 200)
	for i := range x {
		x[i], y[i] = i, i
	}
	slices.ShuffleRand(x, rand.New(rand.NewSource(1)))
	slices.ShuffleRand(y, rand.New(rand.NewSource(2)))
	if reflect.DeepEqual(x, y) {
		t.Fatal("different seeds produced the same shuffle")
	}
	// empty / single element, also with a nil generator (never consulted)
	mustNotPanic(t, "ShuffleRand(nil)", func() { slices.ShuffleRand([]int(nil), rand.New(rand.NewSource(1))) })
	mustNotPanic(t, "ShuffleRand(nil, nil)", func() { slices.ShuffleRand([]int(nil), nil) })
	one := []int{9}
	mustNotPanic(t, "ShuffleRand(one, nil)", func() { slices.ShuffleRand(one, nil) })
	if one[0] != 9 {
		t.Fatal("single element changed")
	}
	// only the given window is shuffled
	back := make([]int, 60)
	for i := range back {
		back[i] = i
	}
	slices.ShuffleRand(back[20:40], rand.New(rand.NewSource(3)))
	for i := 0; i < 20; i++ {
		if back[i] != i || back[40+i] != 40+i {
			t.Fatal("ShuffleRand touched elements outside the slice")
		}
	}
}

func TestShuffleGlobal(t *testing.T) {
	for _, n := range []int{0, 1, 2, 3, 10, 100, 1000} {
		in := make([]int, n)
		for i := range in {
			in[i] = i % 17
		}
		a := cloneInts(in)
		slices.Shuffle(a)
		if !isPermInts(in, a) {
			t.Fatalf("Shuffle n=%d: not a permutation", n)
		}
		its := tagged(in)
		orig := cloneItems(its)
		slices.Shuffle(its)
		if !isPermItems(its, orig) {
			t.Fatalf("Shuffle items n=%d: not a permutation", n)
		}
	}
	mustNotPanic(t, "Shuffle(nil)", func() { slices.Shuffle([]string(nil)) })
	// over many tries a 3-element shuffle reaches every arrangement
	seen := map[[3]int]bool{}
	for i := 0; i < 2000 && len(seen) < 6; i++ {
		s := []int{1, 2, 3}
		slices.Shuffle(s)
		seen[[3]int{s[0], s[1], s[2]}] = true
	}
	if len(seen) != 6 {
		t.Fatalf("Shuffle reached only %d of 6 arrangements", len(seen))
	}
}

// shuffle then sort gives back the sorted order
func TestShuffleThenSort(t *testing.T) {
	r := rand.New(rand.NewSource(9))
	for i := 0; i < 40; i++ {
		n := r.Intn(300)
		s := make([]int, n)
		for j := range s {
			s[j] = j
		}
		slices.ShuffleRand(s, r)
		slices.Sort(s)
		for j := range s {
			if s[j] != j {
				t.Fatalf("shuffle+Sort n=%d: %v", n, s)
			}
		}
		slices.ShuffleRand(s, r)
		slices.SortDescFunc(s, func(a, b int) bool { return a < b })
		for j := range s {
			if s[j] != n-1-j {
				t.Fatalf("shuffle+SortDescFunc n=%d: %v", n, s)
			}
		}
	}
}

// ---------------------------------------------------------------------------
// concurrent callers: the helpers keep no shared state of their own, so
// independent slices can be sorted and a shared sorted slice searched in parallel

func TestConcurrentUse(t *testing.T) {
	shared := genInts(rand.New(rand.NewSource(10)), 2000, 7)
	sort.Ints(shared)
	sharedItems := tagged(shared)
	var wg sync.WaitGroup
	errs := make(chan string, 64)
	for g := 0; g < 8; g++ {
		wg.Add(1)
		go func(g int) {
			defer wg.Done()
			r := rand.New(rand.NewSource(int64(100 + g)))
			for it := 0; it < 30; it++ {
				n := r.Intn(400)
				in := tagged(genInts(r, n, r.Intn(nPatterns)))
				var got items
				switch (g + it) % 4 {
				case 0:
					got = cloneItems(in)
					slices.SortFunc(got, byKey)
					for i := 1; i < n; i++ {
						if got[i].key < got[i-1].key {
							errs <- "SortFunc unordered"
							return
						}
					}
				case 1:
					got = cloneItems(in)
					slices.SortDescFunc(got, byKey)
					for i := 1; i < n; i++ {
						if got[i-1].key < got[i].key {
							errs <- "SortDescFunc unordered"
							return
						}
					}
				case 2:
					got = cloneItems(in)
					slices.SortStableFunc(got, byKey)
					want := cloneItems(in)
					sort.SliceStable(want, func(i, j int) bool { return want[i].key < want[j].key })
					if !reflect.DeepEqual(got, want) {
						errs <- "SortStableFunc wrong"
						return
					}
				case 3:
					got = cloneItems(in)
					slices.SortStableDescFunc(got, byKey)
					want := cloneItems(in)
					sort.SliceStable(want, func(i, j int) bool { return want[j].key < want[i].key })
					if !reflect.DeepEqual(got, want) {
						errs <- "SortStableDescFunc wrong"
						return
					}
				}
				if !isPermItems(in, got) {
					errs <- "not a permutation"
					return
				}
				ks := make([]int, n)
				for i := range ks {
					ks[i] = in[i].key
				}
				slices.Sort(ks)
				if !sort.IntsAreSorted(ks) {
					errs <- "Sort unordered"
					return
				}
				slices.SortDesc(ks)
				slices.ShuffleRand(ks, r)
				slices.Shuffle(ks)
				// read-only searches on shared data
				for v := -6; v <= 6; v++ {
					want := lowerBound(shared, v)
					if slices.BinarySearch(shared, v) != want {
						errs <- "BinarySearch wrong"
						return
					}
					v := v
					if slices.BinarySearchFunc(sharedItems, func(a item) bool { return a.key < v }) != want {
						errs <- "BinarySearchFunc wrong"
						return
					}
				}
			}
		}(g)
	}
	wg.Wait()
	close(errs)
	for e := range errs {
		t.Error(e)
	}
}
