package demo

import (
	"context"
	"fmt"
	"math/rand"
	"sort"
	"sync"
	"sync/atomic"
	"testing"
	"time"

	"gopkg.in/typ.v4/chans"
)

// ---------------------------------------------------------------------------
// helpers
// ---------------------------------------------------------------------------

type namedChan chan int
type namedRecv <-chan int
type namedSend chan<- int
type namedSlice []int

// within runs f and fails the test when it does not come back in time.
func within(t *testing.T, what string, d time.Duration, f func()) {
	t.Helper()
	done := make(chan struct{})
	go func() {
		defer close(done)
		f()
	}()
	select {
	case <-done:
	case <-time.After(d):
		t.Fatalf("%s: still blocked after %v", what, d)
	}
}

// drainNow takes whatever is buffered in ch without blocking and without using
// the library. It reports whether the channel was found closed and drained.
func drainNow(ch <-chan int) (vals []int, closed bool) {
	for {
		select {
		case v, ok := <-ch:
			if !ok {
				return vals, true
			}
			vals = append(vals, v)
		default:
			return vals, false
		}
	}
}

// ledger records values seen, concurrently.
type ledger struct {
	mu   sync.Mutex
	vals []int
}

func (l *ledger) add(vs ...int) {
	l.mu.Lock()
	l.vals = append(l.vals, vs...)
	l.mu.Unlock()
}

func (l *ledger) sorted() []int {
	l.mu.Lock()
	defer l.mu.Unlock()
	out := append([]int(nil), l.vals...)
	sort.Ints(out)
	return out
}

func sameInts(a, b []int) bool {
	if len(a) != len(b) {
		return false
	}
	for i := range a {
		if a[i] != b[i] {
			return false
		}
	}
	return true
}

func seq(from, n int) []int {
	var out []int
	for i := 0; i < n; i++ {
		out = append(out, from+i)
	}
	return out
}

var timeouts = []time.Duration{-time.Second, 0, 30 * time.Microsecond, 200 * time.Microsecond, time.Millisecond, 3 * time.Millisecond}

// ---------------------------------------------------------------------------
// SendTimeout / SendContext: deterministic clauses
// ---------------------------------------------------------------------------

func TestSendTimeoutDeterministic(t *testing.T) {
	// room in the buffer: reported sent, and it is there
	for _, to := range []time.Duration{-1, 0, 10 * time.Second, time.Hour} {
		ch := make(chan int, 2)
		within(t, "send with room", 2*time.Second, func() {
			if !chans.SendTimeout(ch, 7, to) {
				t.Errorf("timeout %v: send into free buffer reported false", to)
			}
		})
		got, _ := drainNow(ch)
		if !sameInts(got, []int{7}) {
			t.Errorf("timeout %v: channel holds %v, want [7]", to, got)
		}
	}

	// full buffer, nobody receives: reported not sent, contents untouched
	ch := make(chan int, 2)
	ch <- 1
	ch <- 2
	start := time.Now()
	within(t, "send into full", 2*time.Second, func() {
		if chans.SendTimeout(ch, 3, 5*time.Millisecond) {
			t.Errorf("send into full channel reported true")
		}
	})
	if el := time.Since(start); el < 5*time.Millisecond {
		t.Errorf("gave up after %v, before the timeout", el)
	}
	if got, _ := drainNow(ch); !sameInts(got, []int{1, 2}) {
		t.Errorf("full channel changed: %v", got)
	}

	// unbuffered, nobody receives
	un := make(chan int)
	within(t, "send unbuffered", 2*time.Second, func() {
		if chans.SendTimeout(un, 3, 2*time.Millisecond) {
			t.Errorf("send with no receiver reported true")
		}
	})
	if got, _ := drainNow(un); len(got) != 0 {
		t.Errorf("unbuffered channel produced %v", got)
	}

	// send-only and named channel types
	nc := make(namedChan, 1)
	if !chans.SendTimeout(nc, 5, 10*time.Second) {
		t.Errorf("named chan: want true")
	}
	if chans.SendTimeout(namedSend((chan<- int)(nc)), 6, time.Millisecond) {
		t.Errorf("named send-only chan, full: want false")
	}
	if got, _ := drainNow(nc); !sameInts(got, []int{5}) {
		t.Errorf("named chan holds %v", got)
	}
	var so chan<- int = make(chan int, 1)
	if !chans.SendTimeout(so, 1, 0) {
		t.Errorf("send-only chan: want true")
	}
}

func TestSendTimeoutNonPositiveWaitsWithoutLimit(t *testing.T) {
	for _, to := range []time.Duration{0, -1, -time.Hour} {
		for _, capacity := range []int{0, 1} {
			ch := make(chan int, capacity)
			for i := 0; i < capacity; i++ {
				ch <- 100 + i
			}
			res := make(chan bool, 1)
			go func() { res <- chans.SendTimeout(ch, 42, to) }()
			select {
			case r := <-res:
				t.Fatalf("timeout %v cap %d: returned %v with no receiver", to, capacity, r)
			case <-time.After(40 * time.Millisecond):
			}
			var got []int
			for i := 0; i < capacity+1; i++ {
				select {
				case v := <-ch:
					got = append(got, v)
				case <-time.After(2 * time.Second):
					t.Fatalf("timeout %v cap %d: value never arrived", to, capacity)
				}
			}
			select {
			case r := <-res:
				if !r {
					t.Errorf("timeout %v cap %d: delivered but reported false", to, capacity)
				}
			case <-time.After(2 * time.Second):
				t.Fatalf("timeout %v cap %d: sender did not return", to, capacity)
			}
			want := append(seq(100, capacity), 42)
			if !sameInts(got, want) {
				t.Errorf("timeout %v cap %d: received %v want %v", to, capacity, got, want)
			}
		}
	}
}

func TestSendContextDeterministic(t *testing.T) {
	ch := make(chan int, 1)
	if !chans.SendContext(context.Background(), ch, 9) {
		t.Errorf("background ctx, free buffer: want true")
	}
	cancelled, cancel := context.WithCancel(context.Background())
	cancel()
	within(t, "cancelled ctx, full", 2*time.Second, func() {
		if chans.SendContext(cancelled, ch, 10) {
			t.Errorf("cancelled ctx, full channel: want false")
		}
	})
	if got, _ := drainNow(ch); !sameInts(got, []int{9}) {
		t.Errorf("channel holds %v want [9]", got)
	}

	// both ready: either outcome, but the report must match the channel
	for i := 0; i < 200; i++ {
		c := make(chan int, 1)
		sent := chans.SendContext(cancelled, c, i)
		got, _ := drainNow(c)
		if sent && !sameInts(got, []int{i}) {
			t.Fatalf("reported sent but channel holds %v", got)
		}
		if !sent && len(got) != 0 {
			t.Fatalf("reported not sent but channel holds %v", got)
		}
	}

	// deadline ctx on unbuffered with no receiver
	dctx, dcancel := context.WithTimeout(context.Background(), 3*time.Millisecond)
	defer dcancel()
	un := make(namedChan)
	within(t, "deadline ctx", 2*time.Second, func() {
		if chans.SendContext(dctx, un, 1) {
			t.Errorf("no receiver: want false")
		}
	})

	// blocks until cancelled, not before
	ctx2, cancel2 := context.WithCancel(context.Background())
	full := make(chan int, 1)
	full <- 1
	res := make(chan bool, 1)
	go func() { res <- chans.SendContext(ctx2, chan<- int(full), 2) }()
	select {
	case r := <-res:
		t.Fatalf("returned %v before cancel", r)
	case <-time.After(30 * time.Millisecond):
	}
	cancel2()
	select {
	case r := <-res:
		if r {
			t.Errorf("cancelled, full: want false")
		}
	case <-time.After(2 * time.Second):
		t.Fatalf("did not return after cancel")
	}
	if got, _ := drainNow(full); !sameInts(got, []int{1}) {
		t.Errorf("full channel changed: %v", got)
	}
}

// ---------------------------------------------------------------------------
// SendTimeout / SendContext: conservation over random schedules
// ---------------------------------------------------------------------------

// runSenders starts nSenders goroutines which each push perSender distinct
// values through send, and one slow receiver. It checks that the values that
// came out of the channel are exactly the values reported as sent.
func runSenders(t *testing.T, seed int64, capacity int, send func(r *rand.Rand, ch chan int, v int) bool) (nTrue, nFalse int) {
	t.Helper()
	const nSenders, perSender = 4, 25
	ch := make(chan int, capacity)
	var reported, received ledger
	var falses int32

	stop := make(chan struct{})
	var rwg sync.WaitGroup
	rwg.Add(1)
	go func() {
		defer rwg.Done()
		r := rand.New(rand.NewSource(seed*1000 + 999))
		for {
			select {
			case v := <-ch:
				received.add(v)
			case <-stop:
				return
			}
			if r.Intn(3) == 0 {
				time.Sleep(time.Duration(r.Intn(1500)) * time.Microsecond)
			}
		}
	}()

	var swg sync.WaitGroup
	for s := 0; s < nSenders; s++ {
		swg.Add(1)
		go func(s int) {
			defer swg.Done()
			r := rand.New(rand.NewSource(seed*1000 + int64(s)))
			for i := 0; i < perSender; i++ {
				v := s*1000 + i
				if send(r, ch, v) {
					reported.add(v)
				} else {
					atomic.AddInt32(&falses, 1)
				}
			}
		}(s)
	}
	swg.Wait()
	close(stop)
	rwg.Wait()
	left, _ := drainNow(ch)
	received.add(left...)

	rep, rec := reported.sorted(), received.sorted()
	if !sameInts(rep, rec) {
		t.Fatalf("seed %d cap %d: reported sent %v\n but received %v", seed, capacity, rep, rec)
	}
	return len(rep), int(falses)
}

func TestSendTimeoutConservation(t *testing.T) {
	var trues, falses int
	for seed := int64(1); seed <= 6; seed++ {
		for _, capacity := range []int{0, 1, 3} {
			a, b := runSenders(t, seed, capacity, func(r *rand.Rand, ch chan int, v int) bool {
				return chans.SendTimeout(ch, v, timeouts[r.Intn(len(timeouts))])
			})
			trues += a
			falses += b
		}
	}
	if trues == 0 {
		t.Errorf("no send ever succeeded")
	}
	t.Logf("SendTimeout: %d sent, %d timed out", trues, falses)
}

func TestSendContextConservation(t *testing.T) {
	var trues, falses int
	for seed := int64(1); seed <= 6; seed++ {
		for _, capacity := range []int{0, 1, 3} {
			a, b := runSenders(t, seed, capacity, func(r *rand.Rand, ch chan int, v int) bool {
				var ctx context.Context
				var cancel context.CancelFunc
				switch r.Intn(4) {
				case 0:
					ctx, cancel = context.WithCancel(context.Background())
					cancel() // already cancelled: both may be ready
				case 1:
					ctx, cancel = context.WithCancel(context.Background())
					d := time.Duration(r.Intn(800)) * time.Microsecond
					tm := time.AfterFunc(d, cancel)
					defer tm.Stop()
				case 2:
					ctx, cancel = context.WithTimeout(context.Background(), time.Duration(1+r.Intn(1000))*time.Microsecond)
				default:
					ctx, cancel = context.Background(), func() {}
				}
				defer cancel()
				return chans.SendContext(ctx, ch, v)
			})
			trues += a
			falses += b
		}
	}
	if trues == 0 {
		t.Errorf("no send ever succeeded")
	}
	t.Logf("SendContext: %d sent, %d cancelled", trues, falses)
}

// ---------------------------------------------------------------------------
// RecvTimeout / RecvContext: deterministic clauses
// ---------------------------------------------------------------------------

func TestRecvTimeoutDeterministic(t *testing.T) {
	// a queued value is taken, the rest stays
	for _, to := range []time.Duration{-1, 0, 10 * time.Second, time.Hour} {
		ch := make(chan int, 3)
		ch <- 11
		ch <- 12
		var v int
		var ok bool
		within(t, "recv queued", 2*time.Second, func() { v, ok = chans.RecvTimeout(ch, to) })
		if !ok || v != 11 {
			t.Errorf("timeout %v: got (%d,%v) want (11,true)", to, v, ok)
		}
		if got, _ := drainNow(ch); !sameInts(got, []int{12}) {
			t.Errorf("timeout %v: left %v want [12]", to, got)
		}
	}

	// nothing arrives: zero,false after the timeout, nothing consumed
	ch := make(chan int, 1)
	start := time.Now()
	var v int
	var ok bool
	within(t, "recv empty", 2*time.Second, func() { v, ok = chans.RecvTimeout(ch, 5*time.Millisecond) })
	if ok || v != 0 {
		t.Errorf("empty: got (%d,%v) want (0,false)", v, ok)
	}
	if el := time.Since(start); el < 5*time.Millisecond {
		t.Errorf("gave up after %v, before the timeout", el)
	}
	ch <- 5
	if got, _ := drainNow(ch); !sameInts(got, []int{5}) {
		t.Errorf("channel holds %v", got)
	}

	// closed channel counts as false, for every timeout, at once
	for _, to := range []time.Duration{-1, 0, 10 * time.Second, time.Hour} {
		cl := make(chan string, 2)
		cl <- "a"
		close(cl)
		var s string
		within(t, "recv closed", 2*time.Second, func() { s, ok = chans.RecvTimeout(cl, to) })
		if !ok || s != "a" {
			t.Errorf("timeout %v: closed with one value: got (%q,%v)", to, s, ok)
		}
		for i := 0; i < 3; i++ {
			within(t, "recv closed drained", 2*time.Second, func() { s, ok = chans.RecvTimeout(cl, to) })
			if ok || s != "" {
				t.Errorf("timeout %v: closed and drained: got (%q,%v)", to, s, ok)
			}
		}
	}

	// receive-only and named types
	nc := make(namedChan, 1)
	nc <- 3
	if v, ok := chans.RecvTimeout(namedRecv((<-chan int)(nc)), 10*time.Second); !ok || v != 3 {
		t.Errorf("named recv-only: got (%d,%v)", v, ok)
	}
	if v, ok := chans.RecvTimeout(nc, time.Millisecond); ok || v != 0 {
		t.Errorf("named chan, empty: got (%d,%v)", v, ok)
	}
}

func TestRecvTimeoutNonPositiveWaitsWithoutLimit(t *testing.T) {
	type res struct {
		v  int
		ok bool
	}
	for _, to := range []time.Duration{0, -1, -time.Hour} {
		for _, how := range []string{"send", "close"} {
			ch := make(chan int)
			out := make(chan res, 1)
			go func() {
				v, ok := chans.RecvTimeout(ch, to)
				out <- res{v, ok}
			}()
			select {
			case r := <-out:
				t.Fatalf("timeout %v: returned %v with no sender", to, r)
			case <-time.After(40 * time.Millisecond):
			}
			want := res{77, true}
			if how == "send" {
				select {
				case ch <- 77:
				case <-time.After(2 * time.Second):
					t.Fatalf("timeout %v: nobody took the value", to)
				}
			} else {
				close(ch)
				want = res{0, false}
			}
			select {
			case r := <-out:
				if r != want {
					t.Errorf("timeout %v %s: got %v want %v", to, how, r, want)
				}
			case <-time.After(2 * time.Second):
				t.Fatalf("timeout %v %s: receiver did not return", to, how)
			}
		}
	}
}

func TestRecvContextDeterministic(t *testing.T) {
	ch := make(chan int, 2)
	ch <- 1
	ch <- 2
	if v, ok := chans.RecvContext(context.Background(), (<-chan int)(ch)); !ok || v != 1 {
		t.Errorf("got (%d,%v) want (1,true)", v, ok)
	}
	if got, _ := drainNow(ch); !sameInts(got, []int{2}) {
		t.Errorf("left %v want [2]", got)
	}

	cancelled, cancel := context.WithCancel(context.Background())
	cancel()
	var v int
	var ok bool
	within(t, "cancelled, empty", 2*time.Second, func() { v, ok = chans.RecvContext(cancelled, (<-chan int)(ch)) })
	if ok || v != 0 {
		t.Errorf("cancelled, empty: got (%d,%v)", v, ok)
	}

	// both ready: either outcome, nothing lost
	for i := 1; i <= 200; i++ {
		c := make(chan int, 1)
		c <- i
		v, ok := chans.RecvContext(cancelled, namedRecv((<-chan int)(c)))
		left, _ := drainNow(c)
		switch {
		case ok && (v != i || len(left) != 0):
			t.Fatalf("took (%d) but left %v", v, left)
		case !ok && (v != 0 || !sameInts(left, []int{i})):
			t.Fatalf("reported nothing (v=%d) but left %v", v, left)
		}
	}

	// closed channel
	cl := make(chan int, 1)
	cl <- 4
	close(cl)
	if v, ok := chans.RecvContext(context.Background(), (<-chan int)(cl)); !ok || v != 4 {
		t.Errorf("closed with value: got (%d,%v)", v, ok)
	}
	within(t, "closed drained", 2*time.Second, func() { v, ok = chans.RecvContext(context.Background(), (<-chan int)(cl)) })
	if ok || v != 0 {
		t.Errorf("closed drained: got (%d,%v)", v, ok)
	}

	// blocks until cancelled
	ctx2, cancel2 := context.WithCancel(context.Background())
	empty := make(chan int, 1)
	type res struct {
		v  int
		ok bool
	}
	out := make(chan res, 1)
	go func() {
		v, ok := chans.RecvContext(ctx2, (<-chan int)(empty))
		out <- res{v, ok}
	}()
	select {
	case r := <-out:
		t.Fatalf("returned %v before cancel", r)
	case <-time.After(30 * time.Millisecond):
	}
	cancel2()
	select {
	case r := <-out:
		if r != (res{0, false}) {
			t.Errorf("after cancel: got %v", r)
		}
	case <-time.After(2 * time.Second):
		t.Fatalf("did not return after cancel")
	}
}

// ---------------------------------------------------------------------------
// RecvTimeout / RecvContext: conservation over random schedules
// ---------------------------------------------------------------------------

func runReceivers(t *testing.T, seed int64, capacity int, recv func(r *rand.Rand, ch chan int) (int, bool)) (nTrue, nFalse int) {
	t.Helper()
	const nReceivers, total = 4, 80
	ch := make(chan int, capacity)
	var taken ledger
	var falses, done int32

	var rwg sync.WaitGroup
	for k := 0; k < nReceivers; k++ {
		rwg.Add(1)
		go func(k int) {
			defer rwg.Done()
			r := rand.New(rand.NewSource(seed*1000 + int64(k)))
			for {
				wasDone := atomic.LoadInt32(&done) == 1
				v, ok := recv(r, ch)
				if ok {
					if v <= 0 {
						t.Errorf("received %d, which was never sent", v)
					}
					taken.add(v)
					continue
				}
				atomic.AddInt32(&falses, 1)
				if v != 0 {
					t.Errorf("false came with value %d", v)
				}
				if wasDone {
					return
				}
			}
		}(k)
	}

	r := rand.New(rand.NewSource(seed*1000 + 999))
	for v := 1; v <= total; v++ { // values are 1..total, never the zero value
		ch <- v
		if r.Intn(3) == 0 {
			time.Sleep(time.Duration(r.Intn(1200)) * time.Microsecond)
		}
	}
	close(ch)
	atomic.StoreInt32(&done, 1)
	rwg.Wait()
	left, _ := drainNow(ch)
	taken.add(left...)

	if got := taken.sorted(); !sameInts(got, seq(1, total)) {
		t.Fatalf("seed %d cap %d: taken+left = %v, want 1..%d once each", seed, capacity, got, total)
	}
	return total - len(left), int(falses)
}

func TestRecvTimeoutConservation(t *testing.T) {
	var trues, falses int
	for seed := int64(1); seed <= 6; seed++ {
		for _, capacity := range []int{0, 1, 3} {
			a, b := runReceivers(t, seed, capacity, func(r *rand.Rand, ch chan int) (int, bool) {
				return chans.RecvTimeout(ch, timeouts[r.Intn(len(timeouts))])
			})
			trues += a
			falses += b
		}
	}
	t.Logf("RecvTimeout: %d taken, %d false", trues, falses)
}

func TestRecvContextConservation(t *testing.T) {
	var trues, falses int
	for seed := int64(1); seed <= 6; seed++ {
		for _, capacity := range []int{0, 1, 3} {
			a, b := runReceivers(t, seed, capacity, func(r *rand.Rand, ch chan int) (int, bool) {
				var ctx context.Context
				var cancel context.CancelFunc
				switch r.Intn(4) {
				case 0:
					ctx, cancel = context.WithCancel(context.Background())
					cancel()
				case 1:
					ctx, cancel = context.WithCancel(context.Background())
					tm := time.AfterFunc(time.Duration(r.Intn(800))*time.Microsecond, cancel)
					defer tm.Stop()
				case 2:
					ctx, cancel = context.WithTimeout(context.Background(), time.Duration(1+r.Intn(1000))*time.Microsecond)
				default:
					ctx, cancel = context.Background(), func() {} // ends by value or close
				}
				defer cancel()
				return chans.RecvContext(ctx, (<-chan int)(ch))
			})
			trues += a
			falses += b
		}
	}
	t.Logf("RecvContext: %d taken, %d false", trues, falses)
}

// ---------------------------------------------------------------------------
// RecvQueued / RecvQueuedFull: model over capacity x fill x closed x limit
// ---------------------------------------------------------------------------

func TestRecvQueuedModel(t *testing.T) {
	for capacity := 0; capacity <= 5; capacity++ {
		for fill := 0; fill <= capacity; fill++ {
			for _, closed := range []bool{false, true} {
				for limit := -2; limit <= capacity+3; limit++ {
					name := fmt.Sprintf("cap%d fill%d closed%v limit%d", capacity, fill, closed, limit)
					ch := make(chan int, capacity)
					for i := 0; i < fill; i++ {
						ch <- 10 + i // never the zero value
					}
					if closed {
						close(ch)
					}
					take := limit
					if take < 0 {
						take = 0
					}
					if take > fill {
						take = fill
					}
					var got []int
					within(t, name, 2*time.Second, func() { got = chans.RecvQueued(ch, limit) })
					if !sameInts(got, seq(10, take)) {
						t.Fatalf("%s: got %v want %v", name, got, seq(10, take))
					}
					if take == 0 && got != nil {
						t.Fatalf("%s: got non-nil empty slice %#v", name, got)
					}
					left, isClosed := drainNow(ch)
					if !sameInts(left, seq(10+take, fill-take)) {
						t.Fatalf("%s: left %v want %v", name, left, seq(10+take, fill-take))
					}
					if isClosed != closed {
						t.Fatalf("%s: closed=%v after the call", name, isClosed)
					}
				}
			}
		}
	}
}

func TestRecvQueuedFullModel(t *testing.T) {
	const sentinel = -99
	for capacity := 0; capacity <= 5; capacity++ {
		for fill := 0; fill <= capacity; fill++ {
			for _, closed := range []bool{false, true} {
				for size := -1; size <= capacity+3; size++ { // -1 stands for a nil buf
					name := fmt.Sprintf("cap%d fill%d closed%v buf%d", capacity, fill, closed, size)
					ch := make(chan int, capacity)
					for i := 0; i < fill; i++ {
						ch <- 10 + i
					}
					if closed {
						close(ch)
					}
					var buf namedSlice
					if size >= 0 {
						buf = make(namedSlice, size, size+2)
						for i := range buf {
							buf[i] = sentinel
						}
						buf[:cap(buf)][size] = sentinel // just past len: must stay
					}
					take := len(buf)
					if take > fill {
						take = fill
					}
					var n int
					within(t, name, 2*time.Second, func() { n = chans.RecvQueuedFull(ch, buf) })
					if n != take {
						t.Fatalf("%s: n=%d want %d", name, n, take)
					}
					if !sameInts(buf[:n], seq(10, take)) {
						t.Fatalf("%s: buf[:n]=%v want %v", name, buf[:n], seq(10, take))
					}
					for i := n; i < len(buf); i++ {
						if buf[i] != sentinel {
							t.Fatalf("%s: buf[%d]=%d was written though nothing was received for it", name, i, buf[i])
						}
					}
					if size >= 0 && buf[:cap(buf)][size] != sentinel {
						t.Fatalf("%s: wrote past len(buf)", name)
					}
					left, isClosed := drainNow(ch)
					if !sameInts(left, seq(10+take, fill-take)) {
						t.Fatalf("%s: left %v want %v", name, left, seq(10+take, fill-take))
					}
					if isClosed != closed {
						t.Fatalf("%s: closed=%v after the call", name, isClosed)
					}
				}
			}
		}
	}
}

func TestRecvQueuedTypesAndNil(t *testing.T) {
	nc := make(namedChan, 3)
	nc <- 1
	nc <- 2
	if got := chans.RecvQueued(namedRecv((<-chan int)(nc)), 1); !sameInts(got, []int{1}) {
		t.Errorf("named recv-only: %v", got)
	}
	buf := make([]int, 4)
	if n := chans.RecvQueuedFull((<-chan int)(nc), buf); n != 1 || buf[0] != 2 {
		t.Errorf("recv-only: n=%d buf=%v", n, buf)
	}
	// a nil channel is never ready: nothing, at once
	var nilch chan int
	within(t, "nil channel", 2*time.Second, func() {
		if got := chans.RecvQueued(nilch, 3); got != nil {
			t.Errorf("nil channel: %v", got)
		}
		if n := chans.RecvQueuedFull(nilch, buf); n != 0 {
			t.Errorf("nil channel: n=%d", n)
		}
	})
	// zero values that were really sent are real values
	z := make(chan int, 3)
	z <- 0
	z <- 0
	close(z)
	if got := chans.RecvQueued(z, 5); !sameInts(got, []int{0, 0}) {
		t.Errorf("sent zeros: got %v want [0 0]", got)
	}
	// a very large limit costs nothing
	big := make(chan int, 1)
	big <- 8
	if got := chans.RecvQueued(big, int(^uint(0)>>1)); !sameInts(got, []int{8}) {
		t.Errorf("huge limit: %v", got)
	}
}

// Blocked senders on an unbuffered channel may be picked up; whatever happens,
// every value ends up in exactly one place.
func TestRecvQueuedUnbufferedBlockedSenders(t *testing.T) {
	ch := make(chan int)
	const n = 6
	var wg sync.WaitGroup
	for i := 1; i <= n; i++ {
		wg.Add(1)
		go func(i int) {
			defer wg.Done()
			ch <- i
		}(i)
	}
	time.Sleep(20 * time.Millisecond)
	var got []int
	within(t, "unbuffered", 2*time.Second, func() { got = chans.RecvQueued(ch, 4) })
	if len(got) > 4 {
		t.Fatalf("limit 4 but got %v", got)
	}
	buf := []int{-1, -1, -1}
	var k int
	within(t, "unbuffered full", 2*time.Second, func() { k = chans.RecvQueuedFull(ch, buf) })
	for i := k; i < len(buf); i++ {
		if buf[i] != -1 {
			t.Fatalf("buf[%d] written: %v (k=%d)", i, buf, k)
		}
	}
	all := append(append([]int(nil), got...), buf[:k]...)
	for len(all) < n {
		select {
		case v := <-ch:
			all = append(all, v)
		case <-time.After(2 * time.Second):
			t.Fatalf("lost values: have %v", all)
		}
	}
	wg.Wait()
	sort.Ints(all)
	if !sameInts(all, seq(1, n)) {
		t.Fatalf("got %v want 1..%d once each", all, n)
	}
}

// Several drainers and producers at once: the union of what was returned plus
// what is left is what was sent, and each returned slice keeps per-producer order.
func TestRecvQueuedConcurrentConservation(t *testing.T) {
	for seed := int64(1); seed <= 5; seed++ {
		const producers, per, drainers = 3, 60, 3
		ch := make(chan int, 4)
		var taken ledger
		var done int32

		checkOrder := func(vs []int) {
			last := map[int]int{}
			for _, v := range vs {
				p, i := v/1000, v%1000
				if prev, seen := last[p]; seen && i <= prev {
					t.Errorf("seed %d: producer %d out of order in %v", seed, p, vs)
				}
				last[p] = i
			}
		}

		var dwg sync.WaitGroup
		for d := 0; d < drainers; d++ {
			dwg.Add(1)
			go func(d int) {
				defer dwg.Done()
				r := rand.New(rand.NewSource(seed*100 + int64(d)))
				for {
					wasDone := atomic.LoadInt32(&done) == 1
					var vs []int
					if r.Intn(2) == 0 {
						limit := r.Intn(6) - 1
						vs = chans.RecvQueued(ch, limit)
						if limit < 0 {
							limit = 0
						}
						if len(vs) > limit {
							t.Errorf("limit %d but got %v", limit, vs)
						}
					} else {
						buf := make([]int, r.Intn(6))
						for i := range buf {
							buf[i] = -7
						}
						n := chans.RecvQueuedFull(ch, buf)
						for i := n; i < len(buf); i++ {
							if buf[i] != -7 {
								t.Errorf("buf[%d] written beyond n=%d: %v", i, n, buf)
							}
						}
						vs = buf[:n]
					}
					checkOrder(vs)
					taken.add(vs...)
					if wasDone && len(vs) == 0 {
						return
					}
					if r.Intn(2) == 0 {
						time.Sleep(time.Duration(r.Intn(300)) * time.Microsecond)
					}
				}
			}(d)
		}

		var pwg sync.WaitGroup
		for p := 1; p <= producers; p++ {
			pwg.Add(1)
			go func(p int) {
				defer pwg.Done()
				for i := 1; i <= per; i++ {
					ch <- p*1000 + i
				}
			}(p)
		}
		pwg.Wait()
		close(ch)
		atomic.StoreInt32(&done, 1)
		dwg.Wait()
		left, _ := drainNow(ch)
		taken.add(left...)

		var want []int
		for p := 1; p <= producers; p++ {
			want = append(want, seq(p*1000+1, per)...)
		}
		if got := taken.sorted(); !sameInts(got, want) {
			t.Fatalf("seed %d: taken+left has %d values, want %d, once each: %v", seed, len(got), len(want), got)
		}
	}
}
