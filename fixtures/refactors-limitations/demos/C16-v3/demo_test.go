package demo

import (
	"fmt"
	"math/rand"
	"sync"
	"testing"

	"gopkg.in/typ.v4/lists"
)

// ---------------------------------------------------------------- Queue

// checkQueue compares every observable of q with the slice model
// (model[0] is the oldest value).
func checkQueue[T comparable](t *testing.T, q *lists.Queue[T], model []T, ctx string) {
	t.Helper()
	if got := q.Len(); got != len(model) {
		t.Fatalf("%s: Len=%d want %d", ctx, got, len(model))
	}
	v, ok := q.Peek()
	if len(model) == 0 {
		var zero T
		if ok || v != zero {
			t.Fatalf("%s: Peek on empty = (%v,%v), want zero,false", ctx, v, ok)
		}
	} else if !ok || v != model[0] {
		t.Fatalf("%s: Peek = (%v,%v), want (%v,true)", ctx, v, ok, model[0])
	}
	// Peek must not remove.
	if got := q.Len(); got != len(model) {
		t.Fatalf("%s: Len after Peek=%d want %d", ctx, got, len(model))
	}
}

func dequeueCheck[T comparable](t *testing.T, q *lists.Queue[T], model []T, ctx string) []T {
	t.Helper()
	v, ok := q.Dequeue()
	if len(model) == 0 {
		var zero T
		if ok || v != zero {
			t.Fatalf("%s: Dequeue on empty = (%v,%v), want zero,false", ctx, v, ok)
		}
		return model
	}
	if !ok || v != model[0] {
		t.Fatalf("%s: Dequeue = (%v,%v), want (%v,true)", ctx, v, ok, model[0])
	}
	return model[1:]
}

func TestQueueZeroValueEmpty(t *testing.T) {
	var q lists.Queue[int]
	for i := 0; i < 3; i++ {
		checkQueue(t, &q, nil, "zero")
		dequeueCheck(t, &q, nil, "zero")
	}
	// still usable
	q.Enqueue(7)
	checkQueue(t, &q, []int{7}, "after enqueue")
	dequeueCheck(t, &q, []int{7}, "after enqueue")
	checkQueue(t, &q, nil, "drained")
	dequeueCheck(t, &q, nil, "drained")
	checkQueue(t, &q, nil, "drained2")
	q.Enqueue(8)
	q.Enqueue(9)
	checkQueue(t, &q, []int{8, 9}, "refilled")
}

func TestQueueExample(t *testing.T) {
	var q lists.Queue[string]
	q.Enqueue("tripp")
	q.Enqueue("trapp")
	q.Enqueue("trull")
	model := []string{"tripp", "trapp", "trull"}
	checkQueue(t, &q, model, "example")
	for i := 0; i < 4; i++ {
		model = dequeueCheck(t, &q, model, fmt.Sprint("example deq ", i))
		checkQueue(t, &q, model, fmt.Sprint("example after deq ", i))
	}
}

func TestQueueNewPointer(t *testing.T) {
	q := new(lists.Queue[float64])
	checkQueue(t, q, nil, "new")
	q.Enqueue(1.5)
	q.Enqueue(1.5) // duplicates are distinct entries
	q.Enqueue(0)   // zero value is a legitimate entry
	model := []float64{1.5, 1.5, 0}
	checkQueue(t, q, model, "dups")
	model = dequeueCheck(t, q, model, "d1")
	model = dequeueCheck(t, q, model, "d2")
	checkQueue(t, q, model, "zero entry")
	v, ok := q.Peek()
	if !ok || v != 0 {
		t.Fatalf("Peek of stored zero = (%v,%v), want (0,true)", v, ok)
	}
	v, ok = q.Dequeue()
	if !ok || v != 0 {
		t.Fatalf("Dequeue of stored zero = (%v,%v), want (0,true)", v, ok)
	}
	checkQueue(t, q, nil, "empty again")
}

func runQueueModel(t *testing.T, seed int64, steps int, pEnq int) {
	rng := rand.New(rand.NewSource(seed))
	var q lists.Queue[int]
	var model []int
	next := 0
	for i := 0; i < steps; i++ {
		ctx := fmt.Sprintf("seed %d step %d", seed, i)
		switch r := rng.Intn(100); {
		case r < pEnq:
			next++
			q.Enqueue(next)
			model = append(model, next)
		case r < pEnq+10:
			// peek twice: idempotent
			checkQueue(t, &q, model, ctx)
			checkQueue(t, &q, model, ctx)
		case r < pEnq+13:
			// drain completely, then one more
			for len(model) > 0 {
				model = dequeueCheck(t, &q, model, ctx)
			}
			model = dequeueCheck(t, &q, model, ctx)
		default:
			model = dequeueCheck(t, &q, model, ctx)
		}
		checkQueue(t, &q, model, ctx)
	}
	for len(model) > 0 {
		model = dequeueCheck(t, &q, model, "final drain")
		checkQueue(t, &q, model, "final drain")
	}
	dequeueCheck(t, &q, model, "final empty")
}

func TestQueueModelRandom(t *testing.T) {
	for seed := int64(1); seed <= 40; seed++ {
		runQueueModel(t, seed, 600, 45)     // balanced: often hits empty
		runQueueModel(t, seed+100, 600, 65) // growing
		runQueueModel(t, seed+200, 300, 25) // mostly empty
	}
}

type pair struct {
	a int
	b string
}

func TestQueueOtherTypes(t *testing.T) {
	// strings
	{
		rng := rand.New(rand.NewSource(99))
		var q lists.Queue[string]
		var model []string
		for i := 0; i < 500; i++ {
			if rng.Intn(3) != 0 {
				s := fmt.Sprint("v", rng.Intn(5)) // many duplicates
				q.Enqueue(s)
				model = append(model, s)
			} else {
				model = dequeueCheck(t, &q, model, "string")
			}
			checkQueue(t, &q, model, "string")
		}
	}
	// structs
	{
		var q lists.Queue[pair]
		var model []pair
		for i := 0; i < 50; i++ {
			p := pair{i, fmt.Sprint(i % 3)}
			q.Enqueue(p)
			model = append(model, p)
			if i%4 == 3 {
				model = dequeueCheck(t, &q, model, "pair")
				model = dequeueCheck(t, &q, model, "pair")
			}
			checkQueue(t, &q, model, "pair")
		}
	}
	// pointers: identity is preserved, nil pointer is a storable value
	{
		var q lists.Queue[*int]
		a, b := new(int), new(int)
		q.Enqueue(a)
		q.Enqueue(nil)
		q.Enqueue(b)
		model := []*int{a, nil, b}
		checkQueue(t, &q, model, "ptr")
		model = dequeueCheck(t, &q, model, "ptr")
		v, ok := q.Peek()
		if !ok || v != nil {
			t.Fatalf("Peek stored nil = (%v,%v)", v, ok)
		}
		model = dequeueCheck(t, &q, model, "ptr")
		model = dequeueCheck(t, &q, model, "ptr")
		model = dequeueCheck(t, &q, model, "ptr")
		checkQueue(t, &q, model, "ptr")
	}
}

func TestQueueNilReceiverPanics(t *testing.T) {
	var q *lists.Queue[int]
	for name, f := range map[string]func(){
		"Len":     func() { q.Len() },
		"Peek":    func() { q.Peek() },
		"Dequeue": func() { q.Dequeue() },
		"Enqueue": func() { q.Enqueue(1) },
	} {
		func() {
			defer func() {
				if recover() == nil {
					t.Errorf("nil *Queue %s did not panic", name)
				}
			}()
			f()
		}()
	}
}

// ---------------------------------------------------------------- Stack

// model: last element is the top
func checkStack[T comparable](t *testing.T, s *lists.Stack[T], model []T, ctx string) {
	t.Helper()
	if got := len(*s); got != len(model) {
		t.Fatalf("%s: len=%d want %d", ctx, got, len(model))
	}
	for i := range model {
		if (*s)[i] != model[i] {
			t.Fatalf("%s: slot %d = %v want %v", ctx, i, (*s)[i], model[i])
		}
	}
	v, ok := s.Peek()
	if len(model) == 0 {
		var zero T
		if ok || v != zero {
			t.Fatalf("%s: Peek on empty = (%v,%v), want zero,false", ctx, v, ok)
		}
	} else if !ok || v != model[len(model)-1] {
		t.Fatalf("%s: Peek = (%v,%v), want (%v,true)", ctx, v, ok, model[len(model)-1])
	}
	if got := len(*s); got != len(model) {
		t.Fatalf("%s: len after Peek=%d want %d", ctx, got, len(model))
	}
}

func popCheck[T comparable](t *testing.T, s *lists.Stack[T], model []T, ctx string) []T {
	t.Helper()
	v, ok := s.Pop()
	if len(model) == 0 {
		var zero T
		if ok || v != zero {
			t.Fatalf("%s: Pop on empty = (%v,%v), want zero,false", ctx, v, ok)
		}
		return model
	}
	top := model[len(model)-1]
	if !ok || v != top {
		t.Fatalf("%s: Pop = (%v,%v), want (%v,true)", ctx, v, ok, top)
	}
	return model[:len(model)-1]
}

func TestStackZeroValueEmpty(t *testing.T) {
	var s lists.Stack[int]
	for i := 0; i < 3; i++ {
		checkStack(t, &s, nil, "zero")
		popCheck(t, &s, nil, "zero")
	}
	if s != nil {
		t.Fatalf("Pop/Peek on a nil stack must leave it nil, got %#v", s)
	}
	s.Push(7)
	checkStack(t, &s, []int{7}, "after push")
	popCheck(t, &s, []int{7}, "after push")
	checkStack(t, &s, nil, "drained")
	if s == nil {
		t.Fatalf("a drained stack keeps its (empty, non-nil) slice")
	}
	popCheck(t, &s, nil, "drained")
	checkStack(t, &s, nil, "drained2")
	s.Push(8)
	s.Push(9)
	checkStack(t, &s, []int{8, 9}, "refilled")
}

func TestStackNilPointer(t *testing.T) {
	var s *lists.Stack[string]
	if v, ok := s.Peek(); ok || v != "" {
		t.Fatalf("nil *Stack Peek = (%q,%v)", v, ok)
	}
	if v, ok := s.Pop(); ok || v != "" {
		t.Fatalf("nil *Stack Pop = (%q,%v)", v, ok)
	}
	func() {
		defer func() {
			if recover() == nil {
				t.Errorf("nil *Stack Push did not panic")
			}
		}()
		s.Push("x")
	}()
}

func TestStackEmptyNonNil(t *testing.T) {
	s := lists.Stack[int]{}
	popCheck(t, &s, nil, "empty literal")
	checkStack(t, &s, nil, "empty literal")
	if s == nil || len(s) != 0 {
		t.Fatalf("empty stack changed: %#v", s)
	}
	s2 := make(lists.Stack[int], 0, 8)
	popCheck(t, &s2, nil, "empty with cap")
	if cap(s2) != 8 || len(s2) != 0 {
		t.Fatalf("empty stack with cap changed: len %d cap %d", len(s2), cap(s2))
	}
}

func TestStackExample(t *testing.T) {
	var s lists.Stack[string]
	s.Push("tripp")
	s.Push("trapp")
	s.Push("trull")
	model := []string{"tripp", "trapp", "trull"}
	checkStack(t, &s, model, "example")
	for i := 0; i < 4; i++ {
		model = popCheck(t, &s, model, fmt.Sprint("example pop ", i))
		checkStack(t, &s, model, fmt.Sprint("example after pop ", i))
	}
}

func TestStackFromLiteralAndAliasing(t *testing.T) {
	s := lists.Stack[int]{1, 2, 3}
	alias := s // shares the backing array
	model := []int{1, 2, 3}
	checkStack(t, &s, model, "literal")
	model = popCheck(t, &s, model, "literal")
	checkStack(t, &s, model, "literal")
	// Pop only shrinks the slice header: the popped slot is not touched
	// and the capacity is retained.
	if len(alias) != 3 || alias[0] != 1 || alias[1] != 2 || alias[2] != 3 {
		t.Fatalf("alias changed by Pop: %v", alias)
	}
	if cap(s) != cap(alias) {
		t.Fatalf("cap changed by Pop: %d vs %d", cap(s), cap(alias))
	}
	if &s[0] != &alias[0] {
		t.Fatalf("Pop reallocated")
	}
	// Peek never writes
	s.Peek()
	if alias[2] != 3 {
		t.Fatalf("alias changed by Peek: %v", alias)
	}
	// Push after Pop reuses the spare capacity, like append.
	s.Push(9)
	if alias[2] != 9 {
		t.Fatalf("Push did not reuse capacity like append: %v", alias)
	}
	checkStack(t, &s, []int{1, 2, 9}, "after push")
}

func runStackModel(t *testing.T, seed int64, steps int, pPush int) {
	rng := rand.New(rand.NewSource(seed))
	var s lists.Stack[int]
	var model []int
	next := 0
	for i := 0; i < steps; i++ {
		ctx := fmt.Sprintf("seed %d step %d", seed, i)
		switch r := rng.Intn(100); {
		case r < pPush:
			next++
			s.Push(next)
			model = append(model, next)
		case r < pPush+10:
			checkStack(t, &s, model, ctx)
			checkStack(t, &s, model, ctx)
		case r < pPush+13:
			for len(model) > 0 {
				model = popCheck(t, &s, model, ctx)
			}
			model = popCheck(t, &s, model, ctx)
		default:
			model = popCheck(t, &s, model, ctx)
		}
		checkStack(t, &s, model, ctx)
	}
	for len(model) > 0 {
		model = popCheck(t, &s, model, "final drain")
		checkStack(t, &s, model, "final drain")
	}
	popCheck(t, &s, model, "final empty")
}

func TestStackModelRandom(t *testing.T) {
	for seed := int64(1); seed <= 40; seed++ {
		runStackModel(t, seed, 600, 45)
		runStackModel(t, seed+100, 600, 65)
		runStackModel(t, seed+200, 300, 25)
	}
}

func TestStackOtherTypes(t *testing.T) {
	{
		rng := rand.New(rand.NewSource(77))
		var s lists.Stack[string]
		var model []string
		for i := 0; i < 500; i++ {
			if rng.Intn(3) != 0 {
				v := fmt.Sprint("v", rng.Intn(5))
				s.Push(v)
				model = append(model, v)
			} else {
				model = popCheck(t, &s, model, "string")
			}
			checkStack(t, &s, model, "string")
		}
	}
	{
		var s lists.Stack[pair]
		var model []pair
		for i := 0; i < 50; i++ {
			p := pair{i, fmt.Sprint(i % 3)}
			s.Push(p)
			model = append(model, p)
			if i%4 == 3 {
				model = popCheck(t, &s, model, "pair")
				model = popCheck(t, &s, model, "pair")
			}
			checkStack(t, &s, model, "pair")
		}
	}
	{
		var s lists.Stack[*int]
		a, b := new(int), new(int)
		s.Push(a)
		s.Push(nil)
		s.Push(b)
		model := []*int{a, nil, b}
		model = popCheck(t, &s, model, "ptr")
		v, ok := s.Peek()
		if !ok || v != nil {
			t.Fatalf("Peek stored nil = (%v,%v)", v, ok)
		}
		model = popCheck(t, &s, model, "ptr")
		model = popCheck(t, &s, model, "ptr")
		model = popCheck(t, &s, model, "ptr")
		checkStack(t, &s, model, "ptr")
	}
}

// ---------------------------------------------------------------- List
// The queue is built on List: PushFront / Back / Remove, and the list's
// other bulk operations share its helpers.

func listValues[T any](l *lists.List[T]) []T {
	var out []T
	for e := l.Front(); e != nil; e = e.Next() {
		out = append(out, e.Value)
	}
	return out
}

func listValuesBackward[T any](l *lists.List[T]) []T {
	var out []T
	for e := l.Back(); e != nil; e = e.Prev() {
		out = append(out, e.Value)
	}
	return out
}

func checkList(t *testing.T, l *lists.List[int], want []int, ctx string) {
	t.Helper()
	if l.Len() != len(want) {
		t.Fatalf("%s: Len=%d want %d", ctx, l.Len(), len(want))
	}
	got := listValues(l)
	if fmt.Sprint(got) != fmt.Sprint(append([]int(nil), want...)) {
		t.Fatalf("%s: forward %v want %v", ctx, got, want)
	}
	back := listValuesBackward(l)
	for i := range want {
		if back[len(want)-1-i] != want[i] {
			t.Fatalf("%s: backward %v want reverse of %v", ctx, back, want)
		}
	}
	if len(want) == 0 {
		if l.Front() != nil || l.Back() != nil {
			t.Fatalf("%s: empty list has Front/Back", ctx)
		}
	}
}

func mkList(vals ...int) *lists.List[int] {
	l := lists.New[int]()
	for _, v := range vals {
		l.PushBack(v)
	}
	return l
}

func TestListAsQueue(t *testing.T) {
	rng := rand.New(rand.NewSource(5))
	var l lists.List[int] // zero value, like the one inside Queue
	var model []int       // front ... back
	for i := 0; i < 2000; i++ {
		if rng.Intn(2) == 0 {
			e := l.PushFront(i)
			if e == nil || e.Value != i || l.Front() != e {
				t.Fatalf("PushFront returned wrong element")
			}
			model = append([]int{i}, model...)
		} else if b := l.Back(); b == nil {
			if len(model) != 0 {
				t.Fatalf("Back nil on non-empty list")
			}
		} else {
			if got := l.Remove(b); got != model[len(model)-1] {
				t.Fatalf("Remove(Back) = %d want %d", got, model[len(model)-1])
			}
			if b.Next() != nil || b.Prev() != nil {
				t.Fatalf("removed element still linked")
			}
			// removing again is a no-op that still returns the value
			if got := l.Remove(b); got != model[len(model)-1] {
				t.Fatalf("second Remove = %d", got)
			}
			model = model[:len(model)-1]
		}
		checkList(t, &l, model, fmt.Sprint("step ", i))
	}
}

func TestListPushLists(t *testing.T) {
	for n := 0; n <= 5; n++ {
		for m := 0; m <= 5; m++ {
			var a, b []int
			for i := 0; i < n; i++ {
				a = append(a, i+1)
			}
			for i := 0; i < m; i++ {
				b = append(b, 100+i)
			}
			ctx := fmt.Sprintf("n=%d m=%d", n, m)

			l, o := mkList(a...), mkList(b...)
			l.PushBackList(o)
			checkList(t, l, append(append([]int{}, a...), b...), ctx+" back")
			checkList(t, o, b, ctx+" back other")

			l, o = mkList(a...), mkList(b...)
			l.PushFrontList(o)
			checkList(t, l, append(append([]int{}, b...), a...), ctx+" front")
			checkList(t, o, b, ctx+" front other")

			// zero-value receiver
			var z lists.List[int]
			z.PushBackList(mkList(b...))
			checkList(t, &z, b, ctx+" zero back")
			var z2 lists.List[int]
			z2.PushFrontList(mkList(b...))
			checkList(t, &z2, b, ctx+" zero front")

			// zero-value (never initialised) other
			var zo lists.List[int]
			l = mkList(a...)
			l.PushBackList(&zo)
			l.PushFrontList(&zo)
			checkList(t, l, a, ctx+" zero other")
		}
		// self append / prepend: exactly the elements present at the call
		var a []int
		for i := 0; i < n; i++ {
			a = append(a, i+1)
		}
		l := mkList(a...)
		l.PushBackList(l)
		checkList(t, l, append(append([]int{}, a...), a...), fmt.Sprint("self back ", n))
		l = mkList(a...)
		l.PushFrontList(l)
		checkList(t, l, append(append([]int{}, a...), a...), fmt.Sprint("self front ", n))
		var z lists.List[int]
		z.PushBackList(&z)
		z.PushFrontList(&z)
		checkList(t, &z, nil, "self zero")
	}
}

// ---------------------------------------------------------------- concurrency
// The containers are not synchronised; independent containers used from
// different goroutines, and one container guarded by a mutex, must be race-free.

func TestIndependentContainersInParallel(t *testing.T) {
	var wg sync.WaitGroup
	for g := 0; g < 8; g++ {
		g := g
		wg.Add(1)
		go func() {
			defer wg.Done()
			runQueueModel(t, int64(1000+g), 400, 50)
			runStackModel(t, int64(2000+g), 400, 50)
		}()
	}
	wg.Wait()
}

func TestMutexGuardedShared(t *testing.T) {
	var mu sync.Mutex
	var q lists.Queue[int]
	var s lists.Stack[int]
	const producers, per = 4, 500
	var wg sync.WaitGroup
	for p := 0; p < producers; p++ {
		p := p
		wg.Add(1)
		go func() {
			defer wg.Done()
			for i := 0; i < per; i++ {
				mu.Lock()
				q.Enqueue(p*per + i)
				s.Push(p*per + i)
				mu.Unlock()
			}
		}()
	}
	// a consumer that checks per-producer order on the queue
	gotQ := make([][]int, producers)
	done := make(chan struct{})
	go func() {
		defer close(done)
		n := 0
		for n < producers*per {
			mu.Lock()
			v, ok := q.Dequeue()
			mu.Unlock()
			if ok {
				gotQ[v/per] = append(gotQ[v/per], v)
				n++
			}
		}
	}()
	wg.Wait()
	<-done
	for p := range gotQ {
		if len(gotQ[p]) != per {
			t.Fatalf("producer %d: %d values", p, len(gotQ[p]))
		}
		for i, v := range gotQ[p] {
			if v != p*per+i {
				t.Fatalf("producer %d: value %d at %d, FIFO broken", p, v, i)
			}
		}
	}
	if q.Len() != 0 {
		t.Fatalf("queue not empty: %d", q.Len())
	}
	// stack: per-producer values come out in decreasing order
	last := make([]int, producers)
	for p := range last {
		last[p] = (p + 1) * per
	}
	for i := 0; i < producers*per; i++ {
		v, ok := s.Pop()
		if !ok {
			t.Fatalf("stack empty early at %d", i)
		}
		if v >= last[v/per] {
			t.Fatalf("LIFO broken for producer %d: %d after %d", v/per, v, last[v/per])
		}
		last[v/per] = v
	}
	if _, ok := s.Pop(); ok {
		t.Fatalf("stack should be empty")
	}
}
