package demo

import (
	"fmt"
	"math/rand"
	"strings"
	"sync"
	"testing"

	"gopkg.in/typ.v4/arrays"
)

// model is the reference cell model: width x height independent cells.
type model struct {
	w, h  int
	cells map[[2]int]int
}

func newModel(w, h, v int) *model {
	m := &model{w: w, h: h, cells: map[[2]int]int{}}
	for y := 0; y < h; y++ {
		for x := 0; x < w; x++ {
			m.cells[[2]int{x, y}] = v
		}
	}
	return m
}

func (m *model) clone() *model {
	c := &model{w: m.w, h: m.h, cells: map[[2]int]int{}}
	for k, v := range m.cells {
		c.cells[k] = v
	}
	return c
}

func (m *model) String() string {
	var sb strings.Builder
	sb.WriteByte('[')
	for y := 0; y < m.h; y++ {
		if y > 0 {
			sb.WriteByte(' ')
		}
		sb.WriteByte('[')
		for x := 0; x < m.w; x++ {
			if x > 0 {
				sb.WriteByte(' ')
			}
			fmt.Fprint(&sb, m.cells[[2]int{x, y}])
		}
		sb.WriteByte(']')
	}
	sb.WriteByte(']')
	return sb.String()
}

// check compares the whole grid (Get, Row, Width, Height, String) with the model.
func check(t *testing.T, ctx string, a arrays.Array2D[int], m *model) {
	t.Helper()
	if a.Width() != m.w || a.Height() != m.h {
		t.Fatalf("%s: shape %dx%d, want %dx%d", ctx, a.Width(), a.Height(), m.w, m.h)
	}
	for y := 0; y < m.h; y++ {
		row := a.Row(y)
		if len(row) != m.w {
			t.Fatalf("%s: len(Row(%d))=%d, want %d", ctx, y, len(row), m.w)
		}
		for x := 0; x < m.w; x++ {
			want := m.cells[[2]int{x, y}]
			if got := a.Get(x, y); got != want {
				t.Fatalf("%s: Get(%d,%d)=%d, want %d", ctx, x, y, got, want)
			}
			if row[x] != want {
				t.Fatalf("%s: Row(%d)[%d]=%d, want %d", ctx, y, x, row[x], want)
			}
		}
	}
	if got, want := a.String(), m.String(); got != want {
		t.Fatalf("%s: String()=%q, want %q", ctx, got, want)
	}
}

// panicValue runs f and returns the recovered panic value (nil if none).
func panicValue(f func()) (v interface{}) {
	defer func() { v = recover() }()
	f()
	return nil
}

func wantPanicMsg(t *testing.T, ctx string, want string, f func()) {
	t.Helper()
	v := panicValue(f)
	if v == nil {
		t.Fatalf("%s: no panic, want %q", ctx, want)
	}
	s, ok := v.(string)
	if !ok {
		t.Fatalf("%s: panic value %T %v, want string %q", ctx, v, v, want)
	}
	if s != want {
		t.Fatalf("%s: panic %q, want %q", ctx, s, want)
	}
}

func xMsg(name string, x, w int) string {
	return fmt.Sprintf("array2d: %s index out of range [%d] with width %d", name, x, w)
}

func yMsg(name string, y, h int) string {
	return fmt.Sprintf("array2d: %s index out of range [%d] with height %d", name, y, h)
}

var shapes = [][2]int{
	{0, 0}, {0, 1}, {1, 0}, {0, 4}, {4, 0},
	{1, 1}, {1, 2}, {2, 1}, {1, 7}, {7, 1},
	{2, 2}, {2, 3}, {3, 2}, {3, 3}, {3, 5}, {5, 3},
	{4, 9}, {9, 4}, {8, 8}, {2, 13}, {13, 2}, {17, 6}, {6, 17},
}

func TestNew2DIsZero(t *testing.T) {
	for _, s := range shapes {
		w, h := s[0], s[1]
		a := arrays.New2D[int](w, h)
		check(t, fmt.Sprintf("New2D(%d,%d)", w, h), a, newModel(w, h, 0))
	}
}

func TestNew2DFilled(t *testing.T) {
	for _, s := range shapes {
		w, h := s[0], s[1]
		a := arrays.New2DFilled(w, h, 7)
		m := newModel(w, h, 7)
		check(t, fmt.Sprintf("New2DFilled(%d,%d)", w, h), a, m)
		// cells of a filled array are independent too
		if w > 0 && h > 0 {
			a.Set(w-1, h-1, 99)
			m.cells[[2]int{w - 1, h - 1}] = 99
			a.Set(0, 0, 98)
			m.cells[[2]int{0, 0}] = 98
			check(t, fmt.Sprintf("New2DFilled(%d,%d) after Set", w, h), a, m)
		}
	}
	// string typed
	sa := arrays.New2DFilled(3, 2, "ab")
	if got, want := sa.String(), "[[ab ab ab] [ab ab ab]]"; got != want {
		t.Fatalf("String()=%q, want %q", got, want)
	}
}

func TestSetGetEveryCellIndependent(t *testing.T) {
	for _, s := range shapes {
		w, h := s[0], s[1]
		a := arrays.New2D[int](w, h)
		m := newModel(w, h, 0)
		n := 1
		for y := 0; y < h; y++ {
			for x := 0; x < w; x++ {
				a.Set(x, y, n)
				m.cells[[2]int{x, y}] = n
				n++
				check(t, fmt.Sprintf("%dx%d Set(%d,%d)", w, h, x, y), a, m)
			}
		}
		// overwrite in column-major order: last value wins
		for x := 0; x < w; x++ {
			for y := 0; y < h; y++ {
				a.Set(x, y, -n)
				m.cells[[2]int{x, y}] = -n
				n++
			}
		}
		check(t, fmt.Sprintf("%dx%d overwrite", w, h), a, m)
	}
}

func TestStringExact(t *testing.T) {
	a := arrays.New2D[int](3, 2)
	n := 1
	for y := 0; y < 2; y++ {
		for x := 0; x < 3; x++ {
			a.Set(x, y, n)
			n++
		}
	}
	if got, want := a.String(), "[[1 2 3] [4 5 6]]"; got != want {
		t.Fatalf("3x2 String()=%q, want %q", got, want)
	}
	b := arrays.New2D[int](2, 3)
	n = 1
	for y := 0; y < 3; y++ {
		for x := 0; x < 2; x++ {
			b.Set(x, y, n)
			n++
		}
	}
	if got, want := b.String(), "[[1 2] [3 4] [5 6]]"; got != want {
		t.Fatalf("2x3 String()=%q, want %q", got, want)
	}
	for _, c := range []struct {
		w, h int
		want string
	}{
		{0, 0, "[]"}, {3, 0, "[]"}, {0, 3, "[[] [] []]"}, {1, 1, "[[0]]"}, {1, 3, "[[0] [0] [0]]"}, {3, 1, "[[0 0 0]]"},
	} {
		if got := arrays.New2D[int](c.w, c.h).String(); got != c.want {
			t.Fatalf("%dx%d String()=%q, want %q", c.w, c.h, got, c.want)
		}
	}
	var zero arrays.Array2D[int]
	if got := zero.String(); got != "[]" {
		t.Fatalf("zero String()=%q", got)
	}
	if got := fmt.Sprint(a); got != "[[1 2 3] [4 5 6]]" {
		t.Fatalf("fmt.Sprint=%q", got)
	}
}

func TestOutOfBoundsPanicsAndLeavesArrayAlone(t *testing.T) {
	for _, s := range shapes {
		w, h := s[0], s[1]
		a := arrays.New2D[int](w, h)
		m := newModel(w, h, 0)
		n := 1
		for y := 0; y < h; y++ {
			for x := 0; x < w; x++ {
				a.Set(x, y, n)
				m.cells[[2]int{x, y}] = n
				n++
			}
		}
		for x := -2; x <= w+2; x++ {
			for y := -2; y <= h+2; y++ {
				ctx := fmt.Sprintf("%dx%d (%d,%d)", w, h, x, y)
				xBad := x < 0 || x >= w
				yBad := y < 0 || y >= h
				switch {
				case xBad:
					wantPanicMsg(t, ctx+" Get", xMsg("x", x, w), func() { a.Get(x, y) })
					wantPanicMsg(t, ctx+" Set", xMsg("x", x, w), func() { a.Set(x, y, 12345) })
				case yBad:
					wantPanicMsg(t, ctx+" Get", yMsg("y", y, h), func() { a.Get(x, y) })
					wantPanicMsg(t, ctx+" Set", yMsg("y", y, h), func() { a.Set(x, y, 12345) })
				default:
					if v := panicValue(func() { a.Get(x, y) }); v != nil {
						t.Fatalf("%s: Get panicked: %v", ctx, v)
					}
				}
			}
			check(t, fmt.Sprintf("%dx%d after oob x=%d", w, h, x), a, m)
		}
		// Row
		for y := -2; y <= h+2; y++ {
			ctx := fmt.Sprintf("%dx%d Row(%d)", w, h, y)
			if y < 0 || y >= h {
				wantPanicMsg(t, ctx, yMsg("y", y, h), func() { a.Row(y) })
			} else if v := panicValue(func() { a.Row(y) }); v != nil {
				t.Fatalf("%s panicked: %v", ctx, v)
			}
		}
		check(t, fmt.Sprintf("%dx%d after oob Row", w, h), a, m)
	}
}

func TestRowSpanPanicsInCheckOrder(t *testing.T) {
	for _, s := range shapes {
		w, h := s[0], s[1]
		a := arrays.New2DFilled(w, h, 5)
		m := newModel(w, h, 5)
		for x1 := -1; x1 <= w+1; x1++ {
			for x2 := -1; x2 <= w+1; x2++ {
				for y := -1; y <= h+1; y++ {
					ctx := fmt.Sprintf("%dx%d RowSpan(%d,%d,%d)", w, h, x1, x2, y)
					switch {
					case x1 < 0 || x1 >= w:
						wantPanicMsg(t, ctx, xMsg("x1", x1, w), func() { a.RowSpan(x1, x2, y) })
					case y < 0 || y >= h:
						wantPanicMsg(t, ctx, yMsg("y", y, h), func() { a.RowSpan(x1, x2, y) })
					case x2 < 0 || x2 >= w:
						wantPanicMsg(t, ctx, xMsg("x2", x2, w), func() { a.RowSpan(x1, x2, y) })
					case x1 <= x2:
						var span []int
						if v := panicValue(func() { span = a.RowSpan(x1, x2, y) }); v != nil {
							t.Fatalf("%s panicked: %v", ctx, v)
						}
						if len(span) != x2-x1+1 {
							t.Fatalf("%s: len=%d, want %d", ctx, len(span), x2-x1+1)
						}
					case x1 == x2+1:
						// characterisation: an empty window, no panic
						var span []int
						if v := panicValue(func() { span = a.RowSpan(x1, x2, y) }); v != nil {
							t.Fatalf("%s panicked: %v", ctx, v)
						}
						if len(span) != 0 {
							t.Fatalf("%s: len=%d, want 0", ctx, len(span))
						}
					default:
						// characterisation: x1 > x2+1 is a runtime slice-bounds panic
						v := panicValue(func() { a.RowSpan(x1, x2, y) })
						if v == nil {
							t.Fatalf("%s: want a panic", ctx)
						}
						if _, isString := v.(string); isString {
							t.Fatalf("%s: want runtime error, got string %v", ctx, v)
						}
					}
				}
			}
		}
		check(t, fmt.Sprintf("%dx%d after RowSpan probes", w, h), a, m)
	}
}

func TestRowAndRowSpanAreLiveWindows(t *testing.T) {
	for _, s := range shapes {
		w, h := s[0], s[1]
		if w == 0 || h == 0 {
			continue
		}
		a := arrays.New2D[int](w, h)
		m := newModel(w, h, 0)
		n := 1
		for y := 0; y < h; y++ {
			// write through Row
			row := a.Row(y)
			for x := range row {
				row[x] = n
				m.cells[[2]int{x, y}] = n
				n++
			}
			check(t, fmt.Sprintf("%dx%d write Row(%d)", w, h, y), a, m)
			// characterisation: the window extends (by capacity) to the end of the grid
			if cap(row) != (h-y)*w {
				t.Fatalf("%dx%d cap(Row(%d))=%d, want %d", w, h, y, cap(row), (h-y)*w)
			}
			// read through: Set is seen by an earlier obtained Row
			for x := 0; x < w; x++ {
				a.Set(x, y, n)
				m.cells[[2]int{x, y}] = n
				if row[x] != n {
					t.Fatalf("%dx%d Row(%d)[%d] not live: %d want %d", w, h, y, x, row[x], n)
				}
				n++
			}
			for x1 := 0; x1 < w; x1++ {
				for x2 := x1; x2 < w; x2++ {
					span := a.RowSpan(x1, x2, y)
					if len(span) != x2-x1+1 {
						t.Fatalf("len(RowSpan(%d,%d,%d))=%d", x1, x2, y, len(span))
					}
					if cap(span) != (h-y)*w-x1 {
						t.Fatalf("%dx%d cap(RowSpan(%d,%d,%d))=%d, want %d", w, h, x1, x2, y, cap(span), (h-y)*w-x1)
					}
					for i := range span {
						if span[i] != m.cells[[2]int{x1 + i, y}] {
							t.Fatalf("RowSpan(%d,%d,%d)[%d]=%d", x1, x2, y, i, span[i])
						}
						span[i] = n
						m.cells[[2]int{x1 + i, y}] = n
						n++
					}
					// Set visible through the span
					a.Set(x1, y, n)
					m.cells[[2]int{x1, y}] = n
					if span[0] != n {
						t.Fatalf("RowSpan(%d,%d,%d) not live", x1, x2, y)
					}
					n++
					// the span aliases the row window
					if &span[0] != &row[x1] {
						t.Fatalf("RowSpan(%d,%d,%d) is not a window of Row(%d)", x1, x2, y, y)
					}
				}
				check(t, fmt.Sprintf("%dx%d write RowSpan(%d,..,%d)", w, h, x1, y), a, m)
			}
		}
		// rows are distinct, adjacent and in row-major order
		for y := 0; y+1 < h; y++ {
			r0, r1 := a.Row(y), a.Row(y+1)
			if &r0[:w+1][w] != &r1[0] {
				t.Fatalf("%dx%d rows %d and %d are not adjacent", w, h, y, y+1)
			}
		}
	}
}

func TestFillExactRectangleAnyCorners(t *testing.T) {
	for _, s := range shapes {
		w, h := s[0], s[1]
		if w == 0 || h == 0 {
			continue
		}
		if w*h > 40 {
			continue // exhaustive part only on the small shapes
		}
		n := 100
		for x1 := 0; x1 < w; x1++ {
			for x2 := 0; x2 < w; x2++ {
				for y1 := 0; y1 < h; y1++ {
					for y2 := 0; y2 < h; y2++ {
						a := arrays.New2DFilled(w, h, -1)
						m := newModel(w, h, -1)
						n++
						a.Fill(x1, y1, x2, y2, n)
						lx, hx, ly, hy := x1, x2, y1, y2
						if hx < lx {
							lx, hx = hx, lx
						}
						if hy < ly {
							ly, hy = hy, ly
						}
						for y := ly; y <= hy; y++ {
							for x := lx; x <= hx; x++ {
								m.cells[[2]int{x, y}] = n
							}
						}
						check(t, fmt.Sprintf("%dx%d Fill(%d,%d,%d,%d)", w, h, x1, y1, x2, y2), a, m)
					}
				}
			}
		}
	}
}

func TestFillRandomSequences(t *testing.T) {
	rng := rand.New(rand.NewSource(8))
	for iter := 0; iter < 300; iter++ {
		w, h := 1+rng.Intn(12), 1+rng.Intn(12)
		a := arrays.New2D[int](w, h)
		m := newModel(w, h, 0)
		for k := 1; k <= 8; k++ {
			x1, x2, y1, y2 := rng.Intn(w), rng.Intn(w), rng.Intn(h), rng.Intn(h)
			a.Fill(x1, y1, x2, y2, k)
			if x2 < x1 {
				x1, x2 = x2, x1
			}
			if y2 < y1 {
				y1, y2 = y2, y1
			}
			for y := y1; y <= y2; y++ {
				for x := x1; x <= x2; x++ {
					m.cells[[2]int{x, y}] = k
				}
			}
			check(t, fmt.Sprintf("iter %d %dx%d Fill #%d (%d,%d,%d,%d)", iter, w, h, k, x1, y1, x2, y2), a, m)
		}
	}
}

func TestFillPanicsInCheckOrderAndLeavesArrayAlone(t *testing.T) {
	for _, s := range [][2]int{{0, 0}, {0, 2}, {2, 0}, {1, 1}, {2, 3}, {3, 2}, {4, 4}} {
		w, h := s[0], s[1]
		a := arrays.New2DFilled(w, h, 3)
		m := newModel(w, h, 3)
		for x1 := -1; x1 <= w; x1++ {
			for y1 := -1; y1 <= h; y1++ {
				for x2 := -1; x2 <= w; x2++ {
					for y2 := -1; y2 <= h; y2++ {
						ctx := fmt.Sprintf("%dx%d Fill(%d,%d,%d,%d)", w, h, x1, y1, x2, y2)
						f := func() { a.Fill(x1, y1, x2, y2, 3) }
						switch {
						case x1 < 0 || x1 >= w:
							wantPanicMsg(t, ctx, xMsg("x1", x1, w), f)
						case y1 < 0 || y1 >= h:
							wantPanicMsg(t, ctx, yMsg("y1", y1, h), f)
						case x2 < 0 || x2 >= w:
							wantPanicMsg(t, ctx, xMsg("x2", x2, w), f)
						case y2 < 0 || y2 >= h:
							wantPanicMsg(t, ctx, yMsg("y2", y2, h), f)
						default:
							if v := panicValue(f); v != nil {
								t.Fatalf("%s panicked: %v", ctx, v)
							}
						}
					}
				}
			}
		}
		check(t, fmt.Sprintf("%dx%d after Fill probes", w, h), a, m)
		// an out-of-range Fill with a different value changes nothing
		if w > 0 && h > 0 {
			wantPanicMsg(t, "oob fill", yMsg("y2", h, h), func() { a.Fill(0, 0, w-1, h, 77) })
			wantPanicMsg(t, "oob fill", xMsg("x2", w, w), func() { a.Fill(0, 0, w, h-1, 77) })
			check(t, fmt.Sprintf("%dx%d after oob Fill", w, h), a, m)
		}
	}
}

func TestCloneIsIndependent(t *testing.T) {
	for _, s := range shapes {
		w, h := s[0], s[1]
		a := arrays.New2D[int](w, h)
		m := newModel(w, h, 0)
		n := 1
		for y := 0; y < h; y++ {
			for x := 0; x < w; x++ {
				a.Set(x, y, n)
				m.cells[[2]int{x, y}] = n
				n++
			}
		}
		c := a.Clone()
		cm := m.clone()
		check(t, fmt.Sprintf("%dx%d clone", w, h), c, cm)
		for y := 0; y < h; y++ {
			for x := 0; x < w; x++ {
				if (x+y)%2 == 0 {
					c.Set(x, y, -n)
					cm.cells[[2]int{x, y}] = -n
				} else {
					a.Set(x, y, 1000+n)
					m.cells[[2]int{x, y}] = 1000 + n
				}
				n++
			}
		}
		if w > 0 && h > 0 {
			c.Fill(0, 0, w-1, 0, 555)
			for x := 0; x < w; x++ {
				cm.cells[[2]int{x, 0}] = 555
			}
			row := a.Row(h - 1)
			for x := range row {
				row[x] = 666
				m.cells[[2]int{x, h - 1}] = 666
			}
		}
		check(t, fmt.Sprintf("%dx%d original after clone mutations", w, h), a, m)
		check(t, fmt.Sprintf("%dx%d clone after original mutations", w, h), c, cm)
		// clone of a clone, and the clone has a tight backing store
		cc := c.Clone()
		check(t, fmt.Sprintf("%dx%d clone of clone", w, h), cc, cm)
		if h > 0 {
			if got := cap(cc.Row(0)); got != w*h {
				t.Fatalf("%dx%d cap(clone.Row(0))=%d, want %d", w, h, got, w*h)
			}
		}
	}
	var zero arrays.Array2D[int]
	zc := zero.Clone()
	if zc.Width() != 0 || zc.Height() != 0 || zc.String() != "[]" {
		t.Fatalf("zero clone: %dx%d %s", zc.Width(), zc.Height(), zc.String())
	}
}

func TestNew2DFromJagged(t *testing.T) {
	rng := rand.New(rand.NewSource(80))
	for _, s := range shapes {
		w, h := s[0], s[1]
		for iter := 0; iter < 40; iter++ {
			rows := rng.Intn(h + 4)
			if iter == 0 {
				rows = 0
			}
			var jagged [][]int
			if iter%7 != 0 || rows > 0 {
				jagged = make([][]int, rows)
			}
			m := newModel(w, h, 0)
			for y := range jagged {
				l := rng.Intn(w + 4)
				if rng.Intn(5) == 0 {
					jagged[y] = nil
					continue
				}
				jagged[y] = make([]int, l)
				for x := range jagged[y] {
					v := 1 + rng.Intn(1000)
					jagged[y][x] = v
					if x < w && y < h {
						m.cells[[2]int{x, y}] = v
					}
				}
			}
			// keep a deep copy to verify the input is not modified
			orig := make([][]int, len(jagged))
			for y := range jagged {
				if jagged[y] != nil {
					orig[y] = append([]int{}, jagged[y]...)
				}
			}
			ctx := fmt.Sprintf("%dx%d FromJagged iter %d rows %d", w, h, iter, rows)
			var a arrays.Array2D[int]
			if v := panicValue(func() { a = arrays.New2DFromJagged(w, h, jagged) }); v != nil {
				t.Fatalf("%s panicked: %v", ctx, v)
			}
			check(t, ctx, a, m)
			// the array is independent of the jagged input
			for y := range jagged {
				for x := range jagged[y] {
					if jagged[y][x] != orig[y][x] {
						t.Fatalf("%s: input modified at row %d col %d", ctx, y, x)
					}
					jagged[y][x] = -7
				}
			}
			check(t, ctx+" after mutating input", a, m)
			if w > 0 && h > 0 {
				a.Fill(0, 0, w-1, h-1, 4242)
				for y := range jagged {
					for x := range jagged[y] {
						if jagged[y][x] != -7 {
							t.Fatalf("%s: input aliased by the array", ctx)
						}
					}
				}
			}
		}
	}
	// named jagged types
	type Row []string
	type Grid []Row
	g := Grid{Row{"a", "b", "c", "d"}, Row{"e"}, Row{}, Row{"x", "y"}}
	sa := arrays.New2DFromJagged(3, 3, g)
	if got, want := sa.String(), "[[a b c] [e  ] [  ]]"; got != want {
		t.Fatalf("String()=%q, want %q", got, want)
	}
}

func TestRandomOperationSequences(t *testing.T) {
	rng := rand.New(rand.NewSource(2022))
	for iter := 0; iter < 400; iter++ {
		w, h := rng.Intn(10), rng.Intn(10)
		a := arrays.New2D[int](w, h)
		m := newModel(w, h, 0)
		for op := 0; op < 40; op++ {
			v := 1 + rng.Intn(1 << 20)
			ctx := fmt.Sprintf("iter %d %dx%d op %d", iter, w, h, op)
			switch rng.Intn(7) {
			case 0: // Set anywhere, possibly outside
				x, y := rng.Intn(w+3)-1, rng.Intn(h+3)-1
				in := x >= 0 && x < w && y >= 0 && y < h
				pv := panicValue(func() { a.Set(x, y, v) })
				if in != (pv == nil) {
					t.Fatalf("%s: Set(%d,%d) panic=%v", ctx, x, y, pv)
				}
				if in {
					m.cells[[2]int{x, y}] = v
				}
			case 1: // Get anywhere
				x, y := rng.Intn(w+3)-1, rng.Intn(h+3)-1
				in := x >= 0 && x < w && y >= 0 && y < h
				var got int
				pv := panicValue(func() { got = a.Get(x, y) })
				if in != (pv == nil) {
					t.Fatalf("%s: Get(%d,%d) panic=%v", ctx, x, y, pv)
				}
				if in && got != m.cells[[2]int{x, y}] {
					t.Fatalf("%s: Get(%d,%d)=%d", ctx, x, y, got)
				}
			case 2: // Fill
				if w == 0 || h == 0 {
					continue
				}
				x1, x2, y1, y2 := rng.Intn(w), rng.Intn(w), rng.Intn(h), rng.Intn(h)
				a.Fill(x1, y1, x2, y2, v)
				if x2 < x1 {
					x1, x2 = x2, x1
				}
				if y2 < y1 {
					y1, y2 = y2, y1
				}
				for y := y1; y <= y2; y++ {
					for x := x1; x <= x2; x++ {
						m.cells[[2]int{x, y}] = v
					}
				}
			case 3: // Row write-through
				if h == 0 {
					continue
				}
				y := rng.Intn(h)
				for x, row := 0, a.Row(y); x < len(row); x++ {
					row[x] = v + x
					m.cells[[2]int{x, y}] = v + x
				}
			case 4: // RowSpan write-through
				if w == 0 || h == 0 {
					continue
				}
				y := rng.Intn(h)
				x1 := rng.Intn(w)
				x2 := x1 + rng.Intn(w-x1)
				span := a.RowSpan(x1, x2, y)
				if len(span) != x2-x1+1 {
					t.Fatalf("%s: len(RowSpan(%d,%d,%d))=%d", ctx, x1, x2, y, len(span))
				}
				for i := range span {
					span[i] = v - i
					m.cells[[2]int{x1 + i, y}] = v - i
				}
			case 5: // continue on a clone; the old array must stay as it was
				old, oldM := a, m.clone()
				a = a.Clone()
				if w > 0 && h > 0 {
					a.Set(w-1, h-1, v)
					m.cells[[2]int{w - 1, h - 1}] = v
				}
				check(t, ctx+" old after clone", old, oldM)
			case 6: // rebuild from jagged rows read out of the array
				jag := make([][]int, h)
				for y := range jag {
					jag[y] = append([]int{}, a.Row(y)...)
				}
				a = arrays.New2DFromJagged(w, h, jag)
			}
			check(t, ctx, a, m)
		}
	}
}

// Distinct cells are distinct memory: goroutines working on disjoint cells, and
// concurrent readers, do not race (run with -race).
func TestConcurrentDisjointCells(t *testing.T) {
	const w, h = 7, 11
	a := arrays.New2D[int](w, h)
	var wg sync.WaitGroup
	for y := 0; y < h; y++ {
		for x := 0; x < w; x++ {
			wg.Add(1)
			go func(x, y int) {
				defer wg.Done()
				for i := 0; i <= 50; i++ {
					a.Set(x, y, (x+1)*1000+y*10+i%2)
					_ = a.Get(x, y)
				}
			}(x, y)
		}
	}
	wg.Wait()
	m := newModel(w, h, 0)
	for y := 0; y < h; y++ {
		for x := 0; x < w; x++ {
			m.cells[[2]int{x, y}] = (x+1)*1000 + y*10
		}
	}
	check(t, "after concurrent Set", a, m)

	// one goroutine per row: Row, RowSpan and single-row Fill stay inside the row
	for y := 0; y < h; y++ {
		wg.Add(1)
		go func(y int) {
			defer wg.Done()
			row := a.Row(y)
			for x := range row {
				row[x] = y
			}
			a.Fill(w-1, y, 1, y, -y)
			span := a.RowSpan(2, 3, y)
			span[0], span[1] = 100+y, 200+y
		}(y)
	}
	wg.Wait()
	for y := 0; y < h; y++ {
		for x := 0; x < w; x++ {
			v := -y
			switch x {
			case 0:
				v = y
			case 2:
				v = 100 + y
			case 3:
				v = 200 + y
			}
			m.cells[[2]int{x, y}] = v
		}
	}
	check(t, "after concurrent rows", a, m)

	// concurrent read-only use: Get, String, Clone, Row reads
	want := a.String()
	for g := 0; g < 8; g++ {
		wg.Add(1)
		go func(g int) {
			defer wg.Done()
			for i := 0; i < 20; i++ {
				if got := a.String(); got != want {
					t.Errorf("concurrent String()=%q", got)
					return
				}
				c := a.Clone()
				c.Fill(0, 0, w-1, h-1, g) // private to this goroutine
				if c.Get(g%w, g%h) != g {
					t.Errorf("clone fill lost")
					return
				}
				_ = a.Row(g % h)[g%w]
			}
		}(g)
	}
	wg.Wait()
	check(t, "after concurrent readers", a, m)
}
