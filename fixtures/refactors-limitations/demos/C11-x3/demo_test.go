package demo

import (
	"fmt"
	"math"
	"math/rand"
	"sync"
	"testing"

	"gopkg.in/typ.v4/maps"
)

// ---------------------------------------------------------------------------
// Reference model: one plain map, the reverse direction is found by scanning.
// ---------------------------------------------------------------------------

type model map[int]int

func (m model) add(k, v int) {
	for ok, ov := range m {
		if ov == v {
			delete(m, ok)
		}
	}
	m[k] = v
}

func (m model) removeForward(k int) { delete(m, k) }

func (m model) removeReverse(v int) {
	for k, ov := range m {
		if ov == v {
			delete(m, k)
		}
	}
}

func (m model) clear() {
	for k := range m {
		delete(m, k)
	}
}

func (m model) clone() model {
	c := model{}
	for k, v := range m {
		c[k] = v
	}
	return c
}

func (m model) keyOf(v int) (int, bool) {
	for k, ov := range m {
		if ov == v {
			return k, true
		}
	}
	return 0, false
}

// check compares every observation of b against the model, over universes
// that are a little wider than anything the histories insert.
func check(t *testing.T, ctx string, b *maps.Bimap[int, int], m model, nKeys, nVals int) {
	t.Helper()
	if got := b.Len(); got != len(m) {
		t.Fatalf("%s: Len = %d, want %d", ctx, got, len(m))
	}
	for k := -1; k <= nKeys; k++ {
		wantV, wantOK := m[k]
		gotV, gotOK := b.GetForward(k)
		if gotOK != wantOK || gotV != wantV {
			t.Fatalf("%s: GetForward(%d) = (%d,%v), want (%d,%v)", ctx, k, gotV, gotOK, wantV, wantOK)
		}
		if c := b.ContainsForward(k); c != wantOK {
			t.Fatalf("%s: ContainsForward(%d) = %v, want %v", ctx, k, c, wantOK)
		}
		if gotOK {
			back, ok := b.GetReverse(gotV)
			if !ok || back != k {
				t.Fatalf("%s: GetForward(%d)=%d but GetReverse(%d) = (%d,%v)", ctx, k, gotV, gotV, back, ok)
			}
		}
	}
	for v := -1; v <= nVals; v++ {
		wantK, wantOK := m.keyOf(v)
		gotK, gotOK := b.GetReverse(v)
		if gotOK != wantOK || gotK != wantK {
			t.Fatalf("%s: GetReverse(%d) = (%d,%v), want (%d,%v)", ctx, v, gotK, gotOK, wantK, wantOK)
		}
		if c := b.ContainsReverse(v); c != wantOK {
			t.Fatalf("%s: ContainsReverse(%d) = %v, want %v", ctx, v, c, wantOK)
		}
		if gotOK {
			fwd, ok := b.GetForward(gotK)
			if !ok || fwd != v {
				t.Fatalf("%s: GetReverse(%d)=%d but GetForward(%d) = (%d,%v)", ctx, v, gotK, gotK, fwd, ok)
			}
		}
	}
	seen := map[int]int{}
	calls := 0
	b.Range(func(k, v int) bool {
		calls++
		if _, dup := seen[k]; dup {
			t.Fatalf("%s: Range visited key %d twice", ctx, k)
		}
		seen[k] = v
		return true
	})
	if calls != len(m) || len(seen) != len(m) {
		t.Fatalf("%s: Range made %d calls over %d keys, want %d", ctx, calls, len(seen), len(m))
	}
	for k, v := range m {
		if sv, ok := seen[k]; !ok || sv != v {
			t.Fatalf("%s: Range saw %d->(%d,%v), want %d", ctx, k, sv, ok, v)
		}
	}
	// Early stop: exactly min(1, Len) calls when f returns false.
	stops := 0
	b.Range(func(k, v int) bool {
		stops++
		return false
	})
	want := 0
	if len(m) > 0 {
		want = 1
	}
	if stops != want {
		t.Fatalf("%s: Range with f=false made %d calls, want %d", ctx, stops, want)
	}
}

// ---------------------------------------------------------------------------
// Operations, encoded as small integers so histories can be enumerated.
// ---------------------------------------------------------------------------

type world struct {
	b *maps.Bimap[int, int]
	m model
	// the bimap this one was cloned from (if any), to check independence
	parentB *maps.Bimap[int, int]
	parentM model
}

func numOps(nKeys, nVals int) int { return nKeys*nVals + nKeys + nVals + 2 }

func opName(op, nKeys, nVals int) string {
	switch {
	case op < nKeys*nVals:
		return fmt.Sprintf("Add(%d,%d)", op/nVals, op%nVals)
	case op < nKeys*nVals+nKeys:
		return fmt.Sprintf("RemoveForward(%d)", op-nKeys*nVals)
	case op < nKeys*nVals+nKeys+nVals:
		return fmt.Sprintf("RemoveReverse(%d)", op-nKeys*nVals-nKeys)
	case op == nKeys*nVals+nKeys+nVals:
		return "Clear"
	default:
		return "Clone"
	}
}

func (w *world) apply(op, nKeys, nVals int) {
	switch {
	case op < nKeys*nVals:
		k, v := op/nVals, op%nVals
		w.b.Add(k, v)
		w.m.add(k, v)
	case op < nKeys*nVals+nKeys:
		k := op - nKeys*nVals
		w.b.RemoveForward(k)
		w.m.removeForward(k)
	case op < nKeys*nVals+nKeys+nVals:
		v := op - nKeys*nVals - nKeys
		w.b.RemoveReverse(v)
		w.m.removeReverse(v)
	case op == nKeys*nVals+nKeys+nVals:
		w.b.Clear()
		w.m.clear()
	default:
		// Continue on a clone; remember the original to check it stays put.
		c := w.b.Clone()
		w.parentB, w.parentM = w.b, w.m.clone()
		w.b, w.m = &c, w.m.clone()
	}
}

func (w *world) verify(t *testing.T, ctx string, nKeys, nVals int) {
	t.Helper()
	check(t, ctx, w.b, w.m, nKeys, nVals)
	if w.parentB != nil {
		check(t, ctx+" [original of clone]", w.parentB, w.parentM, nKeys, nVals)
	}
}

// Every history of up to 4 operations over 3 keys x 3 values, from the zero
// value. Covers every collision pattern: same key, same value, both, neither.
func TestExhaustiveShortHistories(t *testing.T) {
	const nKeys, nVals, depth = 3, 3, 4
	n := numOps(nKeys, nVals)
	hist := make([]int, depth)
	var rec func(d int)
	rec = func(d int) {
		if d == depth {
			w := &world{b: new(maps.Bimap[int, int]), m: model{}}
			ctx := "zero"
			w.verify(t, ctx, nKeys, nVals)
			for _, op := range hist {
				w.apply(op, nKeys, nVals)
				ctx += " " + opName(op, nKeys, nVals)
				w.verify(t, ctx, nKeys, nVals)
			}
			return
		}
		for op := 0; op < n; op++ {
			hist[d] = op
			rec(d + 1)
		}
	}
	rec(0)
}

// Long random histories with fixed seeds, over several universe shapes,
// starting from the zero value, from a clone of the zero value and from a
// clone of a populated map.
func TestRandomLongHistories(t *testing.T) {
	shapes := []struct{ nKeys, nVals int }{{2, 2}, {3, 5}, {5, 3}, {4, 4}, {8, 8}, {1, 6}, {6, 1}}
	for seed := int64(1); seed <= 40; seed++ {
		rng := rand.New(rand.NewSource(seed))
		sh := shapes[int(seed)%len(shapes)]
		n := numOps(sh.nKeys, sh.nVals)
		w := &world{b: new(maps.Bimap[int, int]), m: model{}}
		switch seed % 3 {
		case 1:
			var zero maps.Bimap[int, int]
			c := zero.Clone()
			w.b = &c
		case 2:
			var src maps.Bimap[int, int]
			for i := 0; i < sh.nKeys && i < sh.nVals; i++ {
				src.Add(i, i)
				w.m.add(i, i)
			}
			c := src.Clone()
			w.b = &c
			w.parentB, w.parentM = &src, w.m.clone()
		}
		ctx := fmt.Sprintf("seed %d", seed)
		w.verify(t, ctx, sh.nKeys, sh.nVals)
		for step := 0; step < 400; step++ {
			op := rng.Intn(n)
			// Make Clear and Clone rarer so maps fill up.
			if op >= n-2 && rng.Intn(4) != 0 {
				op = rng.Intn(sh.nKeys * sh.nVals)
			}
			w.apply(op, sh.nKeys, sh.nVals)
			w.verify(t, fmt.Sprintf("seed %d step %d %s", seed, step, opName(op, sh.nKeys, sh.nVals)), sh.nKeys, sh.nVals)
		}
	}
}

// Hand-written collision cases, with string values to use another instance.
func TestCollisionPatterns(t *testing.T) {
	type pair struct {
		k int
		v string
	}
	expect := func(ctx string, b *maps.Bimap[int, string], want ...pair) {
		t.Helper()
		if b.Len() != len(want) {
			t.Fatalf("%s: Len = %d, want %d", ctx, b.Len(), len(want))
		}
		for _, p := range want {
			if v, ok := b.GetForward(p.k); !ok || v != p.v {
				t.Fatalf("%s: GetForward(%d) = (%q,%v), want %q", ctx, p.k, v, ok, p.v)
			}
			if k, ok := b.GetReverse(p.v); !ok || k != p.k {
				t.Fatalf("%s: GetReverse(%q) = (%d,%v), want %d", ctx, p.v, k, ok, p.k)
			}
		}
		n := 0
		b.Range(func(k int, v string) bool { n++; return true })
		if n != len(want) {
			t.Fatalf("%s: Range made %d calls, want %d", ctx, n, len(want))
		}
	}
	gone := func(ctx string, b *maps.Bimap[int, string], ks []int, vs []string) {
		t.Helper()
		for _, k := range ks {
			if v, ok := b.GetForward(k); ok || v != "" || b.ContainsForward(k) {
				t.Fatalf("%s: key %d still present (%q,%v)", ctx, k, v, ok)
			}
		}
		for _, v := range vs {
			if k, ok := b.GetReverse(v); ok || k != 0 || b.ContainsReverse(v) {
				t.Fatalf("%s: value %q still present (%d,%v)", ctx, v, k, ok)
			}
		}
	}

	var b maps.Bimap[int, string]
	b.Add(1, "a")
	b.Add(2, "b")
	expect("neither", &b, pair{1, "a"}, pair{2, "b"})

	b.Add(1, "c") // same key, new value: "a" must disappear
	expect("same key", &b, pair{1, "c"}, pair{2, "b"})
	gone("same key", &b, nil, []string{"a"})

	b.Add(3, "b") // same value, new key: key 2 must disappear
	expect("same value", &b, pair{1, "c"}, pair{3, "b"})
	gone("same value", &b, []int{2}, []string{"a"})

	b.Add(1, "b") // key of one pair, value of another: both evicted
	expect("both", &b, pair{1, "b"})
	gone("both", &b, []int{2, 3}, []string{"a", "c"})

	b.Add(1, "b") // identical pair again
	expect("identical", &b, pair{1, "b"})

	b.Add(4, "d")
	b.RemoveForward(1)
	expect("RemoveForward", &b, pair{4, "d"})
	gone("RemoveForward", &b, []int{1}, []string{"b"})
	b.RemoveForward(1) // absent: no-op
	b.RemoveReverse("zzz")
	expect("absent removals", &b, pair{4, "d"})

	b.Add(5, "e")
	b.RemoveReverse("d")
	expect("RemoveReverse", &b, pair{5, "e"})
	gone("RemoveReverse", &b, []int{4}, []string{"d"})

	// Zero key and zero value are ordinary members.
	b.Add(0, "")
	expect("zero members", &b, pair{5, "e"}, pair{0, ""})
	b.RemoveReverse("")
	expect("zero value removed", &b, pair{5, "e"})
	if b.ContainsForward(0) || b.ContainsReverse("") {
		t.Fatal("zero pair still present")
	}

	b.Clear()
	expect("Clear", &b)
	gone("Clear", &b, []int{0, 1, 2, 3, 4, 5}, []string{"", "a", "b", "c", "d", "e"})
	b.Add(7, "g") // usable after Clear
	expect("after Clear", &b, pair{7, "g"})
}

// The zero value and the nil pointer.
func TestZeroValueAndNil(t *testing.T) {
	var b maps.Bimap[string, int]
	if b.Len() != 0 || b.ContainsForward("x") || b.ContainsReverse(1) {
		t.Fatal("zero value not empty")
	}
	if v, ok := b.GetForward("x"); ok || v != 0 {
		t.Fatal("zero value GetForward")
	}
	if k, ok := b.GetReverse(1); ok || k != "" {
		t.Fatal("zero value GetReverse")
	}
	b.RemoveForward("x")
	b.RemoveReverse(1)
	b.Clear()
	b.Range(func(string, int) bool { t.Fatal("Range on empty"); return true })
	c := b.Clone()
	c.Add("x", 1)
	if b.Len() != 0 || c.Len() != 1 {
		t.Fatalf("clone of zero value not independent: %d %d", b.Len(), c.Len())
	}
	b.Add("y", 2)
	if c.ContainsForward("y") || c.ContainsReverse(2) || !b.ContainsForward("y") {
		t.Fatal("zero value and its clone share state")
	}

	var np *maps.Bimap[string, int]
	if np.Len() != 0 {
		t.Fatal("nil Len")
	}
	mustPanic := func(name string, f func()) {
		t.Helper()
		defer func() {
			if recover() == nil {
				t.Fatalf("%s on a nil *Bimap did not panic", name)
			}
		}()
		f()
	}
	mustPanic("Add", func() { np.Add("a", 1) })
	mustPanic("RemoveForward", func() { np.RemoveForward("a") })
	mustPanic("RemoveReverse", func() { np.RemoveReverse(1) })
	mustPanic("Range", func() { np.Range(func(string, int) bool { return true }) })
	mustPanic("ContainsForward", func() { np.ContainsForward("a") })
	mustPanic("GetForward", func() { np.GetForward("a") })
	mustPanic("ContainsReverse", func() { np.ContainsReverse(1) })
	mustPanic("GetReverse", func() { np.GetReverse(1) })
	mustPanic("Clear", func() { np.Clear() })
	mustPanic("Clone", func() { np.Clone() })
}

// Clone is independent in both directions, whatever is done afterwards.
func TestCloneIndependence(t *testing.T) {
	var orig maps.Bimap[int, int]
	for i := 0; i < 10; i++ {
		orig.Add(i, 100+i)
	}
	om := model{}
	for i := 0; i < 10; i++ {
		om[i] = 100 + i
	}
	c := orig.Clone()
	cm := om.clone()
	check(t, "fresh clone", &c, cm, 12, 112)

	c.Add(0, 105) // evicts 0->100 and 5->105 in the clone only
	cm.add(0, 105)
	c.RemoveForward(1)
	cm.removeForward(1)
	c.RemoveReverse(102)
	cm.removeReverse(102)
	check(t, "mutated clone", &c, cm, 12, 112)
	check(t, "original after clone mutated", &orig, om, 12, 112)

	orig.Add(3, 109)
	om.add(3, 109)
	orig.RemoveReverse(104)
	om.removeReverse(104)
	check(t, "mutated original", &orig, om, 12, 112)
	check(t, "clone after original mutated", &c, cm, 12, 112)

	c.Clear()
	check(t, "cleared clone", &c, model{}, 12, 112)
	check(t, "original after clone cleared", &orig, om, 12, 112)

	c2 := orig.Clone()
	orig.Clear()
	check(t, "clone after original cleared", &c2, om, 12, 112)
	check(t, "cleared original", &orig, model{}, 12, 112)
}

// A plain struct copy of a Bimap that already holds its indexes refers to the
// same indexes (unlike Clone): every observation, including Len, follows.
func TestValueCopySharesIndexes(t *testing.T) {
	var orig maps.Bimap[int, int]
	orig.Add(1, 10)
	alias := orig
	alias.Add(2, 20)
	alias.Add(3, 10) // evicts 1->10
	m := model{2: 20, 3: 10}
	check(t, "alias", &alias, m, 4, 21)
	check(t, "orig through alias", &orig, m, 4, 21)
	orig.RemoveReverse(20)
	delete(m, 2)
	check(t, "alias after orig removal", &alias, m, 4, 21)
	alias.Clear()
	check(t, "orig after alias clear", &orig, model{}, 4, 21)
}

// Range iterates the live map: pairs removed before they are reached are not
// visited, and re-adding the visited key with a fresh value adds no visit.
func TestRangeWithMutation(t *testing.T) {
	for round := 0; round < 50; round++ {
		var b maps.Bimap[int, int]
		for i := 0; i < 20; i++ {
			b.Add(i, i+1000)
		}
		calls := 0
		b.Range(func(k, v int) bool {
			calls++
			for i := 0; i < 20; i++ {
				if i != k {
					b.RemoveForward(i)
				}
			}
			return true
		})
		if calls != 1 || b.Len() != 1 {
			t.Fatalf("round %d: Range made %d calls, Len %d after removing all others", round, calls, b.Len())
		}

		var c maps.Bimap[int, int]
		for i := 0; i < 20; i++ {
			c.Add(i, i+1000)
		}
		calls = 0
		c.Range(func(k, v int) bool {
			calls++
			c.Add(k, v+5000) // same key, fresh value: replaces in place
			return true
		})
		if calls != 20 || c.Len() != 20 {
			t.Fatalf("round %d: Range made %d calls, Len %d while re-adding visited keys", round, calls, c.Len())
		}
		for i := 0; i < 20; i++ {
			if v, ok := c.GetForward(i); !ok || v != i+6000 {
				t.Fatalf("GetForward(%d) = (%d,%v)", i, v, ok)
			}
			if c.ContainsReverse(i + 1000) {
				t.Fatalf("stale reverse entry %d", i+1000)
			}
			if k, ok := c.GetReverse(i + 6000); !ok || k != i {
				t.Fatalf("GetReverse(%d) = (%d,%v)", i+6000, k, ok)
			}
		}

		// Stop after the third pair.
		calls = 0
		c.Range(func(k, v int) bool {
			calls++
			return calls < 3
		})
		if calls != 3 {
			t.Fatalf("Range stopped after %d calls, want 3", calls)
		}
	}
}

// NaN never equals itself: it can be added but never found or removed as a
// key; Len counts what the forward direction holds.
func TestNaNMembers(t *testing.T) {
	nan := math.NaN()
	var b maps.Bimap[float64, int]
	b.Add(nan, 1)
	b.Add(nan, 2)
	if b.Len() != 2 {
		t.Fatalf("Len = %d, want 2", b.Len())
	}
	if b.ContainsForward(nan) {
		t.Fatal("NaN key found")
	}
	if k, ok := b.GetReverse(1); !ok || !math.IsNaN(k) {
		t.Fatalf("GetReverse(1) = (%v,%v)", k, ok)
	}
	b.Add(nan, 1) // value 1 already maps to a NaN key, which cannot be deleted
	if b.Len() != 3 {
		t.Fatalf("Len = %d, want 3", b.Len())
	}
	b.RemoveForward(nan)
	b.RemoveReverse(1) // deletes the reverse entry only
	if b.Len() != 3 || b.ContainsReverse(1) || !b.ContainsReverse(2) {
		t.Fatalf("after removals: Len %d, has1 %v, has2 %v", b.Len(), b.ContainsReverse(1), b.ContainsReverse(2))
	}
	n := 0
	b.Range(func(k float64, v int) bool { n++; return true })
	if n != 3 {
		t.Fatalf("Range made %d calls, want 3", n)
	}
	c := b.Clone()
	if c.Len() != 3 || !c.ContainsReverse(2) || c.ContainsReverse(1) {
		t.Fatalf("clone: Len %d", c.Len())
	}

	var r maps.Bimap[int, float64]
	r.Add(1, nan)
	r.Add(1, 5) // old value NaN cannot be deleted from the reverse direction
	if r.Len() != 1 || r.ContainsReverse(nan) {
		t.Fatal("NaN value")
	}
	if v, ok := r.GetForward(1); !ok || v != 5 {
		t.Fatalf("GetForward(1) = (%v,%v)", v, ok)
	}
	if k, ok := r.GetReverse(5); !ok || k != 1 {
		t.Fatalf("GetReverse(5) = (%v,%v)", k, ok)
	}
}

// Bimap itself is not synchronised, but read-only use may be shared, and
// clones taken concurrently are private to their goroutine. Run with -race.
func TestConcurrentReadersAndPrivateClones(t *testing.T) {
	const nKeys, nVals = 6, 6
	var shared maps.Bimap[int, int]
	sm := model{}
	for i := 0; i < nKeys; i++ {
		shared.Add(i, (i+2)%nVals)
		sm.add(i, (i+2)%nVals)
	}
	var wg sync.WaitGroup
	errs := make(chan string, 64)
	for g := 0; g < 8; g++ {
		wg.Add(1)
		go func(g int) {
			defer wg.Done()
			rng := rand.New(rand.NewSource(int64(1000 + g)))
			c := shared.Clone()
			m := sm.clone()
			n := numOps(nKeys, nVals) - 1 // no Clone op here
			for step := 0; step < 300; step++ {
				op := rng.Intn(n)
				switch {
				case op < nKeys*nVals:
					c.Add(op/nVals, op%nVals)
					m.add(op/nVals, op%nVals)
				case op < nKeys*nVals+nKeys:
					c.RemoveForward(op - nKeys*nVals)
					m.removeForward(op - nKeys*nVals)
				case op < nKeys*nVals+nKeys+nVals:
					c.RemoveReverse(op - nKeys*nVals - nKeys)
					m.removeReverse(op - nKeys*nVals - nKeys)
				default:
					if rng.Intn(5) == 0 {
						c.Clear()
						m.clear()
					}
				}
				if c.Len() != len(m) {
					errs <- fmt.Sprintf("goroutine %d step %d: Len %d want %d", g, step, c.Len(), len(m))
					return
				}
				for k := 0; k < nKeys; k++ {
					v, ok := c.GetForward(k)
					wv, wok := m[k]
					if ok != wok || v != wv {
						errs <- fmt.Sprintf("goroutine %d step %d: GetForward(%d)", g, step, k)
						return
					}
					if ok {
						if back, bok := c.GetReverse(v); !bok || back != k {
							errs <- fmt.Sprintf("goroutine %d step %d: GetReverse(%d)", g, step, v)
							return
						}
					}
				}
				for v := 0; v < nVals; v++ {
					k, ok := c.GetReverse(v)
					wk, wok := m.keyOf(v)
					if ok != wok || k != wk || c.ContainsReverse(v) != wok {
						errs <- fmt.Sprintf("goroutine %d step %d: GetReverse(%d)", g, step, v)
						return
					}
				}
				// Read the shared original as well.
				for k := 0; k < nKeys; k++ {
					if v, ok := shared.GetForward(k); !ok || v != (k+2)%nVals {
						errs <- fmt.Sprintf("goroutine %d: shared GetForward(%d)", g, k)
						return
					}
					if bk, ok := shared.GetReverse((k + 2) % nVals); !ok || bk != k {
						errs <- fmt.Sprintf("goroutine %d: shared GetReverse", g)
						return
					}
				}
				cnt := 0
				shared.Range(func(int, int) bool { cnt++; return true })
				if cnt != nKeys || shared.Len() != nKeys {
					errs <- fmt.Sprintf("goroutine %d: shared Range %d Len %d", g, cnt, shared.Len())
					return
				}
			}
		}(g)
	}
	wg.Wait()
	close(errs)
	for e := range errs {
		t.Error(e)
	}
	check(t, "shared after concurrent clones", &shared, sm, nKeys, nVals)
}
