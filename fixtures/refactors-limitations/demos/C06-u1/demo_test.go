package demo

// Lock-step comparison of lists.List / lists.Ring with the standard library's
// container/list and container/ring, driven through the public API only.
//
// Both implementations are driven with the same operation sequence through
// parallel handle tables (handle i in one world corresponds to handle i in the
// other). After every operation all return values, lengths, forward and
// backward traversals and every handle's neighbours are compared.

import (
	stdlist "container/list"
	stdring "container/ring"
	"fmt"
	"math/rand"
	"strings"
	"sync"
	"testing"

	"gopkg.in/typ.v4/lists"
)

// ---------------------------------------------------------------------------
// helpers

// try runs f and reports the panic text ("" if f did not panic).
func try(f func()) (msg string) {
	defer func() {
		if r := recover(); r != nil {
			msg = fmt.Sprint(r)
			if msg == "" {
				msg = "<empty panic>"
			}
		}
	}()
	f()
	return ""
}

type tracer struct {
	t     *testing.T
	trace []string
}

func (tr *tracer) logf(format string, args ...interface{}) {
	tr.trace = append(tr.trace, fmt.Sprintf(format, args...))
}

func (tr *tracer) failf(format string, args ...interface{}) {
	tr.t.Helper()
	from := len(tr.trace) - 40
	if from < 0 {
		from = 0
	}
	tr.t.Fatalf("%s\nlast operations:\n  %s", fmt.Sprintf(format, args...),
		strings.Join(tr.trace[from:], "\n  "))
}

// ---------------------------------------------------------------------------
// list world

type listWorld struct {
	tracer
	ol   []*lists.List[int]
	sl   []*stdlist.List
	oe   []*lists.Element[int]
	se   []*stdlist.Element
	oidx map[*lists.Element[int]]int
	sidx map[*stdlist.Element]int
	next int
	wild bool // stale handles after Init and nil handles are in play
}

func newListWorld(t *testing.T, wild bool) *listWorld {
	return &listWorld{
		tracer: tracer{t: t},
		oidx:   map[*lists.Element[int]]int{},
		sidx:   map[*stdlist.Element]int{},
		next:   1,
		wild:   wild,
	}
}

func (w *listWorld) fresh() int { w.next++; return w.next }

// addList adds a new pair of lists: kind 0 = New(), 1 = new(List) zero value,
// 2 = zero value with explicit Init.
func (w *listWorld) addList(kind int) int {
	switch kind {
	case 0:
		w.ol = append(w.ol, lists.New[int]())
		w.sl = append(w.sl, stdlist.New())
	case 1:
		w.ol = append(w.ol, new(lists.List[int]))
		w.sl = append(w.sl, new(stdlist.List))
	default:
		o, s := new(lists.List[int]), new(stdlist.List)
		if o.Init() != o || s.Init() != s {
			w.failf("Init did not return its receiver")
		}
		w.ol = append(w.ol, o)
		w.sl = append(w.sl, s)
	}
	w.logf("addList kind=%d -> L%d", kind, len(w.ol)-1)
	return len(w.ol) - 1
}

func (w *listWorld) reg(o *lists.Element[int], s *stdlist.Element) int {
	w.oe = append(w.oe, o)
	w.se = append(w.se, s)
	w.oidx[o] = len(w.oe) - 1
	w.sidx[s] = len(w.se) - 1
	return len(w.oe) - 1
}

// same reports whether o and s denote the same handle. Elements unknown to
// both worlds (created by Push*List, or a sentinel reached in a damaged list)
// are registered as a new handle pair.
func (w *listWorld) same(o *lists.Element[int], s *stdlist.Element) bool {
	if o == nil || s == nil {
		return o == nil && s == nil
	}
	i, okO := w.oidx[o]
	j, okS := w.sidx[s]
	if okO != okS {
		return false
	}
	if !okO {
		w.reg(o, s)
		return true
	}
	return i == j
}

func (w *listWorld) name(o *lists.Element[int]) string {
	if o == nil {
		return "nil"
	}
	if i, ok := w.oidx[o]; ok {
		return fmt.Sprintf("E%d", i)
	}
	return "E?"
}

func sval(s *stdlist.Element) int {
	if s.Value == nil {
		return 0
	}
	return s.Value.(int)
}

func (w *listWorld) addZeroElem() int {
	v := w.fresh()
	i := w.reg(&lists.Element[int]{Value: v}, &stdlist.Element{Value: v})
	w.logf("zero element E%d value=%d", i, v)
	return i
}

// both runs the two closures, compares panics, and reports whether they
// panicked.
func (w *listWorld) both(fo, fs func()) bool {
	po, ps := try(fo), try(fs)
	if po != ps {
		w.failf("panic mismatch: lists=%q std=%q", po, ps)
	}
	if po != "" {
		if !w.wild {
			w.failf("unexpected panic in clean mode: %s", po)
		}
		w.logf("   (both panicked: %s)", po)
	}
	return po != ""
}

func (w *listWorld) pushFront(l int) {
	v := w.fresh()
	w.logf("L%d.PushFront(%d)", l, v)
	var o *lists.Element[int]
	var s *stdlist.Element
	w.both(func() { o = w.ol[l].PushFront(v) }, func() { s = w.sl[l].PushFront(v) })
	if !w.same(o, s) || o == nil {
		w.failf("PushFront result mismatch")
	}
}

func (w *listWorld) pushBack(l int) {
	v := w.fresh()
	w.logf("L%d.PushBack(%d)", l, v)
	var o *lists.Element[int]
	var s *stdlist.Element
	w.both(func() { o = w.ol[l].PushBack(v) }, func() { s = w.sl[l].PushBack(v) })
	if !w.same(o, s) || o == nil {
		w.failf("PushBack result mismatch")
	}
}

func (w *listWorld) h(i int) (*lists.Element[int], *stdlist.Element) {
	if i < 0 {
		return nil, nil
	}
	return w.oe[i], w.se[i]
}

func (w *listWorld) insert(l, mark int, before bool) {
	v := w.fresh()
	om, sm := w.h(mark)
	w.logf("L%d.Insert(before=%v)(%d, E%d)", l, before, v, mark)
	var o *lists.Element[int]
	var s *stdlist.Element
	if before {
		w.both(func() { o = w.ol[l].InsertBefore(v, om) }, func() { s = w.sl[l].InsertBefore(v, sm) })
	} else {
		w.both(func() { o = w.ol[l].InsertAfter(v, om) }, func() { s = w.sl[l].InsertAfter(v, sm) })
	}
	if !w.same(o, s) {
		w.failf("Insert result mismatch: lists=%s std nil=%v", w.name(o), s == nil)
	}
}

func (w *listWorld) remove(l, e int) {
	oe, se := w.h(e)
	w.logf("L%d.Remove(E%d)", l, e)
	var ov int
	var sv interface{}
	p := w.both(func() { ov = w.ol[l].Remove(oe) }, func() { sv = w.sl[l].Remove(se) })
	if p {
		return
	}
	svi := 0
	if sv != nil {
		svi = sv.(int)
	}
	if ov != svi {
		w.failf("Remove returned %d, std returned %v", ov, sv)
	}
}

func (w *listWorld) moveTo(l, e int, front bool) {
	oe, se := w.h(e)
	w.logf("L%d.MoveTo(front=%v)(E%d)", l, front, e)
	if front {
		w.both(func() { w.ol[l].MoveToFront(oe) }, func() { w.sl[l].MoveToFront(se) })
	} else {
		w.both(func() { w.ol[l].MoveToBack(oe) }, func() { w.sl[l].MoveToBack(se) })
	}
}

func (w *listWorld) move(l, e, mark int, before bool) {
	oe, se := w.h(e)
	om, sm := w.h(mark)
	w.logf("L%d.Move(before=%v)(E%d, E%d)", l, before, e, mark)
	if before {
		w.both(func() { w.ol[l].MoveBefore(oe, om) }, func() { w.sl[l].MoveBefore(se, sm) })
	} else {
		w.both(func() { w.ol[l].MoveAfter(oe, om) }, func() { w.sl[l].MoveAfter(se, sm) })
	}
}

func (w *listWorld) pushList(l, other int, back bool) {
	w.logf("L%d.PushList(back=%v)(L%d)", l, back, other)
	if back {
		w.both(func() { w.ol[l].PushBackList(w.ol[other]) }, func() { w.sl[l].PushBackList(w.sl[other]) })
	} else {
		w.both(func() { w.ol[l].PushFrontList(w.ol[other]) }, func() { w.sl[l].PushFrontList(w.sl[other]) })
	}
}

func (w *listWorld) init(l int) {
	w.logf("L%d.Init()", l)
	if w.ol[l].Init() != w.ol[l] || w.sl[l].Init() != w.sl[l] {
		w.failf("Init did not return its receiver")
	}
}

func (w *listWorld) setValue(e int) {
	v := w.fresh()
	w.logf("E%d.Value = %d", e, v)
	w.oe[e].Value = v
	w.se[e].Value = v
}

// check compares the complete observable state of both worlds.
func (w *listWorld) check() {
	w.t.Helper()
	for i := range w.ol {
		o, s := w.ol[i], w.sl[i]
		if o.Len() != s.Len() {
			w.failf("L%d: Len %d, std %d", i, o.Len(), s.Len())
		}
		limit := 4*len(w.oe) + 16
		// forward
		n := 0
		oe, se := o.Front(), s.Front()
		for steps := 0; steps < limit; steps++ {
			if !w.same(oe, se) {
				w.failf("L%d: forward traversal differs at position %d: %s", i, steps, w.name(oe))
			}
			if oe == nil {
				break
			}
			if oe.Value != sval(se) {
				w.failf("L%d: forward value differs at %d: %d vs %v", i, steps, oe.Value, se.Value)
			}
			n++
			oe, se = oe.Next(), se.Next()
		}
		if !w.wild && n != o.Len() {
			w.failf("L%d: Len %d but %d elements reachable forwards", i, o.Len(), n)
		}
		// backward
		n = 0
		oe, se = o.Back(), s.Back()
		for steps := 0; steps < limit; steps++ {
			if !w.same(oe, se) {
				w.failf("L%d: backward traversal differs at position %d: %s", i, steps, w.name(oe))
			}
			if oe == nil {
				break
			}
			if oe.Value != sval(se) {
				w.failf("L%d: backward value differs at %d: %d vs %v", i, steps, oe.Value, se.Value)
			}
			n++
			oe, se = oe.Prev(), se.Prev()
		}
		if !w.wild && n != o.Len() {
			w.failf("L%d: Len %d but %d elements reachable backwards", i, o.Len(), n)
		}
	}
	for k := 0; k < len(w.oe); k++ { // len may grow while registering
		o, s := w.oe[k], w.se[k]
		if !w.same(o.Next(), s.Next()) {
			w.failf("E%d: Next differs: %s", k, w.name(o.Next()))
		}
		if !w.same(o.Prev(), s.Prev()) {
			w.failf("E%d: Prev differs: %s", k, w.name(o.Prev()))
		}
		if o.Value != sval(s) {
			w.failf("E%d: Value differs: %d vs %v", k, o.Value, s.Value)
		}
	}
}

func (w *listWorld) pickElem(r *rand.Rand) int {
	if w.wild && r.Intn(40) == 0 {
		return -1 // nil handle
	}
	if len(w.oe) == 0 {
		return w.addZeroElem()
	}
	return r.Intn(len(w.oe))
}

func (w *listWorld) step(r *rand.Rand) {
	l := r.Intn(len(w.ol))
	switch op := r.Intn(30); {
	case op < 4:
		w.pushFront(l)
	case op < 8:
		w.pushBack(l)
	case op < 10:
		w.insert(l, w.pickElem(r), true)
	case op < 12:
		w.insert(l, w.pickElem(r), false)
	case op < 15:
		w.remove(l, w.pickElem(r))
	case op < 17:
		w.moveTo(l, w.pickElem(r), true)
	case op < 19:
		w.moveTo(l, w.pickElem(r), false)
	case op < 22:
		w.move(l, w.pickElem(r), w.pickElem(r), true)
	case op < 25:
		w.move(l, w.pickElem(r), w.pickElem(r), false)
	case op == 25:
		w.pushList(l, r.Intn(len(w.ol)), true)
	case op == 26:
		w.pushList(l, r.Intn(len(w.ol)), false)
	case op == 27:
		if w.wild || w.ol[l].Len() == 0 {
			if r.Intn(3) == 0 {
				w.init(l)
			}
		} else if len(w.oe) > 0 {
			w.setValue(r.Intn(len(w.oe)))
		}
	case op == 28:
		if len(w.ol) < 5 {
			w.addList(r.Intn(3))
		} else if len(w.oe) > 0 {
			w.setValue(r.Intn(len(w.oe)))
		}
	default:
		if r.Intn(4) == 0 {
			w.addZeroElem()
		} else {
			// removing keeps the lists short so that neighbours collide often
			w.remove(l, w.pickElem(r))
		}
	}
}

func runListRandom(t *testing.T, seed int64, steps int, wild bool) {
	r := rand.New(rand.NewSource(seed))
	w := newListWorld(t, wild)
	w.logf("seed %d wild=%v", seed, wild)
	w.addList(r.Intn(3))
	w.addList(1)
	w.check()
	for i := 0; i < steps; i++ {
		w.step(r)
		w.check()
	}
}

func TestListLockStepClean(t *testing.T) {
	for seed := int64(1); seed <= 60; seed++ {
		runListRandom(t, seed, 250, false)
	}
}

func TestListLockStepWild(t *testing.T) {
	for seed := int64(1001); seed <= 1060; seed++ {
		runListRandom(t, seed, 250, true)
	}
}

// buildListWorld makes a world with: L0 holding n elements (E0..En-1), L1
// holding one foreign element, L2 a never-used zero list, plus a removed
// element and a zero element.
func buildListWorld(t *testing.T, n int) *listWorld {
	w := newListWorld(t, false)
	w.addList(1)
	w.addList(0)
	w.addList(1)
	for i := 0; i < n; i++ {
		w.pushBack(0)
	}
	w.pushBack(1) // foreign
	w.pushBack(1) // to be removed
	w.remove(1, len(w.oe)-1)
	w.addZeroElem()
	w.check()
	return w
}

// TestListExhaustiveSmall applies every single operation with every choice
// of handles to small lists.
func TestListExhaustiveSmall(t *testing.T) {
	for n := 0; n <= 4; n++ {
		h := n + 3
		for l := 0; l < 3; l++ {
			for e := 0; e < h; e++ {
				for op := 0; op < 5; op++ {
					w := buildListWorld(t, n)
					switch op {
					case 0:
						w.moveTo(l, e, true)
					case 1:
						w.moveTo(l, e, false)
					case 2:
						w.insert(l, e, true)
					case 3:
						w.insert(l, e, false)
					case 4:
						w.remove(l, e)
					}
					w.check()
					// and the list must stay fully usable afterwards
					w.pushBack(l)
					w.pushFront(l)
					w.check()
				}
				for m := 0; m < h; m++ {
					for _, before := range []bool{true, false} {
						w := buildListWorld(t, n)
						w.move(l, e, m, before)
						w.check()
						w.pushBack(l)
						w.pushFront(l)
						w.check()
					}
				}
			}
			for other := 0; other < 3; other++ {
				for _, back := range []bool{true, false} {
					w := buildListWorld(t, n)
					w.pushList(l, other, back)
					w.check()
					w.pushList(l, l, back) // onto itself
					w.check()
					w.pushBack(l)
					w.pushFront(l)
					w.check()
				}
			}
		}
	}
}

// TestListZeroValue spells out the zero-value and self-push clauses without
// the lock-step machinery.
func TestListZeroValue(t *testing.T) {
	var l lists.List[string]
	if l.Len() != 0 || l.Front() != nil || l.Back() != nil {
		t.Fatal("zero list is not empty")
	}
	var other lists.List[string]
	l.PushBackList(&other)
	l.PushFrontList(&other)
	l.PushBackList(&l)
	l.PushFrontList(&l)
	if l.Len() != 0 || l.Front() != nil || l.Back() != nil {
		t.Fatal("pushing empty lists changed the list")
	}
	b := l.PushBack("b")
	a := l.PushFront("a")
	if l.Len() != 2 || l.Front() != a || l.Back() != b || a.Next() != b || b.Prev() != a || a.Prev() != nil || b.Next() != nil {
		t.Fatal("bad two element list")
	}
	l.PushBackList(&l)
	l.PushFrontList(&l)
	var got []string
	for e := l.Front(); e != nil; e = e.Next() {
		got = append(got, e.Value)
	}
	if s := strings.Join(got, ""); s != "abababab" || l.Len() != 8 {
		t.Fatalf("self push gave %q len %d", s, l.Len())
	}
	got = got[:0]
	for e := l.Back(); e != nil; e = e.Prev() {
		got = append(got, e.Value)
	}
	if s := strings.Join(got, ""); s != "babababa" {
		t.Fatalf("self push backwards gave %q", s)
	}
	var zero lists.Element[string]
	if zero.Next() != nil || zero.Prev() != nil {
		t.Fatal("zero element has neighbours")
	}
	if v := l.Remove(&zero); v != "" || l.Len() != 8 {
		t.Fatal("removing a zero element changed the list")
	}
	if l.InsertBefore("x", &zero) != nil || l.InsertAfter("x", &zero) != nil || l.Len() != 8 {
		t.Fatal("insert next to a zero element changed the list")
	}
	front, back := l.Front(), l.Back()
	// nil marks only panic when they are actually inspected
	foreign := lists.New[string]().PushBack("f")
	if msg := try(func() { l.MoveBefore(foreign, nil) }); msg != "" {
		t.Fatalf("MoveBefore(foreign, nil) panicked: %s", msg)
	}
	if msg := try(func() { l.MoveAfter(foreign, nil) }); msg != "" {
		t.Fatalf("MoveAfter(foreign, nil) panicked: %s", msg)
	}
	if msg := try(func() { l.MoveBefore(a, nil) }); msg == "" {
		t.Fatal("MoveBefore(a, nil) did not panic")
	}
	if msg := try(func() { l.MoveAfter(a, nil) }); msg == "" {
		t.Fatal("MoveAfter(a, nil) did not panic")
	}
	if msg := try(func() { l.MoveAfter(nil, a) }); msg == "" {
		t.Fatal("MoveAfter(nil, a) did not panic")
	}
	if l.Len() != 8 || l.Front() != front || l.Back() != back {
		t.Fatal("failed moves changed the list")
	}
}

// ---------------------------------------------------------------------------
// ring world

type ringWorld struct {
	tracer
	or      []*lists.Ring[int]
	sr      []*stdring.Ring
	oidx    map[*lists.Ring[int]]int
	sidx    map[*stdring.Ring]int
	touched []bool // zero rings are not inspected before an operation used them
	next    int
}

func newRingWorld(t *testing.T) *ringWorld {
	return &ringWorld{
		tracer: tracer{t: t},
		oidx:   map[*lists.Ring[int]]int{},
		sidx:   map[*stdring.Ring]int{},
	}
}

func (w *ringWorld) reg(o *lists.Ring[int], s *stdring.Ring, touched bool) int {
	w.next++
	o.Value = w.next
	s.Value = w.next
	w.or = append(w.or, o)
	w.sr = append(w.sr, s)
	w.touched = append(w.touched, touched)
	w.oidx[o] = len(w.or) - 1
	w.sidx[s] = len(w.sr) - 1
	return len(w.or) - 1
}

func (w *ringWorld) same(o *lists.Ring[int], s *stdring.Ring) bool {
	if o == nil || s == nil {
		return o == nil && s == nil
	}
	i, okO := w.oidx[o]
	j, okS := w.sidx[s]
	return okO && okS && i == j
}

func (w *ringWorld) name(o *lists.Ring[int]) string {
	if o == nil {
		return "nil"
	}
	if i, ok := w.oidx[o]; ok {
		return fmt.Sprintf("R%d", i)
	}
	return "R?"
}

func (w *ringWorld) newRing(n int) {
	o, s := lists.NewRing[int](n), stdring.New(n)
	w.logf("NewRing(%d) -> R%d..", n, len(w.or))
	if (o == nil) != (s == nil) {
		w.failf("NewRing(%d): nil mismatch", n)
	}
	if o == nil {
		return
	}
	if o.Len() != n || s.Len() != n {
		w.failf("NewRing(%d): Len %d, std %d", n, o.Len(), s.Len())
	}
	for i := 0; i < n; i++ {
		w.reg(o, s, true)
		o, s = o.Next(), s.Next()
	}
	if _, ok := w.oidx[o]; !ok {
		w.failf("NewRing(%d) is not circular", n)
	}
}

func (w *ringWorld) newZero() int {
	i := w.reg(new(lists.Ring[int]), new(stdring.Ring), false)
	w.logf("zero ring R%d", i)
	return i
}

func (w *ringWorld) h(i int) (*lists.Ring[int], *stdring.Ring) {
	if i < 0 {
		return nil, nil
	}
	return w.or[i], w.sr[i]
}

func (w *ringWorld) touch(i int) {
	if i >= 0 {
		w.touched[i] = true
	}
}

func (w *ringWorld) opNext(i int) {
	o, s := w.h(i)
	w.logf("R%d.Next()", i)
	if !w.same(o.Next(), s.Next()) {
		w.failf("Next differs")
	}
	w.touch(i)
}

func (w *ringWorld) opPrev(i int) {
	o, s := w.h(i)
	w.logf("R%d.Prev()", i)
	if !w.same(o.Prev(), s.Prev()) {
		w.failf("Prev differs")
	}
	w.touch(i)
}

func (w *ringWorld) opMove(i, n int) {
	o, s := w.h(i)
	w.logf("R%d.Move(%d)", i, n)
	ro, rs := o.Move(n), s.Move(n)
	if !w.same(ro, rs) || ro == nil {
		w.failf("Move(%d) gave %s, std R%d", n, w.name(ro), w.sidx[rs])
	}
	w.touch(i)
}

func (w *ringWorld) opLink(i, j int) {
	o, s := w.h(i)
	o2, s2 := w.h(j)
	w.logf("R%d.Link(R%d)", i, j)
	ro, rs := o.Link(o2), s.Link(s2)
	if !w.same(ro, rs) || ro == nil {
		w.failf("Link gave %s, std R%d", w.name(ro), w.sidx[rs])
	}
	w.touch(i)
	w.touch(j)
}

func (w *ringWorld) opUnlink(i, n int) {
	o, s := w.h(i)
	w.logf("R%d.Unlink(%d)", i, n)
	ro, rs := o.Unlink(n), s.Unlink(n)
	if !w.same(ro, rs) {
		w.failf("Unlink(%d) gave %s, std nil=%v", n, w.name(ro), rs == nil)
	}
	if n > 0 {
		w.touch(i)
	}
}

func (w *ringWorld) opLenDo(i int) {
	o, s := w.h(i)
	w.logf("R%d.Len()/Do()", i)
	if o.Len() != s.Len() {
		w.failf("Len %d, std %d", o.Len(), s.Len())
	}
	var ov, sv []int
	o.Do(func(v int) { ov = append(ov, v) })
	s.Do(func(v interface{}) { sv = append(sv, v.(int)) })
	if fmt.Sprint(ov) != fmt.Sprint(sv) {
		w.failf("Do visited %v, std %v", ov, sv)
	}
	if i >= 0 && len(ov) != o.Len() {
		w.failf("Do visited %d elements, Len is %d", len(ov), o.Len())
	}
	w.touch(i)
}

func (w *ringWorld) check(all bool) {
	w.t.Helper()
	for i := range w.or {
		if !all && !w.touched[i] {
			continue
		}
		w.touched[i] = true
		o, s := w.or[i], w.sr[i]
		if !w.same(o.Next(), s.Next()) {
			w.failf("R%d: Next is %s, std R%d", i, w.name(o.Next()), w.sidx[s.Next()])
		}
		if !w.same(o.Prev(), s.Prev()) {
			w.failf("R%d: Prev is %s, std R%d", i, w.name(o.Prev()), w.sidx[s.Prev()])
		}
		if o.Next().Prev() != o || o.Prev().Next() != o {
			w.failf("R%d: neighbours do not point back", i)
		}
		if o.Value != s.Value.(int) {
			w.failf("R%d: Value %d, std %v", i, o.Value, s.Value)
		}
		if o.Len() != s.Len() {
			w.failf("R%d: Len %d, std %d", i, o.Len(), s.Len())
		}
		if !w.same(o.Move(0), s.Move(0)) || o.Move(0) != o {
			w.failf("R%d: Move(0) differs", i)
		}
	}
}

func (w *ringWorld) pick(r *rand.Rand) int { return r.Intn(len(w.or)) }

func (w *ringWorld) count(r *rand.Rand) int {
	switch r.Intn(10) {
	case 0:
		return 0
	case 1:
		return r.Intn(2001) - 1000
	case 2:
		return r.Intn(7) - 3
	default:
		return r.Intn(41) - 20
	}
}

func (w *ringWorld) step(r *rand.Rand) {
	switch op := r.Intn(20); {
	case op == 0:
		if len(w.or) < 60 {
			w.newRing(r.Intn(8) - 1)
		}
	case op == 1:
		if len(w.or) < 60 {
			w.newZero()
		}
	case op == 2:
		w.opNext(w.pick(r))
	case op == 3:
		w.opPrev(w.pick(r))
	case op < 8:
		w.opMove(w.pick(r), w.count(r))
	case op < 13:
		j := w.pick(r)
		if r.Intn(15) == 0 {
			j = -1
		}
		w.opLink(w.pick(r), j)
	case op < 17:
		w.opUnlink(w.pick(r), w.count(r))
	default:
		w.opLenDo(w.pick(r))
	}
}

func TestRingLockStep(t *testing.T) {
	for seed := int64(1); seed <= 80; seed++ {
		r := rand.New(rand.NewSource(seed))
		w := newRingWorld(t)
		w.logf("seed %d", seed)
		w.newRing(1 + r.Intn(5))
		w.newZero()
		w.check(false)
		for i := 0; i < 300; i++ {
			w.step(r)
			w.check(false)
		}
		w.check(true)
	}
}

// buildRingWorld: ring A (a elements), ring B (b elements), and one zero ring.
func buildRingWorld(t *testing.T, a, b int) *ringWorld {
	w := newRingWorld(t)
	w.newRing(a)
	w.newRing(b)
	w.newZero()
	return w
}

func TestRingExhaustiveSmall(t *testing.T) {
	for a := 1; a <= 4; a++ {
		for b := 0; b <= 3; b++ {
			h := a + b + 1
			for i := 0; i < h; i++ {
				for j := -1; j < h; j++ {
					w := buildRingWorld(t, a, b)
					w.opLink(i, j)
					w.check(false)
					w.check(true)
					// a second link undoes or re-splits; must still agree
					w.opLink(i, j)
					w.check(true)
				}
				for n := -2*(a+b) - 3; n <= 2*(a+b)+3; n++ {
					w := buildRingWorld(t, a, b)
					w.opMove(i, n)
					w.check(false)
					w.check(true)

					w = buildRingWorld(t, a, b)
					w.opUnlink(i, n)
					w.check(false)
					w.check(true)
					w.opLenDo(i)
				}
				for op := 0; op < 3; op++ {
					w := buildRingWorld(t, a, b)
					switch op {
					case 0:
						w.opNext(i)
					case 1:
						w.opPrev(i)
					case 2:
						w.opLenDo(i)
					}
					w.check(false)
					w.check(true)
				}
			}
		}
	}
}

func TestRingNilAndZero(t *testing.T) {
	var nilRing *lists.Ring[int]
	if nilRing.Len() != 0 {
		t.Fatal("nil ring has a length")
	}
	nilRing.Do(func(int) { t.Fatal("Do on a nil ring called f") })
	if lists.NewRing[int](0) != nil || lists.NewRing[int](-3) != nil {
		t.Fatal("NewRing(n <= 0) is not nil")
	}
	for _, n := range []int{-1000000, -7, -1, 0, 1, 2, 7, 1000000} {
		var z lists.Ring[string] // fresh zero ring each time
		if z.Move(n) != &z {
			t.Fatalf("zero ring: Move(%d) left the ring", n)
		}
		if z.Next() != &z || z.Prev() != &z || z.Len() != 1 {
			t.Fatal("zero ring is not a one element ring")
		}
		one := lists.NewRing[string](1)
		if one.Move(n) != one || one.Next() != one || one.Prev() != one || one.Len() != 1 {
			t.Fatalf("one element ring: Move(%d) left the ring", n)
		}
		if n > 0 {
			if one.Unlink(n) != one || one.Len() != 1 {
				t.Fatalf("one element ring: Unlink(%d)", n)
			}
		} else if one.Unlink(n) != nil {
			t.Fatalf("Unlink(%d) is not nil", n)
		}
	}
	var z lists.Ring[string]
	if z.Unlink(0) != nil || z.Unlink(-1) != nil {
		t.Fatal("Unlink(n <= 0) is not nil")
	}
	if z.Link(nil) != &z || z.Len() != 1 {
		t.Fatal("zero ring: Link(nil)")
	}
	var z2 lists.Ring[string]
	if z2.Link(&z2) != &z2 || z2.Len() != 1 {
		t.Fatal("zero ring: Link(self)")
	}
	var z3, z4 lists.Ring[string]
	if z3.Link(&z4) != &z3 || z3.Len() != 2 || z3.Next() != &z4 || z4.Next() != &z3 || z3.Prev() != &z4 {
		t.Fatal("linking two zero rings")
	}
	if z3.Move(5) != &z4 || z3.Move(-4) != &z3 {
		t.Fatal("Move on a two element ring")
	}
}

// ---------------------------------------------------------------------------
// concurrent readers: the read-only operations of initialised lists and rings
// must stay free of writes (checked by -race).

func TestConcurrentReaders(t *testing.T) {
	l := lists.New[int]()
	for i := 0; i < 50; i++ {
		l.PushBack(i)
	}
	ring := lists.NewRing[int](50)
	p := ring
	for i := 0; i < 50; i++ {
		p.Value = i
		p = p.Next()
	}
	one := lists.NewRing[int](1)
	var lazy lists.Ring[int]
	lazy.Next() // initialise before sharing
	foreign := lists.New[int]().PushBack(1)

	var wg sync.WaitGroup
	for g := 0; g < 8; g++ {
		wg.Add(1)
		go func(g int) {
			defer wg.Done()
			for it := 0; it < 200; it++ {
				sum, n := 0, 0
				for e := l.Front(); e != nil; e = e.Next() {
					sum += e.Value
					n++
				}
				for e := l.Back(); e != nil; e = e.Prev() {
					sum -= e.Value
				}
				if sum != 0 || n != l.Len() {
					t.Errorf("list traversal: sum %d n %d", sum, n)
					return
				}
				// operations with foreign handles do not modify (or write to) l
				l.MoveToFront(foreign)
				l.MoveBefore(foreign, l.Front())
				l.MoveAfter(l.Front(), foreign)
				if l.InsertAfter(7, foreign) != nil || l.Remove(foreign) != 1 {
					t.Errorf("foreign handle accepted")
					return
				}
				if ring.Len() != 50 || ring.Move(g+it).Value != (g+it)%50 || ring.Move(-1).Value != 49 {
					t.Errorf("ring readers disagree")
					return
				}
				cnt := 0
				ring.Do(func(int) { cnt++ })
				if cnt != 50 {
					t.Errorf("Do visited %d", cnt)
					return
				}
				if one.Move(it-100) != one || one.Len() != 1 || one.Link(nil) != one {
					t.Errorf("one element ring")
					return
				}
				if lazy.Move(it-100) != &lazy || lazy.Prev() != &lazy || lazy.Len() != 1 {
					t.Errorf("lazily initialised ring")
					return
				}
			}
		}(g)
	}
	wg.Wait()
}
