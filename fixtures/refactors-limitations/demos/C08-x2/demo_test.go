package demo

import (
	"fmt"
	"math/rand"
	"runtime"
	"strings"
	"sync"
	"testing"

	"gopkg.in/typ.v4/arrays"
)

// ---------------------------------------------------------------------------
// Model: width x height independent cells, cells[y][x].

type model struct {
	w, h  int
	cells [][]int
}

func newModel(w, h int) *model {
	m := &model{w: w, h: h, cells: make([][]int, h)}
	for y := range m.cells {
		m.cells[y] = make([]int, w)
	}
	return m
}

func (m *model) clone() *model {
	c := newModel(m.w, m.h)
	for y := range m.cells {
		copy(c.cells[y], m.cells[y])
	}
	return c
}

func (m *model) inX(x int) bool { return x >= 0 && x < m.w }
func (m *model) inY(y int) bool { return y >= 0 && y < m.h }

func (m *model) fill(x1, y1, x2, y2, v int) {
	if x2 < x1 {
		x1, x2 = x2, x1
	}
	if y2 < y1 {
		y1, y2 = y2, y1
	}
	for y := y1; y <= y2; y++ {
		for x := x1; x <= x2; x++ {
			m.cells[y][x] = v
		}
	}
}

func (m *model) String() string {
	var sb strings.Builder
	sb.WriteString("[")
	for y := 0; y < m.h; y++ {
		if y > 0 {
			sb.WriteString(" ")
		}
		sb.WriteString("[")
		for x := 0; x < m.w; x++ {
			if x > 0 {
				sb.WriteString(" ")
			}
			sb.WriteString(fmt.Sprint(m.cells[y][x]))
		}
		sb.WriteString("]")
	}
	sb.WriteString("]")
	return sb.String()
}

// check compares the whole grid (through Get, Row, String, Width, Height)
// with the model.
func check(t *testing.T, ctx string, a arrays.Array2D[int], m *model) {
	t.Helper()
	if a.Width() != m.w || a.Height() != m.h {
		t.Fatalf("%s: shape %dx%d, want %dx%d", ctx, a.Width(), a.Height(), m.w, m.h)
	}
	for y := 0; y < m.h; y++ {
		row := a.Row(y)
		if len(row) != m.w {
			t.Fatalf("%s: len(Row(%d)) = %d, want %d", ctx, y, len(row), m.w)
		}
		for x := 0; x < m.w; x++ {
			if got := a.Get(x, y); got != m.cells[y][x] {
				t.Fatalf("%s: Get(%d,%d) = %d, want %d (shape %dx%d)", ctx, x, y, got, m.cells[y][x], m.w, m.h)
			}
			if row[x] != m.cells[y][x] {
				t.Fatalf("%s: Row(%d)[%d] = %d, want %d (shape %dx%d)", ctx, y, x, row[x], m.cells[y][x], m.w, m.h)
			}
		}
	}
	if got, want := a.String(), m.String(); got != want {
		t.Fatalf("%s: String() = %q, want %q", ctx, got, want)
	}
}

// catch runs f and returns the recovered panic value (nil if none).
func catch(f func()) (val interface{}) {
	defer func() { val = recover() }()
	f()
	return nil
}

func wantPanicMsg(t *testing.T, ctx, want string, f func()) {
	t.Helper()
	val := catch(f)
	if val == nil {
		t.Fatalf("%s: no panic, want %q", ctx, want)
	}
	s, ok := val.(string)
	if !ok {
		t.Fatalf("%s: panic value %T(%v), want string %q", ctx, val, val, want)
	}
	if s != want {
		t.Fatalf("%s: panic %q, want %q", ctx, s, want)
	}
}

func msgW(name string, v, w int) string {
	return fmt.Sprintf("array2d: %s index out of range [%d] with width %d", name, v, w)
}

func msgH(name string, v, h int) string {
	return fmt.Sprintf("array2d: %s index out of range [%d] with height %d", name, v, h)
}

// uniq gives every cell of every shape a distinct non-zero value.
func uniq(x, y int) int { return 1000*(y+1) + x + 1 }

func fillUniq(a arrays.Array2D[int], m *model) {
	for y := 0; y < m.h; y++ {
		for x := 0; x < m.w; x++ {
			a.Set(x, y, uniq(x, y))
			m.cells[y][x] = uniq(x, y)
		}
	}
}

const maxDim = 6

func forShapes(f func(w, h int)) {
	for w := 0; w <= maxDim; w++ {
		for h := 0; h <= maxDim; h++ {
			f(w, h)
		}
	}
}

// ---------------------------------------------------------------------------

func TestSetChangesExactlyOneCell(t *testing.T) {
	forShapes(func(w, h int) {
		a := arrays.New2D[int](w, h)
		m := newModel(w, h)
		check(t, "fresh", a, m)
		// ascending
		for y := 0; y < h; y++ {
			for x := 0; x < w; x++ {
				a.Set(x, y, uniq(x, y))
				m.cells[y][x] = uniq(x, y)
				check(t, fmt.Sprintf("after Set(%d,%d)", x, y), a, m)
			}
		}
		// descending, column-major, new values, overwriting
		for x := w - 1; x >= 0; x-- {
			for y := h - 1; y >= 0; y-- {
				a.Set(x, y, -uniq(x, y))
				m.cells[y][x] = -uniq(x, y)
				check(t, fmt.Sprintf("after 2nd Set(%d,%d)", x, y), a, m)
				if got := a.Get(x, y); got != -uniq(x, y) {
					t.Fatalf("Get after Set: %d", got)
				}
			}
		}
		// zero value stored again
		if w > 0 && h > 0 {
			a.Set(w-1, h-1, 0)
			m.cells[h-1][w-1] = 0
			check(t, "zero stored", a, m)
		}
	})
}

func TestValueCopySharesCells(t *testing.T) {
	a := arrays.New2D[int](3, 2)
	b := a
	b.Set(2, 0, 7)
	if a.Get(2, 0) != 7 || a.Get(0, 1) != 0 {
		t.Fatalf("copy of the struct must share cells: %v", a)
	}
}

func TestGetSetOutOfBounds(t *testing.T) {
	forShapes(func(w, h int) {
		a := arrays.New2D[int](w, h)
		m := newModel(w, h)
		fillUniq(a, m)
		for x := -2; x <= w+2; x++ {
			for y := -2; y <= h+2; y++ {
				if m.inX(x) && m.inY(y) {
					continue
				}
				// x is checked before y
				want := msgW("x", x, w)
				if m.inX(x) {
					want = msgH("y", y, h)
				}
				ctx := fmt.Sprintf("%dx%d (%d,%d)", w, h, x, y)
				wantPanicMsg(t, "Get "+ctx, want, func() { a.Get(x, y) })
				wantPanicMsg(t, "Set "+ctx, want, func() { a.Set(x, y, -1) })
				check(t, "after oob "+ctx, a, m)
			}
		}
		// far away coordinates
		for _, c := range [][2]int{{w * h, 0}, {0, w * h}, {-w, -h}, {1 << 40, 0}, {0, 1 << 40}, {-1 << 40, 0}, {w, h}, {h, w}} {
			x, y := c[0], c[1]
			if m.inX(x) && m.inY(y) {
				continue
			}
			if catch(func() { a.Get(x, y) }) == nil {
				t.Fatalf("Get(%d,%d) on %dx%d did not panic", x, y, w, h)
			}
			if catch(func() { a.Set(x, y, -1) }) == nil {
				t.Fatalf("Set(%d,%d) on %dx%d did not panic", x, y, w, h)
			}
			check(t, "after far oob", a, m)
		}
	})
}

func TestRowIsLiveWindow(t *testing.T) {
	forShapes(func(w, h int) {
		a := arrays.New2D[int](w, h)
		m := newModel(w, h)
		fillUniq(a, m)
		for y := 0; y < h; y++ {
			row := a.Row(y)
			if len(row) != w {
				t.Fatalf("len(Row(%d)) = %d want %d", y, len(row), w)
			}
			if want := w*h - y*w; cap(row) != want {
				t.Fatalf("%dx%d: cap(Row(%d)) = %d want %d", w, h, y, cap(row), want)
			}
			// write through the row, see it through Get
			for x := range row {
				row[x] = 5*uniq(x, y) + 1
				m.cells[y][x] = 5*uniq(x, y) + 1
				check(t, "row write", a, m)
			}
			// write through Set, see it through the row obtained earlier
			for x := 0; x < w; x++ {
				a.Set(x, y, 7*uniq(x, y))
				m.cells[y][x] = 7 * uniq(x, y)
				if row[x] != 7*uniq(x, y) {
					t.Fatalf("row obtained earlier is not live at (%d,%d)", x, y)
				}
			}
			check(t, "set after row", a, m)
		}
		for _, y := range []int{-2, -1, h, h + 1, w, w * h, 1 << 40} {
			if m.inY(y) {
				continue
			}
			wantPanicMsg(t, fmt.Sprintf("%dx%d Row(%d)", w, h, y), msgH("y", y, h), func() { a.Row(y) })
			check(t, "after Row oob", a, m)
		}
	})
}

// slicePanic returns what s[lo:hi] of a slice of length n panics with.
func slicePanic(n, lo, hi int) interface{} {
	return catch(func() {
		s := make([]int, n)
		_ = s[lo:hi]
	})
}

func TestRowSpan(t *testing.T) {
	forShapes(func(w, h int) {
		a := arrays.New2D[int](w, h)
		m := newModel(w, h)
		fillUniq(a, m)
		next := 100000
		for y := -1; y <= h; y++ {
			for x1 := -1; x1 <= w; x1++ {
				for x2 := -1; x2 <= w; x2++ {
					ctx := fmt.Sprintf("%dx%d RowSpan(%d,%d,%d)", w, h, x1, x2, y)
					// order of checks: x1, y, x2
					switch {
					case !m.inX(x1):
						wantPanicMsg(t, ctx, msgW("x1", x1, w), func() { a.RowSpan(x1, x2, y) })
					case !m.inY(y):
						wantPanicMsg(t, ctx, msgH("y", y, h), func() { a.RowSpan(x1, x2, y) })
					case !m.inX(x2):
						wantPanicMsg(t, ctx, msgW("x2", x2, w), func() { a.RowSpan(x1, x2, y) })
					case x1 > x2+1:
						// inverted span: the slice expression itself panics
						val := catch(func() { a.RowSpan(x1, x2, y) })
						re, ok := val.(runtime.Error)
						if !ok {
							t.Fatalf("%s: panic value %T(%v), want runtime.Error", ctx, val, val)
						}
						wantVal := slicePanic(w*h, x1+y*w, 1+x2+y*w)
						if we, ok := wantVal.(runtime.Error); !ok || we.Error() != re.Error() {
							t.Fatalf("%s: panic %q, want %q", ctx, re.Error(), wantVal)
						}
					default:
						span := a.RowSpan(x1, x2, y)
						if len(span) != x2-x1+1 {
							t.Fatalf("%s: len %d want %d", ctx, len(span), x2-x1+1)
						}
						if want := w*h - (x1 + y*w); cap(span) != want {
							t.Fatalf("%s: cap %d want %d", ctx, cap(span), want)
						}
						for i := range span {
							if span[i] != m.cells[y][x1+i] {
								t.Fatalf("%s: span[%d] = %d want %d", ctx, i, span[i], m.cells[y][x1+i])
							}
						}
						for i := range span {
							next++
							span[i] = next
							m.cells[y][x1+i] = next
						}
						check(t, ctx+" write through", a, m)
						for i := range span {
							next++
							a.Set(x1+i, y, next)
							m.cells[y][x1+i] = next
							if span[i] != next {
								t.Fatalf("%s: span not live at %d", ctx, i)
							}
						}
					}
					check(t, ctx, a, m)
				}
			}
		}
	})
}

func TestFillExhaustive(t *testing.T) {
	for w := 0; w <= 4; w++ {
		for h := 0; h <= 4; h++ {
			a := arrays.New2D[int](w, h)
			m := newModel(w, h)
			fillUniq(a, m)
			v := 50000
			for x1 := -1; x1 <= w; x1++ {
				for y1 := -1; y1 <= h; y1++ {
					for x2 := -1; x2 <= w; x2++ {
						for y2 := -1; y2 <= h; y2++ {
							v++
							ctx := fmt.Sprintf("%dx%d Fill(%d,%d,%d,%d)", w, h, x1, y1, x2, y2)
							// order of checks: x1, y1, x2, y2
							switch {
							case !m.inX(x1):
								wantPanicMsg(t, ctx, msgW("x1", x1, w), func() { a.Fill(x1, y1, x2, y2, v) })
							case !m.inY(y1):
								wantPanicMsg(t, ctx, msgH("y1", y1, h), func() { a.Fill(x1, y1, x2, y2, v) })
							case !m.inX(x2):
								wantPanicMsg(t, ctx, msgW("x2", x2, w), func() { a.Fill(x1, y1, x2, y2, v) })
							case !m.inY(y2):
								wantPanicMsg(t, ctx, msgH("y2", y2, h), func() { a.Fill(x1, y1, x2, y2, v) })
							default:
								a.Fill(x1, y1, x2, y2, v)
								m.fill(x1, y1, x2, y2, v)
							}
							check(t, ctx, a, m)
						}
					}
				}
			}
		}
	}
}

func TestFillRandomLarger(t *testing.T) {
	rng := rand.New(rand.NewSource(8))
	for iter := 0; iter < 300; iter++ {
		w, h := 1+rng.Intn(12), 1+rng.Intn(12)
		a := arrays.New2D[int](w, h)
		m := newModel(w, h)
		fillUniq(a, m)
		for k := 0; k < 8; k++ {
			x1, x2, y1, y2 := rng.Intn(w), rng.Intn(w), rng.Intn(h), rng.Intn(h)
			v := 1 + rng.Intn(1000)
			a.Fill(x1, y1, x2, y2, v)
			m.fill(x1, y1, x2, y2, v)
			check(t, fmt.Sprintf("%dx%d Fill(%d,%d,%d,%d)", w, h, x1, y1, x2, y2), a, m)
		}
		// whole array, from every pair of opposite corners
		for k, c := range [][4]int{{0, 0, w - 1, h - 1}, {w - 1, h - 1, 0, 0}, {0, h - 1, w - 1, 0}, {w - 1, 0, 0, h - 1}} {
			a.Fill(c[0], c[1], c[2], c[3], -k-1)
			m.fill(c[0], c[1], c[2], c[3], -k-1)
			check(t, "whole fill", a, m)
		}
	}
}

func TestFillFarOutOfBounds(t *testing.T) {
	a := arrays.New2D[int](3, 2)
	m := newModel(3, 2)
	fillUniq(a, m)
	for _, c := range [][4]int{{3, 0, 0, 0}, {0, 2, 0, 0}, {0, 0, 3, 0}, {0, 0, 0, 2}, {0, 0, 2, 2}, {0, 0, 1 << 40, 0}, {-1 << 40, 0, 0, 0}, {2, 1, 1, 3}} {
		if catch(func() { a.Fill(c[0], c[1], c[2], c[3], 9) }) == nil {
			t.Fatalf("Fill%v on 3x2 did not panic", c)
		}
		check(t, "after oob Fill", a, m)
	}
}

func TestCloneIsIndependent(t *testing.T) {
	forShapes(func(w, h int) {
		a := arrays.New2D[int](w, h)
		m := newModel(w, h)
		fillUniq(a, m)
		b := a.Clone()
		mb := m.clone()
		check(t, "clone", b, mb)
		for y := 0; y < h; y++ {
			for x := 0; x < w; x++ {
				a.Set(x, y, -1)
				m.cells[y][x] = -1
				check(t, "orig after orig.Set", a, m)
				check(t, "clone after orig.Set", b, mb)
				b.Set(x, y, -2)
				mb.cells[y][x] = -2
				check(t, "orig after clone.Set", a, m)
				check(t, "clone after clone.Set", b, mb)
			}
		}
		if w > 0 && h > 0 {
			b.Fill(0, 0, w-1, h-1, 3)
			mb.fill(0, 0, w-1, h-1, 3)
			row := a.Row(h - 1)
			row[w-1] = 4
			m.cells[h-1][w-1] = 4
			check(t, "orig after clone.Fill", a, m)
			check(t, "clone after orig row write", b, mb)
		}
		c := b.Clone().Clone()
		check(t, "clone of clone", c, mb)
	})
	var zero arrays.Array2D[int]
	z := zero.Clone()
	check(t, "clone of zero value", z, newModel(0, 0))
}

func TestNew2DFilled(t *testing.T) {
	forShapes(func(w, h int) {
		for _, v := range []int{0, 7, -3} {
			a := arrays.New2DFilled(w, h, v)
			m := newModel(w, h)
			for y := range m.cells {
				for x := range m.cells[y] {
					m.cells[y][x] = v
				}
			}
			check(t, "filled", a, m)
			if w > 0 && h > 0 {
				a.Set(w-1, 0, 99)
				m.cells[0][w-1] = 99
				a.Set(0, h-1, 98)
				m.cells[h-1][0] = 98
				check(t, "filled then set", a, m)
			}
		}
	})
	s := arrays.New2DFilled(2, 3, "ab")
	if got := s.String(); got != "[[ab ab] [ab ab] [ab ab]]" {
		t.Fatalf("string filled: %q", got)
	}
}

type jaggedRows [][]int
type namedRow []int
type jaggedNamed []namedRow

func TestNew2DFromJagged(t *testing.T) {
	rng := rand.New(rand.NewSource(808))
	forShapes(func(w, h int) {
		for iter := 0; iter < 40; iter++ {
			rows := rng.Intn(h + 4)
			if iter == 0 {
				rows = 0
			}
			jag := make(jaggedRows, rows)
			keep := make([][]int, rows)
			m := newModel(w, h)
			for y := range jag {
				n := rng.Intn(w + 4)
				if rng.Intn(5) == 0 {
					jag[y] = nil
				} else {
					jag[y] = make([]int, n)
				}
				for x := range jag[y] {
					jag[y][x] = 1 + rng.Intn(1000)
					if x < w && y < h {
						m.cells[y][x] = jag[y][x]
					}
				}
				keep[y] = append([]int(nil), jag[y]...)
			}
			var a arrays.Array2D[int]
			if iter == 1 {
				a = arrays.New2DFromJagged(w, h, jaggedRows(nil))
				m = newModel(w, h)
			} else {
				a = arrays.New2DFromJagged(w, h, jag)
			}
			ctx := fmt.Sprintf("%dx%d from jagged %v", w, h, jag)
			check(t, ctx, a, m)
			// the input is untouched
			for y := range jag {
				if fmt.Sprint(jag[y]) != fmt.Sprint(keep[y]) {
					t.Fatalf("%s: jagged input modified", ctx)
				}
			}
			// and the array does not alias it
			for y := range jag {
				for x := range jag[y] {
					jag[y][x] = -5
				}
			}
			check(t, ctx+" after writing to input", a, m)
			if w > 0 && h > 0 {
				a.Set(0, 0, -6)
				if len(jag) > 0 && len(jag[0]) > 0 && jag[0][0] != -5 {
					t.Fatalf("%s: array aliases input", ctx)
				}
			}
		}
	})
	// named slice types, exact picture
	a := arrays.New2DFromJagged(3, 2, jaggedNamed{{1, 2, 3, 4}, {5}, {6, 7, 8}, {9}})
	if got := a.String(); got != "[[1 2 3] [5 0 0]]" {
		t.Fatalf("named jagged: %q", got)
	}
	b := arrays.New2DFromJagged(2, 3, [][]string{{"a"}, nil})
	if got := fmt.Sprintf("%q", []string{b.Get(0, 0), b.Get(1, 0), b.Get(0, 1), b.Get(1, 2)}); got != `["a" "" "" ""]` {
		t.Fatalf("string jagged: %s", got)
	}
	c := arrays.New2DFromJagged(2, 0, [][]int{{1, 2}, {3, 4}})
	check(t, "2x0 from jagged", c, newModel(2, 0))
	d := arrays.New2DFromJagged(0, 2, [][]int{{1, 2}, {3, 4}, {5}})
	check(t, "0x2 from jagged", d, newModel(0, 2))
}

func TestString(t *testing.T) {
	cases := []struct {
		w, h int
		want string
	}{
		{0, 0, "[]"},
		{3, 0, "[]"},
		{0, 3, "[[] [] []]"},
		{1, 1, "[[1001]]"},
		{3, 1, "[[1001 1002 1003]]"},
		{1, 3, "[[1001] [2001] [3001]]"},
		{3, 2, "[[1001 1002 1003] [2001 2002 2003]]"},
		{2, 3, "[[1001 1002] [2001 2002] [3001 3002]]"},
	}
	for _, c := range cases {
		a := arrays.New2D[int](c.w, c.h)
		m := newModel(c.w, c.h)
		fillUniq(a, m)
		if got := a.String(); got != c.want {
			t.Fatalf("%dx%d: String() = %q, want %q", c.w, c.h, got, c.want)
		}
		if got := fmt.Sprint(a); got != c.want {
			t.Fatalf("%dx%d: Sprint = %q, want %q", c.w, c.h, got, c.want)
		}
	}
	var zero arrays.Array2D[string]
	if zero.String() != "[]" || zero.Width() != 0 || zero.Height() != 0 {
		t.Fatalf("zero value: %q", zero.String())
	}
	if catch(func() { zero.Get(0, 0) }) == nil {
		t.Fatal("zero value Get did not panic")
	}
	type pt struct{ X, Y int }
	p := arrays.New2D[pt](2, 2)
	p.Set(1, 0, pt{1, 0})
	p.Set(0, 1, pt{0, 1})
	if got := p.String(); got != "[[{0 0} {1 0}] [{0 1} {0 0}]]" {
		t.Fatalf("struct cells: %q", got)
	}
}

func TestOddConstructorArguments(t *testing.T) {
	// one negative dimension: the allocation panics
	for _, c := range [][2]int{{-1, 2}, {2, -1}} {
		if catch(func() { arrays.New2D[int](c[0], c[1]) }) == nil {
			t.Fatalf("New2D(%d,%d) did not panic", c[0], c[1])
		}
		if catch(func() { arrays.New2DFilled(c[0], c[1], 1) }) == nil {
			t.Fatalf("New2DFilled(%d,%d) did not panic", c[0], c[1])
		}
		if catch(func() { arrays.New2DFromJagged(c[0], c[1], [][]int{{1}}) }) == nil {
			t.Fatalf("New2DFromJagged(%d,%d) did not panic", c[0], c[1])
		}
	}
	// both negative: an array with no addressable cell
	for _, a := range []arrays.Array2D[int]{
		arrays.New2D[int](-2, -3),
		arrays.New2DFilled(-2, -3, 1),
		arrays.New2DFromJagged(-2, -3, [][]int{{1, 2}, {3}}),
		arrays.New2D[int](-2, -3).Clone(),
	} {
		if a.Width() != -2 || a.Height() != -3 {
			t.Fatalf("shape %dx%d", a.Width(), a.Height())
		}
		if got := a.String(); got != "[]" {
			t.Fatalf("String() = %q", got)
		}
		for _, c := range [][2]int{{0, 0}, {-1, -1}, {-2, -3}, {1, 1}, {-3, -4}} {
			x, y := c[0], c[1]
			wantPanicMsg(t, "neg Get", msgW("x", x, -2), func() { a.Get(x, y) })
			wantPanicMsg(t, "neg Set", msgW("x", x, -2), func() { a.Set(x, y, 1) })
			wantPanicMsg(t, "neg Row", msgH("y", y, -3), func() { a.Row(y) })
			wantPanicMsg(t, "neg RowSpan", msgW("x1", x, -2), func() { a.RowSpan(x, x, y) })
			wantPanicMsg(t, "neg Fill", msgW("x1", x, -2), func() { a.Fill(x, y, x, y, 1) })
		}
	}
}

// TestRandomOps drives an array and the model with the same random operations
// (in and out of bounds) and compares the whole grid after each of them.
func TestRandomOps(t *testing.T) {
	for seed := int64(1); seed <= 60; seed++ {
		rng := rand.New(rand.NewSource(seed))
		w, h := rng.Intn(8), rng.Intn(8)
		if seed%7 == 0 {
			w, h = 1+rng.Intn(3), 5+rng.Intn(20) // tall
		}
		if seed%11 == 0 {
			w, h = 5+rng.Intn(20), 1+rng.Intn(3) // wide
		}
		a := arrays.New2D[int](w, h)
		m := newModel(w, h)
		coordX := func() int { return rng.Intn(w+4) - 2 }
		coordY := func() int { return rng.Intn(h+4) - 2 }
		for step := 0; step < 400; step++ {
			v := 1 + rng.Intn(1 << 20)
			ctx := fmt.Sprintf("seed %d step %d (%dx%d)", seed, step, w, h)
			switch op := rng.Intn(8); op {
			case 0, 1: // Set
				x, y := coordX(), coordY()
				val := catch(func() { a.Set(x, y, v) })
				if in := m.inX(x) && m.inY(y); in != (val == nil) {
					t.Fatalf("%s: Set(%d,%d) panic=%v", ctx, x, y, val)
				} else if in {
					m.cells[y][x] = v
				}
			case 2: // Get
				x, y := coordX(), coordY()
				var got int
				val := catch(func() { got = a.Get(x, y) })
				if in := m.inX(x) && m.inY(y); in != (val == nil) {
					t.Fatalf("%s: Get(%d,%d) panic=%v", ctx, x, y, val)
				} else if in && got != m.cells[y][x] {
					t.Fatalf("%s: Get(%d,%d)=%d want %d", ctx, x, y, got, m.cells[y][x])
				}
			case 3: // Fill
				x1, y1, x2, y2 := coordX(), coordY(), coordX(), coordY()
				val := catch(func() { a.Fill(x1, y1, x2, y2, v) })
				in := m.inX(x1) && m.inX(x2) && m.inY(y1) && m.inY(y2)
				if in != (val == nil) {
					t.Fatalf("%s: Fill(%d,%d,%d,%d) panic=%v", ctx, x1, y1, x2, y2, val)
				} else if in {
					m.fill(x1, y1, x2, y2, v)
				}
			case 4: // Row, write some of it
				y := coordY()
				var row []int
				val := catch(func() { row = a.Row(y) })
				if m.inY(y) != (val == nil) {
					t.Fatalf("%s: Row(%d) panic=%v", ctx, y, val)
				} else if val == nil {
					if len(row) != w {
						t.Fatalf("%s: len(Row)=%d", ctx, len(row))
					}
					for x := range row {
						if rng.Intn(2) == 0 {
							row[x] = v + x
							m.cells[y][x] = v + x
						}
					}
				}
			case 5: // RowSpan with x1 <= x2, write all of it
				x1, x2, y := coordX(), coordX(), coordY()
				if x2 < x1 {
					x1, x2 = x2, x1
				}
				var span []int
				val := catch(func() { span = a.RowSpan(x1, x2, y) })
				in := m.inX(x1) && m.inX(x2) && m.inY(y)
				if in != (val == nil) {
					t.Fatalf("%s: RowSpan(%d,%d,%d) panic=%v", ctx, x1, x2, y, val)
				} else if in {
					if len(span) != x2-x1+1 {
						t.Fatalf("%s: len(RowSpan(%d,%d,%d))=%d", ctx, x1, x2, y, len(span))
					}
					for i := range span {
						if span[i] != m.cells[y][x1+i] {
							t.Fatalf("%s: RowSpan(%d,%d,%d)[%d]=%d", ctx, x1, x2, y, i, span[i])
						}
						span[i] = v - i
						m.cells[y][x1+i] = v - i
					}
				}
			case 6: // continue on a clone; the old one must stay as it was
				old, oldM := a, m.clone()
				a = a.Clone()
				if w > 0 && h > 0 {
					x, y := rng.Intn(w), rng.Intn(h)
					a.Set(x, y, v)
					m.cells[y][x] = v
				}
				check(t, ctx+" old after clone", old, oldM)
			case 7: // rebuild through the jagged constructor from the rows
				jag := make([][]int, h)
				for y := range jag {
					jag[y] = append([]int(nil), a.Row(y)...)
				}
				a = arrays.New2DFromJagged(w, h, jag)
			}
			check(t, ctx, a, m)
		}
	}
}

// Distinct cells are distinct memory: goroutines that each own a set of cells
// do not interfere (and the race detector stays quiet).
func TestConcurrentDisjointCells(t *testing.T) {
	for _, shape := range [][2]int{{5, 3}, {3, 5}, {1, 8}, {8, 1}, {4, 4}} {
		w, h := shape[0], shape[1]
		a := arrays.New2D[int](w, h)
		m := newModel(w, h)
		var wg sync.WaitGroup
		for y := 0; y < h; y++ {
			for x := 0; x < w; x++ {
				m.cells[y][x] = uniq(x, y) + 199
				wg.Add(1)
				go func(x, y int) {
					defer wg.Done()
					for i := 0; i < 200; i++ {
						a.Set(x, y, uniq(x, y)+i)
						if got := a.Get(x, y); got != uniq(x, y)+i {
							t.Errorf("(%d,%d): got %d want %d", x, y, got, uniq(x, y)+i)
							return
						}
					}
				}(x, y)
			}
		}
		wg.Wait()
		check(t, "after concurrent cells", a, m)

		// one goroutine per row: Row, RowSpan and Fill inside the own row
		for y := 0; y < h; y++ {
			for x := 0; x < w; x++ {
				m.cells[y][x] = -(y + 1)
			}
			wg.Add(1)
			go func(y int) {
				defer wg.Done()
				for i := 0; i < 100; i++ {
					row := a.Row(y)
					for x := range row {
						row[x] = i
					}
					span := a.RowSpan(0, w-1, y)
					for x := range span {
						if span[x] != i {
							t.Errorf("row %d: span[%d]=%d want %d", y, x, span[x], i)
							return
						}
					}
					a.Fill(w-1, y, 0, y, -(y + 1))
				}
			}(y)
		}
		wg.Wait()
		check(t, "after concurrent rows", a, m)

		// one goroutine per column: Fill of a column band, all rows
		for x := 0; x < w; x++ {
			for y := 0; y < h; y++ {
				m.cells[y][x] = 10 * (x + 1)
			}
			wg.Add(1)
			go func(x int) {
				defer wg.Done()
				for i := 0; i < 100; i++ {
					a.Fill(x, h-1, x, 0, 10*(x+1))
					for y := 0; y < h; y++ {
						if got := a.Get(x, y); got != 10*(x+1) {
							t.Errorf("col %d: Get(%d,%d)=%d", x, x, y, got)
							return
						}
					}
				}
			}(x)
		}
		wg.Wait()
		check(t, "after concurrent columns", a, m)

		// concurrent readers: String, Clone, Get, Row reads
		for g := 0; g < 4; g++ {
			wg.Add(1)
			go func() {
				defer wg.Done()
				for i := 0; i < 50; i++ {
					if a.String() != m.String() {
						t.Errorf("concurrent String mismatch")
						return
					}
					c := a.Clone()
					c.Fill(0, 0, w-1, h-1, 1) // private to this goroutine
					_ = a.Row(h - 1)[w-1]
				}
			}()
		}
		wg.Wait()
		check(t, "after concurrent readers", a, m)
	}
}
