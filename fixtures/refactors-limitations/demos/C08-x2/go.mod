module demo

go 1.18

require gopkg.in/typ.v4 v4.0.0

replace gopkg.in/typ.v4 => /tmp/wt20/C08
