package demo_test

import (
	"fmt"
	"runtime"
	"strings"
	"testing"

	"gopkg.in/typ.v4/arrays"
)

// ---------------------------------------------------------------------------
// Reference model: width x height independent cells.

type model struct {
	w, h  int
	cells map[[2]int]int
}

func newModel(w, h int) *model {
	m := &model{w: w, h: h, cells: map[[2]int]int{}}
	for y := 0; y < h; y++ {
		for x := 0; x < w; x++ {
			m.cells[[2]int{x, y}] = 0
		}
	}
	return m
}

func (m *model) clone() *model {
	c := newModel(m.w, m.h)
	for k, v := range m.cells {
		c.cells[k] = v
	}
	return c
}

func (m *model) String() string {
	var sb strings.Builder
	sb.WriteString("[")
	for y := 0; y < m.h; y++ {
		if y > 0 {
			sb.WriteString(" ")
		}
		var parts []string
		for x := 0; x < m.w; x++ {
			parts = append(parts, fmt.Sprint(m.cells[[2]int{x, y}]))
		}
		sb.WriteString("[" + strings.Join(parts, " ") + "]")
	}
	sb.WriteString("]")
	return sb.String()
}

func xMsg(name string, v, w int) string {
	return fmt.Sprintf("array2d: %s index out of range [%d] with width %d", name, v, w)
}

func yMsg(name string, v, h int) string {
	return fmt.Sprintf("array2d: %s index out of range [%d] with height %d", name, v, h)
}

// catch runs f and returns the recovered panic value (nil if no panic).
func catch(f func()) (p any) {
	defer func() { p = recover() }()
	f()
	return nil
}

// describe makes panic values comparable: strings stay strings, runtime
// errors are tagged and reduced to their text.
func describe(p any) string {
	switch v := p.(type) {
	case nil:
		return "<no panic>"
	case string:
		return "string:" + v
	case runtime.Error:
		return "runtime:" + v.Error()
	default:
		return fmt.Sprintf("other:%T:%v", p, p)
	}
}

func wantPanic(t *testing.T, what string, want string, f func()) {
	t.Helper()
	got := describe(catch(f))
	if got != want {
		t.Fatalf("%s: panic = %q, want %q", what, got, want)
	}
}

// checkAll compares the whole grid (via Get), the dimensions and String
// with the model.
func checkAll(t *testing.T, what string, a arrays.Array2D[int], m *model) {
	t.Helper()
	if a.Width() != m.w || a.Height() != m.h {
		t.Fatalf("%s: dims %dx%d, want %dx%d", what, a.Width(), a.Height(), m.w, m.h)
	}
	for y := 0; y < m.h; y++ {
		for x := 0; x < m.w; x++ {
			if got, want := a.Get(x, y), m.cells[[2]int{x, y}]; got != want {
				t.Fatalf("%s: Get(%d,%d) = %d, want %d (%dx%d)", what, x, y, got, want, m.w, m.h)
			}
		}
	}
	if got, want := a.String(), m.String(); got != want {
		t.Fatalf("%s: String() = %q, want %q", what, got, want)
	}
}

// numbered returns an array and model where every cell holds a unique value.
func numbered(w, h int) (arrays.Array2D[int], *model) {
	a := arrays.New2D[int](w, h)
	m := newModel(w, h)
	n := 100
	for y := 0; y < h; y++ {
		for x := 0; x < w; x++ {
			n++
			a.Set(x, y, n)
			m.cells[[2]int{x, y}] = n
		}
	}
	return a, m
}

const maxDim = 5

func forShapes(f func(w, h int)) {
	for w := 0; w <= maxDim; w++ {
		for h := 0; h <= maxDim; h++ {
			f(w, h)
		}
	}
}

// ---------------------------------------------------------------------------

func TestNewIsZero(t *testing.T) {
	forShapes(func(w, h int) {
		checkAll(t, "New2D", arrays.New2D[int](w, h), newModel(w, h))
	})
	var zero arrays.Array2D[int]
	checkAll(t, "zero value", zero, newModel(0, 0))
}

func TestSetGetIndependentCells(t *testing.T) {
	forShapes(func(w, h int) {
		a := arrays.New2D[int](w, h)
		m := newModel(w, h)
		n := 0
		// two passes so every cell is overwritten at least once
		for pass := 0; pass < 2; pass++ {
			for y := h - 1; y >= 0; y-- {
				for x := 0; x < w; x++ {
					n++
					a.Set(x, y, n)
					m.cells[[2]int{x, y}] = n
					checkAll(t, fmt.Sprintf("after Set(%d,%d)", x, y), a, m)
				}
			}
		}
		// value copies share the cells
		b := a
		if w > 0 && h > 0 {
			b.Set(w-1, 0, -5)
			m.cells[[2]int{w - 1, 0}] = -5
			checkAll(t, "copy shares cells", a, m)
		}
	})
}

func TestGetSetOutOfBounds(t *testing.T) {
	extremes := []int{-1 << 63, -1000, 1000, 1<<63 - 1}
	forShapes(func(w, h int) {
		a, m := numbered(w, h)
		var coords []int
		for c := -2; c <= maxDim+2; c++ {
			coords = append(coords, c)
		}
		coords = append(coords, extremes...)
		for _, x := range coords {
			for _, y := range coords {
				want := "<no panic>"
				switch {
				case x < 0 || x >= w:
					want = "string:" + xMsg("x", x, w)
				case y < 0 || y >= h:
					want = "string:" + yMsg("y", y, h)
				}
				wantPanic(t, fmt.Sprintf("Get(%d,%d) %dx%d", x, y, w, h), want, func() { a.Get(x, y) })
				if want != "<no panic>" {
					wantPanic(t, fmt.Sprintf("Set(%d,%d) %dx%d", x, y, w, h), want, func() { a.Set(x, y, -77) })
					checkAll(t, "after OOB Set", a, m)
				}
			}
		}
	})
}

func TestRow(t *testing.T) {
	forShapes(func(w, h int) {
		a, m := numbered(w, h)
		for y := -2; y <= h+2; y++ {
			if y < 0 || y >= h {
				wantPanic(t, fmt.Sprintf("Row(%d) %dx%d", y, w, h), "string:"+yMsg("y", y, h), func() { a.Row(y) })
				checkAll(t, "after OOB Row", a, m)
				continue
			}
			row := a.Row(y)
			if len(row) != w {
				t.Fatalf("Row(%d) len %d, want %d", y, len(row), w)
			}
			if row == nil {
				t.Fatalf("Row(%d) is nil (%dx%d)", y, w, h)
			}
			if wantCap := w*h - y*w; cap(row) != wantCap {
				t.Fatalf("Row(%d) cap %d, want %d (%dx%d)", y, cap(row), wantCap, w, h)
			}
			for x := 0; x < w; x++ {
				if row[x] != m.cells[[2]int{x, y}] {
					t.Fatalf("Row(%d)[%d] = %d", y, x, row[x])
				}
			}
			// write through the window
			for x := 0; x < w; x++ {
				row[x] = 1000 + 10*y + x
				m.cells[[2]int{x, y}] = 1000 + 10*y + x
				checkAll(t, "write through Row", a, m)
			}
			// window sees later Sets
			for x := 0; x < w; x++ {
				a.Set(x, y, 2000+10*y+x)
				m.cells[[2]int{x, y}] = 2000 + 10*y + x
				if row[x] != 2000+10*y+x {
					t.Fatalf("Row(%d) is not live at %d", y, x)
				}
			}
			checkAll(t, "after Row", a, m)
		}
	})
}

func TestRowSpan(t *testing.T) {
	forShapes(func(w, h int) {
		a, m := numbered(w, h)
		n := 5000
		for y := -1; y <= h+1; y++ {
			for x1 := -1; x1 <= w+1; x1++ {
				for x2 := -1; x2 <= w+1; x2++ {
					what := fmt.Sprintf("RowSpan(%d,%d,%d) %dx%d", x1, x2, y, w, h)
					want := "<no panic>"
					switch {
					case x1 < 0 || x1 >= w:
						want = "string:" + xMsg("x1", x1, w)
					case y < 0 || y >= h:
						want = "string:" + yMsg("y", y, h)
					case x2 < 0 || x2 >= w:
						want = "string:" + xMsg("x2", x2, w)
					case x1 > x2+1:
						want = fmt.Sprintf("runtime:runtime error: slice bounds out of range [%d:%d]", x1+y*w, 1+x2+y*w)
					}
					var span []int
					wantPanic(t, what, want, func() { span = a.RowSpan(x1, x2, y) })
					if want != "<no panic>" {
						checkAll(t, what+" after panic", a, m)
						continue
					}
					if span == nil {
						t.Fatalf("%s: nil", what)
					}
					if len(span) != x2-x1+1 {
						t.Fatalf("%s: len %d", what, len(span))
					}
					if wantCap := w*h - (x1 + y*w); cap(span) != wantCap {
						t.Fatalf("%s: cap %d, want %d", what, cap(span), wantCap)
					}
					for i := range span {
						if span[i] != m.cells[[2]int{x1 + i, y}] {
							t.Fatalf("%s: [%d] = %d", what, i, span[i])
						}
					}
					for i := range span {
						n++
						span[i] = n
						m.cells[[2]int{x1 + i, y}] = n
					}
					checkAll(t, what+" write through", a, m)
					for i := range span {
						n++
						a.Set(x1+i, y, n)
						m.cells[[2]int{x1 + i, y}] = n
						if span[i] != n {
							t.Fatalf("%s: not live at %d", what, i)
						}
					}
				}
			}
		}
	})
}

func TestFill(t *testing.T) {
	forShapes(func(w, h int) {
		for x1 := -1; x1 <= w; x1++ {
			for y1 := -1; y1 <= h; y1++ {
				for x2 := -1; x2 <= w; x2++ {
					for y2 := -1; y2 <= h; y2++ {
						a, m := numbered(w, h)
						what := fmt.Sprintf("Fill(%d,%d,%d,%d) %dx%d", x1, y1, x2, y2, w, h)
						want := "<no panic>"
						switch {
						case x1 < 0 || x1 >= w:
							want = "string:" + xMsg("x1", x1, w)
						case y1 < 0 || y1 >= h:
							want = "string:" + yMsg("y1", y1, h)
						case x2 < 0 || x2 >= w:
							want = "string:" + xMsg("x2", x2, w)
						case y2 < 0 || y2 >= h:
							want = "string:" + yMsg("y2", y2, h)
						}
						wantPanic(t, what, want, func() { a.Fill(x1, y1, x2, y2, -9) })
						if want == "<no panic>" {
							lx, hx, ly, hy := x1, x2, y1, y2
							if hx < lx {
								lx, hx = hx, lx
							}
							if hy < ly {
								ly, hy = hy, ly
							}
							for y := ly; y <= hy; y++ {
								for x := lx; x <= hx; x++ {
									m.cells[[2]int{x, y}] = -9
								}
							}
						}
						checkAll(t, what, a, m)
					}
				}
			}
		}
	})
	// a bigger rectangular one, to go through several doublings in the fill
	a, m := numbered(37, 11)
	a.Fill(30, 9, 2, 1, 4)
	for y := 1; y <= 9; y++ {
		for x := 2; x <= 30; x++ {
			m.cells[[2]int{x, y}] = 4
		}
	}
	checkAll(t, "big fill", a, m)
	wantPanic(t, "big fill oob", "string:"+yMsg("y2", 11, 11), func() { a.Fill(0, 0, 36, 11, 1) })
	checkAll(t, "big fill after panic", a, m)
}

func TestClone(t *testing.T) {
	forShapes(func(w, h int) {
		a, m := numbered(w, h)
		c := a.Clone()
		mc := m.clone()
		checkAll(t, "clone", c, mc)
		for y := 0; y < h; y++ {
			for x := 0; x < w; x++ {
				a.Set(x, y, -1)
				m.cells[[2]int{x, y}] = -1
				checkAll(t, "clone after orig Set", c, mc)
				c.Set(x, y, -2)
				mc.cells[[2]int{x, y}] = -2
				checkAll(t, "orig after clone Set", a, m)
			}
		}
		if w > 0 && h > 0 {
			c.Fill(0, 0, w-1, h-1, 3)
			checkAll(t, "orig after clone Fill", a, m)
			if got := cap(c.Row(0)); got != w*h {
				t.Fatalf("clone Row(0) cap = %d, want %d", got, w*h)
			}
		}
	})
	var zero arrays.Array2D[int]
	checkAll(t, "clone of zero value", zero.Clone(), newModel(0, 0))
}

func TestNew2DFilled(t *testing.T) {
	forShapes(func(w, h int) {
		a := arrays.New2DFilled(w, h, 42)
		m := newModel(w, h)
		for k := range m.cells {
			m.cells[k] = 42
		}
		checkAll(t, "New2DFilled", a, m)
		if w > 0 && h > 0 {
			a.Set(w-1, h-1, 1)
			m.cells[[2]int{w - 1, h - 1}] = 1
			checkAll(t, "New2DFilled after Set", a, m)
			if got := cap(a.Row(0)); got != w*h {
				t.Fatalf("New2DFilled Row(0) cap = %d, want %d", got, w*h)
			}
		}
	})
	s := arrays.New2DFilled(3, 2, "ab")
	if got := s.String(); got != "[[ab ab ab] [ab ab ab]]" {
		t.Fatalf("string array: %q", got)
	}
}

type myRow []int
type myJagged []myRow

func TestNew2DFromJagged(t *testing.T) {
	jaggeds := []myJagged{
		nil,
		{},
		{nil},
		{{}},
		{{1}},
		{{1, 2, 3}},
		{{1, 2, 3}, {4}},
		{{1}, {2, 3, 4, 5, 6, 7, 8}, nil, {9, 10}},
		{nil, nil, {1, 2}},
		{{1, 2}, {3, 4}, {5, 6}, {7, 8}, {9, 10}, {11, 12}, {13, 14}, {15, 16}},
		{{1, 2, 3, 4, 5, 6, 7}, {1, 2, 3, 4, 5, 6, 7}, {1, 2, 3, 4, 5, 6, 7}, {1, 2, 3, 4, 5, 6, 7}, {1, 2, 3, 4, 5, 6, 7}, {1, 2, 3, 4, 5, 6, 7}, {1, 2, 3, 4, 5, 6, 7}},
	}
	forShapes(func(w, h int) {
		for ji, j := range jaggeds {
			what := fmt.Sprintf("New2DFromJagged(%d,%d,#%d)", w, h, ji)
			var a arrays.Array2D[int]
			wantPanic(t, what, "<no panic>", func() { a = arrays.New2DFromJagged(w, h, j) })
			m := newModel(w, h)
			for y, row := range j {
				for x, v := range row {
					if x < w && y < h {
						m.cells[[2]int{x, y}] = v
					}
				}
			}
			checkAll(t, what, a, m)
			// the array does not alias the jagged input
			for y := range j {
				for x := range j[y] {
					j[y][x]++
				}
			}
			checkAll(t, what+" no alias", a, m)
			for y := range j {
				for x := range j[y] {
					j[y][x]--
				}
			}
		}
	})
}

func TestString(t *testing.T) {
	cases := []struct {
		w, h int
		want string
	}{
		{0, 0, "[]"},
		{3, 0, "[]"},
		{0, 1, "[[]]"},
		{0, 3, "[[] [] []]"},
		{1, 1, "[[101]]"},
		{3, 1, "[[101 102 103]]"},
		{1, 3, "[[101] [102] [103]]"},
		{3, 2, "[[101 102 103] [104 105 106]]"},
		{2, 3, "[[101 102] [103 104] [105 106]]"},
	}
	for _, c := range cases {
		a, _ := numbered(c.w, c.h)
		if got := a.String(); got != c.want {
			t.Errorf("%dx%d: String() = %q, want %q", c.w, c.h, got, c.want)
		}
	}
}

// Degenerate dimensions: the constructors only reject what make rejects.
func TestNegativeDimensions(t *testing.T) {
	const makePanic = "runtime:runtime error: makeslice: len out of range"
	for _, d := range [][2]int{{-1, 2}, {2, -1}, {-3, 1}} {
		w, h := d[0], d[1]
		wantPanic(t, "New2D neg", makePanic, func() { arrays.New2D[int](w, h) })
		wantPanic(t, "New2DFilled neg", makePanic, func() { arrays.New2DFilled(w, h, 1) })
		wantPanic(t, "New2DFromJagged neg", makePanic, func() { arrays.New2DFromJagged(w, h, [][]int{{1}, {2}}) })
	}
	// both negative: product is positive, no cell is addressable
	mk := []func() arrays.Array2D[int]{
		func() arrays.Array2D[int] { return arrays.New2D[int](-1, -2) },
		func() arrays.Array2D[int] { return arrays.New2DFilled(-1, -2, 7) },
		func() arrays.Array2D[int] { return arrays.New2DFromJagged(-1, -2, [][]int{{1, 2}, {3}, {4}}) },
		func() arrays.Array2D[int] { return arrays.New2DFilled(-1, -2, 7).Clone() },
	}
	for i, f := range mk {
		var a arrays.Array2D[int]
		wantPanic(t, fmt.Sprintf("neg ctor %d", i), "<no panic>", func() { a = f() })
		if a.Width() != -1 || a.Height() != -2 {
			t.Fatalf("neg ctor %d: dims %d x %d", i, a.Width(), a.Height())
		}
		if got := a.String(); got != "[]" {
			t.Fatalf("neg ctor %d: String() = %q", i, got)
		}
		for _, x := range []int{-3, -2, -1, 0, 1} {
			wantPanic(t, "neg Get", "string:"+xMsg("x", x, -1), func() { a.Get(x, 0) })
			wantPanic(t, "neg Set", "string:"+xMsg("x", x, -1), func() { a.Set(x, 0, 1) })
			wantPanic(t, "neg RowSpan", "string:"+xMsg("x1", x, -1), func() { a.RowSpan(x, 0, 0) })
			wantPanic(t, "neg Fill", "string:"+xMsg("x1", x, -1), func() { a.Fill(x, 0, 0, 0, 1) })
			wantPanic(t, "neg Row", "string:"+yMsg("y", x, -2), func() { a.Row(x) })
		}
	}
}
