package demo

import (
	stdlist "container/list"
	stdring "container/ring"
	"fmt"
	"math/rand"
	"sync"
	"testing"

	"gopkg.in/typ.v4/lists"
)

// ---------------------------------------------------------------------------
// List: lock-step model test against container/list
// ---------------------------------------------------------------------------

const walkCap = 4096 // bound on traversals (lists may be inconsistent after Init with stale handles)

type listWorld struct {
	t    *testing.T
	ours []*lists.List[int]
	std  []*stdlist.List
	// parallel handle tables; index i in both denotes "the same" element
	oe   []*lists.Element[int]
	se   []*stdlist.Element
	oidx map[*lists.Element[int]]int
	sidx map[*stdlist.Element]int
	// stale[h] = li+1 when handle h was an element of list li at the time
	// li.Init() was called. Such a handle still claims membership of li
	// although li no longer links to it; container/list leaves mutating li
	// through it undefined (it can corrupt Len and crash), so the driver only
	// keeps observing it and only hands it to *other* lists.
	stale map[int]int
	log   []string
}

func newListWorld(t *testing.T, nlists int) *listWorld {
	w := &listWorld{t: t, oidx: map[*lists.Element[int]]int{}, sidx: map[*stdlist.Element]int{}, stale: map[int]int{}}
	for i := 0; i < nlists; i++ {
		if i%2 == 0 {
			// zero value lists
			w.ours = append(w.ours, new(lists.List[int]))
			w.std = append(w.std, new(stdlist.List))
		} else {
			w.ours = append(w.ours, lists.New[int]())
			w.std = append(w.std, stdlist.New())
		}
	}
	return w
}

func (w *listWorld) fail(format string, args ...any) {
	w.t.Helper()
	n := len(w.log)
	from := 0
	if n > 40 {
		from = n - 40
	}
	w.t.Fatalf("%s\nlast ops:\n%v", fmt.Sprintf(format, args...), w.log[from:])
}

// reg registers a freshly returned pair of elements and returns its handle index.
// Both nil is allowed (index -1).
func (w *listWorld) reg(o *lists.Element[int], s *stdlist.Element) int {
	w.t.Helper()
	if (o == nil) != (s == nil) {
		w.fail("nil mismatch: ours=%v std=%v", o, s)
	}
	if o == nil {
		return -1
	}
	oi, ook := w.oidx[o]
	si, sok := w.sidx[s]
	if ook != sok || (ook && oi != si) {
		w.fail("handle identity mismatch: ours known=%v idx=%d, std known=%v idx=%d", ook, oi, sok, si)
	}
	if ook {
		return oi
	}
	w.oe = append(w.oe, o)
	w.se = append(w.se, s)
	w.oidx[o] = len(w.oe) - 1
	w.sidx[s] = len(w.se) - 1
	return len(w.oe) - 1
}

func (w *listWorld) same(what string, o *lists.Element[int], s *stdlist.Element) {
	w.t.Helper()
	if (o == nil) != (s == nil) {
		w.fail("%s: nil mismatch ours=%v std=%v", what, o != nil, s != nil)
	}
	if o == nil {
		return
	}
	oi, ook := w.oidx[o]
	si, sok := w.sidx[s]
	if ook != sok {
		w.fail("%s: one side returned an unknown element (ours known=%v, std known=%v)", what, ook, sok)
	}
	if !ook {
		// elements created by PushBackList/PushFrontList are discovered during traversal
		w.reg(o, s)
		return
	}
	if oi != si {
		w.fail("%s: element mismatch ours=#%d std=#%d", what, oi, si)
	}
}

func (w *listWorld) check() {
	w.t.Helper()
	for li := range w.ours {
		ol, sl := w.ours[li], w.std[li]
		if ol.Len() != sl.Len() {
			w.fail("list %d: Len ours=%d std=%d", li, ol.Len(), sl.Len())
		}
		w.same(fmt.Sprintf("list %d Front", li), ol.Front(), sl.Front())
		w.same(fmt.Sprintf("list %d Back", li), ol.Back(), sl.Back())
		// forward
		oe, se := ol.Front(), sl.Front()
		for n := 0; n < walkCap; n++ {
			w.same(fmt.Sprintf("list %d forward step %d", li, n), oe, se)
			if oe == nil {
				break
			}
			if oe.Value != sval(se) {
				w.fail("list %d forward step %d: value ours=%d std=%d", li, n, oe.Value, se.Value)
			}
			oe, se = oe.Next(), se.Next()
		}
		// backward
		oe, se = ol.Back(), sl.Back()
		for n := 0; n < walkCap; n++ {
			w.same(fmt.Sprintf("list %d backward step %d", li, n), oe, se)
			if oe == nil {
				break
			}
			if oe.Value != sval(se) {
				w.fail("list %d backward step %d: value ours=%d std=%d", li, n, oe.Value, se.Value)
			}
			oe, se = oe.Prev(), se.Prev()
		}
	}
	// neighbours and values of every handle, live or removed
	for i := 0; i < len(w.oe); i++ {
		o, s := w.oe[i], w.se[i]
		w.same(fmt.Sprintf("handle #%d Next", i), o.Next(), s.Next())
		w.same(fmt.Sprintf("handle #%d Prev", i), o.Prev(), s.Prev())
		if o.Value != sval(s) {
			w.fail("handle #%d value ours=%d std=%d", i, o.Value, s.Value)
		}
	}
}

// sval is the int stored in a container/list element. After Init with stale
// handles around, a negative Len can make Front/Back hand out the sentinel
// itself, whose Value is the zero value on both sides (nil there, 0 here).
func sval(s *stdlist.Element) int {
	if s.Value == nil {
		return 0
	}
	return s.Value.(int)
}

// panics reports whether f panicked.
func panics(f func()) (p bool) {
	defer func() {
		if recover() != nil {
			p = true
		}
	}()
	f()
	return false
}

func (w *listWorld) pickHandle(r *rand.Rand) int {
	if len(w.oe) == 0 {
		return -1
	}
	return r.Intn(len(w.oe))
}

func (w *listWorld) step(r *rand.Rand, val int, allowInit, allowNil bool) {
	w.t.Helper()
	li := r.Intn(len(w.ours))
	ol, sl := w.ours[li], w.std[li]
	h := w.pickHandle(r)
	h2 := w.pickHandle(r)
	op := r.Intn(100)
	if h < 0 && op >= 20 {
		op = r.Intn(20)
	}
	if h >= 0 && (w.stale[h] == li+1 || w.stale[h2] == li+1) {
		return
	}
	if allowNil && h >= 0 && r.Intn(60) == 0 {
		// nil element handles: both sides must panic (or not) alike, and nothing changes
		kind := r.Intn(6)
		w.log = append(w.log, fmt.Sprintf("nil-handle op %d on l%d with #%d", kind, li, h))
		var op1, sp bool
		switch kind {
		case 0:
			op1 = panics(func() { ol.Remove(nil) })
			sp = panics(func() { sl.Remove(nil) })
		case 1:
			op1 = panics(func() { ol.InsertBefore(val, nil) })
			sp = panics(func() { sl.InsertBefore(val, nil) })
		case 2:
			op1 = panics(func() { ol.InsertAfter(val, nil) })
			sp = panics(func() { sl.InsertAfter(val, nil) })
		case 3:
			op1 = panics(func() { ol.MoveToFront(nil) })
			sp = panics(func() { sl.MoveToFront(nil) })
		case 4:
			op1 = panics(func() { ol.MoveBefore(w.oe[h], nil) })
			sp = panics(func() { sl.MoveBefore(w.se[h], nil) })
		case 5:
			op1 = panics(func() { ol.MoveAfter(w.oe[h], nil) })
			sp = panics(func() { sl.MoveAfter(w.se[h], nil) })
		}
		if op1 != sp {
			w.fail("nil-handle op %d: panic ours=%v std=%v", kind, op1, sp)
		}
		return
	}
	switch {
	case op < 10:
		w.log = append(w.log, fmt.Sprintf("l%d.PushFront(%d)", li, val))
		w.reg(ol.PushFront(val), sl.PushFront(val))
	case op < 20:
		w.log = append(w.log, fmt.Sprintf("l%d.PushBack(%d)", li, val))
		w.reg(ol.PushBack(val), sl.PushBack(val))
	case op < 30:
		w.log = append(w.log, fmt.Sprintf("l%d.InsertBefore(%d, #%d)", li, val, h))
		w.reg(ol.InsertBefore(val, w.oe[h]), sl.InsertBefore(val, w.se[h]))
	case op < 40:
		w.log = append(w.log, fmt.Sprintf("l%d.InsertAfter(%d, #%d)", li, val, h))
		w.reg(ol.InsertAfter(val, w.oe[h]), sl.InsertAfter(val, w.se[h]))
	case op < 52:
		w.log = append(w.log, fmt.Sprintf("l%d.Remove(#%d)", li, h))
		ov := ol.Remove(w.oe[h])
		sv := sl.Remove(w.se[h]).(int)
		if ov != sv {
			w.fail("Remove returned ours=%d std=%d", ov, sv)
		}
	case op < 60:
		w.log = append(w.log, fmt.Sprintf("l%d.MoveToFront(#%d)", li, h))
		ol.MoveToFront(w.oe[h])
		sl.MoveToFront(w.se[h])
	case op < 68:
		w.log = append(w.log, fmt.Sprintf("l%d.MoveToBack(#%d)", li, h))
		ol.MoveToBack(w.oe[h])
		sl.MoveToBack(w.se[h])
	case op < 77:
		w.log = append(w.log, fmt.Sprintf("l%d.MoveBefore(#%d, #%d)", li, h, h2))
		ol.MoveBefore(w.oe[h], w.oe[h2])
		sl.MoveBefore(w.se[h], w.se[h2])
	case op < 86:
		w.log = append(w.log, fmt.Sprintf("l%d.MoveAfter(#%d, #%d)", li, h, h2))
		ol.MoveAfter(w.oe[h], w.oe[h2])
		sl.MoveAfter(w.se[h], w.se[h2])
	case op < 90:
		lj := r.Intn(len(w.ours)) // may be li itself
		if w.ours[lj].Len() > 64 {
			lj = li
			if w.ours[lj].Len() > 64 {
				return
			}
		}
		w.log = append(w.log, fmt.Sprintf("l%d.PushBackList(l%d)", li, lj))
		ol.PushBackList(w.ours[lj])
		sl.PushBackList(w.std[lj])
	case op < 94:
		lj := r.Intn(len(w.ours))
		if w.ours[lj].Len() > 64 {
			lj = li
			if w.ours[lj].Len() > 64 {
				return
			}
		}
		w.log = append(w.log, fmt.Sprintf("l%d.PushFrontList(l%d)", li, lj))
		ol.PushFrontList(w.ours[lj])
		sl.PushFrontList(w.std[lj])
	case op < 97:
		w.log = append(w.log, fmt.Sprintf("#%d.Value = %d", h, val))
		w.oe[h].Value = val
		w.se[h].Value = val
	default:
		if !allowInit {
			return
		}
		w.log = append(w.log, fmt.Sprintf("l%d.Init()", li))
		for e := ol.Front(); e != nil; e = e.Next() {
			w.stale[w.oidx[e]] = li + 1
		}
		if ol.Init() != ol || sl.Init() != sl {
			w.fail("Init did not return its receiver")
		}
	}
}

func runListHistory(t *testing.T, seed int64, nlists, steps int, allowInit bool) {
	r := rand.New(rand.NewSource(seed))
	w := newListWorld(t, nlists)
	w.check()
	for i := 0; i < steps; i++ {
		w.step(r, i+1, allowInit, true)
		w.check()
	}
}

func TestListLockStepNoInit(t *testing.T) {
	for seed := int64(1); seed <= 40; seed++ {
		seed := seed
		t.Run(fmt.Sprintf("seed%d", seed), func(t *testing.T) {
			t.Parallel()
			runListHistory(t, seed, 1+int(seed%4), 300, false)
		})
	}
}

func TestListLockStepWithInit(t *testing.T) {
	for seed := int64(100); seed < 130; seed++ {
		seed := seed
		t.Run(fmt.Sprintf("seed%d", seed), func(t *testing.T) {
			t.Parallel()
			runListHistory(t, seed, 1+int(seed%3), 250, true)
		})
	}
}

func listValues(l *lists.List[int]) []int {
	var out []int
	for e := l.Front(); e != nil; e = e.Next() {
		out = append(out, e.Value)
	}
	return out
}

func listValuesBack(l *lists.List[int]) []int {
	var out []int
	for e := l.Back(); e != nil; e = e.Prev() {
		out = append(out, e.Value)
	}
	return out
}

func eq(a, b []int) bool {
	if len(a) != len(b) {
		return false
	}
	for i := range a {
		if a[i] != b[i] {
			return false
		}
	}
	return true
}

func wantList(t *testing.T, l *lists.List[int], want ...int) {
	t.Helper()
	if l.Len() != len(want) {
		t.Fatalf("Len = %d, want %d", l.Len(), len(want))
	}
	got := listValues(l)
	if !eq(got, want) {
		t.Fatalf("forward = %v, want %v", got, want)
	}
	rev := listValuesBack(l)
	for i, j := 0, len(rev)-1; i < j; i, j = i+1, j-1 {
		rev[i], rev[j] = rev[j], rev[i]
	}
	if !eq(rev, want) {
		t.Fatalf("backward (reversed) = %v, want %v", rev, want)
	}
	if len(want) == 0 {
		if l.Front() != nil || l.Back() != nil {
			t.Fatalf("empty list has Front/Back")
		}
	} else {
		if l.Front().Prev() != nil || l.Back().Next() != nil {
			t.Fatalf("Front().Prev() or Back().Next() not nil")
		}
	}
}

func TestListZeroValue(t *testing.T) {
	var l lists.List[int]
	wantList(t, &l)
	// every read-only / guarded op on the untouched zero value
	var other lists.List[int]
	e := other.PushBack(7)
	if got := l.Remove(e); got != 7 {
		t.Fatalf("Remove foreign = %d", got)
	}
	wantList(t, &l)
	wantList(t, &other, 7)
	if l.InsertBefore(1, e) != nil || l.InsertAfter(1, e) != nil {
		t.Fatal("insert next to foreign mark must return nil")
	}
	l.MoveToFront(e)
	l.MoveToBack(e)
	l.MoveBefore(e, e)
	l.MoveAfter(e, e)
	wantList(t, &l)
	wantList(t, &other, 7)

	var a, b lists.List[int]
	a.PushBackList(&b) // both zero
	wantList(t, &a)
	a.PushFrontList(&b)
	wantList(t, &a)
	a.PushBackList(&a)
	a.PushFrontList(&a)
	wantList(t, &a)
	b.PushBack(1)
	b.PushBack(2)
	var c, d lists.List[int]
	c.PushBackList(&b)
	d.PushFrontList(&b)
	wantList(t, &c, 1, 2)
	wantList(t, &d, 1, 2)
	wantList(t, &b, 1, 2)

	var f lists.List[int]
	f.PushFront(1)
	wantList(t, &f, 1)
	var g lists.List[int]
	g.PushBack(1)
	wantList(t, &g, 1)

	// zero Element
	var ze lists.Element[int]
	if ze.Next() != nil || ze.Prev() != nil {
		t.Fatal("zero element has neighbours")
	}
}

func TestListSelfPush(t *testing.T) {
	l := lists.New[int]()
	for i := 1; i <= 3; i++ {
		l.PushBack(i)
	}
	l.PushBackList(l)
	wantList(t, l, 1, 2, 3, 1, 2, 3)
	l.PushFrontList(l)
	wantList(t, l, 1, 2, 3, 1, 2, 3, 1, 2, 3, 1, 2, 3)

	one := lists.New[int]()
	one.PushBack(9)
	one.PushFrontList(one)
	wantList(t, one, 9, 9)
	one.PushBackList(one)
	wantList(t, one, 9, 9, 9, 9)

	// original elements keep their identity; copies are new elements
	m := lists.New[int]()
	a := m.PushBack(1)
	b := m.PushBack(2)
	m.PushBackList(m)
	if m.Front() != a || a.Next() != b || b.Next() == a || b.Next() == b || b.Next() == nil {
		t.Fatal("PushBackList(self) disturbed the original elements")
	}
	m.PushFrontList(m)
	wantList(t, m, 1, 2, 1, 2, 1, 2, 1, 2)
	if a.Prev() == nil || a.Prev().Value != 2 || a.Prev().Prev().Value != 1 {
		t.Fatal("PushFrontList(self) order wrong")
	}
}

func TestListRemovedAndForeignHandles(t *testing.T) {
	l1, l2 := lists.New[int](), lists.New[int]()
	a := l1.PushBack(1)
	b := l1.PushBack(2)
	c := l1.PushBack(3)
	x := l2.PushBack(10)
	y := l2.PushBack(20)

	// foreign
	if l1.Remove(x) != 10 {
		t.Fatal("Remove(foreign) value")
	}
	if l1.InsertBefore(0, x) != nil || l1.InsertAfter(0, y) != nil {
		t.Fatal("Insert with foreign mark")
	}
	l1.MoveToFront(y)
	l1.MoveToBack(x)
	l1.MoveBefore(a, x)
	l1.MoveBefore(x, a)
	l1.MoveAfter(c, y)
	l1.MoveAfter(y, c)
	wantList(t, l1, 1, 2, 3)
	wantList(t, l2, 10, 20)
	if x.Next() != y || y.Prev() != x || x.Prev() != nil || y.Next() != nil {
		t.Fatal("foreign neighbours disturbed")
	}

	// removed
	if l1.Remove(b) != 2 {
		t.Fatal("Remove value")
	}
	wantList(t, l1, 1, 3)
	if b.Next() != nil || b.Prev() != nil {
		t.Fatal("removed element still has neighbours")
	}
	if l1.Remove(b) != 2 {
		t.Fatal("second Remove value")
	}
	if l1.InsertBefore(0, b) != nil || l1.InsertAfter(0, b) != nil {
		t.Fatal("Insert with removed mark")
	}
	l1.MoveToFront(b)
	l1.MoveToBack(b)
	l1.MoveBefore(b, a)
	l1.MoveBefore(a, b)
	l1.MoveAfter(b, c)
	l1.MoveAfter(c, b)
	wantList(t, l1, 1, 3)
	if a.Next() != c || c.Prev() != a {
		t.Fatal("neighbours after ops with removed handle")
	}

	// no-op moves
	l1.MoveToFront(a)
	l1.MoveToBack(c)
	l1.MoveBefore(a, a)
	l1.MoveAfter(c, c)
	l1.MoveBefore(a, c)
	l1.MoveAfter(c, a)
	wantList(t, l1, 1, 3)
	l1.MoveAfter(a, c)
	wantList(t, l1, 3, 1)
	l1.MoveBefore(a, c)
	wantList(t, l1, 1, 3)
	l1.MoveToFront(c)
	wantList(t, l1, 3, 1)
	l1.MoveToBack(c)
	wantList(t, l1, 1, 3)
}

func TestListGenericString(t *testing.T) {
	var l lists.List[string]
	s := stdlist.New()
	words := []string{"a", "b", "c", "d", "e"}
	for i, wd := range words {
		if i%2 == 0 {
			l.PushBack(wd)
			s.PushBack(wd)
		} else {
			l.PushFront(wd)
			s.PushFront(wd)
		}
	}
	l.MoveToBack(l.Front())
	s.MoveToBack(s.Front())
	l.PushBackList(&l)
	s.PushBackList(s)
	oe, se := l.Front(), s.Front()
	for oe != nil && se != nil {
		if oe.Value != se.Value.(string) {
			t.Fatalf("value mismatch %q vs %q", oe.Value, se.Value)
		}
		oe, se = oe.Next(), se.Next()
	}
	if oe != nil || se != nil || l.Len() != s.Len() {
		t.Fatal("length mismatch")
	}
}

// ---------------------------------------------------------------------------
// Ring: lock-step model test against container/ring
// ---------------------------------------------------------------------------

type ringWorld struct {
	t    *testing.T
	or   []*lists.Ring[int]
	sr   []*stdring.Ring
	oidx map[*lists.Ring[int]]int
	sidx map[*stdring.Ring]int
	log  []string
}

func newRingWorld(t *testing.T) *ringWorld {
	return &ringWorld{t: t, oidx: map[*lists.Ring[int]]int{}, sidx: map[*stdring.Ring]int{}}
}

func (w *ringWorld) fail(format string, args ...any) {
	w.t.Helper()
	n := len(w.log)
	from := 0
	if n > 40 {
		from = n - 40
	}
	w.t.Fatalf("%s\nlast ops:\n%v", fmt.Sprintf(format, args...), w.log[from:])
}

// addNode registers a pair of nodes without touching their links (so zero
// rings stay lazily uninitialised) and stamps them with their handle number.
func (w *ringWorld) addNode(o *lists.Ring[int], s *stdring.Ring) int {
	id := len(w.or)
	w.or = append(w.or, o)
	w.sr = append(w.sr, s)
	w.oidx[o] = id
	w.sidx[s] = id
	o.Value = id
	s.Value = id
	return id
}

func (w *ringWorld) same(what string, o *lists.Ring[int], s *stdring.Ring) int {
	w.t.Helper()
	if (o == nil) != (s == nil) {
		w.fail("%s: nil mismatch ours=%v std=%v", what, o != nil, s != nil)
	}
	if o == nil {
		return -1
	}
	oi, ook := w.oidx[o]
	si, sok := w.sidx[s]
	if !ook || !sok {
		w.fail("%s: unknown node returned (ours known=%v std known=%v)", what, ook, sok)
	}
	if oi != si {
		w.fail("%s: ours=#%d std=#%d", what, oi, si)
	}
	return oi
}

func (w *ringWorld) newRing(n int) {
	w.t.Helper()
	o := lists.NewRing[int](n)
	s := stdring.New(n)
	w.log = append(w.log, fmt.Sprintf("NewRing(%d)", n))
	if (o == nil) != (s == nil) {
		w.fail("NewRing(%d): nil mismatch", n)
	}
	if o == nil {
		return
	}
	if o.Len() != s.Len() || o.Len() != n {
		w.fail("NewRing(%d): Len ours=%d std=%d", n, o.Len(), s.Len())
	}
	first := len(w.or)
	op, sp := o, s
	for i := 0; i < n; i++ {
		if op.Value != 0 || sp.Value != nil {
			w.fail("NewRing(%d): fresh node has a value", n)
		}
		w.addNode(op, sp)
		op, sp = op.Next(), sp.Next()
	}
	if op != o || sp != s {
		w.fail("NewRing(%d): not circular after n steps", n)
	}
	// backward too
	for i := n - 1; i >= 0; i-- {
		op, sp = op.Prev(), sp.Prev()
		if op != w.or[first+i] || sp != w.sr[first+i] {
			w.fail("NewRing(%d): prev links wrong at %d", n, i)
		}
	}
}

func (w *ringWorld) newZero() {
	w.log = append(w.log, "zero ring")
	w.addNode(new(lists.Ring[int]), new(stdring.Ring))
}

// observe compares the complete link structure. It initialises zero rings on
// both sides (Next/Prev do that in both implementations).
func (w *ringWorld) observe() {
	w.t.Helper()
	for i := range w.or {
		o, s := w.or[i], w.sr[i]
		w.same(fmt.Sprintf("#%d.Next", i), o.Next(), s.Next())
		w.same(fmt.Sprintf("#%d.Prev", i), o.Prev(), s.Prev())
		if o.Value != s.Value.(int) {
			w.fail("#%d value ours=%d std=%v", i, o.Value, s.Value)
		}
	}
}

func (w *ringWorld) step(r *rand.Rand) {
	w.t.Helper()
	if len(w.or) == 0 {
		w.newZero()
		return
	}
	a := r.Intn(len(w.or))
	b := r.Intn(len(w.or))
	oa, sa := w.or[a], w.sr[a]
	cnt := r.Intn(25) - 8
	if r.Intn(10) == 0 {
		cnt = r.Intn(200) - 100
	}
	switch op := r.Intn(100); {
	case op < 6:
		if len(w.or) < 150 {
			w.newRing(r.Intn(7) - 1)
		}
	case op < 12:
		if len(w.or) < 150 {
			w.newZero()
		}
	case op < 20:
		w.log = append(w.log, fmt.Sprintf("#%d.Next()", a))
		w.same("Next", oa.Next(), sa.Next())
	case op < 28:
		w.log = append(w.log, fmt.Sprintf("#%d.Prev()", a))
		w.same("Prev", oa.Prev(), sa.Prev())
	case op < 42:
		w.log = append(w.log, fmt.Sprintf("#%d.Move(%d)", a, cnt))
		w.same("Move", oa.Move(cnt), sa.Move(cnt))
	case op < 62:
		if r.Intn(12) == 0 {
			w.log = append(w.log, fmt.Sprintf("#%d.Link(nil)", a))
			w.same("Link(nil)", oa.Link(nil), sa.Link(nil))
			break
		}
		w.log = append(w.log, fmt.Sprintf("#%d.Link(#%d)", a, b))
		w.same("Link", oa.Link(w.or[b]), sa.Link(w.sr[b]))
	case op < 78:
		w.log = append(w.log, fmt.Sprintf("#%d.Unlink(%d)", a, cnt))
		w.same("Unlink", oa.Unlink(cnt), sa.Unlink(cnt))
	case op < 88:
		w.log = append(w.log, fmt.Sprintf("#%d.Len()", a))
		if ol, sl := oa.Len(), sa.Len(); ol != sl {
			w.fail("Len ours=%d std=%d", ol, sl)
		}
	case op < 97:
		w.log = append(w.log, fmt.Sprintf("#%d.Do()", a))
		var ov, sv []int
		oa.Do(func(v int) { ov = append(ov, v) })
		sa.Do(func(v any) { sv = append(sv, v.(int)) })
		if !eq(ov, sv) {
			w.fail("Do ours=%v std=%v", ov, sv)
		}
	default:
		w.log = append(w.log, fmt.Sprintf("#%d.Value = %d", a, cnt))
		oa.Value = cnt
		sa.Value = cnt
	}
}

func TestRingLockStep(t *testing.T) {
	for seed := int64(1); seed <= 40; seed++ {
		seed := seed
		t.Run(fmt.Sprintf("seed%d", seed), func(t *testing.T) {
			t.Parallel()
			r := rand.New(rand.NewSource(seed * 7919))
			w := newRingWorld(t)
			for i := 0; i < 600; i++ {
				w.step(r)
				// full observation initialises zero rings, so do it only
				// sometimes to keep the lazy-init paths of every op covered
				if seed%2 == 0 || r.Intn(4) == 0 {
					w.observe()
				}
			}
			w.observe()
		})
	}
}

func ringValues(r *lists.Ring[int]) []int {
	var out []int
	r.Do(func(v int) { out = append(out, v) })
	return out
}

func TestRingZeroAndNil(t *testing.T) {
	var nilRing *lists.Ring[int]
	if nilRing.Len() != 0 {
		t.Fatal("nil ring Len")
	}
	called := false
	nilRing.Do(func(int) { called = true })
	if called {
		t.Fatal("Do on nil ring called f")
	}
	if lists.NewRing[int](0) != nil || lists.NewRing[int](-3) != nil {
		t.Fatal("NewRing(<=0) must be nil")
	}

	// each operation as the very first one on a fresh zero ring
	fresh := func() *lists.Ring[int] { return &lists.Ring[int]{Value: 42} }
	if r := fresh(); r.Next() != r || r.Prev() != r || r.Next() != r {
		t.Fatal("zero Next")
	}
	if r := fresh(); r.Prev() != r || r.Next() != r {
		t.Fatal("zero Prev")
	}
	for _, n := range []int{-5, -1, 0, 1, 5} {
		if r := fresh(); r.Move(n) != r || r.Next() != r || r.Prev() != r {
			t.Fatalf("zero Move(%d)", n)
		}
	}
	if r := fresh(); r.Len() != 1 {
		t.Fatal("zero Len")
	}
	if r := fresh(); !eq(ringValues(r), []int{42}) {
		t.Fatal("zero Do")
	}
	if r := fresh(); r.Link(nil) != r || r.Len() != 1 {
		t.Fatal("zero Link(nil)")
	}
	if r := fresh(); r.Link(r) != r || r.Len() != 1 || r.Next() != r || r.Prev() != r {
		t.Fatal("zero Link(self)")
	}
	for _, n := range []int{-1, 0} {
		if r := fresh(); r.Unlink(n) != nil || r.Len() != 1 {
			t.Fatalf("zero Unlink(%d)", n)
		}
	}
	for _, n := range []int{1, 2, 7} {
		if r := fresh(); r.Unlink(n) != r || r.Len() != 1 {
			t.Fatalf("zero Unlink(%d)", n)
		}
	}
	// two zero rings linked
	a, b := &lists.Ring[int]{Value: 1}, &lists.Ring[int]{Value: 2}
	if got := a.Link(b); got != a {
		t.Fatal("Link of two zero rings must return a (the old a.Next())")
	}
	if a.Next() != b || b.Next() != a || a.Prev() != b || b.Prev() != a || a.Len() != 2 {
		t.Fatal("two-element ring wrong")
	}
	if !eq(ringValues(a), []int{1, 2}) || !eq(ringValues(b), []int{2, 1}) {
		t.Fatal("Do order")
	}
}

func TestRingLinkUnlinkDirected(t *testing.T) {
	mk := func(n, base int) (*lists.Ring[int], *stdring.Ring) {
		o, s := lists.NewRing[int](n), stdring.New(n)
		for i := 0; i < n; i++ {
			o.Value, s.Value = base+i, base+i
			o, s = o.Next(), s.Next()
		}
		return o, s
	}
	sv := func(s *stdring.Ring) []int {
		var out []int
		s.Do(func(v any) { out = append(out, v.(int)) })
		return out
	}
	svBack := func(s *stdring.Ring) []int {
		var out []int
		if s == nil {
			return out
		}
		out = append(out, s.Value.(int))
		for p := s.Prev(); p != s; p = p.Prev() {
			out = append(out, p.Value.(int))
		}
		return out
	}
	ovBack := func(o *lists.Ring[int]) []int {
		var out []int
		if o == nil {
			return out
		}
		out = append(out, o.Value)
		for p := o.Prev(); p != o; p = p.Prev() {
			out = append(out, p.Value)
		}
		return out
	}
	cmp := func(what string, o *lists.Ring[int], s *stdring.Ring) {
		t.Helper()
		if (o == nil) != (s == nil) {
			t.Fatalf("%s: nil mismatch", what)
		}
		if o.Len() != s.Len() {
			t.Fatalf("%s: Len ours=%d std=%d", what, o.Len(), s.Len())
		}
		if !eq(ringValues(o), sv(s)) {
			t.Fatalf("%s: forward ours=%v std=%v", what, ringValues(o), sv(s))
		}
		if !eq(ovBack(o), svBack(s)) {
			t.Fatalf("%s: backward ours=%v std=%v", what, ovBack(o), svBack(s))
		}
	}
	// every (size, i, j) same-ring link and every unlink count
	for n := 1; n <= 6; n++ {
		for i := -n - 1; i <= n+1; i++ {
			for j := -n - 1; j <= n+1; j++ {
				o, s := mk(n, 0)
				or, sr := o.Move(i).Link(o.Move(j)), s.Move(i).Link(s.Move(j))
				what := fmt.Sprintf("n=%d Move(%d).Link(Move(%d))", n, i, j)
				cmp(what+" result", or, sr)
				cmp(what+" receiver", o, s)
			}
			for k := -2; k <= 2*n+2; k++ {
				o, s := mk(n, 0)
				or, sr := o.Move(i).Unlink(k), s.Move(i).Unlink(k)
				what := fmt.Sprintf("n=%d Move(%d).Unlink(%d)", n, i, k)
				cmp(what+" result", or, sr)
				cmp(what+" receiver", o.Move(i), s.Move(i))
			}
		}
		// different rings
		for m := 1; m <= 4; m++ {
			for i := 0; i < n; i++ {
				for j := 0; j < m; j++ {
					o1, s1 := mk(n, 0)
					o2, s2 := mk(m, 100)
					or, sr := o1.Move(i).Link(o2.Move(j)), s1.Move(i).Link(s2.Move(j))
					what := fmt.Sprintf("n=%d m=%d i=%d j=%d cross link", n, m, i, j)
					cmp(what+" result", or, sr)
					cmp(what+" r1", o1, s1)
					cmp(what+" r2", o2, s2)
				}
			}
		}
	}
}

// Independent goroutines each own their lists and rings; there must be no
// hidden shared state between instances (run with -race).
func TestIndependentInstancesConcurrently(t *testing.T) {
	var wg sync.WaitGroup
	errs := make(chan string, 16)
	for g := 0; g < 8; g++ {
		wg.Add(1)
		go func(g int) {
			defer wg.Done()
			r := rand.New(rand.NewSource(int64(1000 + g)))
			var l lists.List[int]
			s := stdlist.New()
			var oh []*lists.Element[int]
			var sh []*stdlist.Element
			for i := 0; i < 2000; i++ {
				switch op := r.Intn(6); {
				case op == 0 || len(oh) == 0:
					oh = append(oh, l.PushBack(i))
					sh = append(sh, s.PushBack(i))
				case op == 1:
					oh = append(oh, l.PushFront(i))
					sh = append(sh, s.PushFront(i))
				case op == 2:
					k := r.Intn(len(oh))
					l.Remove(oh[k])
					s.Remove(sh[k])
				case op == 3:
					k, m := r.Intn(len(oh)), r.Intn(len(oh))
					l.MoveBefore(oh[k], oh[m])
					s.MoveBefore(sh[k], sh[m])
				case op == 4:
					k, m := r.Intn(len(oh)), r.Intn(len(oh))
					l.MoveAfter(oh[k], oh[m])
					s.MoveAfter(sh[k], sh[m])
				default:
					if l.Len() < 50 {
						l.PushBackList(&l)
						s.PushBackList(s)
					}
				}
			}
			oe, se := l.Front(), s.Front()
			for oe != nil && se != nil {
				if oe.Value != se.Value.(int) {
					errs <- fmt.Sprintf("goroutine %d: value mismatch", g)
					return
				}
				oe, se = oe.Next(), se.Next()
			}
			if oe != nil || se != nil || l.Len() != s.Len() {
				errs <- fmt.Sprintf("goroutine %d: length mismatch", g)
			}
			ro, rs := lists.NewRing[int](5), stdring.New(5)
			for i := 0; i < 500; i++ {
				n := r.Intn(9) - 2
				ro2, rs2 := ro.Unlink(n), rs.Unlink(n)
				if ro2.Len() != rs2.Len() || ro.Len() != rs.Len() {
					errs <- fmt.Sprintf("goroutine %d: ring len mismatch", g)
					return
				}
				if ro2 != nil {
					ro.Link(ro2)
					rs.Link(rs2)
				}
				ro, rs = ro.Move(n), rs.Move(n)
			}
		}(g)
	}
	wg.Wait()
	close(errs)
	for e := range errs {
		t.Error(e)
	}
}
