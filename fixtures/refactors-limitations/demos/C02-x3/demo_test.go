package demo

import (
	"fmt"
	"math"
	"math/rand"
	"sort"
	"testing"

	"gopkg.in/typ.v4/avl"
)

// ---------------------------------------------------------------------------
// Shape reconstruction from pre-order + in-order (distinct values only).
// ---------------------------------------------------------------------------

type shape struct {
	val  int
	l, r *shape
}

func rebuild(pre, in []int) (*shape, error) {
	if len(pre) != len(in) {
		return nil, fmt.Errorf("pre-order has %d values, in-order has %d", len(pre), len(in))
	}
	pos := make(map[int]int, len(in))
	for i, v := range in {
		if _, dup := pos[v]; dup {
			return nil, fmt.Errorf("in-order holds %d twice", v)
		}
		pos[v] = i
	}
	next := 0
	var rec func(lo, hi int) (*shape, error)
	rec = func(lo, hi int) (*shape, error) {
		if lo >= hi {
			return nil, nil
		}
		if next >= len(pre) {
			return nil, fmt.Errorf("pre-order exhausted")
		}
		v := pre[next]
		p, ok := pos[v]
		if !ok || p < lo || p >= hi {
			return nil, fmt.Errorf("pre-order value %d does not fit the in-order window [%d,%d)", v, lo, hi)
		}
		next++
		s := &shape{val: v}
		var err error
		if s.l, err = rec(lo, p); err != nil {
			return nil, err
		}
		if s.r, err = rec(p+1, hi); err != nil {
			return nil, err
		}
		return s, nil
	}
	root, err := rec(0, len(in))
	if err != nil {
		return nil, err
	}
	if next != len(pre) {
		return nil, fmt.Errorf("pre-order has %d unused values", len(pre)-next)
	}
	return root, nil
}

// audit returns the height (leaf = 0, empty = -1) and size of s and reports
// the first node whose subtrees differ in height by more than one.
func audit(s *shape) (height, size int, err error) {
	if s == nil {
		return -1, 0, nil
	}
	lh, ls, err := audit(s.l)
	if err != nil {
		return 0, 0, err
	}
	rh, rs, err := audit(s.r)
	if err != nil {
		return 0, 0, err
	}
	if d := lh - rh; d > 1 || d < -1 {
		return 0, 0, fmt.Errorf("node %d: left height %d, right height %d", s.val, lh, rh)
	}
	return 1 + imax(lh, rh), 1 + ls + rs, nil
}

func postOrder(s *shape, out []int) []int {
	if s == nil {
		return out
	}
	out = postOrder(s.l, out)
	out = postOrder(s.r, out)
	return append(out, s.val)
}

func imax(a, b int) int {
	if a > b {
		return a
	}
	return b
}

// levelBound is the largest number of levels an AVL tree of n nodes may have.
func levelBound(n int) int {
	return int(math.Floor(1.4405 * math.Log2(float64(n+2))))
}

// checkShape verifies every clause of the property on an int tree holding
// distinct values that is ordered by less.
func checkShape(t *testing.T, tree *avl.Tree[int], less func(a, b int) bool, ctx string) {
	t.Helper()
	pre, in, post := tree.SlicePreOrder(), tree.SliceInOrder(), tree.SlicePostOrder()
	n := tree.Len()
	if len(pre) != n || len(in) != n || len(post) != n {
		t.Fatalf("%s: Len=%d but traversals have %d/%d/%d values", ctx, n, len(pre), len(in), len(post))
	}
	for i := 1; i < len(in); i++ {
		if !less(in[i-1], in[i]) {
			t.Fatalf("%s: in-order not strictly ascending at %d: %v", ctx, i, in)
		}
	}
	s, err := rebuild(pre, in)
	if err != nil {
		t.Fatalf("%s: traversals do not describe one tree: %v", ctx, err)
	}
	h, size, err := audit(s)
	if err != nil {
		t.Fatalf("%s: not height-balanced: %v (pre=%v)", ctx, err, pre)
	}
	if size != n {
		t.Fatalf("%s: rebuilt %d nodes, Len=%d", ctx, size, n)
	}
	if n > 0 && h+1 > levelBound(n) {
		t.Fatalf("%s: %d levels for %d elements, bound is %d", ctx, h+1, n, levelBound(n))
	}
	if want := postOrder(s, make([]int, 0, n)); !equal(want, post) {
		t.Fatalf("%s: post-order %v does not match the shape (want %v)", ctx, post, want)
	}
}

func equal[T comparable](a, b []T) bool {
	if len(a) != len(b) {
		return false
	}
	for i := range a {
		if a[i] != b[i] {
			return false
		}
	}
	return true
}

// ---------------------------------------------------------------------------
// Reference model: an independent AVL tree with the library's documented
// insertion/deletion rules.  It is compared step by step with the library:
// same traversals (hence same shape), same results, same comparator calls.
// ---------------------------------------------------------------------------

type rnode[T comparable] struct {
	v    T
	l, r *rnode[T]
	h    int
}

type model[T comparable] struct {
	cmp   func(a, b T) int
	root  *rnode[T]
	count int
}

func rh[T comparable](n *rnode[T]) int {
	if n == nil {
		return -1
	}
	return n.h
}

func rotL[T comparable](n *rnode[T]) *rnode[T] {
	r := n.r
	n.r = r.l
	n.h = 1 + imax(rh(n.l), rh(n.r))
	r.l = n
	r.h = 1 + imax(rh(r.l), rh(r.r))
	return r
}

func rotR[T comparable](n *rnode[T]) *rnode[T] {
	l := n.l
	n.l = l.r
	n.h = 1 + imax(rh(n.l), rh(n.r))
	l.r = n
	l.h = 1 + imax(rh(l.l), rh(l.r))
	return l
}

func fix[T comparable](n *rnode[T]) *rnode[T] {
	n.h = 1 + imax(rh(n.l), rh(n.r))
	switch d := rh(n.l) - rh(n.r); {
	case d < -1:
		if rh(n.r.l) > rh(n.r.r) {
			n.r = rotR(n.r)
		}
		return rotL(n)
	case d > 1:
		if rh(n.l.r) > rh(n.l.l) {
			n.l = rotL(n.l)
		}
		return rotR(n)
	}
	return n
}

func (m *model[T]) add(v T) {
	m.root = m.addAt(m.root, v)
	m.count++
}

func (m *model[T]) addAt(n *rnode[T], v T) *rnode[T] {
	if n == nil {
		return &rnode[T]{v: v}
	}
	if m.cmp(v, n.v) < 0 {
		n.l = m.addAt(n.l, v)
	} else {
		n.r = m.addAt(n.r, v)
	}
	return fix(n)
}

func (m *model[T]) contains(v T) bool {
	n := m.root
	for n != nil {
		if n.v == v {
			return true
		}
		if n.l != nil && m.cmp(v, n.v) < 0 {
			n = n.l
		} else {
			n = n.r
		}
	}
	return false
}

func (m *model[T]) remove(v T) bool {
	if m.root == nil {
		return false
	}
	root, ok := m.removeAt(m.root, v)
	if ok {
		m.root = root
		m.count--
	}
	return ok
}

func (m *model[T]) removeAt(n *rnode[T], v T) (*rnode[T], bool) {
	if n.v == v {
		if n.l == nil {
			return n.r, true
		}
		if n.r == nil {
			return n.l, true
		}
		rest, min := popMin(n.r)
		min.l, min.r = n.l, rest
		return fix(min), true
	}
	if n.l != nil && m.cmp(v, n.v) < 0 {
		sub, ok := m.removeAt(n.l, v)
		if !ok {
			return n, false
		}
		n.l = sub
		return fix(n), true
	}
	if n.r != nil {
		sub, ok := m.removeAt(n.r, v)
		if !ok {
			return n, false
		}
		n.r = sub
		return fix(n), true
	}
	return n, false
}

func popMin[T comparable](n *rnode[T]) (rest, min *rnode[T]) {
	if n.l == nil {
		return n.r, n
	}
	n.l, min = popMin(n.l)
	return fix(n), min
}

func (m *model[T]) walk(order int) []T {
	out := make([]T, 0, m.count)
	var rec func(n *rnode[T])
	rec = func(n *rnode[T]) {
		if n == nil {
			return
		}
		if order == 0 {
			out = append(out, n.v)
		}
		rec(n.l)
		if order == 1 {
			out = append(out, n.v)
		}
		rec(n.r)
		if order == 2 {
			out = append(out, n.v)
		}
	}
	rec(m.root)
	return out
}

// ---------------------------------------------------------------------------
// Harness driving library and model side by side.
// ---------------------------------------------------------------------------

type call[T comparable] struct{ a, b T }

type harness[T comparable] struct {
	t       *testing.T
	tree    avl.Tree[T]
	ref     *model[T]
	treeLog []call[T]
	refLog  []call[T]
}

func newHarness[T comparable](t *testing.T, cmp func(a, b T) int) *harness[T] {
	h := &harness[T]{t: t}
	h.tree = avl.New(func(a, b T) int {
		h.treeLog = append(h.treeLog, call[T]{a, b})
		return cmp(a, b)
	})
	h.ref = &model[T]{cmp: func(a, b T) int {
		h.refLog = append(h.refLog, call[T]{a, b})
		return cmp(a, b)
	}}
	return h
}

func (h *harness[T]) reset() { h.treeLog, h.refLog = h.treeLog[:0], h.refLog[:0] }

// sameCalls checks the comparator was consulted with the same arguments in
// the same order, and not more often than a generous multiple of the depth
// bound for a tree of n elements.
func (h *harness[T]) sameCalls(op string, n int) int {
	h.t.Helper()
	if !equal(h.treeLog, h.refLog) {
		h.t.Fatalf("%s: comparator calls differ: library %v, model %v", op, h.treeLog, h.refLog)
	}
	if limit := 2 * (levelBound(n+1) + 1); len(h.treeLog) > limit {
		h.t.Fatalf("%s: %d comparator calls on %d elements, limit %d", op, len(h.treeLog), n, limit)
	}
	return len(h.treeLog)
}

func (h *harness[T]) add(v T) {
	h.t.Helper()
	h.reset()
	n := h.tree.Len()
	h.tree.Add(v)
	h.ref.add(v)
	h.sameCalls(fmt.Sprint("Add ", v), n)
	if h.tree.Len() != n+1 {
		h.t.Fatalf("Add %v: Len went from %d to %d", v, n, h.tree.Len())
	}
}

func (h *harness[T]) remove(v T) bool {
	h.t.Helper()
	h.reset()
	n := h.tree.Len()
	got, want := h.tree.Remove(v), h.ref.remove(v)
	if got != want {
		h.t.Fatalf("Remove %v = %t, model says %t", v, got, want)
	}
	h.sameCalls(fmt.Sprint("Remove ", v), n)
	wantLen := n
	if got {
		wantLen--
	}
	if h.tree.Len() != wantLen {
		h.t.Fatalf("Remove %v = %t: Len went from %d to %d", v, got, n, h.tree.Len())
	}
	return got
}

func (h *harness[T]) contains(v T) bool {
	h.t.Helper()
	h.reset()
	got, want := h.tree.Contains(v), h.ref.contains(v)
	if got != want {
		h.t.Fatalf("Contains %v = %t, model says %t", v, got, want)
	}
	h.sameCalls(fmt.Sprint("Contains ", v), h.tree.Len())
	return got
}

func (h *harness[T]) sameTraversals(ctx string) {
	h.t.Helper()
	if h.tree.Len() != h.ref.count {
		h.t.Fatalf("%s: Len=%d, model has %d", ctx, h.tree.Len(), h.ref.count)
	}
	for order, got := range [][]T{h.tree.SlicePreOrder(), h.tree.SliceInOrder(), h.tree.SlicePostOrder()} {
		if want := h.ref.walk(order); !equal(got, want) {
			h.t.Fatalf("%s: traversal %d is %v, model has %v", ctx, order, got, want)
		}
	}
}

func cmpInt(a, b int) int {
	switch {
	case a < b:
		return -1
	case a > b:
		return 1
	}
	return 0
}

func lessInt(a, b int) bool { return a < b }

// fullCheck runs every check on an int harness holding distinct values.
func fullCheck(h *harness[int], less func(a, b int) bool, ctx string) {
	h.t.Helper()
	h.sameTraversals(ctx)
	checkShape(h.t, &h.tree, less, ctx)
}

// ---------------------------------------------------------------------------
// Tests
// ---------------------------------------------------------------------------

func TestEmptyAndSingle(t *testing.T) {
	tree := avl.NewOrdered[int]()
	if tree.Len() != 0 || tree.Contains(0) || tree.Remove(0) {
		t.Fatal("empty tree misbehaves")
	}
	for _, s := range [][]int{tree.SlicePreOrder(), tree.SliceInOrder(), tree.SlicePostOrder()} {
		if s == nil || len(s) != 0 {
			t.Fatalf("empty tree traversal = %#v", s)
		}
	}
	tree.WalkPreOrder(func(int) { t.Fatal("walker called on empty tree") })
	tree.WalkInOrder(func(int) { t.Fatal("walker called on empty tree") })
	tree.WalkPostOrder(func(int) { t.Fatal("walker called on empty tree") })
	if got := tree.String(); got != "[]" {
		t.Fatalf("String() = %q", got)
	}
	clone := tree.Clone()
	if clone.Len() != 0 {
		t.Fatal("clone of empty tree not empty")
	}
	clone.Add(3)
	clone.Add(1)
	if clone.Len() != 2 || tree.Len() != 0 || !clone.Contains(1) {
		t.Fatal("clone of empty tree unusable")
	}

	tree.Add(7)
	checkShape(t, &tree, lessInt, "single")
	if !tree.Contains(7) || tree.Contains(6) || tree.Contains(8) {
		t.Fatal("single: Contains wrong")
	}
	if tree.Remove(6) || tree.Remove(8) || tree.Len() != 1 {
		t.Fatal("single: removed a missing value")
	}
	if !tree.Remove(7) || tree.Len() != 0 || tree.Contains(7) || tree.Remove(7) {
		t.Fatal("single: Remove wrong")
	}
	tree.Add(1)
	tree.Add(2)
	tree.Add(3)
	tree.Clear()
	if tree.Len() != 0 || tree.Contains(2) || len(tree.SliceInOrder()) != 0 {
		t.Fatal("Clear wrong")
	}
	tree.Add(5)
	tree.Add(4)
	tree.Add(3)
	checkShape(t, &tree, lessInt, "after Clear")
	if got := tree.String(); got != "[3 4 5]" {
		t.Fatalf("String() = %q", got)
	}
}

// A zero Tree has no comparator: the first Add needs none, lookups on a
// single node need none either, the second Add panics before counting.
func TestZeroValueTree(t *testing.T) {
	var tree avl.Tree[int]
	if tree.Contains(1) || tree.Remove(1) || tree.Len() != 0 {
		t.Fatal("zero tree misbehaves")
	}
	tree.Add(1)
	if tree.Len() != 1 || !tree.Contains(1) || tree.Contains(2) || tree.Remove(2) {
		t.Fatal("zero tree with one element misbehaves")
	}
	func() {
		defer func() {
			if recover() == nil {
				t.Fatal("second Add on a comparator-less tree did not panic")
			}
		}()
		tree.Add(2)
	}()
	if tree.Len() != 1 || !equal(tree.SlicePreOrder(), []int{1}) {
		t.Fatalf("panicking Add changed the tree: Len=%d %v", tree.Len(), tree.SlicePreOrder())
	}
	if !tree.Remove(1) || tree.Len() != 0 {
		t.Fatal("zero tree: Remove wrong")
	}
}

func TestSortedInsertThenRemove(t *testing.T) {
	const n = 1100
	orders := map[string]func(i int) int{
		"ascending":  func(i int) int { return i },
		"descending": func(i int) int { return n - 1 - i },
		"zigzag": func(i int) int {
			if i%2 == 0 {
				return i / 2
			}
			return n - 1 - i/2
		},
		"inside-out": func(i int) int {
			if i%2 == 0 {
				return n/2 + i/2
			}
			return n/2 - 1 - i/2
		},
	}
	for name, at := range orders {
		name, at := name, at
		t.Run(name, func(t *testing.T) {
			t.Parallel()
			h := newHarness(t, cmpInt)
			for i := 0; i < n; i++ {
				h.add(at(i))
				fullCheck(h, lessInt, fmt.Sprintf("%s add #%d", name, i))
			}
			for i := 0; i < n; i++ {
				if !h.contains(at(i)) {
					t.Fatalf("lost %d", at(i))
				}
			}
			if h.contains(-1) || h.contains(n) || h.remove(-1) || h.remove(n) {
				t.Fatal("found a value never added")
			}
			// Remove in the same order the values went in, then verify.
			for i := 0; i < n; i++ {
				if !h.remove(at(i)) {
					t.Fatalf("could not remove %d", at(i))
				}
				if h.contains(at(i)) {
					t.Fatalf("%d still there", at(i))
				}
				fullCheck(h, lessInt, fmt.Sprintf("%s remove #%d", name, i))
			}
			if h.tree.Len() != 0 {
				t.Fatal("not empty")
			}
		})
	}
}

func TestRemoveFromOneSide(t *testing.T) {
	// Deleting only from the shallow side forces the rebalancing that
	// deletion needs all the way up (including the "equal heights" case of
	// the heavy child, which insertion never produces).
	for _, n := range []int{1, 2, 3, 7, 12, 33, 54, 88, 143, 500} {
		for _, fromLow := range []bool{true, false} {
			h := newHarness(t, cmpInt)
			perm := rand.New(rand.NewSource(int64(n))).Perm(n)
			for _, v := range perm {
				h.add(v)
			}
			fullCheck(h, lessInt, "built")
			for i := 0; i < n; i++ {
				v := i
				if !fromLow {
					v = n - 1 - i
				}
				if !h.remove(v) {
					t.Fatalf("n=%d: could not remove %d", n, v)
				}
				fullCheck(h, lessInt, fmt.Sprintf("n=%d fromLow=%t removed %d", n, fromLow, v))
			}
		}
	}
}

func permutations(n int, visit func(p []int)) {
	p := make([]int, n)
	for i := range p {
		p[i] = i
	}
	var rec func(k int)
	rec = func(k int) {
		if k == n {
			visit(p)
			return
		}
		for i := k; i < n; i++ {
			p[k], p[i] = p[i], p[k]
			rec(k + 1)
			p[k], p[i] = p[i], p[k]
		}
	}
	rec(0)
}

func TestExhaustiveSmallInsertionOrders(t *testing.T) {
	for n := 1; n <= 7; n++ {
		permutations(n, func(p []int) {
			h := newHarness(t, cmpInt)
			for i, v := range p {
				h.add(v)
				fullCheck(h, lessInt, fmt.Sprintf("perm %v add #%d", p, i))
			}
			// every single deletion from the finished tree
			for v := 0; v < n; v++ {
				c := newHarness(t, cmpInt)
				for _, w := range p {
					c.add(w)
				}
				if !c.remove(v) {
					t.Fatalf("perm %v: could not remove %d", p, v)
				}
				fullCheck(c, lessInt, fmt.Sprintf("perm %v remove %d", p, v))
			}
		})
	}
}

func TestExhaustiveSmallDeletionOrders(t *testing.T) {
	const n = 5
	permutations(n, func(ins []int) {
		ins = append([]int(nil), ins...)
		permutations(n, func(del []int) {
			h := newHarness(t, cmpInt)
			for _, v := range ins {
				h.add(v)
			}
			for i, v := range del {
				if !h.remove(v) {
					t.Fatalf("ins %v del %v: could not remove %d", ins, del, v)
				}
				fullCheck(h, lessInt, fmt.Sprintf("ins %v del %v step %d", ins, del, i))
			}
		})
	})
}

func TestRandomInterleavings(t *testing.T) {
	for seed := int64(1); seed <= 24; seed++ {
		seed := seed
		t.Run(fmt.Sprint("seed", seed), func(t *testing.T) {
			t.Parallel()
			rng := rand.New(rand.NewSource(seed))
			keys := 8 + rng.Intn(400)
			addBias := 30 + rng.Intn(50) // percent
			h := newHarness(t, cmpInt)
			present := map[int]bool{}
			for step := 0; step < 1500; step++ {
				v := rng.Intn(keys)
				ctx := fmt.Sprintf("seed %d step %d value %d", seed, step, v)
				if h.contains(v) != present[v] {
					t.Fatalf("%s: Contains != %t", ctx, present[v])
				}
				switch {
				case rng.Intn(100) < addBias:
					if present[v] {
						continue // keep values distinct so the shape is unique
					}
					h.add(v)
					present[v] = true
				default:
					if h.remove(v) != present[v] {
						t.Fatalf("%s: Remove != %t", ctx, present[v])
					}
					delete(present, v)
				}
				if len(present) != h.tree.Len() {
					t.Fatalf("%s: Len=%d, want %d", ctx, h.tree.Len(), len(present))
				}
				fullCheck(h, lessInt, ctx)
			}
			want := make([]int, 0, len(present))
			for v := range present {
				want = append(want, v)
			}
			sort.Ints(want)
			if !equal(h.tree.SliceInOrder(), want) {
				t.Fatalf("seed %d: final content %v, want %v", seed, h.tree.SliceInOrder(), want)
			}
			// Clone re-adds the values in pre-order: it has the layout the
			// model gets that way, is balanced, and is independent.
			before := h.tree.SlicePreOrder()
			clone := h.tree.Clone()
			replay := &model[int]{cmp: cmpInt}
			for _, v := range before {
				replay.add(v)
			}
			if !equal(clone.SlicePreOrder(), replay.walk(0)) || !equal(clone.SliceInOrder(), want) || clone.Len() != len(want) {
				t.Fatalf("seed %d: clone %v, model %v", seed, clone.SlicePreOrder(), replay.walk(0))
			}
			checkShape(t, &clone, lessInt, "fresh clone")
			for _, v := range want {
				if !clone.Remove(v) {
					t.Fatalf("seed %d: clone lost %d", seed, v)
				}
				checkShape(t, &clone, lessInt, "clone")
			}
			clone.Add(-5)
			if !equal(before, h.tree.SlicePreOrder()) || h.tree.Contains(-5) {
				t.Fatalf("seed %d: mutating the clone changed the original", seed)
			}
		})
	}
}

func TestLargeRandomDepthBound(t *testing.T) {
	rng := rand.New(rand.NewSource(99))
	h := newHarness(t, cmpInt)
	const n = 20000
	perm := rng.Perm(n)
	for i, v := range perm {
		h.add(v)
		if i%997 == 0 {
			fullCheck(h, lessInt, fmt.Sprint("large add ", i))
		}
	}
	fullCheck(h, lessInt, "large built")
	for i, v := range rng.Perm(n)[:n-100] {
		if !h.remove(v) {
			t.Fatalf("could not remove %d", v)
		}
		if i%997 == 0 {
			fullCheck(h, lessInt, fmt.Sprint("large remove ", i))
		}
	}
	fullCheck(h, lessInt, "large drained")
}

func TestReverseComparator(t *testing.T) {
	rev := func(a, b int) int { return cmpInt(b, a) }
	greater := func(a, b int) bool { return a > b }
	h := newHarness(t, rev)
	rng := rand.New(rand.NewSource(5))
	for i := 0; i < 300; i++ {
		h.add(i) // sorted the "wrong" way round for this comparator
		fullCheck(h, greater, fmt.Sprint("rev add ", i))
	}
	for _, v := range rng.Perm(300) {
		if !h.remove(v) {
			t.Fatalf("could not remove %d", v)
		}
		fullCheck(h, greater, fmt.Sprint("rev remove ", v))
	}
}

// Duplicates are allowed; the shape is then not unique from the traversals
// but must still agree with the model, and the content with a multiset.
func TestDuplicatesAgainstModel(t *testing.T) {
	for seed := int64(1); seed <= 12; seed++ {
		rng := rand.New(rand.NewSource(seed))
		h := newHarness(t, cmpInt)
		bag := map[int]int{}
		total := 0
		keys := 2 + rng.Intn(12)
		for step := 0; step < 600; step++ {
			v := rng.Intn(keys)
			ctx := fmt.Sprintf("dup seed %d step %d value %d", seed, step, v)
			if rng.Intn(100) < 55 {
				h.add(v)
				bag[v]++
				total++
			} else if h.remove(v) {
				if bag[v] == 0 {
					t.Fatalf("%s: removed a value that is not there", ctx)
				}
				bag[v]--
				total--
			}
			if h.contains(v) && bag[v] == 0 {
				t.Fatalf("%s: contains a value that is not there", ctx)
			}
			h.sameTraversals(ctx)
			if h.tree.Len() != total {
				t.Fatalf("%s: Len=%d want %d", ctx, h.tree.Len(), total)
			}
			in := h.tree.SliceInOrder()
			if !sort.IntsAreSorted(in) {
				t.Fatalf("%s: in-order not sorted: %v", ctx, in)
			}
			seen := map[int]int{}
			for _, x := range in {
				seen[x]++
			}
			for k, c := range bag {
				if seen[k] != c {
					t.Fatalf("%s: %d occurs %d times, want %d", ctx, k, seen[k], c)
				}
			}
		}
	}
	// all equal
	h := newHarness(t, cmpInt)
	for i := 0; i < 200; i++ {
		h.add(4)
		h.sameTraversals("all equal add")
	}
	for i := 0; i < 200; i++ {
		if !h.remove(4) {
			t.Fatal("all equal: remove failed")
		}
		h.sameTraversals("all equal remove")
	}
	if h.remove(4) || h.tree.Len() != 0 {
		t.Fatal("all equal: not empty")
	}
}

// Values that compare equal without being identical: lookups match with ==
// and steer with the comparator.
type rec struct{ key, id int }

func TestComparatorCoarserThanEquality(t *testing.T) {
	byKey := func(a, b rec) int { return cmpInt(a.key, b.key) }
	for seed := int64(1); seed <= 8; seed++ {
		rng := rand.New(rand.NewSource(seed))
		h := newHarness(t, byKey)
		for step := 0; step < 500; step++ {
			v := rec{rng.Intn(10), rng.Intn(4)}
			ctx := fmt.Sprintf("rec seed %d step %d %v", seed, step, v)
			switch rng.Intn(3) {
			case 0, 1:
				h.add(v)
			default:
				h.remove(v)
			}
			h.contains(v)
			h.contains(rec{v.key, 9})
			h.sameTraversals(ctx)
			in := h.tree.SliceInOrder()
			for i := 1; i < len(in); i++ {
				if in[i-1].key > in[i].key {
					t.Fatalf("%s: in-order not sorted by key: %v", ctx, in)
				}
			}
		}
	}
}

func TestStringsOrdered(t *testing.T) {
	tree := avl.NewOrdered[string]()
	words := []string{}
	for i := 0; i < 500; i++ {
		words = append(words, fmt.Sprintf("w%04d", i))
	}
	for _, w := range words {
		tree.Add(w)
	}
	// levels: count via pre/in reconstruction on indices
	toIdx := func(ss []string) []int {
		out := make([]int, len(ss))
		for i, s := range ss {
			fmt.Sscanf(s, "w%d", &out[i])
		}
		return out
	}
	s, err := rebuild(toIdx(tree.SlicePreOrder()), toIdx(tree.SliceInOrder()))
	if err != nil {
		t.Fatal(err)
	}
	hgt, size, err := audit(s)
	if err != nil || size != 500 || hgt+1 > levelBound(500) {
		t.Fatalf("strings: height %d size %d err %v", hgt, size, err)
	}
	for _, w := range words {
		if !tree.Contains(w) {
			t.Fatalf("lost %s", w)
		}
	}
	for i, w := range words {
		if !tree.Remove(w) || tree.Contains(w) || tree.Len() != 499-i {
			t.Fatalf("remove %s wrong", w)
		}
	}
}
