package demo_test

import (
	"fmt"
	"math"
	"math/rand"
	"runtime"
	"sort"
	"testing"

	"gopkg.in/typ.v4/slices"
)

// ---------------------------------------------------------------------------
// Reference model: a plain slice kept ordered with a lower-bound binary search
// that probes the same midpoints as sort.Search, so that even the sequence of
// calls made to the user's less function can be compared.
// ---------------------------------------------------------------------------

type model[T comparable] struct {
	items []T
	less  func(a, b T) bool
}

func newModel[T comparable](values []T, less func(a, b T) bool) *model[T] {
	items := make([]T, len(values))
	copy(items, values)
	sort.SliceStable(items, func(i, j int) bool { return less(items[i], items[j]) })
	return &model[T]{items, less}
}

func (m *model[T]) lowerBound(v T) int {
	lo, hi := 0, len(m.items)
	for lo < hi {
		mid := int(uint(lo+hi) >> 1)
		if m.less(m.items[mid], v) {
			lo = mid + 1
		} else {
			hi = mid
		}
	}
	return lo
}

func (m *model[T]) add(v T) int {
	i := m.lowerBound(v)
	var zero T
	m.items = append(m.items, zero)
	copy(m.items[i+1:], m.items[i:])
	m.items[i] = v
	return i
}

func (m *model[T]) index(v T) int {
	i := m.lowerBound(v)
	if i < len(m.items) && m.items[i] == v {
		return i
	}
	return -1
}

func (m *model[T]) removeAt(i int) {
	m.items = append(m.items[:i:i], m.items[i+1:]...)
}

func (m *model[T]) remove(v T) int {
	i := m.index(v)
	if i == -1 {
		return -1
	}
	m.removeAt(i)
	return i
}

// ---------------------------------------------------------------------------
// helpers
// ---------------------------------------------------------------------------

func panicValue(f func()) (v any, panicked bool) {
	defer func() {
		if r := recover(); r != nil {
			v, panicked = r, true
		}
	}()
	f()
	return nil, false
}

func rangeMsg(index, length int) string {
	return fmt.Sprintf("sortedslice: index out of range [%d] with length %d", index, length)
}

func expectPanicString(t *testing.T, what string, want string, f func()) {
	t.Helper()
	v, ok := panicValue(f)
	if !ok {
		t.Fatalf("%s: expected panic %q, got none", what, want)
	}
	s, isStr := v.(string)
	if !isStr || s != want {
		t.Fatalf("%s: panic value = %#v, want string %q", what, v, want)
	}
}

func expectRuntimePanic(t *testing.T, what string, f func()) {
	t.Helper()
	v, ok := panicValue(f)
	if !ok {
		t.Fatalf("%s: expected runtime panic, got none", what)
	}
	if _, isRt := v.(runtime.Error); !isRt {
		t.Fatalf("%s: panic value = %#v, want a runtime.Error", what, v)
	}
}

// same compares values through their printed form so that NaN == NaN here.
func same[T any](a, b T) bool { return fmt.Sprint(a) == fmt.Sprint(b) }

type call[T any] struct{ a, b T }

// check compares the complete observable state of s with the model.
func check[T comparable](t *testing.T, step string, s *slices.Sorted[T], m *model[T], strictOrder bool, rawLess func(a, b T) bool) {
	t.Helper()
	if s.Len() != len(m.items) {
		t.Fatalf("%s: Len = %d, want %d", step, s.Len(), len(m.items))
	}
	for i := range m.items {
		if got := s.Get(i); !same(got, m.items[i]) {
			t.Fatalf("%s: Get(%d) = %v, want %v (model %v, got %v)", step, i, got, m.items[i], m.items, s)
		}
	}
	if got, want := s.String(), fmt.Sprint(m.items); got != want {
		t.Fatalf("%s: String = %s, want %s", step, got, want)
	}
	if strictOrder {
		for i := 1; i < s.Len(); i++ {
			if rawLess(s.Get(i), s.Get(i-1)) {
				t.Fatalf("%s: not sorted at %d: %v", step, i, s)
			}
		}
	}
	n := s.Len()
	expectPanicString(t, step+": Get(-1)", rangeMsg(-1, n), func() { s.Get(-1) })
	expectPanicString(t, step+": Get(Len)", rangeMsg(n, n), func() { s.Get(n) })
}

// runHistory drives a random history of operations against the library and the
// model, comparing results, contents and the trace of less calls after each op.
func runHistory[T comparable](t *testing.T, seed int64, steps int, init []T, rawLess func(a, b T) bool, gen func(r *rand.Rand) T, strictOrder bool) {
	t.Helper()
	r := rand.New(rand.NewSource(seed))

	var libTrace, modTrace []call[T]
	libLess := func(a, b T) bool { libTrace = append(libTrace, call[T]{a, b}); return rawLess(a, b) }
	modLess := func(a, b T) bool { modTrace = append(modTrace, call[T]{a, b}); return rawLess(a, b) }

	initCopy := append([]T(nil), init...)
	sv := slices.NewSorted(init, libLess)
	s := &sv
	m := newModel(init, modLess)
	for i := range init {
		if !same(init[i], initCopy[i]) {
			t.Fatalf("NewSorted reordered its input: %v, was %v", init, initCopy)
		}
	}
	compareTrace := func(step string) {
		t.Helper()
		if len(libTrace) != len(modTrace) {
			t.Fatalf("%s: less was called %d times, model %d times", step, len(libTrace), len(modTrace))
		}
		for i := range libTrace {
			if !same(libTrace[i], modTrace[i]) {
				t.Fatalf("%s: less call %d = %v, model %v", step, i, libTrace[i], modTrace[i])
			}
		}
		libTrace, modTrace = libTrace[:0], modTrace[:0]
	}
	compareTrace("construct")
	check(t, "construct", s, m, strictOrder, rawLess)

	for step := 0; step < steps; step++ {
		name := fmt.Sprintf("seed %d step %d", seed, step)
		// pick a value: either fresh or one already inside
		v := gen(r)
		if len(m.items) > 0 && r.Intn(2) == 0 {
			v = m.items[r.Intn(len(m.items))]
		}
		op := r.Intn(10)
		if len(m.items) > 40 { // keep it small so duplicates and empties happen
			op = 4 + r.Intn(6)
		}
		switch {
		case op < 4:
			got, want := s.Add(v), m.add(v)
			if got != want {
				t.Fatalf("%s: Add(%v) = %d, want %d", name, v, got, want)
			}
			if strictOrder && !same(s.Get(got), v) {
				t.Fatalf("%s: Add(%v) returned %d but Get there is %v", name, v, got, s.Get(got))
			}
		case op < 6:
			got, want := s.Remove(v), m.remove(v)
			if got != want {
				t.Fatalf("%s: Remove(%v) = %d, want %d", name, v, got, want)
			}
		case op < 7:
			if len(m.items) == 0 {
				expectPanicString(t, name+": RemoveAt(0) on empty", rangeMsg(0, 0), func() { s.RemoveAt(0) })
				break
			}
			i := r.Intn(len(m.items))
			s.RemoveAt(i)
			m.removeAt(i)
		case op < 8:
			got, want := s.Index(v), m.index(v)
			if got != want {
				t.Fatalf("%s: Index(%v) = %d, want %d", name, v, got, want)
			}
			if strictOrder && got != -1 {
				if !same(s.Get(got), v) || (got > 0 && same(s.Get(got-1), v)) {
					t.Fatalf("%s: Index(%v) = %d is not the first occurrence in %v", name, v, got, s)
				}
			}
		case op < 9:
			got, want := s.Contains(v), m.index(v) != -1
			if got != want {
				t.Fatalf("%s: Contains(%v) = %v, want %v", name, v, got, want)
			}
		default:
			n := len(m.items)
			bad := []int{-1, n, n + 1, -n - 1, math.MaxInt, math.MinInt}
			i := bad[r.Intn(len(bad))]
			expectPanicString(t, name+": RemoveAt out of range", rangeMsg(i, n), func() { s.RemoveAt(i) })
			expectPanicString(t, name+": Get out of range", rangeMsg(i, n), func() { s.Get(i) })
		}
		compareTrace(name)
		check(t, name, s, m, strictOrder, rawLess)
	}
	// the caller's slice is still untouched after the whole history
	for i := range init {
		if !same(init[i], initCopy[i]) {
			t.Fatalf("history changed the caller's input: %v, was %v", init, initCopy)
		}
	}
}

// ---------------------------------------------------------------------------
// tests
// ---------------------------------------------------------------------------

func intLess(a, b int) bool { return a < b }

func TestHistoriesInt(t *testing.T) {
	for seed := int64(1); seed <= 60; seed++ {
		r := rand.New(rand.NewSource(seed * 977))
		init := make([]int, r.Intn(12))
		for i := range init {
			init[i] = r.Intn(9) - 2
		}
		if seed%7 == 0 {
			init = nil
		}
		runHistory(t, seed, 300, init, intLess, func(r *rand.Rand) int { return r.Intn(9) - 2 }, true)
	}
}

func TestHistoriesDescending(t *testing.T) {
	for seed := int64(1); seed <= 20; seed++ {
		runHistory(t, seed, 250, []int{3, 3, 9, 1, 0, 9}, func(a, b int) bool { return a > b },
			func(r *rand.Rand) int { return r.Intn(12) }, true)
	}
}

type rec struct {
	Key int
	Tag string
}

func TestHistoriesStructTotalOrder(t *testing.T) {
	less := func(a, b rec) bool {
		if a.Key != b.Key {
			return a.Key < b.Key
		}
		return a.Tag < b.Tag
	}
	gen := func(r *rand.Rand) rec { return rec{r.Intn(5), string(rune('a' + r.Intn(3)))} }
	for seed := int64(1); seed <= 20; seed++ {
		runHistory(t, seed, 250, []rec{{2, "b"}, {2, "a"}, {0, "c"}, {2, "a"}}, less, gen, true)
	}
}

// A less that only looks at Key cannot tell the tags apart; the behaviour is
// then whatever the lower-bound search yields - and it must stay exactly that.
func TestHistoriesStructWeakOrder(t *testing.T) {
	less := func(a, b rec) bool { return a.Key < b.Key }
	gen := func(r *rand.Rand) rec { return rec{r.Intn(4), string(rune('a' + r.Intn(3)))} }
	for seed := int64(1); seed <= 20; seed++ {
		runHistory(t, seed, 250, []rec{{2, "b"}, {2, "a"}, {0, "c"}, {2, "a"}}, less, gen, false)
	}
}

func TestHistoriesFloatWithNaN(t *testing.T) {
	less := func(a, b float64) bool { return a < b }
	gen := func(r *rand.Rand) float64 {
		switch r.Intn(8) {
		case 0:
			return math.NaN()
		case 1:
			return math.Inf(1)
		case 2:
			return math.Copysign(0, -1)
		}
		return float64(r.Intn(6))
	}
	for seed := int64(1); seed <= 20; seed++ {
		runHistory(t, seed, 200, []float64{2, math.NaN(), 1, 0}, less, gen, false)
	}
}

func TestHistoriesString(t *testing.T) {
	words := []string{"", "a", "ab", "b", "ba", "c"}
	for seed := int64(1); seed <= 10; seed++ {
		runHistory(t, seed, 200, []string{"b", "", "ab", "b"}, func(a, b string) bool { return a < b },
			func(r *rand.Rand) string { return words[r.Intn(len(words))] }, true)
	}
}

func TestNewSortedOrderedAgainstModel(t *testing.T) {
	r := rand.New(rand.NewSource(42))
	for round := 0; round < 200; round++ {
		vals := make([]int, r.Intn(20))
		for i := range vals {
			vals[i] = r.Intn(10)
		}
		keep := append([]int(nil), vals...)
		s := slices.NewSortedOrdered(vals...)
		m := newModel(vals, intLess)
		if got, want := s.String(), fmt.Sprint(m.items); got != want {
			t.Fatalf("NewSortedOrdered(%v) = %s, want %s", keep, got, want)
		}
		if fmt.Sprint(vals) != fmt.Sprint(keep) {
			t.Fatalf("NewSortedOrdered reordered its argument: %v, was %v", vals, keep)
		}
		for v := -1; v <= 10; v++ {
			if got, want := s.Index(v), m.index(v); got != want {
				t.Fatalf("Index(%d) on %s = %d, want %d", v, s, got, want)
			}
			if got, want := s.Contains(v), m.index(v) != -1; got != want {
				t.Fatalf("Contains(%d) on %s = %v, want %v", v, s, got, want)
			}
		}
		// absent value: Remove returns -1 and changes nothing
		before := s.String()
		if got := s.Remove(99); got != -1 || s.String() != before {
			t.Fatalf("Remove(absent) = %d, contents %s (was %s)", got, s, before)
		}
		if got := s.Remove(-5); got != -1 || s.String() != before {
			t.Fatalf("Remove(absent small) = %d, contents %s (was %s)", got, s, before)
		}
	}
}

type myInts []int

func TestInputIsCopiedNeverAliased(t *testing.T) {
	backing := []int{5, 1, 4, 100, 200, 300}
	in := myInts(backing[:3]) // named slice type, spare capacity behind it
	s := slices.NewSorted(in, intLess)
	if s.String() != "[1 4 5]" {
		t.Fatalf("got %s", s)
	}
	s.Add(2)
	s.Add(9)
	s.Remove(4)
	s.RemoveAt(0)
	if fmt.Sprint(backing) != "[5 1 4 100 200 300]" {
		t.Fatalf("input backing array was touched: %v", backing)
	}
	in[0], in[1], in[2] = -7, -8, -9
	if s.String() != "[2 5 9]" {
		t.Fatalf("sorted slice aliases its input: %s", s)
	}
	// nil and empty inputs
	for _, empty := range [][]int{nil, {}} {
		e := slices.NewSorted(empty, intLess)
		if e.Len() != 0 || e.String() != "[]" || e.Contains(0) || e.Index(0) != -1 || e.Remove(0) != -1 {
			t.Fatalf("empty input misbehaves: %s", e)
		}
		if got := e.Add(3); got != 0 || e.String() != "[3]" {
			t.Fatalf("Add on empty = %d, %s", got, e)
		}
	}
	o := slices.NewSortedOrdered[int]()
	if o.Len() != 0 || o.String() != "[]" {
		t.Fatalf("NewSortedOrdered() = %s", o)
	}
}

// Sorted is a struct holding a slice header, so copies of the struct share the
// backing array. What each operation writes into that array (and when it
// reallocates) is therefore observable and must not change.
func TestStructCopiesShareStorageExactlyAsBefore(t *testing.T) {
	a := slices.NewSortedOrdered(1, 3, 5, 7)
	b := a // len 4, same array
	if got := a.Remove(3); got != 1 {
		t.Fatalf("Remove(3) = %d", got)
	}
	if a.String() != "[1 5 7]" || b.String() != "[1 5 7 7]" {
		t.Fatalf("after Remove: a=%s b=%s", a, b)
	}
	c := a // len 3, cap 4
	if got := a.Add(4); got != 1 {
		t.Fatalf("Add(4) = %d", got)
	}
	if a.String() != "[1 4 5 7]" || b.String() != "[1 4 5 7]" || c.String() != "[1 4 5]" {
		t.Fatalf("after Add in spare capacity: a=%s b=%s c=%s", a, b, c)
	}
	a.RemoveAt(0)
	if a.String() != "[4 5 7]" || b.String() != "[4 5 7 7]" || c.String() != "[4 5 7]" {
		t.Fatalf("after RemoveAt(0): a=%s b=%s c=%s", a, b, c)
	}
	a.RemoveAt(2) // last element: nothing moves
	if a.String() != "[4 5]" || b.String() != "[4 5 7 7]" {
		t.Fatalf("after RemoveAt(last): a=%s b=%s", a, b)
	}
	// Add at full capacity reallocates: the old array is left alone.
	d := slices.NewSortedOrdered(10, 20, 30)
	e := d
	if got := d.Add(15); got != 1 {
		t.Fatalf("Add(15) = %d", got)
	}
	if d.String() != "[10 15 20 30]" || e.String() != "[10 20 30]" {
		t.Fatalf("after reallocating Add: d=%s e=%s", d, e)
	}
	// absent Remove writes nothing at all
	f := slices.NewSortedOrdered(1, 2, 4)
	g := f
	if f.Remove(3) != -1 || f.String() != "[1 2 4]" || g.String() != "[1 2 4]" {
		t.Fatalf("absent Remove: f=%s g=%s", f, g)
	}
	// appending at the end of spare capacity
	f.RemoveAt(1)
	h := f
	if got := f.Add(9); got != 2 {
		t.Fatalf("Add(9) = %d", got)
	}
	if f.String() != "[1 4 9]" || g.String() != "[1 4 9]" || h.String() != "[1 4]" {
		t.Fatalf("append in spare capacity: f=%s g=%s h=%s", f, g, h)
	}
}

func TestNilReceiverAndZeroValue(t *testing.T) {
	var np *slices.Sorted[int]
	if np.Len() != 0 {
		t.Fatalf("nil Len = %d", np.Len())
	}
	expectPanicString(t, "nil Get(0)", rangeMsg(0, 0), func() { np.Get(0) })
	expectPanicString(t, "nil Get(-3)", rangeMsg(-3, 0), func() { np.Get(-3) })
	expectPanicString(t, "nil RemoveAt(0)", rangeMsg(0, 0), func() { np.RemoveAt(0) })
	expectPanicString(t, "nil RemoveAt(2)", rangeMsg(2, 0), func() { np.RemoveAt(2) })
	expectPanicString(t, "nil Add", "sortedslice: tried to add to nil sortedslice", func() { np.Add(1) })
	expectRuntimePanic(t, "nil Remove", func() { np.Remove(1) })
	expectRuntimePanic(t, "nil Index", func() { np.Index(1) })
	expectRuntimePanic(t, "nil Contains", func() { np.Contains(1) })

	var z slices.Sorted[int]
	if z.Len() != 0 || z.String() != "[]" {
		t.Fatalf("zero value: Len %d String %s", z.Len(), z)
	}
	const notInit = "sortedslice: not initialized"
	expectPanicString(t, "zero Add", notInit, func() { z.Add(1) })
	expectPanicString(t, "zero Remove", notInit, func() { z.Remove(1) })
	expectPanicString(t, "zero Index", notInit, func() { z.Index(1) })
	expectPanicString(t, "zero Contains", notInit, func() { z.Contains(1) })
	expectPanicString(t, "zero Get(0)", rangeMsg(0, 0), func() { z.Get(0) })
	expectPanicString(t, "zero RemoveAt(0)", rangeMsg(0, 0), func() { z.RemoveAt(0) })
	if z.Len() != 0 || z.String() != "[]" {
		t.Fatalf("zero value changed: %s", z)
	}

	// nil less handed to the constructor with no values: same as the zero value
	nl := slices.NewSorted([]int(nil), nil)
	expectPanicString(t, "nil-less Add", notInit, func() { nl.Add(1) })
	expectPanicString(t, "nil-less Index", notInit, func() { nl.Index(1) })
}

// A panic thrown by the less function travels through unchanged and leaves the
// contents as they were.
func TestPanickingLess(t *testing.T) {
	type boom struct{ a, b int }
	armed := false
	less := func(a, b int) bool {
		if armed && (a == 13 || b == 13) {
			panic(boom{a, b})
		}
		return a < b
	}
	s := slices.NewSorted([]int{1, 2, 3, 4, 5, 6, 7}, less)
	c := s
	armed = true
	for name, f := range map[string]func(){
		"Add":      func() { s.Add(13) },
		"Remove":   func() { s.Remove(13) },
		"Index":    func() { s.Index(13) },
		"Contains": func() { s.Contains(13) },
	} {
		v, ok := panicValue(f)
		if !ok || v != (boom{4, 13}) { // first probe is the middle element
			t.Fatalf("%s: panic = %#v (%v), want boom{4,13}", name, v, ok)
		}
		if s.String() != "[1 2 3 4 5 6 7]" || c.String() != "[1 2 3 4 5 6 7]" || s.Len() != 7 {
			t.Fatalf("%s: contents changed by a panicking less: %s / %s", name, s, c)
		}
	}
	if got := s.Add(0); got != 0 || s.String() != "[0 1 2 3 4 5 6 7]" {
		t.Fatalf("still usable: %d %s", got, s)
	}
}

func TestSmallExhaustive(t *testing.T) {
	// every multiset over {0,1,2} of size <= 4, every operation, every value
	var rec func(prefix []int)
	rec = func(prefix []int) {
		for v := -1; v <= 3; v++ {
			for op := 0; op < 4; op++ {
				sv := slices.NewSortedOrdered(prefix...)
				m := newModel(prefix, intLess)
				var got, want int
				switch op {
				case 0:
					got, want = sv.Add(v), m.add(v)
				case 1:
					got, want = sv.Remove(v), m.remove(v)
				case 2:
					got, want = sv.Index(v), m.index(v)
				case 3:
					if sv.Contains(v) {
						got = 1
					}
					if m.index(v) != -1 {
						want = 1
					}
				}
				if got != want || sv.String() != fmt.Sprint(m.items) {
					t.Fatalf("init %v op %d value %d: got %d %s, want %d %v", prefix, op, v, got, sv, want, m.items)
				}
			}
		}
		for i := -1; i <= len(prefix); i++ {
			sv := slices.NewSortedOrdered(prefix...)
			m := newModel(prefix, intLess)
			if i < 0 || i >= len(prefix) {
				expectPanicString(t, "RemoveAt", rangeMsg(i, len(prefix)), func() { sv.RemoveAt(i) })
				expectPanicString(t, "Get", rangeMsg(i, len(prefix)), func() { sv.Get(i) })
			} else {
				if sv.Get(i) != m.items[i] {
					t.Fatalf("Get(%d) on %s", i, sv)
				}
				sv.RemoveAt(i)
				m.removeAt(i)
			}
			if sv.String() != fmt.Sprint(m.items) {
				t.Fatalf("init %v RemoveAt(%d): %s want %v", prefix, i, sv, m.items)
			}
		}
		if len(prefix) == 4 {
			return
		}
		for v := 0; v <= 2; v++ {
			rec(append(prefix[:len(prefix):len(prefix)], v))
		}
	}
	rec(nil)
}
