package demo

import (
	"fmt"
	"math/rand"
	"reflect"
	"sync"
	"testing"

	"gopkg.in/typ.v4/slices"
)

// IDs is a named slice type: the pieces must keep the caller's slice type.
type IDs []int

// piece describes one returned/observed piece by where it sits in the input.
type piece struct {
	off, length, capacity int
}

func (p piece) String() string { return fmt.Sprintf("[%d:+%d cap %d]", p.off, p.length, p.capacity) }

// locate maps a piece back onto the backing array of in (which must have been
// created by mk, so that element values equal their index in the backing
// array). Empty pieces cannot be located by content; their offset is reported
// as -1.
func locate[S ~[]int](p S) piece {
	if len(p) == 0 {
		return piece{-1, 0, cap(p)}
	}
	return piece{p[0], len(p), cap(p)}
}

// mk returns a slice of length n with extra spare capacity whose elements
// equal their index.
func mk(n, spare int) IDs {
	backing := make(IDs, n+spare)
	for i := range backing {
		backing[i] = i
	}
	return backing[:n]
}

func modelChunk(n, capacity, size int) []piece {
	var want []piece
	for off := 0; off < n; off += size {
		l := size
		if off+l > n {
			l = n - off
		}
		want = append(want, piece{off, l, capacity - off})
	}
	return want
}

func modelWindowed(n, capacity, size int) []piece {
	var want []piece
	for off := 0; off+size <= n; off++ {
		want = append(want, piece{off, size, capacity - off})
	}
	return want
}

func modelPairs(n int) [][2]int {
	var want [][2]int
	for i := 0; i+1 < n; i++ {
		want = append(want, [2]int{i, i + 1})
	}
	return want
}

func located(ps []IDs) []piece {
	var got []piece
	for _, p := range ps {
		got = append(got, locate(p))
	}
	return got
}

func checkIntact(t *testing.T, in IDs, ctx string) {
	t.Helper()
	for i, v := range in[:cap(in)] {
		if v != i {
			t.Fatalf("%s: input modified at %d: %d", ctx, i, v)
		}
	}
}

func checkAll(t *testing.T, n, spare, size int) {
	t.Helper()
	ctx := fmt.Sprintf("n=%d spare=%d size=%d", n, spare, size)
	in := mk(n, spare)

	// Chunk
	chunks := slices.Chunk(in, size)
	wantChunks := modelChunk(n, cap(in), size)
	if got := located(chunks); !reflect.DeepEqual(got, wantChunks) {
		t.Fatalf("%s: Chunk = %v, want %v", ctx, got, wantChunks)
	}
	if (chunks == nil) != (n == 0) {
		t.Fatalf("%s: Chunk nil-ness: got nil=%v", ctx, chunks == nil)
	}
	if wantCount := (n + size - 1) / size; len(chunks) != wantCount {
		t.Fatalf("%s: Chunk count %d, want %d", ctx, len(chunks), wantCount)
	}
	if n > 0 && cap(chunks) != len(chunks) {
		t.Fatalf("%s: Chunk result cap %d len %d", ctx, cap(chunks), len(chunks))
	}
	var concat IDs
	for i, c := range chunks {
		if len(c) == 0 {
			t.Fatalf("%s: Chunk piece %d is empty", ctx, i)
		}
		if len(c) != size && i != len(chunks)-1 {
			t.Fatalf("%s: Chunk piece %d has len %d", ctx, i, len(c))
		}
		if len(c) > size {
			t.Fatalf("%s: Chunk piece %d too long: %d", ctx, i, len(c))
		}
		concat = append(concat, c...)
	}
	if len(concat) != n || (n > 0 && !reflect.DeepEqual(concat, in)) {
		t.Fatalf("%s: Chunk concat = %v", ctx, concat)
	}
	var seenChunks []piece
	slices.ChunkFunc(in, size, func(c IDs) { seenChunks = append(seenChunks, locate(c)) })
	if !reflect.DeepEqual(seenChunks, wantChunks) {
		t.Fatalf("%s: ChunkFunc saw %v, want %v", ctx, seenChunks, wantChunks)
	}

	// Windowed
	windows := slices.Windowed(in, size)
	wantWindows := modelWindowed(n, cap(in), size)
	if got := located(windows); !reflect.DeepEqual(got, wantWindows) {
		t.Fatalf("%s: Windowed = %v, want %v", ctx, got, wantWindows)
	}
	if (windows == nil) != (n < size) {
		t.Fatalf("%s: Windowed nil-ness: got nil=%v", ctx, windows == nil)
	}
	wantCount := n - size + 1
	if wantCount < 0 {
		wantCount = 0
	}
	if len(windows) != wantCount || cap(windows) != wantCount {
		t.Fatalf("%s: Windowed len %d cap %d, want %d", ctx, len(windows), cap(windows), wantCount)
	}
	for i, w := range windows {
		if !reflect.DeepEqual(w, in[i:i+size]) {
			t.Fatalf("%s: window %d = %v", ctx, i, w)
		}
	}
	var seenWindows []piece
	slices.WindowedFunc(in, size, func(w IDs) { seenWindows = append(seenWindows, locate(w)) })
	if !reflect.DeepEqual(seenWindows, wantWindows) {
		t.Fatalf("%s: WindowedFunc saw %v, want %v", ctx, seenWindows, wantWindows)
	}

	checkIntact(t, in, ctx)
}

func checkPairs(t *testing.T, n, spare int) {
	t.Helper()
	ctx := fmt.Sprintf("n=%d spare=%d", n, spare)
	in := mk(n, spare)
	pairs := slices.Pairs(in)
	want := modelPairs(n)
	if !reflect.DeepEqual(pairs, want) {
		t.Fatalf("%s: Pairs = %v, want %v", ctx, pairs, want)
	}
	if (pairs == nil) != (n < 2) {
		t.Fatalf("%s: Pairs nil-ness: nil=%v", ctx, pairs == nil)
	}
	if n >= 2 && (len(pairs) != n-1 || cap(pairs) != n-1) {
		t.Fatalf("%s: Pairs len %d cap %d", ctx, len(pairs), cap(pairs))
	}
	var seen [][2]int
	slices.PairsFunc(in, func(a, b int) { seen = append(seen, [2]int{a, b}) })
	if !reflect.DeepEqual(seen, want) {
		t.Fatalf("%s: PairsFunc saw %v, want %v", ctx, seen, want)
	}
	checkIntact(t, in, ctx)
}

func TestExhaustiveSmall(t *testing.T) {
	for n := 0; n <= 40; n++ {
		for _, spare := range []int{0, 3} {
			checkPairs(t, n, spare)
			for size := 1; size <= 45; size++ {
				checkAll(t, n, spare, size)
			}
		}
	}
}

func TestRandomized(t *testing.T) {
	rng := rand.New(rand.NewSource(0xC13))
	for iter := 0; iter < 3000; iter++ {
		n := rng.Intn(400)
		spare := rng.Intn(5)
		var size int
		switch rng.Intn(5) {
		case 0:
			size = 1
		case 1:
			size = n + rng.Intn(3) // size == n, n+1, n+2
		case 2:
			size = 1 + rng.Intn(8)
		default:
			size = 1 + rng.Intn(n+20)
		}
		if size < 1 {
			size = 1
		}
		checkAll(t, n, spare, size)
		checkPairs(t, n, spare)
	}
}

func TestHugeSize(t *testing.T) {
	const maxInt = int(^uint(0) >> 1)
	for _, n := range []int{0, 1, 2, 7} {
		in := mk(n, 0)
		chunks := slices.Chunk(in, maxInt)
		if n == 0 {
			if chunks != nil {
				t.Fatalf("n=0: %v", chunks)
			}
		} else if len(chunks) != 1 || !reflect.DeepEqual(chunks[0], in) {
			t.Fatalf("n=%d: Chunk(maxInt) = %v", n, chunks)
		}
		calls := 0
		slices.ChunkFunc(in, maxInt, func(c IDs) {
			calls++
			if !reflect.DeepEqual(c, in) {
				t.Fatalf("n=%d: ChunkFunc(maxInt) chunk %v", n, c)
			}
		})
		if want := map[bool]int{true: 0, false: 1}[n == 0]; calls != want {
			t.Fatalf("n=%d: ChunkFunc(maxInt) calls %d", n, calls)
		}
		if w := slices.Windowed(in, maxInt); w != nil {
			t.Fatalf("n=%d: Windowed(maxInt) = %v", n, w)
		}
		slices.WindowedFunc(in, maxInt, func(IDs) { t.Fatalf("n=%d: unexpected window", n) })
	}
}

func TestNilAndEmptyInputs(t *testing.T) {
	for _, in := range []IDs{nil, {}} {
		for size := 1; size <= 3; size++ {
			if got := slices.Chunk(in, size); got != nil {
				t.Errorf("Chunk(%#v, %d) = %#v", in, size, got)
			}
			if got := slices.Windowed(in, size); got != nil {
				t.Errorf("Windowed(%#v, %d) = %#v", in, size, got)
			}
			slices.ChunkFunc(in, size, func(IDs) { t.Errorf("ChunkFunc called on empty") })
			slices.WindowedFunc(in, size, func(IDs) { t.Errorf("WindowedFunc called on empty") })
		}
		if got := slices.Pairs(in); got != nil {
			t.Errorf("Pairs(%#v) = %#v", in, got)
		}
		slices.PairsFunc(in, func(a, b int) { t.Errorf("PairsFunc called on empty") })
	}
	one := IDs{42}
	if got := slices.Pairs(one); got != nil {
		t.Errorf("Pairs(one) = %#v", got)
	}
	slices.PairsFunc(one, func(a, b int) { t.Errorf("PairsFunc called on singleton") })
}

func TestOtherElementTypes(t *testing.T) {
	words := []string{"a", "b", "c", "d", "e"}
	if got, want := slices.Chunk(words, 3), [][]string{{"a", "b", "c"}, {"d", "e"}}; !reflect.DeepEqual(got, want) {
		t.Errorf("Chunk strings = %v", got)
	}
	if got, want := slices.Chunk(words, 2), [][]string{{"a", "b"}, {"c", "d"}, {"e"}}; !reflect.DeepEqual(got, want) {
		t.Errorf("Chunk strings = %v", got)
	}
	if got, want := slices.Windowed(words, 4), [][]string{{"a", "b", "c", "d"}, {"b", "c", "d", "e"}}; !reflect.DeepEqual(got, want) {
		t.Errorf("Windowed strings = %v", got)
	}
	if got, want := slices.Pairs(words), [][2]string{{"a", "b"}, {"b", "c"}, {"c", "d"}, {"d", "e"}}; !reflect.DeepEqual(got, want) {
		t.Errorf("Pairs strings = %v", got)
	}
	// Duplicated values: pieces are positional, not value based.
	dup := []byte{7, 7, 7, 7, 7}
	if got := slices.Chunk(dup, 2); len(got) != 3 || len(got[2]) != 1 {
		t.Errorf("Chunk dup = %v", got)
	}
	if got := slices.Pairs(dup); len(got) != 4 {
		t.Errorf("Pairs dup = %v", got)
	}
	type rec struct {
		k string
		v *int
	}
	x := 1
	recs := []rec{{"a", &x}, {"b", nil}, {"c", &x}}
	ps := slices.Pairs(recs)
	if len(ps) != 2 || ps[0][1] != recs[1] || ps[1][0] != recs[1] || ps[1][1].v != &x {
		t.Errorf("Pairs recs = %v", ps)
	}
}

// The pieces alias the input: writes through a piece are visible in the input
// and in later pieces, also when done from inside a callback.
func TestAliasingAndCallbackWrites(t *testing.T) {
	in := mk(7, 2)
	chunks := slices.Chunk(in, 3)
	chunks[2][0] = 600
	if in[6] != 600 {
		t.Fatalf("Chunk pieces do not alias input: %v", in)
	}

	in = mk(6, 0)
	var seen [][]int
	slices.WindowedFunc(in, 3, func(w IDs) {
		seen = append(seen, append([]int(nil), w...))
		w[2] += 100 // visible as w[1] of the next window and w[0] of the one after
	})
	want := [][]int{{0, 1, 2}, {1, 102, 3}, {102, 103, 4}, {103, 104, 5}}
	if !reflect.DeepEqual(seen, want) {
		t.Fatalf("WindowedFunc with writes saw %v, want %v", seen, want)
	}

	in = mk(7, 0)
	seen = nil
	slices.ChunkFunc(in, 3, func(c IDs) {
		seen = append(seen, append([]int(nil), c...))
		if full := c[:cap(c)]; len(full) > len(c) {
			full[len(c)] = -1 // first element of the next chunk
		}
	})
	want = [][]int{{0, 1, 2}, {-1, 4, 5}, {-1}}
	if !reflect.DeepEqual(seen, want) {
		t.Fatalf("ChunkFunc with writes saw %v, want %v", seen, want)
	}

	in = mk(5, 0)
	var pairs [][2]int
	i := 0
	slices.PairsFunc(in, func(a, b int) {
		pairs = append(pairs, [2]int{a, b})
		in[i+1] = b * 10 // the next call's first argument is read afresh
		i++
	})
	wantPairs := [][2]int{{0, 1}, {10, 2}, {20, 3}, {30, 4}}
	if !reflect.DeepEqual(pairs, wantPairs) {
		t.Fatalf("PairsFunc with writes saw %v, want %v", pairs, wantPairs)
	}
}

// A panicking callback stops the iteration right there and the panic value
// reaches the caller unchanged.
func TestCallbackPanicPropagates(t *testing.T) {
	type boom struct{ at int }
	run := func(name string, total int, f func(cb func())) {
		for stop := 1; stop <= total; stop++ {
			calls := 0
			func() {
				defer func() {
					r := recover()
					if r != (boom{stop}) {
						t.Errorf("%s stop=%d: recovered %v", name, stop, r)
					}
				}()
				f(func() {
					calls++
					if calls == stop {
						panic(boom{stop})
					}
				})
			}()
			if calls != stop {
				t.Errorf("%s stop=%d: %d calls", name, stop, calls)
			}
		}
	}
	in := mk(8, 0)
	run("ChunkFunc", 3, func(cb func()) { slices.ChunkFunc(in, 3, func(IDs) { cb() }) })
	run("WindowedFunc", 6, func(cb func()) { slices.WindowedFunc(in, 3, func(IDs) { cb() }) })
	run("PairsFunc", 7, func(cb func()) { slices.PairsFunc(in, func(int, int) { cb() }) })
}

// outcome runs f and reports whether it panicked.
func outcome(f func()) (panicked bool) {
	defer func() {
		if recover() != nil {
			panicked = true
		}
	}()
	f()
	return false
}

// Sizes below one are outside the documented domain; the long-standing
// behaviour there is pinned so that refactorings do not silently change it.
func TestDegenerateSizes(t *testing.T) {
	for n := 0; n <= 9; n++ {
		for size := 0; size >= -11; size-- {
			ctx := fmt.Sprintf("n=%d size=%d", n, size)
			in := mk(n, 1)

			// Chunk / ChunkFunc: nothing for empty input; otherwise one chunk
			// holding everything when -size > n, and a panic in all other cases.
			var chunks []IDs
			var seen []piece
			chunkPanicked := outcome(func() { chunks = slices.Chunk(in, size) })
			funcPanicked := outcome(func() {
				slices.ChunkFunc(in, size, func(c IDs) { seen = append(seen, locate(c)) })
			})
			switch {
			case n == 0:
				if chunkPanicked || funcPanicked || chunks != nil || seen != nil {
					t.Errorf("%s: empty input: %v %v %v %v", ctx, chunkPanicked, funcPanicked, chunks, seen)
				}
			case size < 0 && -size > n:
				want := []piece{{0, n, n + 1}}
				if chunkPanicked || funcPanicked || !reflect.DeepEqual(located(chunks), want) || !reflect.DeepEqual(seen, want) {
					t.Errorf("%s: want single chunk: %v %v %v %v", ctx, chunkPanicked, funcPanicked, chunks, seen)
				}
			default:
				if !chunkPanicked || !funcPanicked || seen != nil {
					t.Errorf("%s: want panics without callbacks: %v %v %v", ctx, chunkPanicked, funcPanicked, seen)
				}
			}

			// Windowed / WindowedFunc: n+1 empty windows for size 0, panic
			// before any callback for negative sizes.
			var windows []IDs
			calls, nonEmpty := 0, 0
			windowedPanicked := outcome(func() { windows = slices.Windowed(in, size) })
			windowedFuncPanicked := outcome(func() {
				slices.WindowedFunc(in, size, func(w IDs) {
					calls++
					if len(w) != 0 {
						nonEmpty++
					}
				})
			})
			if size == 0 {
				if windowedPanicked || windowedFuncPanicked || len(windows) != n+1 || calls != n+1 || nonEmpty != 0 {
					t.Errorf("%s: Windowed size 0: %v %v %d %d %d", ctx, windowedPanicked, windowedFuncPanicked, len(windows), calls, nonEmpty)
				}
				for i, w := range windows {
					if len(w) != 0 || cap(w) != n+1-i {
						t.Errorf("%s: window %d len %d cap %d", ctx, i, len(w), cap(w))
					}
				}
			} else if !windowedPanicked || !windowedFuncPanicked || calls != 0 {
				t.Errorf("%s: Windowed negative: %v %v %d", ctx, windowedPanicked, windowedFuncPanicked, calls)
			}
			checkIntact(t, in, ctx)
		}
	}
}

// The functions only read the input, so concurrent callers may share it.
func TestConcurrentReaders(t *testing.T) {
	const n = 257
	in := mk(n, 4)
	var wg sync.WaitGroup
	errs := make(chan string, 64)
	for g := 0; g < 8; g++ {
		wg.Add(1)
		go func(g int) {
			defer wg.Done()
			rng := rand.New(rand.NewSource(int64(1000 + g)))
			for iter := 0; iter < 200; iter++ {
				size := 1 + rng.Intn(n+5)
				wantC := modelChunk(n, cap(in), size)
				wantW := modelWindowed(n, cap(in), size)
				if got := located(slices.Chunk(in, size)); !reflect.DeepEqual(got, wantC) {
					errs <- fmt.Sprintf("g%d Chunk size %d", g, size)
					return
				}
				var seen []piece
				slices.ChunkFunc(in, size, func(c IDs) { seen = append(seen, locate(c)) })
				if !reflect.DeepEqual(seen, wantC) {
					errs <- fmt.Sprintf("g%d ChunkFunc size %d", g, size)
					return
				}
				if got := located(slices.Windowed(in, size)); !reflect.DeepEqual(got, wantW) {
					errs <- fmt.Sprintf("g%d Windowed size %d", g, size)
					return
				}
				seen = nil
				slices.WindowedFunc(in, size, func(w IDs) { seen = append(seen, locate(w)) })
				if !reflect.DeepEqual(seen, wantW) {
					errs <- fmt.Sprintf("g%d WindowedFunc size %d", g, size)
					return
				}
				if got := slices.Pairs(in); !reflect.DeepEqual(got, modelPairs(n)) {
					errs <- fmt.Sprintf("g%d Pairs", g)
					return
				}
				var ps [][2]int
				slices.PairsFunc(in, func(a, b int) { ps = append(ps, [2]int{a, b}) })
				if !reflect.DeepEqual(ps, modelPairs(n)) {
					errs <- fmt.Sprintf("g%d PairsFunc", g)
					return
				}
			}
		}(g)
	}
	wg.Wait()
	close(errs)
	for e := range errs {
		t.Error(e)
	}
	checkIntact(t, in, "concurrent")
}
