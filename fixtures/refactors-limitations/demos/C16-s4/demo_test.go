package demo_test

import (
	"fmt"
	"math/rand"
	"testing"

	"gopkg.in/typ.v4/lists"
)

// ---------- Stack ----------

func checkStackPeekLen(t *testing.T, s *lists.Stack[int], model []int, step int) {
	t.Helper()
	if len(*s) != len(model) {
		t.Fatalf("step %d: len=%d want %d", step, len(*s), len(model))
	}
	v, ok := s.Peek()
	if len(model) == 0 {
		if ok || v != 0 {
			t.Fatalf("step %d: Peek on empty = %v,%v", step, v, ok)
		}
	} else if !ok || v != model[len(model)-1] {
		t.Fatalf("step %d: Peek = %v,%v want %v,true", step, v, ok, model[len(model)-1])
	}
	// Peek must not modify.
	if len(*s) != len(model) {
		t.Fatalf("step %d: Peek changed len", step)
	}
	for i := range model {
		if (*s)[i] != model[i] {
			t.Fatalf("step %d: content[%d]=%d want %d", step, i, (*s)[i], model[i])
		}
	}
}

func TestStackRandomHistories(t *testing.T) {
	for seed := int64(0); seed < 200; seed++ {
		rng := rand.New(rand.NewSource(seed))
		var s lists.Stack[int]
		var model []int
		pushBias := 1 + rng.Intn(9) // 1..9 out of 10
		for step := 0; step < 300; step++ {
			checkStackPeekLen(t, &s, model, step)
			if rng.Intn(10) < pushBias {
				v := rng.Intn(1000) + 1
				s.Push(v)
				model = append(model, v)
			} else {
				v, ok := s.Pop()
				if len(model) == 0 {
					if ok || v != 0 {
						t.Fatalf("seed %d step %d: Pop on empty = %v,%v", seed, step, v, ok)
					}
				} else {
					want := model[len(model)-1]
					model = model[:len(model)-1]
					if !ok || v != want {
						t.Fatalf("seed %d step %d: Pop = %v,%v want %v,true", seed, step, v, ok, want)
					}
				}
			}
		}
		// drain and refill
		for len(model) > 0 {
			v, ok := s.Pop()
			want := model[len(model)-1]
			model = model[:len(model)-1]
			if !ok || v != want {
				t.Fatalf("drain: %v,%v want %v", v, ok, want)
			}
		}
		for i := 0; i < 3; i++ {
			if v, ok := s.Pop(); ok || v != 0 {
				t.Fatalf("Pop on drained = %v,%v", v, ok)
			}
			if v, ok := s.Peek(); ok || v != 0 {
				t.Fatalf("Peek on drained = %v,%v", v, ok)
			}
			if len(s) != 0 {
				t.Fatalf("drained len=%d", len(s))
			}
		}
		s.Push(42)
		if v, ok := s.Peek(); !ok || v != 42 {
			t.Fatalf("refill Peek = %v,%v", v, ok)
		}
		if v, ok := s.Pop(); !ok || v != 42 {
			t.Fatalf("refill Pop = %v,%v", v, ok)
		}
	}
}

func TestStackNilAndEmpty(t *testing.T) {
	var np *lists.Stack[string]
	if v, ok := np.Peek(); ok || v != "" {
		t.Fatalf("nil Peek = %q,%v", v, ok)
	}
	if v, ok := np.Pop(); ok || v != "" {
		t.Fatalf("nil Pop = %q,%v", v, ok)
	}
	func() {
		defer func() {
			if recover() == nil {
				t.Fatalf("Push on nil *Stack did not panic")
			}
		}()
		np.Push("x")
	}()

	// nil slice and empty-non-nil slice
	var zero lists.Stack[string]
	if v, ok := zero.Pop(); ok || v != "" || zero != nil {
		t.Fatalf("zero Pop = %q,%v nil=%v", v, ok, zero == nil)
	}
	if v, ok := zero.Peek(); ok || v != "" || zero != nil {
		t.Fatalf("zero Peek = %q,%v nil=%v", v, ok, zero == nil)
	}
	empty := make(lists.Stack[string], 0, 4)
	if v, ok := empty.Pop(); ok || v != "" || empty == nil || cap(empty) != 4 {
		t.Fatalf("empty Pop = %q,%v", v, ok)
	}
	if v, ok := empty.Peek(); ok || v != "" || empty == nil || cap(empty) != 4 {
		t.Fatalf("empty Peek = %q,%v", v, ok)
	}
}

func TestStackStorageAliasing(t *testing.T) {
	backing := make([]int, 3, 8)
	backing[0], backing[1], backing[2] = 10, 20, 30
	s := lists.Stack[int](backing)
	v, ok := s.Pop()
	if !ok || v != 30 {
		t.Fatalf("Pop = %v,%v", v, ok)
	}
	// same backing array, same capacity, popped slot is not cleared
	if len(s) != 2 || cap(s) != 8 {
		t.Fatalf("len/cap = %d/%d", len(s), cap(s))
	}
	if &s[0] != &backing[0] {
		t.Fatalf("Pop reallocated")
	}
	if backing[2] != 30 || s[:3][2] != 30 {
		t.Fatalf("popped slot modified: %d", backing[2])
	}
	// Push reuses spare capacity in place
	s.Push(99)
	if backing[2] != 99 || &s[0] != &backing[0] || len(s) != 3 || cap(s) != 8 {
		t.Fatalf("Push did not append in place")
	}
	// Peek leaves everything
	if v, ok := s.Peek(); !ok || v != 99 || len(s) != 3 || cap(s) != 8 {
		t.Fatalf("Peek = %v,%v", v, ok)
	}
	// Pop down to empty keeps a non-nil zero-length slice with same cap
	s.Pop()
	s.Pop()
	s.Pop()
	if s == nil || len(s) != 0 || cap(s) != 8 {
		t.Fatalf("after drain: nil=%v len=%d cap=%d", s == nil, len(s), cap(s))
	}
	if v, ok := s.Pop(); ok || v != 0 || s == nil || cap(s) != 8 {
		t.Fatalf("Pop on drained = %v,%v", v, ok)
	}
	// full slice: Push must grow and not write through to old array's neighbours
	full := lists.Stack[int]([]int{1, 2, 3}[:3:3])
	old := full
	full.Push(4)
	if len(full) != 4 || full[3] != 4 || len(old) != 3 {
		t.Fatalf("grow push wrong")
	}
	full[0] = 77
	if old[0] == 77 {
		t.Fatalf("grown stack still aliases old full array")
	}
}

// ---------- Queue ----------

func checkQueuePeekLen(t *testing.T, q *lists.Queue[int], model []int, step int) {
	t.Helper()
	if q.Len() != len(model) {
		t.Fatalf("step %d: Len=%d want %d", step, q.Len(), len(model))
	}
	v, ok := q.Peek()
	if len(model) == 0 {
		if ok || v != 0 {
			t.Fatalf("step %d: Peek on empty = %v,%v", step, v, ok)
		}
	} else if !ok || v != model[0] {
		t.Fatalf("step %d: Peek = %v,%v want %v,true", step, v, ok, model[0])
	}
	if q.Len() != len(model) {
		t.Fatalf("step %d: Peek changed Len", step)
	}
}

func TestQueueRandomHistories(t *testing.T) {
	for seed := int64(0); seed < 200; seed++ {
		rng := rand.New(rand.NewSource(1000 + seed))
		var q lists.Queue[int]
		var model []int
		// operations on the zero value before any Enqueue
		if seed%2 == 0 {
			if v, ok := q.Dequeue(); ok || v != 0 {
				t.Fatalf("zero Dequeue = %v,%v", v, ok)
			}
			if v, ok := q.Peek(); ok || v != 0 {
				t.Fatalf("zero Peek = %v,%v", v, ok)
			}
			if q.Len() != 0 {
				t.Fatalf("zero Len = %d", q.Len())
			}
		}
		enqBias := 1 + rng.Intn(9)
		for step := 0; step < 300; step++ {
			checkQueuePeekLen(t, &q, model, step)
			if rng.Intn(10) < enqBias {
				v := rng.Intn(1000) + 1
				q.Enqueue(v)
				model = append(model, v)
			} else {
				v, ok := q.Dequeue()
				if len(model) == 0 {
					if ok || v != 0 {
						t.Fatalf("seed %d step %d: Dequeue on empty = %v,%v", seed, step, v, ok)
					}
				} else {
					want := model[0]
					model = model[1:]
					if !ok || v != want {
						t.Fatalf("seed %d step %d: Dequeue = %v,%v want %v,true", seed, step, v, ok, want)
					}
				}
			}
		}
		for len(model) > 0 {
			v, ok := q.Dequeue()
			if !ok || v != model[0] {
				t.Fatalf("drain: %v,%v want %v", v, ok, model[0])
			}
			model = model[1:]
		}
		for i := 0; i < 3; i++ {
			if v, ok := q.Dequeue(); ok || v != 0 {
				t.Fatalf("Dequeue on drained = %v,%v", v, ok)
			}
			if v, ok := q.Peek(); ok || v != 0 {
				t.Fatalf("Peek on drained = %v,%v", v, ok)
			}
			if q.Len() != 0 {
				t.Fatalf("drained Len=%d", q.Len())
			}
		}
		q.Enqueue(7)
		q.Enqueue(8)
		if v, ok := q.Peek(); !ok || v != 7 {
			t.Fatalf("refill Peek = %v,%v", v, ok)
		}
		if v, ok := q.Dequeue(); !ok || v != 7 {
			t.Fatalf("refill Dequeue = %v,%v", v, ok)
		}
		if v, ok := q.Dequeue(); !ok || v != 8 {
			t.Fatalf("refill Dequeue = %v,%v", v, ok)
		}
	}
}

func TestQueueNilReceiverPanics(t *testing.T) {
	var nq *lists.Queue[int]
	for name, f := range map[string]func(){
		"Len":     func() { nq.Len() },
		"Peek":    func() { nq.Peek() },
		"Dequeue": func() { nq.Dequeue() },
		"Enqueue": func() { nq.Enqueue(1) },
	} {
		func() {
			defer func() {
				if recover() == nil {
					t.Fatalf("%s on nil *Queue did not panic", name)
				}
			}()
			f()
		}()
	}
}

// A Queue copied by value shares elements that still belong to the original's
// list; Dequeue on the copy returns the back value but removes nothing.
func TestQueueValueCopy(t *testing.T) {
	var q lists.Queue[string]
	q.Enqueue("a")
	q.Enqueue("b")
	cp := q
	for i := 0; i < 3; i++ {
		if v, ok := cp.Dequeue(); !ok || v != "a" {
			t.Fatalf("copy Dequeue = %q,%v", v, ok)
		}
		if cp.Len() != 2 || q.Len() != 2 {
			t.Fatalf("copy Dequeue changed Len: %d %d", cp.Len(), q.Len())
		}
		if v, ok := cp.Peek(); !ok || v != "a" {
			t.Fatalf("copy Peek = %q,%v", v, ok)
		}
	}
	if v, ok := q.Dequeue(); !ok || v != "a" || q.Len() != 1 {
		t.Fatalf("orig Dequeue = %q,%v len %d", v, ok, q.Len())
	}
	if v, ok := q.Dequeue(); !ok || v != "b" || q.Len() != 0 {
		t.Fatalf("orig Dequeue = %q,%v len %d", v, ok, q.Len())
	}
}

// ---------- List (the Queue's storage) ----------

func listContents(l *lists.List[int]) []int {
	var out []int
	for e := l.Front(); e != nil; e = e.Next() {
		out = append(out, e.Value)
	}
	return out
}

func listContentsRev(l *lists.List[int]) []int {
	var out []int
	for e := l.Back(); e != nil; e = e.Prev() {
		out = append(out, e.Value)
	}
	return out
}

func TestListRandomHistories(t *testing.T) {
	for seed := int64(0); seed < 150; seed++ {
		rng := rand.New(rand.NewSource(5000 + seed))
		var l lists.List[int]
		if seed%3 == 0 {
			l.Init()
		}
		var model []int
		var elems []*lists.Element[int]
		for step := 0; step < 200; step++ {
			switch op := rng.Intn(6); {
			case op <= 1:
				v := rng.Intn(1000)
				e := l.PushFront(v)
				if e == nil || e.Value != v {
					t.Fatalf("PushFront returned %v", e)
				}
				model = append([]int{v}, model...)
				elems = append([]*lists.Element[int]{e}, elems...)
			case op == 2:
				v := rng.Intn(1000)
				e := l.PushBack(v)
				model = append(model, v)
				elems = append(elems, e)
			case op == 3 && len(model) > 0:
				e := l.Back()
				if e != elems[len(elems)-1] {
					t.Fatalf("Back is not the last element")
				}
				if got := l.Remove(e); got != model[len(model)-1] {
					t.Fatalf("Remove(Back) = %d", got)
				}
				if e.Next() != nil || e.Prev() != nil {
					t.Fatalf("removed element still linked")
				}
				// removing again is a no-op that still returns the value
				if got := l.Remove(e); got != model[len(model)-1] {
					t.Fatalf("second Remove = %d", got)
				}
				model = model[:len(model)-1]
				elems = elems[:len(elems)-1]
			case op == 4 && len(model) > 0:
				i := rng.Intn(len(model))
				if got := l.Remove(elems[i]); got != model[i] {
					t.Fatalf("Remove(%d) = %d want %d", i, got, model[i])
				}
				model = append(append([]int{}, model[:i]...), model[i+1:]...)
				elems = append(append([]*lists.Element[int]{}, elems[:i]...), elems[i+1:]...)
			case op == 5:
				// element of a different list: no-op
				other := lists.New[int]()
				fe := other.PushFront(-5)
				if got := l.Remove(fe); got != -5 || other.Len() != 1 {
					t.Fatalf("foreign Remove = %d, other.Len=%d", got, other.Len())
				}
			}
			if l.Len() != len(model) {
				t.Fatalf("seed %d step %d: Len=%d want %d", seed, step, l.Len(), len(model))
			}
			got := listContents(&l)
			if fmt.Sprint(got) != fmt.Sprint(model) {
				t.Fatalf("seed %d step %d: forward %v want %v", seed, step, got, model)
			}
			rev := listContentsRev(&l)
			for i := range model {
				if rev[len(model)-1-i] != model[i] {
					t.Fatalf("seed %d step %d: backward %v want reverse of %v", seed, step, rev, model)
				}
			}
			if len(model) == 0 {
				if l.Back() != nil || l.Front() != nil {
					t.Fatalf("empty list has Front/Back")
				}
			} else if l.Back() != elems[len(elems)-1] || l.Front() != elems[0] {
				t.Fatalf("Front/Back identity wrong")
			}
		}
	}
}
