package demo_test

import (
	stdlist "container/list"
	stdring "container/ring"
	"fmt"
	"math/rand"
	"testing"

	"gopkg.in/typ.v4/lists"
)

// ---------------------------------------------------------------------------
// List: lock-step against container/list through parallel handle tables.
// ---------------------------------------------------------------------------

type listWorld struct {
	t    *testing.T
	ours []*lists.List[int]
	std  []*stdlist.List
	ho   []*lists.Element[int] // handles, never deleted (live, removed, foreign)
	hs   []*stdlist.Element
	io   map[*lists.Element[int]]int
	is   map[*stdlist.Element]int
	log  []string
}

func newListWorld(t *testing.T) *listWorld {
	w := &listWorld{t: t, io: map[*lists.Element[int]]int{}, is: map[*stdlist.Element]int{}}
	// list 0 and 1: zero values; list 2: constructed with New.
	w.ours = []*lists.List[int]{new(lists.List[int]), {}, lists.New[int]()}
	w.std = []*stdlist.List{new(stdlist.List), {}, stdlist.New()}
	return w
}

func (w *listWorld) fail(format string, args ...any) {
	w.t.Helper()
	for _, l := range w.log {
		w.t.Log(l)
	}
	w.t.Fatalf(format, args...)
}

func (w *listWorld) idxO(e *lists.Element[int]) int {
	if e == nil {
		return -1
	}
	i, ok := w.io[e]
	if !ok {
		return -2
	}
	return i
}

func (w *listWorld) idxS(e *stdlist.Element) int {
	if e == nil {
		return -1
	}
	i, ok := w.is[e]
	if !ok {
		return -2
	}
	return i
}

// register records a pair of freshly returned elements (or checks both nil).
func (w *listWorld) register(o *lists.Element[int], s *stdlist.Element) {
	w.t.Helper()
	if (o == nil) != (s == nil) {
		w.fail("nil-ness of returned element differs: ours=%v std=%v", o, s)
	}
	if o == nil {
		return
	}
	if _, dup := w.io[o]; dup {
		w.fail("ours returned an already known element as new")
	}
	if o.Value != s.Value.(int) {
		w.fail("new element value differs: %d vs %d", o.Value, s.Value)
	}
	w.io[o] = len(w.ho)
	w.is[s] = len(w.hs)
	w.ho = append(w.ho, o)
	w.hs = append(w.hs, s)
}

// registerNew finds elements that entered the lists via PushBackList etc.
func (w *listWorld) registerNew(li int) {
	w.t.Helper()
	limit := len(w.ho) + 64
	o, s := w.ours[li].Front(), w.std[li].Front()
	for n := 0; n < limit; n++ {
		if (o == nil) != (s == nil) {
			w.fail("traversal nil-ness differs in list %d", li)
		}
		if o == nil {
			return
		}
		_, ko := w.io[o]
		_, ks := w.is[s]
		if ko != ks {
			w.fail("known-ness differs in list %d", li)
		}
		if !ko {
			w.register(o, s)
		}
		o, s = o.Next(), s.Next()
	}
}

func (w *listWorld) check() {
	w.t.Helper()
	limit := 2*len(w.ho) + 8
	for li := range w.ours {
		lo, ls := w.ours[li], w.std[li]
		if lo.Len() != ls.Len() {
			w.fail("list %d: Len %d vs %d", li, lo.Len(), ls.Len())
		}
		if a, b := w.idxO(lo.Front()), w.idxS(ls.Front()); a != b {
			w.fail("list %d: Front %d vs %d", li, a, b)
		}
		if a, b := w.idxO(lo.Back()), w.idxS(ls.Back()); a != b {
			w.fail("list %d: Back %d vs %d", li, a, b)
		}
		// forward
		o, s := lo.Front(), ls.Front()
		for n := 0; n < limit && (o != nil || s != nil); n++ {
			if a, b := w.idxO(o), w.idxS(s); a != b || a == -2 {
				w.fail("list %d: forward step %d: %d vs %d", li, n, a, b)
			}
			if o.Value != s.Value.(int) {
				w.fail("list %d: forward value differs", li)
			}
			o, s = o.Next(), s.Next()
		}
		// backward
		o, s = lo.Back(), ls.Back()
		for n := 0; n < limit && (o != nil || s != nil); n++ {
			if a, b := w.idxO(o), w.idxS(s); a != b || a == -2 {
				w.fail("list %d: backward step %d: %d vs %d", li, n, a, b)
			}
			o, s = o.Prev(), s.Prev()
		}
	}
	for i := range w.ho {
		if a, b := w.idxO(w.ho[i].Next()), w.idxS(w.hs[i].Next()); a != b {
			w.fail("handle %d: Next %d vs %d", i, a, b)
		}
		if a, b := w.idxO(w.ho[i].Prev()), w.idxS(w.hs[i].Prev()); a != b {
			w.fail("handle %d: Prev %d vs %d", i, a, b)
		}
		if w.ho[i].Value != w.hs[i].Value.(int) {
			w.fail("handle %d: Value differs", i)
		}
	}
}

// both runs fo and fs, requiring the same panic behaviour.
func (w *listWorld) both(fo, fs func()) (panicked bool) {
	w.t.Helper()
	run := func(f func()) (p bool) {
		defer func() {
			if recover() != nil {
				p = true
			}
		}()
		f()
		return false
	}
	po, ps := run(fo), run(fs)
	if po != ps {
		w.fail("panic behaviour differs: ours=%v std=%v", po, ps)
	}
	return po
}

func (w *listWorld) step(rng *rand.Rand, val int, allowInit bool) {
	w.t.Helper()
	li := rng.Intn(len(w.ours))
	lo, ls := w.ours[li], w.std[li]
	pick := func() int { return rng.Intn(len(w.ho)) }
	nops := 13
	op := rng.Intn(nops)
	if len(w.ho) == 0 && op >= 2 && op <= 8 {
		op = rng.Intn(2)
	}
	switch op {
	case 0:
		w.log = append(w.log, fmt.Sprintf("L%d.PushFront(%d)", li, val))
		w.register(lo.PushFront(val), ls.PushFront(val))
	case 1:
		w.log = append(w.log, fmt.Sprintf("L%d.PushBack(%d)", li, val))
		w.register(lo.PushBack(val), ls.PushBack(val))
	case 2:
		m := pick()
		w.log = append(w.log, fmt.Sprintf("L%d.InsertBefore(%d, h%d)", li, val, m))
		w.register(lo.InsertBefore(val, w.ho[m]), ls.InsertBefore(val, w.hs[m]))
	case 3:
		m := pick()
		w.log = append(w.log, fmt.Sprintf("L%d.InsertAfter(%d, h%d)", li, val, m))
		w.register(lo.InsertAfter(val, w.ho[m]), ls.InsertAfter(val, w.hs[m]))
	case 4:
		m := pick()
		w.log = append(w.log, fmt.Sprintf("L%d.Remove(h%d)", li, m))
		a, b := lo.Remove(w.ho[m]), ls.Remove(w.hs[m]).(int)
		if a != b {
			w.fail("Remove result %d vs %d", a, b)
		}
	case 5:
		m := pick()
		w.log = append(w.log, fmt.Sprintf("L%d.MoveToFront(h%d)", li, m))
		lo.MoveToFront(w.ho[m])
		ls.MoveToFront(w.hs[m])
	case 6:
		m := pick()
		w.log = append(w.log, fmt.Sprintf("L%d.MoveToBack(h%d)", li, m))
		lo.MoveToBack(w.ho[m])
		ls.MoveToBack(w.hs[m])
	case 7:
		e, m := pick(), pick()
		w.log = append(w.log, fmt.Sprintf("L%d.MoveBefore(h%d, h%d)", li, e, m))
		lo.MoveBefore(w.ho[e], w.ho[m])
		ls.MoveBefore(w.hs[e], w.hs[m])
	case 8:
		e, m := pick(), pick()
		w.log = append(w.log, fmt.Sprintf("L%d.MoveAfter(h%d, h%d)", li, e, m))
		lo.MoveAfter(w.ho[e], w.ho[m])
		ls.MoveAfter(w.hs[e], w.hs[m])
	case 9:
		oi := rng.Intn(len(w.ours)) // may be li itself
		if w.ours[oi].Len() > 40 {
			break
		}
		w.log = append(w.log, fmt.Sprintf("L%d.PushBackList(L%d)", li, oi))
		lo.PushBackList(w.ours[oi])
		ls.PushBackList(w.std[oi])
		w.registerNew(li)
	case 10:
		oi := rng.Intn(len(w.ours))
		if w.ours[oi].Len() > 40 {
			break
		}
		w.log = append(w.log, fmt.Sprintf("L%d.PushFrontList(L%d)", li, oi))
		lo.PushFrontList(w.ours[oi])
		ls.PushFrontList(w.std[oi])
		w.registerNew(li)
	case 11:
		// Init is only exercised on empty lists here so that no stale
		// handles with dangling neighbours are produced; see TestListInit.
		if allowInit && lo.Len() == 0 {
			w.log = append(w.log, fmt.Sprintf("L%d.Init()", li))
			if lo.Init() != lo || ls.Init() != ls {
				w.fail("Init must return its receiver")
			}
		}
	case 12:
		// pure observers, also on the zero value
		if lo.Len() != ls.Len() {
			w.fail("Len differs")
		}
	}
	w.check()
}

func TestListRandomLockStep(t *testing.T) {
	for seed := int64(0); seed < 300; seed++ {
		rng := rand.New(rand.NewSource(seed))
		w := newListWorld(t)
		w.check()
		for i := 0; i < 120; i++ {
			w.step(rng, int(seed)*1000+i, true)
		}
	}
}

func TestListZeroValue(t *testing.T) {
	// Every operation applied first to a zero-value list, with a foreign
	// element as the handle where one is needed.
	for op := 0; op < 11; op++ {
		w := newListWorld(t)
		// a foreign live element in list 2 and a removed one
		w.register(w.ours[2].PushBack(7), w.std[2].PushBack(7))
		w.register(w.ours[2].PushBack(8), w.std[2].PushBack(8))
		w.ours[2].Remove(w.ho[1])
		w.std[2].Remove(w.hs[1])
		lo, ls := w.ours[0], w.std[0]
		for h := 0; h < 2; h++ {
			switch op {
			case 0:
				w.register(lo.PushFront(1), ls.PushFront(1))
			case 1:
				w.register(lo.PushBack(1), ls.PushBack(1))
			case 2:
				w.register(lo.InsertBefore(1, w.ho[h]), ls.InsertBefore(1, w.hs[h]))
			case 3:
				w.register(lo.InsertAfter(1, w.ho[h]), ls.InsertAfter(1, w.hs[h]))
			case 4:
				if lo.Remove(w.ho[h]) != ls.Remove(w.hs[h]).(int) {
					t.Fatal("Remove value")
				}
			case 5:
				lo.MoveToFront(w.ho[h])
				ls.MoveToFront(w.hs[h])
			case 6:
				lo.MoveToBack(w.ho[h])
				ls.MoveToBack(w.hs[h])
			case 7:
				lo.MoveBefore(w.ho[h], w.ho[1-h])
				ls.MoveBefore(w.hs[h], w.hs[1-h])
			case 8:
				lo.MoveAfter(w.ho[h], w.ho[1-h])
				ls.MoveAfter(w.hs[h], w.hs[1-h])
			case 9:
				lo.PushBackList(w.ours[h]) // h==0: itself (zero), h==1: other zero list
				ls.PushBackList(w.std[h])
				lo.PushBackList(w.ours[2])
				ls.PushBackList(w.std[2])
				w.registerNew(0)
			case 10:
				lo.PushFrontList(w.ours[h])
				ls.PushFrontList(w.std[h])
				lo.PushFrontList(w.ours[2])
				ls.PushFrontList(w.std[2])
				w.registerNew(0)
			}
			w.check()
		}
	}
}

func TestListPushListSelf(t *testing.T) {
	for n := 0; n <= 6; n++ {
		for _, front := range []bool{false, true} {
			w := newListWorld(t)
			for i := 0; i < n; i++ {
				w.register(w.ours[0].PushBack(i), w.std[0].PushBack(i))
			}
			for rep := 0; rep < 3; rep++ {
				if front {
					w.ours[0].PushFrontList(w.ours[0])
					w.std[0].PushFrontList(w.std[0])
				} else {
					w.ours[0].PushBackList(w.ours[0])
					w.std[0].PushBackList(w.std[0])
				}
				w.registerNew(0)
				w.check()
				if w.ours[0].Len() != n<<(rep+1) {
					t.Fatalf("self push: len %d, want %d", w.ours[0].Len(), n<<(rep+1))
				}
			}
		}
	}
}

func TestListMoveAllPairs(t *testing.T) {
	// Exhaustive: list of n live elements plus one removed and one foreign
	// element; every (e, mark) pair for every move/insert/remove operation.
	const n = 4
	for op := 0; op < 7; op++ {
		for e := 0; e < n+2; e++ {
			for m := 0; m < n+2; m++ {
				w := newListWorld(t)
				for i := 0; i < n+1; i++ {
					w.register(w.ours[0].PushBack(i), w.std[0].PushBack(i))
				}
				w.ours[0].Remove(w.ho[n]) // handle n: removed
				w.std[0].Remove(w.hs[n])
				w.register(w.ours[1].PushBack(99), w.std[1].PushBack(99)) // handle n+1: foreign
				lo, ls := w.ours[0], w.std[0]
				switch op {
				case 0:
					lo.MoveBefore(w.ho[e], w.ho[m])
					ls.MoveBefore(w.hs[e], w.hs[m])
				case 1:
					lo.MoveAfter(w.ho[e], w.ho[m])
					ls.MoveAfter(w.hs[e], w.hs[m])
				case 2:
					lo.MoveToFront(w.ho[e])
					ls.MoveToFront(w.hs[e])
				case 3:
					lo.MoveToBack(w.ho[e])
					ls.MoveToBack(w.hs[e])
				case 4:
					w.register(lo.InsertBefore(50, w.ho[m]), ls.InsertBefore(50, w.hs[m]))
				case 5:
					w.register(lo.InsertAfter(50, w.ho[m]), ls.InsertAfter(50, w.hs[m]))
				case 6:
					if lo.Remove(w.ho[e]) != ls.Remove(w.hs[e]).(int) {
						t.Fatal("Remove value")
					}
					if lo.Remove(w.ho[m]) != ls.Remove(w.hs[m]).(int) {
						t.Fatal("Remove value")
					}
				}
				w.check()
			}
		}
	}
}

func TestListInit(t *testing.T) {
	// Init on a non-empty list, then keep using fresh elements only.
	w := newListWorld(t)
	for i := 0; i < 5; i++ {
		w.ours[0].PushBack(i)
		w.std[0].PushBack(i)
	}
	if w.ours[0].Init() != w.ours[0] {
		t.Fatal("Init result")
	}
	w.std[0].Init()
	w.check()
	rng := rand.New(rand.NewSource(42))
	for i := 0; i < 200; i++ {
		w.step(rng, i, true)
	}
}

func TestListNilElementPanics(t *testing.T) {
	// nil handles are outside the documented domain; the panics must match
	// the standard library all the same.
	w := newListWorld(t)
	w.register(w.ours[0].PushBack(1), w.std[0].PushBack(1))
	lo, ls := w.ours[0], w.std[0]
	e, s := w.ho[0], w.hs[0]
	cases := []struct {
		name   string
		fo, fs func()
	}{
		{"Remove", func() { lo.Remove(nil) }, func() { ls.Remove(nil) }},
		{"InsertBefore", func() { lo.InsertBefore(1, nil) }, func() { ls.InsertBefore(1, nil) }},
		{"InsertAfter", func() { lo.InsertAfter(1, nil) }, func() { ls.InsertAfter(1, nil) }},
		{"MoveToFront", func() { lo.MoveToFront(nil) }, func() { ls.MoveToFront(nil) }},
		{"MoveToBack", func() { lo.MoveToBack(nil) }, func() { ls.MoveToBack(nil) }},
		{"MoveBefore1", func() { lo.MoveBefore(nil, e) }, func() { ls.MoveBefore(nil, s) }},
		{"MoveBefore2", func() { lo.MoveBefore(e, nil) }, func() { ls.MoveBefore(s, nil) }},
		{"MoveAfter1", func() { lo.MoveAfter(nil, e) }, func() { ls.MoveAfter(nil, s) }},
		{"MoveAfter2", func() { lo.MoveAfter(e, nil) }, func() { ls.MoveAfter(s, nil) }},
	}
	for _, c := range cases {
		if !w.both(c.fo, c.fs) {
			t.Errorf("%s(nil): expected a panic in both", c.name)
		}
		w.check()
	}
}

// ---------------------------------------------------------------------------
// Ring: lock-step against container/ring.
// ---------------------------------------------------------------------------

type ringWorld struct {
	t   *testing.T
	ho  []*lists.Ring[int]
	hs  []*stdring.Ring
	io  map[*lists.Ring[int]]int
	is  map[*stdring.Ring]int
	log []string
}

func newRingWorld(t *testing.T) *ringWorld {
	return &ringWorld{t: t, io: map[*lists.Ring[int]]int{}, is: map[*stdring.Ring]int{}}
}

func (w *ringWorld) fail(format string, args ...any) {
	w.t.Helper()
	for _, l := range w.log {
		w.t.Log(l)
	}
	w.t.Fatalf(format, args...)
}

func (w *ringWorld) idxO(r *lists.Ring[int]) int {
	if r == nil {
		return -1
	}
	if i, ok := w.io[r]; ok {
		return i
	}
	return -2
}

func (w *ringWorld) idxS(r *stdring.Ring) int {
	if r == nil {
		return -1
	}
	if i, ok := w.is[r]; ok {
		return i
	}
	return -2
}

func (w *ringWorld) addNode(o *lists.Ring[int], s *stdring.Ring) {
	id := len(w.ho)
	o.Value = id
	s.Value = id
	w.io[o] = id
	w.is[s] = id
	w.ho = append(w.ho, o)
	w.hs = append(w.hs, s)
}

// addZero registers a pair of zero-value (uninitialised) one-element rings.
// The Value is left untouched (zero / nil) until first observed.
func (w *ringWorld) addZero() {
	o, s := new(lists.Ring[int]), new(stdring.Ring)
	id := len(w.ho)
	w.io[o] = id
	w.is[s] = id
	w.ho = append(w.ho, o)
	w.hs = append(w.hs, s)
	o.Value = id
	s.Value = id
}

func (w *ringWorld) addNew(n int) {
	w.t.Helper()
	o, s := lists.NewRing[int](n), stdring.New(n)
	if (o == nil) != (s == nil) {
		w.fail("NewRing(%d) nil-ness differs", n)
	}
	if o == nil {
		return
	}
	if o.Len() != s.Len() || o.Len() != n {
		w.fail("NewRing(%d) Len %d vs %d", n, o.Len(), s.Len())
	}
	po, ps := o, s
	for i := 0; i < n; i++ {
		w.addNode(po, ps)
		po, ps = po.Next(), ps.Next()
	}
	if po != o || ps != s {
		w.fail("NewRing(%d) is not circular with n elements", n)
	}
}

func (w *ringWorld) same(what string, o *lists.Ring[int], s *stdring.Ring) {
	w.t.Helper()
	if a, b := w.idxO(o), w.idxS(s); a != b || a == -2 {
		w.fail("%s: ours=%d std=%d", what, a, b)
	}
}

func (w *ringWorld) check() {
	w.t.Helper()
	for i := range w.ho {
		o, s := w.ho[i], w.hs[i]
		w.same(fmt.Sprintf("r%d.Next", i), o.Next(), s.Next())
		w.same(fmt.Sprintf("r%d.Prev", i), o.Prev(), s.Prev())
		if a, b := o.Len(), s.Len(); a != b {
			w.fail("r%d.Len %d vs %d", i, a, b)
		}
		var vo, vs []int
		o.Do(func(v int) { vo = append(vo, v) })
		s.Do(func(v any) { vs = append(vs, v.(int)) })
		if fmt.Sprint(vo) != fmt.Sprint(vs) {
			w.fail("r%d.Do %v vs %v", i, vo, vs)
		}
		// backward traversal
		po, ps := o, s
		for k := 0; k < len(vo); k++ {
			po, ps = po.Prev(), ps.Prev()
			w.same(fmt.Sprintf("r%d.Prev^%d", i, k+1), po, ps)
		}
		if po != o {
			w.fail("r%d: backward traversal does not return after Len steps", i)
		}
	}
}

func (w *ringWorld) step(rng *rand.Rand, doCheck bool) {
	w.t.Helper()
	i := rng.Intn(len(w.ho))
	o, s := w.ho[i], w.hs[i]
	switch rng.Intn(9) {
	case 0:
		w.log = append(w.log, fmt.Sprintf("r%d.Next()", i))
		w.same("Next", o.Next(), s.Next())
	case 1:
		w.log = append(w.log, fmt.Sprintf("r%d.Prev()", i))
		w.same("Prev", o.Prev(), s.Prev())
	case 2:
		n := rng.Intn(41) - 20
		w.log = append(w.log, fmt.Sprintf("r%d.Move(%d)", i, n))
		w.same("Move", o.Move(n), s.Move(n))
	case 3, 4:
		j := rng.Intn(len(w.ho)+1) - 1
		var so *lists.Ring[int]
		var ss *stdring.Ring
		if j >= 0 {
			so, ss = w.ho[j], w.hs[j]
		}
		w.log = append(w.log, fmt.Sprintf("r%d.Link(r%d)", i, j))
		w.same("Link", o.Link(so), s.Link(ss))
	case 5, 6:
		n := rng.Intn(16) - 3
		w.log = append(w.log, fmt.Sprintf("r%d.Unlink(%d)", i, n))
		w.same("Unlink", o.Unlink(n), s.Unlink(n))
	case 7:
		w.log = append(w.log, fmt.Sprintf("r%d.Len()", i))
		if a, b := o.Len(), s.Len(); a != b {
			w.fail("Len %d vs %d", a, b)
		}
	case 8:
		w.log = append(w.log, fmt.Sprintf("r%d.Do()", i))
		var vo, vs []int
		o.Do(func(v int) { vo = append(vo, v) })
		s.Do(func(v any) { vs = append(vs, v.(int)) })
		if fmt.Sprint(vo) != fmt.Sprint(vs) {
			w.fail("Do %v vs %v", vo, vs)
		}
	}
	if doCheck {
		w.check()
	}
}

func TestRingRandomLockStep(t *testing.T) {
	for seed := int64(0); seed < 300; seed++ {
		rng := rand.New(rand.NewSource(seed))
		w := newRingWorld(t)
		w.addNew(0)
		w.addNew(-3)
		w.addZero()
		w.addNew(1)
		w.addNew(rng.Intn(5) + 2)
		w.addZero()
		w.addNew(rng.Intn(4) + 1)
		w.addZero()
		// With odd seeds the full observation is only done at the end, so
		// that zero-value rings stay uninitialised until an operation under
		// test touches them.
		for k := 0; k < 80; k++ {
			w.step(rng, seed%2 == 0)
		}
		w.check()
	}
}

func TestRingNil(t *testing.T) {
	var o *lists.Ring[int]
	var s *stdring.Ring
	if o.Len() != 0 || s.Len() != 0 {
		t.Fatal("nil ring Len")
	}
	called := false
	o.Do(func(int) { called = true })
	if called {
		t.Fatal("nil ring Do called f")
	}
	if lists.NewRing[int](0) != nil || lists.NewRing[int](-1) != nil {
		t.Fatal("NewRing(n<=0) must be nil")
	}
}

func TestRingZeroValueEachOp(t *testing.T) {
	// Each operation applied as the very first one to a zero-value ring.
	for op := 0; op < 12; op++ {
		w := newRingWorld(t)
		w.addZero()
		w.addZero()
		w.addNew(3)
		o, s := w.ho[0], w.hs[0]
		switch op {
		case 0:
			w.same("Next", o.Next(), s.Next())
		case 1:
			w.same("Prev", o.Prev(), s.Prev())
		case 2:
			w.same("Move0", o.Move(0), s.Move(0))
		case 3:
			w.same("Move5", o.Move(5), s.Move(5))
		case 4:
			w.same("Move-5", o.Move(-5), s.Move(-5))
		case 5:
			w.same("LinkNil", o.Link(nil), s.Link(nil))
		case 6:
			w.same("LinkSelf", o.Link(o), s.Link(s))
		case 7:
			w.same("LinkZero", o.Link(w.ho[1]), s.Link(w.hs[1]))
		case 8:
			w.same("LinkInto", w.ho[3].Link(o), w.hs[3].Link(s))
		case 9:
			w.same("Unlink0", o.Unlink(0), s.Unlink(0))
			w.same("Unlink-1", o.Unlink(-1), s.Unlink(-1))
		case 10:
			w.same("Unlink3", o.Unlink(3), s.Unlink(3))
		case 11:
			if o.Len() != 1 || s.Len() != 1 {
				t.Fatal("zero ring Len")
			}
			var vo []int
			w.ho[1].Do(func(v int) { vo = append(vo, v) })
			if len(vo) != 1 || vo[0] != 1 {
				t.Fatalf("zero ring Do: %v", vo)
			}
		}
		w.check()
	}
}

func TestRingAllPairsLinkUnlinkMove(t *testing.T) {
	// Exhaustive over all (r, s) pairs of two rings (sizes 4 and 3) for Link,
	// and over all (r, n) for Unlink and Move.
	build := func() *ringWorld {
		w := newRingWorld(t)
		w.addNew(4)
		w.addNew(3)
		w.addNew(1)
		return w
	}
	total := 8
	for i := 0; i < total; i++ {
		for j := -1; j < total; j++ {
			w := build()
			var so *lists.Ring[int]
			var ss *stdring.Ring
			if j >= 0 {
				so, ss = w.ho[j], w.hs[j]
			}
			w.same("Link", w.ho[i].Link(so), w.hs[i].Link(ss))
			w.check()
		}
		for n := -3; n <= 13; n++ {
			w := build()
			w.same("Unlink", w.ho[i].Unlink(n), w.hs[i].Unlink(n))
			w.check()
			w = build()
			w.same("Move", w.ho[i].Move(n), w.hs[i].Move(n))
			w.same("Move-", w.ho[i].Move(-n), w.hs[i].Move(-n))
			w.check()
		}
	}
}
