package demo

import (
	"fmt"
	"math/rand"
	"strings"
	"sync"
	"testing"

	"gopkg.in/typ.v4/arrays"
)

// model is the reference: h rows of w independent cells.
type model struct {
	w, h  int
	cells [][]int
}

func newModel(w, h, v int) *model {
	m := &model{w: w, h: h, cells: make([][]int, h)}
	for y := range m.cells {
		m.cells[y] = make([]int, w)
		for x := range m.cells[y] {
			m.cells[y][x] = v
		}
	}
	return m
}

func (m *model) clone() *model {
	c := newModel(m.w, m.h, 0)
	for y := range m.cells {
		copy(c.cells[y], m.cells[y])
	}
	return c
}

func (m *model) String() string {
	var sb strings.Builder
	sb.WriteByte('[')
	for y := 0; y < m.h; y++ {
		if y > 0 {
			sb.WriteByte(' ')
		}
		sb.WriteByte('[')
		for x := 0; x < m.w; x++ {
			if x > 0 {
				sb.WriteByte(' ')
			}
			fmt.Fprint(&sb, m.cells[y][x])
		}
		sb.WriteByte(']')
	}
	sb.WriteByte(']')
	return sb.String()
}

// check compares every cell, every row window, the dimensions and String.
func check(t *testing.T, ctx string, a arrays.Array2D[int], m *model) {
	t.Helper()
	if a.Width() != m.w || a.Height() != m.h {
		t.Fatalf("%s: dims %dx%d, want %dx%d", ctx, a.Width(), a.Height(), m.w, m.h)
	}
	for y := 0; y < m.h; y++ {
		for x := 0; x < m.w; x++ {
			if got := a.Get(x, y); got != m.cells[y][x] {
				t.Fatalf("%s: Get(%d,%d)=%d, want %d", ctx, x, y, got, m.cells[y][x])
			}
		}
		row := a.Row(y)
		if len(row) != m.w {
			t.Fatalf("%s: len(Row(%d))=%d, want %d", ctx, y, len(row), m.w)
		}
		for x := range row {
			if row[x] != m.cells[y][x] {
				t.Fatalf("%s: Row(%d)[%d]=%d, want %d", ctx, y, x, row[x], m.cells[y][x])
			}
		}
	}
	if got, want := a.String(), m.String(); got != want {
		t.Fatalf("%s: String()=%q, want %q", ctx, got, want)
	}
}

// panicValue runs f and returns the recovered value (nil if none).
func panicValue(f func()) (v any) {
	defer func() { v = recover() }()
	f()
	return nil
}

func wantPanicMsg(t *testing.T, ctx string, want string, f func()) {
	t.Helper()
	v := panicValue(f)
	if v == nil {
		t.Fatalf("%s: expected panic %q, got none", ctx, want)
	}
	s, ok := v.(string)
	if !ok {
		t.Fatalf("%s: panic value %T(%v), want string %q", ctx, v, v, want)
	}
	if s != want {
		t.Fatalf("%s: panic %q, want %q", ctx, s, want)
	}
}

func xMsg(name string, x, w int) string {
	return fmt.Sprintf("array2d: %s index out of range [%d] with width %d", name, x, w)
}

func yMsg(name string, y, h int) string {
	return fmt.Sprintf("array2d: %s index out of range [%d] with height %d", name, y, h)
}

var shapes = [][2]int{
	{0, 0}, {0, 1}, {1, 0}, {0, 4}, {4, 0},
	{1, 1}, {1, 2}, {2, 1}, {1, 7}, {7, 1},
	{2, 2}, {2, 3}, {3, 2}, {3, 3}, {3, 5}, {5, 3},
	{4, 9}, {9, 4}, {6, 6}, {2, 11}, {11, 2}, {13, 7},
}

func inX(x, w int) bool { return x >= 0 && x < w }

// coords returns candidate coordinates for dimension n: inside and outside.
func coords(n int) []int {
	cs := []int{-3, -1, 0, n - 1, n, n + 1, n + 5}
	for i := 1; i < n-1; i++ {
		cs = append(cs, i)
	}
	return cs
}

// fewCoords is a smaller candidate set (for the four-dimensional Fill sweep).
func fewCoords(n int) []int {
	cs := []int{-1, 0, n - 1, n, n + 2}
	if n > 2 {
		cs = append(cs, n/2)
	}
	return cs
}

func TestNewIsZeroAndDistinctCells(t *testing.T) {
	for _, s := range shapes {
		w, h := s[0], s[1]
		a := arrays.New2D[int](w, h)
		m := newModel(w, h, 0)
		check(t, fmt.Sprintf("new %dx%d", w, h), a, m)
		// Injectivity: give every cell a unique value, then read all back.
		for y := 0; y < h; y++ {
			for x := 0; x < w; x++ {
				v := 1000 + y*w + x
				a.Set(x, y, v)
				m.cells[y][x] = v
				check(t, fmt.Sprintf("%dx%d after Set(%d,%d)", w, h, x, y), a, m)
			}
		}
	}
}

func TestGetSetOutOfBoundsPanicsUnchanged(t *testing.T) {
	for _, s := range shapes {
		w, h := s[0], s[1]
		a := arrays.New2D[int](w, h)
		m := newModel(w, h, 0)
		for y := 0; y < h; y++ {
			for x := 0; x < w; x++ {
				a.Set(x, y, 1+x+y*w)
				m.cells[y][x] = 1 + x + y*w
			}
		}
		for _, x := range coords(w) {
			for _, y := range coords(h) {
				ctx := fmt.Sprintf("%dx%d (%d,%d)", w, h, x, y)
				switch {
				case !inX(x, w):
					wantPanicMsg(t, ctx+" Get", xMsg("x", x, w), func() { a.Get(x, y) })
					wantPanicMsg(t, ctx+" Set", xMsg("x", x, w), func() { a.Set(x, y, -7) })
				case !inX(y, h):
					wantPanicMsg(t, ctx+" Get", yMsg("y", y, h), func() { a.Get(x, y) })
					wantPanicMsg(t, ctx+" Set", yMsg("y", y, h), func() { a.Set(x, y, -7) })
				default:
					if v := panicValue(func() { a.Get(x, y) }); v != nil {
						t.Fatalf("%s: unexpected panic %v", ctx, v)
					}
				}
				check(t, ctx, a, m)
			}
		}
	}
}

func TestRowAndRowSpanAreLiveWindows(t *testing.T) {
	for _, s := range shapes {
		w, h := s[0], s[1]
		a := arrays.New2D[int](w, h)
		m := newModel(w, h, 0)
		next := 1
		for _, y := range coords(h) {
			ctx := fmt.Sprintf("%dx%d Row(%d)", w, h, y)
			if !inX(y, h) {
				wantPanicMsg(t, ctx, yMsg("y", y, h), func() { a.Row(y) })
				check(t, ctx, a, m)
				continue
			}
			row := a.Row(y)
			if len(row) != w {
				t.Fatalf("%s: len=%d", ctx, len(row))
			}
			// write through the window
			for x := range row {
				row[x] = next
				m.cells[y][x] = next
				next++
			}
			check(t, ctx+" write-through", a, m)
			// and the window sees later Sets
			for x := 0; x < w; x++ {
				a.Set(x, y, next)
				m.cells[y][x] = next
				if row[x] != next {
					t.Fatalf("%s: window did not observe Set at x=%d", ctx, x)
				}
				next++
			}
			check(t, ctx+" read-through", a, m)
		}
		for _, y := range coords(h) {
			for _, x1 := range coords(w) {
				for _, x2 := range coords(w) {
					ctx := fmt.Sprintf("%dx%d RowSpan(%d,%d,%d)", w, h, x1, x2, y)
					switch {
					case !inX(x1, w):
						wantPanicMsg(t, ctx, xMsg("x1", x1, w), func() { a.RowSpan(x1, x2, y) })
					case !inX(y, h):
						wantPanicMsg(t, ctx, yMsg("y", y, h), func() { a.RowSpan(x1, x2, y) })
					case !inX(x2, w):
						wantPanicMsg(t, ctx, xMsg("x2", x2, w), func() { a.RowSpan(x1, x2, y) })
					case x1 > x2+1:
						// reversed span: runtime slice-bounds panic
						if v := panicValue(func() { a.RowSpan(x1, x2, y) }); v == nil {
							t.Fatalf("%s: expected panic", ctx)
						}
					case x1 == x2+1:
						if sp := a.RowSpan(x1, x2, y); len(sp) != 0 {
							t.Fatalf("%s: len=%d, want 0", ctx, len(sp))
						}
					default:
						sp := a.RowSpan(x1, x2, y)
						if len(sp) != x2-x1+1 {
							t.Fatalf("%s: len=%d, want %d", ctx, len(sp), x2-x1+1)
						}
						for i := range sp {
							if sp[i] != m.cells[y][x1+i] {
								t.Fatalf("%s: sp[%d]=%d, want %d", ctx, i, sp[i], m.cells[y][x1+i])
							}
							sp[i] = next
							m.cells[y][x1+i] = next
							next++
						}
						check(t, ctx+" write-through", a, m)
						a.Set(x1, y, next)
						m.cells[y][x1] = next
						if sp[0] != next {
							t.Fatalf("%s: window did not observe Set", ctx)
						}
						next++
					}
					check(t, ctx, a, m)
				}
			}
		}
	}
}

func TestFillExactRectangleAllCorners(t *testing.T) {
	for _, s := range shapes {
		w, h := s[0], s[1]
		a := arrays.New2D[int](w, h)
		m := newModel(w, h, 0)
		next := 1
		for _, x1 := range fewCoords(w) {
			for _, y1 := range fewCoords(h) {
				for _, x2 := range fewCoords(w) {
					for _, y2 := range fewCoords(h) {
						ctx := fmt.Sprintf("%dx%d Fill(%d,%d,%d,%d)", w, h, x1, y1, x2, y2)
						f := func() { a.Fill(x1, y1, x2, y2, next) }
						switch {
						case !inX(x1, w):
							wantPanicMsg(t, ctx, xMsg("x1", x1, w), f)
						case !inX(y1, h):
							wantPanicMsg(t, ctx, yMsg("y1", y1, h), f)
						case !inX(x2, w):
							wantPanicMsg(t, ctx, xMsg("x2", x2, w), f)
						case !inX(y2, h):
							wantPanicMsg(t, ctx, yMsg("y2", y2, h), f)
						default:
							f()
							lx, hx, ly, hy := x1, x2, y1, y2
							if lx > hx {
								lx, hx = hx, lx
							}
							if ly > hy {
								ly, hy = hy, ly
							}
							for y := ly; y <= hy; y++ {
								for x := lx; x <= hx; x++ {
									m.cells[y][x] = next
								}
							}
						}
						next++
						check(t, ctx, a, m)
					}
				}
			}
		}
	}
}

func TestFillRandomizedAgainstModel(t *testing.T) {
	rng := rand.New(rand.NewSource(8))
	for iter := 0; iter < 300; iter++ {
		w, h := 1+rng.Intn(12), 1+rng.Intn(12)
		a := arrays.New2DFilled(w, h, -1)
		m := newModel(w, h, -1)
		for op := 0; op < 25; op++ {
			x1, x2, y1, y2 := rng.Intn(w), rng.Intn(w), rng.Intn(h), rng.Intn(h)
			switch rng.Intn(4) {
			case 0: // full width
				x1, x2 = 0, w-1
			case 1: // full width reversed
				x1, x2 = w-1, 0
			}
			v := rng.Intn(1000)
			a.Fill(x1, y1, x2, y2, v)
			if x1 > x2 {
				x1, x2 = x2, x1
			}
			if y1 > y2 {
				y1, y2 = y2, y1
			}
			for y := y1; y <= y2; y++ {
				for x := x1; x <= x2; x++ {
					m.cells[y][x] = v
				}
			}
			check(t, fmt.Sprintf("iter %d op %d %dx%d", iter, op, w, h), a, m)
		}
	}
}

type pt struct {
	s string
	p *int
}

func TestFillNonIntElementType(t *testing.T) {
	n := 5
	v := pt{"v", &n}
	for _, s := range shapes {
		w, h := s[0], s[1]
		if w == 0 || h == 0 {
			continue
		}
		for y1 := 0; y1 < h; y1++ {
			for y2 := 0; y2 < h; y2++ {
				for _, xs := range [][2]int{{0, w - 1}, {w - 1, 0}, {0, 0}, {w - 1, w - 1}, {w / 2, w - 1}} {
					a := arrays.New2D[pt](w, h)
					a.Fill(xs[0], y1, xs[1], y2, v)
					lx, hx, ly, hy := xs[0], xs[1], y1, y2
					if lx > hx {
						lx, hx = hx, lx
					}
					if ly > hy {
						ly, hy = hy, ly
					}
					for y := 0; y < h; y++ {
						for x := 0; x < w; x++ {
							want := pt{}
							if x >= lx && x <= hx && y >= ly && y <= hy {
								want = v
							}
							if got := a.Get(x, y); got != want {
								t.Fatalf("%dx%d Fill(%d,%d,%d,%d): (%d,%d)=%v want %v", w, h, xs[0], y1, xs[1], y2, x, y, got, want)
							}
						}
					}
				}
			}
		}
	}
}

func TestCloneIsIndependent(t *testing.T) {
	for _, s := range shapes {
		w, h := s[0], s[1]
		a := arrays.New2D[int](w, h)
		m := newModel(w, h, 0)
		for y := 0; y < h; y++ {
			for x := 0; x < w; x++ {
				a.Set(x, y, 1+x+y*w)
				m.cells[y][x] = 1 + x + y*w
			}
		}
		c := a.Clone()
		mc := m.clone()
		check(t, "clone equals", c, mc)
		for y := 0; y < h; y++ {
			for x := 0; x < w; x++ {
				c.Set(x, y, -1)
				mc.cells[y][x] = -1
				check(t, "orig after clone.Set", a, m)
				a.Set(x, y, -2)
				m.cells[y][x] = -2
				check(t, "clone after orig.Set", c, mc)
			}
		}
		if w > 0 && h > 0 {
			c.Fill(0, 0, w-1, h-1, 77)
			check(t, "orig after clone.Fill", a, m)
			r := a.Row(h - 1)
			for i := range r {
				r[i] = 5
				m.cells[h-1][i] = 5
			}
			check(t, "orig row write", a, m)
			for y := 0; y < h; y++ {
				for x := 0; x < w; x++ {
					if c.Get(x, y) != 77 {
						t.Fatalf("clone changed by original row write")
					}
				}
			}
		}
	}
}

func TestNew2DFilled(t *testing.T) {
	for _, s := range shapes {
		w, h := s[0], s[1]
		for _, v := range []int{0, 9, -4} {
			a := arrays.New2DFilled(w, h, v)
			m := newModel(w, h, v)
			check(t, fmt.Sprintf("filled %dx%d %d", w, h, v), a, m)
			if w > 0 && h > 0 {
				a.Set(w-1, h-1, 123)
				m.cells[h-1][w-1] = 123
				a.Set(0, 0, 321)
				m.cells[0][0] = 321
				check(t, "filled then set", a, m)
			}
		}
		sa := arrays.New2DFilled(w, h, "ab")
		for y := 0; y < h; y++ {
			for x := 0; x < w; x++ {
				if sa.Get(x, y) != "ab" {
					t.Fatalf("string filled")
				}
			}
		}
	}
}

type jrow []int
type jgrid []jrow

func TestNew2DFromJagged(t *testing.T) {
	rng := rand.New(rand.NewSource(88))
	for _, s := range shapes {
		w, h := s[0], s[1]
		for iter := 0; iter < 40; iter++ {
			var jag jgrid
			rows := rng.Intn(h + 4)
			switch iter {
			case 0:
				jag = nil
			case 1:
				jag = jgrid{}
			default:
				jag = make(jgrid, rows)
				for y := range jag {
					switch rng.Intn(5) {
					case 0:
						jag[y] = nil
					default:
						jag[y] = make(jrow, rng.Intn(w+4))
						for x := range jag[y] {
							jag[y][x] = 1 + rng.Intn(99)
						}
					}
				}
			}
			snapshot := make(jgrid, len(jag))
			for y := range jag {
				snapshot[y] = append(jrow(nil), jag[y]...)
			}
			a := arrays.New2DFromJagged(w, h, jag)
			m := newModel(w, h, 0)
			for y := 0; y < h && y < len(jag); y++ {
				for x := 0; x < w && x < len(jag[y]); x++ {
					m.cells[y][x] = jag[y][x]
				}
			}
			ctx := fmt.Sprintf("jagged %dx%d iter %d", w, h, iter)
			check(t, ctx, a, m)
			// the array does not alias the jagged input, and the input is untouched
			for y := 0; y < h; y++ {
				for x := 0; x < w; x++ {
					a.Set(x, y, -9)
					m.cells[y][x] = -9
				}
			}
			for y := range jag {
				if len(jag[y]) != len(snapshot[y]) {
					t.Fatalf("%s: input row length changed", ctx)
				}
				for x := range jag[y] {
					if jag[y][x] != snapshot[y][x] {
						t.Fatalf("%s: input modified", ctx)
					}
					jag[y][x] = -5
				}
			}
			check(t, ctx+" after input mutation", a, m)
		}
	}
	// plain [][]string as well
	a := arrays.New2DFromJagged(3, 2, [][]string{{"a"}, {"b", "c", "d", "e"}, {"f"}})
	if got, want := a.String(), "[[a  ] [b c d]]"; got != want {
		t.Fatalf("got %q want %q", got, want)
	}
}

func TestRandomOpsAgainstModel(t *testing.T) {
	rng := rand.New(rand.NewSource(2008))
	for _, s := range shapes {
		w, h := s[0], s[1]
		a := arrays.New2D[int](w, h)
		m := newModel(w, h, 0)
		clones := []arrays.Array2D[int]{}
		cmodels := []*model{}
		rc := func(n int) int { return rng.Intn(n+4) - 2 }
		for op := 0; op < 600; op++ {
			v := 1 + rng.Intn(1<<20)
			var ctx string
			switch rng.Intn(7) {
			case 0, 1:
				x, y := rc(w), rc(h)
				ctx = fmt.Sprintf("Set(%d,%d)", x, y)
				p := panicValue(func() { a.Set(x, y, v) })
				if ok := inX(x, w) && inX(y, h); ok != (p == nil) {
					t.Fatalf("%dx%d %s: panic=%v", w, h, ctx, p)
				} else if ok {
					m.cells[y][x] = v
				}
			case 2:
				x, y := rc(w), rc(h)
				ctx = fmt.Sprintf("Get(%d,%d)", x, y)
				var got int
				p := panicValue(func() { got = a.Get(x, y) })
				if ok := inX(x, w) && inX(y, h); ok != (p == nil) {
					t.Fatalf("%dx%d %s: panic=%v", w, h, ctx, p)
				} else if ok && got != m.cells[y][x] {
					t.Fatalf("%dx%d %s: got %d want %d", w, h, ctx, got, m.cells[y][x])
				}
			case 3:
				x1, y1, x2, y2 := rc(w), rc(h), rc(w), rc(h)
				ctx = fmt.Sprintf("Fill(%d,%d,%d,%d)", x1, y1, x2, y2)
				p := panicValue(func() { a.Fill(x1, y1, x2, y2, v) })
				ok := inX(x1, w) && inX(x2, w) && inX(y1, h) && inX(y2, h)
				if ok != (p == nil) {
					t.Fatalf("%dx%d %s: panic=%v", w, h, ctx, p)
				} else if ok {
					if x1 > x2 {
						x1, x2 = x2, x1
					}
					if y1 > y2 {
						y1, y2 = y2, y1
					}
					for y := y1; y <= y2; y++ {
						for x := x1; x <= x2; x++ {
							m.cells[y][x] = v
						}
					}
				}
			case 4:
				y := rc(h)
				ctx = fmt.Sprintf("Row(%d)", y)
				var row []int
				p := panicValue(func() { row = a.Row(y) })
				if ok := inX(y, h); ok != (p == nil) {
					t.Fatalf("%dx%d %s: panic=%v", w, h, ctx, p)
				} else if ok && len(row) > 0 {
					i := rng.Intn(len(row))
					row[i] = v
					m.cells[y][i] = v
				}
			case 5:
				x1, x2, y := rc(w), rc(w), rc(h)
				if x1 > x2 {
					x1, x2 = x2, x1
				}
				ctx = fmt.Sprintf("RowSpan(%d,%d,%d)", x1, x2, y)
				var sp []int
				p := panicValue(func() { sp = a.RowSpan(x1, x2, y) })
				ok := inX(x1, w) && inX(x2, w) && inX(y, h)
				if ok != (p == nil) {
					t.Fatalf("%dx%d %s: panic=%v", w, h, ctx, p)
				} else if ok {
					if len(sp) != x2-x1+1 {
						t.Fatalf("%dx%d %s: len %d", w, h, ctx, len(sp))
					}
					i := rng.Intn(len(sp))
					sp[i] = v
					m.cells[y][x1+i] = v
				}
			case 6:
				ctx = "Clone"
				clones = append(clones, a.Clone())
				cmodels = append(cmodels, m.clone())
			}
			check(t, fmt.Sprintf("%dx%d op %d %s", w, h, op, ctx), a, m)
		}
		for i := range clones {
			check(t, fmt.Sprintf("%dx%d clone %d at end", w, h, i), clones[i], cmodels[i])
		}
	}
}

// Cells are independent memory locations: goroutines working on disjoint rows
// of the same array must not interfere (and must be race-free).
func TestDisjointRowsConcurrently(t *testing.T) {
	for _, s := range [][2]int{{1, 8}, {3, 8}, {8, 8}, {5, 16}} {
		w, h := s[0], s[1]
		a := arrays.New2D[int](w, h)
		var wg sync.WaitGroup
		const workers = 4
		for g := 0; g < workers; g++ {
			wg.Add(1)
			go func(g int) {
				defer wg.Done()
				rng := rand.New(rand.NewSource(int64(g)))
				per := h / workers
				lo, hi := g*per, (g+1)*per-1
				for i := 0; i < 300; i++ {
					switch rng.Intn(4) {
					case 0:
						a.Fill(0, lo, w-1, hi, g) // full-width block
					case 1:
						a.Fill(rng.Intn(w), lo+rng.Intn(per), rng.Intn(w), lo+rng.Intn(per), g)
					case 2:
						a.Set(rng.Intn(w), lo+rng.Intn(per), g)
					case 3:
						r := a.Row(lo + rng.Intn(per))
						r[rng.Intn(len(r))] = g
						sp := a.RowSpan(0, w-1, lo+rng.Intn(per))
						sp[len(sp)-1] = g
					}
					for y := lo; y <= hi; y++ {
						for x := 0; x < w; x++ {
							if v := a.Get(x, y); v != 0 && v != g {
								t.Errorf("worker %d saw foreign value %d at (%d,%d)", g, v, x, y)
								return
							}
						}
					}
				}
				a.Fill(w-1, hi, 0, lo, g+1)
			}(g)
		}
		wg.Wait()
		for y := 0; y < h; y++ {
			for x := 0; x < w; x++ {
				if got, want := a.Get(x, y), y/(h/workers)+1; got != want {
					t.Fatalf("%dx%d (%d,%d)=%d want %d", w, h, x, y, got, want)
				}
			}
		}
	}
}

// Negative dimensions are outside the property (width, height >= 0), but the
// maintenance changes must not alter what happens there either.
func TestNegativeDimensionsBehaveAsBefore(t *testing.T) {
	jag := [][]int{{1, 2}, {3}}
	for _, s := range [][2]int{{0, -1}, {-1, 0}, {-1, -1}, {0, -3}} {
		w, h := s[0], s[1]
		var a arrays.Array2D[int]
		if v := panicValue(func() { a = arrays.New2DFromJagged(w, h, jag) }); v != nil {
			t.Fatalf("New2DFromJagged(%d,%d): unexpected panic %v", w, h, v)
		}
		if a.Width() != w || a.Height() != h {
			t.Fatalf("New2DFromJagged(%d,%d): dims %dx%d", w, h, a.Width(), a.Height())
		}
		for _, c := range [][2]int{{0, 0}, {-1, -1}, {-1, 0}, {0, -1}} {
			if v := panicValue(func() { a.Get(c[0], c[1]) }); v == nil {
				t.Fatalf("%dx%d Get(%d,%d): expected panic", w, h, c[0], c[1])
			}
			if v := panicValue(func() { a.Set(c[0], c[1], 1) }); v == nil {
				t.Fatalf("%dx%d Set(%d,%d): expected panic", w, h, c[0], c[1])
			}
			if v := panicValue(func() { a.Fill(c[0], c[1], c[0], c[1], 1) }); v == nil {
				t.Fatalf("%dx%d Fill(%d,%d): expected panic", w, h, c[0], c[1])
			}
		}
	}
	for _, s := range [][2]int{{-2, 3}, {3, -2}} {
		if v := panicValue(func() { arrays.New2DFromJagged(s[0], s[1], jag) }); v == nil {
			t.Fatalf("New2DFromJagged(%d,%d): expected panic", s[0], s[1])
		}
		if v := panicValue(func() { arrays.New2D[int](s[0], s[1]) }); v == nil {
			t.Fatalf("New2D(%d,%d): expected panic", s[0], s[1])
		}
	}
	// The zero value is a 0x0 array.
	var z arrays.Array2D[int]
	if z.Width() != 0 || z.Height() != 0 || z.String() != "[]" {
		t.Fatalf("zero value: %dx%d %q", z.Width(), z.Height(), z.String())
	}
	wantPanicMsg(t, "zero Get", xMsg("x", 0, 0), func() { z.Get(0, 0) })
	wantPanicMsg(t, "zero Row", yMsg("y", 0, 0), func() { z.Row(0) })
	if c := z.Clone(); c.Width() != 0 || c.Height() != 0 {
		t.Fatalf("zero clone")
	}
}
