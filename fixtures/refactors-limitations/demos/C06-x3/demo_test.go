package demo

// Lock-step comparison of lists.List / lists.Element / lists.Ring with the
// standard library's container/list and container/ring. Every operation is
// applied to both implementations through parallel handle tables and every
// observable (return values, lengths, traversals in both directions, element
// neighbours, panics) is compared.

import (
	"container/list"
	"container/ring"
	"fmt"
	"math/rand"
	"testing"

	"gopkg.in/typ.v4/lists"
)

// ---------------------------------------------------------------------------
// list world

type listPair struct {
	ours *lists.List[int]
	std  *list.List
}

type elemPair struct {
	ours *lists.Element[int]
	std  *list.Element
	dead bool // belonged to a list that was re-Init'ed; never used again
}

type listWorld struct {
	t     testing.TB
	lists []listPair
	elems []elemPair
	oIdx  map[*lists.Element[int]]int
	sIdx  map[*list.Element]int
	val   int
	log   []string
}

func newListWorld(t testing.TB) *listWorld {
	return &listWorld{
		t:    t,
		oIdx: map[*lists.Element[int]]int{},
		sIdx: map[*list.Element]int{},
	}
}

func (w *listWorld) fail(format string, args ...any) {
	w.t.Helper()
	tail := w.log
	if len(tail) > 40 {
		tail = tail[len(tail)-40:]
	}
	w.t.Fatalf("%s\nhistory tail: %v", fmt.Sprintf(format, args...), tail)
}

func (w *listWorld) addList(zero bool) int {
	if zero {
		w.lists = append(w.lists, listPair{new(lists.List[int]), new(list.List)})
	} else {
		w.lists = append(w.lists, listPair{lists.New[int](), list.New()})
	}
	return len(w.lists) - 1
}

// addZeroElem registers a pair of zero-value elements (belonging to no list).
func (w *listWorld) addZeroElem() int {
	w.val++
	o := &lists.Element[int]{Value: w.val}
	s := &list.Element{Value: w.val}
	return w.reg(o, s)
}

// reg maps a pair of corresponding elements to their handle; -1 for nil/nil.
func (w *listWorld) reg(o *lists.Element[int], s *list.Element) int {
	w.t.Helper()
	if o == nil || s == nil {
		if o != nil || s != nil {
			w.fail("nil mismatch: ours nil=%v std nil=%v", o == nil, s == nil)
		}
		return -1
	}
	oi, ook := w.oIdx[o]
	si, sok := w.sIdx[s]
	if ook != sok || (ook && oi != si) {
		w.fail("identity mismatch: ours handle %d(known=%v) std handle %d(known=%v)", oi, ook, si, sok)
	}
	if ook {
		return oi
	}
	w.elems = append(w.elems, elemPair{ours: o, std: s})
	i := len(w.elems) - 1
	w.oIdx[o] = i
	w.sIdx[s] = i
	return i
}

func (w *listWorld) nextVal() int { w.val++; return w.val }

// members walks both lists forward in lock-step, registering and comparing.
func (w *listWorld) members(li int) []int {
	w.t.Helper()
	p := w.lists[li]
	var seq []int
	o, s := p.ours.Front(), p.std.Front()
	for steps := 0; o != nil || s != nil; steps++ {
		if steps > 100000 {
			w.fail("list %d forward traversal does not end", li)
		}
		i := w.reg(o, s)
		if o.Value != s.Value.(int) {
			w.fail("list %d forward value mismatch at handle %d: %d vs %v", li, i, o.Value, s.Value)
		}
		seq = append(seq, i)
		o, s = o.Next(), s.Next()
	}
	return seq
}

func (w *listWorld) check() {
	w.t.Helper()
	for li, p := range w.lists {
		if p.ours.Len() != p.std.Len() {
			w.fail("list %d Len: %d vs %d", li, p.ours.Len(), p.std.Len())
		}
		w.reg(p.ours.Front(), p.std.Front())
		w.reg(p.ours.Back(), p.std.Back())
		fwd := w.members(li)
		if len(fwd) != p.std.Len() {
			w.fail("list %d forward count %d, Len %d", li, len(fwd), p.std.Len())
		}
		var bwd []int
		o, s := p.ours.Back(), p.std.Back()
		for steps := 0; o != nil || s != nil; steps++ {
			if steps > 100000 {
				w.fail("list %d backward traversal does not end", li)
			}
			i := w.reg(o, s)
			if o.Value != s.Value.(int) {
				w.fail("list %d backward value mismatch at handle %d", li, i)
			}
			bwd = append(bwd, i)
			o, s = o.Prev(), s.Prev()
		}
		if len(bwd) != len(fwd) {
			w.fail("list %d backward count %d forward %d", li, len(bwd), len(fwd))
		}
		for k := range fwd {
			if fwd[k] != bwd[len(bwd)-1-k] {
				w.fail("list %d backward is not the reverse of forward: %v / %v", li, fwd, bwd)
			}
		}
	}
	for i := range w.elems {
		e := w.elems[i]
		if e.dead {
			continue
		}
		if e.ours.Value != e.std.Value.(int) {
			w.fail("handle %d Value: %d vs %v", i, e.ours.Value, e.std.Value)
		}
		w.reg(e.ours.Next(), e.std.Next())
		w.reg(e.ours.Prev(), e.std.Prev())
	}
}

// pick returns a random usable handle: live, removed, foreign or zero.
func (w *listWorld) pick(r *rand.Rand) int {
	for {
		i := r.Intn(len(w.elems))
		if !w.elems[i].dead {
			return i
		}
	}
}

func (w *listWorld) step(r *rand.Rand) {
	w.t.Helper()
	li := r.Intn(len(w.lists))
	p := w.lists[li]
	op := r.Intn(16)
	if len(w.elems) == 0 && op >= 2 && op <= 10 {
		op = r.Intn(2)
	}
	switch op {
	case 0:
		v := w.nextVal()
		w.log = append(w.log, fmt.Sprintf("L%d.PushFront(%d)", li, v))
		w.reg(p.ours.PushFront(v), p.std.PushFront(v))
	case 1:
		v := w.nextVal()
		w.log = append(w.log, fmt.Sprintf("L%d.PushBack(%d)", li, v))
		w.reg(p.ours.PushBack(v), p.std.PushBack(v))
	case 2:
		v, m := w.nextVal(), w.pick(r)
		w.log = append(w.log, fmt.Sprintf("L%d.InsertBefore(%d,h%d)", li, v, m))
		w.reg(p.ours.InsertBefore(v, w.elems[m].ours), p.std.InsertBefore(v, w.elems[m].std))
	case 3:
		v, m := w.nextVal(), w.pick(r)
		w.log = append(w.log, fmt.Sprintf("L%d.InsertAfter(%d,h%d)", li, v, m))
		w.reg(p.ours.InsertAfter(v, w.elems[m].ours), p.std.InsertAfter(v, w.elems[m].std))
	case 4, 5:
		e := w.pick(r)
		w.log = append(w.log, fmt.Sprintf("L%d.Remove(h%d)", li, e))
		ov, sv := p.ours.Remove(w.elems[e].ours), p.std.Remove(w.elems[e].std)
		if ov != sv.(int) {
			w.fail("Remove returned %d vs %v", ov, sv)
		}
	case 6:
		e := w.pick(r)
		w.log = append(w.log, fmt.Sprintf("L%d.MoveToFront(h%d)", li, e))
		p.ours.MoveToFront(w.elems[e].ours)
		p.std.MoveToFront(w.elems[e].std)
	case 7:
		e := w.pick(r)
		w.log = append(w.log, fmt.Sprintf("L%d.MoveToBack(h%d)", li, e))
		p.ours.MoveToBack(w.elems[e].ours)
		p.std.MoveToBack(w.elems[e].std)
	case 8, 9:
		e, m := w.pick(r), w.pick(r)
		w.log = append(w.log, fmt.Sprintf("L%d.MoveBefore(h%d,h%d)", li, e, m))
		p.ours.MoveBefore(w.elems[e].ours, w.elems[m].ours)
		p.std.MoveBefore(w.elems[e].std, w.elems[m].std)
	case 10, 11:
		if len(w.elems) == 0 {
			return
		}
		e, m := w.pick(r), w.pick(r)
		w.log = append(w.log, fmt.Sprintf("L%d.MoveAfter(h%d,h%d)", li, e, m))
		p.ours.MoveAfter(w.elems[e].ours, w.elems[m].ours)
		p.std.MoveAfter(w.elems[e].std, w.elems[m].std)
	case 12:
		oi := r.Intn(len(w.lists))
		if w.lists[oi].std.Len() > 40 {
			return
		}
		w.log = append(w.log, fmt.Sprintf("L%d.PushBackList(L%d)", li, oi))
		p.ours.PushBackList(w.lists[oi].ours)
		p.std.PushBackList(w.lists[oi].std)
	case 13:
		oi := r.Intn(len(w.lists))
		if w.lists[oi].std.Len() > 40 {
			return
		}
		w.log = append(w.log, fmt.Sprintf("L%d.PushFrontList(L%d)", li, oi))
		p.ours.PushFrontList(w.lists[oi].ours)
		p.std.PushFrontList(w.lists[oi].std)
	case 14:
		if r.Intn(4) != 0 {
			return
		}
		w.log = append(w.log, fmt.Sprintf("L%d.Init()", li))
		for _, i := range w.members(li) {
			w.elems[i].dead = true
		}
		if p.ours.Init() != p.ours || p.std.Init() != p.std {
			w.fail("Init does not return its receiver")
		}
	case 15:
		if r.Intn(3) == 0 {
			w.log = append(w.log, "zero element")
			w.addZeroElem()
		} else if len(w.elems) > 0 {
			// Value is a public field: writes must be seen on both sides.
			e, v := w.pick(r), w.nextVal()
			w.log = append(w.log, fmt.Sprintf("h%d.Value=%d", e, v))
			w.elems[e].ours.Value = v
			w.elems[e].std.Value = v
		}
	}
}

func runListHistory(t *testing.T, seed int64, steps int) {
	r := rand.New(rand.NewSource(seed))
	w := newListWorld(t)
	w.addList(true)
	w.addList(false)
	w.addList(true)
	w.addZeroElem() // never a member of any list, so pick always has a candidate
	if seed%2 == 0 {
		w.addList(false)
	}
	w.check()
	for i := 0; i < steps; i++ {
		w.step(r)
		w.check()
	}
}

func TestListRandomHistories(t *testing.T) {
	for seed := int64(1); seed <= 60; seed++ {
		seed := seed
		t.Run(fmt.Sprintf("seed%d", seed), func(t *testing.T) {
			t.Parallel() // independent worlds: no hidden shared state
			runListHistory(t, seed, 400)
		})
	}
}

// TestListExhaustiveSmall applies every operation with every handle choice
// (each live element, a removed one, a foreign one, a zero one) to fresh lists
// of size 0..4, zero-value and New()'ed.
func TestListExhaustiveSmall(t *testing.T) {
	type setup struct {
		w                      *listWorld
		live                   []int
		removed, foreign, zero int
	}
	build := func(n int, zero bool) setup {
		w := newListWorld(t)
		w.addList(zero)
		w.addList(!zero)
		var s setup
		s.w = w
		for i := 0; i < n; i++ {
			v := w.nextVal()
			s.live = append(s.live, w.reg(w.lists[0].ours.PushBack(v), w.lists[0].std.PushBack(v)))
		}
		v := w.nextVal()
		s.removed = w.reg(w.lists[0].ours.PushFront(v), w.lists[0].std.PushFront(v))
		w.lists[0].ours.Remove(w.elems[s.removed].ours)
		w.lists[0].std.Remove(w.elems[s.removed].std)
		v = w.nextVal()
		s.foreign = w.reg(w.lists[1].ours.PushBack(v), w.lists[1].std.PushBack(v))
		v = w.nextVal()
		w.reg(w.lists[1].ours.PushBack(v), w.lists[1].std.PushBack(v))
		s.zero = w.addZeroElem()
		w.check()
		return s
	}
	handles := func(s setup) []int {
		return append(append([]int{}, s.live...), s.removed, s.foreign, s.zero)
	}
	for n := 0; n <= 4; n++ {
		for _, zero := range []bool{true, false} {
			nh := len(handles(build(n, zero)))
			// single-handle operations
			for op := 0; op < 5; op++ {
				for hi := 0; hi < nh; hi++ {
					for target := 0; target < 2; target++ {
						s := build(n, zero)
						w := s.w
						h := handles(s)[hi]
						p := w.lists[target]
						eo, es := w.elems[h].ours, w.elems[h].std
						w.log = append(w.log, fmt.Sprintf("n=%d zero=%v op=%d h=%d target=%d", n, zero, op, h, target))
						switch op {
						case 0:
							ov, sv := p.ours.Remove(eo), p.std.Remove(es)
							if ov != sv.(int) {
								w.fail("Remove value")
							}
						case 1:
							w.reg(p.ours.InsertBefore(99, eo), p.std.InsertBefore(99, es))
						case 2:
							w.reg(p.ours.InsertAfter(99, eo), p.std.InsertAfter(99, es))
						case 3:
							p.ours.MoveToFront(eo)
							p.std.MoveToFront(es)
						case 4:
							p.ours.MoveToBack(eo)
							p.std.MoveToBack(es)
						}
						w.check()
					}
				}
			}
			// two-handle operations
			for op := 0; op < 2; op++ {
				for hi := 0; hi < nh; hi++ {
					for mi := 0; mi < nh; mi++ {
						for target := 0; target < 2; target++ {
							s := build(n, zero)
							w := s.w
							e, m := handles(s)[hi], handles(s)[mi]
							p := w.lists[target]
							w.log = append(w.log, fmt.Sprintf("n=%d zero=%v op2=%d e=%d m=%d target=%d", n, zero, op, e, m, target))
							if op == 0 {
								p.ours.MoveBefore(w.elems[e].ours, w.elems[m].ours)
								p.std.MoveBefore(w.elems[e].std, w.elems[m].std)
							} else {
								p.ours.MoveAfter(w.elems[e].ours, w.elems[m].ours)
								p.std.MoveAfter(w.elems[e].std, w.elems[m].std)
							}
							w.check()
						}
					}
				}
			}
			// list-onto-list operations, including onto itself
			for op := 0; op < 2; op++ {
				for dst := 0; dst < 2; dst++ {
					for src := 0; src < 2; src++ {
						s := build(n, zero)
						w := s.w
						w.log = append(w.log, fmt.Sprintf("n=%d zero=%v pushlist=%d dst=%d src=%d", n, zero, op, dst, src))
						if op == 0 {
							w.lists[dst].ours.PushBackList(w.lists[src].ours)
							w.lists[dst].std.PushBackList(w.lists[src].std)
						} else {
							w.lists[dst].ours.PushFrontList(w.lists[src].ours)
							w.lists[dst].std.PushFrontList(w.lists[src].std)
						}
						w.check()
						// and once more, the lists have now doubled
						w.lists[dst].ours.PushFrontList(w.lists[dst].ours)
						w.lists[dst].std.PushFrontList(w.lists[dst].std)
						w.lists[dst].ours.PushBackList(w.lists[dst].ours)
						w.lists[dst].std.PushBackList(w.lists[dst].std)
						w.check()
					}
				}
			}
		}
	}
}

// TestListZeroValue pins the behaviour of an untouched zero List.
func TestListZeroValue(t *testing.T) {
	var o lists.List[int]
	var s list.List
	if o.Len() != s.Len() || o.Front() != nil || o.Back() != nil || s.Front() != nil || s.Back() != nil {
		t.Fatal("zero list is not empty")
	}
	var oOther lists.List[int]
	var sOther list.List
	oe, se := oOther.PushBack(1), sOther.PushBack(1)
	// operations with foreign elements on a never-initialised list
	if o.InsertBefore(2, oe) != nil || s.InsertBefore(2, se) != nil {
		t.Fatal("InsertBefore foreign on zero list")
	}
	if o.InsertAfter(2, oe) != nil || s.InsertAfter(2, se) != nil {
		t.Fatal("InsertAfter foreign on zero list")
	}
	o.MoveToFront(oe)
	o.MoveToBack(oe)
	o.MoveBefore(oe, oe)
	o.MoveAfter(oe, oe)
	if o.Remove(oe) != 1 {
		t.Fatal("Remove foreign value")
	}
	if o.Len() != 0 || o.Front() != nil || oOther.Len() != 1 || oOther.Front() != oe || oe.Next() != nil || oe.Prev() != nil {
		t.Fatal("foreign operations modified a list")
	}
	// pushing zero lists around
	var o2 lists.List[int]
	o.PushBackList(&o2)
	o.PushFrontList(&o2)
	o.PushBackList(&o)
	o.PushFrontList(&o)
	if o.Len() != 0 || o.Front() != nil || o.Back() != nil || o2.Len() != 0 {
		t.Fatal("pushing empty lists changed something")
	}
	o2.PushBackList(&oOther)
	if o2.Len() != 1 || o2.Front() == oe || o2.Front().Value != 1 || oOther.Len() != 1 {
		t.Fatal("PushBackList must copy")
	}
	// an element that is in no list
	var ze lists.Element[int]
	if ze.Next() != nil || ze.Prev() != nil {
		t.Fatal("zero element has neighbours")
	}
	// single element neighbours
	if oe.Next() != nil || oe.Prev() != nil {
		t.Fatal("single element has neighbours")
	}
}

func panics(f func()) (p bool) {
	defer func() {
		if recover() != nil {
			p = true
		}
	}()
	f()
	return false
}

// TestListPanicParity: the same (mis)uses panic, or do not, in both.
func TestListPanicParity(t *testing.T) {
	type scenario struct {
		name      string
		ours, std func()
	}
	mk := func() (*lists.List[int], *lists.Element[int], *lists.Element[int], *list.List, *list.Element, *list.Element) {
		o, s := lists.New[int](), list.New()
		oe, se := o.PushBack(1), s.PushBack(1)
		o.PushBack(2)
		s.PushBack(2)
		of, sf := lists.New[int]().PushBack(3), list.New().PushBack(3)
		return o, oe, of, s, se, sf
	}
	o, oe, of, s, se, sf := mk()
	var on *lists.List[int]
	var sn *list.List
	sc := []scenario{
		{"Remove(nil)", func() { o.Remove(nil) }, func() { s.Remove(nil) }},
		{"InsertBefore(nil)", func() { o.InsertBefore(1, nil) }, func() { s.InsertBefore(1, nil) }},
		{"InsertAfter(nil)", func() { o.InsertAfter(1, nil) }, func() { s.InsertAfter(1, nil) }},
		{"MoveToFront(nil)", func() { o.MoveToFront(nil) }, func() { s.MoveToFront(nil) }},
		{"MoveToBack(nil)", func() { o.MoveToBack(nil) }, func() { s.MoveToBack(nil) }},
		{"MoveBefore(nil,live)", func() { o.MoveBefore(nil, oe) }, func() { s.MoveBefore(nil, se) }},
		{"MoveBefore(live,nil)", func() { o.MoveBefore(oe, nil) }, func() { s.MoveBefore(se, nil) }},
		{"MoveBefore(foreign,nil)", func() { o.MoveBefore(of, nil) }, func() { s.MoveBefore(sf, nil) }},
		{"MoveAfter(nil,live)", func() { o.MoveAfter(nil, oe) }, func() { s.MoveAfter(nil, se) }},
		{"MoveAfter(live,nil)", func() { o.MoveAfter(oe, nil) }, func() { s.MoveAfter(se, nil) }},
		{"MoveAfter(foreign,nil)", func() { o.MoveAfter(of, nil) }, func() { s.MoveAfter(sf, nil) }},
		{"PushBackList(nil)", func() { o.PushBackList(nil) }, func() { s.PushBackList(nil) }},
		{"PushFrontList(nil)", func() { o.PushFrontList(nil) }, func() { s.PushFrontList(nil) }},
		{"nil.Len", func() { on.Len() }, func() { sn.Len() }},
		{"nil.Front", func() { on.Front() }, func() { sn.Front() }},
		{"nil.Back", func() { on.Back() }, func() { sn.Back() }},
		{"nil.Init", func() { on.Init() }, func() { sn.Init() }},
		{"nil.PushBack", func() { on.PushBack(1) }, func() { sn.PushBack(1) }},
		{"nil.PushFront", func() { on.PushFront(1) }, func() { sn.PushFront(1) }},
		{"nil.PushBackList", func() { on.PushBackList(o) }, func() { sn.PushBackList(s) }},
		{"nil.PushFrontList", func() { on.PushFrontList(o) }, func() { sn.PushFrontList(s) }},
		{"nil.Remove(live)", func() { on.Remove(oe) }, func() { sn.Remove(se) }},
		{"nil.Remove(zero)", func() { on.Remove(&lists.Element[int]{}) }, func() { sn.Remove(&list.Element{}) }},
		{"nil.InsertBefore(zero)", func() { on.InsertBefore(1, &lists.Element[int]{}) }, func() { sn.InsertBefore(1, &list.Element{}) }},
		{"nil.InsertAfter(zero)", func() { on.InsertAfter(1, &lists.Element[int]{}) }, func() { sn.InsertAfter(1, &list.Element{}) }},
		{"nil.InsertAfter(live)", func() { on.InsertAfter(1, oe) }, func() { sn.InsertAfter(1, se) }},
		{"nil.MoveToFront(zero)", func() { on.MoveToFront(&lists.Element[int]{}) }, func() { sn.MoveToFront(&list.Element{}) }},
		{"nil.MoveToBack(zero)", func() { on.MoveToBack(&lists.Element[int]{}) }, func() { sn.MoveToBack(&list.Element{}) }},
		{"nil.MoveToFront(live)", func() { on.MoveToFront(oe) }, func() { sn.MoveToFront(se) }},
		{"nil.MoveBefore(zero,zero2)", func() { on.MoveBefore(&lists.Element[int]{}, &lists.Element[int]{}) }, func() { sn.MoveBefore(&list.Element{}, &list.Element{}) }},
		{"nil.MoveAfter(zero,zero2)", func() { on.MoveAfter(&lists.Element[int]{}, &lists.Element[int]{}) }, func() { sn.MoveAfter(&list.Element{}, &list.Element{}) }},
		{"nilElem.Next", func() { (*lists.Element[int])(nil).Next() }, func() { (*list.Element)(nil).Next() }},
		{"nilElem.Prev", func() { (*lists.Element[int])(nil).Prev() }, func() { (*list.Element)(nil).Prev() }},
	}
	for _, c := range sc {
		po, ps := panics(c.ours), panics(c.std)
		if po != ps {
			t.Errorf("%s: ours panics=%v std panics=%v", c.name, po, ps)
		}
	}
	// the live lists were not damaged by any of the above
	if o.Len() != s.Len() || o.Len() != 2 || o.Front() != oe || s.Front() != se || o.Front().Next().Value != 2 || o.Back().Prev() != oe {
		t.Fatalf("lists damaged by the panicking calls: len %d/%d", o.Len(), s.Len())
	}
	_, _ = of, sf
}

// ---------------------------------------------------------------------------
// ring world

type ringPair struct {
	ours *lists.Ring[int]
	std  *ring.Ring
}

type ringWorld struct {
	t     testing.TB
	nodes []ringPair
	oIdx  map[*lists.Ring[int]]int
	sIdx  map[*ring.Ring]int
	log   []string
}

func newRingWorld(t testing.TB) *ringWorld {
	return &ringWorld{t: t, oIdx: map[*lists.Ring[int]]int{}, sIdx: map[*ring.Ring]int{}}
}

func (w *ringWorld) fail(format string, args ...any) {
	w.t.Helper()
	tail := w.log
	if len(tail) > 40 {
		tail = tail[len(tail)-40:]
	}
	w.t.Fatalf("%s\nhistory tail: %v", fmt.Sprintf(format, args...), tail)
}

func (w *ringWorld) add(o *lists.Ring[int], s *ring.Ring) int {
	i := len(w.nodes)
	w.nodes = append(w.nodes, ringPair{o, s})
	w.oIdx[o], w.sIdx[s] = i, i
	o.Value, s.Value = i, i
	return i
}

// same checks that a pair of returned nodes are corresponding known nodes.
func (w *ringWorld) same(what string, o *lists.Ring[int], s *ring.Ring) int {
	w.t.Helper()
	if o == nil || s == nil {
		if o != nil || s != nil {
			w.fail("%s: nil mismatch ours nil=%v std nil=%v", what, o == nil, s == nil)
		}
		return -1
	}
	oi, ook := w.oIdx[o]
	si, sok := w.sIdx[s]
	if !ook || !sok || oi != si {
		w.fail("%s: ours node %d(known=%v) std node %d(known=%v)", what, oi, ook, si, sok)
	}
	return oi
}

func (w *ringWorld) newRing(n int) {
	w.t.Helper()
	o, s := lists.NewRing[int](n), ring.New(n)
	if (o == nil) != (s == nil) {
		w.fail("NewRing(%d) nil mismatch", n)
	}
	if o == nil {
		return
	}
	if o.Len() != s.Len() || o.Len() != n {
		w.fail("NewRing(%d) Len %d vs %d", n, o.Len(), s.Len())
	}
	first := len(w.nodes)
	po, ps := o, s
	for i := 0; i < n; i++ {
		var zero int
		if po.Value != zero || ps.Value != nil {
			w.fail("NewRing(%d) node %d has a value", n, i)
		}
		w.add(po, ps)
		po, ps = po.Next(), ps.Next()
	}
	if po != o || ps != s {
		w.fail("NewRing(%d) does not close", n)
	}
	for i := 0; i < n; i++ {
		po, ps = po.Prev(), ps.Prev()
		w.same("NewRing backward", po, ps)
		if w.oIdx[po] != first+n-1-i {
			w.fail("NewRing(%d) backward order", n)
		}
	}
}

func (w *ringWorld) collect(i int) (ov, sv []int) {
	w.nodes[i].ours.Do(func(v int) { ov = append(ov, v) })
	w.nodes[i].std.Do(func(v any) { sv = append(sv, v.(int)) })
	return
}

func (w *ringWorld) checkNode(i int) {
	w.t.Helper()
	p := w.nodes[i]
	if ol, sl := p.ours.Len(), p.std.Len(); ol != sl {
		w.fail("node %d Len %d vs %d", i, ol, sl)
	}
	ov, sv := w.collect(i)
	if fmt.Sprint(ov) != fmt.Sprint(sv) {
		w.fail("node %d Do %v vs %v", i, ov, sv)
	}
	if len(ov) != p.std.Len() || ov[0] != i {
		w.fail("node %d Do visited %v", i, ov)
	}
	w.same("Next", p.ours.Next(), p.std.Next())
	w.same("Prev", p.ours.Prev(), p.std.Prev())
	if p.ours.Value != p.std.Value.(int) {
		w.fail("node %d Value", i)
	}
}

func (w *ringWorld) checkAll() {
	w.t.Helper()
	for i := range w.nodes {
		w.checkNode(i)
	}
}

func (w *ringWorld) step(r *rand.Rand) {
	w.t.Helper()
	if len(w.nodes) == 0 {
		w.newRing(1 + r.Intn(4))
		return
	}
	i := r.Intn(len(w.nodes))
	p := w.nodes[i]
	switch op := r.Intn(14); op {
	case 0:
		if len(w.nodes) < 60 {
			n := r.Intn(8) - 1
			w.log = append(w.log, fmt.Sprintf("NewRing(%d)", n))
			w.newRing(n)
		}
	case 1:
		if len(w.nodes) < 60 {
			w.log = append(w.log, "zero ring")
			w.add(new(lists.Ring[int]), new(ring.Ring))
		}
	case 2:
		w.log = append(w.log, fmt.Sprintf("n%d.Next", i))
		w.same("Next", p.ours.Next(), p.std.Next())
	case 3:
		w.log = append(w.log, fmt.Sprintf("n%d.Prev", i))
		w.same("Prev", p.ours.Prev(), p.std.Prev())
	case 4, 5:
		k := r.Intn(41) - 20
		w.log = append(w.log, fmt.Sprintf("n%d.Move(%d)", i, k))
		w.same("Move", p.ours.Move(k), p.std.Move(k))
	case 6, 7, 8:
		j := r.Intn(len(w.nodes)+1) - 1
		w.log = append(w.log, fmt.Sprintf("n%d.Link(n%d)", i, j))
		if j < 0 {
			w.same("Link(nil)", p.ours.Link(nil), p.std.Link(nil))
		} else {
			w.same("Link", p.ours.Link(w.nodes[j].ours), p.std.Link(w.nodes[j].std))
		}
	case 9, 10:
		k := r.Intn(16) - 3
		w.log = append(w.log, fmt.Sprintf("n%d.Unlink(%d)", i, k))
		w.same("Unlink", p.ours.Unlink(k), p.std.Unlink(k))
	case 11:
		w.log = append(w.log, fmt.Sprintf("n%d.Len", i))
		if p.ours.Len() != p.std.Len() {
			w.fail("Len %d vs %d", p.ours.Len(), p.std.Len())
		}
	case 12:
		w.log = append(w.log, fmt.Sprintf("n%d.Do", i))
		ov, sv := w.collect(i)
		if fmt.Sprint(ov) != fmt.Sprint(sv) {
			w.fail("Do %v vs %v", ov, sv)
		}
	case 13:
		w.log = append(w.log, "checkAll")
		w.checkAll()
	}
}

func TestRingRandomHistories(t *testing.T) {
	for seed := int64(1); seed <= 80; seed++ {
		seed := seed
		t.Run(fmt.Sprintf("seed%d", seed), func(t *testing.T) {
			t.Parallel()
			r := rand.New(rand.NewSource(seed * 7919))
			w := newRingWorld(t)
			for i := 0; i < 600; i++ {
				w.step(r)
			}
			w.checkAll()
		})
	}
}

// TestRingExhaustiveSmall: every Link between every pair of nodes of one or
// two small rings (NewRing'ed or zero value), every Unlink / Move count.
func TestRingExhaustiveSmall(t *testing.T) {
	build := func(a, b int) *ringWorld {
		w := newRingWorld(t)
		for _, n := range []int{a, b} {
			if n == 0 {
				w.add(new(lists.Ring[int]), new(ring.Ring)) // lazily initialised
			} else {
				w.newRing(n)
			}
		}
		return w
	}
	for a := 0; a <= 4; a++ {
		for b := 0; b <= 4; b++ {
			n := len(build(a, b).nodes)
			for i := 0; i < n; i++ {
				for j := -1; j < n; j++ {
					w := build(a, b)
					w.log = append(w.log, fmt.Sprintf("a=%d b=%d n%d.Link(n%d)", a, b, i, j))
					if j < 0 {
						w.same("Link(nil)", w.nodes[i].ours.Link(nil), w.nodes[i].std.Link(nil))
					} else {
						w.same("Link", w.nodes[i].ours.Link(w.nodes[j].ours), w.nodes[i].std.Link(w.nodes[j].std))
					}
					w.checkAll()
				}
				for k := -3; k <= 2*(a+1)+3; k++ {
					w := build(a, b)
					w.log = append(w.log, fmt.Sprintf("a=%d b=%d n%d.Unlink(%d)", a, b, i, k))
					w.same("Unlink", w.nodes[i].ours.Unlink(k), w.nodes[i].std.Unlink(k))
					w.checkAll()
					w = build(a, b)
					w.log = append(w.log, fmt.Sprintf("a=%d b=%d n%d.Move(%d)", a, b, i, k))
					w.same("Move", w.nodes[i].ours.Move(k), w.nodes[i].std.Move(k))
					w.same("Move-", w.nodes[i].ours.Move(-k), w.nodes[i].std.Move(-k))
					w.checkAll()
				}
			}
		}
	}
}

func TestRingNilAndZero(t *testing.T) {
	var on *lists.Ring[int]
	var sn *ring.Ring
	if on.Len() != 0 || sn.Len() != 0 {
		t.Fatal("nil ring Len")
	}
	called := false
	on.Do(func(int) { called = true })
	if called {
		t.Fatal("nil ring Do called f")
	}
	for _, n := range []int{0, -1, -100} {
		if lists.NewRing[int](n) != nil || ring.New(n) != nil {
			t.Fatalf("NewRing(%d) not nil", n)
		}
	}
	// each method as the first call on a zero ring
	first := []struct {
		name string
		ours func(r *lists.Ring[int]) *lists.Ring[int]
		std  func(r *ring.Ring) *ring.Ring
	}{
		{"Next", func(r *lists.Ring[int]) *lists.Ring[int] { return r.Next() }, func(r *ring.Ring) *ring.Ring { return r.Next() }},
		{"Prev", func(r *lists.Ring[int]) *lists.Ring[int] { return r.Prev() }, func(r *ring.Ring) *ring.Ring { return r.Prev() }},
		{"Move0", func(r *lists.Ring[int]) *lists.Ring[int] { return r.Move(0) }, func(r *ring.Ring) *ring.Ring { return r.Move(0) }},
		{"Move5", func(r *lists.Ring[int]) *lists.Ring[int] { return r.Move(5) }, func(r *ring.Ring) *ring.Ring { return r.Move(5) }},
		{"Move-5", func(r *lists.Ring[int]) *lists.Ring[int] { return r.Move(-5) }, func(r *ring.Ring) *ring.Ring { return r.Move(-5) }},
		{"Link(nil)", func(r *lists.Ring[int]) *lists.Ring[int] { return r.Link(nil) }, func(r *ring.Ring) *ring.Ring { return r.Link(nil) }},
		{"Link(self)", func(r *lists.Ring[int]) *lists.Ring[int] { return r.Link(r) }, func(r *ring.Ring) *ring.Ring { return r.Link(r) }},
		{"Unlink0", func(r *lists.Ring[int]) *lists.Ring[int] { return r.Unlink(0) }, func(r *ring.Ring) *ring.Ring { return r.Unlink(0) }},
		{"Unlink1", func(r *lists.Ring[int]) *lists.Ring[int] { return r.Unlink(1) }, func(r *ring.Ring) *ring.Ring { return r.Unlink(1) }},
		{"Unlink3", func(r *lists.Ring[int]) *lists.Ring[int] { return r.Unlink(3) }, func(r *ring.Ring) *ring.Ring { return r.Unlink(3) }},
		{"Len", func(r *lists.Ring[int]) *lists.Ring[int] { r.Len(); return r }, func(r *ring.Ring) *ring.Ring { r.Len(); return r }},
		{"Do", func(r *lists.Ring[int]) *lists.Ring[int] { r.Do(func(int) {}); return r }, func(r *ring.Ring) *ring.Ring { r.Do(func(any) {}); return r }},
	}
	for _, c := range first {
		w := newRingWorld(t)
		w.add(new(lists.Ring[int]), new(ring.Ring))
		w.log = append(w.log, c.name)
		w.same(c.name, c.ours(w.nodes[0].ours), c.std(w.nodes[0].std))
		w.checkAll()
	}
	// panic parity on nil receivers / arguments
	o1, s1 := lists.NewRing[int](2), ring.New(2)
	sc := []struct {
		name      string
		ours, std func()
	}{
		{"nil.Next", func() { on.Next() }, func() { sn.Next() }},
		{"nil.Prev", func() { on.Prev() }, func() { sn.Prev() }},
		{"nil.Move", func() { on.Move(1) }, func() { sn.Move(1) }},
		{"nil.Link", func() { on.Link(o1) }, func() { sn.Link(s1) }},
		{"nil.Unlink(0)", func() { on.Unlink(0) }, func() { sn.Unlink(0) }},
		{"nil.Unlink(-1)", func() { on.Unlink(-1) }, func() { sn.Unlink(-1) }},
		{"nil.Unlink(1)", func() { on.Unlink(1) }, func() { sn.Unlink(1) }},
		{"Link(nil)", func() { o1.Link(nil) }, func() { s1.Link(nil) }},
	}
	for _, c := range sc {
		if po, ps := panics(c.ours), panics(c.std); po != ps {
			t.Errorf("%s: ours panics=%v std panics=%v", c.name, po, ps)
		}
	}
	if o1.Len() != 2 || s1.Len() != 2 {
		t.Fatal("ring damaged by panicking calls")
	}
}

// TestRingDoOrderAndMutation: Do visits in forward order starting at r, reads
// the successor after calling f (so values written by f to later nodes are
// seen), exactly like the standard library.
func TestRingDoOrderAndMutation(t *testing.T) {
	o, s := lists.NewRing[int](5), ring.New(5)
	for i := 0; i < 5; i++ {
		o.Value, s.Value = i, i
		o, s = o.Next(), s.Next()
	}
	var ov, sv []int
	oc, sc := o, s
	o.Do(func(v int) {
		ov = append(ov, v)
		oc = oc.Next()
		oc.Value += 10
	})
	s.Do(func(v any) {
		sv = append(sv, v.(int))
		sc = sc.Next()
		sc.Value = sc.Value.(int) + 10
	})
	if fmt.Sprint(ov) != fmt.Sprint(sv) {
		t.Fatalf("Do with writes: %v vs %v", ov, sv)
	}
}
