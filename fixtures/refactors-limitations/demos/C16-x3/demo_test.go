package demo

import (
	"fmt"
	"math/rand"
	"sync"
	"testing"

	"gopkg.in/typ.v4/lists"
)

// ---------------------------------------------------------------- Queue

// queueModel is the reference: a plain slice, oldest value first.
type queueModel []int

func checkQueue(t *testing.T, q *lists.Queue[int], m queueModel, ctx string) {
	t.Helper()
	if got := q.Len(); got != len(m) {
		t.Fatalf("%s: Len() = %d, want %d", ctx, got, len(m))
	}
	v, ok := q.Peek()
	if len(m) == 0 {
		if ok || v != 0 {
			t.Fatalf("%s: Peek() on empty = (%d, %v), want (0, false)", ctx, v, ok)
		}
	} else if !ok || v != m[0] {
		t.Fatalf("%s: Peek() = (%d, %v), want (%d, true)", ctx, v, ok, m[0])
	}
	// Peek must not remove.
	if got := q.Len(); got != len(m) {
		t.Fatalf("%s: Len() after Peek = %d, want %d", ctx, got, len(m))
	}
}

func runQueueHistory(t *testing.T, seed int64, steps int, enqBias int) {
	rng := rand.New(rand.NewSource(seed))
	var q lists.Queue[int] // zero value
	var m queueModel
	next := 1
	checkQueue(t, &q, m, "start")
	for i := 0; i < steps; i++ {
		ctx := fmt.Sprintf("seed %d step %d", seed, i)
		switch op := rng.Intn(10); {
		case op < enqBias:
			q.Enqueue(next)
			m = append(m, next)
			next++
		case op < 9:
			v, ok := q.Dequeue()
			if len(m) == 0 {
				if ok || v != 0 {
					t.Fatalf("%s: Dequeue() on empty = (%d, %v), want (0, false)", ctx, v, ok)
				}
			} else {
				if !ok || v != m[0] {
					t.Fatalf("%s: Dequeue() = (%d, %v), want (%d, true)", ctx, v, ok, m[0])
				}
				m = m[1:]
			}
		default:
			// drain completely, then the loop refills
			for len(m) > 0 {
				v, ok := q.Dequeue()
				if !ok || v != m[0] {
					t.Fatalf("%s: drain Dequeue() = (%d, %v), want (%d, true)", ctx, v, ok, m[0])
				}
				m = m[1:]
				checkQueue(t, &q, m, ctx+" drain")
			}
			for k := 0; k < 3; k++ {
				if v, ok := q.Dequeue(); ok || v != 0 {
					t.Fatalf("%s: Dequeue() on drained = (%d, %v)", ctx, v, ok)
				}
			}
		}
		checkQueue(t, &q, m, ctx)
	}
}

func TestQueueRandomHistories(t *testing.T) {
	for seed := int64(1); seed <= 40; seed++ {
		runQueueHistory(t, seed, 400, 5)
		runQueueHistory(t, seed+1000, 400, 7) // mostly growing
		runQueueHistory(t, seed+2000, 400, 3) // mostly empty
	}
}

func TestQueueExhaustiveShortHistories(t *testing.T) {
	// every history of length 10 over {Enqueue, Dequeue}
	const n = 10
	for mask := 0; mask < 1<<n; mask++ {
		var q lists.Queue[int]
		var m queueModel
		for i := 0; i < n; i++ {
			ctx := fmt.Sprintf("mask %b step %d", mask, i)
			if mask&(1<<i) != 0 {
				q.Enqueue(i + 1)
				m = append(m, i+1)
			} else {
				v, ok := q.Dequeue()
				if len(m) == 0 {
					if ok || v != 0 {
						t.Fatalf("%s: empty Dequeue = (%d,%v)", ctx, v, ok)
					}
				} else {
					if !ok || v != m[0] {
						t.Fatalf("%s: Dequeue = (%d,%v) want %d", ctx, v, ok, m[0])
					}
					m = m[1:]
				}
			}
			checkQueue(t, &q, m, ctx)
		}
	}
}

func TestQueueEmptyZeroValue(t *testing.T) {
	var q lists.Queue[string]
	for i := 0; i < 3; i++ {
		if v, ok := q.Peek(); ok || v != "" {
			t.Fatalf("Peek on zero queue = (%q, %v)", v, ok)
		}
		if v, ok := q.Dequeue(); ok || v != "" {
			t.Fatalf("Dequeue on zero queue = (%q, %v)", v, ok)
		}
		if q.Len() != 0 {
			t.Fatalf("Len on zero queue = %d", q.Len())
		}
	}
	q.Enqueue("a")
	q.Enqueue("b")
	if v, ok := q.Peek(); !ok || v != "a" {
		t.Fatalf("Peek = (%q, %v), want a", v, ok)
	}
	if v, ok := q.Dequeue(); !ok || v != "a" {
		t.Fatalf("Dequeue = (%q, %v), want a", v, ok)
	}
	if v, ok := q.Dequeue(); !ok || v != "b" {
		t.Fatalf("Dequeue = (%q, %v), want b", v, ok)
	}
	if v, ok := q.Dequeue(); ok || v != "" {
		t.Fatalf("Dequeue on drained = (%q, %v)", v, ok)
	}
	if v, ok := q.Peek(); ok || v != "" {
		t.Fatalf("Peek on drained = (%q, %v)", v, ok)
	}
	q.Enqueue("c")
	if v, ok := q.Dequeue(); !ok || v != "c" || q.Len() != 0 {
		t.Fatalf("refill Dequeue = (%q, %v) len %d", v, ok, q.Len())
	}
}

func TestQueueDuplicatesAndZeroValues(t *testing.T) {
	var q lists.Queue[int]
	in := []int{0, 0, 7, 7, 0, 7}
	for _, v := range in {
		q.Enqueue(v)
	}
	for i, want := range in {
		if v, ok := q.Peek(); !ok || v != want {
			t.Fatalf("Peek %d = (%d,%v), want %d", i, v, ok, want)
		}
		if v, ok := q.Dequeue(); !ok || v != want {
			t.Fatalf("Dequeue %d = (%d,%v), want %d", i, v, ok, want)
		}
		if q.Len() != len(in)-i-1 {
			t.Fatalf("Len = %d", q.Len())
		}
	}
}

func TestQueueNilReceiverPanics(t *testing.T) {
	var q *lists.Queue[int]
	for name, f := range map[string]func(){
		"Len":     func() { q.Len() },
		"Enqueue": func() { q.Enqueue(1) },
		"Dequeue": func() { q.Dequeue() },
		"Peek":    func() { q.Peek() },
	} {
		if !panics(f) {
			t.Errorf("nil *Queue %s did not panic", name)
		}
	}
}

// ---------------------------------------------------------------- Stack

func checkStack(t *testing.T, s *lists.Stack[int], m []int, ctx string) {
	t.Helper()
	if len(*s) != len(m) {
		t.Fatalf("%s: len = %d, want %d", ctx, len(*s), len(m))
	}
	for i := range m {
		if (*s)[i] != m[i] {
			t.Fatalf("%s: s[%d] = %d, want %d", ctx, i, (*s)[i], m[i])
		}
	}
	v, ok := s.Peek()
	if len(m) == 0 {
		if ok || v != 0 {
			t.Fatalf("%s: Peek on empty = (%d,%v)", ctx, v, ok)
		}
	} else if !ok || v != m[len(m)-1] {
		t.Fatalf("%s: Peek = (%d,%v), want %d", ctx, v, ok, m[len(m)-1])
	}
	if len(*s) != len(m) {
		t.Fatalf("%s: len after Peek = %d, want %d", ctx, len(*s), len(m))
	}
}

func runStackHistory(t *testing.T, seed int64, steps int, pushBias int) {
	rng := rand.New(rand.NewSource(seed))
	var s lists.Stack[int]
	var m []int
	next := 1
	checkStack(t, &s, m, "start")
	for i := 0; i < steps; i++ {
		ctx := fmt.Sprintf("seed %d step %d", seed, i)
		switch op := rng.Intn(10); {
		case op < pushBias:
			s.Push(next)
			m = append(m, next)
			next++
		case op < 9:
			capBefore := cap(s)
			v, ok := s.Pop()
			if len(m) == 0 {
				if ok || v != 0 {
					t.Fatalf("%s: Pop on empty = (%d,%v)", ctx, v, ok)
				}
			} else {
				if !ok || v != m[len(m)-1] {
					t.Fatalf("%s: Pop = (%d,%v), want %d", ctx, v, ok, m[len(m)-1])
				}
				m = m[:len(m)-1]
			}
			if cap(s) != capBefore {
				t.Fatalf("%s: Pop changed cap %d -> %d", ctx, capBefore, cap(s))
			}
		default:
			for len(m) > 0 {
				v, ok := s.Pop()
				if !ok || v != m[len(m)-1] {
					t.Fatalf("%s: drain Pop = (%d,%v), want %d", ctx, v, ok, m[len(m)-1])
				}
				m = m[:len(m)-1]
				checkStack(t, &s, m, ctx+" drain")
			}
			for k := 0; k < 3; k++ {
				if v, ok := s.Pop(); ok || v != 0 {
					t.Fatalf("%s: Pop on drained = (%d,%v)", ctx, v, ok)
				}
			}
		}
		checkStack(t, &s, m, ctx)
	}
}

func TestStackRandomHistories(t *testing.T) {
	for seed := int64(1); seed <= 40; seed++ {
		runStackHistory(t, seed, 400, 5)
		runStackHistory(t, seed+1000, 400, 7)
		runStackHistory(t, seed+2000, 400, 3)
	}
}

func TestStackExhaustiveShortHistories(t *testing.T) {
	const n = 10
	for mask := 0; mask < 1<<n; mask++ {
		var s lists.Stack[int]
		var m []int
		for i := 0; i < n; i++ {
			ctx := fmt.Sprintf("mask %b step %d", mask, i)
			if mask&(1<<i) != 0 {
				s.Push(i + 1)
				m = append(m, i+1)
			} else {
				v, ok := s.Pop()
				if len(m) == 0 {
					if ok || v != 0 {
						t.Fatalf("%s: empty Pop = (%d,%v)", ctx, v, ok)
					}
				} else {
					if !ok || v != m[len(m)-1] {
						t.Fatalf("%s: Pop = (%d,%v) want %d", ctx, v, ok, m[len(m)-1])
					}
					m = m[:len(m)-1]
				}
			}
			checkStack(t, &s, m, ctx)
		}
	}
}

func TestStackNilAndEmpty(t *testing.T) {
	var np *lists.Stack[string]
	if v, ok := np.Peek(); ok || v != "" {
		t.Fatalf("nil Peek = (%q,%v)", v, ok)
	}
	if v, ok := np.Pop(); ok || v != "" {
		t.Fatalf("nil Pop = (%q,%v)", v, ok)
	}
	if !panics(func() { np.Push("x") }) {
		t.Fatalf("nil *Stack Push did not panic")
	}

	var s lists.Stack[string] // nil slice
	if v, ok := s.Peek(); ok || v != "" {
		t.Fatalf("zero Peek = (%q,%v)", v, ok)
	}
	if v, ok := s.Pop(); ok || v != "" {
		t.Fatalf("zero Pop = (%q,%v)", v, ok)
	}
	if s != nil {
		t.Fatalf("Pop on nil stack made it non-nil")
	}

	e := lists.Stack[string]{} // empty non-nil
	if v, ok := e.Pop(); ok || v != "" || e == nil || len(e) != 0 {
		t.Fatalf("empty Pop = (%q,%v) nil=%v", v, ok, e == nil)
	}
	e.Push("a")
	if v, ok := e.Peek(); !ok || v != "a" {
		t.Fatalf("Peek = (%q,%v)", v, ok)
	}
	if v, ok := e.Pop(); !ok || v != "a" {
		t.Fatalf("Pop = (%q,%v)", v, ok)
	}
	if v, ok := e.Pop(); ok || v != "" {
		t.Fatalf("Pop = (%q,%v)", v, ok)
	}
}

func TestStackLiteralAndBackingArray(t *testing.T) {
	backing := []int{1, 2, 3, 4}
	s := lists.Stack[int](backing[:3])
	if v, ok := s.Pop(); !ok || v != 3 {
		t.Fatalf("Pop = (%d,%v)", v, ok)
	}
	// Pop only reslices: the value stays in the backing array, cap is kept.
	if len(s) != 2 || cap(s) != 4 || backing[2] != 3 {
		t.Fatalf("after Pop: len %d cap %d backing %v", len(s), cap(s), backing)
	}
	// Push within capacity writes into the shared backing array.
	s.Push(9)
	if backing[2] != 9 || len(s) != 3 || cap(s) != 4 || &s[0] != &backing[0] {
		t.Fatalf("after Push: backing %v len %d", backing, len(s))
	}
	s.Push(10)
	if backing[3] != 10 || &s[0] != &backing[0] {
		t.Fatalf("after 2nd Push: backing %v", backing)
	}
	// Push beyond capacity reallocates and leaves the old array alone.
	s.Push(11)
	if &s[0] == &backing[0] || len(s) != 5 {
		t.Fatalf("expected reallocation")
	}
	want := []int{11, 10, 9, 2, 1}
	for i, w := range want {
		if v, ok := s.Peek(); !ok || v != w {
			t.Fatalf("Peek %d = (%d,%v), want %d", i, v, ok, w)
		}
		if v, ok := s.Pop(); !ok || v != w {
			t.Fatalf("Pop %d = (%d,%v), want %d", i, v, ok, w)
		}
	}
	if v, ok := s.Pop(); ok || v != 0 {
		t.Fatalf("Pop on drained = (%d,%v)", v, ok)
	}
	if fmt.Sprint(backing) != "[1 2 9 10]" {
		t.Fatalf("backing = %v", backing)
	}
}

// ---------------------------------------------------------------- List
// The queue is built on List; exercise the list operations against a slice
// model, checking forward and backward traversal after every operation.

type listModel struct {
	elems []*lists.Element[int]
	vals  []int
}

func (m *listModel) insertAt(i int, e *lists.Element[int], v int) {
	m.elems = append(m.elems, nil)
	copy(m.elems[i+1:], m.elems[i:])
	m.elems[i] = e
	m.vals = append(m.vals, 0)
	copy(m.vals[i+1:], m.vals[i:])
	m.vals[i] = v
}

func (m *listModel) removeAt(i int) (*lists.Element[int], int) {
	e, v := m.elems[i], m.vals[i]
	m.elems = append(m.elems[:i], m.elems[i+1:]...)
	m.vals = append(m.vals[:i], m.vals[i+1:]...)
	return e, v
}

func checkList(t *testing.T, l *lists.List[int], m *listModel, ctx string) {
	t.Helper()
	if l.Len() != len(m.vals) {
		t.Fatalf("%s: Len = %d, want %d", ctx, l.Len(), len(m.vals))
	}
	if len(m.vals) == 0 {
		if l.Front() != nil || l.Back() != nil {
			t.Fatalf("%s: Front/Back of empty list not nil", ctx)
		}
		return
	}
	i := 0
	for e := l.Front(); e != nil; e = e.Next() {
		if i >= len(m.vals) {
			t.Fatalf("%s: forward walk too long", ctx)
		}
		if e != m.elems[i] || e.Value != m.vals[i] {
			t.Fatalf("%s: forward[%d] = %p/%d, want %p/%d", ctx, i, e, e.Value, m.elems[i], m.vals[i])
		}
		i++
	}
	if i != len(m.vals) {
		t.Fatalf("%s: forward walk saw %d, want %d", ctx, i, len(m.vals))
	}
	i = len(m.vals) - 1
	for e := l.Back(); e != nil; e = e.Prev() {
		if i < 0 {
			t.Fatalf("%s: backward walk too long", ctx)
		}
		if e != m.elems[i] || e.Value != m.vals[i] {
			t.Fatalf("%s: backward[%d] mismatch", ctx, i)
		}
		i--
	}
	if i != -1 {
		t.Fatalf("%s: backward walk stopped at %d", ctx, i)
	}
}

func runListHistory(t *testing.T, seed int64, steps int, zero bool) {
	rng := rand.New(rand.NewSource(seed))
	var l *lists.List[int]
	if zero {
		l = new(lists.List[int])
	} else {
		l = lists.New[int]()
	}
	other := lists.New[int]()
	foreign := other.PushBack(-1)
	m := &listModel{}
	var removed []*lists.Element[int]
	next := 1
	checkList(t, l, m, "start")
	for i := 0; i < steps; i++ {
		ctx := fmt.Sprintf("seed %d step %d", seed, i)
		n := len(m.vals)
		op := rng.Intn(16)
		if n == 0 && op >= 2 && op <= 11 {
			op = rng.Intn(2)
		}
		switch op {
		case 0:
			e := l.PushFront(next)
			if e == nil || e.Value != next {
				t.Fatalf("%s: PushFront returned bad element", ctx)
			}
			m.insertAt(0, e, next)
			next++
		case 1:
			e := l.PushBack(next)
			if e == nil || e.Value != next {
				t.Fatalf("%s: PushBack returned bad element", ctx)
			}
			m.insertAt(n, e, next)
			next++
		case 2:
			k := rng.Intn(n)
			e, v := m.removeAt(k)
			if got := l.Remove(e); got != v {
				t.Fatalf("%s: Remove = %d, want %d", ctx, got, v)
			}
			if e.Next() != nil || e.Prev() != nil {
				t.Fatalf("%s: removed element still linked", ctx)
			}
			removed = append(removed, e)
		case 3:
			k := rng.Intn(n)
			e := l.InsertBefore(next, m.elems[k])
			if e == nil || e.Value != next {
				t.Fatalf("%s: InsertBefore bad", ctx)
			}
			m.insertAt(k, e, next)
			next++
		case 4:
			k := rng.Intn(n)
			e := l.InsertAfter(next, m.elems[k])
			if e == nil || e.Value != next {
				t.Fatalf("%s: InsertAfter bad", ctx)
			}
			m.insertAt(k+1, e, next)
			next++
		case 5:
			k := rng.Intn(n)
			e, v := m.removeAt(k)
			l.MoveToFront(e)
			m.insertAt(0, e, v)
		case 6:
			k := rng.Intn(n)
			e, v := m.removeAt(k)
			l.MoveToBack(e)
			m.insertAt(len(m.vals), e, v)
		case 7, 8:
			a, b := rng.Intn(n), rng.Intn(n)
			ea, eb := m.elems[a], m.elems[b]
			if op == 7 {
				l.MoveBefore(ea, eb)
			} else {
				l.MoveAfter(ea, eb)
			}
			if a != b {
				_, v := m.removeAt(a)
				// find b again
				pos := -1
				for j, e := range m.elems {
					if e == eb {
						pos = j
					}
				}
				if op == 7 {
					m.insertAt(pos, ea, v)
				} else {
					m.insertAt(pos+1, ea, v)
				}
			}
		case 9:
			// operations with foreign / removed elements do nothing
			if l.InsertBefore(99, foreign) != nil || l.InsertAfter(99, foreign) != nil {
				t.Fatalf("%s: insert relative to foreign mark succeeded", ctx)
			}
			l.MoveToFront(foreign)
			l.MoveToBack(foreign)
			l.MoveBefore(foreign, m.elems[0])
			l.MoveAfter(m.elems[0], foreign)
			if got := l.Remove(foreign); got != -1 {
				t.Fatalf("%s: Remove(foreign) = %d", ctx, got)
			}
			if other.Len() != 1 || other.Front() != foreign {
				t.Fatalf("%s: foreign list disturbed", ctx)
			}
			if len(removed) > 0 {
				r := removed[rng.Intn(len(removed))]
				if got := l.Remove(r); got != r.Value {
					t.Fatalf("%s: second Remove = %d", ctx, got)
				}
				l.MoveToFront(r)
				l.MoveToBack(r)
				if l.InsertAfter(99, r) != nil {
					t.Fatalf("%s: InsertAfter(removed) succeeded", ctx)
				}
			}
		case 10:
			// PushBackList / PushFrontList of self
			if n <= 6 {
				vals := append([]int(nil), m.vals...)
				if rng.Intn(2) == 0 {
					l.PushBackList(l)
					for e, j := m.elems[n-1].Next(), 0; j < n; e, j = e.Next(), j+1 {
						m.insertAt(len(m.vals), e, vals[j])
					}
				} else {
					first := m.elems[0]
					l.PushFrontList(l)
					for e, j := first.Prev(), n-1; j >= 0; e, j = e.Prev(), j-1 {
						m.insertAt(0, e, vals[j])
					}
				}
			}
		case 11:
			// PushBackList / PushFrontList of another list
			src := lists.New[int]()
			cnt := rng.Intn(3)
			var vals []int
			for j := 0; j < cnt; j++ {
				src.PushBack(next)
				vals = append(vals, next)
				next++
			}
			if rng.Intn(2) == 0 {
				last := l.Back()
				l.PushBackList(src)
				e := last.Next()
				for j := 0; j < cnt; j++ {
					m.insertAt(len(m.vals), e, vals[j])
					e = e.Next()
				}
			} else {
				first := l.Front()
				l.PushFrontList(src)
				e := first.Prev()
				for j := cnt - 1; j >= 0; j-- {
					m.insertAt(0, e, vals[j])
					e = e.Prev()
				}
			}
			if src.Len() != cnt {
				t.Fatalf("%s: source list changed", ctx)
			}
		case 12:
			if rng.Intn(8) == 0 {
				old := append([]*lists.Element[int](nil), m.elems...)
				if l.Init() != l {
					t.Fatalf("%s: Init did not return l", ctx)
				}
				m.elems, m.vals = nil, nil
				_ = old
			}
		default:
			// queue-like use: take from the back
			if b := l.Back(); b != nil {
				e, v := m.removeAt(n - 1)
				if b != e {
					t.Fatalf("%s: Back mismatch", ctx)
				}
				if got := l.Remove(b); got != v {
					t.Fatalf("%s: Remove(Back) = %d, want %d", ctx, got, v)
				}
				removed = append(removed, e)
			}
		}
		checkList(t, l, m, ctx)
	}
}

func TestListRandomHistories(t *testing.T) {
	for seed := int64(1); seed <= 60; seed++ {
		runListHistory(t, seed, 300, seed%2 == 0)
	}
}

func TestListZeroValueEdges(t *testing.T) {
	var l lists.List[int]
	if l.Len() != 0 || l.Front() != nil || l.Back() != nil {
		t.Fatalf("zero list not empty")
	}
	var empty lists.List[int]
	l.PushBackList(&empty)
	l.PushFrontList(&empty)
	l.PushBackList(&l)
	l.PushFrontList(&l)
	if l.Len() != 0 || l.Front() != nil || l.Back() != nil {
		t.Fatalf("list not empty after pushing empty lists")
	}
	e := l.PushBack(1)
	if e.Next() != nil || e.Prev() != nil || l.Front() != e || l.Back() != e {
		t.Fatalf("single element list wrong")
	}
	l.MoveToFront(e)
	l.MoveToBack(e)
	l.MoveBefore(e, e)
	l.MoveAfter(e, e)
	if l.Len() != 1 || l.Front() != e || l.Back() != e {
		t.Fatalf("single element list wrong after moves")
	}
	if l.Remove(e) != 1 || l.Len() != 0 || l.Front() != nil {
		t.Fatalf("remove of only element wrong")
	}
	if l.Remove(e) != 1 || l.Len() != 0 {
		t.Fatalf("second remove wrong")
	}
	var z lists.Element[int]
	if z.Next() != nil || z.Prev() != nil {
		t.Fatalf("zero element has neighbours")
	}
	if !panics(func() { l.Remove(nil) }) {
		t.Fatalf("Remove(nil) did not panic")
	}
	if !panics(func() { l.MoveToFront(nil) }) {
		t.Fatalf("MoveToFront(nil) did not panic")
	}
	if !panics(func() { l.InsertBefore(1, nil) }) {
		t.Fatalf("InsertBefore(nil) did not panic")
	}
}

// ---------------------------------------------------------------- concurrency
// Containers are not shared: each goroutine owns its own queue and stack.
// Under -race this shows the package keeps no hidden shared state.

func TestIndependentContainersInParallel(t *testing.T) {
	var wg sync.WaitGroup
	errs := make(chan string, 16)
	for g := 0; g < 8; g++ {
		wg.Add(1)
		go func(g int) {
			defer wg.Done()
			rng := rand.New(rand.NewSource(int64(g) + 77))
			var q lists.Queue[int]
			var s lists.Stack[int]
			var qm, sm []int
			for i := 0; i < 3000; i++ {
				if rng.Intn(3) != 0 {
					q.Enqueue(i)
					qm = append(qm, i)
					s.Push(i)
					sm = append(sm, i)
					continue
				}
				v, ok := q.Dequeue()
				if len(qm) == 0 {
					if ok || v != 0 {
						errs <- "empty dequeue"
						return
					}
				} else {
					if !ok || v != qm[0] {
						errs <- "dequeue order"
						return
					}
					qm = qm[1:]
				}
				v, ok = s.Pop()
				if len(sm) == 0 {
					if ok || v != 0 {
						errs <- "empty pop"
						return
					}
				} else {
					if !ok || v != sm[len(sm)-1] {
						errs <- "pop order"
						return
					}
					sm = sm[:len(sm)-1]
				}
				if q.Len() != len(qm) || len(s) != len(sm) {
					errs <- "len"
					return
				}
			}
		}(g)
	}
	wg.Wait()
	close(errs)
	for e := range errs {
		t.Error(e)
	}
}

func panics(f func()) (p bool) {
	defer func() {
		if recover() != nil {
			p = true
		}
	}()
	f()
	return false
}
