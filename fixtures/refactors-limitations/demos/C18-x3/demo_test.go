package demo

import (
	"errors"
	"fmt"
	"math/rand"
	"sync"
	"sync/atomic"
	"testing"

	"gopkg.in/typ.v4/sync2"
)

// ---------------------------------------------------------------------------
// helpers

func mustPanic(t *testing.T, name string, f func()) {
	t.Helper()
	defer func() {
		if recover() == nil {
			t.Errorf("%s: expected a panic", name)
		}
	}()
	f()
}

// ---------------------------------------------------------------------------
// AtomicValue: sequential model

type regModel[T comparable] struct {
	has bool
	val T
}

func runRegisterModel[T comparable](t *testing.T, seed int64, steps int, gen func(r *rand.Rand) T) {
	t.Helper()
	r := rand.New(rand.NewSource(seed))
	var v sync2.AtomicValue[T]
	var m regModel[T]
	var zero T
	for i := 0; i < steps; i++ {
		switch r.Intn(5) {
		case 0, 1:
			got := v.Load()
			want := zero
			if m.has {
				want = m.val
			}
			if got != want {
				t.Fatalf("seed %d step %d: Load = %v, want %v", seed, i, got, want)
			}
		case 2:
			x := gen(r)
			v.Store(x)
			m.has, m.val = true, x
		case 3:
			x := gen(r)
			got := v.Swap(x)
			want := zero
			if m.has {
				want = m.val
			}
			if got != want {
				t.Fatalf("seed %d step %d: Swap(%v) = %v, want %v", seed, i, x, got, want)
			}
			m.has, m.val = true, x
		case 4:
			old, nw := gen(r), gen(r)
			if m.has && r.Intn(2) == 0 {
				old = m.val
			}
			got := v.CompareAndSwap(old, nw)
			// Before the first Store a (non-nil) old never matches.
			want := m.has && m.val == old
			if got != want {
				t.Fatalf("seed %d step %d: CompareAndSwap(%v,%v) = %v, want %v (model %+v)", seed, i, old, nw, got, want, m)
			}
			if got {
				m.val = nw
			}
		}
	}
}

type pair struct {
	A int
	B string
}

func TestAtomicValueSequentialModel(t *testing.T) {
	for seed := int64(1); seed <= 40; seed++ {
		runRegisterModel(t, seed, 300, func(r *rand.Rand) int { return r.Intn(4) })
		runRegisterModel(t, seed, 300, func(r *rand.Rand) string { return []string{"", "a", "b"}[r.Intn(3)] })
		runRegisterModel(t, seed, 300, func(r *rand.Rand) pair { return pair{r.Intn(2), []string{"", "x"}[r.Intn(2)]} })
		runRegisterModel(t, seed, 300, func(r *rand.Rand) bool { return r.Intn(2) == 0 })
	}
	ptrs := []*int{new(int), new(int), new(int)}
	for seed := int64(1); seed <= 20; seed++ {
		runRegisterModel(t, seed, 300, func(r *rand.Rand) *int { return ptrs[r.Intn(len(ptrs))] })
	}
}

func TestAtomicValueEmptyState(t *testing.T) {
	var vi sync2.AtomicValue[int]
	if got := vi.Load(); got != 0 {
		t.Fatalf("Load on empty = %d", got)
	}
	if got := vi.Load(); got != 0 {
		t.Fatalf("second Load on empty = %d", got)
	}
	if vi.CompareAndSwap(0, 7) {
		t.Fatalf("CompareAndSwap(0,7) on empty register succeeded")
	}
	if got := vi.Load(); got != 0 {
		t.Fatalf("Load after failed CAS = %d", got)
	}
	if got := vi.Swap(5); got != 0 {
		t.Fatalf("Swap on empty = %d", got)
	}
	if got := vi.Load(); got != 5 {
		t.Fatalf("Load after Swap = %d", got)
	}
	if got := vi.Swap(0); got != 5 {
		t.Fatalf("Swap = %d, want 5", got)
	}
	// a stored zero value is a value: CAS against it must now succeed
	if !vi.CompareAndSwap(0, 9) {
		t.Fatalf("CompareAndSwap(0,9) after storing 0 failed")
	}
	if got := vi.Load(); got != 9 {
		t.Fatalf("Load = %d, want 9", got)
	}

	var vs sync2.AtomicValue[[]int]
	if got := vs.Load(); got != nil {
		t.Fatalf("Load on empty slice register = %v", got)
	}
	if got := vs.Swap([]int{1, 2}); got != nil {
		t.Fatalf("Swap on empty slice register = %v", got)
	}
	if got := vs.Load(); len(got) != 2 || got[0] != 1 || got[1] != 2 {
		t.Fatalf("Load = %v", got)
	}
	var nilSlice []int
	vs.Store(nilSlice) // typed nil slice is a legal value
	if got := vs.Load(); got != nil {
		t.Fatalf("Load after storing nil slice = %v", got)
	}
	if got := vs.Swap([]int{3}); got != nil {
		t.Fatalf("Swap after storing nil slice = %v", got)
	}

	var vm sync2.AtomicValue[map[string]int]
	if got := vm.Load(); got != nil {
		t.Fatalf("Load on empty map register = %v", got)
	}
	vm.Store(map[string]int{"a": 1})
	if got := vm.Load(); got["a"] != 1 {
		t.Fatalf("Load = %v", got)
	}

	var vp sync2.AtomicValue[*pair]
	if got := vp.Load(); got != nil {
		t.Fatalf("Load on empty pointer register = %v", got)
	}
	var nilPtr *pair
	vp.Store(nilPtr)
	if got := vp.Load(); got != nil {
		t.Fatalf("Load = %v", got)
	}
	p := &pair{A: 1}
	if !vp.CompareAndSwap(nil, p) {
		t.Fatalf("CompareAndSwap(nil ptr, p) after storing nil ptr failed")
	}
	if got := vp.Swap(nil); got != p {
		t.Fatalf("Swap = %v, want %v", got, p)
	}
}

type myErr struct{ n int }

func (e *myErr) Error() string { return fmt.Sprint("myErr ", e.n) }

func TestAtomicValueInterfaceType(t *testing.T) {
	var v sync2.AtomicValue[error]
	if got := v.Load(); got != nil {
		t.Fatalf("Load on empty = %v", got)
	}
	mustPanic(t, "Store(nil)", func() { v.Store(nil) })
	mustPanic(t, "Swap(nil)", func() { v.Swap(nil) })
	mustPanic(t, "CompareAndSwap(x,nil)", func() { v.CompareAndSwap(&myErr{1}, nil) })
	if got := v.Load(); got != nil {
		t.Fatalf("Load after panicking calls = %v", got)
	}
	e1, e2, e3 := &myErr{1}, &myErr{2}, &myErr{3}
	if v.CompareAndSwap(e1, e2) {
		t.Fatalf("CAS on empty with non-nil old succeeded")
	}
	if got := v.Swap(e1); got != nil {
		t.Fatalf("Swap on empty = %v", got)
	}
	if got := v.Load(); got != error(e1) {
		t.Fatalf("Load = %v", got)
	}
	if v.CompareAndSwap(e2, e3) {
		t.Fatalf("CAS with wrong old succeeded")
	}
	if !v.CompareAndSwap(e1, e2) {
		t.Fatalf("CAS with right old failed")
	}
	if got := v.Swap(e3); got != error(e2) {
		t.Fatalf("Swap = %v", got)
	}
	if got := v.Load(); got != error(e3) {
		t.Fatalf("Load = %v", got)
	}
	// inconsistent dynamic type is refused by the wrapped atomic.Value
	mustPanic(t, "Store(other dynamic type)", func() { v.Store(errors.New("x")) })
	if got := v.Load(); got != error(e3) {
		t.Fatalf("Load after refused Store = %v", got)
	}
}

func TestNilReceiversPanic(t *testing.T) {
	var v *sync2.AtomicValue[int]
	mustPanic(t, "nil.Load", func() { v.Load() })
	mustPanic(t, "nil.Store", func() { v.Store(1) })
	mustPanic(t, "nil.Swap", func() { v.Swap(1) })
	mustPanic(t, "nil.CompareAndSwap", func() { v.CompareAndSwap(1, 2) })
	var p *sync2.Pool[int]
	mustPanic(t, "nil.Get", func() { p.Get() })
	mustPanic(t, "nil.Put", func() { p.Put(1) })
}

// ---------------------------------------------------------------------------
// AtomicValue: concurrent

// Every Swap returns the value it replaced: with unique stored values, the
// multiset {results of all Swaps} + {final Load} is exactly {zero} + {all
// swapped-in values}.
func TestAtomicValueConcurrentSwapChain(t *testing.T) {
	const G, N = 8, 2000
	var v sync2.AtomicValue[int]
	results := make([][]int, G)
	var wg sync.WaitGroup
	for g := 0; g < G; g++ {
		wg.Add(1)
		go func(g int) {
			defer wg.Done()
			out := make([]int, 0, N)
			for i := 0; i < N; i++ {
				out = append(out, v.Swap(1+g*N+i))
			}
			results[g] = out
		}(g)
	}
	wg.Wait()
	seen := make(map[int]int)
	for _, out := range results {
		for _, x := range out {
			seen[x]++
		}
	}
	seen[v.Load()]++
	if len(seen) != G*N+1 {
		t.Fatalf("saw %d distinct values, want %d", len(seen), G*N+1)
	}
	for x := 0; x <= G*N; x++ {
		if seen[x] != 1 {
			t.Fatalf("value %d seen %d times, want exactly once", x, seen[x])
		}
	}
}

// CAS increments: every success moves the register by exactly one step, no
// step is won twice, and readers only ever see the counter grow.
func TestAtomicValueConcurrentCASCounter(t *testing.T) {
	const G, N = 8, 1500
	var v sync2.AtomicValue[int]
	v.Store(0)
	var wins [G*N + 1]int32
	var wg sync.WaitGroup
	stop := make(chan struct{})
	var readers sync.WaitGroup
	for r := 0; r < 3; r++ {
		readers.Add(1)
		go func() {
			defer readers.Done()
			last := 0
			for {
				select {
				case <-stop:
					return
				default:
				}
				cur := v.Load()
				if cur < last {
					t.Errorf("Load went backwards: %d after %d", cur, last)
					return
				}
				last = cur
			}
		}()
	}
	for g := 0; g < G; g++ {
		wg.Add(1)
		go func() {
			defer wg.Done()
			for i := 0; i < N; i++ {
				for {
					cur := v.Load()
					if v.CompareAndSwap(cur, cur+1) {
						atomic.AddInt32(&wins[cur+1], 1)
						break
					}
				}
			}
		}()
	}
	wg.Wait()
	close(stop)
	readers.Wait()
	if got := v.Load(); got != G*N {
		t.Fatalf("final = %d, want %d", got, G*N)
	}
	for i := 1; i <= G*N; i++ {
		if wins[i] != 1 {
			t.Fatalf("step %d won %d times", i, wins[i])
		}
	}
}

// Mixed Store/Load/Swap/CAS: every value read was written by somebody (or is
// the zero value), and from the first-Store race exactly one CAS(zero->id)
// family behaves: a CAS from a value nobody ever wrote never succeeds.
func TestAtomicValueConcurrentMixed(t *testing.T) {
	const G, N = 6, 3000
	var v sync2.AtomicValue[pair]
	var wg sync.WaitGroup
	valid := func(p pair) bool {
		if p == (pair{}) {
			return true
		}
		return p.A >= 1 && p.A <= G && p.B == fmt.Sprint("g", p.A)
	}
	for g := 1; g <= G; g++ {
		wg.Add(1)
		go func(g int) {
			defer wg.Done()
			r := rand.New(rand.NewSource(int64(g)))
			mine := pair{g, fmt.Sprint("g", g)}
			for i := 0; i < N; i++ {
				switch r.Intn(4) {
				case 0:
					v.Store(mine)
				case 1:
					if got := v.Load(); !valid(got) {
						t.Errorf("Load returned torn/unknown value %+v", got)
						return
					}
				case 2:
					if got := v.Swap(mine); !valid(got) {
						t.Errorf("Swap returned torn/unknown value %+v", got)
						return
					}
				case 3:
					if v.CompareAndSwap(pair{g, "never"}, mine) {
						t.Errorf("CAS from a never-stored value succeeded")
						return
					}
					cur := v.Load()
					v.CompareAndSwap(cur, mine)
				}
			}
		}(g)
	}
	wg.Wait()
	if got := v.Load(); !valid(got) || got == (pair{}) {
		t.Fatalf("final value %+v", got)
	}
}

// Only one goroutine may win the CAS from a given value.
func TestAtomicValueCASSingleWinner(t *testing.T) {
	const G = 16
	for round := 0; round < 200; round++ {
		var v sync2.AtomicValue[string]
		v.Store("start")
		var winners int32
		var wg sync.WaitGroup
		for g := 0; g < G; g++ {
			wg.Add(1)
			go func(g int) {
				defer wg.Done()
				if v.CompareAndSwap("start", fmt.Sprint("w", g)) {
					atomic.AddInt32(&winners, 1)
				}
			}(g)
		}
		wg.Wait()
		if winners != 1 {
			t.Fatalf("round %d: %d winners", round, winners)
		}
		if got := v.Load(); got == "start" || got == "" {
			t.Fatalf("round %d: final %q", round, got)
		}
	}
}

// ---------------------------------------------------------------------------
// Pool: sequential model

func TestPoolSequentialModelWithNew(t *testing.T) {
	for seed := int64(1); seed <= 30; seed++ {
		r := rand.New(rand.NewSource(seed))
		next := 0
		created := map[int]bool{}
		p := sync2.Pool[int]{New: func() int { next++; created[next] = true; return next }}
		inPool := map[int]int{} // value -> copies lying in the pool
		var held []int
		for i := 0; i < 400; i++ {
			if len(held) > 0 && r.Intn(2) == 0 {
				k := r.Intn(len(held))
				x := held[k]
				held = append(held[:k], held[k+1:]...)
				p.Put(x)
				inPool[x]++
				continue
			}
			before := next
			x := p.Get()
			if next != before {
				if next != before+1 || x != next {
					t.Fatalf("seed %d step %d: New called %d times, Get = %d, want fresh %d", seed, i, next-before, x, next)
				}
			} else {
				if inPool[x] == 0 {
					t.Fatalf("seed %d step %d: Get = %d which is not in the pool %v", seed, i, x, inPool)
				}
				inPool[x]--
			}
			held = append(held, x)
		}
		// nothing is held twice
		cnt := map[int]int{}
		for _, x := range held {
			cnt[x]++
			if cnt[x] > 1 {
				t.Fatalf("seed %d: value %d held twice", seed, x)
			}
		}
	}
}

func TestPoolSequentialModelWithoutNew(t *testing.T) {
	for seed := int64(1); seed <= 30; seed++ {
		r := rand.New(rand.NewSource(seed))
		var p sync2.Pool[int]
		inPool := map[int]int{}
		var held []int
		id := 0
		for i := 0; i < 400; i++ {
			if r.Intn(2) == 0 {
				var x int
				if len(held) > 0 && r.Intn(2) == 0 {
					k := r.Intn(len(held))
					x = held[k]
					held = append(held[:k], held[k+1:]...)
				} else {
					id++
					x = id
				}
				p.Put(x)
				inPool[x]++
				continue
			}
			x := p.Get()
			if x == 0 {
				continue // the zero value: nothing handed out
			}
			if inPool[x] == 0 {
				t.Fatalf("seed %d step %d: Get = %d which is not in the pool", seed, i, x)
			}
			inPool[x]--
			held = append(held, x)
		}
	}
}

func TestPoolEdgeCases(t *testing.T) {
	// zero Pool, nil New: zero value of every kind of T
	var pi sync2.Pool[int]
	if got := pi.Get(); got != 0 {
		t.Fatalf("Get on empty int pool = %d", got)
	}
	var pp sync2.Pool[*pair]
	if got := pp.Get(); got != nil {
		t.Fatalf("Get on empty ptr pool = %v", got)
	}
	var ps sync2.Pool[[]byte]
	if got := ps.Get(); got != nil {
		t.Fatalf("Get on empty slice pool = %v", got)
	}
	var pst sync2.Pool[pair]
	if got := pst.Get(); got != (pair{}) {
		t.Fatalf("Get on empty struct pool = %v", got)
	}
	var pe sync2.Pool[error]
	if got := pe.Get(); got != nil {
		t.Fatalf("Get on empty iface pool = %v", got)
	}

	// a zero value that was Put is either returned or dropped; both look alike
	pi.Put(0)
	if got := pi.Get(); got != 0 {
		t.Fatalf("Get = %d", got)
	}

	// non-comparable T round trip
	buf := []byte("hello")
	ps.Put(buf)
	if got := ps.Get(); got != nil && (len(got) != 5 || &got[0] != &buf[0]) {
		t.Fatalf("Get returned an unknown slice %q", got)
	}

	// interface T: a nil interface Put is not an item; New is used instead
	calls := 0
	fresh := &myErr{42}
	pn := sync2.Pool[error]{New: func() error { calls++; return fresh }}
	pn.Put(nil)
	if got := pn.Get(); got != error(fresh) || calls != 1 {
		t.Fatalf("Get = %v calls = %d", got, calls)
	}
	other := &myErr{7}
	pn.Put(other)
	got := pn.Get()
	switch {
	case got == error(other) && calls == 1:
	case got == error(fresh) && calls == 2:
	default:
		t.Fatalf("Get = %v calls = %d", got, calls)
	}

	// New may be replaced between calls (single goroutine) and is read afresh
	pr := sync2.Pool[string]{New: func() string { return "a" }}
	if got := pr.Get(); got != "a" {
		t.Fatalf("Get = %q", got)
	}
	pr.New = func() string { return "b" }
	if got := pr.Get(); got != "b" {
		t.Fatalf("Get = %q", got)
	}
	pr.New = nil
	if got := pr.Get(); got != "" {
		t.Fatalf("Get = %q", got)
	}

	// New returning the zero value, and a New that panics propagates
	pz := sync2.Pool[*pair]{New: func() *pair { return nil }}
	if got := pz.Get(); got != nil {
		t.Fatalf("Get = %v", got)
	}
	ppanic := sync2.Pool[int]{New: func() int { panic("boom") }}
	mustPanic(t, "New panics", func() { ppanic.Get() })
	ppanic.Put(3)
	func() {
		defer func() { recover() }()
		if got := ppanic.Get(); got != 3 {
			t.Errorf("Get = %d, want 3", got)
		}
	}()

	// New is only called when nothing could be taken: pooled items never
	// trigger New in addition.
	calls = 0
	pc := sync2.Pool[*pair]{New: func() *pair { calls++; return &pair{A: calls} }}
	for i := 0; i < 100; i++ {
		x := pc.Get()
		before := calls
		pc.Put(x)
		y := pc.Get()
		if y != x && calls != before+1 {
			t.Fatalf("iteration %d: got a different item without New being called", i)
		}
		if y == x && calls != before {
			t.Fatalf("iteration %d: New called although the item came from the pool", i)
		}
		pc.Put(y)
	}
}

// ---------------------------------------------------------------------------
// Pool: concurrent

type token struct {
	id    int64
	owned int32
	fresh bool
}

func hammerPool(t *testing.T, p *sync2.Pool[*token], mk func() *token) {
	t.Helper()
	const G, N = 8, 4000
	var wg sync.WaitGroup
	for g := 0; g < G; g++ {
		wg.Add(1)
		go func(g int) {
			defer wg.Done()
			r := rand.New(rand.NewSource(int64(g) + 100))
			var held []*token
			for i := 0; i < N; i++ {
				if len(held) < 4 && (len(held) == 0 || r.Intn(2) == 0) {
					tok := p.Get()
					if tok == nil {
						if mk == nil {
							t.Errorf("Get returned nil although New is set")
							return
						}
						tok = mk()
					}
					if !atomic.CompareAndSwapInt32(&tok.owned, 0, 1) {
						t.Errorf("token %d handed to two users at once", tok.id)
						return
					}
					held = append(held, tok)
					continue
				}
				k := r.Intn(len(held))
				tok := held[k]
				held = append(held[:k], held[k+1:]...)
				if !atomic.CompareAndSwapInt32(&tok.owned, 1, 0) {
					t.Errorf("token %d lost its owner", tok.id)
					return
				}
				p.Put(tok)
			}
			for _, tok := range held {
				atomic.StoreInt32(&tok.owned, 0)
				p.Put(tok)
			}
		}(g)
	}
	wg.Wait()
}

func TestPoolConcurrentWithNew(t *testing.T) {
	var ids int64
	p := &sync2.Pool[*token]{New: func() *token {
		return &token{id: atomic.AddInt64(&ids, 1), fresh: true}
	}}
	hammerPool(t, p, nil)
	if ids == 0 {
		t.Fatalf("New was never called")
	}
}

func TestPoolConcurrentWithoutNew(t *testing.T) {
	var ids int64
	var p sync2.Pool[*token]
	hammerPool(t, &p, func() *token { return &token{id: atomic.AddInt64(&ids, 1)} })
}

// Value-typed items: each distinct id is Put once, so it can be received at
// most once; anything else must be the zero value (New is nil).
func TestPoolConcurrentValueItems(t *testing.T) {
	const G, N = 8, 3000
	var p sync2.Pool[int]
	var got [G*N + 1]int32
	var wg sync.WaitGroup
	for g := 0; g < G; g++ {
		wg.Add(1)
		go func(g int) {
			defer wg.Done()
			for i := 0; i < N; i++ {
				p.Put(1 + g*N + i)
				x := p.Get()
				if x < 0 || x > G*N {
					t.Errorf("Get returned a value nobody Put: %d", x)
					return
				}
				if x != 0 {
					atomic.AddInt32(&got[x], 1)
				}
			}
		}(g)
	}
	wg.Wait()
	for x := 1; x <= G*N; x++ {
		if got[x] > 1 {
			t.Fatalf("value %d handed out %d times but Put once", x, got[x])
		}
	}
}

// Concurrent Get with a shared New must not write shared state: the race
// detector watches this one; in addition every New result is unique.
func TestPoolConcurrentGetOnlyNew(t *testing.T) {
	const G, N = 8, 2000
	var ids int64
	p := sync2.Pool[int64]{New: func() int64 { return atomic.AddInt64(&ids, 1) }}
	var mu sync.Mutex
	seen := map[int64]bool{}
	var wg sync.WaitGroup
	for g := 0; g < G; g++ {
		wg.Add(1)
		go func() {
			defer wg.Done()
			local := make([]int64, 0, N)
			for i := 0; i < N; i++ {
				local = append(local, p.Get())
			}
			mu.Lock()
			defer mu.Unlock()
			for _, x := range local {
				if seen[x] {
					t.Errorf("fresh value %d returned twice", x)
					return
				}
				seen[x] = true
			}
		}()
	}
	wg.Wait()
	if int64(len(seen)) != ids || ids != G*N {
		t.Fatalf("seen %d, New calls %d, want %d", len(seen), ids, G*N)
	}
}
