package demo

import (
	"fmt"
	"math/rand"
	"reflect"
	"sync"
	"testing"

	"gopkg.in/typ.v4/slices"
)

// ---------------------------------------------------------------------------
// helpers

type ints []int // a named slice type, to exercise the S ~[]E parameter

type rec struct {
	ID   int
	Name string
	Ptr  *int
}

const sentinel = -777

// build returns a slice of the given length whose backing array has `spare`
// more elements after the length, every spare slot set to the sentinel.
// Values are base, base+1, ...
func build(length, spare, base int) []int {
	back := make([]int, length+spare)
	for i := range back {
		if i < length {
			back[i] = base + i
		} else {
			back[i] = sentinel
		}
	}
	return back[:length:length+spare]
}

func seq(length, base int) []int {
	s := make([]int, length)
	for i := range s {
		s[i] = base + i
	}
	return s
}

// model splice: fresh slice = s[:index] + vals + s[index+drop:]
func splice(s []int, index, drop int, vals []int) []int {
	out := make([]int, 0, len(s)-drop+len(vals))
	out = append(out, s[:index]...)
	out = append(out, vals...)
	out = append(out, s[index+drop:]...)
	return out
}

func equal(a, b []int) bool {
	if len(a) != len(b) {
		return false
	}
	for i := range a {
		if a[i] != b[i] {
			return false
		}
	}
	return true
}

func sameArray(a, b []int) bool {
	if cap(a) == 0 || cap(b) == 0 {
		return cap(a) == cap(b)
	}
	return &a[:1][0] == &b[:1][0]
}

// panicValue runs f and returns the recovered panic as text ("" if none).
func panicValue(f func()) (msg string) {
	defer func() {
		if r := recover(); r != nil {
			msg = fmt.Sprint(r)
			if msg == "" {
				msg = "<empty panic>"
			}
		}
	}()
	f()
	return ""
}

// ---------------------------------------------------------------------------
// Insert

func TestInsertEveryIndexAndCapacity(t *testing.T) {
	for length := 0; length <= 18; length++ {
		for spare := 0; spare <= 4; spare++ {
			for index := 0; index <= length; index++ {
				s := build(length, spare, 100)
				orig := s
				full := s[:cap(s)]
				want := splice(seq(length, 100), index, 0, []int{9000})

				slices.Insert(&s, index, 9000)

				if !equal(s, want) {
					t.Fatalf("Insert len=%d spare=%d index=%d: got %v want %v", length, spare, index, s, want)
				}
				if spare >= 1 {
					if !sameArray(s, orig) {
						t.Fatalf("Insert len=%d spare=%d index=%d: reallocated although capacity sufficed", length, spare, index)
					}
					if cap(s) != length+spare {
						t.Fatalf("Insert len=%d spare=%d index=%d: cap changed to %d", length, spare, index, cap(s))
					}
					for i := length + 1; i < len(full); i++ {
						if full[i] != sentinel {
							t.Fatalf("Insert len=%d spare=%d index=%d: wrote past the new length at %d", length, spare, index, i)
						}
					}
				} else {
					// reallocated: the old array keeps its old values
					if !equal(orig, seq(length, 100)) {
						t.Fatalf("Insert len=%d spare=0 index=%d: old array was modified: %v", length, index, orig)
					}
				}
			}
		}
	}
}

func TestInsertNilAndNamedType(t *testing.T) {
	var s ints
	slices.Insert(&s, 0, 5)
	slices.Insert(&s, 0, 3)
	slices.Insert(&s, 2, 7)
	slices.Insert(&s, 1, 4)
	if !reflect.DeepEqual(s, ints{3, 4, 5, 7}) {
		t.Fatalf("got %v", s)
	}
	var strs []string
	slices.Insert(&strs, 0, "b")
	slices.Insert(&strs, 0, "a")
	slices.Insert(&strs, 2, "c")
	if !reflect.DeepEqual(strs, []string{"a", "b", "c"}) {
		t.Fatalf("got %v", strs)
	}
}

// ---------------------------------------------------------------------------
// InsertSlice

func TestInsertSliceEveryIndexLengthAndCapacity(t *testing.T) {
	for length := 0; length <= 12; length++ {
		for spare := 0; spare <= 7; spare++ {
			for n := 0; n <= 6; n++ {
				for index := 0; index <= length; index++ {
					s := build(length, spare, 100)
					orig := s
					full := s[:cap(s)]
					vals := seq(n, 5000)
					want := splice(seq(length, 100), index, 0, vals)

					slices.InsertSlice(&s, index, vals)

					if !equal(s, want) {
						t.Fatalf("InsertSlice len=%d spare=%d n=%d index=%d: got %v want %v", length, spare, n, index, s, want)
					}
					if !equal(vals, seq(n, 5000)) {
						t.Fatalf("InsertSlice len=%d spare=%d n=%d index=%d: values argument modified: %v", length, spare, n, index, vals)
					}
					if spare >= n && cap(orig) > 0 {
						if !sameArray(s, orig) {
							t.Fatalf("InsertSlice len=%d spare=%d n=%d index=%d: reallocated although capacity sufficed", length, spare, n, index)
						}
						for i := length + n; i < len(full); i++ {
							if full[i] != sentinel {
								t.Fatalf("InsertSlice len=%d spare=%d n=%d index=%d: wrote past the new length at %d", length, spare, n, index, i)
							}
						}
					} else if n > 0 {
						if !equal(orig, seq(length, 100)) {
							t.Fatalf("InsertSlice len=%d spare=%d n=%d index=%d: old array modified: %v", length, spare, n, index, orig)
						}
					}
					// the result must not alias the inserted values
					if n > 0 {
						vals[0] = -1
						if !equal(s, want) {
							t.Fatalf("InsertSlice len=%d spare=%d n=%d index=%d: result aliases values", length, spare, n, index)
						}
					}
				}
			}
		}
	}
}

func TestInsertSliceNilCases(t *testing.T) {
	var s []int
	slices.InsertSlice(&s, 0, nil)
	if s != nil {
		t.Fatalf("inserting nothing into nil should leave nil, got %#v", s)
	}
	slices.InsertSlice(&s, 0, []int{1, 2})
	slices.InsertSlice(&s, 1, []int{})
	slices.InsertSlice(&s, 1, []int{8, 9})
	if !equal(s, []int{1, 8, 9, 2}) {
		t.Fatalf("got %v", s)
	}
	n := ints{1, 2, 3}
	slices.InsertSlice(&n, 3, ints{4, 5})
	slices.InsertSlice(&n, 0, ints{0})
	if !reflect.DeepEqual(n, ints{0, 1, 2, 3, 4, 5}) {
		t.Fatalf("got %v", n)
	}
}

// Self-insertion with a copy of own contents (no aliasing of the tail that moves).
func TestInsertSliceOwnPrefixWhenReallocating(t *testing.T) {
	for length := 1; length <= 8; length++ {
		for index := 0; index <= length; index++ {
			s := build(length, 0, 1) // no spare capacity: append must reallocate
			vals := s[:length]
			want := splice(seq(length, 1), index, 0, seq(length, 1))
			slices.InsertSlice(&s, index, vals)
			if !equal(s, want) {
				t.Fatalf("len=%d index=%d: got %v want %v", length, index, s, want)
			}
		}
	}
}

// ---------------------------------------------------------------------------
// Remove

func TestRemoveEveryIndexAndCapacity(t *testing.T) {
	for length := 1; length <= 18; length++ {
		for spare := 0; spare <= 3; spare++ {
			for index := 0; index < length; index++ {
				s := build(length, spare, 100)
				orig := s
				full := s[:cap(s)]
				want := splice(seq(length, 100), index, 1, nil)

				slices.Remove(&s, index)

				if !equal(s, want) {
					t.Fatalf("Remove len=%d spare=%d index=%d: got %v want %v", length, spare, index, s, want)
				}
				if !sameArray(s, orig) || cap(s) != length+spare {
					t.Fatalf("Remove len=%d spare=%d index=%d: not in place (cap %d)", length, spare, index, cap(s))
				}
				for i := length; i < len(full); i++ {
					if full[i] != sentinel {
						t.Fatalf("Remove len=%d spare=%d index=%d: touched spare capacity at %d", length, spare, index, i)
					}
				}
				// untouched prefix stays where it was
				for i := 0; i < index; i++ {
					if full[i] != 100+i {
						t.Fatalf("Remove len=%d index=%d: prefix element %d moved", length, index, i)
					}
				}
			}
		}
	}
}

// ---------------------------------------------------------------------------
// RemoveSlice

func TestRemoveSliceEveryIndexLengthAndCapacity(t *testing.T) {
	for length := 0; length <= 14; length++ {
		for spare := 0; spare <= 3; spare++ {
			for index := 0; index <= length; index++ {
				for n := 0; index+n <= length; n++ {
					s := build(length, spare, 100)
					orig := s
					full := s[:cap(s)]
					want := splice(seq(length, 100), index, n, nil)

					slices.RemoveSlice(&s, index, n)

					if !equal(s, want) {
						t.Fatalf("RemoveSlice len=%d spare=%d index=%d n=%d: got %v want %v", length, spare, index, n, s, want)
					}
					if !sameArray(s, orig) || cap(s) != length+spare {
						t.Fatalf("RemoveSlice len=%d spare=%d index=%d n=%d: not in place", length, spare, index, n)
					}
					for i := length; i < len(full); i++ {
						if full[i] != sentinel {
							t.Fatalf("RemoveSlice len=%d spare=%d index=%d n=%d: touched spare capacity at %d", length, spare, index, n, i)
						}
					}
				}
			}
		}
	}
}

func TestRemoveKeepsNilnessAndNamedType(t *testing.T) {
	var s []int
	slices.RemoveSlice(&s, 0, 0)
	if s != nil || len(s) != 0 {
		t.Fatalf("got %#v", s)
	}
	n := ints{1, 2, 3, 4, 5}
	slices.Remove(&n, 0)
	slices.Remove(&n, 3)
	slices.RemoveSlice(&n, 1, 2)
	if !reflect.DeepEqual(n, ints{2}) {
		t.Fatalf("got %v", n)
	}
	slices.Remove(&n, 0)
	if n == nil || len(n) != 0 {
		t.Fatalf("got %#v", n)
	}
}

// ---------------------------------------------------------------------------
// invalid positions keep panicking

func TestInvalidPositionsPanic(t *testing.T) {
	cases := []struct {
		name string
		f    func()
	}{
		{"Insert index -1", func() { s := seq(3, 0); slices.Insert(&s, -1, 9) }},
		{"Insert index len+1", func() { s := seq(3, 0); slices.Insert(&s, 4, 9) }},
		{"Insert index len+1 with spare", func() { s := build(3, 5, 0); slices.Insert(&s, 4, 9) }},
		{"Insert nil pointer", func() { slices.Insert[[]int](nil, 0, 9) }},
		{"InsertSlice index -1", func() { s := seq(3, 0); slices.InsertSlice(&s, -1, []int{1}) }},
		{"InsertSlice index len+1", func() { s := seq(3, 0); slices.InsertSlice(&s, 4, []int{1, 2}) }},
		{"InsertSlice empty values index len+1", func() { s := seq(3, 0); slices.InsertSlice(&s, 4, nil) }},
		{"InsertSlice nil pointer", func() { slices.InsertSlice[[]int](nil, 0, []int{1}) }},
		{"Remove from empty", func() { s := []int{}; slices.Remove(&s, 0) }},
		{"Remove from nil", func() { var s []int; slices.Remove(&s, 0) }},
		{"Remove index len", func() { s := seq(3, 0); slices.Remove(&s, 3) }},
		{"Remove index -1", func() { s := seq(3, 0); slices.Remove(&s, -1) }},
		{"Remove nil pointer", func() { slices.Remove[[]int](nil, 0) }},
		{"RemoveSlice too long", func() { s := seq(3, 0); slices.RemoveSlice(&s, 1, 3) }},
		{"RemoveSlice index len+1", func() { s := seq(3, 0); slices.RemoveSlice(&s, 4, 0) }},
		{"RemoveSlice index -1", func() { s := seq(3, 0); slices.RemoveSlice(&s, -1, 1) }},
		{"RemoveSlice nil pointer", func() { slices.RemoveSlice[[]int](nil, 0, 0) }},
		{"Repeat negative", func() { slices.Repeat(1, -1) }},
		{"Grow negative", func() { slices.Grow([]int{1}, -1) }},
	}
	for _, c := range cases {
		if msg := panicValue(c.f); msg == "" {
			t.Errorf("%s: expected a panic", c.name)
		}
	}
}

// When an insertion at an invalid position panics, the slice has already been
// extended by the appended value(s) (the library appends first).
func TestInsertStateAfterRecoveredPanic(t *testing.T) {
	s := build(3, 4, 10)
	msg := panicValue(func() { slices.Insert(&s, 5, 9) })
	if msg == "" {
		t.Fatal("expected panic")
	}
	if !equal(s, []int{10, 11, 12, 9}) {
		t.Fatalf("after recovered Insert panic: %v", s)
	}
	s2 := build(3, 4, 10)
	msg = panicValue(func() { slices.InsertSlice(&s2, 6, []int{7, 8}) })
	if msg == "" {
		t.Fatal("expected panic")
	}
	if !equal(s2, []int{10, 11, 12, 7, 8}) {
		t.Fatalf("after recovered InsertSlice panic: %v", s2)
	}
	s3 := seq(4, 10)
	msg = panicValue(func() { slices.RemoveSlice(&s3, 2, 3) })
	if msg == "" {
		t.Fatal("expected panic")
	}
	if !equal(s3, []int{10, 11, 12, 13}) {
		t.Fatalf("after recovered RemoveSlice panic: %v", s3)
	}
}

// ---------------------------------------------------------------------------
// Fill / Repeat

func TestFillEveryLength(t *testing.T) {
	for length := 0; length <= 300; length++ {
		for _, spare := range []int{0, 1, 5} {
			s := build(length, spare, 0)
			full := s[:cap(s)]
			slices.Fill(s, 42)
			for i := 0; i < length; i++ {
				if s[i] != 42 {
					t.Fatalf("Fill len=%d spare=%d: element %d is %d", length, spare, i, s[i])
				}
			}
			for i := length; i < len(full); i++ {
				if full[i] != sentinel {
					t.Fatalf("Fill len=%d spare=%d: wrote beyond the length at %d", length, spare, i)
				}
			}
		}
	}
	for _, length := range []int{511, 512, 513, 1023, 1024, 1025, 4097, 65537} {
		s := make([]byte, length)
		slices.Fill(s, 0xAB)
		for i, v := range s {
			if v != 0xAB {
				t.Fatalf("Fill len=%d: element %d is %x", length, i, v)
			}
		}
	}
}

func TestFillSubSliceAndTypes(t *testing.T) {
	// filling a window in the middle leaves both sides alone
	for length := 0; length <= 40; length++ {
		for from := 0; from <= length; from++ {
			for to := from; to <= length; to++ {
				s := seq(length, 0)
				slices.Fill(s[from:to], -5)
				for i, v := range s {
					want := i
					if i >= from && i < to {
						want = -5
					}
					if v != want {
						t.Fatalf("Fill window [%d:%d] of %d: element %d is %d", from, to, length, i, v)
					}
				}
			}
		}
	}
	x := 3
	proto := rec{ID: 7, Name: "seven", Ptr: &x}
	for length := 0; length <= 35; length++ {
		rs := make([]rec, length)
		slices.Fill(rs, proto)
		for i, r := range rs {
			if r != proto {
				t.Fatalf("Fill recs len=%d: element %d is %+v", length, i, r)
			}
		}
		ss := make([]string, length)
		slices.Fill(ss, "hey")
		for i, v := range ss {
			if v != "hey" {
				t.Fatalf("Fill strings len=%d: element %d is %q", length, i, v)
			}
		}
	}
	var nilSlice []int
	slices.Fill(nilSlice, 1) // must not panic
	slices.Fill(ints{}, 1)   // must not panic
	n := ints{1, 2, 3}
	slices.Fill(n, 9)
	if !reflect.DeepEqual(n, ints{9, 9, 9}) {
		t.Fatalf("got %v", n)
	}
}

func TestRepeatEveryCount(t *testing.T) {
	for count := 0; count <= 300; count++ {
		got := slices.Repeat("ab", count)
		if got == nil {
			t.Fatalf("Repeat count=%d returned nil", count)
		}
		if len(got) != count || cap(got) != count {
			t.Fatalf("Repeat count=%d: len=%d cap=%d", count, len(got), cap(got))
		}
		for i, v := range got {
			if v != "ab" {
				t.Fatalf("Repeat count=%d: element %d is %q", count, i, v)
			}
		}
	}
	a := slices.Repeat(1, 5)
	b := slices.Repeat(1, 5)
	a[0] = 2
	if b[0] != 1 {
		t.Fatal("Repeat results share memory")
	}
}

// ---------------------------------------------------------------------------
// Reverse

func TestReverseEveryLength(t *testing.T) {
	for length := 0; length <= 70; length++ {
		for _, spare := range []int{0, 2} {
			s := build(length, spare, 0)
			orig := s
			full := s[:cap(s)]
			slices.Reverse(s)
			if len(s) != length {
				t.Fatalf("length changed")
			}
			for i := 0; i < length; i++ {
				if s[i] != length-1-i {
					t.Fatalf("Reverse len=%d: element %d is %d (%v)", length, i, s[i], s)
				}
			}
			if !sameArray(s, orig) {
				t.Fatalf("Reverse len=%d: not in place", length)
			}
			for i := length; i < len(full); i++ {
				if full[i] != sentinel {
					t.Fatalf("Reverse len=%d: touched spare capacity", length)
				}
			}
			slices.Reverse(s)
			if !equal(s, seq(length, 0)) {
				t.Fatalf("Reverse twice len=%d is not the identity: %v", length, s)
			}
		}
	}
	var nilSlice []string
	slices.Reverse(nilSlice)
	n := ints{1, 2, 3, 4}
	slices.Reverse(n)
	if !reflect.DeepEqual(n, ints{4, 3, 2, 1}) {
		t.Fatalf("got %v", n)
	}
	strs := []string{"a", "b", "c"}
	slices.Reverse(strs)
	if !reflect.DeepEqual(strs, []string{"c", "b", "a"}) {
		t.Fatalf("got %v", strs)
	}
	// a window in the middle
	w := seq(10, 0)
	slices.Reverse(w[3:8])
	if !equal(w, []int{0, 1, 2, 7, 6, 5, 4, 3, 8, 9}) {
		t.Fatalf("got %v", w)
	}
}

// ---------------------------------------------------------------------------
// Concat / Clone

func TestConcatEveryLengthPair(t *testing.T) {
	for la := 0; la <= 12; la++ {
		for lb := 0; lb <= 12; lb++ {
			for _, spare := range []int{0, 3, 20} {
				a := build(la, spare, 100)
				b := build(lb, spare, 200)
				got := slices.Concat(a, b)
				want := append(seq(la, 100), seq(lb, 200)...)
				if got == nil {
					t.Fatalf("Concat la=%d lb=%d returned nil", la, lb)
				}
				if !equal(got, want) {
					t.Fatalf("Concat la=%d lb=%d spare=%d: got %v want %v", la, lb, spare, got, want)
				}
				if cap(got) != la+lb {
					t.Fatalf("Concat la=%d lb=%d: cap=%d", la, lb, cap(got))
				}
				// mutate the result: inputs (and their spare capacity) unchanged
				for i := range got {
					got[i] = -1
				}
				_ = append(got[:0], make([]int, cap(got))...)
				if !equal(a, seq(la, 100)) || !equal(b, seq(lb, 200)) {
					t.Fatalf("Concat la=%d lb=%d: inputs changed after mutating the result", la, lb)
				}
				for _, in := range [][]int{a, b} {
					full := in[:cap(in)]
					for i := len(in); i < len(full); i++ {
						if full[i] != sentinel {
							t.Fatalf("Concat la=%d lb=%d: input spare capacity written", la, lb)
						}
					}
				}
				// mutate the inputs: a fresh result is unaffected
				got2 := slices.Concat(a, b)
				for i := range a {
					a[i] = -2
				}
				for i := range b {
					b[i] = -3
				}
				if !equal(got2, want) {
					t.Fatalf("Concat la=%d lb=%d: result changed after mutating inputs", la, lb)
				}
			}
		}
	}
}

func TestConcatSameInputTwiceAndNil(t *testing.T) {
	a := seq(4, 1)
	got := slices.Concat(a, a)
	if !equal(got, []int{1, 2, 3, 4, 1, 2, 3, 4}) {
		t.Fatalf("got %v", got)
	}
	got[0], got[4] = 50, 60
	if !equal(a, []int{1, 2, 3, 4}) {
		t.Fatalf("input changed: %v", a)
	}
	// overlapping windows of the same array
	base := seq(6, 0)
	got = slices.Concat(base[:4], base[2:])
	if !equal(got, []int{0, 1, 2, 3, 2, 3, 4, 5}) {
		t.Fatalf("got %v", got)
	}
	var nilInts ints
	r := slices.Concat(nilInts, nilInts)
	if r == nil || len(r) != 0 {
		t.Fatalf("Concat(nil, nil) = %#v", r)
	}
	r = slices.Concat(nilInts, ints{1})
	if !reflect.DeepEqual(r, ints{1}) {
		t.Fatalf("got %v", r)
	}
	r = slices.Concat(ints{1}, nil)
	if !reflect.DeepEqual(r, ints{1}) {
		t.Fatalf("got %v", r)
	}
}

func TestCloneEveryLength(t *testing.T) {
	for length := 0; length <= 40; length++ {
		for _, spare := range []int{0, 4} {
			in := build(length, spare, 300)
			got := slices.Clone(in)
			if got == nil {
				t.Fatalf("Clone len=%d returned nil", length)
			}
			if !equal(got, seq(length, 300)) {
				t.Fatalf("Clone len=%d: got %v", length, got)
			}
			if cap(got) != length {
				t.Fatalf("Clone len=%d spare=%d: cap=%d", length, spare, cap(got))
			}
			for i := range got {
				got[i] = -1
			}
			if !equal(in, seq(length, 300)) {
				t.Fatalf("Clone len=%d: input changed after mutating the clone", length)
			}
			got2 := slices.Clone(in)
			for i := range in {
				in[i] = -4
			}
			if !equal(got2, seq(length, 300)) {
				t.Fatalf("Clone len=%d: clone changed after mutating the input", length)
			}
		}
	}
	var nilInts ints
	c := slices.Clone(nilInts)
	if c == nil || len(c) != 0 {
		t.Fatalf("Clone(nil) = %#v", c)
	}
	x := 1
	rs := []rec{{1, "a", &x}, {2, "b", nil}}
	rc := slices.Clone(rs)
	if !reflect.DeepEqual(rc, rs) || rc[0].Ptr != &x {
		t.Fatalf("shallow clone mismatch: %+v", rc)
	}
}

// ---------------------------------------------------------------------------
// Grow

func TestGrowAppendsZeroValues(t *testing.T) {
	for length := 0; length <= 10; length++ {
		for spare := 0; spare <= 6; spare++ {
			for n := 0; n <= 9; n++ {
				s := build(length, spare, 100)
				got := slices.Grow(s, n)
				if len(got) != length+n {
					t.Fatalf("Grow len=%d spare=%d n=%d: len=%d", length, spare, n, len(got))
				}
				if !equal(got[:length], seq(length, 100)) {
					t.Fatalf("Grow len=%d spare=%d n=%d: prefix %v", length, spare, n, got[:length])
				}
				for i := length; i < length+n; i++ {
					if got[i] != 0 {
						t.Fatalf("Grow len=%d spare=%d n=%d: element %d is %d, not zero", length, spare, n, i, got[i])
					}
				}
				if !equal(s, seq(length, 100)) {
					t.Fatalf("Grow changed the visible part of its input")
				}
				if n <= spare && cap(s) > 0 && !sameArray(got, s) {
					t.Fatalf("Grow len=%d spare=%d n=%d: reallocated although capacity sufficed", length, spare, n)
				}
			}
		}
	}
	var nilInts ints
	if g := slices.Grow(nilInts, 0); g != nil {
		t.Fatalf("Grow(nil, 0) = %#v", g)
	}
	if g := slices.Grow(nilInts, 3); !reflect.DeepEqual(g, ints{0, 0, 0}) {
		t.Fatalf("Grow(nil, 3) = %#v", g)
	}
	gs := slices.Grow([]string{"a"}, 2)
	if !reflect.DeepEqual(gs, []string{"a", "", ""}) {
		t.Fatalf("got %q", gs)
	}
}

// ---------------------------------------------------------------------------
// randomized model-based sequences

func TestRandomOperationSequences(t *testing.T) {
	for seed := int64(1); seed <= 40; seed++ {
		rng := rand.New(rand.NewSource(seed))
		var s ints
		var model []int
		next := 0
		for step := 0; step < 400; step++ {
			switch op := rng.Intn(9); op {
			case 0, 1:
				idx := rng.Intn(len(model) + 1)
				next++
				slices.Insert(&s, idx, next)
				model = splice(model, idx, 0, []int{next})
			case 2:
				idx := rng.Intn(len(model) + 1)
				n := rng.Intn(6)
				vals := make(ints, n)
				for i := range vals {
					next++
					vals[i] = next
				}
				slices.InsertSlice(&s, idx, vals)
				model = splice(model, idx, 0, vals)
			case 3:
				if len(model) == 0 {
					continue
				}
				idx := rng.Intn(len(model))
				slices.Remove(&s, idx)
				model = splice(model, idx, 1, nil)
			case 4:
				idx := rng.Intn(len(model) + 1)
				n := rng.Intn(len(model) - idx + 1)
				if n > 5 {
					n = rng.Intn(6)
				}
				slices.RemoveSlice(&s, idx, n)
				model = splice(model, idx, n, nil)
			case 5:
				slices.Reverse(s)
				for i, j := 0, len(model)-1; i < j; i, j = i+1, j-1 {
					model[i], model[j] = model[j], model[i]
				}
			case 6:
				c := slices.Clone(s)
				if !equal(c, model) {
					t.Fatalf("seed %d step %d: clone %v model %v", seed, step, c, model)
				}
				slices.Fill(c, -9) // must not affect s
				s2 := slices.Concat(s, c)
				want := append(append([]int{}, model...), slices.Repeat(-9, len(model))...)
				if !equal(s2, want) {
					t.Fatalf("seed %d step %d: concat %v want %v", seed, step, s2, want)
				}
			case 7:
				if len(model) > 60 {
					from := rng.Intn(len(model))
					slices.RemoveSlice(&s, from, len(model)-from)
					model = model[:from:from]
				}
			case 8:
				n := rng.Intn(4)
				g := slices.Grow(s, n)
				if !equal(g[:len(model)], model) || len(g) != len(model)+n {
					t.Fatalf("seed %d step %d: grow %v model %v", seed, step, g, model)
				}
				for _, v := range g[len(model):] {
					if v != 0 {
						t.Fatalf("seed %d step %d: grow tail %v", seed, step, g)
					}
				}
				// adopt the grown slice, with a window filled
				s = g
				model = append(append([]int{}, model...), make([]int, n)...)
				if n > 0 {
					slices.Fill(s[len(s)-n:], 77)
					for i := len(model) - n; i < len(model); i++ {
						model[i] = 77
					}
				}
			}
			if !equal(s, model) {
				t.Fatalf("seed %d step %d: got %v want %v", seed, step, []int(s), model)
			}
		}
	}
}

// ---------------------------------------------------------------------------
// concurrent use: shared inputs are only read by Concat/Clone, private slices
// are spliced independently.  Run with -race.

func TestConcurrentUseOfSharedReadOnlyInputs(t *testing.T) {
	sharedA := seq(64, 1000)
	sharedB := seq(33, 2000)
	wantConcat := append(seq(64, 1000), seq(33, 2000)...)
	var wg sync.WaitGroup
	errs := make(chan string, 64)
	for g := 0; g < 8; g++ {
		wg.Add(1)
		go func(g int) {
			defer wg.Done()
			rng := rand.New(rand.NewSource(int64(100 + g)))
			for round := 0; round < 200; round++ {
				c := slices.Concat(sharedA, sharedB)
				if !equal(c, wantConcat) {
					errs <- fmt.Sprintf("goroutine %d: concat mismatch", g)
					return
				}
				own := slices.Clone(sharedA)
				model := seq(64, 1000)
				for k := 0; k < 10; k++ {
					idx := rng.Intn(len(model) + 1)
					slices.Insert(&own, idx, g)
					model = splice(model, idx, 0, []int{g})
					idx = rng.Intn(len(model) + 1)
					slices.InsertSlice(&own, idx, sharedB[:5])
					model = splice(model, idx, 0, sharedB[:5])
					idx = rng.Intn(len(model))
					slices.Remove(&own, idx)
					model = splice(model, idx, 1, nil)
					idx = rng.Intn(len(model) - 3)
					slices.RemoveSlice(&own, idx, 3)
					model = splice(model, idx, 3, nil)
				}
				slices.Reverse(c)
				slices.Fill(c[:10], g)
				if !equal(own, model) {
					errs <- fmt.Sprintf("goroutine %d: splice mismatch", g)
					return
				}
			}
		}(g)
	}
	wg.Wait()
	close(errs)
	for e := range errs {
		t.Error(e)
	}
	if !equal(sharedA, seq(64, 1000)) || !equal(sharedB, seq(33, 2000)) {
		t.Fatal("shared inputs were modified")
	}
}

// ---------------------------------------------------------------------------
// neighbouring index walks in the same file (Pairs, PairsFunc, Windowed)

func TestPairsAndWindowedEveryLength(t *testing.T) {
	for length := 0; length <= 20; length++ {
		in := seq(length, 0)
		pairs := slices.Pairs(in)
		var calls [][2]int
		slices.PairsFunc(in, func(a, b int) { calls = append(calls, [2]int{a, b}) })
		if length < 2 {
			if pairs != nil || calls != nil {
				t.Fatalf("len=%d: pairs=%v calls=%v", length, pairs, calls)
			}
		} else {
			if len(pairs) != length-1 || len(calls) != length-1 {
				t.Fatalf("len=%d: %d pairs, %d calls", length, len(pairs), len(calls))
			}
			for i := range pairs {
				if pairs[i] != [2]int{i, i + 1} || calls[i] != [2]int{i, i + 1} {
					t.Fatalf("len=%d: pair %d is %v / %v", length, i, pairs[i], calls[i])
				}
			}
		}
		for size := 0; size <= length+2; size++ {
			windows := slices.Windowed(in, size)
			if size > length {
				if windows != nil {
					t.Fatalf("len=%d size=%d: %v", length, size, windows)
				}
				continue
			}
			if len(windows) != length-size+1 {
				t.Fatalf("len=%d size=%d: %d windows", length, size, len(windows))
			}
			for i, w := range windows {
				if !equal(w, seq(size, i)) {
					t.Fatalf("len=%d size=%d: window %d is %v", length, size, i, w)
				}
			}
		}
	}
	if msg := panicValue(func() { slices.Windowed(seq(3, 0), -1) }); msg == "" {
		t.Error("Windowed with negative size should panic")
	}
}
