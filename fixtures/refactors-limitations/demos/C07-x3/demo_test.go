package demo

import (
	"fmt"
	"math/rand"
	"reflect"
	"sort"
	"strings"
	"sync"
	"testing"

	"gopkg.in/typ.v4/slices"
)

// ---------------------------------------------------------------------------
// reference model

// model is a deliberately naive reference of slices.Sorted: a slice kept in
// order by linear scans.
type model[T comparable] struct {
	vals []T
	less func(a, b T) bool
}

func newModel[T comparable](init []T, less func(a, b T) bool) *model[T] {
	m := &model[T]{less: less}
	// stable insertion sort: equal elements keep their input order.
	for _, v := range init {
		i := len(m.vals)
		for i > 0 && less(v, m.vals[i-1]) {
			i--
		}
		m.insertAt(i, v)
	}
	return m
}

func (m *model[T]) insertAt(i int, v T) {
	var zero T
	m.vals = append(m.vals, zero)
	copy(m.vals[i+1:], m.vals[i:])
	m.vals[i] = v
}

func (m *model[T]) lowerBound(v T) int {
	for i, x := range m.vals {
		if !m.less(x, v) {
			return i
		}
	}
	return len(m.vals)
}

func (m *model[T]) add(v T) int {
	i := m.lowerBound(v)
	m.insertAt(i, v)
	return i
}

func (m *model[T]) index(v T) int {
	i := m.lowerBound(v)
	if i < len(m.vals) && m.vals[i] == v {
		return i
	}
	return -1
}

func (m *model[T]) removeAt(i int) {
	m.vals = append(m.vals[:i:i], m.vals[i+1:]...)
}

func (m *model[T]) remove(v T) int {
	i := m.index(v)
	if i != -1 {
		m.removeAt(i)
	}
	return i
}

// firstEqual is an oracle independent of less: first position holding v.
func firstEqual[T comparable](vals []T, v T) int {
	for i, x := range vals {
		if x == v {
			return i
		}
	}
	return -1
}

// ---------------------------------------------------------------------------
// helpers

func catch(f func()) (r any) {
	defer func() { r = recover() }()
	f()
	return nil
}

func contents[T comparable](s *slices.Sorted[T]) []T {
	out := make([]T, 0, s.Len())
	for i := 0; i < s.Len(); i++ {
		out = append(out, s.Get(i))
	}
	return out
}

// same reports whether two slices hold the same values (nil equals empty).
func same[T comparable](a, b []T) bool {
	if len(a) != len(b) {
		return false
	}
	for i := range a {
		if a[i] != b[i] {
			return false
		}
	}
	return true
}

func counts[T comparable](vals []T) map[T]int {
	c := map[T]int{}
	for _, v := range vals {
		c[v]++
	}
	return c
}

// verify compares the sorted slice with the model and the independent multiset.
func verify[T comparable](t *testing.T, where string, s *slices.Sorted[T], m *model[T], bag map[T]int) {
	t.Helper()
	if s.Len() != len(m.vals) {
		t.Fatalf("%s: Len=%d want %d", where, s.Len(), len(m.vals))
	}
	got := contents(s)
	if len(got) != len(m.vals) {
		t.Fatalf("%s: contents=%v want %v", where, got, m.vals)
	}
	for i := range got {
		if got[i] != m.vals[i] {
			t.Fatalf("%s: contents=%v want %v", where, got, m.vals)
		}
	}
	for i := 1; i < len(got); i++ {
		if m.less(got[i], got[i-1]) {
			t.Fatalf("%s: not sorted at %d: %v", where, i, got)
		}
	}
	gotBag := counts(got)
	// drop zero entries of the bag
	for k, n := range bag {
		if n == 0 {
			delete(bag, k)
		}
		if n < 0 {
			t.Fatalf("%s: test bug, negative count for %v", where, k)
		}
	}
	if !reflect.DeepEqual(gotBag, bag) {
		t.Fatalf("%s: multiset=%v want %v", where, gotBag, bag)
	}
	if str, want := s.String(), fmt.Sprint(m.vals); str != want {
		t.Fatalf("%s: String=%q want %q", where, str, want)
	}
	if str, want := fmt.Sprint(*s), fmt.Sprint(m.vals); str != want {
		t.Fatalf("%s: Sprint(value)=%q want %q", where, str, want)
	}
}

func rangeMsg(index, length int) string {
	return fmt.Sprintf("sortedslice: index out of range [%d] with length %d", index, length)
}

// ---------------------------------------------------------------------------
// randomized histories, total order consistent with ==

func runIntHistory(t *testing.T, seed int64, steps int, desc bool) {
	rng := rand.New(rand.NewSource(seed))
	less := func(a, b int) bool { return a < b }
	if desc {
		less = func(a, b int) bool { return a > b }
	}
	span := 1 + rng.Intn(12) // small span => many duplicates
	val := func() int { return rng.Intn(span) - span/2 }

	n := rng.Intn(25)
	if seed%7 == 0 {
		n = 0
	}
	input := make([]int, n, n+rng.Intn(4)) // spare capacity: Add must not write into it
	for i := range input {
		input[i] = val()
	}
	saved := append([]int(nil), input...)

	var s slices.Sorted[int]
	if desc || seed%2 == 0 {
		s = slices.NewSorted(input, less)
	} else {
		s = slices.NewSortedOrdered(input...)
	}
	m := newModel(saved, less)
	bag := counts(saved)
	where := fmt.Sprintf("seed %d desc %v init", seed, desc)
	if !same(input, saved) {
		t.Fatalf("%s: input reordered: %v want %v", where, input, saved)
	}
	verify(t, where, &s, m, bag)

	// the input is copied: writing to it (or its spare capacity) changes nothing.
	for i := range input {
		input[i] = 1000 + i
	}
	full := input[:cap(input)]
	for i := n; i < len(full); i++ {
		full[i] = -1000
	}
	verify(t, where+" after scribbling on input", &s, m, bag)
	copy(input, saved)

	for step := 0; step < steps; step++ {
		where := fmt.Sprintf("seed %d desc %v step %d", seed, desc, step)
		switch op := rng.Intn(10); op {
		case 0, 1, 2:
			v := val()
			got, want := s.Add(v), m.add(v)
			bag[v]++
			if got != want {
				t.Fatalf("%s: Add(%d)=%d want %d", where, v, got, want)
			}
			if s.Get(got) != v {
				t.Fatalf("%s: Add(%d)=%d but Get there is %d", where, v, got, s.Get(got))
			}
		case 3, 4:
			v := val()
			if rng.Intn(4) == 0 {
				v += 100 // surely absent
			}
			before := contents(&s)
			wantFirst := firstEqual(before, v)
			got, want := s.Remove(v), m.remove(v)
			if got != want || got != wantFirst {
				t.Fatalf("%s: Remove(%d)=%d want %d (first %d)", where, v, got, want, wantFirst)
			}
			if got == -1 {
				if after := contents(&s); !same(after, before) {
					t.Fatalf("%s: Remove(absent %d) changed %v to %v", where, v, before, after)
				}
			} else {
				bag[v]--
			}
		case 5:
			if s.Len() == 0 {
				continue
			}
			i := rng.Intn(s.Len())
			v := s.Get(i)
			s.RemoveAt(i)
			m.removeAt(i)
			bag[v]--
		case 6:
			v := val()
			if rng.Intn(3) == 0 {
				v -= 100
			}
			got, want := s.Index(v), m.index(v)
			first := firstEqual(m.vals, v)
			if got != want || got != first {
				t.Fatalf("%s: Index(%d)=%d want %d (first %d)", where, v, got, want, first)
			}
			if c := s.Contains(v); c != (first != -1) {
				t.Fatalf("%s: Contains(%d)=%v but Index=%d", where, v, c, got)
			}
		case 7:
			// every value: Index is the first occurrence, Contains agrees.
			for v := -span; v <= span; v++ {
				first := firstEqual(m.vals, v)
				if got := s.Index(v); got != first {
					t.Fatalf("%s: Index(%d)=%d want %d", where, v, got, first)
				}
				if got := s.Contains(v); got != (first != -1) {
					t.Fatalf("%s: Contains(%d)=%v want %v", where, v, got, first != -1)
				}
			}
		case 8:
			// out of range positions panic and change nothing.
			l := s.Len()
			for _, i := range []int{-1, l, l + 1, -l - 1, l + 7, -1 << 40, 1 << 40} {
				if r := catch(func() { s.Get(i) }); r != rangeMsg(i, l) {
					t.Fatalf("%s: Get(%d) len %d: panic %v", where, i, l, r)
				}
				if r := catch(func() { s.RemoveAt(i) }); r != rangeMsg(i, l) {
					t.Fatalf("%s: RemoveAt(%d) len %d: panic %v", where, i, l, r)
				}
			}
		case 9:
			// boundaries: first and last position.
			if l := s.Len(); l > 0 {
				i := (l - 1) * rng.Intn(2)
				v := s.Get(i)
				if v != m.vals[i] {
					t.Fatalf("%s: Get(%d)=%d want %d", where, i, v, m.vals[i])
				}
				s.RemoveAt(i)
				m.removeAt(i)
				bag[v]--
			}
		}
		verify(t, where, &s, m, bag)
		if !same(input, saved) {
			t.Fatalf("%s: caller's input changed: %v want %v", where, input, saved)
		}
	}

	// drain completely through Remove, one occurrence at a time.
	for len(m.vals) > 0 {
		v := m.vals[rng.Intn(len(m.vals))]
		got, want := s.Remove(v), m.remove(v)
		bag[v]--
		if got != want {
			t.Fatalf("seed %d drain: Remove(%d)=%d want %d", seed, v, got, want)
		}
		verify(t, fmt.Sprintf("seed %d drain", seed), &s, m, bag)
	}
	if s.Remove(0) != -1 || s.Index(0) != -1 || s.Contains(0) || s.Len() != 0 || s.String() != "[]" {
		t.Fatalf("seed %d: drained slice misbehaves: %v", seed, s)
	}
	if got := s.Add(5); got != 0 || s.Len() != 1 || s.Get(0) != 5 {
		t.Fatalf("seed %d: Add to drained slice = %d, %v", seed, got, s)
	}
}

func TestRandomHistoriesAscending(t *testing.T) {
	for seed := int64(1); seed <= 150; seed++ {
		runIntHistory(t, seed, 250, false)
	}
}

func TestRandomHistoriesDescending(t *testing.T) {
	for seed := int64(1001); seed <= 1100; seed++ {
		runIntHistory(t, seed, 200, true)
	}
}

// ---------------------------------------------------------------------------
// other element types

func TestStringsAndFloats(t *testing.T) {
	rng := rand.New(rand.NewSource(42))
	words := strings.Fields("a b c d e f g aa ab ba bb zz z y x w")
	init := []string{"f", "b", "b", "zz", "a", "a", "a"}
	saved := append([]string(nil), init...)
	s := slices.NewSortedOrdered(init...)
	m := newModel(saved, func(a, b string) bool { return a < b })
	bag := counts(saved)
	for step := 0; step < 2000; step++ {
		w := words[rng.Intn(len(words))]
		where := fmt.Sprintf("strings step %d", step)
		switch rng.Intn(4) {
		case 0, 1:
			if got, want := s.Add(w), m.add(w); got != want {
				t.Fatalf("%s: Add(%q)=%d want %d", where, w, got, want)
			}
			bag[w]++
		case 2:
			got, want := s.Remove(w), m.remove(w)
			if got != want {
				t.Fatalf("%s: Remove(%q)=%d want %d", where, w, got, want)
			}
			if got != -1 {
				bag[w]--
			}
		case 3:
			if got, want := s.Index(w), firstEqual(m.vals, w); got != want || s.Contains(w) != (want != -1) {
				t.Fatalf("%s: Index(%q)=%d want %d", where, w, got, want)
			}
		}
		verify(t, where, &s, m, bag)
	}
	if !same(init, saved) {
		t.Fatalf("input changed: %v", init)
	}

	f := slices.NewSortedOrdered(2.5, -1.0, 2.5, 0.0)
	if got := f.String(); got != "[-1 0 2.5 2.5]" {
		t.Fatalf("floats: %s", got)
	}
	if i := f.Add(2.5); i != 2 {
		t.Fatalf("floats Add(2.5)=%d", i)
	}
	if i := f.Remove(2.5); i != 2 || f.Len() != 4 {
		t.Fatalf("floats Remove(2.5)=%d len %d", i, f.Len())
	}
	if i := f.Remove(7); i != -1 || f.String() != "[-1 0 2.5 2.5]" {
		t.Fatalf("floats Remove(7)=%d %s", i, f.String())
	}
}

type ids []int

func TestNamedSliceTypeAndNilInput(t *testing.T) {
	in := ids{3, 1, 2, 1}
	s := slices.NewSorted(in, func(a, b int) bool { return a < b })
	if s.String() != "[1 1 2 3]" || !same(in, ids{3, 1, 2, 1}) {
		t.Fatalf("got %s, input %v", s.String(), in)
	}
	var none []int
	e := slices.NewSorted(none, func(a, b int) bool { return a < b })
	if e.Len() != 0 || e.String() != "[]" || e.Index(1) != -1 || e.Contains(1) || e.Remove(1) != -1 {
		t.Fatalf("empty: %v", e)
	}
	if i := e.Add(4); i != 0 {
		t.Fatalf("Add=%d", i)
	}
	if i := e.Add(4); i != 0 {
		t.Fatalf("Add=%d", i)
	}
	if i := e.Add(9); i != 2 {
		t.Fatalf("Add=%d", i)
	}
	if i := e.Add(1); i != 0 {
		t.Fatalf("Add=%d", i)
	}
	if e.String() != "[1 4 4 9]" {
		t.Fatalf("got %s", e.String())
	}
	o := slices.NewSortedOrdered[int]()
	if o.Len() != 0 || o.Remove(3) != -1 || o.Add(3) != 0 || o.Remove(3) != 0 || o.Len() != 0 {
		t.Fatalf("ordered empty: %v", o)
	}
}

// ---------------------------------------------------------------------------
// a less that only looks at a key (weaker than ==): still sorted, still an
// exact multiset; the model pins which element the lookups see.

type rec struct {
	Key int
	Tag string
}

func TestKeyOnlyLess(t *testing.T) {
	less := func(a, b rec) bool { return a.Key < b.Key }
	for seed := int64(1); seed <= 60; seed++ {
		rng := rand.New(rand.NewSource(seed))
		tags := []string{"x", "y", "z"}
		mk := func() rec { return rec{rng.Intn(6), tags[rng.Intn(len(tags))]} }
		init := make([]rec, rng.Intn(15))
		for i := range init {
			init[i] = mk()
		}
		saved := append([]rec(nil), init...)
		s := slices.NewSorted(init, less)
		m := newModel(saved, less) // stable: equal keys keep input order
		bag := counts(saved)
		verify(t, fmt.Sprintf("key seed %d init", seed), &s, m, bag)
		for step := 0; step < 200; step++ {
			where := fmt.Sprintf("key seed %d step %d", seed, step)
			v := mk()
			switch rng.Intn(5) {
			case 0, 1:
				if got, want := s.Add(v), m.add(v); got != want {
					t.Fatalf("%s: Add(%v)=%d want %d", where, v, got, want)
				}
				bag[v]++
			case 2:
				got, want := s.Remove(v), m.remove(v)
				if got != want {
					t.Fatalf("%s: Remove(%v)=%d want %d", where, v, got, want)
				}
				if got != -1 {
					bag[v]--
				}
			case 3:
				if got, want := s.Index(v), m.index(v); got != want || s.Contains(v) != (want != -1) {
					t.Fatalf("%s: Index(%v)=%d want %d", where, v, got, want)
				}
			case 4:
				if s.Len() > 0 {
					i := rng.Intn(s.Len())
					bag[s.Get(i)]--
					s.RemoveAt(i)
					m.removeAt(i)
				}
			}
			verify(t, where, &s, m, bag)
		}
		if !same(init, saved) {
			t.Fatalf("key seed %d: input changed", seed)
		}
	}
}

// ---------------------------------------------------------------------------
// the comparisons a lookup makes: always less(element, value), probing the
// positions of a plain binary search.

func TestLessProbes(t *testing.T) {
	type pair [2]int
	var rec []pair
	recording := false
	less := func(a, b int) bool {
		if recording {
			rec = append(rec, pair{a, b})
		}
		return a < b
	}
	rng := rand.New(rand.NewSource(7))
	s := slices.NewSorted([]int{5, 1, 3, 3, 9}, less)
	m := newModel([]int{5, 1, 3, 3, 9}, func(a, b int) bool { return a < b })
	expect := func(v int) []pair {
		var want []pair
		sort.Search(len(m.vals), func(i int) bool {
			want = append(want, pair{m.vals[i], v})
			return !(m.vals[i] < v)
		})
		return want
	}
	for step := 0; step < 1500; step++ {
		v := rng.Intn(14)
		want := expect(v)
		rec, recording = nil, true
		var got, exp int
		op := rng.Intn(4)
		switch op {
		case 0:
			got, exp = s.Add(v), m.add(v)
		case 1:
			got, exp = s.Index(v), m.index(v)
		case 2:
			exp = m.index(v)
			got = exp
			if s.Contains(v) != (exp != -1) {
				t.Fatalf("step %d: Contains(%d) wrong", step, v)
			}
		case 3:
			got, exp = s.Remove(v), m.remove(v)
		}
		recording = false
		if got != exp {
			t.Fatalf("step %d op %d value %d: got %d want %d", step, op, v, got, exp)
		}
		if !reflect.DeepEqual(rec, want) {
			t.Fatalf("step %d op %d value %d: less calls %v want %v", step, op, v, rec, want)
		}
		if !same(contents(&s), append([]int{}, m.vals...)) {
			t.Fatalf("step %d: contents %v want %v", step, contents(&s), m.vals)
		}
	}
	// Get, Len, RemoveAt and String never compare.
	recording, rec = true, nil
	_ = s.Len()
	_ = s.String()
	if s.Len() > 0 {
		_ = s.Get(0)
		s.RemoveAt(s.Len() - 1)
	}
	if len(rec) != 0 {
		t.Fatalf("unexpected comparisons: %v", rec)
	}
}

// ---------------------------------------------------------------------------
// panics

func TestBoundsPanics(t *testing.T) {
	s := slices.NewSortedOrdered(10, 20, 30)
	for _, i := range []int{-1, 3, 4, -3, 100} {
		if r := catch(func() { s.Get(i) }); r != rangeMsg(i, 3) {
			t.Errorf("Get(%d): %v", i, r)
		}
		if r := catch(func() { s.RemoveAt(i) }); r != rangeMsg(i, 3) {
			t.Errorf("RemoveAt(%d): %v", i, r)
		}
	}
	if s.String() != "[10 20 30]" {
		t.Fatalf("changed: %s", s.String())
	}
	for i, want := range []int{10, 20, 30} {
		if got := s.Get(i); got != want {
			t.Errorf("Get(%d)=%d", i, got)
		}
	}
	s.RemoveAt(1)
	if s.String() != "[10 30]" {
		t.Fatalf("RemoveAt(1): %s", s.String())
	}
	s.RemoveAt(1)
	if s.String() != "[10]" {
		t.Fatalf("RemoveAt(last): %s", s.String())
	}
	if r := catch(func() { s.RemoveAt(1) }); r != rangeMsg(1, 1) {
		t.Errorf("RemoveAt(1) len 1: %v", r)
	}
	s.RemoveAt(0)
	if s.String() != "[]" || s.Len() != 0 {
		t.Fatalf("RemoveAt(0): %s", s.String())
	}
	for _, i := range []int{-1, 0, 1} {
		if r := catch(func() { s.Get(i) }); r != rangeMsg(i, 0) {
			t.Errorf("empty Get(%d): %v", i, r)
		}
		if r := catch(func() { s.RemoveAt(i) }); r != rangeMsg(i, 0) {
			t.Errorf("empty RemoveAt(%d): %v", i, r)
		}
	}
}

func TestNilAndZeroValue(t *testing.T) {
	var np *slices.Sorted[int]
	if np.Len() != 0 {
		t.Errorf("nil Len=%d", np.Len())
	}
	for _, i := range []int{-1, 0, 1} {
		if r := catch(func() { np.Get(i) }); r != rangeMsg(i, 0) {
			t.Errorf("nil Get(%d): %v", i, r)
		}
		if r := catch(func() { np.RemoveAt(i) }); r != rangeMsg(i, 0) {
			t.Errorf("nil RemoveAt(%d): %v", i, r)
		}
	}
	if r := catch(func() { np.Add(1) }); r != "sortedslice: tried to add to nil sortedslice" {
		t.Errorf("nil Add: %v", r)
	}
	isNilDeref := func(r any) bool {
		err, ok := r.(error)
		return ok && strings.Contains(err.Error(), "nil pointer dereference")
	}
	if r := catch(func() { np.Index(1) }); !isNilDeref(r) {
		t.Errorf("nil Index: %v", r)
	}
	if r := catch(func() { np.Contains(1) }); !isNilDeref(r) {
		t.Errorf("nil Contains: %v", r)
	}
	if r := catch(func() { np.Remove(1) }); !isNilDeref(r) {
		t.Errorf("nil Remove: %v", r)
	}

	var z slices.Sorted[int]
	const uninit = "sortedslice: not initialized"
	if z.Len() != 0 || z.String() != "[]" {
		t.Errorf("zero: len %d %q", z.Len(), z.String())
	}
	if r := catch(func() { z.Add(1) }); r != uninit {
		t.Errorf("zero Add: %v", r)
	}
	if r := catch(func() { z.Index(1) }); r != uninit {
		t.Errorf("zero Index: %v", r)
	}
	if r := catch(func() { z.Contains(1) }); r != uninit {
		t.Errorf("zero Contains: %v", r)
	}
	if r := catch(func() { z.Remove(1) }); r != uninit {
		t.Errorf("zero Remove: %v", r)
	}
	if r := catch(func() { z.Get(0) }); r != rangeMsg(0, 0) {
		t.Errorf("zero Get: %v", r)
	}
	if r := catch(func() { z.RemoveAt(0) }); r != rangeMsg(0, 0) {
		t.Errorf("zero RemoveAt: %v", r)
	}
	if z.Len() != 0 || z.String() != "[]" {
		t.Errorf("zero after panics: len %d %q", z.Len(), z.String())
	}
}

// A less function that panics leaves the contents as they were.
func TestPanickingLess(t *testing.T) {
	boom := false
	s := slices.NewSorted([]int{4, 2, 8, 6}, func(a, b int) bool {
		if boom {
			panic("boom")
		}
		return a < b
	})
	boom = true
	for name, f := range map[string]func(){
		"Add":      func() { s.Add(5) },
		"Remove":   func() { s.Remove(4) },
		"Index":    func() { s.Index(4) },
		"Contains": func() { s.Contains(4) },
	} {
		if r := catch(f); r != "boom" {
			t.Errorf("%s: %v", name, r)
		}
	}
	boom = false
	if s.String() != "[2 4 6 8]" || s.Len() != 4 {
		t.Fatalf("contents changed: %s", s.String())
	}
	if i := s.Add(5); i != 2 || s.String() != "[2 4 5 6 8]" {
		t.Fatalf("Add(5)=%d %s", i, s.String())
	}
}

// ---------------------------------------------------------------------------
// the plain slice helpers Sorted is built on

func TestInsertRemoveHelpers(t *testing.T) {
	rng := rand.New(rand.NewSource(99))
	for round := 0; round < 300; round++ {
		n := rng.Intn(8)
		base := make([]int, n, n+rng.Intn(3))
		for i := range base {
			base[i] = rng.Intn(100)
		}
		ref := append([]int(nil), base...)
		for step := 0; step < 30; step++ {
			if len(ref) == 0 || rng.Intn(2) == 0 {
				i, v := rng.Intn(len(ref)+1), rng.Intn(100)
				slices.Insert(&base, i, v)
				ref = append(ref[:i:i], append([]int{v}, ref[i:]...)...)
			} else {
				i := rng.Intn(len(ref))
				slices.Remove(&base, i)
				ref = append(ref[:i:i], ref[i+1:]...)
			}
			if len(base) != len(ref) || (len(ref) > 0 && !same(base, ref)) {
				t.Fatalf("round %d step %d: %v want %v", round, step, base, ref)
			}
		}
	}
	x := []int{1, 2, 3}
	for _, i := range []int{-1, 3, 4} {
		if r := catch(func() { slices.Remove(&x, i) }); r == nil {
			t.Errorf("Remove(%d) did not panic", i)
		}
	}
	for _, i := range []int{-1, 5} {
		y := []int{1, 2, 3}
		if r := catch(func() { slices.Insert(&y, i, 0) }); r == nil {
			t.Errorf("Insert(%d) did not panic", i)
		}
	}
	a := []int{1, 2, 3, 4, 5}
	slices.RemoveSlice(&a, 1, 3)
	if !same(a, []int{1, 5}) {
		t.Errorf("RemoveSlice: %v", a)
	}
	slices.RemoveSlice(&a, 0, 0)
	if !same(a, []int{1, 5}) {
		t.Errorf("RemoveSlice 0: %v", a)
	}
	slices.InsertSlice(&a, 1, []int{7, 8})
	if !same(a, []int{1, 7, 8, 5}) {
		t.Errorf("InsertSlice: %v", a)
	}
}

func TestGetHelpers(t *testing.T) {
	vals := []string{"a", "b", "c"}
	for i := -2; i <= 4; i++ {
		in := i >= 0 && i < len(vals)
		v, ok := slices.TryGet(vals, i)
		if ok != in || (in && v != vals[i]) || (!in && v != "") {
			t.Errorf("TryGet(%d)=%q,%v", i, v, ok)
		}
		if got := slices.SafeGet(vals, i); (in && got != vals[i]) || (!in && got != "") {
			t.Errorf("SafeGet(%d)=%q", i, got)
		}
		if got := slices.SafeGetOr(vals, i, "zz"); (in && got != vals[i]) || (!in && got != "zz") {
			t.Errorf("SafeGetOr(%d)=%q", i, got)
		}
		var none []string
		if v, ok := slices.TryGet(none, i); ok || v != "" {
			t.Errorf("nil TryGet(%d)=%q,%v", i, v, ok)
		}
		if got := slices.SafeGet(none, i); got != "" {
			t.Errorf("nil SafeGet(%d)=%q", i, got)
		}
		if got := slices.SafeGetOr(none, i, "zz"); got != "zz" {
			t.Errorf("nil SafeGetOr(%d)=%q", i, got)
		}
	}
	if slices.Index(vals, "c") != 2 || slices.Index(vals, "q") != -1 || !slices.Contains(vals, "a") || slices.Contains(vals, "q") {
		t.Errorf("Index/Contains")
	}
}

// ---------------------------------------------------------------------------
// concurrency: independent instances in parallel, and parallel readers of one
// instance that nobody writes to.

func TestConcurrentUse(t *testing.T) {
	shared := slices.NewSortedOrdered(9, 1, 4, 4, 7, 1, 1, 12, 0)
	want := []int{0, 1, 1, 1, 4, 4, 7, 9, 12}

	// errors are collected and reported from the test goroutine.
	var wg sync.WaitGroup
	errs := make(chan string, 64)
	fail := func(format string, args ...any) {
		select {
		case errs <- fmt.Sprintf(format, args...):
		default:
		}
	}
	for g := 0; g < 6; g++ {
		wg.Add(1)
		go func() {
			defer wg.Done()
			for round := 0; round < 300; round++ {
				if shared.Len() != len(want) {
					fail("shared Len=%d", shared.Len())
					return
				}
				for i, w := range want {
					if shared.Get(i) != w {
						fail("shared Get(%d)=%d", i, shared.Get(i))
						return
					}
				}
				for v := -1; v <= 13; v++ {
					first := firstEqual(want, v)
					if shared.Index(v) != first || shared.Contains(v) != (first != -1) {
						fail("shared Index(%d)=%d want %d", v, shared.Index(v), first)
						return
					}
				}
				if shared.String() != "[0 1 1 1 4 4 7 9 12]" {
					fail("shared String=%s", shared.String())
					return
				}
			}
		}()
	}

	// independent instances, each with its own history, as parallel subtests
	// (so that a failure may stop its own test goroutine).
	t.Run("histories", func(t *testing.T) {
		for g := 0; g < 8; g++ {
			g := g
			t.Run(fmt.Sprintf("g%d", g), func(t *testing.T) {
				t.Parallel()
				for seed := int64(5000 + 10*g); seed < int64(5000+10*g+6); seed++ {
					runIntHistory(t, seed, 120, g%2 == 1)
				}
			})
		}
	})

	wg.Wait()
	close(errs)
	for e := range errs {
		t.Error(e)
	}
}
