package demo

import (
	"fmt"
	"hash/fnv"
	"math/rand"
	"sort"
	"strings"
	"sync"
	"testing"

	"gopkg.in/typ.v4"
	"gopkg.in/typ.v4/avl"
)

// ---------------------------------------------------------------------------
// model: a sorted multiset kept as a sorted slice

type model[T comparable] struct {
	less func(a, b T) bool
	vals []T
}

func (m *model[T]) add(v T) {
	i := sort.Search(len(m.vals), func(i int) bool { return m.less(v, m.vals[i]) })
	m.vals = append(m.vals, v)
	copy(m.vals[i+1:], m.vals[i:])
	m.vals[i] = v
}

func (m *model[T]) index(v T) int {
	for i, x := range m.vals {
		if x == v {
			return i
		}
	}
	return -1
}

func (m *model[T]) remove(v T) bool {
	i := m.index(v)
	if i < 0 {
		return false
	}
	m.vals = append(m.vals[:i], m.vals[i+1:]...)
	return true
}

func (m *model[T]) clone() *model[T] {
	return &model[T]{less: m.less, vals: append([]T(nil), m.vals...)}
}

// ---------------------------------------------------------------------------
// helpers

func equalSlices[T comparable](a, b []T) bool {
	if len(a) != len(b) {
		return false
	}
	for i := range a {
		if a[i] != b[i] {
			return false
		}
	}
	return true
}

func sameMultiset[T comparable](a, b []T) bool {
	if len(a) != len(b) {
		return false
	}
	m := map[T]int{}
	for _, v := range a {
		m[v]++
	}
	for _, v := range b {
		m[v]--
		if m[v] < 0 {
			return false
		}
	}
	return true
}

// oneTree reports whether there is a binary tree whose pre-, in- and
// post-order traversals are the three given sequences (duplicates allowed).
func oneTree[T comparable](pre, in, post []T) bool {
	if len(pre) != len(in) || len(in) != len(post) {
		return false
	}
	type key struct{ p, i, q, n int }
	failed := map[key]bool{}
	var rec func(p, i, q, n int) bool
	rec = func(p, i, q, n int) bool {
		if n == 0 {
			return true
		}
		if pre[p] != post[q+n-1] {
			return false
		}
		k := key{p, i, q, n}
		if failed[k] {
			return false
		}
		root := pre[p]
		for l := 0; l < n; l++ {
			if in[i+l] != root {
				continue
			}
			r := n - 1 - l
			if rec(p+1, i, q, l) && rec(p+1+l, i+l+1, q+l, r) {
				return true
			}
		}
		failed[k] = true
		return false
	}
	return rec(0, 0, 0, len(pre))
}

func walkAll[T comparable](tr *avl.Tree[T]) (pre, in, post []T) {
	tr.WalkPreOrder(func(v T) { pre = append(pre, v) })
	tr.WalkInOrder(func(v T) { in = append(in, v) })
	tr.WalkPostOrder(func(v T) { post = append(post, v) })
	return
}

// check compares every observation of the tree with the model.
func check[T comparable](t *testing.T, where string, tr *avl.Tree[T], m *model[T], probes []T, full bool) {
	t.Helper()
	if got := tr.Len(); got != len(m.vals) {
		t.Fatalf("%s: Len=%d want %d", where, got, len(m.vals))
	}
	in := tr.SliceInOrder()
	if in == nil {
		t.Fatalf("%s: SliceInOrder returned nil", where)
	}
	if !equalSlices(in, m.vals) {
		t.Fatalf("%s: SliceInOrder=%v want %v", where, in, m.vals)
	}
	for i := 1; i < len(in); i++ {
		if m.less(in[i], in[i-1]) {
			t.Fatalf("%s: in-order not sorted at %d: %v", where, i, in)
		}
	}
	for _, p := range probes {
		if got, want := tr.Contains(p), m.index(p) >= 0; got != want {
			t.Fatalf("%s: Contains(%v)=%v want %v", where, p, got, want)
		}
	}
	if !full {
		return
	}
	pre, post := tr.SlicePreOrder(), tr.SlicePostOrder()
	if pre == nil || post == nil {
		t.Fatalf("%s: Slice{Pre,Post}Order returned nil", where)
	}
	if len(pre) != len(in) || len(post) != len(in) {
		t.Fatalf("%s: slice lengths pre=%d in=%d post=%d", where, len(pre), len(in), len(post))
	}
	if !sameMultiset(pre, in) || !sameMultiset(post, in) {
		t.Fatalf("%s: traversals hold different multisets\npre=%v\nin=%v\npost=%v", where, pre, in, post)
	}
	if !oneTree(pre, in, post) {
		t.Fatalf("%s: traversals are not of one tree\npre=%v\nin=%v\npost=%v", where, pre, in, post)
	}
	wpre, win, wpost := walkAll(tr)
	if !equalSlices(wpre, pre) || !equalSlices(win, in) || !equalSlices(wpost, post) {
		t.Fatalf("%s: Walk* and Slice* disagree", where)
	}
	if got, want := tr.String(), fmt.Sprint(m.vals); got != want {
		t.Fatalf("%s: String=%q want %q", where, got, want)
	}
	for _, v := range m.vals {
		if !tr.Contains(v) {
			t.Fatalf("%s: Contains(%v)=false for a held value", where, v)
		}
	}
}

// ---------------------------------------------------------------------------
// random histories

type pair struct {
	tr *avl.Tree[int]
	m  *model[int]
}

func runIntHistory(t *testing.T, seed int64, steps, valueRange int, cmp func(a, b int) int) {
	rng := rand.New(rand.NewSource(seed))
	tr := avl.New(cmp)
	less := func(a, b int) bool { return cmp(a, b) < 0 }
	cur := pair{&tr, &model[int]{less: less}}
	var parked []pair // clones (or originals) set aside, must stay untouched
	probes := func() []int {
		return []int{rng.Intn(valueRange + 2), rng.Intn(valueRange + 2), -1, valueRange + 5}
	}
	check(t, "fresh", cur.tr, cur.m, probes(), true)
	for step := 0; step < steps; step++ {
		where := fmt.Sprintf("seed %d step %d", seed, step)
		switch op := rng.Intn(100); {
		case op < 45:
			v := rng.Intn(valueRange)
			cur.tr.Add(v)
			cur.m.add(v)
			where += fmt.Sprintf(" Add(%d)", v)
		case op < 85:
			// half of the time something that may well be absent
			v := rng.Intn(valueRange + 2)
			if rng.Intn(2) == 0 && len(cur.m.vals) > 0 {
				v = cur.m.vals[rng.Intn(len(cur.m.vals))]
			}
			want := cur.m.remove(v)
			lenBefore := cur.tr.Len()
			got := cur.tr.Remove(v)
			where += fmt.Sprintf(" Remove(%d)", v)
			if got != want {
				t.Fatalf("%s = %v want %v", where, got, want)
			}
			if !got && cur.tr.Len() != lenBefore {
				t.Fatalf("%s of an absent value changed Len %d -> %d", where, lenBefore, cur.tr.Len())
			}
			if got && cur.tr.Len() != lenBefore-1 {
				t.Fatalf("%s changed Len %d -> %d", where, lenBefore, cur.tr.Len())
			}
		case op < 88:
			cur.tr.Clear()
			cur.m.vals = nil
			where += " Clear"
		case op < 96:
			cl := cur.tr.Clone()
			clp := pair{&cl, cur.m.clone()}
			where += " Clone"
			check(t, where+" (clone)", clp.tr, clp.m, probes(), true)
			check(t, where+" (orig)", cur.tr, cur.m, probes(), true)
			// continue on either, park the other
			if rng.Intn(2) == 0 {
				parked = append(parked, cur)
				cur = clp
			} else {
				parked = append(parked, clp)
			}
		default:
			// look at the parked ones: nothing done since may have touched them
			for i, p := range parked {
				check(t, fmt.Sprintf("%s parked[%d]", where, i), p.tr, p.m, nil, true)
			}
			if len(parked) > 4 {
				parked = parked[len(parked)-4:]
			}
		}
		check(t, where, cur.tr, cur.m, probes(), step%7 == 0 || len(cur.m.vals) < 12)
	}
	check(t, "end", cur.tr, cur.m, probes(), true)
	for i, p := range parked {
		check(t, fmt.Sprintf("end parked[%d]", i), p.tr, p.m, nil, true)
	}
}

func TestRandomHistoriesInt(t *testing.T) {
	for seed := int64(1); seed <= 40; seed++ {
		// small ranges give many duplicates, large ones few
		ranges := []int{1, 2, 3, 5, 8, 16, 40, 200, 5000}
		runIntHistory(t, seed, 400, ranges[int(seed)%len(ranges)], typ.Compare[int])
	}
}

func TestRandomHistoriesReversedComparator(t *testing.T) {
	rev := func(a, b int) int { return typ.Compare(b, a) }
	for seed := int64(100); seed < 115; seed++ {
		runIntHistory(t, seed, 300, 4+int(seed%20), rev)
	}
}

type name struct {
	First, Last string
}

func cmpName(a, b name) int {
	if c := strings.Compare(a.First, b.First); c != 0 {
		return c
	}
	return strings.Compare(a.Last, b.Last)
}

func TestRandomHistoriesStruct(t *testing.T) {
	firsts := []string{"", "Ann", "Bert", "Cy", "Dee"}
	lasts := []string{"", "Doe", "Horton", "Screws"}
	for seed := int64(7); seed < 17; seed++ {
		rng := rand.New(rand.NewSource(seed))
		tr := avl.New(cmpName)
		m := &model[name]{less: func(a, b name) bool { return cmpName(a, b) < 0 }}
		pick := func() name { return name{firsts[rng.Intn(len(firsts))], lasts[rng.Intn(len(lasts))]} }
		for step := 0; step < 400; step++ {
			where := fmt.Sprintf("seed %d step %d", seed, step)
			v := pick()
			switch rng.Intn(5) {
			case 0, 1:
				tr.Add(v)
				m.add(v)
			case 2, 3:
				if got, want := tr.Remove(v), m.remove(v); got != want {
					t.Fatalf("%s: Remove(%v)=%v want %v", where, v, got, want)
				}
			default:
				cl := tr.Clone()
				check(t, where+" clone", &cl, m, []name{pick()}, true)
				if rng.Intn(2) == 0 {
					tr = cl
				}
			}
			check(t, where, &tr, m, []name{pick(), pick()}, true)
		}
	}
}

func TestStringsOrdered(t *testing.T) {
	tr := avl.NewOrdered[string]()
	m := &model[string]{less: func(a, b string) bool { return a < b }}
	rng := rand.New(rand.NewSource(99))
	words := strings.Fields("e b d c a a e zz z  y yy b b q r s t u v w x")
	words = append(words, "")
	for step := 0; step < 600; step++ {
		w := words[rng.Intn(len(words))]
		if rng.Intn(3) > 0 {
			tr.Add(w)
			m.add(w)
		} else if got, want := tr.Remove(w), m.remove(w); got != want {
			t.Fatalf("step %d: Remove(%q)=%v want %v", step, w, got, want)
		}
		check(t, fmt.Sprintf("step %d", step), &tr, m, []string{w, "nope"}, step%5 == 0)
	}
}

// ---------------------------------------------------------------------------
// edge cases

func TestEmptyAndSingle(t *testing.T) {
	tr := avl.NewOrdered[int]()
	m := &model[int]{less: func(a, b int) bool { return a < b }}
	check(t, "empty", &tr, m, []int{0, 1}, true)
	if tr.Remove(3) {
		t.Fatal("Remove on empty tree returned true")
	}
	if tr.String() != "[]" {
		t.Fatalf("String of empty = %q", tr.String())
	}
	calls := 0
	tr.WalkPreOrder(func(int) { calls++ })
	tr.WalkInOrder(func(int) { calls++ })
	tr.WalkPostOrder(func(int) { calls++ })
	if calls != 0 {
		t.Fatalf("walkers called %d times on the empty tree", calls)
	}
	cl := tr.Clone()
	check(t, "clone of empty", &cl, m, []int{0}, true)
	tr.Clear()
	check(t, "cleared empty", &tr, m, []int{0}, true)

	tr.Add(5)
	m.add(5)
	check(t, "single", &tr, m, []int{4, 5, 6}, true)
	for _, absent := range []int{4, 6} {
		if tr.Remove(absent) {
			t.Fatalf("Remove(%d) of absent value returned true", absent)
		}
		check(t, "single after absent remove", &tr, m, []int{4, 5, 6}, true)
	}
	cl = tr.Clone()
	check(t, "clone of single", &cl, m, []int{5}, true)
	if !tr.Remove(5) || tr.Remove(5) {
		t.Fatal("Remove(5) twice: want true then false")
	}
	m.remove(5)
	check(t, "emptied", &tr, m, []int{5}, true)
	check(t, "clone of single after orig emptied", &cl, &model[int]{vals: []int{5}, less: m.less}, []int{5}, true)
	// reusable after being emptied and after Clear
	for i := 0; i < 10; i++ {
		tr.Add(i % 3)
		m.add(i % 3)
	}
	check(t, "refilled", &tr, m, []int{0, 1, 2, 3}, true)
	tr.Clear()
	m.vals = nil
	check(t, "cleared", &tr, m, []int{0, 1, 2, 3}, true)
	tr.Add(1)
	m.add(1)
	check(t, "after clear+add", &tr, m, []int{0, 1}, true)
}

func TestZeroValueTree(t *testing.T) {
	var tr avl.Tree[int]
	m := &model[int]{less: func(a, b int) bool { return a < b }}
	check(t, "zero", &tr, m, []int{0}, true)
	if tr.Remove(1) {
		t.Fatal("Remove on zero tree")
	}
	cl := tr.Clone()
	check(t, "zero clone", &cl, m, []int{0}, true)
	// the first Add, and lookups and removals on a one-element tree, never
	// need the comparator
	tr.Add(9)
	m.add(9)
	check(t, "zero+1", &tr, m, []int{9, 1, 10}, true)
	if tr.Remove(8) || tr.Remove(10) {
		t.Fatal("Remove of absent from one-element zero tree")
	}
	check(t, "zero+1 again", &tr, m, []int{9, 1, 10}, true)
	func() {
		defer func() {
			if recover() == nil {
				t.Fatal("second Add without a comparator did not panic")
			}
		}()
		tr.Add(10)
	}()
	if !tr.Remove(9) {
		t.Fatal("Remove(9)")
	}
	m.remove(9)
	check(t, "zero emptied", &tr, m, []int{9}, true)
}

func TestAllSameValue(t *testing.T) {
	tr := avl.NewOrdered[int]()
	m := &model[int]{less: func(a, b int) bool { return a < b }}
	for i := 0; i < 200; i++ {
		tr.Add(7)
		m.add(7)
		check(t, fmt.Sprintf("add #%d", i), &tr, m, []int{6, 7, 8}, i%9 == 0)
	}
	if tr.Remove(6) || tr.Remove(8) {
		t.Fatal("absent removed")
	}
	cl := tr.Clone()
	check(t, "clone", &cl, m, []int{6, 7, 8}, true)
	for i := 0; i < 200; i++ {
		if !tr.Remove(7) {
			t.Fatalf("Remove #%d failed", i)
		}
		m.remove(7)
		check(t, fmt.Sprintf("remove #%d", i), &tr, m, []int{6, 7, 8}, i%9 == 0)
	}
	if tr.Remove(7) {
		t.Fatal("Remove from emptied tree")
	}
	if cl.Len() != 200 {
		t.Fatalf("clone changed: Len=%d", cl.Len())
	}
}

func TestSortedAndZigZagInsertions(t *testing.T) {
	const n = 600
	orders := map[string]func(i int) int{
		"ascending":  func(i int) int { return i },
		"descending": func(i int) int { return n - i },
		"zigzag": func(i int) int {
			if i%2 == 0 {
				return i
			}
			return n - i
		},
		"pairs": func(i int) int { return i / 2 },
	}
	for name, f := range orders {
		tr := avl.NewOrdered[int]()
		m := &model[int]{less: func(a, b int) bool { return a < b }}
		for i := 0; i < n; i++ {
			tr.Add(f(i))
			m.add(f(i))
			check(t, fmt.Sprintf("%s add %d", name, i), &tr, m, []int{f(i), -3}, i%50 == 0)
		}
		check(t, name+" full", &tr, m, nil, true)
		// delete from the inside out, checking order after every deletion,
		// with absent values mixed in
		for i := 0; i < n; i++ {
			v := f((i*7 + 3) % n)
			if got, want := tr.Remove(v), m.remove(v); got != want {
				t.Fatalf("%s: Remove(%d)=%v want %v", name, v, got, want)
			}
			if tr.Remove(-1 - i) {
				t.Fatalf("%s: Remove of absent %d", name, -1-i)
			}
			check(t, fmt.Sprintf("%s remove %d", name, i), &tr, m, []int{v}, i%50 == 0)
		}
	}
}

func TestTwoChildrenDeletions(t *testing.T) {
	// remove the roots of full trees again and again: always the
	// two-children case, with successors at different depths
	for size := 3; size <= 40; size++ {
		tr := avl.NewOrdered[int]()
		m := &model[int]{less: func(a, b int) bool { return a < b }}
		for i := 0; i < size; i++ {
			v := (i * 11) % size
			tr.Add(v)
			m.add(v)
		}
		for tr.Len() > 0 {
			root := tr.SlicePreOrder()[0]
			if !tr.Remove(root) {
				t.Fatalf("size %d: Remove(root %d) failed", size, root)
			}
			m.remove(root)
			check(t, fmt.Sprintf("size %d after removing root %d", size, root), &tr, m, []int{root}, true)
		}
	}
}

// ---------------------------------------------------------------------------
// Clone

func TestCloneAnySizeAndIndependent(t *testing.T) {
	for _, size := range []int{0, 1, 2, 3, 4, 7, 8, 100, 1000, 50000} {
		rng := rand.New(rand.NewSource(int64(size)))
		tr := avl.NewOrdered[int]()
		m := &model[int]{less: func(a, b int) bool { return a < b }}
		vals := make([]int, size)
		for i := range vals {
			vals[i] = rng.Intn(size/2 + 1)
			tr.Add(vals[i])
		}
		m.vals = append([]int(nil), vals...)
		sort.Ints(m.vals)
		cl := tr.Clone()
		mc := m.clone()
		full := size <= 1000
		check(t, fmt.Sprintf("size %d orig", size), &tr, m, []int{0, size}, full)
		check(t, fmt.Sprintf("size %d clone", size), &cl, mc, []int{0, size}, full)

		// diverge: clone gets new values and loses some, orig loses others
		for i := 0; i < 20; i++ {
			cl.Add(-i)
			mc.add(-i)
			if size > 0 {
				v := vals[rng.Intn(size)]
				if got, want := cl.Remove(v), mc.remove(v); got != want {
					t.Fatalf("clone Remove(%d)=%v want %v", v, got, want)
				}
				w := vals[rng.Intn(size)]
				if got, want := tr.Remove(w), m.remove(w); got != want {
					t.Fatalf("orig Remove(%d)=%v want %v", w, got, want)
				}
			}
		}
		check(t, fmt.Sprintf("size %d orig after divergence", size), &tr, m, []int{-1, 0}, full)
		check(t, fmt.Sprintf("size %d clone after divergence", size), &cl, mc, []int{-1, 0}, full)
		cl.Clear()
		check(t, fmt.Sprintf("size %d orig after clone.Clear", size), &tr, m, nil, full)
		cl2 := tr.Clone()
		tr.Clear()
		check(t, fmt.Sprintf("size %d clone after orig.Clear", size), &cl2, m, nil, full)
	}
}

func TestCloneCarriesComparator(t *testing.T) {
	rev := func(a, b int) int { return typ.Compare(b, a) }
	tr := avl.New(rev)
	for _, v := range []int{3, 1, 2} {
		tr.Add(v)
	}
	cl := tr.Clone()
	for _, v := range []int{5, 0, 4, 2} {
		cl.Add(v)
	}
	if got, want := fmt.Sprint(cl.SliceInOrder()), "[5 4 3 2 2 1 0]"; got != want {
		t.Fatalf("clone in-order %s want %s", got, want)
	}
	if got, want := tr.String(), "[3 2 1]"; got != want {
		t.Fatalf("orig %s want %s", got, want)
	}
}

// Clones share no state: two goroutines may use an original and its clone
// at the same time (the race detector watches).
func TestCloneSharesNoStateConcurrently(t *testing.T) {
	tr := avl.NewOrdered[int]()
	m := &model[int]{less: func(a, b int) bool { return a < b }}
	rng := rand.New(rand.NewSource(5))
	for i := 0; i < 500; i++ {
		v := rng.Intn(100)
		tr.Add(v)
		m.add(v)
	}
	const workers = 4
	trees := make([]avl.Tree[int], workers)
	models := make([]*model[int], workers)
	trees[0], models[0] = tr, m
	for i := 1; i < workers; i++ {
		trees[i], models[i] = tr.Clone(), m.clone()
	}
	var wg sync.WaitGroup
	errs := make(chan string, workers)
	for w := 0; w < workers; w++ {
		wg.Add(1)
		go func(w int) {
			defer wg.Done()
			tr, m := &trees[w], models[w]
			rng := rand.New(rand.NewSource(int64(w) + 50))
			for step := 0; step < 1500; step++ {
				v := rng.Intn(110)
				if rng.Intn(2) == 0 {
					tr.Add(v)
					m.add(v)
				} else if got, want := tr.Remove(v), m.remove(v); got != want {
					errs <- fmt.Sprintf("worker %d step %d: Remove(%d)=%v want %v", w, step, v, got, want)
					return
				}
				if tr.Len() != len(m.vals) || tr.Contains(v) != (m.index(v) >= 0) {
					errs <- fmt.Sprintf("worker %d step %d: Len/Contains differ from model", w, step)
					return
				}
				if step%100 == 0 && !equalSlices(tr.SliceInOrder(), m.vals) {
					errs <- fmt.Sprintf("worker %d step %d: in-order differs from model", w, step)
					return
				}
			}
		}(w)
	}
	wg.Wait()
	close(errs)
	for e := range errs {
		t.Error(e)
	}
	for w := 0; w < workers; w++ {
		check(t, fmt.Sprintf("worker %d final", w), &trees[w], models[w], nil, true)
	}
}

// Read-only calls do not write: many readers of one quiescent tree.
func TestConcurrentReaders(t *testing.T) {
	tr := avl.NewOrdered[int]()
	var want []int
	for i := 0; i < 300; i++ {
		v := (i * 37) % 101
		tr.Add(v)
		want = append(want, v)
	}
	sort.Ints(want)
	var wg sync.WaitGroup
	for r := 0; r < 6; r++ {
		wg.Add(1)
		go func(r int) {
			defer wg.Done()
			for i := 0; i < 50; i++ {
				if tr.Len() != len(want) {
					t.Errorf("Len=%d", tr.Len())
				}
				if !tr.Contains((i*r)%101) || tr.Contains(101+i) {
					t.Errorf("Contains wrong")
				}
				if !equalSlices(tr.SliceInOrder(), want) {
					t.Errorf("in-order wrong")
				}
				pre, post := tr.SlicePreOrder(), tr.SlicePostOrder()
				if !oneTree(pre, want, post) {
					t.Errorf("not one tree")
				}
				if tr.String() != fmt.Sprint(want) {
					t.Errorf("String wrong")
				}
				cl := tr.Clone()
				cl.Add(r)
				if cl.Len() != len(want)+1 {
					t.Errorf("clone Len=%d", cl.Len())
				}
			}
		}(r)
	}
	wg.Wait()
}

// ---------------------------------------------------------------------------
// behaviour fingerprint: the exact shapes (pre- and post-order), results and
// number of comparator calls over a fixed history. The constant was recorded
// on the unchanged library; a refactoring must reproduce it exactly.

func fingerprint() (uint64, int) {
	h := fnv.New64a()
	put := func(xs ...int) {
		for _, x := range xs {
			fmt.Fprintf(h, "%d,", x)
		}
		fmt.Fprint(h, ";")
	}
	calls := 0
	cmp := func(a, b int) int {
		calls++
		return typ.Compare(a, b)
	}
	rng := rand.New(rand.NewSource(20260102))
	tr := avl.New(cmp)
	for step := 0; step < 6000; step++ {
		rangeNow := []int{6, 30, 400}[(step/500)%3]
		v := rng.Intn(rangeNow)
		switch op := rng.Intn(20); {
		case op < 9:
			tr.Add(v)
		case op < 17:
			if tr.Remove(v) {
				put(1)
			} else {
				put(0)
			}
		case op < 18:
			if tr.Contains(v) {
				put(2)
			} else {
				put(3)
			}
		case op < 19:
			tr = tr.Clone()
		default:
			if rng.Intn(6) == 0 {
				tr.Clear()
			}
		}
		put(tr.Len(), calls)
		if step%10 == 0 {
			put(tr.SlicePreOrder()...)
			put(tr.SlicePostOrder()...)
			put(tr.SliceInOrder()...)
		}
	}
	return h.Sum64(), calls
}

const (
	wantFingerprint = uint64(0xad68251af5ddd558)
	wantCalls       = 81253
)

func TestBehaviourFingerprint(t *testing.T) {
	sum, calls := fingerprint()
	if sum != wantFingerprint || calls != wantCalls {
		t.Fatalf("fingerprint %#x with %d comparator calls, recorded %#x with %d", sum, calls, wantFingerprint, wantCalls)
	}
}
