package demo

import (
	"errors"
	"fmt"
	"io"
	"math"
	"math/big"
	"math/rand"
	"os"
	"reflect"
	"runtime"
	"strconv"
	"strings"
	"sync"
	"testing"

	"gopkg.in/typ.v4"
)

// ---------------------------------------------------------------------------
// reference helpers (strconv / math/big based)

func decimal[T typ.Integer](v T) string {
	if v < 0 {
		return strconv.FormatInt(int64(v), 10)
	}
	return strconv.FormatUint(uint64(v), 10)
}

func toBig[T typ.Integer](v T) *big.Int {
	if v < 0 {
		return big.NewInt(int64(v))
	}
	return new(big.Int).SetUint64(uint64(v))
}

var mask64 = new(big.Int).SetUint64(math.MaxUint64)

// wrapBig reduces x modulo 2^bits(T) the way Go's wrapping arithmetic does.
func wrapBig[T typ.Integer](x *big.Int) T {
	low := new(big.Int).And(x, mask64) // And on negative x is two's complement
	return T(low.Uint64())
}

func bitsOf[T typ.Integer]() int {
	var z T
	return int(reflect.TypeOf(z).Size()) * 8
}

func isSigned[T typ.Integer]() bool {
	var z T
	m := z - 1
	return m < 0
}

func rangeOf[T typ.Integer]() (lo, hi *big.Int) {
	bits := uint(bitsOf[T]())
	one := big.NewInt(1)
	if isSigned[T]() {
		hi = new(big.Int).Sub(new(big.Int).Lsh(one, bits-1), one)
		lo = new(big.Int).Neg(new(big.Int).Lsh(one, bits-1))
		return
	}
	return big.NewInt(0), new(big.Int).Sub(new(big.Int).Lsh(one, bits), one)
}

func fromBig[T typ.Integer](c *big.Int) T {
	if c.Sign() < 0 {
		return T(c.Int64())
	}
	return T(c.Uint64())
}

// samples is the boundary-dense sample of T: 0, +-1, powers of ten +-1,
// powers of two +-1 and the extremes.
func samples[T typ.Integer]() []T {
	lo, hi := rangeOf[T]()
	seen := map[string]bool{}
	var out []T
	add := func(c *big.Int) {
		if c.Cmp(lo) < 0 || c.Cmp(hi) > 0 || seen[c.String()] {
			return
		}
		seen[c.String()] = true
		out = append(out, fromBig[T](c))
	}
	around := func(c *big.Int) {
		for d := int64(-2); d <= 2; d++ {
			x := new(big.Int).Add(c, big.NewInt(d))
			add(x)
			add(new(big.Int).Neg(x))
		}
	}
	around(big.NewInt(0))
	p := big.NewInt(1)
	for k := 0; k <= 20; k++ {
		around(p)
		around(new(big.Int).Mul(p, big.NewInt(5)))
		p = new(big.Int).Mul(p, big.NewInt(10))
	}
	for k := uint(0); k <= 64; k++ {
		around(new(big.Int).Lsh(big.NewInt(1), k))
	}
	around(lo)
	around(hi)
	return out
}

// ---------------------------------------------------------------------------
// single-argument checks for one integer value

func checkUnary[T typ.Integer](t *testing.T, v T) {
	s := decimal(v)
	wantSign := len(s)
	want := len(strings.TrimPrefix(s, "-"))
	if got := typ.Digits10(v); got != want {
		t.Fatalf("Digits10[%T](%s) = %d, want %d", v, s, got, want)
	}
	if got := typ.DigitsSign10(v); got != wantSign {
		t.Fatalf("DigitsSign10[%T](%s) = %d, want %d", v, s, got, wantSign)
	}
	// Abs: magnitude where representable, the (wrapped) value itself otherwise.
	a := typ.Abs(v)
	switch {
	case v >= 0:
		if a != v {
			t.Fatalf("Abs[%T](%s) = %s", v, s, decimal(a))
		}
	case -v < 0: // minimum of a signed type
		if a != v {
			t.Fatalf("Abs[%T](min %s) = %s, want unchanged", v, s, decimal(a))
		}
	default:
		if a < 0 || decimal(a) != s[1:] {
			t.Fatalf("Abs[%T](%s) = %s", v, s, decimal(a))
		}
	}
	// Clamp01 is Clamp to [0,1].
	var c01 T
	switch {
	case v < 0:
		c01 = 0
	case v > 1:
		c01 = 1
	default:
		c01 = v
	}
	if got := typ.Clamp01(v); got != c01 {
		t.Fatalf("Clamp01[%T](%s) = %s", v, s, decimal(got))
	}
	if got := typ.Clamp(v, 0, 1); got != c01 {
		t.Fatalf("Clamp[%T](%s,0,1) = %s", v, s, decimal(got))
	}
	if typ.Min(v) != v || typ.Max(v) != v || typ.Sum(v) != v || typ.Product(v) != v {
		t.Fatalf("single argument Min/Max/Sum/Product[%T](%s)", v, s)
	}
	if typ.IsZero(v) != (v == 0) {
		t.Fatalf("IsZero[%T](%s)", v, s)
	}
	if typ.Compare(v, v) != 0 || typ.Less(v, v) {
		t.Fatalf("Compare/Less reflexive [%T](%s)", v, s)
	}
	if typ.Coal(0, v, 1) != typ.Tern(v != 0, v, 1) {
		t.Fatalf("Coal(0,%s,1)", s)
	}
}

// checkTuple checks the multi-argument functions on (a,b,c).
func checkTuple[T typ.Integer](t *testing.T, a, b, c T) {
	min3, max3 := a, a
	if b < min3 {
		min3 = b
	}
	if c < min3 {
		min3 = c
	}
	if b > max3 {
		max3 = b
	}
	if c > max3 {
		max3 = c
	}
	if got := typ.Min(a, b, c); got != min3 {
		t.Fatalf("Min[%T](%v,%v,%v) = %v", a, a, b, c, got)
	}
	if got := typ.Max(a, b, c); got != max3 {
		t.Fatalf("Max[%T](%v,%v,%v) = %v", a, a, b, c, got)
	}
	// Clamp(v=a, lo=b, hi=c)
	// lo > hi is outside the property; the pinned order is "lo first", which
	// for lo <= hi is exactly "v inside -> v, else the nearer bound".
	var want T
	switch {
	case a < b:
		want = b
	case a > c:
		want = c
	default:
		want = a
	}
	if b <= c && a >= b && a <= c && want != a {
		t.Fatal("reference model")
	}
	if got := typ.Clamp(a, b, c); got != want {
		t.Fatalf("Clamp[%T](%v,%v,%v) = %v, want %v", a, a, b, c, got, want)
	}
}

func checkArith[T typ.Integer](t *testing.T, a, b, c T) {
	ba, bb, bc := toBig(a), toBig(b), toBig(c)
	sum := new(big.Int).Add(new(big.Int).Add(ba, bb), bc)
	prod := new(big.Int).Mul(new(big.Int).Mul(ba, bb), bc)
	if got, want := typ.Sum(a, b, c), wrapBig[T](sum); got != want {
		t.Fatalf("Sum[%T](%v,%v,%v) = %v, want %v", a, a, b, c, got, want)
	}
	if got, want := typ.Product(a, b, c), wrapBig[T](prod); got != want {
		t.Fatalf("Product[%T](%v,%v,%v) = %v, want %v", a, a, b, c, got, want)
	}
}

func checkPair[T typ.Integer](t *testing.T, a, b T) {
	cmp := toBig(a).Cmp(toBig(b))
	if got := typ.Compare(a, b); got != cmp {
		t.Fatalf("Compare[%T](%v,%v) = %d, want %d", a, a, b, got, cmp)
	}
	if got := typ.Less(a, b); got != (cmp < 0) {
		t.Fatalf("Less[%T](%v,%v) = %v", a, a, b, got)
	}
	lo, hi := a, b
	if cmp > 0 {
		lo, hi = b, a
	}
	if typ.Min(a, b) != lo || typ.Max(a, b) != hi {
		t.Fatalf("Min/Max[%T](%v,%v)", a, a, b)
	}
	if typ.Sum(a, b) != a+b || typ.Product(a, b) != a*b {
		t.Fatalf("Sum/Product[%T](%v,%v)", a, a, b)
	}
}

// ---------------------------------------------------------------------------
// 8-bit: everything exhaustively, all pairs and triples

func exhaustive8[T typ.Integer](t *testing.T) {
	var all []T
	var v T
	for i := 0; i < 256; i++ {
		all = append(all, v)
		v++
	}
	for _, a := range all {
		checkUnary(t, a)
		for _, b := range all {
			checkPair(t, a, b)
			for _, c := range all {
				checkTuple(t, a, b, c)
				// wrapping sum/product against plain int arithmetic
				ws := T(int(a) + int(b) + int(c))
				wp := T(int(a) * int(b) * int(c))
				if typ.Sum(a, b, c) != ws || typ.Product(a, b, c) != wp {
					t.Fatalf("Sum/Product[%T](%v,%v,%v)", a, a, b, c)
				}
			}
		}
	}
	// big-based arithmetic reference on a slice of the triples
	for i := 0; i < 256; i += 5 {
		for j := 0; j < 256; j += 7 {
			for k := 0; k < 256; k += 11 {
				checkArith(t, all[i], all[j], all[k])
			}
		}
	}
}

type myInt8 int8
type myUint8 uint8

func TestExhaustive8(t *testing.T) {
	t.Run("int8", exhaustive8[int8])
	t.Run("uint8", exhaustive8[uint8])
	t.Run("named", func(t *testing.T) {
		v := myInt8(-128)
		for i := 0; i < 256; i++ {
			checkUnary(t, v)
			checkUnary(t, myUint8(i))
			v++
		}
		if typ.Digits10(myInt8(-128)) != 3 || typ.DigitsSign10(myInt8(-128)) != 4 {
			t.Fatal("named int8 minimum")
		}
	})
}

// ---------------------------------------------------------------------------
// 16-bit: all values for the single-argument functions, sampled tuples

func exhaustive16[T typ.Integer](t *testing.T) {
	var v T
	for i := 0; i < 1<<16; i++ {
		checkUnary(t, v)
		v++
	}
	ss := samples[T]()
	for _, a := range ss {
		for _, b := range ss {
			checkPair(t, a, b)
		}
	}
	rng := rand.New(rand.NewSource(16))
	for i := 0; i < 200000; i++ {
		a, b, c := T(rng.Uint64()), T(rng.Uint64()), T(rng.Uint64())
		if i%2 == 0 {
			a, b, c = ss[rng.Intn(len(ss))], ss[rng.Intn(len(ss))], ss[rng.Intn(len(ss))]
		}
		checkTuple(t, a, b, c)
		if i%8 == 0 {
			checkArith(t, a, b, c)
		}
	}
}

func TestExhaustive16(t *testing.T) {
	t.Run("int16", exhaustive16[int16])
	t.Run("uint16", exhaustive16[uint16])
}

// ---------------------------------------------------------------------------
// 32-bit: strided sweep + boundaries (all 2^32 values with DEMO_FULL32=1)

func sweep32[T typ.Integer](t *testing.T) {
	step := uint64(251)
	if os.Getenv("DEMO_FULL32") != "" {
		step = 1
	}
	for u := uint64(0); u < 1<<32; u += step {
		v := T(u)
		// inline (fast) reference: decimal length of the magnitude
		var mag uint64
		neg := v < 0
		if neg {
			mag = uint64(-int64(v))
		} else {
			mag = uint64(v)
		}
		want := 1
		for m := mag; m >= 10; m /= 10 {
			want++
		}
		if got := typ.Digits10(v); got != want {
			t.Fatalf("Digits10[%T](%v) = %d, want %d", v, v, got, want)
		}
		if neg {
			want++
		}
		if got := typ.DigitsSign10(v); got != want {
			t.Fatalf("DigitsSign10[%T](%v) = %d, want %d", v, v, got, want)
		}
		a := typ.Abs(v)
		if neg && -v > 0 {
			if uint64(a) != mag {
				t.Fatalf("Abs[%T](%v) = %v", v, v, a)
			}
		} else if a != v {
			t.Fatalf("Abs[%T](%v) = %v", v, v, a)
		}
		c := typ.Clamp01(v)
		if (v < 0 && c != 0) || (v > 1 && c != 1) || (v >= 0 && v <= 1 && c != v) {
			t.Fatalf("Clamp01[%T](%v) = %v", v, v, c)
		}
	}
	sampled[T](t)
}

// sampled runs all checks over the boundary-dense sample of T.
func sampled[T typ.Integer](t *testing.T) {
	ss := samples[T]()
	if len(ss) < 20 {
		t.Fatalf("sample too small: %d", len(ss))
	}
	for _, a := range ss {
		checkUnary(t, a)
		for _, b := range ss {
			checkPair(t, a, b)
		}
	}
	rng := rand.New(rand.NewSource(int64(bitsOf[T]())))
	for i := 0; i < 100000; i++ {
		a, b, c := ss[rng.Intn(len(ss))], ss[rng.Intn(len(ss))], ss[rng.Intn(len(ss))]
		if i%4 == 0 {
			a, b, c = T(rng.Uint64()), T(rng.Uint64()), T(rng.Uint64())
		}
		checkUnary(t, a)
		checkTuple(t, a, b, c)
		if i%4 == 1 {
			checkArith(t, a, b, c)
		}
	}
}

func TestSweep32(t *testing.T) {
	t.Run("int32", sweep32[int32])
	t.Run("uint32", sweep32[uint32])
}

func TestSampled64(t *testing.T) {
	t.Run("int64", sampled[int64])
	t.Run("uint64", sampled[uint64])
	t.Run("int", sampled[int])
	t.Run("uint", sampled[uint])
	t.Run("uintptr", sampled[uintptr])
}

func TestDigitsTable(t *testing.T) {
	// every power of ten and its neighbours, for uint64 and +-int64
	p := uint64(1)
	for k := 0; k <= 19; k++ {
		for _, u := range []uint64{p - 1, p, p + 1} {
			want := len(strconv.FormatUint(u, 10))
			if got := typ.Digits10(u); got != want {
				t.Errorf("Digits10(uint64 %d) = %d, want %d", u, got, want)
			}
			if got := typ.DigitsSign10(u); got != want {
				t.Errorf("DigitsSign10(uint64 %d) = %d, want %d", u, got, want)
			}
			if u <= math.MaxInt64 {
				i := int64(u)
				if got := typ.Digits10(-i); got != want {
					t.Errorf("Digits10(int64 %d) = %d, want %d", -i, got, want)
				}
				wantSign := len(strconv.FormatInt(-i, 10))
				if got := typ.DigitsSign10(-i); got != wantSign {
					t.Errorf("DigitsSign10(int64 %d) = %d, want %d", -i, got, wantSign)
				}
			}
		}
		p *= 10
	}
	mins := []struct {
		got, gotSign, want int
	}{
		{typ.Digits10(int8(math.MinInt8)), typ.DigitsSign10(int8(math.MinInt8)), 3},
		{typ.Digits10(int16(math.MinInt16)), typ.DigitsSign10(int16(math.MinInt16)), 5},
		{typ.Digits10(int32(math.MinInt32)), typ.DigitsSign10(int32(math.MinInt32)), 10},
		{typ.Digits10(int64(math.MinInt64)), typ.DigitsSign10(int64(math.MinInt64)), 19},
		{typ.Digits10(int(math.MinInt)), typ.DigitsSign10(int(math.MinInt)), len(strconv.Itoa(math.MinInt)) - 1},
		{typ.Digits10(uint64(math.MaxUint64)), typ.DigitsSign10(uint64(math.MaxUint64)) + 1, 20},
	}
	for i, m := range mins {
		if m.got != m.want || m.gotSign != m.want+1 {
			t.Errorf("extreme %d: Digits10 %d DigitsSign10 %d, want %d/%d", i, m.got, m.gotSign, m.want, m.want+1)
		}
	}
}

// ---------------------------------------------------------------------------
// floats

func fbits[F typ.Float](f F) uint64 { return math.Float64bits(float64(f)) }

func floatSamples[F typ.Float]() []F {
	var z F
	small, large := math.SmallestNonzeroFloat64, math.MaxFloat64
	if reflect.TypeOf(z).Size() == 4 {
		small, large = math.SmallestNonzeroFloat32, math.MaxFloat32
	}
	base := []float64{0, 1, 0.5, 0.1, 0.3, 1e-3, 2, 3.5, 10, 99, 100, 101, 1e9, 1e9 + 1, 1e15,
		small, large, math.Inf(1), math.Nextafter(1, 0), math.Nextafter(1, 2),
		float64(math.Nextafter32(1, 0)), float64(math.Nextafter32(1, 2)), 16777216, 16777217}
	var out []F
	for _, b := range base {
		out = append(out, F(b), F(math.Copysign(b, -1)))
	}
	return out
}

func floats[F typ.Float](t *testing.T) {
	ss := floatSamples[F]()
	negZero := F(math.Copysign(0, -1))
	for _, v := range ss {
		// Abs
		a := typ.Abs(v)
		if v < 0 {
			if fbits(a) != fbits(-v) || !(a > 0) {
				t.Fatalf("Abs(%v) = %v", v, a)
			}
		} else if fbits(a) != fbits(v) { // includes -0, which stays -0
			t.Fatalf("Abs(%v) = %v", v, a)
		}
		// Clamp01 is Clamp to [0,1]
		var want F
		switch {
		case v < 0:
			want = 0
		case v > 1:
			want = 1
		default:
			want = v
		}
		if got := typ.Clamp01(v); fbits(got) != fbits(want) {
			t.Fatalf("Clamp01(%v) = %v want %v", v, got, want)
		}
		if got := typ.Clamp(v, 0, 1); fbits(got) != fbits(want) {
			t.Fatalf("Clamp(%v,0,1) = %v want %v", v, got, want)
		}
		if fbits(typ.Min(v)) != fbits(v) || fbits(typ.Max(v)) != fbits(v) {
			t.Fatalf("Min/Max(%v)", v)
		}
		if fbits(typ.Sum(v)) != fbits(0+v) || fbits(typ.Product(v)) != fbits(1*v) {
			t.Fatalf("Sum/Product(%v)", v)
		}
		if typ.IsZero(v) != (v == 0) {
			t.Fatalf("IsZero(%v)", v)
		}
	}
	if fbits(typ.Sum(negZero)) != 0 { // 0 + -0 = +0: the identity is added first
		t.Fatalf("Sum(-0) = %v", typ.Sum(negZero))
	}
	if fbits(typ.Product(negZero)) != fbits(negZero) {
		t.Fatalf("Product(-0) = %v", typ.Product(negZero))
	}
	if fbits(typ.Sum[F]()) != 0 || typ.Product[F]() != 1 {
		t.Fatal("Sum()/Product() identities")
	}
	for _, a := range ss {
		for _, b := range ss {
			wantCmp := 0
			if a < b {
				wantCmp = -1
			} else if a > b {
				wantCmp = 1
			}
			if typ.Compare(a, b) != wantCmp || typ.Less(a, b) != (a < b) {
				t.Fatalf("Compare/Less(%v,%v)", a, b)
			}
			for _, c := range ss {
				args := []F{a, b, c}
				checkExtreme(t, "Min", typ.Min(args...), args, func(r, x F) bool { return r <= x })
				checkExtreme(t, "Max", typ.Max(args...), args, func(r, x F) bool { return r >= x })
				if fbits(typ.Sum(args...)) != fbits(0+a+b+c) && !math.IsNaN(float64(0+a+b+c)) {
					t.Fatalf("Sum(%v,%v,%v)", a, b, c)
				}
				if fbits(typ.Product(args...)) != fbits(1*a*b*c) && !math.IsNaN(float64(1*a*b*c)) {
					t.Fatalf("Product(%v,%v,%v)", a, b, c)
				}
				if math.IsNaN(float64(0+a+b+c)) != math.IsNaN(float64(typ.Sum(args...))) ||
					math.IsNaN(float64(1*a*b*c)) != math.IsNaN(float64(typ.Product(args...))) {
					t.Fatalf("Sum/Product NaN-ness (%v,%v,%v)", a, b, c)
				}
				// Clamp(v=a, lo=b, hi=c)
				var want F
				switch {
				case a < b:
					want = b
				case a > c:
					want = c
				default:
					want = a
				}
				if got := typ.Clamp(a, b, c); fbits(got) != fbits(want) {
					t.Fatalf("Clamp(%v,%v,%v) = %v, want %v", a, b, c, got, want)
				}
			}
		}
	}
}

// checkExtreme: r is one of the arguments, dominates all of them, and is the
// leftmost such argument (observable through the sign of zero).
func checkExtreme[F typ.Float](t *testing.T, name string, r F, args []F, dom func(r, x F) bool) {
	first := -1
	for i, x := range args {
		if !dom(r, x) {
			t.Fatalf("%s(%v) = %v does not dominate %v", name, args, r, x)
		}
		if first < 0 && x == r {
			first = i
		}
	}
	if first < 0 || fbits(args[first]) != fbits(r) {
		t.Fatalf("%s(%v) = %v (bits %x) is not the leftmost extreme argument", name, args, r, fbits(r))
	}
}

func TestFloats(t *testing.T) {
	t.Run("float32", floats[float32])
	t.Run("float64", floats[float64])
}

// NaN is outside the property; these pin what the scans do with it so that a
// restructuring cannot silently change it.
func TestNaNPinned(t *testing.T) {
	nan := math.NaN()
	if !math.IsNaN(typ.Min(nan, 1, 2)) || !math.IsNaN(typ.Max(nan, 1, 2)) {
		t.Error("leading NaN is kept")
	}
	if typ.Min(1, nan, 2) != 1 || typ.Max(1, nan, 2) != 2 || typ.Min(3, 2, nan) != 2 || typ.Max(1, 2, nan) != 2 {
		t.Error("later NaN is skipped")
	}
	if !math.IsNaN(typ.Clamp(nan, 0, 1)) || !math.IsNaN(typ.Clamp01(nan)) {
		t.Error("Clamp(NaN)")
	}
	if typ.Clamp(0.5, nan, nan) != 0.5 {
		t.Error("Clamp with NaN bounds")
	}
	if typ.Compare(nan, 1) != 0 || typ.Compare(1, nan) != 0 || typ.Less(nan, 1) || typ.Less(1, nan) {
		t.Error("Compare/Less NaN")
	}
	neg := math.Copysign(nan, -1)
	if math.Signbit(typ.Abs(neg)) != true || math.Signbit(typ.Abs(math.Copysign(nan, 1))) != false {
		t.Error("Abs leaves NaN untouched")
	}
	if typ.IsZero(nan) {
		t.Error("IsZero(NaN)")
	}
	if !math.IsNaN(typ.Coal(0, nan, 1)) {
		t.Error("Coal(0,NaN,1)")
	}
}

// ---------------------------------------------------------------------------
// strings and complex numbers

type label string

func TestStrings(t *testing.T) {
	ss := []string{"", "a", "A", "aa", "ab", "b", "\x00", "a\x00", "\xff", "zz", "z", "é", "10", "9"}
	for _, a := range ss {
		if typ.Min(a) != a || typ.Max(a) != a {
			t.Fatal("single")
		}
		for _, b := range ss {
			if typ.Compare(a, b) != strings.Compare(a, b) || typ.Less(a, b) != (strings.Compare(a, b) < 0) {
				t.Fatalf("Compare(%q,%q)", a, b)
			}
			if typ.Compare(label(a), label(b)) != strings.Compare(a, b) {
				t.Fatalf("Compare named (%q,%q)", a, b)
			}
			for _, c := range ss {
				mn, mx := a, a
				for _, x := range []string{b, c} {
					if strings.Compare(x, mn) < 0 {
						mn = x
					}
					if strings.Compare(x, mx) > 0 {
						mx = x
					}
				}
				if typ.Min(a, b, c) != mn || typ.Max(a, b, c) != mx {
					t.Fatalf("Min/Max(%q,%q,%q)", a, b, c)
				}
				if typ.Min(label(a), label(b), label(c)) != label(mn) {
					t.Fatalf("Min named (%q,%q,%q)", a, b, c)
				}
				want := a
				if strings.Compare(a, b) < 0 {
					want = b
				} else if strings.Compare(a, c) > 0 {
					want = c
				}
				if got := typ.Clamp(a, b, c); got != want {
					t.Fatalf("Clamp(%q,%q,%q) = %q, want %q", a, b, c, got, want)
				}
			}
		}
	}
}

func TestComplex(t *testing.T) {
	rng := rand.New(rand.NewSource(20))
	for n := 0; n < 8; n++ {
		for rep := 0; rep < 200; rep++ {
			var xs []complex128
			var ys []complex64
			s, p := complex128(0), complex128(1)
			s32, p32 := complex64(0), complex64(1)
			for i := 0; i < n; i++ {
				x := complex(float64(rng.Intn(21)-10), float64(rng.Intn(21)-10)/4)
				xs = append(xs, x)
				ys = append(ys, complex64(x))
				s += x
				p *= x
				s32 += complex64(x)
				p32 *= complex64(x)
			}
			if typ.Sum(xs...) != s || typ.Product(xs...) != p {
				t.Fatalf("complex128 %v", xs)
			}
			if typ.Sum(ys...) != s32 || typ.Product(ys...) != p32 {
				t.Fatalf("complex64 %v", ys)
			}
		}
	}
}

// ---------------------------------------------------------------------------
// variadic scans of any length against a model, including aliasing

func TestVariadicModel(t *testing.T) {
	rng := rand.New(rand.NewSource(2020))
	for rep := 0; rep < 20000; rep++ {
		n := 1 + rng.Intn(12)
		xs := make([]int16, n)
		for i := range xs {
			if rng.Intn(3) == 0 {
				xs[i] = int16(rng.Intn(5) - 2) // many duplicates
			} else {
				xs[i] = int16(rng.Uint32())
			}
		}
		keep := append([]int16(nil), xs...)
		mn, mx := xs[0], xs[0]
		var sum int16
		prod := int16(1)
		var coal int16
		for _, x := range xs {
			if x < mn {
				mn = x
			}
			if x > mx {
				mx = x
			}
			sum += x
			prod *= x
			if coal == 0 {
				coal = x
			}
		}
		if typ.Min(xs...) != mn || typ.Max(xs...) != mx || typ.Sum(xs...) != sum || typ.Product(xs...) != prod || typ.Coal(xs...) != coal {
			t.Fatalf("model mismatch on %v", xs)
		}
		if !reflect.DeepEqual(xs, keep) {
			t.Fatalf("argument slice modified: %v -> %v", keep, xs)
		}
	}
	if typ.Sum[int]() != 0 || typ.Product[int]() != 1 || typ.Sum[uint8]() != 0 || typ.Product[uint8]() != 1 {
		t.Fatal("identities")
	}
	if typ.Sum([]int(nil)...) != 0 || typ.Product([]int{}...) != 1 || typ.Coal([]string(nil)...) != "" || typ.Coal[int]() != 0 {
		t.Fatal("nil/empty slices")
	}
}

func panicValue(f func()) (v any) {
	defer func() { v = recover() }()
	f()
	return nil
}

func TestPanics(t *testing.T) {
	cases := []struct {
		f    func()
		want string
	}{
		{func() { typ.Min[int]() }, "typ.Min: at least one argument is required"},
		{func() { typ.Max[int]() }, "typ.Max: at least one argument is required"},
		{func() { typ.Min([]string(nil)...) }, "typ.Min: at least one argument is required"},
		{func() { typ.Max([]float64{}...) }, "typ.Max: at least one argument is required"},
	}
	for i, c := range cases {
		v := panicValue(c.f)
		s, ok := v.(string)
		if !ok || s != c.want {
			t.Errorf("case %d: panic value %#v (%T), want string %q", i, v, v, c.want)
		}
	}
	if v := panicValue(func() { typ.TernCast(true, "x", 0) }); v == nil {
		t.Error("TernCast with the wrong dynamic type must panic")
	} else if _, ok := v.(*runtime.TypeAssertionError); !ok {
		t.Errorf("TernCast panic value %T", v)
	}
	if v := panicValue(func() { typ.TernCast(true, nil, 0) }); v == nil {
		t.Error("TernCast(true, nil) must panic")
	}
	if v := panicValue(func() { typ.TernCast(false, "x", 0) }); v != nil {
		t.Errorf("TernCast(false, ...) must not look at the value: %v", v)
	}
}

// ---------------------------------------------------------------------------
// util.go

type version struct {
	major, minor int
	tag          string
}

func (v version) IsZero() bool { return v.major == 0 && v.minor == 0 }

type counter struct{ n int }

var counterCalls int

func (c *counter) IsZero() bool { counterCalls++; return c.n == 0 }

type plain struct {
	a int
	b string
}

type intPtr *int

func TestUtil(t *testing.T) {
	// Zero / ZeroOf
	if typ.Zero[int]() != 0 || typ.Zero[string]() != "" || typ.Zero[*int]() != nil || typ.Zero[plain]() != (plain{}) || typ.Zero[error]() != nil {
		t.Error("Zero")
	}
	if typ.ZeroOf(42) != 0 || typ.ZeroOf("x") != "" || typ.ZeroOf(plain{1, "x"}) != (plain{}) || typ.ZeroOf(struct{ x, y int }{1, 2}) != (struct{ x, y int }{}) {
		t.Error("ZeroOf")
	}
	if typ.ZeroOf(new(int)) != nil || typ.ZeroOf[error](io.EOF) != nil {
		t.Error("ZeroOf pointer/interface")
	}

	// IsZero
	if !typ.IsZero(0) || typ.IsZero(1) || !typ.IsZero("") || typ.IsZero(" ") || !typ.IsZero(plain{}) || typ.IsZero(plain{b: "x"}) {
		t.Error("IsZero plain")
	}
	if !typ.IsZero(version{}) || !typ.IsZero(version{tag: "x"}) || typ.IsZero(version{minor: 1, tag: "x"}) || typ.IsZero(version{major: 1}) {
		t.Error("IsZero honouring a value-receiver method")
	}
	counterCalls = 0
	if !typ.IsZero[*counter](nil) {
		t.Error("IsZero(nil pointer)")
	}
	if counterCalls != 0 {
		t.Error("IsZero must not call the method on the zero value")
	}
	if !typ.IsZero(&counter{}) || counterCalls != 1 {
		t.Errorf("IsZero(&counter{0}), calls %d", counterCalls)
	}
	if typ.IsZero(&counter{3}) || counterCalls != 2 {
		t.Errorf("IsZero(&counter{3}), calls %d", counterCalls)
	}
	// a method on the pointer is not in the method set of the value
	if typ.IsZero(counter{n: 0}) != true || typ.IsZero(counter{n: 1}) != false || counterCalls != 2 {
		t.Error("IsZero(counter value)")
	}

	// Coal
	if typ.Coal[int]() != 0 || typ.Coal(0, 0, 0) != 0 || typ.Coal(0, 0, 7, 8) != 7 || typ.Coal(5, 0) != 5 || typ.Coal("", "", "x", "y") != "x" {
		t.Error("Coal")
	}
	p, q := new(int), new(int)
	if typ.Coal(nil, p, q) != p || typ.Coal[*int](nil, nil) != nil || typ.Coal(q, p) != q {
		t.Error("Coal pointers")
	}
	if typ.Coal(version{tag: "x"}, version{major: 1}) != (version{tag: "x"}) {
		t.Error("Coal compares with ==, it does not use IsZero methods")
	}
	if typ.Coal(plain{}, plain{}, plain{1, ""}, plain{2, ""}) != (plain{1, ""}) {
		t.Error("Coal structs")
	}

	// Tern / TernCast
	if typ.Tern(true, "yes", "no") != "yes" || typ.Tern(false, "yes", "no") != "no" || typ.Tern(true, 1, 2) != 1 || typ.Tern(false, p, q) != q {
		t.Error("Tern")
	}
	if typ.TernCast(true, "yes", "no") != "yes" || typ.TernCast(false, "yes", "no") != "no" || typ.TernCast(true, 5, 6) != 5 || typ.TernCast(false, nil, 6) != 6 {
		t.Error("TernCast")
	}
	if typ.TernCast[error](true, io.EOF, nil) != io.EOF || typ.TernCast[fmt.Stringer](false, 3, nil) != nil {
		t.Error("TernCast to interface types")
	}

	// Ref / DerefZero
	x := 5
	r1, r2 := typ.Ref(x), typ.Ref(x)
	if r1 == r2 || r1 == &x || *r1 != 5 || *r2 != 5 {
		t.Error("Ref returns a fresh pointer to a copy")
	}
	*r1 = 6
	if x != 5 || *r2 != 5 {
		t.Error("Ref aliasing")
	}
	if *typ.Ref("lit") != "lit" || *typ.Ref(plain{1, "a"}) != (plain{1, "a"}) || *typ.Ref[*int](nil) != nil {
		t.Error("Ref literals")
	}
	if typ.DerefZero[*int](nil) != 0 || typ.DerefZero(&x) != 5 || typ.DerefZero(typ.Ref("s")) != "s" || typ.DerefZero[*plain](nil) != (plain{}) {
		t.Error("DerefZero")
	}
	if typ.DerefZero(intPtr(nil)) != 0 || typ.DerefZero(intPtr(&x)) != 5 {
		t.Error("DerefZero named pointer type")
	}
	pp := &p
	if typ.DerefZero(pp) != p || typ.DerefZero[**int](nil) != nil {
		t.Error("DerefZero pointer to pointer")
	}

	// IsNil (interface-typed values), plus the pinned typed-nil behaviour
	var e error
	var wrapped any = e
	if !typ.IsNil(e) || !typ.IsNil(wrapped) || !typ.IsNil[any](nil) || typ.IsNil(error(io.EOF)) || typ.IsNil(any(0)) || typ.IsNil(0) || typ.IsNil("") {
		t.Error("IsNil")
	}
	var np *int
	if typ.IsNil(np) || typ.IsNil(any(np)) || typ.IsNil[[]int](nil) || typ.IsNil[map[int]int](nil) {
		t.Error("IsNil is only about nil interfaces")
	}
	if typ.IsNil(errors.New("x")) {
		t.Error("IsNil(non-nil error)")
	}
}

// ---------------------------------------------------------------------------
// the helpers are pure: concurrent callers see the same results

func TestConcurrent(t *testing.T) {
	var wg sync.WaitGroup
	errs := make(chan string, 64)
	shared := []int32{5, -7, 12, 0, math.MinInt32, math.MaxInt32, 3}
	for g := 0; g < 8; g++ {
		wg.Add(1)
		go func(g int) {
			defer wg.Done()
			rng := rand.New(rand.NewSource(int64(g)))
			for i := 0; i < 20000; i++ {
				v := int64(rng.Uint64())
				if rng.Intn(4) == 0 {
					v = math.MinInt64 + int64(rng.Intn(3))
				}
				s := strconv.FormatInt(v, 10)
				if typ.DigitsSign10(v) != len(s) || typ.Digits10(v) != len(strings.TrimPrefix(s, "-")) {
					errs <- "digits " + s
					return
				}
				if typ.Digits10(int8(v)) != len(strings.TrimPrefix(strconv.Itoa(int(int8(v))), "-")) {
					errs <- "digits int8 " + s
					return
				}
				if typ.Min(shared...) != math.MinInt32 || typ.Max(shared...) != math.MaxInt32 || typ.Coal(shared...) != 5 {
					errs <- "shared slice scan"
					return
				}
				var wantSum int32
				wantProd := int32(1)
				for _, x := range shared {
					wantSum += x
					wantProd *= x
				}
				if typ.Sum(shared...) != wantSum || typ.Product(shared...) != wantProd {
					errs <- "shared slice fold"
					return
				}
				if typ.Clamp(v, -100, 100) != typ.Max(-100, typ.Min(100, v)) {
					errs <- "clamp " + s
					return
				}
				if typ.IsZero(version{tag: s}) != true || typ.Compare(v, v-1) != typ.Tern(v == math.MinInt64, -1, 1) {
					errs <- "util " + s
					return
				}
			}
		}(g)
	}
	wg.Wait()
	close(errs)
	for e := range errs {
		t.Error(e)
	}
}
