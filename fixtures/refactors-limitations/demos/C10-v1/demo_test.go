package demo

import (
	"fmt"
	"math/rand"
	"sort"
	"sync"
	"sync/atomic"
	"testing"
	"time"

	"gopkg.in/typ.v4/chans"
)

// ---------------------------------------------------------------------------
// helpers

type variant struct {
	name    string
	ordered bool // deliveries on one channel follow publication order
	blocks  bool // returns only after every hand-off has finished
	pub     func(p *chans.PubSub[int], evs []int)
}

var variants = []variant{
	{"Pub", false, false, func(p *chans.PubSub[int], evs []int) {
		for _, ev := range evs {
			p.Pub(ev)
		}
	}},
	{"PubSlice", false, false, func(p *chans.PubSub[int], evs []int) { p.PubSlice(evs) }},
	{"PubWait", true, true, func(p *chans.PubSub[int], evs []int) {
		// one event at a time: each call returns after its hand-off, so the
		// sequence of calls is ordered even though one call is not
		for _, ev := range evs {
			p.PubWait(ev)
		}
	}},
	{"PubSliceWait", false, true, func(p *chans.PubSub[int], evs []int) { p.PubSliceWait(evs) }},
	{"PubSync", true, true, func(p *chans.PubSub[int], evs []int) {
		for _, ev := range evs {
			p.PubSync(ev)
		}
	}},
	{"PubSliceSync", true, true, func(p *chans.PubSub[int], evs []int) { p.PubSliceSync(evs) }},
}

func sortedCopy(a []int) []int {
	b := append([]int(nil), a...)
	sort.Ints(b)
	return b
}

func equalInts(a, b []int) bool {
	if len(a) != len(b) {
		return false
	}
	for i := range a {
		if a[i] != b[i] {
			return false
		}
	}
	return true
}

// drainNow takes what is queued right now, without blocking.
func drainNow(ch <-chan int) []int {
	var out []int
	for {
		select {
		case v, ok := <-ch:
			if !ok {
				return out
			}
			out = append(out, v)
		default:
			return out
		}
	}
}

// isClosed reports whether ch is closed and empty; it must only be used
// while nobody publishes.
func isClosed(ch <-chan int) bool {
	select {
	case _, ok := <-ch:
		return !ok
	default:
		return false
	}
}

func waitFor(t *testing.T, what string, cond func() bool) {
	t.Helper()
	deadline := time.Now().Add(20 * time.Second)
	for !cond() {
		if time.Now().After(deadline) {
			t.Fatalf("timed out waiting for %s", what)
		}
		time.Sleep(200 * time.Microsecond)
	}
}

// collector receives from a subscription until it is closed.
type collector struct {
	ch   <-chan int
	mu   sync.Mutex
	got  []int
	done chan struct{}
}

func collect(ch <-chan int) *collector {
	c := &collector{ch: ch, done: make(chan struct{})}
	go func() {
		defer close(c.done)
		for v := range ch {
			c.mu.Lock()
			c.got = append(c.got, v)
			c.mu.Unlock()
		}
	}()
	return c
}

func (c *collector) count() int {
	c.mu.Lock()
	defer c.mu.Unlock()
	return len(c.got)
}

func (c *collector) values() []int {
	c.mu.Lock()
	defer c.mu.Unlock()
	return append([]int(nil), c.got...)
}

func (c *collector) waitClosed(t *testing.T) {
	t.Helper()
	select {
	case <-c.done:
	case <-time.After(20 * time.Second):
		t.Fatalf("subscription was not closed")
	}
}

// ---------------------------------------------------------------------------
// delivery: every variant, every subscriber count, several buffer sizes,
// receivers running concurrently

func TestDeliveryWithReceivers(t *testing.T) {
	for _, v := range variants {
		for nSubs := 0; nSubs <= 5; nSubs++ {
			for _, buf := range []int{0, 1, 3} {
				v, nSubs, buf := v, nSubs, buf
				t.Run(fmt.Sprintf("%s/subs=%d/buf=%d", v.name, nSubs, buf), func(t *testing.T) {
					var p chans.PubSub[int]
					p.DefaultBuffer = buf
					var cols []*collector
					for i := 0; i < nSubs; i++ {
						var ch <-chan int
						if i%2 == 0 {
							ch = p.Sub()
						} else {
							ch = p.SubBuf(buf)
						}
						if cap(ch) != buf {
							t.Fatalf("cap = %d, want %d", cap(ch), buf)
						}
						cols = append(cols, collect(ch))
					}
					var want []int
					for round := 0; round < 3; round++ {
						var evs []int
						for k := 0; k < 4; k++ {
							evs = append(evs, round*100+k)
						}
						want = append(want, evs...)
						v.pub(&p, evs)
						if !v.ordered {
							// make rounds comparable: wait for this round
							n := len(want)
							for _, c := range cols {
								c := c
								waitFor(t, "deliveries", func() bool { return c.count() >= n })
							}
						}
					}
					for _, c := range cols {
						c := c
						waitFor(t, "deliveries", func() bool { return c.count() >= len(want) })
					}
					if err := p.UnsubAll(); err != nil {
						t.Fatalf("UnsubAll: %v", err)
					}
					for i, c := range cols {
						c.waitClosed(t)
						got := c.values()
						if v.ordered {
							if !equalInts(got, want) {
								t.Fatalf("sub %d got %v, want %v (in order)", i, got, want)
							}
						} else if !equalInts(sortedCopy(got), sortedCopy(want)) {
							t.Fatalf("sub %d got %v, want %v (any order)", i, got, want)
						}
					}
					// after UnsubAll there is nobody left
					v.pub(&p, []int{1, 2, 3})
					if err := p.UnsubAll(); err != nil {
						t.Fatalf("second UnsubAll: %v", err)
					}
				})
			}
		}
	}
}

// The blocking variants return only after the hand-off: with room in the
// buffers and no receivers at all, everything is queued at return.
func TestBlockingVariantsHandOffBeforeReturn(t *testing.T) {
	for _, v := range variants {
		if !v.blocks {
			continue
		}
		for nSubs := 0; nSubs <= 6; nSubs++ {
			v, nSubs := v, nSubs
			t.Run(fmt.Sprintf("%s/subs=%d", v.name, nSubs), func(t *testing.T) {
				var p chans.PubSub[int]
				p.DefaultBuffer = 16
				var subs []<-chan int
				for i := 0; i < nSubs; i++ {
					if i%3 == 0 {
						subs = append(subs, p.SubBuf(20+i))
					} else {
						subs = append(subs, p.Sub())
					}
				}
				evs := []int{7, 8, 9, 7, 10} // a duplicate value is two events
				v.pub(&p, evs)
				for i, ch := range subs {
					if len(ch) != len(evs) {
						t.Fatalf("sub %d has %d queued at return, want %d", i, len(ch), len(evs))
					}
				}
				v.pub(&p, nil)
				v.pub(&p, []int{})
				for i, ch := range subs {
					got := drainNow(ch)
					if v.ordered {
						if !equalInts(got, evs) {
							t.Fatalf("sub %d got %v want %v", i, got, evs)
						}
					} else if !equalInts(sortedCopy(got), sortedCopy(evs)) {
						t.Fatalf("sub %d got %v want %v", i, got, evs)
					}
				}
				p.UnsubAll()
				for i, ch := range subs {
					if !isClosed(ch) {
						t.Fatalf("sub %d not closed by UnsubAll", i)
					}
				}
			})
		}
	}
}

// Unbuffered channels: a blocking publish cannot return before the receiver
// has taken the value.
func TestBlockingVariantsWaitForReceiver(t *testing.T) {
	for _, v := range variants {
		if !v.blocks {
			continue
		}
		v := v
		t.Run(v.name, func(t *testing.T) {
			var p chans.PubSub[int]
			a, b := p.Sub(), p.Sub()
			var taken int32
			var wg sync.WaitGroup
			for _, ch := range []<-chan int{a, b} {
				ch := ch
				wg.Add(1)
				go func() {
					defer wg.Done()
					time.Sleep(15 * time.Millisecond)
					for i := 0; i < 2; i++ {
						<-ch
						atomic.AddInt32(&taken, 1)
					}
				}()
			}
			v.pub(&p, []int{1, 2})
			// every send has been matched by a receive; the receivers bump
			// the counter right afterwards
			wg.Wait()
			if n := atomic.LoadInt32(&taken); n != 4 {
				t.Fatalf("taken = %d, want 4", n)
			}
			p.UnsubAll()
		})
	}
}

// ---------------------------------------------------------------------------
// timeouts: delivered + timed out == events x subscribers

type timeouts struct {
	mu  sync.Mutex
	evs []int
}

func (to *timeouts) add(ev int) {
	to.mu.Lock()
	to.evs = append(to.evs, ev)
	to.mu.Unlock()
}

func (to *timeouts) snapshot() []int {
	to.mu.Lock()
	defer to.mu.Unlock()
	return append([]int(nil), to.evs...)
}

func TestTimeoutConservation(t *testing.T) {
	const d = 25 * time.Millisecond
	for _, v := range variants {
		for _, withCallback := range []bool{true, false} {
			v, withCallback := v, withCallback
			t.Run(fmt.Sprintf("%s/callback=%v", v.name, withCallback), func(t *testing.T) {
				var to timeouts
				var p chans.PubSub[int]
				p.PubTimeoutAfter = d
				if withCallback {
					p.OnPubTimeout = to.add
				}
				roomy := p.SubBuf(8) // takes everything
				tight := p.SubBuf(1) // takes one, the rest time out
				stuck := p.SubBuf(0) // nobody receives: all time out
				evs := []int{11, 12, 13}
				start := time.Now()
				v.pub(&p, evs)
				elapsed := time.Since(start)
				wantTimeouts := 2 + 3
				if v.blocks {
					if elapsed < d {
						t.Fatalf("returned after %v, before the timeout %v", elapsed, d)
					}
					if withCallback {
						if n := len(to.snapshot()); n != wantTimeouts {
							t.Fatalf("%d timeouts at return, want %d", n, wantTimeouts)
						}
					}
					if len(roomy) != 3 || len(tight) != 1 || len(stuck) != 0 {
						t.Fatalf("queued at return: %d %d %d", len(roomy), len(tight), len(stuck))
					}
				} else if withCallback {
					waitFor(t, "timeouts", func() bool { return len(to.snapshot()) >= wantTimeouts })
					waitFor(t, "deliveries", func() bool { return len(roomy) == 3 && len(tight) == 1 })
				} else {
					waitFor(t, "deliveries", func() bool { return len(roomy) == 3 && len(tight) == 1 })
					time.Sleep(3 * d)
				}
				// let a stray extra callback show up
				time.Sleep(2 * d)
				gotRoomy, gotTight, gotStuck := drainNow(roomy), drainNow(tight), drainNow(stuck)
				if !equalInts(sortedCopy(gotRoomy), evs) {
					t.Fatalf("roomy got %v", gotRoomy)
				}
				if v.ordered && !equalInts(gotRoomy, evs) {
					t.Fatalf("roomy got %v, want in order", gotRoomy)
				}
				if len(gotTight) != 1 || len(gotStuck) != 0 {
					t.Fatalf("tight got %v, stuck got %v", gotTight, gotStuck)
				}
				if v.ordered && gotTight[0] != 11 {
					t.Fatalf("tight got %v, want the first event", gotTight)
				}
				if withCallback {
					// every (event, subscriber) pair is a delivery or a timeout
					all := append(append(append([]int{}, gotRoomy...), gotTight...), to.snapshot()...)
					want := []int{11, 11, 11, 12, 12, 12, 13, 13, 13}
					if !equalInts(sortedCopy(all), want) {
						t.Fatalf("deliveries+timeouts = %v, want %v", sortedCopy(all), want)
					}
				} else if n := len(to.snapshot()); n != 0 {
					t.Fatalf("callback not configured but called %d times", n)
				}
				if !v.blocks && !withCallback {
					// an asynchronous send that gave up silently is not
					// ordered with anything we can observe: leave it alone
					return
				}
				if err := p.UnsubAll(); err != nil {
					t.Fatal(err)
				}
				if !isClosed(roomy) || !isClosed(tight) || !isClosed(stuck) {
					t.Fatalf("UnsubAll left a channel open")
				}
			})
		}
	}
}

// With a receiver that is merely slow, but faster than the timeout, nothing
// times out.
func TestTimeoutNotHitWhenReceived(t *testing.T) {
	for _, v := range variants {
		v := v
		t.Run(v.name, func(t *testing.T) {
			var to timeouts
			p := &chans.PubSub[int]{PubTimeoutAfter: 10 * time.Second, OnPubTimeout: to.add}
			c1, c2 := collect(p.Sub()), collect(p.SubBuf(2))
			evs := []int{1, 2, 3, 4, 5}
			v.pub(p, evs)
			waitFor(t, "deliveries", func() bool { return c1.count() == 5 && c2.count() == 5 })
			p.UnsubAll()
			c1.waitClosed(t)
			c2.waitClosed(t)
			for _, c := range []*collector{c1, c2} {
				if !equalInts(sortedCopy(c.values()), evs) {
					t.Fatalf("got %v", c.values())
				}
			}
			if n := len(to.snapshot()); n != 0 {
				t.Fatalf("%d timeouts", n)
			}
		})
	}
}

// ---------------------------------------------------------------------------
// Unsub / UnsubAll

func TestUnsubErrors(t *testing.T) {
	var p chans.PubSub[int]
	if err := p.Unsub(nil); err != chans.ErrSubscriptionNotInitalized {
		t.Fatalf("Unsub(nil) on empty = %v", err)
	}
	foreign := make(chan int, 1)
	if err := p.Unsub(foreign); err != chans.ErrAlreadyUnsubscribed {
		t.Fatalf("Unsub(foreign) on empty = %v", err)
	}
	a, b, c := p.SubBuf(4), p.SubBuf(4), p.SubBuf(4)
	var nilCh <-chan int
	if err := p.Unsub(nilCh); err != chans.ErrSubscriptionNotInitalized {
		t.Fatalf("Unsub(nil) = %v", err)
	}
	if err := p.Unsub(foreign); err != chans.ErrAlreadyUnsubscribed {
		t.Fatalf("Unsub(foreign) = %v", err)
	}
	var other chans.PubSub[int]
	o := other.SubBuf(4)
	if err := p.Unsub(o); err != chans.ErrAlreadyUnsubscribed {
		t.Fatalf("Unsub(other's) = %v", err)
	}
	// none of the failed calls closed or removed anything
	foreign <- 1
	p.PubSync(5)
	other.PubSync(6)
	for i, ch := range []<-chan int{a, b, c} {
		if got := drainNow(ch); !equalInts(got, []int{5}) {
			t.Fatalf("sub %d got %v", i, got)
		}
	}
	if got := drainNow(o); !equalInts(got, []int{6}) {
		t.Fatalf("other got %v", got)
	}
	// remove the middle one
	if err := p.Unsub(b); err != nil {
		t.Fatal(err)
	}
	if !isClosed(b) || isClosed(a) || isClosed(c) {
		t.Fatalf("closed: a=%v b=%v c=%v", isClosed(a), isClosed(b), isClosed(c))
	}
	if err := p.Unsub(b); err != chans.ErrAlreadyUnsubscribed {
		t.Fatalf("second Unsub = %v", err)
	}
	p.PubWait(7)
	if got := drainNow(a); !equalInts(got, []int{7}) {
		t.Fatalf("a got %v", got)
	}
	if got := drainNow(c); !equalInts(got, []int{7}) {
		t.Fatalf("c got %v", got)
	}
	if got := drainNow(b); len(got) != 0 {
		t.Fatalf("removed b got %v", got)
	}
	// values queued before removal stay readable, then the close shows
	p.PubSync(8)
	if err := p.Unsub(a); err != nil {
		t.Fatal(err)
	}
	if v, ok := <-a; !ok || v != 8 {
		t.Fatalf("a: %v %v", v, ok)
	}
	if !isClosed(a) {
		t.Fatalf("a not closed")
	}
	if got := drainNow(c); !equalInts(got, []int{8}) {
		t.Fatalf("c got %v", got)
	}
	// last one, then empty again
	if err := p.Unsub(c); err != nil {
		t.Fatal(err)
	}
	if !isClosed(c) {
		t.Fatalf("c not closed")
	}
	for _, ch := range []<-chan int{a, b, c} {
		if err := p.Unsub(ch); err != chans.ErrAlreadyUnsubscribed {
			t.Fatalf("Unsub after all removed = %v", err)
		}
	}
	p.PubSync(9)
	p.PubWait(9)
	d := p.SubBuf(1)
	p.PubSync(10)
	if got := drainNow(d); !equalInts(got, []int{10}) {
		t.Fatalf("d got %v", got)
	}
	if err := p.UnsubAll(); err != nil {
		t.Fatal(err)
	}
	if !isClosed(d) {
		t.Fatalf("d not closed")
	}
	if err := p.Unsub(d); err != chans.ErrAlreadyUnsubscribed {
		t.Fatalf("Unsub after UnsubAll = %v", err)
	}
	if isClosed(o) {
		t.Fatalf("other PubSub's channel was closed")
	}
}

// Model-based random walk over Sub/SubBuf/Unsub/UnsubAll/WithOnly and the
// blocking publish variants. All channels are roomy so no receivers are
// needed and every step is deterministic.
func TestRandomWalkAgainstModel(t *testing.T) {
	for seed := int64(1); seed <= 25; seed++ {
		seed := seed
		t.Run(fmt.Sprintf("seed=%d", seed), func(t *testing.T) {
			rng := rand.New(rand.NewSource(seed))
			const room = 64
			var p chans.PubSub[int]
			p.DefaultBuffer = room
			var live, dead []<-chan int
			next := 0
			check := func(wantPerLive map[int][]int, ordered bool) {
				t.Helper()
				for i, ch := range live {
					got := drainNow(ch)
					want := wantPerLive[i]
					if ordered {
						if !equalInts(got, want) {
							t.Fatalf("live %d got %v want %v", i, got, want)
						}
					} else if !equalInts(sortedCopy(got), sortedCopy(want)) {
						t.Fatalf("live %d got %v want %v", i, got, want)
					}
					if isClosed(ch) {
						t.Fatalf("live %d is closed", i)
					}
				}
				for i, ch := range dead {
					if !isClosed(ch) {
						t.Fatalf("dead %d is open or non-empty", i)
					}
				}
			}
			all := func(evs []int) map[int][]int {
				m := map[int][]int{}
				for i := range live {
					m[i] = evs
				}
				return m
			}
			newEvs := func() []int {
				n := rng.Intn(5)
				evs := make([]int, 0, n)
				for i := 0; i < n; i++ {
					next++
					evs = append(evs, next)
				}
				return evs
			}
			for step := 0; step < 250; step++ {
				switch op := rng.Intn(12); op {
				case 0, 1:
					ch := p.Sub()
					if cap(ch) != room {
						t.Fatalf("Sub cap %d", cap(ch))
					}
					live = append(live, ch)
				case 2:
					size := room + rng.Intn(4)
					ch := p.SubBuf(size)
					if cap(ch) != size {
						t.Fatalf("SubBuf cap %d", cap(ch))
					}
					live = append(live, ch)
				case 3, 4:
					if len(live) == 0 {
						continue
					}
					i := rng.Intn(len(live))
					if err := p.Unsub(live[i]); err != nil {
						t.Fatalf("Unsub live: %v", err)
					}
					dead = append(dead, live[i])
					live = append(live[:i:i], live[i+1:]...)
				case 5:
					if len(dead) > 0 {
						if err := p.Unsub(dead[rng.Intn(len(dead))]); err != chans.ErrAlreadyUnsubscribed {
							t.Fatalf("Unsub dead: %v", err)
						}
					}
					if err := p.Unsub(nil); err != chans.ErrSubscriptionNotInitalized {
						t.Fatalf("Unsub nil: %v", err)
					}
					if err := p.Unsub(make(chan int)); err != chans.ErrAlreadyUnsubscribed {
						t.Fatalf("Unsub foreign: %v", err)
					}
				case 6:
					if rng.Intn(8) == 0 {
						if err := p.UnsubAll(); err != nil {
							t.Fatal(err)
						}
						dead = append(dead, live...)
						live = nil
					}
				case 7:
					next++
					p.PubSync(next)
					check(all([]int{next}), true)
				case 8:
					next++
					p.PubWait(next)
					check(all([]int{next}), true)
				case 9:
					evs := newEvs()
					p.PubSliceSync(evs)
					check(all(evs), true)
				case 10:
					evs := newEvs()
					p.PubSliceWait(evs)
					check(all(evs), false)
				case 11:
					// WithOnly: one live, one dead, nil, foreign
					var target <-chan int
					idx := -1
					switch k := rng.Intn(4); {
					case k == 0 && len(live) > 0:
						idx = rng.Intn(len(live))
						target = live[idx]
					case k == 1 && len(dead) > 0:
						target = dead[rng.Intn(len(dead))]
					case k == 2:
						target = make(chan int, 1)
					}
					only := p.WithOnly(target)
					evs := newEvs()
					want := map[int][]int{}
					if idx >= 0 {
						want[idx] = evs
					}
					ordered := true
					switch rng.Intn(4) {
					case 0:
						only.PubSliceSync(evs)
					case 1:
						only.PubSliceWait(evs)
						ordered = false
					case 2:
						for _, ev := range evs {
							only.PubSync(ev)
						}
					case 3:
						for _, ev := range evs {
							only.PubWait(ev)
						}
					}
					check(want, ordered)
					if target != nil && idx < 0 && len(target) != 0 {
						t.Fatalf("WithOnly delivered to a non-subscriber")
					}
				}
				check(map[int][]int{}, true)
			}
			p.UnsubAll()
			dead = append(dead, live...)
			live = nil
			check(nil, true)
		})
	}
}

// ---------------------------------------------------------------------------
// WithOnly

func TestWithOnly(t *testing.T) {
	var to timeouts
	p := &chans.PubSub[int]{DefaultBuffer: 3, PubTimeoutAfter: 20 * time.Millisecond, OnPubTimeout: to.add}
	a, b, c := p.Sub(), p.Sub(), p.Sub()
	for _, v := range variants {
		for i, target := range []<-chan int{a, b, c} {
			only := p.WithOnly(target)
			if only == p {
				t.Fatalf("WithOnly returned the receiver")
			}
			v.pub(only, []int{1, 2})
			waitFor(t, "delivery", func() bool { return len(target) == 2 })
			time.Sleep(2 * time.Millisecond)
			for j, ch := range []<-chan int{a, b, c} {
				got := drainNow(ch)
				if j == i {
					if !equalInts(sortedCopy(got), []int{1, 2}) {
						t.Fatalf("%s: target %d got %v", v.name, j, got)
					}
					if v.ordered && !equalInts(got, []int{1, 2}) {
						t.Fatalf("%s: target %d got %v out of order", v.name, j, got)
					}
				} else if len(got) != 0 {
					t.Fatalf("%s: bystander %d got %v", v.name, j, got)
				}
			}
		}
	}
	if n := len(to.snapshot()); n != 0 {
		t.Fatalf("unexpected timeouts: %v", to.snapshot())
	}
	// the clone carries the timeout configuration, not the default buffer
	only := p.WithOnly(b)
	if only.PubTimeoutAfter != p.PubTimeoutAfter || only.OnPubTimeout == nil || only.DefaultBuffer != 0 {
		t.Fatalf("clone config: %v %v %d", only.PubTimeoutAfter, only.OnPubTimeout == nil, only.DefaultBuffer)
	}
	only.PubSliceSync([]int{1, 2, 3, 4, 5}) // room for three
	if got := drainNow(b); !equalInts(got, []int{1, 2, 3}) {
		t.Fatalf("b got %v", got)
	}
	if got := to.snapshot(); !equalInts(got, []int{4, 5}) {
		t.Fatalf("timeouts %v", got)
	}
	if len(a) != 0 || len(c) != 0 {
		t.Fatalf("bystanders got something")
	}
	// the clone is a snapshot: later subscribers of p are not in it, and
	// subscribers of the clone are not in p
	d := p.Sub()
	e := only.Sub()
	if cap(e) != 0 || cap(d) != 3 {
		t.Fatalf("caps %d %d", cap(e), cap(d))
	}
	eCol := collect(e)
	only.PubWait(42)
	waitFor(t, "e", func() bool { return eCol.count() == 1 })
	if got := drainNow(b); !equalInts(got, []int{42}) {
		t.Fatalf("b got %v", got)
	}
	if len(d) != 0 || len(a) != 0 || len(c) != 0 {
		t.Fatalf("clone leaked to the original's subscribers")
	}
	p.PubSync(43)
	for i, ch := range []<-chan int{a, b, c, d} {
		if got := drainNow(ch); !equalInts(got, []int{43}) {
			t.Fatalf("sub %d got %v", i, got)
		}
	}
	if err := only.Unsub(e); err != nil {
		t.Fatal(err)
	}
	eCol.waitClosed(t)
	if got := eCol.values(); !equalInts(got, []int{42}) {
		t.Fatalf("e got %v", got)
	}
	// unknown, removed and nil subscriptions give an empty publisher
	if err := p.Unsub(c); err != nil {
		t.Fatal(err)
	}
	var nilCh <-chan int
	for name, target := range map[string]<-chan int{"nil": nilCh, "untyped nil": nil, "foreign": make(chan int), "removed": c} {
		empty := p.WithOnly(target)
		if empty == nil {
			t.Fatalf("%s: nil clone", name)
		}
		before := len(to.snapshot())
		start := time.Now()
		for _, v := range variants {
			v.pub(empty, []int{1, 2, 3})
		}
		if time.Since(start) > 15*time.Millisecond*6 {
			t.Logf("%s: publishing to nobody took %v", name, time.Since(start))
		}
		time.Sleep(30 * time.Millisecond)
		if len(to.snapshot()) != before {
			t.Fatalf("%s: timeouts reported with no subscriber", name)
		}
		if len(a)+len(b)+len(d) != 0 {
			t.Fatalf("%s: something was delivered", name)
		}
		if err := empty.UnsubAll(); err != nil {
			t.Fatal(err)
		}
		if isClosed(a) || isClosed(b) || isClosed(d) {
			t.Fatalf("%s: empty clone's UnsubAll closed a channel", name)
		}
	}
	p.UnsubAll()
	if !isClosed(a) || !isClosed(b) || !isClosed(d) {
		t.Fatalf("UnsubAll left a channel open")
	}
}

// ---------------------------------------------------------------------------
// zero subscribers / zero value

func TestNobodyListening(t *testing.T) {
	var to timeouts
	for _, p := range []*chans.PubSub[int]{
		{},
		new(chans.PubSub[int]),
		{PubTimeoutAfter: time.Hour, OnPubTimeout: to.add},
	} {
		done := make(chan struct{})
		go func() {
			defer close(done)
			for _, v := range variants {
				v.pub(p, []int{1, 2, 3})
				v.pub(p, nil)
			}
			if err := p.UnsubAll(); err != nil {
				t.Errorf("UnsubAll: %v", err)
			}
			if err := p.Unsub(make(chan int)); err != chans.ErrAlreadyUnsubscribed {
				t.Errorf("Unsub: %v", err)
			}
		}()
		select {
		case <-done:
		case <-time.After(10 * time.Second):
			t.Fatalf("publishing to nobody blocks")
		}
	}
	if n := len(to.snapshot()); n != 0 {
		t.Fatalf("%d timeouts", n)
	}
}

// ---------------------------------------------------------------------------
// concurrency

// Blocking publishers from many goroutines, subscribers coming and going,
// permanent subscribers must see every event exactly once.
func TestConcurrentPublishSubUnsub(t *testing.T) {
	for _, buf := range []int{0, 2} {
		buf := buf
		t.Run(fmt.Sprintf("buf=%d", buf), func(t *testing.T) {
			var p chans.PubSub[int]
			p.DefaultBuffer = buf
			const (
				publishers = 4
				perPub     = 60
				permanent  = 3
			)
			var perm []*collector
			for i := 0; i < permanent; i++ {
				perm = append(perm, collect(p.Sub()))
			}
			stop := make(chan struct{})
			var churn sync.WaitGroup
			var transientMu sync.Mutex
			var transient []*collector
			for g := 0; g < 3; g++ {
				g := g
				churn.Add(1)
				go func() {
					defer churn.Done()
					rng := rand.New(rand.NewSource(int64(100 + g)))
					for {
						select {
						case <-stop:
							return
						default:
						}
						var ch <-chan int
						if rng.Intn(2) == 0 {
							ch = p.Sub()
						} else {
							ch = p.SubBuf(rng.Intn(3))
						}
						c := collect(ch)
						time.Sleep(time.Duration(rng.Intn(300)) * time.Microsecond)
						if err := p.Unsub(ch); err != nil {
							t.Errorf("Unsub transient: %v", err)
						}
						<-c.done
						if err := p.Unsub(ch); err != chans.ErrAlreadyUnsubscribed {
							t.Errorf("second Unsub transient: %v", err)
						}
						transientMu.Lock()
						transient = append(transient, c)
						transientMu.Unlock()
					}
				}()
			}
			var pubs sync.WaitGroup
			for g := 0; g < publishers; g++ {
				g := g
				pubs.Add(1)
				go func() {
					defer pubs.Done()
					// ids: g*1000 + k, increasing per publisher
					k := 0
					for k < perPub {
						switch g {
						case 0:
							p.PubSync(g*1000 + k)
							k++
						case 1:
							p.PubWait(g*1000 + k)
							k++
						case 2:
							p.PubSliceSync([]int{g*1000 + k, g*1000 + k + 1, g*1000 + k + 2})
							k += 3
						case 3:
							p.PubSliceWait([]int{g*1000 + k, g*1000 + k + 1, g*1000 + k + 2})
							k += 3
						}
					}
				}()
			}
			pubs.Wait()
			close(stop)
			churn.Wait()
			// blocking variants: everything has been handed off already
			if err := p.UnsubAll(); err != nil {
				t.Fatal(err)
			}
			var want []int
			for g := 0; g < publishers; g++ {
				for k := 0; k < perPub; k++ {
					want = append(want, g*1000+k)
				}
			}
			checkOrder := func(name string, got []int) {
				// publishers 0,1,2 are ordered; 3 is ordered between batches
				last := map[int]int{}
				for _, v := range got {
					g, k := v/1000, v%1000
					if g == 3 {
						k = k / 3
						if prev, ok := last[g]; ok && k < prev {
							t.Fatalf("%s: publisher %d batch %d after %d", name, g, k, prev)
						}
					} else if prev, ok := last[g]; ok && k <= prev {
						t.Fatalf("%s: publisher %d event %d after %d", name, g, k, prev)
					}
					last[g] = k
				}
			}
			for i, c := range perm {
				c.waitClosed(t)
				got := c.values()
				if !equalInts(sortedCopy(got), want) {
					t.Fatalf("permanent %d: got %d events, want %d (exactly once each)", i, len(got), len(want))
				}
				checkOrder(fmt.Sprintf("permanent %d", i), got)
			}
			transientMu.Lock()
			defer transientMu.Unlock()
			if len(transient) == 0 {
				t.Fatalf("no transient subscriber ran")
			}
			for i, c := range transient {
				got := c.values()
				s := sortedCopy(got)
				for j := 1; j < len(s); j++ {
					if s[j] == s[j-1] {
						t.Fatalf("transient %d got %d twice", i, s[j])
					}
				}
				checkOrder(fmt.Sprintf("transient %d", i), got)
			}
		})
	}
}

// Asynchronous publishers with concurrent Sub (no Unsub while sends may be
// in flight): eventually exactly once for the subscribers that were there
// all along, never twice for late ones.
func TestConcurrentAsyncPublish(t *testing.T) {
	var p chans.PubSub[int]
	const (
		publishers = 4
		perPub     = 50
	)
	total := publishers * perPub
	var perm []*collector
	for i := 0; i < 3; i++ {
		perm = append(perm, collect(p.SubBuf(i)))
	}
	var lateMu sync.Mutex
	var late []<-chan int
	var wg sync.WaitGroup
	for g := 0; g < publishers; g++ {
		g := g
		wg.Add(1)
		go func() {
			defer wg.Done()
			for k := 0; k < perPub; {
				if g%2 == 0 {
					p.Pub(g*1000 + k)
					k++
				} else {
					p.PubSlice([]int{g*1000 + k, g*1000 + k + 1})
					k += 2
				}
				if k%10 == 0 {
					ch := p.SubBuf(total) // never blocks a sender
					lateMu.Lock()
					late = append(late, ch)
					lateMu.Unlock()
				}
			}
		}()
	}
	wg.Wait()
	for _, c := range perm {
		c := c
		waitFor(t, "async deliveries", func() bool { return c.count() >= total })
	}
	time.Sleep(20 * time.Millisecond)
	var want []int
	for g := 0; g < publishers; g++ {
		for k := 0; k < perPub; k++ {
			want = append(want, g*1000+k)
		}
	}
	for i, c := range perm {
		if got := sortedCopy(c.values()); !equalInts(got, want) {
			t.Fatalf("permanent %d: got %d events, want %d", i, len(got), len(want))
		}
	}
	lateMu.Lock()
	defer lateMu.Unlock()
	for i, ch := range late {
		s := sortedCopy(drainNow(ch))
		for j := 1; j < len(s); j++ {
			if s[j] == s[j-1] {
				t.Fatalf("late %d got %d twice", i, s[j])
			}
		}
	}
	// a publish after the late subscriptions reaches all of them
	p.PubWait(99999)
	for i, ch := range late {
		got := drainNow(ch)
		n := 0
		for _, v := range got {
			if v == 99999 {
				n++
			}
		}
		if n != 1 {
			t.Fatalf("late %d got the final event %d times", i, n)
		}
	}
}

// WithOnly and Unsub/Sub running concurrently with blocking publishers.
func TestConcurrentWithOnly(t *testing.T) {
	var p chans.PubSub[int]
	a, b := collect(p.SubBuf(1)), collect(p.Sub())
	var wg sync.WaitGroup
	for g := 0; g < 3; g++ {
		g := g
		wg.Add(1)
		go func() {
			defer wg.Done()
			for k := 0; k < 40; k++ {
				switch g {
				case 0:
					p.WithOnly(a.ch).PubSync(1000 + k)
				case 1:
					p.WithOnly(b.ch).PubWait(2000 + k)
				case 2:
					ch := p.Sub()
					c := collect(ch)
					p.PubSliceWait([]int{3000 + k})
					if err := p.Unsub(ch); err != nil {
						t.Errorf("Unsub: %v", err)
					}
					<-c.done
					if got := c.values(); !equalInts(got, []int{3000 + k}) {
						// publishers 0 and 1 only target a and b
						t.Errorf("transient got %v", got)
					}
				}
			}
		}()
	}
	wg.Wait()
	p.UnsubAll()
	a.waitClosed(t)
	b.waitClosed(t)
	var wantA, wantB []int
	for k := 0; k < 40; k++ {
		wantA = append(wantA, 1000+k)
		wantB = append(wantB, 2000+k)
	}
	for k := 0; k < 40; k++ {
		wantA = append(wantA, 3000+k)
		wantB = append(wantB, 3000+k)
	}
	if got := sortedCopy(a.values()); !equalInts(got, wantA) {
		t.Fatalf("a got %v", got)
	}
	if got := sortedCopy(b.values()); !equalInts(got, wantB) {
		t.Fatalf("b got %v", got)
	}
}
