package demo

import (
	"fmt"
	"math/rand"
	"runtime"
	"sync"
	"sync/atomic"
	"testing"
	"time"

	"gopkg.in/typ.v4/sync2"
)

// triple is what every caller observed from one Do call. The Once1 and Once2
// adapters leave the unused positions at fixed values.
type triple struct {
	a int
	b string
	c [2]int
}

// doer hides the arity of the Once value under test: do passes an action
// producing a triple and gives back what Do returned; fields gives back the
// exported result fields as they are right now.
type doer struct {
	name   string
	do     func(action func() triple) triple
	fields func() triple
}

func newDoers() []doer {
	o1 := new(sync2.Once1[int])
	o2 := new(sync2.Once2[int, string])
	o3 := new(sync2.Once3[int, string, [2]int])
	return []doer{
		{
			name: "Once1",
			do: func(action func() triple) triple {
				return triple{a: o1.Do(func() int { return action().a })}
			},
			fields: func() triple { return triple{a: o1.R1} },
		},
		{
			name: "Once2",
			do: func(action func() triple) triple {
				a, b := o2.Do(func() (int, string) { t := action(); return t.a, t.b })
				return triple{a: a, b: b}
			},
			fields: func() triple { return triple{a: o2.R1, b: o2.R2} },
		},
		{
			name: "Once3",
			do: func(action func() triple) triple {
				a, b, c := o3.Do(func() (int, string, [2]int) { t := action(); return t.a, t.b, t.c })
				return triple{a: a, b: b, c: c}
			},
			fields: func() triple { return triple{a: o3.R1, b: o3.R2, c: o3.R3} },
		},
	}
}

// project drops the positions the given doer cannot carry.
func project(name string, t triple) triple {
	switch name {
	case "Once1":
		return triple{a: t.a}
	case "Once2":
		return triple{a: t.a, b: t.b}
	}
	return t
}

func valueOf(id int) triple {
	return triple{a: id + 1, b: fmt.Sprintf("caller-%d", id), c: [2]int{id, -id}}
}

func TestSequential(t *testing.T) {
	for _, d := range newDoers() {
		d := d
		t.Run(d.name, func(t *testing.T) {
			calls := 0
			var got []triple
			for i := 0; i < 5; i++ {
				i := i
				got = append(got, d.do(func() triple { calls++; return valueOf(i) }))
			}
			if calls != 1 {
				t.Fatalf("calls = %d, want 1", calls)
			}
			want := project(d.name, valueOf(0))
			for i, g := range got {
				if g != want {
					t.Fatalf("call %d returned %+v, want %+v", i, g, want)
				}
			}
			if f := d.fields(); f != want {
				t.Fatalf("fields = %+v, want %+v", f, want)
			}
		})
	}
}

// contend starts n goroutines that all call Do with their own action. The
// action writes plain (non-atomic) variables, so that -race checks that every
// caller is ordered after the end of the one invocation.
func contend(t *testing.T, d doer, n int, rng *rand.Rand) {
	t.Helper()
	var invocations int32
	winner := -1      // plain: written by the action only
	finished := false // plain: written as the last step of the action
	scratch := make([]int, 8)

	yields := make([]int, n)
	spins := make([]int, n)
	for i := range yields {
		yields[i] = rng.Intn(4)
		spins[i] = rng.Intn(3)
	}

	results := make([]triple, n)
	sawFinished := make([]bool, n)
	sawWinner := make([]int, n)
	sawScratch := make([]int, n)
	start := make(chan struct{})
	var wg sync.WaitGroup
	for i := 0; i < n; i++ {
		i := i
		wg.Add(1)
		go func() {
			defer wg.Done()
			<-start
			for k := 0; k < yields[i]; k++ {
				runtime.Gosched()
			}
			results[i] = d.do(func() triple {
				atomic.AddInt32(&invocations, 1)
				winner = i
				for k := 0; k < spins[i]; k++ {
					runtime.Gosched()
				}
				for k := range scratch {
					scratch[k] = i + k
				}
				finished = true
				return valueOf(i)
			})
			sawFinished[i] = finished
			sawWinner[i] = winner
			sawScratch[i] = scratch[len(scratch)-1]
		}()
	}
	close(start)
	wg.Wait()

	if c := atomic.LoadInt32(&invocations); c != 1 {
		t.Fatalf("n=%d: %d invocations, want exactly 1", n, c)
	}
	if winner < 0 || winner >= n {
		t.Fatalf("n=%d: winner = %d", n, winner)
	}
	want := project(d.name, valueOf(winner))
	for i := 0; i < n; i++ {
		if results[i] != want {
			t.Fatalf("n=%d: caller %d got %+v, want %+v (winner %d)", n, i, results[i], want, winner)
		}
		if !sawFinished[i] || sawWinner[i] != winner || sawScratch[i] != winner+len(scratch)-1 {
			t.Fatalf("n=%d: caller %d returned before the invocation's effects were visible", n, i)
		}
	}
	if f := d.fields(); f != want {
		t.Fatalf("n=%d: fields = %+v, want %+v", n, f, want)
	}

	// Later callers, sequential and concurrent, still get the first results
	// and never run their own function.
	var late sync.WaitGroup
	for i := 0; i < 4; i++ {
		i := i
		late.Add(1)
		go func() {
			defer late.Done()
			got := d.do(func() triple {
				atomic.AddInt32(&invocations, 1)
				return valueOf(1000 + i)
			})
			if got != want {
				t.Errorf("late caller %d got %+v, want %+v", i, got, want)
			}
			if !finished {
				t.Errorf("late caller %d does not see the completion flag", i)
			}
		}()
	}
	late.Wait()
	if got := d.do(func() triple { atomic.AddInt32(&invocations, 1); return valueOf(2000) }); got != want {
		t.Fatalf("late sequential caller got %+v, want %+v", got, want)
	}
	if c := atomic.LoadInt32(&invocations); c != 1 {
		t.Fatalf("n=%d: %d invocations after late callers, want exactly 1", n, c)
	}
}

func TestContended(t *testing.T) {
	for _, seed := range []int64{1, 2, 3, 17, 4242} {
		rng := rand.New(rand.NewSource(seed))
		for round := 0; round < 40; round++ {
			n := 1 + rng.Intn(24)
			for _, d := range newDoers() {
				contend(t, d, n, rng)
			}
		}
	}
}

// TestCallersWaitForCompletion holds the one invocation open and checks that
// no Do call, from any goroutine, returns while it is still running.
func TestCallersWaitForCompletion(t *testing.T) {
	for _, d := range newDoers() {
		d := d
		t.Run(d.name, func(t *testing.T) {
			const n = 8
			entered := make(chan struct{})
			release := make(chan struct{})
			var invocations, returned int32
			var done bool // plain
			var wg sync.WaitGroup
			results := make([]triple, n+1)
			wg.Add(1)
			go func() {
				defer wg.Done()
				results[n] = d.do(func() triple {
					atomic.AddInt32(&invocations, 1)
					close(entered)
					<-release
					done = true
					return valueOf(7)
				})
				atomic.AddInt32(&returned, 1)
			}()
			<-entered
			for i := 0; i < n; i++ {
				i := i
				wg.Add(1)
				go func() {
					defer wg.Done()
					results[i] = d.do(func() triple {
						atomic.AddInt32(&invocations, 1)
						return valueOf(100 + i)
					})
					if !done {
						t.Errorf("caller %d returned before the invocation completed", i)
					}
					atomic.AddInt32(&returned, 1)
				}()
			}
			time.Sleep(30 * time.Millisecond)
			if r := atomic.LoadInt32(&returned); r != 0 {
				t.Errorf("%d Do calls returned while the invocation was still running", r)
			}
			close(release)
			wg.Wait()
			if c := atomic.LoadInt32(&invocations); c != 1 {
				t.Fatalf("%d invocations, want 1", c)
			}
			want := project(d.name, valueOf(7))
			for i, r := range results {
				if r != want {
					t.Fatalf("caller %d got %+v, want %+v", i, r, want)
				}
			}
		})
	}
}

func mustPanic(t *testing.T, what string, f func()) (v interface{}) {
	t.Helper()
	defer func() {
		v = recover()
		if v == nil {
			t.Fatalf("%s: no panic", what)
		}
	}()
	f()
	return nil
}

// A panicking first action counts as the one invocation: the panic reaches
// its caller, nothing is stored, and no later function is run.
func TestPanickingAction(t *testing.T) {
	for _, d := range newDoers() {
		d := d
		t.Run(d.name, func(t *testing.T) {
			calls := 0
			v := mustPanic(t, "first Do", func() {
				d.do(func() triple { calls++; panic("boom") })
			})
			if v != "boom" {
				t.Fatalf("panic value %v, want boom", v)
			}
			for i := 0; i < 3; i++ {
				got := d.do(func() triple { calls++; return valueOf(5) })
				if got != (triple{}) {
					t.Fatalf("Do after panic returned %+v, want zero values", got)
				}
			}
			if calls != 1 {
				t.Fatalf("calls = %d, want 1", calls)
			}
			if f := d.fields(); f != (triple{}) {
				t.Fatalf("fields = %+v, want zero", f)
			}
		})
	}
}

func TestNilAction(t *testing.T) {
	calls := 0
	o1 := new(sync2.Once1[int])
	mustPanic(t, "Once1.Do(nil)", func() { o1.Do(nil) })
	if got := o1.Do(func() int { calls++; return 3 }); got != 0 {
		t.Fatalf("Once1 after Do(nil): %d, want 0", got)
	}
	o2 := new(sync2.Once2[int, string])
	mustPanic(t, "Once2.Do(nil)", func() { o2.Do(nil) })
	if a, b := o2.Do(func() (int, string) { calls++; return 3, "x" }); a != 0 || b != "" {
		t.Fatalf("Once2 after Do(nil): %d %q, want zero values", a, b)
	}
	o3 := new(sync2.Once3[int, string, [2]int])
	mustPanic(t, "Once3.Do(nil)", func() { o3.Do(nil) })
	if a, b, c := o3.Do(func() (int, string, [2]int) { calls++; return 3, "x", [2]int{1, 1} }); a != 0 || b != "" || c != ([2]int{}) {
		t.Fatalf("Once3 after Do(nil): %d %q %v, want zero values", a, b, c)
	}
	if calls != 0 {
		t.Fatalf("calls = %d, want 0", calls)
	}
}

func TestNilReceiver(t *testing.T) {
	calls := 0
	var o1 *sync2.Once1[int]
	mustPanic(t, "nil Once1", func() { o1.Do(func() int { calls++; return 1 }) })
	var o2 *sync2.Once2[int, string]
	mustPanic(t, "nil Once2", func() { o2.Do(func() (int, string) { calls++; return 1, "" }) })
	var o3 *sync2.Once3[int, string, bool]
	mustPanic(t, "nil Once3", func() { o3.Do(func() (int, string, bool) { calls++; return 1, "", true }) })
	if calls != 0 {
		t.Fatalf("calls = %d, want 0", calls)
	}
}

// An action that ends its goroutine with runtime.Goexit still is the one
// invocation.
func TestGoexitAction(t *testing.T) {
	for _, d := range newDoers() {
		d := d
		t.Run(d.name, func(t *testing.T) {
			var calls int32
			exited := make(chan struct{})
			go func() {
				defer close(exited)
				d.do(func() triple {
					atomic.AddInt32(&calls, 1)
					runtime.Goexit()
					return valueOf(1)
				})
			}()
			<-exited
			got := d.do(func() triple { atomic.AddInt32(&calls, 1); return valueOf(2) })
			if got != (triple{}) {
				t.Fatalf("Do after Goexit returned %+v, want zero values", got)
			}
			if c := atomic.LoadInt32(&calls); c != 1 {
				t.Fatalf("calls = %d, want 1", c)
			}
		})
	}
}

// The results live in the exported fields: that is where Do stores them and
// where every Do reads them from.
func TestExportedFields(t *testing.T) {
	o1 := &sync2.Once1[string]{R1: "preset"}
	if got := o1.Do(func() string { return "fresh" }); got != "fresh" || o1.R1 != "fresh" {
		t.Fatalf("Once1: Do = %q, R1 = %q", got, o1.R1)
	}
	o1.R1 = "edited"
	if got := o1.Do(func() string { return "again" }); got != "edited" {
		t.Fatalf("Once1: Do after edit = %q", got)
	}

	p1 := &sync2.Once1[string]{R1: "preset"}
	mustPanic(t, "Once1 preset", func() { p1.Do(func() string { panic("x") }) })
	if got := p1.Do(func() string { return "later" }); got != "preset" || p1.R1 != "preset" {
		t.Fatalf("Once1 preset after panic: Do = %q, R1 = %q", got, p1.R1)
	}

	o2 := &sync2.Once2[int, error]{R1: 4}
	errX := fmt.Errorf("x")
	if a, b := o2.Do(func() (int, error) { return 9, errX }); a != 9 || b != errX || o2.R1 != 9 || o2.R2 != errX {
		t.Fatalf("Once2: Do = %d %v, fields %d %v", a, b, o2.R1, o2.R2)
	}
	o2.R2 = nil
	if a, b := o2.Do(func() (int, error) { return 0, nil }); a != 9 || b != nil {
		t.Fatalf("Once2 after edit: Do = %d %v", a, b)
	}
	p2 := &sync2.Once2[int, string]{R1: 4, R2: "keep"}
	mustPanic(t, "Once2 preset", func() { p2.Do(func() (int, string) { panic("x") }) })
	if a, b := p2.Do(func() (int, string) { return 1, "new" }); a != 4 || b != "keep" {
		t.Fatalf("Once2 preset after panic: Do = %d %q", a, b)
	}

	o3 := &sync2.Once3[*int, []byte, map[string]int]{}
	n := 5
	buf := []byte("abc")
	m := map[string]int{"k": 1}
	a, b, c := o3.Do(func() (*int, []byte, map[string]int) { return &n, buf, m })
	if a != &n || &b[0] != &buf[0] || c["k"] != 1 || o3.R1 != &n || &o3.R2[0] != &buf[0] || o3.R3["k"] != 1 {
		t.Fatalf("Once3: results are not the values the action returned")
	}
	a2, b2, c2 := o3.Do(func() (*int, []byte, map[string]int) { return nil, nil, nil })
	if a2 != &n || &b2[0] != &buf[0] || len(c2) != 1 {
		t.Fatalf("Once3: second Do returned other values")
	}
	p3 := &sync2.Once3[int, int, int]{R1: 1, R2: 2, R3: 3}
	mustPanic(t, "Once3 preset", func() { p3.Do(func() (int, int, int) { panic("x") }) })
	if x, y, z := p3.Do(func() (int, int, int) { return 7, 8, 9 }); x != 1 || y != 2 || z != 3 {
		t.Fatalf("Once3 preset after panic: Do = %d %d %d", x, y, z)
	}
}

// Same result types in every position, to catch positions being swapped.
func TestPositions(t *testing.T) {
	var o2 sync2.Once2[int, int]
	if a, b := o2.Do(func() (int, int) { return 1, 2 }); a != 1 || b != 2 || o2.R1 != 1 || o2.R2 != 2 {
		t.Fatalf("Once2 positions: %d %d / %d %d", a, b, o2.R1, o2.R2)
	}
	var o3 sync2.Once3[int, int, int]
	if a, b, c := o3.Do(func() (int, int, int) { return 1, 2, 3 }); a != 1 || b != 2 || c != 3 || o3.R1 != 1 || o3.R2 != 2 || o3.R3 != 3 {
		t.Fatalf("Once3 positions: %d %d %d / %d %d %d", a, b, c, o3.R1, o3.R2, o3.R3)
	}
	if a, b, c := o3.Do(func() (int, int, int) { return 4, 5, 6 }); a != 1 || b != 2 || c != 3 {
		t.Fatalf("Once3 positions on second Do: %d %d %d", a, b, c)
	}
}

// Independent Once values do not share anything.
func TestIndependentValues(t *testing.T) {
	const n = 16
	var os [n]sync2.Once2[int, struct{}]
	var calls [n]int32
	var wg sync.WaitGroup
	for g := 0; g < 4; g++ {
		wg.Add(1)
		go func() {
			defer wg.Done()
			for i := range os {
				i := i
				v, _ := os[i].Do(func() (int, struct{}) {
					atomic.AddInt32(&calls[i], 1)
					return i * 10, struct{}{}
				})
				if v != i*10 {
					t.Errorf("value %d: got %d", i, v)
				}
			}
		}()
	}
	wg.Wait()
	for i := range calls {
		if calls[i] != 1 {
			t.Fatalf("value %d: %d invocations", i, calls[i])
		}
	}
}
