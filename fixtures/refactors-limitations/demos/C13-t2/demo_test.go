package demo

import (
	"fmt"
	"math/rand"
	"reflect"
	"sync"
	"testing"

	"gopkg.in/typ.v4/slices"
)

// ---------------------------------------------------------------------------
// Reference models (written independently of the library code).

func modelChunk(in []int, size int) [][]int {
	var out [][]int
	for start := 0; start < len(in); start += size {
		end := start + size
		if end > len(in) {
			end = len(in)
		}
		out = append(out, in[start:end])
	}
	return out
}

func modelWindowed(in []int, size int) [][]int {
	var out [][]int
	for start := 0; start+size <= len(in); start++ {
		out = append(out, in[start:start+size])
	}
	return out
}

func modelPairs(in []int) [][2]int {
	var out [][2]int
	for i := 1; i < len(in); i++ {
		out = append(out, [2]int{in[i-1], in[i]})
	}
	return out
}

func randInts(rng *rand.Rand, n int) []int {
	// Extra capacity so that cap-related behaviour is exercised too.
	s := make([]int, n, n+rng.Intn(4))
	for i := range s {
		s[i] = rng.Intn(7) // few distinct values => many duplicates
	}
	return s
}

func ceilDiv(n, size int) int {
	c := 0
	for n > 0 {
		n -= size
		c++
	}
	return c
}

// sameBacking reports whether piece is exactly in[off:off+len(piece)] sharing
// the backing array (and thereby the capacity) of in.
func sameBacking(in, piece []int, off int) bool {
	if len(piece) == 0 {
		return true
	}
	return &piece[0] == &in[off] && cap(piece) == cap(in)-off
}

func eqInts(a, b []int) bool {
	if len(a) != len(b) {
		return false
	}
	for i := range a {
		if a[i] != b[i] {
			return false
		}
	}
	return true
}

const maxN = 40

// ---------------------------------------------------------------------------
// Chunk / ChunkFunc

func TestChunkPartitionsExactly(t *testing.T) {
	rng := rand.New(rand.NewSource(13))
	for n := 0; n <= maxN; n++ {
		for size := 1; size <= maxN+5; size++ {
			in := randInts(rng, n)
			orig := append([]int(nil), in...)
			got := slices.Chunk(in, size)
			want := modelChunk(in, size)

			if n == 0 {
				if got != nil {
					t.Fatalf("n=0 size=%d: want nil, got %#v", size, got)
				}
				continue
			}
			if len(got) != ceilDiv(n, size) {
				t.Fatalf("n=%d size=%d: got %d chunks, want %d", n, size, len(got), ceilDiv(n, size))
			}
			if cap(got) != len(got) {
				t.Fatalf("n=%d size=%d: cap %d != len %d", n, size, cap(got), len(got))
			}
			if !reflect.DeepEqual(got, want) {
				t.Fatalf("n=%d size=%d: got %v want %v", n, size, got, want)
			}
			var concat []int
			off := 0
			for i, c := range got {
				if len(c) == 0 {
					t.Fatalf("n=%d size=%d: chunk %d is empty", n, size, i)
				}
				if i < len(got)-1 && len(c) != size {
					t.Fatalf("n=%d size=%d: chunk %d has len %d", n, size, i, len(c))
				}
				if i == len(got)-1 {
					wantLast := n % size
					if wantLast == 0 {
						wantLast = size
					}
					if len(c) != wantLast {
						t.Fatalf("n=%d size=%d: last chunk has len %d want %d", n, size, len(c), wantLast)
					}
				}
				if !sameBacking(in, c, off) {
					t.Fatalf("n=%d size=%d: chunk %d does not alias in[%d:]", n, size, i, off)
				}
				off += len(c)
				concat = append(concat, c...)
			}
			if !reflect.DeepEqual(concat, orig) {
				t.Fatalf("n=%d size=%d: concat %v != input %v", n, size, concat, orig)
			}
			if !eqInts(in, orig) {
				t.Fatalf("n=%d size=%d: input modified", n, size)
			}
		}
	}
}

func TestChunkFuncSameSequenceAsChunk(t *testing.T) {
	rng := rand.New(rand.NewSource(1313))
	for n := 0; n <= maxN; n++ {
		for size := 1; size <= maxN+5; size++ {
			in := randInts(rng, n)
			want := slices.Chunk(in, size)
			var got [][]int
			offs := 0
			slices.ChunkFunc(in, size, func(chunk []int) {
				if !sameBacking(in, chunk, offs) {
					t.Fatalf("n=%d size=%d: callback chunk %d does not alias input", n, size, len(got))
				}
				offs += len(chunk)
				got = append(got, chunk)
			})
			if len(got) != len(want) {
				t.Fatalf("n=%d size=%d: %d callbacks, want %d", n, size, len(got), len(want))
			}
			for i := range got {
				if !reflect.DeepEqual(got[i], want[i]) {
					t.Fatalf("n=%d size=%d: callback %d got %v want %v", n, size, i, got[i], want[i])
				}
			}
			if !reflect.DeepEqual(got, modelChunk(in, size)) && n > 0 {
				t.Fatalf("n=%d size=%d: got %v, model %v", n, size, got, modelChunk(in, size))
			}
		}
	}
}

// ---------------------------------------------------------------------------
// Windowed / WindowedFunc

func TestWindowedAllWindowsInOrder(t *testing.T) {
	rng := rand.New(rand.NewSource(77))
	for n := 0; n <= maxN; n++ {
		for size := 1; size <= maxN+5; size++ {
			in := randInts(rng, n)
			orig := append([]int(nil), in...)
			got := slices.Windowed(in, size)
			want := modelWindowed(in, size)
			if n < size {
				if got != nil {
					t.Fatalf("n=%d size=%d: want nil, got %v", n, size, got)
				}
				continue
			}
			if len(got) != n-size+1 || cap(got) != len(got) {
				t.Fatalf("n=%d size=%d: len %d cap %d, want %d", n, size, len(got), cap(got), n-size+1)
			}
			if !reflect.DeepEqual(got, want) {
				t.Fatalf("n=%d size=%d: got %v want %v", n, size, got, want)
			}
			for i, w := range got {
				if len(w) != size {
					t.Fatalf("n=%d size=%d: window %d has len %d", n, size, i, len(w))
				}
				if !sameBacking(in, w, i) {
					t.Fatalf("n=%d size=%d: window %d does not alias in[%d:]", n, size, i, i)
				}
			}
			if !eqInts(in, orig) {
				t.Fatalf("n=%d size=%d: input modified", n, size)
			}
		}
	}
}

func TestWindowedFuncSameSequenceAsWindowed(t *testing.T) {
	rng := rand.New(rand.NewSource(7777))
	for n := 0; n <= maxN; n++ {
		for size := 1; size <= maxN+5; size++ {
			in := randInts(rng, n)
			want := slices.Windowed(in, size)
			var got [][]int
			slices.WindowedFunc(in, size, func(w []int) {
				if !sameBacking(in, w, len(got)) {
					t.Fatalf("n=%d size=%d: callback window %d does not alias input", n, size, len(got))
				}
				got = append(got, w)
			})
			if len(got) != len(want) {
				t.Fatalf("n=%d size=%d: %d callbacks want %d", n, size, len(got), len(want))
			}
			for i := range got {
				if !reflect.DeepEqual(got[i], want[i]) {
					t.Fatalf("n=%d size=%d: callback %d got %v want %v", n, size, i, got[i], want[i])
				}
			}
			if len(got) != len(modelWindowed(in, size)) {
				t.Fatalf("n=%d size=%d: model mismatch", n, size)
			}
		}
	}
}

func TestWindowedSizeZeroKeepsLegacyBehaviour(t *testing.T) {
	// Outside the property (size >= 1) but observable: n+1 empty windows.
	for n := 0; n <= 5; n++ {
		in := make([]int, n)
		got := slices.Windowed(in, 0)
		if len(got) != n+1 {
			t.Fatalf("n=%d: got %d windows", n, len(got))
		}
		for _, w := range got {
			if len(w) != 0 {
				t.Fatalf("n=%d: non-empty window %v", n, w)
			}
		}
		calls := 0
		slices.WindowedFunc(in, 0, func(w []int) {
			if len(w) != 0 {
				t.Fatalf("n=%d: non-empty window %v", n, w)
			}
			calls++
		})
		if calls != n+1 {
			t.Fatalf("n=%d: %d calls", n, calls)
		}
	}
}

// ---------------------------------------------------------------------------
// Pairs / PairsFunc

func TestPairsAdjacentInOrder(t *testing.T) {
	rng := rand.New(rand.NewSource(99))
	for n := 0; n <= maxN; n++ {
		for rep := 0; rep < 5; rep++ {
			in := randInts(rng, n)
			orig := append([]int(nil), in...)
			got := slices.Pairs(in)
			want := modelPairs(in)
			if n < 2 {
				if got != nil {
					t.Fatalf("n=%d: want nil got %v", n, got)
				}
			} else {
				if len(got) != n-1 || cap(got) != n-1 {
					t.Fatalf("n=%d: len %d cap %d", n, len(got), cap(got))
				}
				if !reflect.DeepEqual(got, want) {
					t.Fatalf("n=%d: got %v want %v", n, got, want)
				}
				// Pairs are copies: mutating them must not touch the input.
				for i := range got {
					got[i][0], got[i][1] = -1, -1
				}
			}
			if !eqInts(in, orig) {
				t.Fatalf("n=%d: input modified", n)
			}

			var cb [][2]int
			slices.PairsFunc(in, func(a, b int) { cb = append(cb, [2]int{a, b}) })
			if !reflect.DeepEqual(cb, want) {
				t.Fatalf("n=%d: PairsFunc got %v want %v", n, cb, want)
			}
			if !reflect.DeepEqual(cb, slices.Pairs(in)) {
				t.Fatalf("n=%d: PairsFunc differs from Pairs", n)
			}
		}
	}
}

func TestPairsFuncSeesCallbackWrites(t *testing.T) {
	// PairsFunc reads the slice lazily: a write done by the callback to a
	// later element is visible in subsequent invocations.
	in := []int{1, 2, 3, 4}
	var got [][2]int
	slices.PairsFunc(in, func(a, b int) {
		got = append(got, [2]int{a, b})
		for i := range in {
			in[i] += 10
		}
	})
	want := [][2]int{{1, 2}, {12, 13}, {23, 24}}
	if !reflect.DeepEqual(got, want) {
		t.Fatalf("got %v want %v", got, want)
	}
}

// ---------------------------------------------------------------------------
// Named slice types, other element types

type IDs []string

type point struct {
	X, Y int
	Tag  string
}

func TestNamedSliceAndElementTypes(t *testing.T) {
	ids := IDs{"a", "b", "c", "d", "e"}
	var chunks []IDs = slices.Chunk(ids, 3)
	if !reflect.DeepEqual(chunks, []IDs{{"a", "b", "c"}, {"d", "e"}}) {
		t.Fatalf("chunks: %v", chunks)
	}
	chunks = slices.Chunk(ids, 2)
	if !reflect.DeepEqual(chunks, []IDs{{"a", "b"}, {"c", "d"}, {"e"}}) {
		t.Fatalf("chunks: %v", chunks)
	}
	chunks = slices.Chunk(ids, 5)
	if !reflect.DeepEqual(chunks, []IDs{{"a", "b", "c", "d", "e"}}) {
		t.Fatalf("chunks: %v", chunks)
	}
	chunks = slices.Chunk(ids, 9)
	if !reflect.DeepEqual(chunks, []IDs{{"a", "b", "c", "d", "e"}}) {
		t.Fatalf("chunks: %v", chunks)
	}
	var windows []IDs = slices.Windowed(ids, 4)
	if !reflect.DeepEqual(windows, []IDs{{"a", "b", "c", "d"}, {"b", "c", "d", "e"}}) {
		t.Fatalf("windows: %v", windows)
	}
	pairs := slices.Pairs(ids)
	if !reflect.DeepEqual(pairs, [][2]string{{"a", "b"}, {"b", "c"}, {"c", "d"}, {"d", "e"}}) {
		t.Fatalf("pairs: %v", pairs)
	}
	var cbChunks []IDs
	slices.ChunkFunc(ids, 2, func(c IDs) { cbChunks = append(cbChunks, c) })
	if !reflect.DeepEqual(cbChunks, slices.Chunk(ids, 2)) {
		t.Fatalf("cb chunks: %v", cbChunks)
	}
	var cbWindows []IDs
	slices.WindowedFunc(ids, 4, func(w IDs) { cbWindows = append(cbWindows, w) })
	if !reflect.DeepEqual(cbWindows, windows) {
		t.Fatalf("cb windows: %v", cbWindows)
	}

	// nil / empty named slices
	if got := slices.Chunk(IDs(nil), 3); got != nil {
		t.Fatalf("nil chunk: %v", got)
	}
	if got := slices.Chunk(IDs{}, 3); got != nil {
		t.Fatalf("empty chunk: %v", got)
	}
	if got := slices.Windowed(IDs(nil), 1); got != nil {
		t.Fatalf("nil windowed: %v", got)
	}
	if got := slices.Pairs(IDs(nil)); got != nil {
		t.Fatalf("nil pairs: %v", got)
	}
	if got := slices.Pairs(IDs{"x"}); got != nil {
		t.Fatalf("single pairs: %v", got)
	}
	slices.ChunkFunc(IDs(nil), 3, func(IDs) { t.Fatal("callback on nil") })
	slices.WindowedFunc(IDs(nil), 1, func(IDs) { t.Fatal("callback on nil") })
	slices.PairsFunc(IDs{"x"}, func(a, b string) { t.Fatal("callback on single") })
	// Empty slice never divides, even with size 0.
	if got := slices.Chunk(IDs(nil), 0); got != nil {
		t.Fatalf("nil chunk size 0: %v", got)
	}
	slices.ChunkFunc(IDs{}, 0, func(IDs) { t.Fatal("callback on empty") })

	rng := rand.New(rand.NewSource(5))
	pts := make([]point, 23)
	for i := range pts {
		pts[i] = point{rng.Intn(3), rng.Intn(3), fmt.Sprint(i)}
	}
	for size := 1; size <= 25; size++ {
		var cat []point
		for _, c := range slices.Chunk(pts, size) {
			cat = append(cat, c...)
		}
		if !reflect.DeepEqual(cat, pts) {
			t.Fatalf("size=%d: struct chunks do not concat to input", size)
		}
	}
	pp := slices.Pairs(pts)
	for i := range pp {
		if pp[i][0] != pts[i] || pp[i][1] != pts[i+1] {
			t.Fatalf("struct pair %d wrong", i)
		}
	}
}

// ---------------------------------------------------------------------------
// Pieces alias the input (writes through a piece are visible in the input).

func TestPiecesAreViews(t *testing.T) {
	in := []int{0, 1, 2, 3, 4, 5, 6}
	for _, c := range slices.Chunk(in, 3) {
		for i := range c {
			c[i] += 100
		}
	}
	if !reflect.DeepEqual(in, []int{100, 101, 102, 103, 104, 105, 106}) {
		t.Fatalf("chunk writes not visible: %v", in)
	}
	w := slices.Windowed(in, 2)
	w[0][1] = -1
	if in[1] != -1 || w[1][0] != -1 {
		t.Fatalf("window writes not visible: %v", in)
	}
}

// ---------------------------------------------------------------------------
// Panics that exist today on invalid sizes must remain panics.

func panics(f func()) (p bool) {
	defer func() {
		if recover() != nil {
			p = true
		}
	}()
	f()
	return false
}

func TestInvalidSizesStillPanic(t *testing.T) {
	in := []int{1, 2, 3, 4, 5}
	nop := func([]int) {}
	cases := map[string]func(){
		"Chunk size 0":         func() { slices.Chunk(in, 0) },
		"ChunkFunc size 0":     func() { slices.ChunkFunc(in, 0, nop) },
		"Chunk size -2":        func() { slices.Chunk(in, -2) },
		"Chunk size -5":        func() { slices.Chunk(in, -5) },
		"Chunk size -1":        func() { slices.Chunk(in, -1) },
		"ChunkFunc size -2":    func() { slices.ChunkFunc(in, -2, nop) },
		"Windowed size -1":     func() { slices.Windowed(in, -1) },
		"WindowedFunc size -1": func() { slices.WindowedFunc(in, -1, nop) },
	}
	for name, f := range cases {
		if !panics(f) {
			t.Errorf("%s: expected panic", name)
		}
	}
}

// ---------------------------------------------------------------------------
// Concurrent read-only use of one shared slice is race free and correct.

func TestConcurrentReaders(t *testing.T) {
	rng := rand.New(rand.NewSource(4242))
	in := randInts(rng, 37)
	wantPairs := modelPairs(in)
	var wg sync.WaitGroup
	errs := make(chan string, 64)
	for g := 0; g < 8; g++ {
		wg.Add(1)
		go func(g int) {
			defer wg.Done()
			for size := 1; size <= 40; size++ {
				if got, want := slices.Chunk(in, size), modelChunk(in, size); !reflect.DeepEqual(got, want) {
					errs <- fmt.Sprintf("g%d chunk size=%d", g, size)
					return
				}
				var cb [][]int
				slices.ChunkFunc(in, size, func(c []int) { cb = append(cb, c) })
				if !reflect.DeepEqual(cb, modelChunk(in, size)) {
					errs <- fmt.Sprintf("g%d chunkfunc size=%d", g, size)
					return
				}
				got, want := slices.Windowed(in, size), modelWindowed(in, size)
				if len(got) != len(want) || (len(want) > 0 && !reflect.DeepEqual(got, want)) {
					errs <- fmt.Sprintf("g%d windowed size=%d", g, size)
					return
				}
				var cw [][]int
				slices.WindowedFunc(in, size, func(w []int) { cw = append(cw, w) })
				if len(cw) != len(want) || (len(want) > 0 && !reflect.DeepEqual(cw, want)) {
					errs <- fmt.Sprintf("g%d windowedfunc size=%d", g, size)
					return
				}
			}
			if !reflect.DeepEqual(slices.Pairs(in), wantPairs) {
				errs <- fmt.Sprintf("g%d pairs", g)
				return
			}
			var cp [][2]int
			slices.PairsFunc(in, func(a, b int) { cp = append(cp, [2]int{a, b}) })
			if !reflect.DeepEqual(cp, wantPairs) {
				errs <- fmt.Sprintf("g%d pairsfunc", g)
			}
		}(g)
	}
	wg.Wait()
	close(errs)
	for e := range errs {
		t.Error(e)
	}
}
