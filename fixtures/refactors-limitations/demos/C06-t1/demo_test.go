package demo

import (
	"container/list"
	"container/ring"
	"fmt"
	"math/rand"
	"reflect"
	"sync"
	"testing"

	"gopkg.in/typ.v4/lists"
)

// ---------------------------------------------------------------------------
// List: lock-step model test against container/list
// ---------------------------------------------------------------------------

type listPair struct {
	o *lists.List[int]
	s *list.List
}

type elemPair struct {
	o     *lists.Element[int]
	s     *list.Element
	stale bool // belonged to a list that was re-Init'ed; only observed, never used as argument
}

type listHarness struct {
	t     testing.TB
	rng   *rand.Rand
	ls    []listPair
	es    []elemPair
	oIdx  map[*lists.Element[int]]int
	sIdx  map[*list.Element]int
	next  int // next value to insert
	trace []string
}

func newListHarness(t testing.TB, seed int64) *listHarness {
	h := &listHarness{
		t:    t,
		rng:  rand.New(rand.NewSource(seed)),
		oIdx: map[*lists.Element[int]]int{},
		sIdx: map[*list.Element]int{},
	}
	h.ls = []listPair{
		{lists.New[int](), list.New()},
		{new(lists.List[int]), new(list.List)}, // zero values
		{&lists.List[int]{}, &list.List{}},     // zero values
		{lists.New[int](), list.New()},
	}
	// two handles that never belonged to any list
	h.register(&lists.Element[int]{Value: -1}, &list.Element{Value: -1})
	h.register(&lists.Element[int]{Value: -2}, &list.Element{Value: -2})
	return h
}

func (h *listHarness) logf(format string, args ...interface{}) {
	h.trace = append(h.trace, fmt.Sprintf(format, args...))
	if len(h.trace) > 40 {
		h.trace = h.trace[1:]
	}
}

func (h *listHarness) failf(format string, args ...interface{}) {
	h.t.Helper()
	for _, s := range h.trace {
		h.t.Log(s)
	}
	h.t.Fatalf(format, args...)
}

func (h *listHarness) register(o *lists.Element[int], s *list.Element) int {
	i := len(h.es)
	h.es = append(h.es, elemPair{o: o, s: s})
	h.oIdx[o] = i
	h.sIdx[s] = i
	return i
}

// idxO / idxS map an element to its handle index; -1 is nil, -2 is unknown.
func (h *listHarness) idxO(e *lists.Element[int]) int {
	if e == nil {
		return -1
	}
	if i, ok := h.oIdx[e]; ok {
		return i
	}
	return -2
}

func (h *listHarness) idxS(e *list.Element) int {
	if e == nil {
		return -1
	}
	if i, ok := h.sIdx[e]; ok {
		return i
	}
	return -2
}

// sameNew checks the result of an inserting operation and registers it.
func (h *listHarness) sameNew(op string, o *lists.Element[int], s *list.Element) {
	h.t.Helper()
	if (o == nil) != (s == nil) {
		h.failf("%s: nil-ness differs: ours %v, std %v", op, o == nil, s == nil)
	}
	if o == nil {
		return
	}
	if h.idxO(o) != -2 || h.idxS(s) != -2 {
		h.failf("%s: returned an already known element: ours %d std %d", op, h.idxO(o), h.idxS(s))
	}
	if o.Value != s.Value.(int) {
		h.failf("%s: new element value ours %d, std %v", op, o.Value, s.Value)
	}
	h.register(o, s)
}

func (h *listHarness) pickElem() int {
	for {
		i := h.rng.Intn(len(h.es))
		if !h.es[i].stale {
			return i
		}
	}
}

// pickLive prefers a live element of list k (falls back to any handle).
func (h *listHarness) pickLive(k int) int {
	n := h.ls[k].o.Len()
	if n == 0 {
		return h.pickElem()
	}
	e := h.ls[k].o.Front()
	for j := h.rng.Intn(n); j > 0; j-- {
		e = e.Next()
	}
	i := h.idxO(e)
	if i < 0 || h.es[i].stale {
		return h.pickElem()
	}
	return i
}

func (h *listHarness) pick(k int) int {
	if h.rng.Intn(3) == 0 {
		return h.pickElem() // live, removed, foreign, never inserted
	}
	return h.pickLive(k)
}

func (h *listHarness) step() {
	k := h.rng.Intn(len(h.ls))
	l := h.ls[k]
	h.next++
	v := h.next
	switch op := h.rng.Intn(100); {
	case op < 10:
		h.logf("l%d.PushFront(%d)", k, v)
		h.sameNew("PushFront", l.o.PushFront(v), l.s.PushFront(v))
	case op < 20:
		h.logf("l%d.PushBack(%d)", k, v)
		h.sameNew("PushBack", l.o.PushBack(v), l.s.PushBack(v))
	case op < 28:
		m := h.pick(k)
		h.logf("l%d.InsertBefore(%d, e%d)", k, v, m)
		h.sameNew("InsertBefore", l.o.InsertBefore(v, h.es[m].o), l.s.InsertBefore(v, h.es[m].s))
	case op < 36:
		m := h.pick(k)
		h.logf("l%d.InsertAfter(%d, e%d)", k, v, m)
		h.sameNew("InsertAfter", l.o.InsertAfter(v, h.es[m].o), l.s.InsertAfter(v, h.es[m].s))
	case op < 50:
		m := h.pick(k)
		h.logf("l%d.Remove(e%d)", k, m)
		ov, sv := l.o.Remove(h.es[m].o), l.s.Remove(h.es[m].s)
		if ov != sv.(int) {
			h.failf("Remove: ours %d, std %v", ov, sv)
		}
	case op < 57:
		m := h.pick(k)
		h.logf("l%d.MoveToFront(e%d)", k, m)
		l.o.MoveToFront(h.es[m].o)
		l.s.MoveToFront(h.es[m].s)
	case op < 64:
		m := h.pick(k)
		h.logf("l%d.MoveToBack(e%d)", k, m)
		l.o.MoveToBack(h.es[m].o)
		l.s.MoveToBack(h.es[m].s)
	case op < 73:
		e, m := h.pick(k), h.pick(k)
		h.logf("l%d.MoveBefore(e%d, e%d)", k, e, m)
		l.o.MoveBefore(h.es[e].o, h.es[m].o)
		l.s.MoveBefore(h.es[e].s, h.es[m].s)
	case op < 82:
		e, m := h.pick(k), h.pick(k)
		h.logf("l%d.MoveAfter(e%d, e%d)", k, e, m)
		l.o.MoveAfter(h.es[e].o, h.es[m].o)
		l.s.MoveAfter(h.es[e].s, h.es[m].s)
	case op < 90:
		j := h.rng.Intn(len(h.ls))
		if h.rng.Intn(3) == 0 {
			j = k // onto itself
		}
		if l.o.Len()+h.ls[j].o.Len() > 96 {
			h.shrink(k)
			return
		}
		if h.rng.Intn(2) == 0 {
			h.logf("l%d.PushBackList(l%d)", k, j)
			l.o.PushBackList(h.ls[j].o)
			l.s.PushBackList(h.ls[j].s)
		} else {
			h.logf("l%d.PushFrontList(l%d)", k, j)
			l.o.PushFrontList(h.ls[j].o)
			l.s.PushFrontList(h.ls[j].s)
		}
		h.adopt(k)
	case op < 92:
		h.logf("l%d.Init()", k)
		for e := l.o.Front(); e != nil; e = e.Next() {
			h.es[h.idxO(e)].stale = true
		}
		if l.o.Init() != l.o || l.s.Init() != l.s {
			h.failf("Init does not return its receiver")
		}
	default:
		h.shrink(k)
	}
}

// shrink removes a few live elements from list k through Front/Back.
func (h *listHarness) shrink(k int) {
	l := h.ls[k]
	for n := h.rng.Intn(4); n > 0 && l.o.Len() > 0; n-- {
		h.logf("l%d.Remove(front/back)", k)
		if h.rng.Intn(2) == 0 {
			of, sf := l.o.Front(), l.s.Front()
			if h.idxO(of) != h.idxS(sf) {
				h.failf("Front differs: ours e%d std e%d", h.idxO(of), h.idxS(sf))
			}
			if ov, sv := l.o.Remove(of), l.s.Remove(sf); ov != sv.(int) {
				h.failf("Remove(Front): ours %d std %v", ov, sv)
			}
		} else {
			ob, sb := l.o.Back(), l.s.Back()
			if h.idxO(ob) != h.idxS(sb) {
				h.failf("Back differs: ours e%d std e%d", h.idxO(ob), h.idxS(sb))
			}
			if ov, sv := l.o.Remove(ob), l.s.Remove(sb); ov != sv.(int) {
				h.failf("Remove(Back): ours %d std %v", ov, sv)
			}
		}
	}
}

// adopt registers the elements created by PushBackList/PushFrontList, walking
// both lists in lock-step.
func (h *listHarness) adopt(k int) {
	l := h.ls[k]
	if l.o.Len() != l.s.Len() {
		h.failf("l%d: Len ours %d, std %d", k, l.o.Len(), l.s.Len())
	}
	oe, se := l.o.Front(), l.s.Front()
	for i := 0; i < l.o.Len(); i++ {
		if oe == nil || se == nil {
			h.failf("l%d: traversal ended early at %d", k, i)
		}
		io, is := h.idxO(oe), h.idxS(se)
		if io != is {
			h.failf("l%d: element %d is ours e%d, std e%d", k, i, io, is)
		}
		if io == -2 {
			if oe.Value != se.Value.(int) {
				h.failf("l%d: new element %d value ours %d std %v", k, i, oe.Value, se.Value)
			}
			h.register(oe, se)
		}
		oe, se = oe.Next(), se.Next()
	}
}

func (h *listHarness) check() {
	h.t.Helper()
	for k, l := range h.ls {
		if l.o.Len() != l.s.Len() {
			h.failf("l%d: Len ours %d, std %d", k, l.o.Len(), l.s.Len())
		}
		n := l.s.Len()
		if h.idxO(l.o.Front()) != h.idxS(l.s.Front()) {
			h.failf("l%d: Front ours e%d, std e%d", k, h.idxO(l.o.Front()), h.idxS(l.s.Front()))
		}
		if h.idxO(l.o.Back()) != h.idxS(l.s.Back()) {
			h.failf("l%d: Back ours e%d, std e%d", k, h.idxO(l.o.Back()), h.idxS(l.s.Back()))
		}
		// forward
		var fo, fs []int
		for e, c := l.o.Front(), 0; e != nil && c <= n+2; e, c = e.Next(), c+1 {
			fo = append(fo, h.idxO(e), e.Value)
		}
		for e, c := l.s.Front(), 0; e != nil && c <= n+2; e, c = e.Next(), c+1 {
			fs = append(fs, h.idxS(e), e.Value.(int))
		}
		if !reflect.DeepEqual(fo, fs) {
			h.failf("l%d: forward traversal differs:\nours %v\nstd  %v", k, fo, fs)
		}
		if len(fs) != 2*n {
			h.failf("l%d: forward traversal has %d elements, Len is %d", k, len(fs)/2, n)
		}
		// backward
		var bo, bs []int
		for e, c := l.o.Back(), 0; e != nil && c <= n+2; e, c = e.Prev(), c+1 {
			bo = append(bo, h.idxO(e), e.Value)
		}
		for e, c := l.s.Back(), 0; e != nil && c <= n+2; e, c = e.Prev(), c+1 {
			bs = append(bs, h.idxS(e), e.Value.(int))
		}
		if !reflect.DeepEqual(bo, bs) {
			h.failf("l%d: backward traversal differs:\nours %v\nstd  %v", k, bo, bs)
		}
		if len(bs) != 2*n {
			h.failf("l%d: backward traversal has %d elements, Len is %d", k, len(bs)/2, n)
		}
	}
	// neighbours of every handle, live or not
	for i, e := range h.es {
		if a, b := h.idxO(e.o.Next()), h.idxS(e.s.Next()); a != b {
			h.failf("e%d.Next(): ours e%d, std e%d", i, a, b)
		}
		if a, b := h.idxO(e.o.Prev()), h.idxS(e.s.Prev()); a != b {
			h.failf("e%d.Prev(): ours e%d, std e%d", i, a, b)
		}
		if e.o.Value != e.s.Value.(int) {
			h.failf("e%d.Value: ours %d, std %v", i, e.o.Value, e.s.Value)
		}
	}
}

func runListModel(t testing.TB, seed int64, steps int) {
	h := newListHarness(t, seed)
	h.check()
	for i := 0; i < steps; i++ {
		h.step()
		h.check()
	}
}

func TestListLockStep(t *testing.T) {
	for seed := int64(1); seed <= 30; seed++ {
		runListModel(t, seed, 700)
	}
}

func values(l *lists.List[int]) []int {
	out := []int{}
	for e := l.Front(); e != nil; e = e.Next() {
		out = append(out, e.Value)
	}
	return out
}

func valuesBack(l *lists.List[int]) []int {
	out := []int{}
	for e := l.Back(); e != nil; e = e.Prev() {
		out = append(out, e.Value)
	}
	return out
}

func wantList(t *testing.T, what string, l *lists.List[int], want ...int) {
	t.Helper()
	if want == nil {
		want = []int{}
	}
	if l.Len() != len(want) {
		t.Fatalf("%s: Len = %d, want %d", what, l.Len(), len(want))
	}
	if got := values(l); !reflect.DeepEqual(got, want) {
		t.Fatalf("%s: forward = %v, want %v", what, got, want)
	}
	rev := make([]int, len(want))
	for i, v := range want {
		rev[len(want)-1-i] = v
	}
	if got := valuesBack(l); !reflect.DeepEqual(got, rev) {
		t.Fatalf("%s: backward = %v, want %v", what, got, rev)
	}
}

func TestListEdgeCases(t *testing.T) {
	// zero value list
	var z lists.List[int]
	wantList(t, "zero", &z)
	if z.Front() != nil || z.Back() != nil {
		t.Fatalf("zero list has Front/Back")
	}
	var z2 lists.List[int]
	z.PushBackList(&z2)
	z.PushFrontList(&z2)
	z.PushBackList(&z)
	z.PushFrontList(&z)
	wantList(t, "zero after pushing empty lists", &z)
	wantList(t, "zero other untouched", &z2)

	var never lists.Element[int]
	never.Value = 42
	if never.Next() != nil || never.Prev() != nil {
		t.Fatalf("free element has neighbours")
	}
	if z.InsertBefore(1, &never) != nil || z.InsertAfter(1, &never) != nil {
		t.Fatalf("insert next to a free element succeeded")
	}
	z.MoveToFront(&never)
	z.MoveToBack(&never)
	z.MoveBefore(&never, &never)
	z.MoveAfter(&never, &never)
	if z.Remove(&never) != 42 {
		t.Fatalf("Remove(free) did not return the value")
	}
	wantList(t, "zero after free-element ops", &z)

	// lazily initialised by each of the four entry points
	var a, b, c, d lists.List[int]
	a.PushFront(1)
	b.PushBack(1)
	c.PushBackList(&a)
	d.PushFrontList(&a)
	for i, l := range []*lists.List[int]{&a, &b, &c, &d} {
		wantList(t, fmt.Sprint("lazy ", i), l, 1)
	}

	// self push
	l := lists.New[int]()
	e1 := l.PushBack(1)
	e2 := l.PushBack(2)
	e3 := l.PushBack(3)
	l.PushBackList(l)
	wantList(t, "PushBackList(self)", l, 1, 2, 3, 1, 2, 3)
	l.PushFrontList(l)
	wantList(t, "PushFrontList(self)", l, 1, 2, 3, 1, 2, 3, 1, 2, 3, 1, 2, 3)
	if l.Front() == e1 || e1.Prev() == nil || e1.Prev().Value != 3 {
		t.Fatalf("original elements were moved by self push")
	}
	if e3.Next() == nil || e3.Next().Value != 1 || e2.Next() != e3 || e2.Prev() != e1 {
		t.Fatalf("original neighbours changed")
	}

	// copies, not the same elements
	src := lists.New[int]()
	s1 := src.PushBack(10)
	src.PushBack(20)
	dst := lists.New[int]()
	dst.PushBack(5)
	dst.PushBackList(src)
	dst.PushFrontList(src)
	wantList(t, "dst", dst, 10, 20, 5, 10, 20)
	wantList(t, "src", src, 10, 20)
	for e := dst.Front(); e != nil; e = e.Next() {
		if e == s1 {
			t.Fatalf("PushBackList shared an element")
		}
	}

	// removed and foreign handles leave the list alone
	r := dst.Front()
	if dst.Remove(r) != 10 {
		t.Fatalf("Remove value")
	}
	if r.Next() != nil || r.Prev() != nil {
		t.Fatalf("removed element keeps neighbours")
	}
	if dst.Remove(r) != 10 { // second remove is a no-op
		t.Fatalf("Remove value (2nd)")
	}
	wantList(t, "dst after remove", dst, 20, 5, 10, 20)
	if dst.InsertBefore(7, r) != nil || dst.InsertAfter(7, r) != nil ||
		dst.InsertBefore(7, s1) != nil || dst.InsertAfter(7, s1) != nil {
		t.Fatalf("insert next to removed/foreign mark succeeded")
	}
	dst.MoveToFront(r)
	dst.MoveToBack(s1)
	dst.MoveBefore(r, dst.Front())
	dst.MoveBefore(dst.Front(), r)
	dst.MoveAfter(s1, dst.Front())
	dst.MoveAfter(dst.Front(), s1)
	if dst.Remove(s1) != 10 {
		t.Fatalf("Remove(foreign) value")
	}
	wantList(t, "dst after foreign ops", dst, 20, 5, 10, 20)
	wantList(t, "src after foreign ops", src, 10, 20)

	// moves
	f, bk := dst.Front(), dst.Back()
	dst.MoveToFront(f)
	dst.MoveToBack(bk)
	dst.MoveBefore(f, f)
	dst.MoveAfter(bk, bk)
	wantList(t, "no-op moves", dst, 20, 5, 10, 20)
	dst.MoveToBack(f)
	wantList(t, "MoveToBack", dst, 5, 10, 20, 20)
	dst.MoveToFront(bk)
	wantList(t, "MoveToFront", dst, 20, 5, 10, 20)
	dst.MoveAfter(bk, f)
	wantList(t, "MoveAfter", dst, 5, 10, 20, 20)
	dst.MoveBefore(f, bk)
	wantList(t, "MoveBefore", dst, 5, 10, 20, 20)
	dst.MoveBefore(f, dst.Front())
	wantList(t, "MoveBefore front", dst, 20, 5, 10, 20)
	if dst.Init() != dst {
		t.Fatalf("Init result")
	}
	wantList(t, "Init", dst)
}

// ---------------------------------------------------------------------------
// Ring: lock-step model test against container/ring
// ---------------------------------------------------------------------------

type ringPair struct {
	o *lists.Ring[int]
	s *ring.Ring
}

type ringHarness struct {
	t     testing.TB
	rng   *rand.Rand
	rs    []ringPair
	oIdx  map[*lists.Ring[int]]int
	sIdx  map[*ring.Ring]int
	trace []string
}

func newRingHarness(t testing.TB, seed int64) *ringHarness {
	return &ringHarness{
		t:    t,
		rng:  rand.New(rand.NewSource(seed)),
		oIdx: map[*lists.Ring[int]]int{},
		sIdx: map[*ring.Ring]int{},
	}
}

func (h *ringHarness) logf(format string, args ...interface{}) {
	h.trace = append(h.trace, fmt.Sprintf(format, args...))
	if len(h.trace) > 40 {
		h.trace = h.trace[1:]
	}
}

func (h *ringHarness) failf(format string, args ...interface{}) {
	h.t.Helper()
	for _, s := range h.trace {
		h.t.Log(s)
	}
	h.t.Fatalf(format, args...)
}

func (h *ringHarness) idxO(r *lists.Ring[int]) int {
	if r == nil {
		return -1
	}
	if i, ok := h.oIdx[r]; ok {
		return i
	}
	return -2
}

func (h *ringHarness) idxS(r *ring.Ring) int {
	if r == nil {
		return -1
	}
	if i, ok := h.sIdx[r]; ok {
		return i
	}
	return -2
}

func (h *ringHarness) register(o *lists.Ring[int], s *ring.Ring) {
	i := len(h.rs)
	h.rs = append(h.rs, ringPair{o, s})
	h.oIdx[o] = i
	h.sIdx[s] = i
	o.Value = i
	s.Value = i
}

func (h *ringHarness) same(op string, o *lists.Ring[int], s *ring.Ring) {
	h.t.Helper()
	if a, b := h.idxO(o), h.idxS(s); a != b || a == -2 {
		h.failf("%s: ours r%d, std r%d", op, a, b)
	}
}

func (h *ringHarness) newRing(n int) {
	h.logf("NewRing(%d)", n)
	o, s := lists.NewRing[int](n), ring.New(n)
	if (o == nil) != (s == nil) {
		h.failf("NewRing(%d): nil-ness ours %v std %v", n, o == nil, s == nil)
	}
	if o == nil {
		return
	}
	if o.Len() != s.Len() || o.Len() != n {
		h.failf("NewRing(%d): Len ours %d std %d", n, o.Len(), s.Len())
	}
	po, ps := o, s
	for i := 0; i < n; i++ {
		if h.idxO(po) != -2 || h.idxS(ps) != -2 {
			h.failf("NewRing(%d): element %d already known", n, i)
		}
		if po.Value != 0 || ps.Value != nil {
			h.failf("NewRing(%d): element %d has a value", n, i)
		}
		h.register(po, ps)
		po, ps = po.Next(), ps.Next()
	}
	if po != o || ps != s {
		h.failf("NewRing(%d): not circular after n steps", n)
	}
}

func (h *ringHarness) step() {
	if len(h.rs) == 0 || h.rng.Intn(12) == 0 {
		if len(h.rs) < 150 {
			if h.rng.Intn(3) == 0 {
				h.logf("zero ring")
				h.register(new(lists.Ring[int]), new(ring.Ring))
			} else {
				h.newRing(h.rng.Intn(8) - 1)
			}
			return
		}
	}
	i := h.rng.Intn(len(h.rs))
	r := h.rs[i]
	switch op := h.rng.Intn(100); {
	case op < 8:
		h.logf("r%d.Next()", i)
		h.same("Next", r.o.Next(), r.s.Next())
	case op < 16:
		h.logf("r%d.Prev()", i)
		h.same("Prev", r.o.Prev(), r.s.Prev())
	case op < 30:
		n := h.rng.Intn(23) - 11
		h.logf("r%d.Move(%d)", i, n)
		h.same("Move", r.o.Move(n), r.s.Move(n))
	case op < 60:
		j := h.rng.Intn(len(h.rs)+1) - 1
		if j < 0 {
			h.logf("r%d.Link(nil)", i)
			h.same("Link(nil)", r.o.Link(nil), r.s.Link(nil))
		} else {
			h.logf("r%d.Link(r%d)", i, j)
			h.same("Link", r.o.Link(h.rs[j].o), r.s.Link(h.rs[j].s))
		}
	case op < 80:
		n := h.rng.Intn(14) - 3
		h.logf("r%d.Unlink(%d)", i, n)
		h.same("Unlink", r.o.Unlink(n), r.s.Unlink(n))
	case op < 90:
		h.logf("r%d.Len()", i)
		if a, b := r.o.Len(), r.s.Len(); a != b {
			h.failf("Len: ours %d, std %d", a, b)
		}
	default:
		h.logf("r%d.Do()", i)
		h.sameDo(i)
	}
}

func (h *ringHarness) sameDo(i int) {
	h.t.Helper()
	var a, b []int
	h.rs[i].o.Do(func(v int) { a = append(a, v) })
	h.rs[i].s.Do(func(v interface{}) { b = append(b, v.(int)) })
	if !reflect.DeepEqual(a, b) {
		h.failf("r%d.Do: ours %v, std %v", i, a, b)
	}
	if len(a) == 0 || a[0] != i {
		h.failf("r%d.Do: does not start at the receiver: %v", i, a)
	}
}

// check observes every handle. lazy: if false, zero rings that were never
// touched are left alone so that the lazy initialisation paths of the other
// operations stay reachable.
func (h *ringHarness) check(full bool) {
	h.t.Helper()
	for i, r := range h.rs {
		if !full && h.rng.Intn(4) != 0 {
			continue
		}
		h.same(fmt.Sprintf("r%d.Next", i), r.o.Next(), r.s.Next())
		h.same(fmt.Sprintf("r%d.Prev", i), r.o.Prev(), r.s.Prev())
		if r.o.Value != r.s.Value.(int) || r.o.Value != i {
			h.failf("r%d.Value: ours %d std %v", i, r.o.Value, r.s.Value)
		}
		if full {
			if a, b := r.o.Len(), r.s.Len(); a != b {
				h.failf("r%d.Len: ours %d, std %d", i, a, b)
			}
			h.sameDo(i)
			// backward traversal
			var a, b []int
			n := r.s.Len()
			for p, c := r.o.Prev(), 0; p != r.o && c <= n; p, c = p.Prev(), c+1 {
				a = append(a, h.idxO(p))
			}
			for p, c := r.s.Prev(), 0; p != r.s && c <= n; p, c = p.Prev(), c+1 {
				b = append(b, h.idxS(p))
			}
			if !reflect.DeepEqual(a, b) || len(a) != n-1 {
				h.failf("r%d backward: ours %v, std %v (len %d)", i, a, b, n)
			}
		}
	}
}

func runRingModel(t testing.TB, seed int64, steps int) {
	h := newRingHarness(t, seed)
	for i := 0; i < steps; i++ {
		h.step()
		switch {
		case i%10 == 9:
			h.check(true)
		case i%3 == 0:
			h.check(false)
		}
	}
	h.check(true)
}

func TestRingLockStep(t *testing.T) {
	for seed := int64(1); seed <= 30; seed++ {
		runRingModel(t, seed, 600)
	}
}

func ringSeq(r *lists.Ring[int]) []int {
	out := []int{}
	r.Do(func(v int) { out = append(out, v) })
	return out
}

func makeRing(vals ...int) *lists.Ring[int] {
	r := lists.NewRing[int](len(vals))
	for _, v := range vals {
		r.Value = v
		r = r.Next()
	}
	return r
}

func wantRing(t *testing.T, what string, r *lists.Ring[int], want ...int) {
	t.Helper()
	if want == nil {
		want = []int{}
	}
	if r.Len() != len(want) {
		t.Fatalf("%s: Len = %d, want %d", what, r.Len(), len(want))
	}
	if got := ringSeq(r); !reflect.DeepEqual(got, want) {
		t.Fatalf("%s: Do = %v, want %v", what, got, want)
	}
	if r == nil {
		return
	}
	// backward and Move
	p := r
	for i := len(want); i > 0; i-- {
		p = p.Prev()
		if p.Value != want[i-1] {
			t.Fatalf("%s: backward at %d = %d, want %d", what, i-1, p.Value, want[i-1])
		}
	}
	if p != r {
		t.Fatalf("%s: backward traversal is not circular", what)
	}
	n := len(want)
	for k := -2 * n; k <= 2*n; k++ {
		if got := r.Move(k).Value; got != want[((k%n)+n)%n] {
			t.Fatalf("%s: Move(%d) = %d, want %d", what, k, got, want[((k%n)+n)%n])
		}
	}
}

func TestRingEdgeCases(t *testing.T) {
	var nilRing *lists.Ring[int]
	wantRing(t, "nil", nilRing)
	if lists.NewRing[int](0) != nil || lists.NewRing[int](-3) != nil {
		t.Fatalf("NewRing(<=0) is not nil")
	}

	// zero value ring, initialised lazily by each entry point
	for name, f := range map[string]func(r *lists.Ring[int]) *lists.Ring[int]{
		"Next":    func(r *lists.Ring[int]) *lists.Ring[int] { return r.Next() },
		"Prev":    func(r *lists.Ring[int]) *lists.Ring[int] { return r.Prev() },
		"Move0":   func(r *lists.Ring[int]) *lists.Ring[int] { return r.Move(0) },
		"Move5":   func(r *lists.Ring[int]) *lists.Ring[int] { return r.Move(5) },
		"Move-5":  func(r *lists.Ring[int]) *lists.Ring[int] { return r.Move(-5) },
		"LinkNil": func(r *lists.Ring[int]) *lists.Ring[int] { return r.Link(nil) },
		"LinkSelf": func(r *lists.Ring[int]) *lists.Ring[int] {
			return r.Link(r)
		},
		"Unlink1": func(r *lists.Ring[int]) *lists.Ring[int] { return r.Unlink(1) },
		"Unlink4": func(r *lists.Ring[int]) *lists.Ring[int] { return r.Unlink(4) },
		"Len":     func(r *lists.Ring[int]) *lists.Ring[int] { r.Len(); return r },
		"Do":      func(r *lists.Ring[int]) *lists.Ring[int] { r.Do(func(int) {}); return r },
	} {
		var z lists.Ring[int]
		z.Value = 7
		if got := f(&z); got != &z {
			t.Fatalf("zero ring %s: result is not the ring itself", name)
		}
		wantRing(t, "zero ring after "+name, &z, 7)
	}
	var z lists.Ring[int]
	if z.Unlink(0) != nil || z.Unlink(-1) != nil {
		t.Fatalf("Unlink(<=0) != nil")
	}
	var z1, z2 lists.Ring[int]
	z1.Value, z2.Value = 1, 2
	if got := z1.Link(&z2); got != &z1 {
		t.Fatalf("Link of two zero rings returns %p, want %p", got, &z1)
	}
	wantRing(t, "two zero rings linked", &z1, 1, 2)
	wantRing(t, "two zero rings linked (from 2)", &z2, 2, 1)

	// Link of different rings inserts s after r
	r := makeRing(1, 2, 3)
	s := makeRing(10, 20)
	if got := r.Link(s); got.Value != 2 {
		t.Fatalf("Link result = %d, want 2", got.Value)
	}
	wantRing(t, "linked", r, 1, 10, 20, 2, 3)

	// Link within the same ring removes the elements in between
	sub := r.Link(r.Move(3)) // removes 10, 20
	wantRing(t, "after same-ring Link", r, 1, 2, 3)
	wantRing(t, "removed subring", sub, 10, 20)

	// r.Link(r.Next()) removes nothing, returns r.Next()
	if got := r.Link(r.Next()); got != r.Next() || got.Value != 2 {
		t.Fatalf("Link(next) = %d", got.Value)
	}
	wantRing(t, "after Link(next)", r, 1, 2, 3)

	// r.Link(r) cuts r out as a single-element ring, rest returned
	rest := r.Link(r)
	wantRing(t, "r alone", r, 1)
	wantRing(t, "rest", rest, 2, 3)
	r.Link(rest)
	wantRing(t, "joined again", r, 1, 2, 3)

	// Unlink
	big := makeRing(0, 1, 2, 3, 4, 5)
	if big.Unlink(0) != nil || big.Unlink(-2) != nil {
		t.Fatalf("Unlink(<=0) != nil")
	}
	wantRing(t, "big untouched", big, 0, 1, 2, 3, 4, 5)
	u := big.Unlink(2)
	wantRing(t, "Unlink(2) result", u, 1, 2)
	wantRing(t, "after Unlink(2)", big, 0, 3, 4, 5)
	u = big.Unlink(4) // 4 % 4 == 0: unchanged
	wantRing(t, "after Unlink(len)", big, 0, 3, 4, 5)
	if u != big.Next() {
		t.Fatalf("Unlink(len) result")
	}
	u = big.Unlink(5) // 5 % 4 == 1
	wantRing(t, "Unlink(5) result", u, 3)
	wantRing(t, "after Unlink(5)", big, 0, 4, 5)
	u = big.Unlink(2)
	wantRing(t, "Unlink rest", u, 4, 5)
	wantRing(t, "single", big, 0)
	u = big.Unlink(3)
	if u != big {
		t.Fatalf("Unlink on single ring")
	}
	wantRing(t, "single after Unlink", big, 0)
}

// ---------------------------------------------------------------------------
// Independent lists and rings may be used from different goroutines.
// ---------------------------------------------------------------------------

func TestIndependentInstancesConcurrently(t *testing.T) {
	var wg sync.WaitGroup
	for g := 0; g < 6; g++ {
		wg.Add(1)
		go func(g int) {
			defer wg.Done()
			runListModel(t, int64(1000+g), 300)
			runRingModel(t, int64(2000+g), 300)
		}(g)
	}
	wg.Wait()
}
