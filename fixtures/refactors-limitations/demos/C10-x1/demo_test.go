package demo

import (
	"errors"
	"fmt"
	"math/rand"
	"sort"
	"sync"
	"sync/atomic"
	"testing"
	"time"

	"gopkg.in/typ.v4/chans"
)

// ---------------------------------------------------------------------------
// helpers

type variant int

const (
	vPub variant = iota
	vPubSlice
	vPubWait
	vPubSliceWait
	vPubSync
	vPubSliceSync
)

var allVariants = []variant{vPub, vPubSlice, vPubWait, vPubSliceWait, vPubSync, vPubSliceSync}
var blockingVariants = []variant{vPubWait, vPubSliceWait, vPubSync, vPubSliceSync}

func (v variant) String() string {
	return [...]string{"Pub", "PubSlice", "PubWait", "PubSliceWait", "PubSync", "PubSliceSync"}[v]
}

// async reports whether the variant returns before its hand-offs finished.
func (v variant) async() bool { return v == vPub || v == vPubSlice }

// ordered reports whether the events of one publish() call must arrive in
// the order given.
func (v variant) ordered() bool { return v == vPubWait || v == vPubSync || v == vPubSliceSync }

// publish publishes evs with the given variant; the single-event variants are
// called once per event.
func publish(ps *chans.PubSub[int], v variant, evs []int) {
	switch v {
	case vPub:
		for _, ev := range evs {
			ps.Pub(ev)
		}
	case vPubWait:
		for _, ev := range evs {
			ps.PubWait(ev)
		}
	case vPubSync:
		for _, ev := range evs {
			ps.PubSync(ev)
		}
	case vPubSlice:
		ps.PubSlice(evs)
	case vPubSliceWait:
		ps.PubSliceWait(evs)
	case vPubSliceSync:
		ps.PubSliceSync(evs)
	default:
		panic("unknown variant")
	}
}

func waitFor(t *testing.T, what string, cond func() bool) {
	t.Helper()
	deadline := time.Now().Add(20 * time.Second)
	for !cond() {
		if time.Now().After(deadline) {
			t.Fatalf("timed out waiting for %s", what)
		}
		time.Sleep(200 * time.Microsecond)
	}
}

// drainClosed reads a channel until it is closed; fails if it is not closed.
func drainClosed(t *testing.T, ch <-chan int) []int {
	t.Helper()
	var out []int
	for {
		select {
		case v, ok := <-ch:
			if !ok {
				return out
			}
			out = append(out, v)
		case <-time.After(10 * time.Second):
			t.Fatalf("channel was not closed (got %d values so far)", len(out))
			return nil
		}
	}
}

// isOpenAndEmpty reports that a non-blocking receive finds nothing, i.e. the
// channel is neither closed nor holds a value.
func isOpenAndEmpty(ch <-chan int) bool {
	select {
	case <-ch:
		return false
	default:
		return true
	}
}

func sortedCopy(a []int) []int {
	b := append([]int(nil), a...)
	sort.Ints(b)
	return b
}

func equalInts(a, b []int) bool {
	if len(a) != len(b) {
		return false
	}
	for i := range a {
		if a[i] != b[i] {
			return false
		}
	}
	return true
}

type segment struct {
	ordered bool
	evs     []int
}

func checkSegments(t *testing.T, name string, got []int, segs []segment) {
	t.Helper()
	pos := 0
	for i, seg := range segs {
		if pos+len(seg.evs) > len(got) {
			t.Fatalf("%s: segment %d: want %v, but only %v left of the stream", name, i, seg.evs, got[pos:])
		}
		part := got[pos : pos+len(seg.evs)]
		if seg.ordered {
			if !equalInts(part, seg.evs) {
				t.Fatalf("%s: segment %d (ordered): want %v, got %v", name, i, seg.evs, part)
			}
		} else if !equalInts(sortedCopy(part), sortedCopy(seg.evs)) {
			t.Fatalf("%s: segment %d (unordered): want %v, got %v", name, i, seg.evs, part)
		}
		pos += len(seg.evs)
	}
	if pos != len(got) {
		t.Fatalf("%s: %d extra values delivered: %v", name, len(got)-pos, got[pos:])
	}
}

// ---------------------------------------------------------------------------
// zero value, no subscribers, error values

func TestZeroValueAndNoSubscribers(t *testing.T) {
	var ps chans.PubSub[int]
	done := make(chan struct{})
	go func() {
		defer close(done)
		for _, v := range allVariants {
			publish(&ps, v, []int{1, 2, 3})
			publish(&ps, v, nil)
			publish(&ps, v, []int{})
		}
		if err := ps.UnsubAll(); err != nil {
			t.Errorf("UnsubAll on empty: %v", err)
		}
		if err := ps.Unsub(nil); err != chans.ErrSubscriptionNotInitalized {
			t.Errorf("Unsub(nil) = %v", err)
		}
		if err := ps.Unsub(make(chan int)); err != chans.ErrAlreadyUnsubscribed {
			t.Errorf("Unsub(unknown) = %v", err)
		}
		clone := ps.WithOnly(make(chan int))
		if clone == nil || clone == &ps {
			t.Errorf("WithOnly must return a new PubSub")
		}
		for _, v := range allVariants {
			publish(clone, v, []int{1, 2})
		}
		clone = ps.WithOnly(nil)
		for _, v := range allVariants {
			publish(clone, v, []int{1, 2})
		}
	}()
	select {
	case <-done:
	case <-time.After(10 * time.Second):
		t.Fatal("publishing without subscribers blocked")
	}

	// Empty slices with subscribers: nothing delivered, returns at once.
	sub := ps.Sub() // unbuffered: DefaultBuffer is 0
	if cap(sub) != 0 {
		t.Fatalf("Sub with zero DefaultBuffer: cap %d", cap(sub))
	}
	done = make(chan struct{})
	go func() {
		defer close(done)
		for _, v := range []variant{vPubSlice, vPubSliceWait, vPubSliceSync} {
			publish(&ps, v, nil)
			publish(&ps, v, []int{})
		}
	}()
	select {
	case <-done:
	case <-time.After(10 * time.Second):
		t.Fatal("publishing nothing blocked")
	}
	if !isOpenAndEmpty(sub) {
		t.Fatal("empty publish delivered something or closed the channel")
	}
	if err := ps.UnsubAll(); err != nil {
		t.Fatal(err)
	}
	if got := drainClosed(t, sub); len(got) != 0 {
		t.Fatalf("got %v", got)
	}
}

func TestBufferSizes(t *testing.T) {
	ps := chans.PubSub[string]{DefaultBuffer: 7}
	if c := cap(ps.Sub()); c != 7 {
		t.Fatalf("Sub cap = %d, want 7", c)
	}
	if c := cap(ps.SubBuf(3)); c != 3 {
		t.Fatalf("SubBuf(3) cap = %d", c)
	}
	if c := cap(ps.SubBuf(0)); c != 0 {
		t.Fatalf("SubBuf(0) cap = %d", c)
	}
	ps.DefaultBuffer = 2
	if c := cap(ps.Sub()); c != 2 {
		t.Fatalf("Sub cap = %d, want 2", c)
	}
	// WithOnly does not subscribe anything new and keeps the configuration.
	var n int64
	ps.OnPubTimeout = func(string) { atomic.AddInt64(&n, 1) }
	ps.PubTimeoutAfter = 5 * time.Millisecond
	blocked := ps.SubBuf(0)
	clone := ps.WithOnly(blocked)
	if clone.PubTimeoutAfter != ps.PubTimeoutAfter || clone.OnPubTimeout == nil {
		t.Fatalf("WithOnly lost the configuration")
	}
	clone.PubWait("x")
	clone.PubSync("y")
	clone.PubSliceWait([]string{"a", "b"})
	clone.PubSliceSync([]string{"c", "d"})
	if got := atomic.LoadInt64(&n); got != 6 {
		t.Fatalf("timeouts through WithOnly clone = %d, want 6", got)
	}
}

// ---------------------------------------------------------------------------
// model-based random histories (deterministic thanks to large buffers)

const bigBuf = 4096

type msub struct {
	id      int
	ch      <-chan int
	segs    []segment
	pending int
}

func (s *msub) expect(v variant, evs []int) {
	s.segs = append(s.segs, segment{ordered: v.ordered(), evs: append([]int(nil), evs...)})
	s.pending += len(evs)
}

func runModel(t *testing.T, seed int64, timeout time.Duration) {
	rng := rand.New(rand.NewSource(seed))
	var timeouts int64
	ps := &chans.PubSub[int]{DefaultBuffer: bigBuf, PubTimeoutAfter: timeout}
	if timeout > 0 {
		ps.OnPubTimeout = func(int) { atomic.AddInt64(&timeouts, 1) }
	}
	foreignPS := &chans.PubSub[int]{}
	foreign := foreignPS.SubBuf(4)

	var live []*msub
	var removed []<-chan int
	nextID, nextEv := 0, 0
	newEvs := func(v variant) []int {
		n := rng.Intn(5)
		if !(v == vPubSlice || v == vPubSliceWait || v == vPubSliceSync) && n == 0 {
			n = 1
		}
		evs := make([]int, n)
		for i := range evs {
			nextEv++
			evs[i] = nextEv
		}
		return evs
	}
	name := func(s *msub) string { return fmt.Sprintf("seed %d sub #%d", seed, s.id) }
	var flush func(s *msub)
	settle := func(v variant, subs []*msub) {
		for _, s := range subs {
			s := s
			if v.async() {
				waitFor(t, name(s)+" async deliveries", func() bool { return len(s.ch) >= s.pending })
			}
			if len(s.ch) != s.pending {
				t.Fatalf("%s: after %v: %d values queued, want %d", name(s), v, len(s.ch), s.pending)
			}
			if v.async() || rng.Intn(8) == 0 {
				flush(s)
			}
		}
	}
	// flush receives everything queued on a still open subscription. A
	// receive is what orders an asynchronous sender before a later close.
	flush = func(s *msub) {
		got := make([]int, 0, s.pending)
		for i := 0; i < s.pending; i++ {
			select {
			case ev, ok := <-s.ch:
				if !ok {
					t.Fatalf("%s: closed while subscribed", name(s))
				}
				got = append(got, ev)
			case <-time.After(10 * time.Second):
				t.Fatalf("%s: value %d of %d missing", name(s), i, s.pending)
			}
		}
		checkSegments(t, name(s), got, s.segs)
		s.segs, s.pending = nil, 0
		if !isOpenAndEmpty(s.ch) {
			t.Fatalf("%s: extra value or closed", name(s))
		}
	}
	retire := func(s *msub) {
		got := drainClosed(t, s.ch)
		checkSegments(t, name(s), got, s.segs)
		removed = append(removed, s.ch)
	}
	checkOthersUntouched := func() {
		for _, s := range live {
			if len(s.ch) != s.pending {
				t.Fatalf("%s: %d values queued, want %d", name(s), len(s.ch), s.pending)
			}
		}
		if len(foreign) != 0 {
			t.Fatalf("foreign channel received something")
		}
	}

	for step := 0; step < 250; step++ {
		switch op := rng.Intn(100); {
		case op < 18: // subscribe
			var ch <-chan int
			if rng.Intn(2) == 0 {
				ch = ps.Sub()
			} else {
				ch = ps.SubBuf(bigBuf - rng.Intn(3))
			}
			if ch == nil {
				t.Fatal("nil subscription")
			}
			for _, s := range live {
				if s.ch == ch {
					t.Fatal("Sub returned a channel that is already subscribed")
				}
			}
			nextID++
			live = append(live, &msub{id: nextID, ch: ch})
		case op < 30: // unsubscribe one
			if len(live) == 0 {
				continue
			}
			i := rng.Intn(len(live))
			s := live[i]
			if err := ps.Unsub(s.ch); err != nil {
				t.Fatalf("%s: Unsub = %v", name(s), err)
			}
			live = append(live[:i:i], live[i+1:]...)
			retire(s)
			checkOthersUntouched()
		case op < 33: // unsubscribe all
			if err := ps.UnsubAll(); err != nil {
				t.Fatalf("UnsubAll = %v", err)
			}
			for _, s := range live {
				retire(s)
			}
			live = nil
			checkOthersUntouched()
		case op < 40: // error paths
			switch rng.Intn(3) {
			case 0:
				if err := ps.Unsub(nil); !errors.Is(err, chans.ErrSubscriptionNotInitalized) {
					t.Fatalf("Unsub(nil) = %v", err)
				}
			case 1:
				if err := ps.Unsub(foreign); !errors.Is(err, chans.ErrAlreadyUnsubscribed) {
					t.Fatalf("Unsub(foreign) = %v", err)
				}
			case 2:
				if len(removed) > 0 {
					ch := removed[rng.Intn(len(removed))]
					if err := ps.Unsub(ch); !errors.Is(err, chans.ErrAlreadyUnsubscribed) {
						t.Fatalf("second Unsub = %v", err)
					}
				}
			}
			checkOthersUntouched()
		case op < 55: // publish to a single subscription
			v := allVariants[rng.Intn(len(allVariants))]
			evs := newEvs(v)
			switch k := rng.Intn(10); {
			case k == 0:
				publish(ps.WithOnly(foreign), v, evs)
				settle(v, nil)
			case k == 1 && len(removed) > 0:
				publish(ps.WithOnly(removed[rng.Intn(len(removed))]), v, evs)
			case len(live) > 0:
				s := live[rng.Intn(len(live))]
				s.expect(v, evs)
				publish(ps.WithOnly(s.ch), v, evs)
				settle(v, []*msub{s})
			}
			checkOthersUntouched()
		default: // publish to everyone
			v := allVariants[rng.Intn(len(allVariants))]
			evs := newEvs(v)
			for _, s := range live {
				s.expect(v, evs)
			}
			publish(ps, v, evs)
			settle(v, live)
			checkOthersUntouched()
		}
	}
	if err := ps.UnsubAll(); err != nil {
		t.Fatal(err)
	}
	for _, s := range live {
		retire(s)
	}
	if err := ps.UnsubAll(); err != nil {
		t.Fatal(err)
	}
	if n := atomic.LoadInt64(&timeouts); n != 0 {
		t.Fatalf("seed %d: %d unexpected timeouts", seed, n)
	}
}

func TestModelRandomHistories(t *testing.T) {
	for seed := int64(1); seed <= 12; seed++ {
		runModel(t, seed, 0)
	}
	for seed := int64(101); seed <= 108; seed++ {
		runModel(t, seed, 30*time.Second)
	}
}

// ---------------------------------------------------------------------------
// exactly once with receivers, every count of subscribers and buffer size

type collector struct {
	ch   <-chan int
	done chan struct{}
	n    int64 // number of values received so far (atomic)
	mu   sync.Mutex
	got  []int // guarded by mu while the receiver runs
}

func collect(ch <-chan int) *collector {
	c := &collector{ch: ch, done: make(chan struct{})}
	go func() {
		for v := range ch {
			c.mu.Lock()
			c.got = append(c.got, v)
			c.mu.Unlock()
			atomic.AddInt64(&c.n, 1)
		}
		close(c.done)
	}()
	return c
}

func (c *collector) count() int { return int(atomic.LoadInt64(&c.n)) }

func (c *collector) snapshot() []int {
	c.mu.Lock()
	defer c.mu.Unlock()
	return append([]int(nil), c.got...)
}

func (c *collector) wait(t *testing.T) []int {
	t.Helper()
	select {
	case <-c.done:
	case <-time.After(20 * time.Second):
		t.Fatal("receiver did not see its channel closed")
	}
	return c.got
}

func TestExactlyOnceAllShapes(t *testing.T) {
	for _, v := range allVariants {
		for nsubs := 0; nsubs <= 5; nsubs++ {
			for _, buf := range []int{0, 1, 3} {
				for _, nev := range []int{0, 1, 2, 7} {
					if nev == 0 && !(v == vPubSlice || v == vPubSliceWait || v == vPubSliceSync) {
						continue
					}
					ps := &chans.PubSub[int]{DefaultBuffer: buf}
					var cols []*collector
					for i := 0; i < nsubs; i++ {
						var ch <-chan int
						if i%2 == 0 {
							ch = ps.Sub()
						} else {
							ch = ps.SubBuf(buf)
						}
						cols = append(cols, collect(ch))
					}
					evs := make([]int, nev)
					for i := range evs {
						evs[i] = 100 + i
					}
					publish(ps, v, evs)
					if v.async() {
						// Eventually: every receiver gets all of them. Only
						// then is it safe to close the channels.
						for _, c := range cols {
							c := c
							waitFor(t, "async deliveries", func() bool { return c.count() >= nev })
						}
					}
					if err := ps.UnsubAll(); err != nil {
						t.Fatal(err)
					}
					for i, c := range cols {
						got := c.wait(t)
						name := fmt.Sprintf("%v subs=%d buf=%d evs=%d sub %d", v, nsubs, buf, nev, i)
						checkSegments(t, name, got, []segment{{ordered: v.ordered(), evs: evs}})
					}
				}
			}
		}
	}
}

// ---------------------------------------------------------------------------
// Wait and Sync variants return only after the hand-offs

func TestBlockingVariantsReturnAfterHandOff(t *testing.T) {
	for _, v := range blockingVariants {
		ps := &chans.PubSub[int]{}
		buffered := ps.SubBuf(4)
		unbuf := ps.Sub()
		last := ps.SubBuf(4)

		// One call only: a second call would rightly queue behind the
		// pending Unsub below.
		evs := []int{1, 2}
		if v == vPubWait || v == vPubSync {
			evs = []int{1}
		}
		returned := make(chan struct{})
		go func() {
			publish(ps, v, evs)
			close(returned)
		}()
		select {
		case <-returned:
			t.Fatalf("%v returned although a subscriber has not received", v)
		case <-time.After(30 * time.Millisecond):
		}

		// While the publisher is in flight, Unsub of the busy channel must
		// wait (it must never close a channel under a sender).
		unsubbed := make(chan error, 1)
		go func() { unsubbed <- ps.Unsub(unbuf) }()
		select {
		case err := <-unsubbed:
			t.Fatalf("%v: Unsub finished (%v) while a hand-off to the channel was pending", v, err)
		case <-time.After(30 * time.Millisecond):
		}

		var got []int
		for i := range evs {
			if i > 0 {
				select {
				case <-returned:
					t.Fatalf("%v returned before the second event was handed off", v)
				case <-time.After(20 * time.Millisecond):
				}
			}
			ev, ok := <-unbuf
			if !ok {
				t.Fatalf("%v: channel closed under the publisher", v)
			}
			got = append(got, ev)
		}
		checkSegments(t, v.String()+" unbuffered", got, []segment{{ordered: v.ordered(), evs: evs}})
		select {
		case <-returned:
		case <-time.After(10 * time.Second):
			t.Fatalf("%v did not return after all hand-offs", v)
		}
		// On return everything is handed off to the buffered ones as well.
		if len(buffered) != len(evs) || len(last) != len(evs) {
			t.Fatalf("%v: queued %d and %d, want %d each", v, len(buffered), len(last), len(evs))
		}
		select {
		case err := <-unsubbed:
			if err != nil {
				t.Fatalf("%v: Unsub = %v", v, err)
			}
		case <-time.After(10 * time.Second):
			t.Fatalf("%v: Unsub never finished", v)
		}
		if got := drainClosed(t, unbuf); len(got) != 0 {
			t.Fatalf("%v: delivered %v after removal", v, got)
		}
		// The others are unaffected and still subscribed.
		publish(ps, v, []int{3})
		if len(buffered) != len(evs)+1 || len(last) != len(evs)+1 {
			t.Fatalf("%v: others affected by Unsub: %d, %d", v, len(buffered), len(last))
		}
		if err := ps.UnsubAll(); err != nil {
			t.Fatal(err)
		}
		want := []segment{{ordered: v.ordered(), evs: evs}, {ordered: true, evs: []int{3}}}
		checkSegments(t, v.String()+" buffered", drainClosed(t, buffered), want)
		checkSegments(t, v.String()+" last", drainClosed(t, last), want)
	}
}

// ---------------------------------------------------------------------------
// subscription order: Sub appends, Unsub keeps the order of the others. The
// Sync variants hand off subscriber by subscriber, which makes the order
// observable with unbuffered channels and one receiver.

func TestSyncOrderAcrossSubscribers(t *testing.T) {
	var timeouts int64
	ps := &chans.PubSub[int]{
		PubTimeoutAfter: 3 * time.Second,
		OnPubTimeout:    func(int) { atomic.AddInt64(&timeouts, 1) },
	}
	var subs []<-chan int
	for i := 0; i < 6; i++ {
		subs = append(subs, ps.Sub())
	}
	check := func(stage string, order []<-chan int) {
		t.Helper()
		done := make(chan struct{})
		var bad int64
		go func() {
			defer close(done)
			for _, ev := range []int{7, 8, 9} {
				for _, ch := range order {
					select {
					case got := <-ch:
						if got != ev {
							atomic.AddInt64(&bad, 1)
						}
					case <-time.After(10 * time.Second):
						atomic.AddInt64(&bad, 1)
						return
					}
				}
			}
		}()
		ps.PubSync(7)
		ps.PubSliceSync([]int{8, 9})
		<-done
		if atomic.LoadInt64(&bad) != 0 || atomic.LoadInt64(&timeouts) != 0 {
			t.Fatalf("%s: wrong values: %d, timeouts: %d", stage, bad, timeouts)
		}
	}
	check("initial", subs)
	remove := func(i int) {
		if err := ps.Unsub(subs[i]); err != nil {
			t.Fatal(err)
		}
		if got := drainClosed(t, subs[i]); len(got) != 0 {
			t.Fatalf("removed channel got %v", got)
		}
		subs = append(subs[:i:i], subs[i+1:]...)
		for _, ch := range subs {
			if !isOpenAndEmpty(ch) {
				t.Fatal("Unsub closed or fed another channel")
			}
		}
	}
	remove(2) // middle
	check("after middle removal", subs)
	remove(0) // first
	check("after first removal", subs)
	remove(len(subs) - 1) // last
	check("after last removal", subs)
	subs = append(subs, ps.Sub(), ps.SubBuf(0))
	check("after re-subscribing", subs)
	remove(1)
	subs = append(subs, ps.Sub())
	check("after remove+subscribe", subs)
	for len(subs) > 0 {
		remove(len(subs) / 2)
		check("shrinking", subs)
	}
}

// ---------------------------------------------------------------------------
// timeouts: every (event, subscriber) pair ends in exactly one of a delivery
// or one OnPubTimeout call

func TestTimeoutConservation(t *testing.T) {
	for _, v := range allVariants {
		for _, shape := range []struct{ open, blocked, tiny int }{
			{0, 1, 0}, {2, 0, 0}, {2, 2, 1}, {1, 3, 0}, {0, 0, 1}, {3, 1, 2},
		} {
			var mu sync.Mutex
			timedOut := map[int]int{}
			ps := &chans.PubSub[int]{
				PubTimeoutAfter: 25 * time.Millisecond,
				OnPubTimeout: func(ev int) {
					mu.Lock()
					timedOut[ev]++
					mu.Unlock()
				},
			}
			var open, blocked, tiny []<-chan int
			// interleave the kinds of subscribers
			for i := 0; i < shape.open || i < shape.blocked || i < shape.tiny; i++ {
				if i < shape.blocked {
					blocked = append(blocked, ps.SubBuf(0))
				}
				if i < shape.open {
					open = append(open, ps.SubBuf(64))
				}
				if i < shape.tiny {
					tiny = append(tiny, ps.SubBuf(1))
				}
			}
			nsubs := len(open) + len(blocked) + len(tiny)
			evs := []int{11, 12, 13}
			name := fmt.Sprintf("%v %+v", v, shape)

			queued := func() int {
				n := 0
				for _, ch := range open {
					n += len(ch)
				}
				for _, ch := range tiny {
					n += len(ch)
				}
				return n
			}
			timeouts := func() int {
				mu.Lock()
				defer mu.Unlock()
				n := 0
				for _, c := range timedOut {
					n += c
				}
				return n
			}
			start := time.Now()
			publish(ps, v, evs)
			if v.async() {
				waitFor(t, name+" pairs to end", func() bool { return queued()+timeouts() >= nsubs*len(evs) })
				time.Sleep(40 * time.Millisecond) // nothing may follow
			} else if len(blocked) > 0 && time.Since(start) < 25*time.Millisecond {
				t.Fatalf("%s: returned before the timeout of a blocked subscriber", name)
			}
			if q, to := queued(), timeouts(); q+to != nsubs*len(evs) {
				t.Fatalf("%s: %d deliveries + %d timeouts != %d pairs", name, q, to, nsubs*len(evs))
			}
			// Receive what is queued before closing: the receive is what
			// orders an asynchronous sender before the close.
			pre := map[<-chan int][]int{}
			for _, ch := range append(append([]<-chan int(nil), open...), tiny...) {
				for n := len(ch); n > 0; n-- {
					pre[ch] = append(pre[ch], <-ch)
				}
			}
			if err := ps.UnsubAll(); err != nil {
				t.Fatal(err)
			}
			delivered := map[int]int{}
			for _, ch := range blocked {
				if got := drainClosed(t, ch); len(got) != 0 {
					t.Fatalf("%s: never-receiving subscriber got %v", name, got)
				}
			}
			for _, ch := range open {
				got := append(pre[ch], drainClosed(t, ch)...)
				seen := map[int]bool{}
				for _, ev := range got {
					if seen[ev] {
						t.Fatalf("%s: duplicate %d", name, ev)
					}
					seen[ev] = true
					delivered[ev]++
				}
				if v.ordered() && !sort.IntsAreSorted(got) {
					t.Fatalf("%s: out of order: %v", name, got)
				}
			}
			for _, ch := range tiny {
				for _, ev := range append(pre[ch], drainClosed(t, ch)...) {
					delivered[ev]++
				}
			}
			mu.Lock()
			for _, ev := range evs {
				if delivered[ev]+timedOut[ev] != nsubs {
					t.Fatalf("%s: event %d: %d deliveries + %d timeouts != %d subscribers", name, ev, delivered[ev], timedOut[ev], nsubs)
				}
				if timedOut[ev] < len(blocked) {
					t.Fatalf("%s: event %d: %d timeouts < %d blocked subscribers", name, ev, timedOut[ev], len(blocked))
				}
			}
			if len(timedOut) > len(evs) {
				t.Fatalf("%s: timeouts for unknown events: %v", name, timedOut)
			}
			mu.Unlock()
		}
	}
}

func TestTimeoutWithoutCallback(t *testing.T) {
	for _, v := range blockingVariants {
		ps := &chans.PubSub[int]{PubTimeoutAfter: 60 * time.Millisecond}
		blocked := ps.Sub()
		open := ps.SubBuf(8)
		done := make(chan struct{})
		go func() {
			publish(ps, v, []int{1, 2, 3})
			close(done)
		}()
		select {
		case <-done:
		case <-time.After(10 * time.Second):
			t.Fatalf("%v: blocked despite the timeout", v)
		}
		if len(open) != 3 {
			t.Fatalf("%v: open subscriber holds %d", v, len(open))
		}
		if err := ps.Unsub(blocked); err != nil {
			t.Fatal(err)
		}
		if got := drainClosed(t, blocked); len(got) != 0 {
			t.Fatalf("got %v", got)
		}
		if len(open) != 3 || ps.Unsub(blocked) != chans.ErrAlreadyUnsubscribed {
			t.Fatalf("%v: second Unsub or other subscriber wrong", v)
		}
	}
}

// ---------------------------------------------------------------------------
// concurrent publishers, receivers, Sub and Unsub

const (
	perPublisher = 45
	chunk        = 3
	pubStride    = 1000000
	onlyBase     = 900 * pubStride
	onlyCount    = 40
)

type pubSpec struct {
	id int
	v  variant
}

// orderKey gives the position that must be non-decreasing within the stream
// of one publisher as seen by one subscriber.
func (p pubSpec) orderKey(seq int) int {
	if p.v == vPubSliceWait {
		return seq / chunk
	}
	return seq
}

func checkStream(t *testing.T, name string, got []int, pubs []pubSpec, requireAll, allowOnly bool) {
	t.Helper()
	seen := map[int]bool{}
	lastKey := map[int]int{}
	onlySeen := 0
	lastOnly := -1
	for _, ev := range got {
		if seen[ev] {
			t.Fatalf("%s: event %d delivered twice", name, ev)
		}
		seen[ev] = true
		if ev >= onlyBase {
			if !allowOnly {
				t.Fatalf("%s: received WithOnly event %d meant for another subscriber", name, ev)
			}
			if ev-onlyBase >= onlyCount || ev <= lastOnly {
				t.Fatalf("%s: WithOnly event %d invalid or out of order", name, ev)
			}
			lastOnly = ev
			onlySeen++
			continue
		}
		id, seq := ev/pubStride, ev%pubStride
		if id < 1 || id > len(pubs) || seq >= perPublisher {
			t.Fatalf("%s: unknown event %d", name, ev)
		}
		p := pubs[id-1]
		key := p.orderKey(seq)
		if prev, ok := lastKey[id]; ok && key < prev {
			t.Fatalf("%s: publisher %d (%v): event %d arrived after position %d", name, id, p.v, seq, prev)
		}
		lastKey[id] = key
	}
	if requireAll {
		want := len(pubs) * perPublisher
		if allowOnly {
			want += onlyCount
		}
		if len(got) != want {
			t.Fatalf("%s: got %d events, want %d", name, len(got), want)
		}
	}
}

func TestConcurrentPublishSubscribeUnsubscribe(t *testing.T) {
	for round := 0; round < 3; round++ {
		ps := &chans.PubSub[int]{DefaultBuffer: 2}
		if round == 1 {
			// timeouts switched on but far away: the select path of the sender
			var n int64
			ps.PubTimeoutAfter = time.Minute
			ps.OnPubTimeout = func(int) { atomic.AddInt64(&n, 1) }
			defer func() {
				if atomic.LoadInt64(&n) != 0 {
					t.Errorf("unexpected timeouts: %d", n)
				}
			}()
		}
		var stable []*collector
		for i, buf := range []int{0, 1, 8, 0, 3} {
			if i == 1 {
				stable = append(stable, collect(ps.Sub()))
			} else {
				stable = append(stable, collect(ps.SubBuf(buf)))
			}
		}
		var pubs []pubSpec
		for i := 0; i < 8; i++ {
			pubs = append(pubs, pubSpec{id: i + 1, v: blockingVariants[i%len(blockingVariants)]})
		}
		foreign := make(chan int)

		var stop int32
		var pubWG, churnWG sync.WaitGroup
		for _, p := range pubs {
			p := p
			pubWG.Add(1)
			go func() {
				defer pubWG.Done()
				for seq := 0; seq < perPublisher; seq += chunk {
					evs := make([]int, chunk)
					for i := range evs {
						evs[i] = p.id*pubStride + seq + i
					}
					publish(ps, p.v, evs)
				}
			}()
		}
		pubWG.Add(1)
		go func() { // WithOnly: to the first stable subscriber only
			defer pubWG.Done()
			for i := 0; i < onlyCount; i++ {
				only := ps.WithOnly(stable[0].ch)
				if i%2 == 0 {
					only.PubSync(onlyBase + i)
				} else {
					only.PubWait(onlyBase + i)
				}
			}
		}()
		errs := make(chan string, 64)
		report := func(format string, args ...interface{}) {
			select {
			case errs <- fmt.Sprintf(format, args...):
			default:
			}
		}
		var churned int64
		for w := 0; w < 3; w++ {
			w := w
			churnWG.Add(1)
			go func() {
				defer churnWG.Done()
				rng := rand.New(rand.NewSource(int64(1000*round + w)))
				var held []*collector
				release := func(c *collector) {
					if err := ps.Unsub(c.ch); err != nil {
						report("Unsub of a subscribed channel: %v", err)
					}
					<-c.done
					if err := ps.Unsub(c.ch); err != chans.ErrAlreadyUnsubscribed {
						report("second Unsub: %v", err)
					}
					func() {
						defer func() {
							if r := recover(); r != nil {
								report("churn stream: %v", r)
							}
						}()
						checkStreamPanic(c.got, pubs)
					}()
					atomic.AddInt64(&churned, 1)
				}
				for atomic.LoadInt32(&stop) == 0 {
					switch rng.Intn(6) {
					case 0:
						held = append(held, collect(ps.Sub()))
					case 1, 2:
						held = append(held, collect(ps.SubBuf(rng.Intn(4))))
					case 3, 4:
						if len(held) > 0 {
							i := rng.Intn(len(held))
							c := held[i]
							held = append(held[:i], held[i+1:]...)
							release(c)
						}
					case 5:
						if err := ps.Unsub(foreign); err != chans.ErrAlreadyUnsubscribed {
							report("Unsub(foreign): %v", err)
						}
						if err := ps.Unsub(nil); err != chans.ErrSubscriptionNotInitalized {
							report("Unsub(nil): %v", err)
						}
					}
					if len(held) > 4 {
						c := held[0]
						held = held[1:]
						release(c)
					}
					if rng.Intn(3) == 0 {
						time.Sleep(time.Duration(rng.Intn(300)) * time.Microsecond)
					}
				}
				for _, c := range held {
					release(c)
				}
			}()
		}
		pubDone := make(chan struct{})
		go func() { pubWG.Wait(); close(pubDone) }()
		select {
		case <-pubDone:
		case <-time.After(60 * time.Second):
			t.Fatal("publishers are stuck")
		}
		atomic.StoreInt32(&stop, 1)
		churnDone := make(chan struct{})
		go func() { churnWG.Wait(); close(churnDone) }()
		select {
		case <-churnDone:
		case <-time.After(60 * time.Second):
			t.Fatal("subscribers are stuck")
		}
		close(errs)
		for e := range errs {
			t.Error(e)
		}
		if err := ps.UnsubAll(); err != nil {
			t.Fatal(err)
		}
		for i, c := range stable {
			got := c.wait(t)
			checkStream(t, fmt.Sprintf("round %d stable %d", round, i), got, pubs, true, i == 0)
		}
		if atomic.LoadInt64(&churned) == 0 {
			t.Log("no churn happened in this round")
		}
	}
}

// checkStreamPanic is checkStream for goroutines other than the test's: it
// panics with the message instead of calling t.Fatalf.
func checkStreamPanic(got []int, pubs []pubSpec) {
	seen := map[int]bool{}
	lastKey := map[int]int{}
	for _, ev := range got {
		if seen[ev] {
			panic(fmt.Sprintf("event %d delivered twice", ev))
		}
		seen[ev] = true
		id, seq := ev/pubStride, ev%pubStride
		if id < 1 || id > len(pubs) || seq >= perPublisher {
			panic(fmt.Sprintf("unknown or foreign event %d", ev))
		}
		key := pubs[id-1].orderKey(seq)
		if prev, ok := lastKey[id]; ok && key < prev {
			panic(fmt.Sprintf("publisher %d: event %d arrived after position %d", id, seq, prev))
		}
		lastKey[id] = key
	}
}

// Asynchronous Pub and PubSlice concurrent with Sub (no removal, as sends
// may be in flight): subscribers present from the start get everything
// exactly once, late ones get a subset at most once.
func TestConcurrentAsyncPublishAndSubscribe(t *testing.T) {
	ps := &chans.PubSub[int]{}
	var early []*collector
	for _, buf := range []int{0, 2, 16} {
		early = append(early, collect(ps.SubBuf(buf)))
	}
	const publishers, each = 4, 60
	var wg sync.WaitGroup
	for p := 1; p <= publishers; p++ {
		p := p
		wg.Add(1)
		go func() {
			defer wg.Done()
			for seq := 0; seq < each; seq += 2 {
				if p%2 == 0 {
					ps.Pub(p*pubStride + seq)
					ps.Pub(p*pubStride + seq + 1)
				} else {
					ps.PubSlice([]int{p*pubStride + seq, p*pubStride + seq + 1})
				}
			}
		}()
	}
	var lateMu sync.Mutex
	var late []*collector
	for w := 0; w < 2; w++ {
		wg.Add(1)
		go func() {
			defer wg.Done()
			for i := 0; i < 15; i++ {
				c := collect(ps.SubBuf(i % 3))
				lateMu.Lock()
				late = append(late, c)
				lateMu.Unlock()
				time.Sleep(100 * time.Microsecond)
			}
		}()
	}
	wg.Wait()
	for _, c := range early {
		c := c
		waitFor(t, "early subscriber to get everything", func() bool { return c.count() >= publishers*each })
	}
	// Late subscribers hold an unknown subset: at most once must hold at any
	// moment. Nothing is closed here, as sends may still be in flight.
	time.Sleep(20 * time.Millisecond)
	check := func(name string, got []int, all bool) {
		seen := map[int]bool{}
		for _, ev := range got {
			p, seq := ev/pubStride, ev%pubStride
			if seen[ev] || p < 1 || p > publishers || seq >= each {
				t.Fatalf("%s: duplicate or unknown event %d", name, ev)
			}
			seen[ev] = true
		}
		if all && len(got) != publishers*each {
			t.Fatalf("%s: got %d events, want %d", name, len(got), publishers*each)
		}
	}
	for i, c := range early {
		check(fmt.Sprintf("early %d", i), c.snapshot(), true)
	}
	for i, c := range late {
		check(fmt.Sprintf("late %d", i), c.snapshot(), false)
	}
}
