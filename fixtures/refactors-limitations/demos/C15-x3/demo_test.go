package demo

import (
	"fmt"
	"math"
	"math/rand"
	"reflect"
	"sort"
	"sync"
	"testing"

	"gopkg.in/typ.v4/slices"
)

// ---------------------------------------------------------------------------
// helpers and reference models

// item is a tagged element: the order only looks at key, tag records the
// original position so that tie order is observable.
type item struct {
	key int
	tag int
}

func lessItem(a, b item) bool { return a.key < b.key }

type items []item // named slice type, exercises S ~[]E

func genItems(rng *rand.Rand, n, keys int) []item {
	s := make([]item, n)
	for i := range s {
		s[i] = item{key: rng.Intn(keys), tag: i}
	}
	return s
}

func genInts(rng *rand.Rand, n, keys int) []int {
	s := make([]int, n)
	for i := range s {
		s[i] = rng.Intn(keys) - keys/2
	}
	return s
}

func clone[T any](s []T) []T {
	if s == nil {
		return nil
	}
	c := make([]T, len(s))
	copy(c, s)
	return c
}

// stableModel is an insertion sort: obviously stable, obviously a permutation.
func stableModel[T any](s []T, less func(a, b T) bool) []T {
	out := clone(s)
	for i := 1; i < len(out); i++ {
		for j := i; j > 0 && less(out[j], out[j-1]); j-- {
			out[j], out[j-1] = out[j-1], out[j]
		}
	}
	return out
}

func sameMultiset[T comparable](a, b []T) bool {
	if len(a) != len(b) {
		return false
	}
	m := map[T]int{}
	for _, v := range a {
		m[v]++
	}
	for _, v := range b {
		m[v]--
	}
	for _, c := range m {
		if c != 0 {
			return false
		}
	}
	return true
}

// ordered reports that no element is less than its predecessor.
func ordered[T any](s []T, less func(a, b T) bool) bool {
	for i := 1; i < len(s); i++ {
		if less(s[i], s[i-1]) {
			return false
		}
	}
	return true
}

func flip[T any](less func(a, b T) bool) func(a, b T) bool {
	return func(a, b T) bool { return less(b, a) }
}

// refAdapter is an independent sort.Interface used to predict the exact
// outcome (including the tie order of the unstable sorts and the sequence of
// less calls) of the library functions.
type refAdapter[T any] struct {
	s    []T
	less func(a, b T) bool
}

func (r refAdapter[T]) Len() int           { return len(r.s) }
func (r refAdapter[T]) Swap(i, j int)      { r.s[i], r.s[j] = r.s[j], r.s[i] }
func (r refAdapter[T]) Less(i, j int) bool { return r.less(r.s[i], r.s[j]) }

type call struct{ a, b item }

func recording(log *[]call) func(a, b item) bool {
	return func(a, b item) bool {
		*log = append(*log, call{a, b})
		return a.key < b.key
	}
}

var lengths = []int{0, 1, 2, 3, 4, 5, 7, 8, 11, 12, 13, 16, 17, 31, 32, 33, 50, 64, 100, 257, 1000}
var keyCounts = []int{1, 2, 3, 10, 1 << 20}

func catch(f func()) (r interface{}) {
	defer func() { r = recover() }()
	f()
	return nil
}

// ---------------------------------------------------------------------------
// Sort / SortDesc

func TestSortOrdered(t *testing.T) {
	rng := rand.New(rand.NewSource(1))
	for _, n := range lengths {
		for _, k := range keyCounts {
			orig := genInts(rng, n, k)

			asc := clone(orig)
			slices.Sort(asc)
			if !sameMultiset(orig, asc) {
				t.Fatalf("Sort n=%d k=%d: not a permutation", n, k)
			}
			if !sort.IntsAreSorted(asc) {
				t.Fatalf("Sort n=%d k=%d: not ascending: %v", n, k, asc)
			}
			// ints with equal value are indistinguishable: result is unique
			want := clone(orig)
			sort.Ints(want)
			if !reflect.DeepEqual(asc, want) {
				t.Fatalf("Sort n=%d k=%d: got %v want %v", n, k, asc, want)
			}

			desc := clone(orig)
			slices.SortDesc(desc)
			if !sameMultiset(orig, desc) {
				t.Fatalf("SortDesc n=%d k=%d: not a permutation", n, k)
			}
			for i := range desc {
				if desc[i] != want[len(want)-1-i] {
					t.Fatalf("SortDesc n=%d k=%d: got %v", n, k, desc)
				}
			}
		}
	}
}

func TestSortOrderedTypes(t *testing.T) {
	type myInts []int8
	a := myInts{3, -1, 2, -128, 127, 0, 2}
	slices.Sort(a)
	if !reflect.DeepEqual(a, myInts{-128, -1, 0, 2, 2, 3, 127}) {
		t.Fatalf("Sort named: %v", a)
	}
	slices.SortDesc(a)
	if !reflect.DeepEqual(a, myInts{127, 3, 2, 2, 0, -1, -128}) {
		t.Fatalf("SortDesc named: %v", a)
	}

	s := []string{"b", "", "a", "ab", "B", "a"}
	slices.Sort(s)
	if !reflect.DeepEqual(s, []string{"", "B", "a", "a", "ab", "b"}) {
		t.Fatalf("Sort strings: %q", s)
	}
	slices.SortDesc(s)
	if !reflect.DeepEqual(s, []string{"b", "ab", "a", "a", "B", ""}) {
		t.Fatalf("SortDesc strings: %q", s)
	}

	u := []uint{5, 0, math.MaxUint32, 1}
	slices.SortDesc(u)
	if !reflect.DeepEqual(u, []uint{math.MaxUint32, 5, 1, 0}) {
		t.Fatalf("SortDesc uint: %v", u)
	}

	f := []float64{2.5, math.Inf(1), -0.5, math.Inf(-1), 0}
	slices.Sort(f)
	if !reflect.DeepEqual(f, []float64{math.Inf(-1), -0.5, 0, 2.5, math.Inf(1)}) {
		t.Fatalf("Sort floats: %v", f)
	}
	slices.SortDesc(f)
	if !reflect.DeepEqual(f, []float64{math.Inf(1), 2.5, 0, -0.5, math.Inf(-1)}) {
		t.Fatalf("SortDesc floats: %v", f)
	}

	// nil and empty: no panic, untouched
	var nilInts []int
	slices.Sort(nilInts)
	slices.SortDesc(nilInts)
	if nilInts != nil {
		t.Fatal("nil slice changed")
	}
	slices.Sort([]int{})
	slices.SortDesc([]int{})
}

// The outcome on floats with NaN (where < is not a strict weak order) is fully
// determined by the answers of s[i] < s[j]; it must equal what sort.Sort does
// with an independent adapter giving the same answers.
func TestSortOrderedNaNExact(t *testing.T) {
	rng := rand.New(rand.NewSource(2))
	lt := func(a, b float64) bool { return a < b }
	bits := func(s []float64) []uint64 {
		out := make([]uint64, len(s))
		for i, v := range s {
			out[i] = math.Float64bits(v)
		}
		return out
	}
	for _, n := range lengths {
		orig := make([]float64, n)
		for i := range orig {
			switch rng.Intn(4) {
			case 0:
				orig[i] = math.NaN()
			default:
				orig[i] = float64(rng.Intn(5))
			}
		}
		got := clone(orig)
		slices.Sort(got)
		want := clone(orig)
		sort.Sort(refAdapter[float64]{want, lt})
		if !reflect.DeepEqual(bits(got), bits(want)) {
			t.Fatalf("Sort NaN n=%d: got %v want %v", n, got, want)
		}
		got = clone(orig)
		slices.SortDesc(got)
		want = clone(orig)
		sort.Sort(sort.Reverse(refAdapter[float64]{want, lt}))
		if !reflect.DeepEqual(bits(got), bits(want)) {
			t.Fatalf("SortDesc NaN n=%d: got %v want %v", n, got, want)
		}
	}
}

// ---------------------------------------------------------------------------
// SortFunc / SortDescFunc / SortStableFunc / SortStableDescFunc

func TestSortFuncFamily(t *testing.T) {
	rng := rand.New(rand.NewSource(3))
	for _, n := range lengths {
		for _, k := range keyCounts {
			orig := genItems(rng, n, k)

			// --- SortFunc: permutation, ascending, exact outcome and call log
			var gotLog, wantLog []call
			got := clone(orig)
			slices.SortFunc(got, recording(&gotLog))
			if !sameMultiset(orig, got) || !ordered(got, lessItem) {
				t.Fatalf("SortFunc n=%d k=%d: bad result", n, k)
			}
			want := clone(orig)
			sort.Sort(refAdapter[item]{want, recording(&wantLog)})
			if !reflect.DeepEqual(got, want) {
				t.Fatalf("SortFunc n=%d k=%d: tie order differs from sort.Sort", n, k)
			}
			if !reflect.DeepEqual(gotLog, wantLog) {
				t.Fatalf("SortFunc n=%d k=%d: less call sequence differs", n, k)
			}

			// --- SortDescFunc
			gotLog, wantLog = nil, nil
			got = clone(orig)
			slices.SortDescFunc(got, recording(&gotLog))
			if !sameMultiset(orig, got) || !ordered(got, flip(lessItem)) {
				t.Fatalf("SortDescFunc n=%d k=%d: bad result", n, k)
			}
			want = clone(orig)
			sort.Sort(sort.Reverse(refAdapter[item]{want, recording(&wantLog)}))
			if !reflect.DeepEqual(got, want) {
				t.Fatalf("SortDescFunc n=%d k=%d: tie order differs from sort.Sort(Reverse)", n, k)
			}
			if !reflect.DeepEqual(gotLog, wantLog) {
				t.Fatalf("SortDescFunc n=%d k=%d: less call sequence differs", n, k)
			}

			// --- SortStableFunc: equals the insertion-sort model exactly
			gotLog, wantLog = nil, nil
			got = clone(orig)
			slices.SortStableFunc(got, recording(&gotLog))
			if !sameMultiset(orig, got) || !ordered(got, lessItem) {
				t.Fatalf("SortStableFunc n=%d k=%d: bad result", n, k)
			}
			if model := stableModel(orig, lessItem); !reflect.DeepEqual(got, model) {
				t.Fatalf("SortStableFunc n=%d k=%d: not stable\n got %v\nwant %v", n, k, got, model)
			}
			for i := 1; i < len(got); i++ {
				if got[i-1].key == got[i].key && got[i-1].tag > got[i].tag {
					t.Fatalf("SortStableFunc n=%d k=%d: ties reordered at %d", n, k, i)
				}
			}
			want = clone(orig)
			sort.Stable(refAdapter[item]{want, recording(&wantLog)})
			if !reflect.DeepEqual(gotLog, wantLog) {
				t.Fatalf("SortStableFunc n=%d k=%d: less call sequence differs", n, k)
			}

			// --- SortStableDescFunc: descending, ties in original order
			gotLog, wantLog = nil, nil
			got = clone(orig)
			slices.SortStableDescFunc(got, recording(&gotLog))
			if !sameMultiset(orig, got) || !ordered(got, flip(lessItem)) {
				t.Fatalf("SortStableDescFunc n=%d k=%d: bad result", n, k)
			}
			if model := stableModel(orig, flip(lessItem)); !reflect.DeepEqual(got, model) {
				t.Fatalf("SortStableDescFunc n=%d k=%d: not stable\n got %v\nwant %v", n, k, got, model)
			}
			for i := 1; i < len(got); i++ {
				if got[i-1].key == got[i].key && got[i-1].tag > got[i].tag {
					t.Fatalf("SortStableDescFunc n=%d k=%d: ties reordered at %d", n, k, i)
				}
			}
			want = clone(orig)
			sort.Stable(sort.Reverse(refAdapter[item]{want, recording(&wantLog)}))
			if !reflect.DeepEqual(gotLog, wantLog) {
				t.Fatalf("SortStableDescFunc n=%d k=%d: less call sequence differs", n, k)
			}
		}
	}
}

func TestSortFuncPatterns(t *testing.T) {
	// hand-picked patterns: sorted, reversed, all equal, organ pipe, sawtooth
	patterns := map[string]func(n int) []item{
		"sorted": func(n int) []item {
			s := make([]item, n)
			for i := range s {
				s[i] = item{i / 3, i}
			}
			return s
		},
		"reversed": func(n int) []item {
			s := make([]item, n)
			for i := range s {
				s[i] = item{(n - i) / 3, i}
			}
			return s
		},
		"equal": func(n int) []item {
			s := make([]item, n)
			for i := range s {
				s[i] = item{7, i}
			}
			return s
		},
		"pipe": func(n int) []item {
			s := make([]item, n)
			for i := range s {
				k := i
				if i > n/2 {
					k = n - i
				}
				s[i] = item{k, i}
			}
			return s
		},
		"saw": func(n int) []item {
			s := make([]item, n)
			for i := range s {
				s[i] = item{i % 5, i}
			}
			return s
		},
	}
	for name, gen := range patterns {
		for _, n := range lengths {
			orig := gen(n)

			a := items(clone(orig)) // named slice type
			slices.SortStableFunc(a, lessItem)
			if !reflect.DeepEqual([]item(a), stableModel(orig, lessItem)) {
				t.Fatalf("%s n=%d SortStableFunc mismatch", name, n)
			}
			d := items(clone(orig))
			slices.SortStableDescFunc(d, lessItem)
			if !reflect.DeepEqual([]item(d), stableModel(orig, flip(lessItem))) {
				t.Fatalf("%s n=%d SortStableDescFunc mismatch", name, n)
			}

			u := items(clone(orig))
			slices.SortFunc(u, lessItem)
			w := clone(orig)
			sort.Sort(refAdapter[item]{w, lessItem})
			if !reflect.DeepEqual([]item(u), w) || !ordered(u, lessItem) || !sameMultiset(orig, u) {
				t.Fatalf("%s n=%d SortFunc mismatch", name, n)
			}
			ud := items(clone(orig))
			slices.SortDescFunc(ud, lessItem)
			w = clone(orig)
			sort.Sort(sort.Reverse(refAdapter[item]{w, lessItem}))
			if !reflect.DeepEqual([]item(ud), w) || !ordered(ud, flip(lessItem)) || !sameMultiset(orig, ud) {
				t.Fatalf("%s n=%d SortDescFunc mismatch", name, n)
			}
		}
	}
}

// Sorting a sub-slice must not touch the elements around it.
func TestSortSubslice(t *testing.T) {
	base := []int{9, 8, 7, 6, 5, 4, 3, 2, 1, 0}
	slices.Sort(base[2:6])
	if !reflect.DeepEqual(base, []int{9, 8, 4, 5, 6, 7, 3, 2, 1, 0}) {
		t.Fatalf("Sort sub: %v", base)
	}
	slices.SortDesc(base[6:9:9])
	if !reflect.DeepEqual(base, []int{9, 8, 4, 5, 6, 7, 3, 2, 1, 0}) {
		t.Fatalf("SortDesc sub: %v", base)
	}
	lt := func(a, b int) bool { return a < b }
	slices.SortFunc(base[0:3], lt)
	slices.SortDescFunc(base[3:6], lt)
	slices.SortStableFunc(base[6:8], lt)
	slices.SortStableDescFunc(base[8:], lt)
	if !reflect.DeepEqual(base, []int{4, 8, 9, 7, 6, 5, 2, 3, 1, 0}) {
		t.Fatalf("Func sub: %v", base)
	}
}

func TestSortNilLessAndPanics(t *testing.T) {
	type sorter struct {
		name string
		f    func(s []int, less func(a, b int) bool)
	}
	sorters := []sorter{
		{"SortFunc", func(s []int, l func(a, b int) bool) { slices.SortFunc(s, l) }},
		{"SortDescFunc", func(s []int, l func(a, b int) bool) { slices.SortDescFunc(s, l) }},
		{"SortStableFunc", func(s []int, l func(a, b int) bool) { slices.SortStableFunc(s, l) }},
		{"SortStableDescFunc", func(s []int, l func(a, b int) bool) { slices.SortStableDescFunc(s, l) }},
	}
	for _, s := range sorters {
		// a nil less is never called for fewer than two elements
		for _, in := range [][]int{nil, {}, {1}} {
			if r := catch(func() { s.f(in, nil) }); r != nil {
				t.Fatalf("%s(len %d, nil): unexpected panic %v", s.name, len(in), r)
			}
		}
		if r := catch(func() { s.f([]int{2, 1}, nil) }); r == nil {
			t.Fatalf("%s(len 2, nil): expected panic", s.name)
		}
		// a panic of less propagates unchanged, the slice stays a permutation
		in := []int{5, 4, 3, 2, 1}
		calls := 0
		r := catch(func() {
			s.f(in, func(a, b int) bool {
				calls++
				if calls == 3 {
					panic("boom")
				}
				return a < b
			})
		})
		if r != "boom" {
			t.Fatalf("%s: panic value %v", s.name, r)
		}
		if !sameMultiset(in, []int{1, 2, 3, 4, 5}) {
			t.Fatalf("%s: slice lost elements after panic: %v", s.name, in)
		}
	}
}

// ---------------------------------------------------------------------------
// BinarySearch / BinarySearchFunc

func lowerBoundModel(s []int, v int) int {
	for i, e := range s {
		if e >= v {
			return i
		}
	}
	return len(s)
}

func TestBinarySearch(t *testing.T) {
	rng := rand.New(rand.NewSource(4))
	for n := 0; n <= 70; n++ {
		for _, k := range []int{1, 2, 4, 16, 1000} {
			s := genInts(rng, n, k)
			sort.Ints(s)
			for v := -k/2 - 2; v <= k/2+2; v++ {
				if k == 1000 && v%37 != 0 && n > 0 && v != s[0] && v != s[n-1] {
					continue
				}
				want := lowerBoundModel(s, v)
				if got := slices.BinarySearch(s, v); got != want {
					t.Fatalf("BinarySearch(%v, %d) = %d want %d", s, v, got, want)
				}
				got := slices.BinarySearchFunc(s, func(a int) bool { return a < v })
				if got != want {
					t.Fatalf("BinarySearchFunc(%v, <%d) = %d want %d", s, v, got, want)
				}
			}
		}
	}
	// all duplicates, big
	s := make([]int, 1025)
	for i := range s {
		s[i] = 4
	}
	for v, want := range map[int]int{3: 0, 4: 0, 5: 1025} {
		if got := slices.BinarySearch(s, v); got != want {
			t.Fatalf("dups BinarySearch %d = %d want %d", v, got, want)
		}
		if got := slices.BinarySearchFunc(s, func(a int) bool { return a < v }); got != want {
			t.Fatalf("dups BinarySearchFunc %d = %d want %d", v, got, want)
		}
	}
	// nil / empty
	if got := slices.BinarySearch([]int(nil), 1); got != 0 {
		t.Fatalf("nil BinarySearch = %d", got)
	}
	if got := slices.BinarySearchFunc([]int{}, func(int) bool { panic("must not be called") }); got != 0 {
		t.Fatalf("empty BinarySearchFunc = %d", got)
	}
	if r := catch(func() { slices.BinarySearchFunc([]int(nil), nil) }); r != nil {
		t.Fatalf("BinarySearchFunc(nil, nil) panicked: %v", r)
	}
	if r := catch(func() { slices.BinarySearchFunc([]int{1}, nil) }); r == nil {
		t.Fatalf("BinarySearchFunc(len 1, nil) should panic")
	}
	// named slice and strings
	type names []string
	ns := names{"a", "b", "b", "d"}
	for v, want := range map[string]int{"": 0, "a": 0, "b": 1, "c": 3, "d": 3, "e": 4} {
		if got := slices.BinarySearch(ns, v); got != want {
			t.Fatalf("BinarySearch(%q) = %d want %d", v, got, want)
		}
	}
	// tagged elements: the first of the matching run is found
	its := items{{1, 0}, {3, 1}, {3, 2}, {3, 3}, {8, 4}}
	if got := slices.BinarySearchFunc(its, func(a item) bool { return a.key < 3 }); got != 1 {
		t.Fatalf("BinarySearchFunc first match = %d", got)
	}
}

// The elements handed to less, in order, are those sort.Search would probe.
func TestBinarySearchFuncProbes(t *testing.T) {
	for n := 0; n <= 40; n++ {
		s := make([]int, n)
		for i := range s {
			s[i] = 2 * i
		}
		for v := -1; v <= 2*n+1; v++ {
			var got, want []int
			gi := slices.BinarySearchFunc(s, func(a int) bool {
				got = append(got, a)
				return a < v
			})
			wi := sort.Search(n, func(i int) bool {
				want = append(want, s[i])
				return !(s[i] < v)
			})
			if gi != wi || !reflect.DeepEqual(got, want) {
				t.Fatalf("n=%d v=%d: index %d/%d probes %v/%v", n, v, gi, wi, got, want)
			}
		}
	}
}

// With NaN around, the answer is whatever the predicate s[i] >= v gives.
func TestBinarySearchNaN(t *testing.T) {
	nan := math.NaN()
	cases := [][]float64{
		{1, 2, 3},
		{nan, 1, 2, 3},
		{1, nan, 2, 3},
		{1, 2, 3, nan},
		{nan, nan, nan},
		{1, 2, nan, nan, 5, 6, 7},
	}
	for _, s := range cases {
		for _, v := range []float64{nan, 0, 1, 2, 2.5, 3, 6, 9, math.Inf(1), math.Inf(-1)} {
			want := sort.Search(len(s), func(i int) bool { return s[i] >= v })
			if got := slices.BinarySearch(s, v); got != want {
				t.Fatalf("BinarySearch(%v, %v) = %d want %d", s, v, got, want)
			}
		}
	}
}

// ---------------------------------------------------------------------------
// Shuffle / ShuffleRand / Reverse

func TestShuffleRand(t *testing.T) {
	for _, n := range lengths {
		orig := make([]int, n)
		for i := range orig {
			orig[i] = i / 2 // duplicates
		}
		for seed := int64(0); seed < 5; seed++ {
			got := clone(orig)
			r1 := rand.New(rand.NewSource(seed))
			slices.ShuffleRand(got, r1)
			if !sameMultiset(orig, got) {
				t.Fatalf("ShuffleRand n=%d: not a permutation", n)
			}
			// deterministic function of the generator: equals rand.Shuffle
			// with a plain swap and leaves the generator in the same state
			want := clone(orig)
			r2 := rand.New(rand.NewSource(seed))
			r2.Shuffle(len(want), func(i, j int) { want[i], want[j] = want[j], want[i] })
			if !reflect.DeepEqual(got, want) {
				t.Fatalf("ShuffleRand n=%d seed=%d: got %v want %v", n, seed, got, want)
			}
			if a, b := r1.Int63(), r2.Int63(); a != b {
				t.Fatalf("ShuffleRand n=%d seed=%d: generator state differs", n, seed)
			}
			// and repeatable
			again := clone(orig)
			slices.ShuffleRand(again, rand.New(rand.NewSource(seed)))
			if !reflect.DeepEqual(got, again) {
				t.Fatalf("ShuffleRand n=%d seed=%d: not repeatable", n, seed)
			}
		}
	}
	// tagged, named slice type
	its := items(genItems(rand.New(rand.NewSource(9)), 40, 3))
	before := clone([]item(its))
	slices.ShuffleRand(its, rand.New(rand.NewSource(10)))
	if !sameMultiset(before, []item(its)) {
		t.Fatal("ShuffleRand items: not a permutation")
	}
	if reflect.DeepEqual(before, []item(its)) {
		t.Fatal("ShuffleRand items: 40 elements left in place")
	}
	// a nil generator is only touched when there is something to swap
	for _, in := range [][]int{nil, {}, {1}} {
		if r := catch(func() { slices.ShuffleRand(in, nil) }); r != nil {
			t.Fatalf("ShuffleRand(len %d, nil) panicked: %v", len(in), r)
		}
	}
	if r := catch(func() { slices.ShuffleRand([]int{1, 2}, nil) }); r == nil {
		t.Fatal("ShuffleRand(len 2, nil) should panic")
	}
}

func TestShuffleGlobal(t *testing.T) {
	for _, n := range lengths {
		orig := make([]int, n)
		for i := range orig {
			orig[i] = i % 7
		}
		got := clone(orig)
		slices.Shuffle(got)
		if !sameMultiset(orig, got) {
			t.Fatalf("Shuffle n=%d: not a permutation", n)
		}
	}
	slices.Shuffle([]string(nil))
	slices.Shuffle([]string{})
	one := []string{"x"}
	slices.Shuffle(one)
	if one[0] != "x" {
		t.Fatal("Shuffle of one element")
	}
	// 64 distinct elements: staying in place has probability 1/64!
	big := make([]int, 64)
	for i := range big {
		big[i] = i
	}
	slices.Shuffle(big)
	if sort.IntsAreSorted(big) {
		t.Fatal("Shuffle left 64 elements in place")
	}
	sort.Ints(big)
	for i := range big {
		if big[i] != i {
			t.Fatal("Shuffle lost elements")
		}
	}
}

func TestReverse(t *testing.T) {
	for n := 0; n <= 33; n++ {
		s := make([]int, n)
		for i := range s {
			s[i] = i
		}
		slices.Reverse(s)
		for i := range s {
			if s[i] != n-1-i {
				t.Fatalf("Reverse n=%d: %v", n, s)
			}
		}
	}
	slices.Reverse([]int(nil))
	sub := []int{0, 1, 2, 3, 4, 5}
	slices.Reverse(sub[1:4])
	if !reflect.DeepEqual(sub, []int{0, 3, 2, 1, 4, 5}) {
		t.Fatalf("Reverse sub: %v", sub)
	}
}

// ---------------------------------------------------------------------------
// Concurrent use on disjoint slices: the helpers keep no shared state.

func TestConcurrentDisjoint(t *testing.T) {
	shared := make([]int, 200)
	for i := range shared {
		shared[i] = i / 2
	}
	var wg sync.WaitGroup
	errs := make(chan error, 4096)
	for g := 0; g < 8; g++ {
		wg.Add(1)
		go func(g int) {
			defer wg.Done()
			rng := rand.New(rand.NewSource(int64(100 + g)))
			for it := 0; it < 30; it++ {
				orig := genItems(rng, 1+rng.Intn(300), 1+rng.Intn(6))
				a := clone(orig)
				switch it % 4 {
				case 0:
					slices.SortStableFunc(a, lessItem)
					if !reflect.DeepEqual(a, stableModel(orig, lessItem)) {
						errs <- fmt.Errorf("g%d: SortStableFunc", g)
					}
				case 1:
					slices.SortStableDescFunc(a, lessItem)
					if !reflect.DeepEqual(a, stableModel(orig, flip(lessItem))) {
						errs <- fmt.Errorf("g%d: SortStableDescFunc", g)
					}
				case 2:
					slices.SortFunc(a, lessItem)
					if !ordered(a, lessItem) || !sameMultiset(orig, a) {
						errs <- fmt.Errorf("g%d: SortFunc", g)
					}
				case 3:
					slices.SortDescFunc(a, lessItem)
					if !ordered(a, flip(lessItem)) || !sameMultiset(orig, a) {
						errs <- fmt.Errorf("g%d: SortDescFunc", g)
					}
				}
				ints := genInts(rng, rng.Intn(200), 20)
				slices.Sort(ints)
				if !sort.IntsAreSorted(ints) {
					errs <- fmt.Errorf("g%d: Sort", g)
				}
				slices.ShuffleRand(ints, rng)
				slices.Shuffle(ints)
				slices.SortDesc(ints)
				slices.Reverse(ints)
				if !sort.IntsAreSorted(ints) {
					errs <- fmt.Errorf("g%d: SortDesc+Reverse", g)
				}
				// read-only searches of one shared sorted slice
				v := rng.Intn(102) - 1
				want := lowerBoundModel(shared, v)
				if got := slices.BinarySearch(shared, v); got != want {
					errs <- fmt.Errorf("g%d: BinarySearch", g)
				}
				if got := slices.BinarySearchFunc(shared, func(a int) bool { return a < v }); got != want {
					errs <- fmt.Errorf("g%d: BinarySearchFunc", g)
				}
			}
		}(g)
	}
	wg.Wait()
	close(errs)
	for err := range errs {
		t.Error(err)
	}
}
