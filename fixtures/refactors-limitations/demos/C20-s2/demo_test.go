package demo_test

import (
	"math"
	"math/big"
	"runtime"
	"strconv"
	"strings"
	"sync"
	"sync/atomic"
	"testing"
	"time"
	"unsafe"

	"gopkg.in/typ.v4"
)

// ---------------------------------------------------------------------------
// helpers

type myI8 int8
type myU16 uint16
type myF64 float64
type myStr string

func catch(f func()) (r any) {
	defer func() { r = recover() }()
	f()
	return nil
}

type failer struct {
	t *testing.T
	n int32
}

// failf reports at most a handful of failures so that an exhaustive loop does
// not flood the output.
func (f *failer) failf(format string, args ...any) {
	if atomic.AddInt32(&f.n, 1) <= 20 {
		f.t.Errorf(format, args...)
	}
}

func (f *failer) failed() bool { return atomic.LoadInt32(&f.n) > 0 }

func isSigned[T typ.Integer]() bool {
	var zero T
	return zero-1 < zero
}

func bitsOf[T typ.Integer]() uint {
	var zero T
	return uint(unsafe.Sizeof(zero)) * 8
}

func toBig[T typ.Integer](v T) *big.Int {
	if isSigned[T]() {
		return big.NewInt(int64(v))
	}
	return new(big.Int).SetUint64(uint64(v))
}

// wrap converts an arbitrary integer to T with two's complement wrapping.
func wrap[T typ.Integer](x *big.Int) T {
	mask := new(big.Int).Sub(new(big.Int).Lsh(big.NewInt(1), 64), big.NewInt(1))
	u := new(big.Int).And(x, mask).Uint64() // big.Int.And uses two's complement semantics for negatives
	return T(u)
}

func rangeOf[T typ.Integer]() (lo, hi *big.Int) {
	b := bitsOf[T]()
	if isSigned[T]() {
		hi = new(big.Int).Sub(new(big.Int).Lsh(big.NewInt(1), b-1), big.NewInt(1))
		lo = new(big.Int).Neg(new(big.Int).Lsh(big.NewInt(1), b-1))
		return
	}
	return big.NewInt(0), new(big.Int).Sub(new(big.Int).Lsh(big.NewInt(1), b), big.NewInt(1))
}

// samples returns boundary-dense samples of T: 0, +-1, powers of ten +-1,
// powers of two +-1 and the extremes.
func samples[T typ.Integer](dense bool) []T {
	lo, hi := rangeOf[T]()
	var cands []*big.Int
	add := func(x *big.Int) {
		for _, d := range []int64{-2, -1, 0, 1, 2} {
			y := new(big.Int).Add(x, big.NewInt(d))
			cands = append(cands, y, new(big.Int).Neg(y))
		}
	}
	add(big.NewInt(0))
	add(lo)
	add(hi)
	p := big.NewInt(1)
	for k := 0; k <= 20; k++ {
		add(p)
		if dense {
			add(new(big.Int).Mul(p, big.NewInt(5)))
			add(new(big.Int).Mul(p, big.NewInt(9)))
		}
		p = new(big.Int).Mul(p, big.NewInt(10))
	}
	if dense {
		for k := uint(0); k <= 64; k++ {
			add(new(big.Int).Lsh(big.NewInt(1), k))
		}
	}
	seen := map[string]bool{}
	var out []T
	for _, c := range cands {
		if c.Cmp(lo) < 0 || c.Cmp(hi) > 0 || seen[c.String()] {
			continue
		}
		seen[c.String()] = true
		out = append(out, wrap[T](c))
		if toBig(out[len(out)-1]).Cmp(c) != 0 {
			panic("samples: bad conversion")
		}
	}
	return out
}

// ---------------------------------------------------------------------------
// generic integer checks against math/big

func checkIntSingle[T typ.Integer](f *failer, name string, v T) {
	b := toBig(v)
	abs := new(big.Int).Abs(b)
	if got, want := typ.Digits10(v), len(abs.String()); got != want {
		f.failf("%s: Digits10(%v) = %d, want %d", name, v, got, want)
	}
	if got, want := typ.DigitsSign10(v), len(b.String()); got != want {
		f.failf("%s: DigitsSign10(%v) = %d, want %d", name, v, got, want)
	}
	// Abs: the magnitude where representable, otherwise (minimum of a signed
	// type) two's complement wrapping, i.e. the value itself.
	if got, want := typ.Abs(v), wrap[T](abs); got != want {
		f.failf("%s: Abs(%v) = %v, want %v", name, v, got, want)
	}
	var want01 T
	switch {
	case b.Sign() < 0:
		want01 = 0
	case b.Cmp(big.NewInt(1)) > 0:
		want01 = 1
	default:
		want01 = v
	}
	if got := typ.Clamp01(v); got != want01 {
		f.failf("%s: Clamp01(%v) = %v, want %v", name, v, got, want01)
	}
	if got := typ.Min(v); got != v {
		f.failf("%s: Min(%v) = %v", name, v, got)
	}
	if got := typ.Max(v); got != v {
		f.failf("%s: Max(%v) = %v", name, v, got)
	}
	if got := typ.Sum(v); got != v {
		f.failf("%s: Sum(%v) = %v", name, v, got)
	}
	if got := typ.Product(v); got != v {
		f.failf("%s: Product(%v) = %v", name, v, got)
	}
	if got := typ.IsZero(v); got != (b.Sign() == 0) {
		f.failf("%s: IsZero(%v) = %v", name, v, got)
	}
}

func checkIntPair[T typ.Integer](f *failer, name string, a, b T) {
	ba, bb := toBig(a), toBig(b)
	cmp := ba.Cmp(bb)
	if got := typ.Compare(a, b); got != cmp {
		f.failf("%s: Compare(%v,%v) = %d, want %d", name, a, b, got, cmp)
	}
	if got := typ.Less(a, b); got != (cmp < 0) {
		f.failf("%s: Less(%v,%v) = %v", name, a, b, got)
	}
	wantMin, wantMax := a, b
	if cmp > 0 {
		wantMin, wantMax = b, a
	}
	if got := typ.Min(a, b); got != wantMin {
		f.failf("%s: Min(%v,%v) = %v, want %v", name, a, b, got, wantMin)
	}
	if got := typ.Max(a, b); got != wantMax {
		f.failf("%s: Max(%v,%v) = %v, want %v", name, a, b, got, wantMax)
	}
	if got, want := typ.Sum(a, b), wrap[T](new(big.Int).Add(ba, bb)); got != want {
		f.failf("%s: Sum(%v,%v) = %v, want %v", name, a, b, got, want)
	}
	if got, want := typ.Product(a, b), wrap[T](new(big.Int).Mul(ba, bb)); got != want {
		f.failf("%s: Product(%v,%v) = %v, want %v", name, a, b, got, want)
	}
	var zero T
	wantCoal := zero
	if a != zero {
		wantCoal = a
	} else if b != zero {
		wantCoal = b
	}
	if got := typ.Coal(a, b); got != wantCoal {
		f.failf("%s: Coal(%v,%v) = %v, want %v", name, a, b, got, wantCoal)
	}
}

// modelClamp is the reference for Clamp: for lo <= hi the property's
// definition; for lo > hi (outside the property) the historical behaviour
// "below lo wins, then above hi".
func modelClamp[T typ.Ordered](v, lo, hi T) T {
	if lo <= hi {
		switch {
		case lo <= v && v <= hi:
			return v
		case v < lo:
			return lo
		default:
			return hi
		}
	}
	if v < lo {
		return lo
	}
	if v > hi {
		return hi
	}
	return v
}

func checkIntTriple[T typ.Integer](f *failer, name string, a, b, c T) {
	ba, bb, bc := toBig(a), toBig(b), toBig(c)
	mn, mx := a, a
	bmn, bmx := ba, ba
	for i, x := range []*big.Int{bb, bc} {
		v := []T{b, c}[i]
		if x.Cmp(bmn) < 0 {
			bmn, mn = x, v
		}
		if x.Cmp(bmx) > 0 {
			bmx, mx = x, v
		}
	}
	if got := typ.Min(a, b, c); got != mn {
		f.failf("%s: Min(%v,%v,%v) = %v, want %v", name, a, b, c, got, mn)
	}
	if got := typ.Max(a, b, c); got != mx {
		f.failf("%s: Max(%v,%v,%v) = %v, want %v", name, a, b, c, got, mx)
	}
	if got, want := typ.Clamp(a, b, c), modelClamp(a, b, c); got != want {
		f.failf("%s: Clamp(%v,%v,%v) = %v, want %v", name, a, b, c, got, want)
	}
	s := new(big.Int).Add(ba, bb)
	s.Add(s, bc)
	if got, want := typ.Sum(a, b, c), wrap[T](s); got != want {
		f.failf("%s: Sum(%v,%v,%v) = %v, want %v", name, a, b, c, got, want)
	}
	p := new(big.Int).Mul(ba, bb)
	p.Mul(p, bc)
	if got, want := typ.Product(a, b, c), wrap[T](p); got != want {
		f.failf("%s: Product(%v,%v,%v) = %v, want %v", name, a, b, c, got, want)
	}
}

func checkIntType[T typ.Integer](t *testing.T, name string) {
	f := &failer{t: t}
	dense := samples[T](true)
	for _, v := range dense {
		checkIntSingle(f, name, v)
	}
	for _, a := range dense {
		for _, b := range dense {
			checkIntPair(f, name, a, b)
		}
	}
	sparse := samples[T](false)
	if len(sparse) > 48 {
		// keep the cubic loop small: every other sample plus the extremes.
		var s2 []T
		for i, v := range sparse {
			if i < 30 || i%3 == 0 {
				s2 = append(s2, v)
			}
		}
		sparse = s2
	}
	for _, a := range sparse {
		for _, b := range sparse {
			for _, c := range sparse {
				checkIntTriple(f, name, a, b, c)
			}
		}
	}
	// no arguments
	if got := typ.Sum[T](); got != 0 {
		f.failf("%s: Sum() = %v", name, got)
	}
	if got := typ.Product[T](); got != 1 {
		f.failf("%s: Product() = %v", name, got)
	}
	if got := typ.Coal[T](); got != 0 {
		f.failf("%s: Coal() = %v", name, got)
	}
	if got := typ.Zero[T](); got != 0 {
		f.failf("%s: Zero() = %v", name, got)
	}
	if r := catch(func() { typ.Min[T]() }); r != any("typ.Min: at least one argument is required") {
		f.failf("%s: Min() panic = %#v", name, r)
	}
	if r := catch(func() { typ.Max[T]() }); r != any("typ.Max: at least one argument is required") {
		f.failf("%s: Max() panic = %#v", name, r)
	}
	if r := catch(func() { typ.Min([]T{}...) }); r != any("typ.Min: at least one argument is required") {
		f.failf("%s: Min(empty...) panic = %#v", name, r)
	}
	if r := catch(func() { typ.Max([]T(nil)...) }); r != any("typ.Max: at least one argument is required") {
		f.failf("%s: Max(nil...) panic = %#v", name, r)
	}
	// longer argument lists, passed as a slice with spare capacity; the
	// slice must not be modified.
	long := make([]T, 0, len(dense)+7)
	long = append(long, dense...)
	orig := append([]T(nil), long...)
	bmn, bmx := toBig(long[0]), toBig(long[0])
	sum, prod := big.NewInt(0), big.NewInt(1)
	for _, v := range long {
		b := toBig(v)
		if b.Cmp(bmn) < 0 {
			bmn = b
		}
		if b.Cmp(bmx) > 0 {
			bmx = b
		}
		sum.Add(sum, b)
		prod.Mul(prod, b)
	}
	if got := typ.Min(long...); toBig(got).Cmp(bmn) != 0 {
		f.failf("%s: Min(long...) = %v, want %v", name, got, bmn)
	}
	if got := typ.Max(long...); toBig(got).Cmp(bmx) != 0 {
		f.failf("%s: Max(long...) = %v, want %v", name, got, bmx)
	}
	if got, want := typ.Sum(long...), wrap[T](sum); got != want {
		f.failf("%s: Sum(long...) = %v, want %v", name, got, want)
	}
	if got, want := typ.Product(long...), wrap[T](prod); got != want {
		f.failf("%s: Product(long...) = %v, want %v", name, got, want)
	}
	for i := range long {
		if long[i] != orig[i] {
			f.failf("%s: argument slice modified at %d", name, i)
		}
	}
}

func TestIntegerTypesSamples(t *testing.T) {
	checkIntType[int8](t, "int8")
	checkIntType[int16](t, "int16")
	checkIntType[int32](t, "int32")
	checkIntType[int64](t, "int64")
	checkIntType[int](t, "int")
	checkIntType[uint8](t, "uint8")
	checkIntType[uint16](t, "uint16")
	checkIntType[uint32](t, "uint32")
	checkIntType[uint64](t, "uint64")
	checkIntType[uint](t, "uint")
	checkIntType[uintptr](t, "uintptr")
	checkIntType[myI8](t, "myI8")
	checkIntType[myU16](t, "myU16")
}

// ---------------------------------------------------------------------------
// exhaustive 8-bit and 16-bit checks (strconv based)

func refDigitsSigned(v int64) (digits, withSign int) {
	s := strconv.FormatInt(v, 10)
	if s[0] == '-' {
		return len(s) - 1, len(s)
	}
	return len(s), len(s)
}

func checkSmallSigned[T typ.Signed](f *failer, name string, v T) {
	d, ds := refDigitsSigned(int64(v))
	if got := typ.Digits10(v); got != d {
		f.failf("%s: Digits10(%d) = %d, want %d", name, v, got, d)
	}
	if got := typ.DigitsSign10(v); got != ds {
		f.failf("%s: DigitsSign10(%d) = %d, want %d", name, v, got, ds)
	}
	wantAbs := v
	if v < 0 {
		wantAbs = T(-int64(v)) // wraps for the minimum
	}
	if got := typ.Abs(v); got != wantAbs {
		f.failf("%s: Abs(%d) = %d, want %d", name, v, got, wantAbs)
	}
	if got, want := typ.Clamp01(v), modelClamp(v, 0, 1); got != want {
		f.failf("%s: Clamp01(%d) = %d, want %d", name, v, got, want)
	}
}

func checkSmallUnsigned[T typ.Unsigned](f *failer, name string, v T) {
	d := len(strconv.FormatUint(uint64(v), 10))
	if got := typ.Digits10(v); got != d {
		f.failf("%s: Digits10(%d) = %d, want %d", name, v, got, d)
	}
	if got := typ.DigitsSign10(v); got != d {
		f.failf("%s: DigitsSign10(%d) = %d, want %d", name, v, got, d)
	}
	if got := typ.Abs(v); got != v {
		f.failf("%s: Abs(%d) = %d", name, v, got)
	}
	if got, want := typ.Clamp01(v), modelClamp(v, 0, 1); got != want {
		f.failf("%s: Clamp01(%d) = %d, want %d", name, v, got, want)
	}
}

func TestExhaustive8And16Single(t *testing.T) {
	f := &failer{t: t}
	for i := math.MinInt8; i <= math.MaxInt8; i++ {
		checkSmallSigned(f, "int8", int8(i))
		checkSmallSigned(f, "myI8", myI8(i))
		checkIntSingle(f, "int8", int8(i))
	}
	for i := 0; i <= math.MaxUint8; i++ {
		checkSmallUnsigned(f, "uint8", uint8(i))
		checkIntSingle(f, "uint8", uint8(i))
	}
	for i := math.MinInt16; i <= math.MaxInt16; i++ {
		checkSmallSigned(f, "int16", int16(i))
		checkIntSingle(f, "int16", int16(i))
	}
	for i := 0; i <= math.MaxUint16; i++ {
		checkSmallUnsigned(f, "uint16", uint16(i))
		checkSmallUnsigned(f, "myU16", myU16(i))
		checkIntSingle(f, "uint16", uint16(i))
	}
	// the cases called out by the property
	if got := typ.Digits10(int8(-128)); got != 3 {
		t.Errorf("Digits10(int8(-128)) = %d", got)
	}
	if got := typ.DigitsSign10(int8(-128)); got != 4 {
		t.Errorf("DigitsSign10(int8(-128)) = %d", got)
	}
	if got := typ.Digits10(int64(math.MinInt64)); got != 19 {
		t.Errorf("Digits10(MinInt64) = %d", got)
	}
	if got := typ.DigitsSign10(int64(math.MinInt64)); got != 20 {
		t.Errorf("DigitsSign10(MinInt64) = %d", got)
	}
	if got := typ.Digits10(uint64(math.MaxUint64)); got != 20 {
		t.Errorf("Digits10(MaxUint64) = %d", got)
	}
}

// fast 8-bit models, plain integer arithmetic in a wider type.

func check8Pair[T int8 | uint8](f *failer, name string, a, b T) {
	ia, ib := int(a), int(b)
	wantCmp := 0
	if ia < ib {
		wantCmp = -1
	} else if ia > ib {
		wantCmp = 1
	}
	if got := typ.Compare(a, b); got != wantCmp {
		f.failf("%s: Compare(%d,%d) = %d", name, a, b, got)
	}
	if got := typ.Less(a, b); got != (ia < ib) {
		f.failf("%s: Less(%d,%d) = %v", name, a, b, got)
	}
	mn, mx := ia, ib
	if mn > mx {
		mn, mx = mx, mn
	}
	if got := typ.Min(a, b); int(got) != mn {
		f.failf("%s: Min(%d,%d) = %d", name, a, b, got)
	}
	if got := typ.Max(a, b); int(got) != mx {
		f.failf("%s: Max(%d,%d) = %d", name, a, b, got)
	}
	if got := typ.Sum(a, b); got != T(ia+ib) {
		f.failf("%s: Sum(%d,%d) = %d", name, a, b, got)
	}
	if got := typ.Product(a, b); got != T(ia*ib) {
		f.failf("%s: Product(%d,%d) = %d", name, a, b, got)
	}
}

func check8Triple[T int8 | uint8](f *failer, name string, a, b, c T) {
	ia, ib, ic := int(a), int(b), int(c)
	mn, mx := ia, ia
	if ib < mn {
		mn = ib
	}
	if ic < mn {
		mn = ic
	}
	if ib > mx {
		mx = ib
	}
	if ic > mx {
		mx = ic
	}
	if got := typ.Min(a, b, c); int(got) != mn {
		f.failf("%s: Min(%d,%d,%d) = %d", name, a, b, c, got)
	}
	if got := typ.Max(a, b, c); int(got) != mx {
		f.failf("%s: Max(%d,%d,%d) = %d", name, a, b, c, got)
	}
	if got, want := typ.Clamp(a, b, c), modelClamp(a, b, c); got != want {
		f.failf("%s: Clamp(%d,%d,%d) = %d, want %d", name, a, b, c, got, want)
	}
	if got := typ.Sum(a, b, c); got != T(ia+ib+ic) {
		f.failf("%s: Sum(%d,%d,%d) = %d", name, a, b, c, got)
	}
	if got := typ.Product(a, b, c); got != T(ia*ib*ic) {
		f.failf("%s: Product(%d,%d,%d) = %d", name, a, b, c, got)
	}
}

func TestExhaustive8PairsTriples(t *testing.T) {
	f := &failer{t: t}
	var wg sync.WaitGroup
	for i := 0; i < 256; i++ {
		wg.Add(1)
		go func(i int) {
			defer wg.Done()
			for j := 0; j < 256; j++ {
				check8Pair(f, "int8", int8(i), int8(j))
				check8Pair(f, "uint8", uint8(i), uint8(j))
				for k := 0; k < 256; k++ {
					check8Triple(f, "int8", int8(i), int8(j), int8(k))
					check8Triple(f, "uint8", uint8(i), uint8(j), uint8(k))
				}
				if f.failed() {
					return
				}
			}
		}(i)
	}
	wg.Wait()
}

// ---------------------------------------------------------------------------
// exhaustive 32-bit checks of the single-argument functions.
//
// The reference for the digit count is a step function: walking magnitudes
// upwards the count grows by one exactly at each power of ten. The walk is
// seeded and regularly cross-checked with strconv.

func TestExhaustive32Single(t *testing.T) {
	f := &failer{t: t}
	const total = uint64(1) << 32
	workers := uint64(runtime.GOMAXPROCS(0))
	if workers < 1 {
		workers = 1
	}
	chunk := (total + workers - 1) / workers
	var wg sync.WaitGroup
	for w := uint64(0); w < workers; w++ {
		lo, hi := w*chunk, (w+1)*chunk
		if hi > total {
			hi = total
		}
		if lo >= hi {
			continue
		}
		wg.Add(1)
		go func(lo, hi uint64) {
			defer wg.Done()
			d := len(strconv.FormatUint(lo, 10))
			next := uint64(1)
			for i := 0; i < d; i++ {
				next *= 10
			}
			for m := lo; m < hi; m++ {
				if m == next {
					d++
					next *= 10
				}
				if m&0xFFFFF == 0 {
					if want := len(strconv.FormatUint(m, 10)); want != d {
						f.failf("reference walk broken at %d: %d vs %d", m, d, want)
						return
					}
					if f.failed() {
						return
					}
				}
				u := uint32(m)
				if typ.Digits10(u) != d || typ.DigitsSign10(u) != d {
					f.failf("uint32 %d: Digits10=%d DigitsSign10=%d want %d", u, typ.Digits10(u), typ.DigitsSign10(u), d)
				}
				if typ.Abs(u) != u {
					f.failf("Abs(uint32 %d) = %d", u, typ.Abs(u))
				}
				wantU01 := u
				if u > 1 {
					wantU01 = 1
				}
				if typ.Clamp01(u) != wantU01 {
					f.failf("Clamp01(uint32 %d) = %d", u, typ.Clamp01(u))
				}
				if m <= math.MaxInt32 {
					p := int32(m)
					if typ.Digits10(p) != d || typ.DigitsSign10(p) != d {
						f.failf("int32 %d: Digits10=%d DigitsSign10=%d want %d", p, typ.Digits10(p), typ.DigitsSign10(p), d)
					}
					if typ.Abs(p) != p {
						f.failf("Abs(int32 %d) = %d", p, typ.Abs(p))
					}
					want01 := p
					if p > 1 {
						want01 = 1
					}
					if typ.Clamp01(p) != want01 {
						f.failf("Clamp01(int32 %d) = %d", p, typ.Clamp01(p))
					}
				}
				if m >= 1 && m <= 1<<31 {
					n := int32(-int64(m))
					if typ.Digits10(n) != d || typ.DigitsSign10(n) != d+1 {
						f.failf("int32 %d: Digits10=%d DigitsSign10=%d want %d/%d", n, typ.Digits10(n), typ.DigitsSign10(n), d, d+1)
					}
					if wantAbs := int32(m); typ.Abs(n) != wantAbs { // int32(1<<31) wraps to the minimum
						f.failf("Abs(int32 %d) = %d, want %d", n, typ.Abs(n), wantAbs)
					}
					if typ.Clamp01(n) != 0 {
						f.failf("Clamp01(int32 %d) = %d", n, typ.Clamp01(n))
					}
				}
				// float32 with this bit pattern
				fl := math.Float32frombits(u)
				wantAbsBits, want01Bits := u, u
				if fl < 0 {
					wantAbsBits = u &^ (1 << 31)
					want01Bits = 0
				} else if fl > 1 {
					want01Bits = 0x3f800000
				}
				if got := math.Float32bits(typ.Abs(fl)); got != wantAbsBits {
					f.failf("Abs(float32 bits %#x) = %#x, want %#x", u, got, wantAbsBits)
				}
				if got := math.Float32bits(typ.Clamp01(fl)); got != want01Bits {
					f.failf("Clamp01(float32 bits %#x) = %#x, want %#x", u, got, want01Bits)
				}
			}
		}(lo, hi)
	}
	wg.Wait()
}

// ---------------------------------------------------------------------------
// floats, complex numbers and strings

func f64Samples() []float64 {
	base := []float64{0, 1, 0.5, 2, 10, 1e2 - 1, 1e2, 1e2 + 1, 1e15, 1e15 + 1, 1e300,
		math.SmallestNonzeroFloat64, math.MaxFloat64, math.Inf(1),
		math.Nextafter(1, 2), math.Nextafter(1, 0), math.Pi}
	var out []float64
	for _, b := range base {
		out = append(out, b, -b)
	}
	return out
}

func sameF64(a, b float64) bool {
	if a != a && b != b {
		return true
	}
	return math.Float64bits(a) == math.Float64bits(b)
}

// scanMin/scanMax: left-to-right scan keeping the first of equal elements;
// for NaN-free input this returns an argument <= (>=) all the others.
func scanMin[T typ.Ordered](xs ...T) T {
	m := xs[0]
	for _, x := range xs {
		if x < m {
			m = x
		}
	}
	return m
}

func scanMax[T typ.Ordered](xs ...T) T {
	m := xs[0]
	for _, x := range xs {
		if x > m {
			m = x
		}
	}
	return m
}

func TestFloats(t *testing.T) {
	f := &failer{t: t}
	s := f64Samples()
	withNaN := append(append([]float64(nil), s...), math.NaN())
	for _, a := range withNaN {
		// single argument
		wantAbs := a
		if a < 0 {
			wantAbs = math.Abs(a)
		}
		if got := typ.Abs(a); !sameF64(got, wantAbs) {
			f.failf("Abs(%v) = %v", a, got)
		}
		if a == a && typ.Abs(a) != math.Abs(a) {
			f.failf("Abs(%v) = %v differs numerically from math.Abs", a, typ.Abs(a))
		}
		want01 := a
		if a < 0 {
			want01 = 0
		} else if a > 1 {
			want01 = 1
		}
		if got := typ.Clamp01(a); !sameF64(got, want01) {
			f.failf("Clamp01(%v) = %v", a, got)
		}
		if got := typ.Clamp01(myF64(a)); !sameF64(float64(got), want01) {
			f.failf("Clamp01(myF64 %v) = %v", a, got)
		}
		if got := typ.Clamp01(float32(a)); !sameF64(float64(got), float64(modelClamp01f32(float32(a)))) {
			f.failf("Clamp01(float32 %v) = %v", a, got)
		}
		if got := typ.Min(a); !sameF64(got, a) {
			f.failf("Min(%v) = %v", a, got)
		}
		if got := typ.Max(a); !sameF64(got, a) {
			f.failf("Max(%v) = %v", a, got)
		}
		if got := typ.IsZero(a); got != (a == 0) {
			f.failf("IsZero(%v) = %v", a, got)
		}
		for _, b := range withNaN {
			wantCmp := 0
			if a > b {
				wantCmp = 1
			} else if a < b {
				wantCmp = -1
			}
			if got := typ.Compare(a, b); got != wantCmp {
				f.failf("Compare(%v,%v) = %d", a, b, got)
			}
			if got := typ.Less(a, b); got != (a < b) {
				f.failf("Less(%v,%v) = %v", a, b, got)
			}
			if got := typ.Min(a, b); !sameF64(got, scanMin(a, b)) {
				f.failf("Min(%v,%v) = %v", a, b, got)
			}
			if got := typ.Max(a, b); !sameF64(got, scanMax(a, b)) {
				f.failf("Max(%v,%v) = %v", a, b, got)
			}
			if got := typ.Sum(a, b); !sameF64(got, 0+a+b) {
				f.failf("Sum(%v,%v) = %v", a, b, got)
			}
			if got := typ.Product(a, b); !sameF64(got, 1*a*b) {
				f.failf("Product(%v,%v) = %v", a, b, got)
			}
			for _, c := range withNaN {
				gotMin, gotMax := typ.Min(a, b, c), typ.Max(a, b, c)
				if !sameF64(gotMin, scanMin(a, b, c)) {
					f.failf("Min(%v,%v,%v) = %v", a, b, c, gotMin)
				}
				if !sameF64(gotMax, scanMax(a, b, c)) {
					f.failf("Max(%v,%v,%v) = %v", a, b, c, gotMax)
				}
				nan := a != a || b != b || c != c
				if !nan {
					if !(gotMin <= a && gotMin <= b && gotMin <= c) || !(gotMax >= a && gotMax >= b && gotMax >= c) {
						f.failf("Min/Max(%v,%v,%v) = %v/%v not extremal", a, b, c, gotMin, gotMax)
					}
				}
				var wantClamp float64
				if nan || b > c {
					// outside the property: pin the historical behaviour
					wantClamp = a
					if a < b {
						wantClamp = b
					} else if a > c {
						wantClamp = c
					}
				} else {
					wantClamp = modelClamp(a, b, c)
				}
				if got := typ.Clamp(a, b, c); !sameF64(got, wantClamp) {
					f.failf("Clamp(%v,%v,%v) = %v, want %v", a, b, c, got, wantClamp)
				}
				if got := typ.Sum(a, b, c); !sameF64(got, 0+a+b+c) {
					f.failf("Sum(%v,%v,%v) = %v", a, b, c, got)
				}
				if got := typ.Product(a, b, c); !sameF64(got, 1*a*b*c) {
					f.failf("Product(%v,%v,%v) = %v", a, b, c, got)
				}
			}
		}
	}
	// signed zeros: the first of equal arguments is returned.
	negZero := math.Copysign(0, -1)
	if got := typ.Min(0, negZero); math.Signbit(got) {
		t.Errorf("Min(+0,-0) returned -0")
	}
	if got := typ.Min(negZero, 0); !math.Signbit(got) {
		t.Errorf("Min(-0,+0) returned +0")
	}
	if got := typ.Max(negZero, 0, 0); !math.Signbit(got) {
		t.Errorf("Max(-0,+0,+0) returned +0")
	}
	if got := typ.Abs(negZero); !math.Signbit(got) {
		t.Errorf("Abs(-0) lost its sign bit (historical behaviour keeps it)")
	}
	if got := typ.Clamp01(negZero); !math.Signbit(got) {
		t.Errorf("Clamp01(-0) lost its sign bit")
	}
	if got := typ.Clamp(negZero, 0, 1); !math.Signbit(got) {
		t.Errorf("Clamp(-0,0,1) lost its sign bit")
	}
	if got := typ.Sum[float64](); got != 0 || math.Signbit(got) {
		t.Errorf("Sum() = %v", got)
	}
	if got := typ.Product[float32](); got != 1 {
		t.Errorf("Product() = %v", got)
	}
	if r := catch(func() { typ.Min[float64]() }); r != any("typ.Min: at least one argument is required") {
		t.Errorf("Min[float64]() panic = %#v", r)
	}
	if r := catch(func() { typ.Max[float32]() }); r != any("typ.Max: at least one argument is required") {
		t.Errorf("Max[float32]() panic = %#v", r)
	}
}

func modelClamp01f32(v float32) float32 {
	if v < 0 {
		return 0
	}
	if v > 1 {
		return 1
	}
	return v
}

func TestComplex(t *testing.T) {
	vals := []complex128{0, 1, -1, 1i, -1i, 2 + 3i, -0.5 + 1e10i, complex(math.Inf(1), 0)}
	same := func(a, b complex128) bool {
		return sameF64(real(a), real(b)) && sameF64(imag(a), imag(b))
	}
	if typ.Sum[complex128]() != 0 || typ.Product[complex64]() != 1 {
		t.Errorf("identities wrong")
	}
	for _, a := range vals {
		for _, b := range vals {
			for _, c := range vals {
				var s complex128
				s += a
				s += b
				s += c
				var p complex128 = 1
				p *= a
				p *= b
				p *= c
				if got := typ.Sum(a, b, c); !same(got, s) {
					t.Errorf("Sum(%v,%v,%v) = %v, want %v", a, b, c, got, s)
				}
				if got := typ.Product(a, b, c); !same(got, p) {
					t.Errorf("Product(%v,%v,%v) = %v, want %v", a, b, c, got, p)
				}
			}
		}
	}
}

func TestStrings(t *testing.T) {
	vals := []string{"", "a", "A", "aa", "ab", "b", "\x00", "\xff", "zebra", "Zebra", "a\x00"}
	for _, a := range vals {
		if typ.Min(a) != a || typ.Max(a) != a {
			t.Errorf("Min/Max(%q)", a)
		}
		for _, b := range vals {
			if got, want := typ.Compare(a, b), strings.Compare(a, b); got != want {
				t.Errorf("Compare(%q,%q) = %d, want %d", a, b, got, want)
			}
			if got := typ.Less(a, b); got != (strings.Compare(a, b) < 0) {
				t.Errorf("Less(%q,%q) = %v", a, b, got)
			}
			if got := typ.Compare(myStr(a), myStr(b)); got != strings.Compare(a, b) {
				t.Errorf("Compare(myStr %q,%q) = %d", a, b, got)
			}
			for _, c := range vals {
				if got, want := typ.Min(a, b, c), scanMin(a, b, c); got != want {
					t.Errorf("Min(%q,%q,%q) = %q, want %q", a, b, c, got, want)
				}
				if got, want := typ.Max(a, b, c), scanMax(a, b, c); got != want {
					t.Errorf("Max(%q,%q,%q) = %q, want %q", a, b, c, got, want)
				}
				if got, want := typ.Clamp(a, b, c), modelClamp(a, b, c); got != want {
					t.Errorf("Clamp(%q,%q,%q) = %q, want %q", a, b, c, got, want)
				}
			}
		}
	}
	if got := typ.Min(vals...); got != "" {
		t.Errorf("Min(vals...) = %q", got)
	}
	if got := typ.Max(vals...); got != "\xff" {
		t.Errorf("Max(vals...) = %q", got)
	}
	if r := catch(func() { typ.Min[string]() }); r != any("typ.Min: at least one argument is required") {
		t.Errorf("Min[string]() panic = %#v", r)
	}
	if r := catch(func() { typ.Max[myStr]() }); r != any("typ.Max: at least one argument is required") {
		t.Errorf("Max[myStr]() panic = %#v", r)
	}
}

// ---------------------------------------------------------------------------
// util.go

type alwaysZero struct{ n int }

func (alwaysZero) IsZero() bool { return true }

type neverZero struct{ n int }

func (neverZero) IsZero() bool { return false }

type ptrZeroer struct{ n int }

func (p *ptrZeroer) IsZero() bool { return p == nil || p.n == 42 }

type intPtr *int

type pair struct {
	a int
	b string
}

func TestZeroIsZero(t *testing.T) {
	if typ.Zero[int]() != 0 || typ.Zero[string]() != "" || typ.Zero[*int]() != nil || typ.Zero[pair]() != (pair{}) {
		t.Errorf("Zero wrong")
	}
	if typ.Zero[[]int]() != nil || typ.Zero[map[string]int]() != nil || typ.Zero[error]() != nil {
		t.Errorf("Zero of reference types wrong")
	}
	if typ.ZeroOf(17) != 0 || typ.ZeroOf("x") != "" || typ.ZeroOf(pair{1, "x"}) != (pair{}) {
		t.Errorf("ZeroOf wrong")
	}
	if typ.ZeroOf([]int{1}) != nil || typ.ZeroOf(struct{ X, Y int }{1, 2}) != (struct{ X, Y int }{}) {
		t.Errorf("ZeroOf wrong for slice/anonymous struct")
	}
	x := 3
	if typ.ZeroOf(&x) != nil {
		t.Errorf("ZeroOf(&x) not nil")
	}

	check := func(name string, got, want bool) {
		if got != want {
			t.Errorf("IsZero %s = %v, want %v", name, got, want)
		}
	}
	check("0", typ.IsZero(0), true)
	check("1", typ.IsZero(1), false)
	check(`""`, typ.IsZero(""), true)
	check(`"a"`, typ.IsZero("a"), false)
	check("false", typ.IsZero(false), true)
	check("true", typ.IsZero(true), false)
	check("pair{}", typ.IsZero(pair{}), true)
	check("pair{0,x}", typ.IsZero(pair{0, "x"}), false)
	check("nil ptr", typ.IsZero((*int)(nil)), true)
	check("&x", typ.IsZero(&x), false)
	check("[2]int{}", typ.IsZero([2]int{}), true)
	check("[2]int{0,1}", typ.IsZero([2]int{0, 1}), false)
	check("NaN", typ.IsZero(math.NaN()), false)
	check("-0.0", typ.IsZero(math.Copysign(0, -1)), true)
	check("0i", typ.IsZero(complex(0, 0)), true)
	// IsZero method is honoured
	check("alwaysZero{}", typ.IsZero(alwaysZero{}), true)
	check("alwaysZero{5}", typ.IsZero(alwaysZero{5}), true)
	check("neverZero{}", typ.IsZero(neverZero{}), true) // == zero value wins
	check("neverZero{5}", typ.IsZero(neverZero{5}), false)
	check("(*ptrZeroer)(nil)", typ.IsZero((*ptrZeroer)(nil)), true)
	check("&ptrZeroer{42}", typ.IsZero(&ptrZeroer{42}), true)
	check("&ptrZeroer{1}", typ.IsZero(&ptrZeroer{1}), false)
	check("ptrZeroer{42} (value has no method)", typ.IsZero(ptrZeroer{42}), false)
	check("time.Time{}", typ.IsZero(time.Time{}), true)
	check("time.Time{}.UTC()", typ.IsZero(time.Time{}.UTC()), true) // != Time{} but IsZero()
	check("time.Unix(0,0)", typ.IsZero(time.Unix(0, 0)), false)
	check("time.Now()", typ.IsZero(time.Now()), false)
	var c chan int
	check("nil chan", typ.IsZero(c), true)
	check("chan", typ.IsZero(make(chan int)), false)
}

func TestCoal(t *testing.T) {
	if typ.Coal[int]() != 0 || typ.Coal[string]() != "" || typ.Coal[*int]() != nil {
		t.Errorf("Coal() not zero")
	}
	if typ.Coal(0, 0, 0) != 0 || typ.Coal("", "") != "" {
		t.Errorf("Coal(all zero) not zero")
	}
	if typ.Coal(0, 0, 7, 0, 9) != 7 || typ.Coal(5, 0, 7) != 5 || typ.Coal(0, 0, 0, 4) != 4 {
		t.Errorf("Coal int wrong")
	}
	if typ.Coal("", "x", "y") != "x" || typ.Coal("z") != "z" {
		t.Errorf("Coal string wrong")
	}
	a, b := 1, 2
	if typ.Coal(nil, &a, &b) != &a || typ.Coal(&b, nil, &a) != &b || typ.Coal[*int](nil, nil) != nil {
		t.Errorf("Coal ptr wrong")
	}
	if typ.Coal(pair{}, pair{0, "q"}, pair{1, ""}) != (pair{0, "q"}) {
		t.Errorf("Coal struct wrong")
	}
	// Coal uses ==, not the IsZero method
	if typ.Coal(alwaysZero{}, alwaysZero{3}, alwaysZero{4}) != (alwaysZero{3}) {
		t.Errorf("Coal must not honour IsZero methods")
	}
	// NaN != 0, -0 == 0
	if got := typ.Coal(0, math.Copysign(0, -1), math.NaN(), 1); got == got {
		t.Errorf("Coal(0,-0,NaN,1) = %v, want NaN", got)
	}
	// exhaustive model over short int8 lists, slice with spare capacity untouched
	vals := []int8{0, 1, -128, 0, 127}
	for mask := 0; mask < 1<<10; mask++ {
		args := make([]int8, 0, 8)
		m := mask
		for i := 0; i < 5; i++ {
			args = append(args, vals[(m&3+i)%len(vals)]*int8(m&1))
			m >>= 2
		}
		var want int8
		for _, v := range args {
			if v != 0 {
				want = v
				break
			}
		}
		cp := append([]int8(nil), args...)
		if got := typ.Coal(args...); got != want {
			t.Errorf("Coal(%v) = %d, want %d", args, got, want)
		}
		for i := range cp {
			if cp[i] != args[i] {
				t.Errorf("Coal modified its arguments")
			}
		}
	}
}

func TestTern(t *testing.T) {
	if typ.Tern(true, "yes", "no") != "yes" || typ.Tern(false, "yes", "no") != "no" {
		t.Errorf("Tern string")
	}
	a, b := 1, 2
	if typ.Tern(true, &a, &b) != &a || typ.Tern(false, &a, &b) != &b {
		t.Errorf("Tern ptr")
	}
	if typ.Tern[error](true, nil, strconv.ErrRange) != nil || typ.Tern[error](false, nil, strconv.ErrRange) != strconv.ErrRange {
		t.Errorf("Tern iface")
	}

	if typ.TernCast(true, any(5), 9) != 5 || typ.TernCast(false, any(5), 9) != 9 {
		t.Errorf("TernCast int")
	}
	if typ.TernCast(false, any("not an int"), 9) != 9 || typ.TernCast(false, nil, 9) != 9 {
		t.Errorf("TernCast must not cast when cond is false")
	}
	if typ.TernCast[error](true, strconv.ErrSyntax, nil) != strconv.ErrSyntax {
		t.Errorf("TernCast to interface")
	}
	if typ.TernCast[any](true, 3, nil) != any(3) {
		t.Errorf("TernCast to any")
	}
	mustPanic := func(name string, fn func()) {
		r := catch(fn)
		err, ok := r.(runtime.Error)
		if !ok || !strings.Contains(err.Error(), "interface conversion") {
			t.Errorf("%s: panic = %#v, want interface conversion runtime error", name, r)
		}
	}
	mustPanic("string as int", func() { typ.TernCast(true, any("x"), 9) })
	mustPanic("nil as int", func() { typ.TernCast(true, nil, 9) })
	mustPanic("nil as error", func() { typ.TernCast[error](true, nil, strconv.ErrRange) })
	mustPanic("int8 as int", func() { typ.TernCast(true, any(int8(1)), 9) })
}

func TestIsNilRefDeref(t *testing.T) {
	var e error
	var np *int
	checks := []struct {
		name      string
		got, want bool
	}{
		{"0", typ.IsNil(0), false},
		{`""`, typ.IsNil(""), false},
		{"any(0)", typ.IsNil(any(0)), false},
		{"any(nil)", typ.IsNil(any(nil)), true},
		{"error(nil)", typ.IsNil(e), true},
		{"error(ErrRange)", typ.IsNil(error(strconv.ErrRange)), false},
		{"any(error(nil))", typ.IsNil(any(e)), true},
		{"any((*int)(nil))", typ.IsNil(any(np)), false}, // typed nil inside interface
		{"(*int)(nil)", typ.IsNil(np), false},           // non-interface T is never nil
		{"[]int(nil)", typ.IsNil([]int(nil)), false},
		{"fmt.Stringer(nil)", typ.IsNil[interface{ String() string }](nil), true},
		{"Stringer(time.Time)", typ.IsNil[interface{ String() string }](time.Time{}), false},
	}
	for _, c := range checks {
		if c.got != c.want {
			t.Errorf("IsNil(%s) = %v, want %v", c.name, c.got, c.want)
		}
	}

	// Ref: fresh storage holding a copy
	x := 5
	p1, p2 := typ.Ref(x), typ.Ref(x)
	if p1 == nil || p2 == nil || p1 == p2 || p1 == &x || *p1 != 5 || *p2 != 5 {
		t.Errorf("Ref must return distinct fresh pointers to copies")
	}
	*p1 = 6
	if x != 5 || *p2 != 5 {
		t.Errorf("Ref storage aliased")
	}
	ps := typ.Ref(pair{1, "x"})
	if *ps != (pair{1, "x"}) {
		t.Errorf("Ref struct")
	}
	pp := typ.Ref(&x)
	if *pp != &x {
		t.Errorf("Ref of pointer")
	}
	sl := []int{1, 2, 3}
	psl := typ.Ref(sl)
	(*psl)[0] = 9
	if sl[0] != 9 || len(*psl) != 3 || cap(*psl) != cap(sl) {
		t.Errorf("Ref of slice must share the backing array")
	}
	if pe := typ.Ref[error](nil); pe == nil || *pe != nil {
		t.Errorf("Ref[error](nil)")
	}

	// DerefZero
	if typ.DerefZero((*int)(nil)) != 0 || typ.DerefZero(&x) != 5 {
		t.Errorf("DerefZero int")
	}
	if typ.DerefZero((*string)(nil)) != "" || typ.DerefZero(typ.Ref("s")) != "s" {
		t.Errorf("DerefZero string")
	}
	if typ.DerefZero((*pair)(nil)) != (pair{}) || typ.DerefZero(&pair{2, "y"}) != (pair{2, "y"}) {
		t.Errorf("DerefZero struct")
	}
	if typ.DerefZero(intPtr(nil)) != 0 || typ.DerefZero(intPtr(&x)) != 5 {
		t.Errorf("DerefZero named pointer type")
	}
	if typ.DerefZero((**int)(nil)) != nil || typ.DerefZero(pp) != &x {
		t.Errorf("DerefZero pointer to pointer")
	}
	if typ.DerefZero((*[]int)(nil)) != nil || len(typ.DerefZero(psl)) != 3 {
		t.Errorf("DerefZero slice")
	}
	var zeroInt int
	if typ.DerefZero(&zeroInt) != 0 {
		t.Errorf("DerefZero ptr to zero")
	}
	// DerefZero returns a copy
	y := typ.DerefZero(&x)
	y++
	if x != 5 {
		t.Errorf("DerefZero aliased")
	}
}
