package demo_test

import (
	"context"
	"sort"
	"sync"
	"sync/atomic"
	"testing"
	"time"

	"gopkg.in/typ.v4/chans"
)

const (
	short = 30 * time.Millisecond
	long  = 5 * time.Second
)

// mustFinish runs f and fails the test if it does not return quickly.
func mustFinish(t *testing.T, what string, f func()) {
	t.Helper()
	done := make(chan struct{})
	go func() {
		defer close(done)
		f()
	}()
	select {
	case <-done:
	case <-time.After(long):
		t.Fatalf("%s: blocked", what)
	}
}

// stillBlocked reports whether done is not yet closed after a short wait.
func stillBlocked(done <-chan struct{}) bool {
	select {
	case <-done:
		return false
	case <-time.After(short):
		return true
	}
}

func drain(ch chan int) []int {
	var out []int
	for {
		select {
		case v, ok := <-ch:
			if !ok {
				return out
			}
			out = append(out, v)
		default:
			return out
		}
	}
}

func equal(a, b []int) bool {
	if len(a) != len(b) {
		return false
	}
	for i := range a {
		if a[i] != b[i] {
			return false
		}
	}
	return true
}

func didPanic(f func()) (p bool) {
	defer func() {
		if recover() != nil {
			p = true
		}
	}()
	f()
	return false
}

// ---------------------------------------------------------------- queued

func TestRecvQueuedGrid(t *testing.T) {
	for capacity := 0; capacity <= 5; capacity++ {
		for fill := 0; fill <= capacity; fill++ {
			for _, closed := range []bool{false, true} {
				for limit := -2; limit <= 7; limit++ {
					ch := make(chan int, capacity)
					for i := 0; i < fill; i++ {
						ch <- 100 + i
					}
					if closed {
						close(ch)
					}
					// reference model
					n := limit
					if n < 0 {
						n = 0
					}
					if n > fill {
						n = fill
					}
					var want []int
					for i := 0; i < n; i++ {
						want = append(want, 100+i)
					}
					var rest []int
					for i := n; i < fill; i++ {
						rest = append(rest, 100+i)
					}

					var got []int
					mustFinish(t, "RecvQueued", func() { got = chans.RecvQueued(ch, limit) })
					if !equal(got, want) {
						t.Fatalf("cap=%d fill=%d closed=%v limit=%d: got %v want %v", capacity, fill, closed, limit, got, want)
					}
					if (got == nil) != (want == nil) {
						t.Fatalf("cap=%d fill=%d closed=%v limit=%d: nil-ness got %v want %v", capacity, fill, closed, limit, got == nil, want == nil)
					}
					if cap(got) != cap(want) {
						t.Fatalf("cap=%d fill=%d closed=%v limit=%d: result capacity %d want %d", capacity, fill, closed, limit, cap(got), cap(want))
					}
					if len(ch) != len(rest) {
						t.Fatalf("cap=%d fill=%d closed=%v limit=%d: left %d want %d", capacity, fill, closed, limit, len(ch), len(rest))
					}
					if left := drain(ch); !equal(left, rest) {
						t.Fatalf("cap=%d fill=%d closed=%v limit=%d: left %v want %v", capacity, fill, closed, limit, left, rest)
					}
				}
			}
		}
	}
}

func TestRecvQueuedFullGrid(t *testing.T) {
	for capacity := 0; capacity <= 5; capacity++ {
		for fill := 0; fill <= capacity; fill++ {
			for _, closed := range []bool{false, true} {
				for limit := 0; limit <= 7; limit++ {
					ch := make(chan int, capacity)
					for i := 0; i < fill; i++ {
						ch <- 100 + i
					}
					if closed {
						close(ch)
					}
					n := limit
					if n > fill {
						n = fill
					}
					buf := make([]int, limit, limit+2)
					for i := range buf {
						buf[i] = -1
					}
					extra := buf[:limit+2]
					extra[limit], extra[limit+1] = -7, -7

					var got int
					mustFinish(t, "RecvQueuedFull", func() { got = chans.RecvQueuedFull(ch, buf) })
					if got != n {
						t.Fatalf("cap=%d fill=%d closed=%v limit=%d: got %d want %d", capacity, fill, closed, limit, got, n)
					}
					for i := 0; i < limit; i++ {
						want := -1
						if i < n {
							want = 100 + i
						}
						if buf[i] != want {
							t.Fatalf("cap=%d fill=%d closed=%v limit=%d: buf[%d]=%d want %d", capacity, fill, closed, limit, i, buf[i], want)
						}
					}
					if extra[limit] != -7 || extra[limit+1] != -7 {
						t.Fatalf("wrote beyond len(buf): %v", extra)
					}
					var rest []int
					for i := n; i < fill; i++ {
						rest = append(rest, 100+i)
					}
					if left := drain(ch); !equal(left, rest) {
						t.Fatalf("cap=%d fill=%d closed=%v limit=%d: left %v want %v", capacity, fill, closed, limit, left, rest)
					}
				}
			}
		}
	}
}

type myRecv <-chan string
type myBuf []string

func TestRecvQueuedSpecialChannels(t *testing.T) {
	// nil channel: never ready, must not block.
	var nilCh chan int
	mustFinish(t, "RecvQueued nil", func() {
		if got := chans.RecvQueued(nilCh, 3); got != nil {
			t.Errorf("nil chan: got %v", got)
		}
	})
	mustFinish(t, "RecvQueuedFull nil", func() {
		buf := []int{-1, -1}
		if got := chans.RecvQueuedFull(nilCh, buf); got != 0 || buf[0] != -1 || buf[1] != -1 {
			t.Errorf("nil chan: got %d %v", got, buf)
		}
	})
	// nil and empty buffers.
	ch := make(chan int, 2)
	ch <- 1
	if got := chans.RecvQueuedFull(ch, []int(nil)); got != 0 || len(ch) != 1 {
		t.Errorf("nil buf: got %d, len(ch)=%d", got, len(ch))
	}
	if got := chans.RecvQueuedFull(ch, []int{}); got != 0 || len(ch) != 1 {
		t.Errorf("empty buf: got %d, len(ch)=%d", got, len(ch))
	}
	// named receive-only channel and named buffer types; zero values that
	// were really sent must be kept.
	sch := make(chan string, 4)
	sch <- ""
	sch <- "a"
	sch <- ""
	close(sch)
	got := chans.RecvQueued(myRecv(sch), 10)
	if len(got) != 3 || got[0] != "" || got[1] != "a" || got[2] != "" {
		t.Errorf("named recv chan: got %q", got)
	}
	sch2 := make(chan string, 4)
	sch2 <- ""
	sch2 <- "b"
	close(sch2)
	buf := myBuf{"x", "x", "x"}
	if n := chans.RecvQueuedFull(myRecv(sch2), buf); n != 2 || buf[0] != "" || buf[1] != "b" || buf[2] != "x" {
		t.Errorf("named buf: n=%d buf=%q", n, buf)
	}
}

// A sender blocked on an unbuffered channel counts as "queued" for a
// non-blocking receive only if it is already parked; we only check conservation.
func TestRecvQueuedConcurrentConservation(t *testing.T) {
	const total = 2000
	ch := make(chan int, 8)
	go func() {
		for i := 0; i < total; i++ {
			ch <- i
		}
		close(ch)
	}()
	var got []int
	buf := make([]int, 5)
	deadline := time.Now().Add(long)
	for len(got) < total && time.Now().Before(deadline) {
		if len(got)%2 == 0 {
			got = append(got, chans.RecvQueued(ch, 3)...)
		} else {
			n := chans.RecvQueuedFull(ch, buf)
			got = append(got, buf[:n]...)
		}
	}
	if len(got) != total {
		t.Fatalf("received %d values, want %d", len(got), total)
	}
	for i, v := range got {
		if v != i {
			t.Fatalf("got[%d]=%d: FIFO order broken", i, v)
		}
	}
	// closed and drained now: nothing may be invented.
	if extra := chans.RecvQueued(ch, 4); extra != nil {
		t.Fatalf("closed+drained: got %v", extra)
	}
	if n := chans.RecvQueuedFull(ch, buf); n != 0 {
		t.Fatalf("closed+drained: got %d", n)
	}
}

// ---------------------------------------------------------------- send

func TestSendTimeout(t *testing.T) {
	for _, d := range []time.Duration{-time.Second, -1, 0, time.Second, long} {
		ch := make(chan int, 1)
		var ok bool
		mustFinish(t, "SendTimeout space", func() { ok = chans.SendTimeout(ch, 7, d) })
		if !ok || len(ch) != 1 || <-ch != 7 {
			t.Fatalf("d=%v: buffered send with room: ok=%v", d, ok)
		}
	}
	// full channel, positive timeout: false and nothing sent.
	ch := make(chan int, 1)
	ch <- 1
	start := time.Now()
	if chans.SendTimeout(ch, 2, short) {
		t.Fatal("send to full channel reported true")
	}
	if time.Since(start) < short {
		t.Fatal("returned before the timeout")
	}
	if got := drain(ch); !equal(got, []int{1}) {
		t.Fatalf("channel contents %v", got)
	}
	// unbuffered without receiver: false; nil channel with timeout: false.
	if chans.SendTimeout(make(chan int), 2, short) {
		t.Fatal("send to unbuffered channel without receiver reported true")
	}
	var nilCh chan int
	if chans.SendTimeout(nilCh, 2, short) {
		t.Fatal("send to nil channel reported true")
	}
	// send-only channel type, with a receiver arriving late but in time.
	un := make(chan int)
	res := make(chan int, 1)
	go func() {
		time.Sleep(short)
		res <- <-un
	}()
	if !chans.SendTimeout((chan<- int)(un), 9, long) {
		t.Fatal("send with late receiver reported false")
	}
	if v := <-res; v != 9 {
		t.Fatalf("receiver got %d", v)
	}
	// non-positive timeout: waits without limit.
	for _, d := range []time.Duration{0, -1, -time.Hour} {
		d := d
		full := make(chan int, 1)
		full <- 1
		done := make(chan struct{})
		var ok bool
		go func() {
			defer close(done)
			ok = chans.SendTimeout(full, 2, d)
		}()
		if !stillBlocked(done) {
			t.Fatalf("d=%v: returned although channel was full", d)
		}
		if v := <-full; v != 1 {
			t.Fatalf("got %d", v)
		}
		select {
		case <-done:
		case <-time.After(long):
			t.Fatal("still blocked after room was made")
		}
		if !ok || <-full != 2 {
			t.Fatalf("d=%v: ok=%v", d, ok)
		}
		// nil channel, unlimited: blocks for good.
		ndone := make(chan struct{})
		go func() {
			defer close(ndone)
			chans.SendTimeout(nilCh, 1, d)
		}()
		if !stillBlocked(ndone) {
			t.Fatalf("d=%v: send on nil channel returned", d)
		}
	}
	// closed channel: panics, with and without limit.
	for _, d := range []time.Duration{-1, 0, short, long} {
		cl := make(chan int, 1)
		close(cl)
		if !didPanic(func() { chans.SendTimeout(cl, 1, d) }) {
			t.Fatalf("d=%v: send on closed channel did not panic", d)
		}
	}
}

func TestSendContext(t *testing.T) {
	bg := context.Background()
	ch := make(chan int, 1)
	if !chans.SendContext(bg, ch, 5) || len(ch) != 1 {
		t.Fatal("send with room reported false")
	}
	// full + cancelled: false, contents untouched.
	cctx, cancel := context.WithCancel(bg)
	cancel()
	if chans.SendContext(cctx, ch, 6) {
		t.Fatal("send to full channel with cancelled ctx reported true")
	}
	if got := drain(ch); !equal(got, []int{5}) {
		t.Fatalf("contents %v", got)
	}
	var nilCh chan int
	if chans.SendContext(cctx, nilCh, 6) {
		t.Fatal("send to nil channel reported true")
	}
	// full, cancelled later.
	ch <- 1
	tctx, cancel2 := context.WithTimeout(bg, short)
	defer cancel2()
	if chans.SendContext(tctx, (chan<- int)(ch), 2) {
		t.Fatal("send to full channel reported true")
	}
	if got := drain(ch); !equal(got, []int{1}) {
		t.Fatalf("contents %v", got)
	}
	// blocked until receiver arrives.
	un := make(chan int)
	res := make(chan int, 1)
	go func() {
		time.Sleep(short)
		res <- <-un
	}()
	if !chans.SendContext(bg, un, 3) || <-res != 3 {
		t.Fatal("send with late receiver failed")
	}
	// both ready: either outcome, but conservation must hold.
	for i := 0; i < 200; i++ {
		c := make(chan int, 1)
		ok := chans.SendContext(cctx, c, i)
		if ok != (len(c) == 1) {
			t.Fatalf("ok=%v but len=%d", ok, len(c))
		}
		if ok && <-c != i {
			t.Fatal("wrong value")
		}
	}
	// closed channel with live ctx panics.
	cl := make(chan int)
	close(cl)
	if !didPanic(func() { chans.SendContext(bg, cl, 1) }) {
		t.Fatal("send on closed channel did not panic")
	}
	// nil context panics before anything is sent.
	room := make(chan int, 1)
	if !didPanic(func() { chans.SendContext(nil, room, 1) }) { //nolint
		t.Fatal("nil ctx did not panic")
	}
	if len(room) != 0 {
		t.Fatal("value sent despite nil ctx panic")
	}
}

// ---------------------------------------------------------------- recv

func TestRecvTimeout(t *testing.T) {
	for _, d := range []time.Duration{-time.Second, -1, 0, time.Second, long} {
		ch := make(chan int, 2)
		ch <- 0 // a real zero value
		ch <- 8
		var v int
		var ok bool
		mustFinish(t, "RecvTimeout ready", func() { v, ok = chans.RecvTimeout(ch, d) })
		if !ok || v != 0 || len(ch) != 1 {
			t.Fatalf("d=%v: got (%d,%v) len=%d", d, v, ok, len(ch))
		}
		mustFinish(t, "RecvTimeout ready", func() { v, ok = chans.RecvTimeout((<-chan int)(ch), d) })
		if !ok || v != 8 || len(ch) != 0 {
			t.Fatalf("d=%v: got (%d,%v) len=%d", d, v, ok, len(ch))
		}
		// closed and drained: (zero,false) at once.
		close(ch)
		mustFinish(t, "RecvTimeout closed", func() { v, ok = chans.RecvTimeout(ch, d) })
		if ok || v != 0 {
			t.Fatalf("d=%v closed: got (%d,%v)", d, v, ok)
		}
		// closed with leftovers: the leftovers come first.
		cl := make(chan string, 1)
		cl <- "x"
		close(cl)
		if s, ok := chans.RecvTimeout(cl, d); !ok || s != "x" {
			t.Fatalf("d=%v closed+queued: got (%q,%v)", d, s, ok)
		}
		if s, ok := chans.RecvTimeout(cl, d); ok || s != "" {
			t.Fatalf("d=%v closed+drained: got (%q,%v)", d, s, ok)
		}
	}
	// empty, positive timeout: zero,false, and a later value is still there.
	ch := make(chan int, 1)
	start := time.Now()
	if v, ok := chans.RecvTimeout(ch, short); ok || v != 0 {
		t.Fatalf("empty: got (%d,%v)", v, ok)
	}
	if time.Since(start) < short {
		t.Fatal("returned before the timeout")
	}
	ch <- 4
	if len(ch) != 1 {
		t.Fatal("value lost")
	}
	var nilCh chan int
	if v, ok := chans.RecvTimeout(nilCh, short); ok || v != 0 {
		t.Fatalf("nil chan: got (%d,%v)", v, ok)
	}
	// late sender within the limit.
	un := make(chan int)
	go func() {
		time.Sleep(short)
		un <- 11
	}()
	if v, ok := chans.RecvTimeout(un, long); !ok || v != 11 {
		t.Fatalf("late sender: got (%d,%v)", v, ok)
	}
	// non-positive timeout: waits without limit.
	for _, d := range []time.Duration{0, -1, -time.Hour} {
		d := d
		empty := make(chan int)
		done := make(chan struct{})
		var v int
		var ok bool
		go func() {
			defer close(done)
			v, ok = chans.RecvTimeout(empty, d)
		}()
		if !stillBlocked(done) {
			t.Fatalf("d=%v: returned although channel was empty", d)
		}
		empty <- 12
		select {
		case <-done:
		case <-time.After(long):
			t.Fatal("still blocked after a send")
		}
		if !ok || v != 12 {
			t.Fatalf("d=%v: got (%d,%v)", d, v, ok)
		}
		// unlimited wait ended by close.
		empty2 := make(chan int)
		done2 := make(chan struct{})
		go func() {
			defer close(done2)
			v, ok = chans.RecvTimeout(empty2, d)
		}()
		if !stillBlocked(done2) {
			t.Fatalf("d=%v: returned although channel was empty", d)
		}
		close(empty2)
		<-done2
		if ok || v != 0 {
			t.Fatalf("d=%v close: got (%d,%v)", d, v, ok)
		}
		ndone := make(chan struct{})
		go func() {
			defer close(ndone)
			chans.RecvTimeout(nilCh, d)
		}()
		if !stillBlocked(ndone) {
			t.Fatalf("d=%v: receive on nil channel returned", d)
		}
	}
}

func TestRecvContext(t *testing.T) {
	bg := context.Background()
	cctx, cancel := context.WithCancel(bg)
	cancel()

	ch := make(chan int, 2)
	ch <- 0
	ch <- 3
	if v, ok := chans.RecvContext(bg, (<-chan int)(ch)); !ok || v != 0 || len(ch) != 1 {
		t.Fatalf("got (%d,%v)", v, ok)
	}
	if v, ok := chans.RecvContext(bg, (<-chan int)(ch)); !ok || v != 3 || len(ch) != 0 {
		t.Fatalf("got (%d,%v)", v, ok)
	}
	// empty + cancelled.
	if v, ok := chans.RecvContext(cctx, (<-chan int)(ch)); ok || v != 0 {
		t.Fatalf("cancelled: got (%d,%v)", v, ok)
	}
	var nilCh <-chan int
	if v, ok := chans.RecvContext(cctx, nilCh); ok || v != 0 {
		t.Fatalf("nil chan: got (%d,%v)", v, ok)
	}
	// empty, cancelled later; a value sent afterwards is still there.
	tctx, cancel2 := context.WithTimeout(bg, short)
	defer cancel2()
	if v, ok := chans.RecvContext(tctx, (<-chan int)(ch)); ok || v != 0 {
		t.Fatalf("timeout: got (%d,%v)", v, ok)
	}
	ch <- 5
	if len(ch) != 1 {
		t.Fatal("value lost")
	}
	// closed counts as false.
	<-ch
	close(ch)
	if v, ok := chans.RecvContext(bg, (<-chan int)(ch)); ok || v != 0 {
		t.Fatalf("closed: got (%d,%v)", v, ok)
	}
	// late sender.
	un := make(chan int)
	go func() {
		time.Sleep(short)
		un <- 21
	}()
	if v, ok := chans.RecvContext(bg, (<-chan int)(un)); !ok || v != 21 {
		t.Fatalf("late sender: got (%d,%v)", v, ok)
	}
	// both ready: either outcome, conservation in both.
	for i := 1; i <= 200; i++ {
		c := make(chan int, 1)
		c <- i
		v, ok := chans.RecvContext(cctx, (<-chan int)(c))
		if ok {
			if v != i || len(c) != 0 {
				t.Fatalf("ok but v=%d len=%d", v, len(c))
			}
		} else if v != 0 || len(c) != 1 {
			t.Fatalf("!ok but v=%d len=%d", v, len(c))
		}
	}
	// nil context panics and consumes nothing.
	full := make(chan int, 1)
	full <- 1
	if !didPanic(func() { chans.RecvContext(nil, (<-chan int)(full)) }) { //nolint
		t.Fatal("nil ctx did not panic")
	}
	if len(full) != 1 {
		t.Fatal("value consumed despite nil ctx panic")
	}
}

// ---------------------------------------------------------------- conservation under races

func sortedEqual(a, b []int) bool {
	sort.Ints(a)
	sort.Ints(b)
	return equal(a, b)
}

func TestConservationStress(t *testing.T) {
	const (
		senders   = 8
		perSender = 150
	)
	ch := make(chan int, 2)
	var mu sync.Mutex
	var reportedSent, reportedRecv []int

	var swg sync.WaitGroup
	for s := 0; s < senders; s++ {
		swg.Add(1)
		go func(s int) {
			defer swg.Done()
			var mine []int
			for i := 0; i < perSender; i++ {
				v := s*perSender + i + 1
				var ok bool
				switch i % 3 {
				case 0:
					ok = chans.SendTimeout(ch, v, time.Duration(1+i%5)*50*time.Microsecond)
				case 1:
					ctx, cancel := context.WithTimeout(context.Background(), time.Duration(1+i%5)*50*time.Microsecond)
					ok = chans.SendContext(ctx, ch, v)
					cancel()
				default:
					ctx, cancel := context.WithCancel(context.Background())
					if i%2 == 0 {
						cancel()
					}
					ok = chans.SendContext(ctx, ch, v)
					cancel()
				}
				if ok {
					mine = append(mine, v)
				}
			}
			mu.Lock()
			reportedSent = append(reportedSent, mine...)
			mu.Unlock()
		}(s)
	}

	var stop int32
	var rwg sync.WaitGroup
	for r := 0; r < 4; r++ {
		rwg.Add(1)
		go func(r int) {
			defer rwg.Done()
			var mine []int
			buf := make([]int, 2)
			for i := 0; ; i++ {
				if atomic.LoadInt32(&stop) == 1 && len(ch) == 0 {
					// final sweep after all senders are done
					mine = append(mine, chans.RecvQueued(ch, 100)...)
					break
				}
				switch (i + r) % 4 {
				case 0:
					if v, ok := chans.RecvTimeout(ch, 100*time.Microsecond); ok {
						mine = append(mine, v)
					} else if v != 0 {
						t.Errorf("RecvTimeout false with value %d", v)
					}
				case 1:
					ctx, cancel := context.WithTimeout(context.Background(), 100*time.Microsecond)
					if v, ok := chans.RecvContext(ctx, (<-chan int)(ch)); ok {
						mine = append(mine, v)
					} else if v != 0 {
						t.Errorf("RecvContext false with value %d", v)
					}
					cancel()
				case 2:
					mine = append(mine, chans.RecvQueued(ch, 2)...)
				default:
					n := chans.RecvQueuedFull(ch, buf)
					mine = append(mine, buf[:n]...)
				}
			}
			mu.Lock()
			reportedRecv = append(reportedRecv, mine...)
			mu.Unlock()
		}(r)
	}

	swg.Wait()
	atomic.StoreInt32(&stop, 1)
	rwg.Wait()
	reportedRecv = append(reportedRecv, drain(ch)...)

	if !sortedEqual(reportedSent, reportedRecv) {
		t.Fatalf("conservation broken: %d reported sent, %d received", len(reportedSent), len(reportedRecv))
	}
	for i := 1; i < len(reportedRecv); i++ {
		if reportedRecv[i] == reportedRecv[i-1] {
			t.Fatalf("value %d duplicated", reportedRecv[i])
		}
	}
	if len(reportedSent) == 0 || len(reportedSent) == senders*perSender {
		t.Logf("note: %d of %d sends succeeded (both outcomes not exercised)", len(reportedSent), senders*perSender)
	}
}

// With a 1ns limit the timer and the channel are typically both ready:
// either outcome is allowed, but the report must match what happened.
func TestTimeoutBothReady(t *testing.T) {
	sent, notSent, recvd, notRecvd := 0, 0, 0, 0
	for i := 1; i <= 2000; i++ {
		c := make(chan int, 1)
		ok := chans.SendTimeout(c, i, 1)
		if ok != (len(c) == 1) {
			t.Fatalf("SendTimeout ok=%v but len=%d", ok, len(c))
		}
		if ok {
			sent++
			if v := <-c; v != i {
				t.Fatalf("wrong value %d", v)
			}
		} else {
			notSent++
		}

		c <- i
		v, ok := chans.RecvTimeout(c, 1)
		if ok {
			recvd++
			if v != i || len(c) != 0 {
				t.Fatalf("RecvTimeout ok but v=%d len=%d", v, len(c))
			}
		} else {
			notRecvd++
			if v != 0 || len(c) != 1 {
				t.Fatalf("RecvTimeout !ok but v=%d len=%d", v, len(c))
			}
		}
	}
	t.Logf("sent=%d notSent=%d recvd=%d notRecvd=%d", sent, notSent, recvd, notRecvd)
}
