package demo

import (
	"math"
	"sort"
	"testing"

	"gopkg.in/typ.v4/avl"
)

// ---------------------------------------------------------------------------
// helpers

// rng is a tiny deterministic xorshift64* generator, so the histories (and
// therefore the golden shape hashes below) do not depend on math/rand.
type rng uint64

func (r *rng) next() uint64 {
	x := uint64(*r)
	x ^= x >> 12
	x ^= x << 25
	x ^= x >> 27
	*r = rng(x)
	return x * 2685821657736338717
}

func (r *rng) intn(n int) int { return int(r.next() % uint64(n)) }

func (r *rng) perm(n int) []int {
	p := make([]int, n)
	for i := range p {
		p[i] = i
	}
	for i := n - 1; i > 0; i-- {
		j := r.intn(i + 1)
		p[i], p[j] = p[j], p[i]
	}
	return p
}

// hasher is FNV-1a over a stream of ints.
type hasher uint64

func newHasher() hasher { return 14695981039346656037 }

func (h *hasher) add(v int) {
	x := uint64(int64(v))
	for i := 0; i < 8; i++ {
		*h ^= hasher(x & 0xff)
		*h *= 1099511628211
		x >>= 8
	}
}

func (h *hasher) addBool(b bool) {
	if b {
		h.add(1)
	} else {
		h.add(0)
	}
}

// shapeOf rebuilds the binary tree described by a pre-order and an in-order
// traversal of distinct values and returns its height (leaf = 0, empty = -1).
// It fails the test if the traversals are inconsistent or if any node is not
// AVL balanced.
func shapeOf[T comparable](t *testing.T, pre, in []T) int {
	t.Helper()
	if len(pre) != len(in) {
		t.Fatalf("pre-order has %d values, in-order has %d", len(pre), len(in))
	}
	pos := make(map[T]int, len(in))
	for i, v := range in {
		if _, dup := pos[v]; dup {
			t.Fatalf("value %v appears twice in the in-order traversal", v)
		}
		pos[v] = i
	}
	pi := 0
	ok := true
	var build func(lo, hi int) int
	build = func(lo, hi int) int {
		if lo > hi || !ok {
			return -1
		}
		root := pre[pi]
		pi++
		p, found := pos[root]
		if !found || p < lo || p > hi {
			ok = false
			t.Errorf("traversals are inconsistent at value %v", root)
			return -1
		}
		lh := build(lo, p-1)
		rh := build(p+1, hi)
		if d := lh - rh; ok && (d < -1 || d > 1) {
			ok = false
			if len(pre) <= 40 {
				t.Errorf("node %v is unbalanced: left height %d, right height %d (pre=%v in=%v)", root, lh, rh, pre, in)
			} else {
				t.Errorf("node %v is unbalanced: left height %d, right height %d (%d values)", root, lh, rh, len(pre))
			}
		}
		if lh > rh {
			return lh + 1
		}
		return rh + 1
	}
	h := build(0, len(in)-1)
	if !ok {
		t.FailNow()
	}
	if pi != len(pre) {
		t.Fatalf("only %d of %d pre-order values consumed", pi, len(pre))
	}
	return h
}

func depthBound(n int) float64 { return 1.4405 * math.Log2(float64(n)+2) }

// checkInts verifies every clause on an int tree against the model (a set).
func checkInts(t *testing.T, tree *avl.Tree[int], model map[int]bool, h *hasher) {
	t.Helper()
	pre := tree.SlicePreOrder()
	in := tree.SliceInOrder()
	if tree.Len() != len(model) {
		t.Fatalf("Len()=%d, model has %d", tree.Len(), len(model))
	}
	if len(in) != len(model) {
		t.Fatalf("in-order has %d values, model has %d", len(in), len(model))
	}
	if !sort.IntsAreSorted(in) {
		t.Fatalf("in-order not sorted: %v", in)
	}
	for _, v := range in {
		if !model[v] {
			t.Fatalf("tree holds %d, model does not", v)
		}
	}
	height := shapeOf(t, pre, in)
	if n := len(in); n > 0 && float64(height+1) > depthBound(n) {
		t.Fatalf("n=%d: deepest level %d exceeds %.2f", n, height+1, depthBound(n))
	}
	if h != nil {
		h.add(len(pre))
		for _, v := range pre {
			h.add(v)
		}
		for _, v := range in {
			h.add(v)
		}
	}
}

// countingTree wraps a tree whose comparator counts its invocations.
type countingTree struct {
	tree  avl.Tree[int]
	calls *int
}

func newCountingTree() *countingTree {
	calls := new(int)
	return &countingTree{
		tree: avl.New(func(a, b int) int {
			*calls++
			switch {
			case a < b:
				return -1
			case a > b:
				return 1
			}
			return 0
		}),
		calls: calls,
	}
}

func (c *countingTree) checkCost(t *testing.T, op string, nBefore int) {
	t.Helper()
	// Generous: one decision per level on the way down, plus slack.
	limit := int(2*depthBound(nBefore+1)) + 4
	if *c.calls > limit {
		t.Fatalf("%s on a %d-element tree used %d comparisons, limit %d", op, nBefore, *c.calls, limit)
	}
	*c.calls = 0
}

// ---------------------------------------------------------------------------
// tests

func TestEmptyAndSingle(t *testing.T) {
	tree := avl.NewOrdered[int]()
	model := map[int]bool{}
	checkInts(t, &tree, model, nil)
	if tree.Remove(1) {
		t.Fatal("Remove on empty tree returned true")
	}
	if tree.Contains(1) {
		t.Fatal("Contains on empty tree returned true")
	}
	tree.Add(1)
	model[1] = true
	checkInts(t, &tree, model, nil)
	if tree.Remove(2) {
		t.Fatal("Remove(2) returned true")
	}
	checkInts(t, &tree, model, nil)
	if !tree.Remove(1) {
		t.Fatal("Remove(1) returned false")
	}
	delete(model, 1)
	checkInts(t, &tree, model, nil)
	if tree.Remove(1) {
		t.Fatal("second Remove(1) returned true")
	}
	tree.Add(5)
	tree.Add(6)
	tree.Clear()
	checkInts(t, &tree, model, nil)
	tree.Add(7)
	model[7] = true
	checkInts(t, &tree, model, nil)
}

func TestSortedInsertions(t *testing.T) {
	const n = 1500
	for _, dir := range []string{"asc", "desc", "zigzag", "outside-in"} {
		ct := newCountingTree()
		model := map[int]bool{}
		h := newHasher()
		for i := 0; i < n; i++ {
			var v int
			switch dir {
			case "asc":
				v = i
			case "desc":
				v = n - i
			case "zigzag":
				if i%2 == 0 {
					v = i
				} else {
					v = -i
				}
			case "outside-in":
				if i%2 == 0 {
					v = -n + i
				} else {
					v = n - i
				}
			}
			*ct.calls = 0
			ct.tree.Add(v)
			ct.checkCost(t, "Add", len(model))
			model[v] = true
			if i < 64 || i%37 == 0 || i == n-1 {
				checkInts(t, &ct.tree, model, &h)
			}
		}
		for v := range model {
			*ct.calls = 0
			if !ct.tree.Contains(v) {
				t.Fatalf("%s: Contains(%d) false", dir, v)
			}
			ct.checkCost(t, "Contains", len(model))
		}
		// Remove in ascending order, always eating the leftmost side.
		keys := make([]int, 0, len(model))
		for v := range model {
			keys = append(keys, v)
		}
		sort.Ints(keys)
		for i, v := range keys {
			*ct.calls = 0
			if !ct.tree.Remove(v) {
				t.Fatalf("%s: Remove(%d) false", dir, v)
			}
			ct.checkCost(t, "Remove", len(model))
			delete(model, v)
			if i%29 == 0 || len(model) < 64 {
				checkInts(t, &ct.tree, model, &h)
			}
		}
		if got, want := uint64(h), goldenSorted[dir]; got != want {
			t.Errorf("%s: shape hash %#x, want %#x (tree shapes differ from the reference run)", dir, got, want)
		}
	}
}

func permutations(n int, f func(p []int)) {
	p := make([]int, n)
	for i := range p {
		p[i] = i
	}
	var rec func(k int)
	rec = func(k int) {
		if k == n {
			f(p)
			return
		}
		for i := k; i < n; i++ {
			p[k], p[i] = p[i], p[k]
			rec(k + 1)
			p[k], p[i] = p[i], p[k]
		}
	}
	rec(0)
}

func TestExhaustiveSmallInsertOrders(t *testing.T) {
	h := newHasher()
	for n := 1; n <= 7; n++ {
		permutations(n, func(p []int) {
			tree := avl.NewOrdered[int]()
			model := map[int]bool{}
			for _, v := range p {
				tree.Add(v)
				model[v] = true
				checkInts(t, &tree, model, &h)
			}
			// Remove every single element from a clone of the full tree.
			for v := 0; v < n; v++ {
				c := tree.Clone()
				// A clone re-inserts in pre-order; it holds the same values
				// and must be balanced as well (its layout may differ).
				if got, want := c.SliceInOrder(), tree.SliceInOrder(); !equal(got, want) {
					t.Fatalf("Clone changed the values: %v vs %v", got, want)
				}
				checkInts(t, &c, model, &h)
				if !c.Remove(v) {
					t.Fatalf("Remove(%d) false", v)
				}
				delete(model, v)
				checkInts(t, &c, model, &h)
				model[v] = true
			}
		})
	}
	if got := uint64(h); got != goldenExhaustiveInsert {
		t.Errorf("shape hash %#x, want %#x", got, goldenExhaustiveInsert)
	}
}

func TestExhaustiveSmallInsertThenRemoveOrders(t *testing.T) {
	h := newHasher()
	const n = 5
	permutations(n, func(ins []int) {
		insCopy := append([]int(nil), ins...)
		permutations(n, func(del []int) {
			tree := avl.NewOrdered[int]()
			model := map[int]bool{}
			for _, v := range insCopy {
				tree.Add(v)
				model[v] = true
			}
			for _, v := range del {
				if !tree.Remove(v) {
					t.Fatalf("Remove(%d) false", v)
				}
				delete(model, v)
				checkInts(t, &tree, model, &h)
			}
		})
	})
	// Deeper trees: fixed 12-element insertion orders, every removal order of
	// a 6-element subset.
	r := rng(0x9e3779b97f4a7c15)
	for round := 0; round < 6; round++ {
		ins := r.perm(12)
		permutations(6, func(del []int) {
			tree := avl.NewOrdered[int]()
			model := map[int]bool{}
			for _, v := range ins {
				tree.Add(v)
				model[v] = true
			}
			for _, v := range del {
				v = v*2 + round%2
				if !tree.Remove(v) {
					t.Fatalf("Remove(%d) false", v)
				}
				delete(model, v)
				checkInts(t, &tree, model, &h)
			}
		})
	}
	if got := uint64(h); got != goldenExhaustiveRemove {
		t.Errorf("shape hash %#x, want %#x", got, goldenExhaustiveRemove)
	}
}

func equal(a, b []int) bool {
	if len(a) != len(b) {
		return false
	}
	for i := range a {
		if a[i] != b[i] {
			return false
		}
	}
	return true
}

func TestRandomInterleavings(t *testing.T) {
	for seed := 1; seed <= 12; seed++ {
		r := rng(uint64(seed) * 0x2545f4914f6cdd1d)
		ct := newCountingTree()
		model := map[int]bool{}
		h := newHasher()
		keyRange := 16 << (seed % 6) // 16 .. 512
		for op := 0; op < 2500; op++ {
			v := r.intn(keyRange)
			// phases: grow, churn, shrink
			addBias := 60
			switch {
			case op < 800:
				addBias = 80
			case op > 1800:
				addBias = 25
			}
			*ct.calls = 0
			if r.intn(100) < addBias {
				if !model[v] { // keep values distinct so the shape is observable
					ct.tree.Add(v)
					ct.checkCost(t, "Add", len(model))
					model[v] = true
				}
			} else {
				got := ct.tree.Remove(v)
				ct.checkCost(t, "Remove", len(model))
				if got != model[v] {
					t.Fatalf("seed %d op %d: Remove(%d)=%v, model says %v", seed, op, v, got, model[v])
				}
				h.addBool(got)
				delete(model, v)
			}
			checkInts(t, &ct.tree, model, &h)
			probe := r.intn(keyRange)
			*ct.calls = 0
			if got := ct.tree.Contains(probe); got != model[probe] {
				t.Fatalf("seed %d op %d: Contains(%d)=%v, model says %v", seed, op, probe, got, model[probe])
			}
			ct.checkCost(t, "Contains", len(model))
		}
		// Drain by repeatedly removing the current root (two-children case).
		for len(model) > 0 {
			root := ct.tree.SlicePreOrder()[0]
			if !ct.tree.Remove(root) {
				t.Fatalf("Remove(root %d) false", root)
			}
			delete(model, root)
			checkInts(t, &ct.tree, model, &h)
		}
		if got, want := uint64(h), goldenRandom[seed-1]; got != want {
			t.Errorf("seed %d: shape hash %#x, want %#x", seed, got, want)
		}
	}
}

// item has comparator-equal but distinct values: the comparator only looks at
// key, so the tree holds "duplicates" whose shape is still observable.
type item struct{ key, id int }

func TestComparatorEqualValues(t *testing.T) {
	h := newHasher()
	for seed := 1; seed <= 6; seed++ {
		r := rng(uint64(seed) * 0x9e3779b97f4a7c15)
		tree := avl.New(func(a, b item) int {
			switch {
			case a.key < b.key:
				return -1
			case a.key > b.key:
				return 1
			}
			return 0
		})
		present := map[item]bool{}
		var all []item
		for op := 0; op < 1200; op++ {
			if r.intn(100) < 65 || len(all) == 0 {
				it := item{key: r.intn(8 + seed*4), id: op}
				tree.Add(it)
				present[it] = true
				all = append(all, it)
			} else {
				it := all[r.intn(len(all))]
				got := tree.Remove(it)
				h.addBool(got)
				if got && !present[it] {
					t.Fatalf("removed %v which was not present", it)
				}
				if got {
					delete(present, it)
				}
			}
			pre := tree.SlicePreOrder()
			in := tree.SliceInOrder()
			if tree.Len() != len(present) || len(in) != len(present) {
				t.Fatalf("Len()=%d len(in)=%d model=%d", tree.Len(), len(in), len(present))
			}
			for i, v := range in {
				if !present[v] {
					t.Fatalf("tree holds %v, model does not", v)
				}
				if i > 0 && in[i-1].key > v.key {
					t.Fatalf("in-order keys not sorted: %v", in)
				}
			}
			height := shapeOf(t, pre, in)
			if n := len(in); n > 0 && float64(height+1) > depthBound(n) {
				t.Fatalf("n=%d: deepest level %d exceeds %.2f", n, height+1, depthBound(n))
			}
			for _, v := range pre {
				h.add(v.key)
				h.add(v.id)
			}
			for _, v := range in {
				h.add(v.id)
			}
		}
	}
	if got := uint64(h); got != goldenEqualValues {
		t.Errorf("shape hash %#x, want %#x", got, goldenEqualValues)
	}
}

func TestStringsAndPlainDuplicates(t *testing.T) {
	tree := avl.NewOrdered[string]()
	words := []string{"a", "b", "c", "d", "e", "f", "g", "h", "i", "j", "k", "l", "m", "n", "o", "p"}
	for i, w := range words {
		tree.Add(w)
		pre, in := tree.SlicePreOrder(), tree.SliceInOrder()
		if !sort.StringsAreSorted(in) || len(in) != i+1 {
			t.Fatalf("bad in-order %v", in)
		}
		shapeOf(t, pre, in)
	}
	for i := len(words) - 1; i >= 0; i-- {
		if !tree.Remove(words[i]) {
			t.Fatalf("Remove(%q) false", words[i])
		}
		shapeOf(t, tree.SlicePreOrder(), tree.SliceInOrder())
	}
	// Plain duplicates: the shape is not uniquely observable, but length,
	// order and the traversals themselves are.
	h := newHasher()
	dup := avl.NewOrdered[int]()
	r := rng(77)
	count := map[int]int{}
	total := 0
	for op := 0; op < 3000; op++ {
		v := r.intn(12)
		if r.intn(100) < 60 {
			dup.Add(v)
			count[v]++
			total++
		} else {
			got := dup.Remove(v)
			h.addBool(got)
			if got {
				if count[v] == 0 {
					t.Fatalf("removed %d which was not present", v)
				}
				count[v]--
				total--
			}
		}
		in := dup.SliceInOrder()
		if dup.Len() != total || len(in) != total || !sort.IntsAreSorted(in) {
			t.Fatalf("Len()=%d len(in)=%d want %d, in=%v", dup.Len(), len(in), total, in)
		}
		for _, x := range dup.SlicePreOrder() {
			h.add(x)
		}
		for _, x := range dup.SlicePostOrder() {
			h.add(x)
		}
	}
	if got := uint64(h); got != goldenPlainDuplicates {
		t.Errorf("traversal hash %#x, want %#x", got, goldenPlainDuplicates)
	}
}

func TestLargeTreeDepth(t *testing.T) {
	const n = 1 << 15
	tree := avl.NewOrdered[int]()
	model := make(map[int]bool, n)
	for i := 0; i < n; i++ {
		tree.Add(i)
		model[i] = true
	}
	checkInts(t, &tree, model, nil)
	// Remove the lower three quarters in order: heavy one-sided deletion.
	for i := 0; i < n*3/4; i++ {
		if !tree.Remove(i) {
			t.Fatalf("Remove(%d) false", i)
		}
		delete(model, i)
		if i%4099 == 0 {
			checkInts(t, &tree, model, nil)
		}
	}
	checkInts(t, &tree, model, nil)
}

// Independent trees may be used from independent goroutines.
func TestIndependentTreesConcurrently(t *testing.T) {
	done := make(chan uint64, 4)
	for g := 0; g < 4; g++ {
		go func() {
			r := rng(424242)
			tree := avl.NewOrdered[int]()
			h := newHasher()
			for op := 0; op < 4000; op++ {
				v := r.intn(300)
				if r.intn(3) > 0 {
					if !tree.Contains(v) {
						tree.Add(v)
					}
				} else {
					h.addBool(tree.Remove(v))
				}
			}
			for _, v := range tree.SlicePreOrder() {
				h.add(v)
			}
			done <- uint64(h)
		}()
	}
	first := <-done
	for g := 1; g < 4; g++ {
		if got := <-done; got != first {
			t.Errorf("goroutine result %#x differs from %#x", got, first)
		}
	}
	if first != goldenConcurrent {
		t.Errorf("hash %#x, want %#x", first, goldenConcurrent)
	}
}

// Golden hashes of the observed traversals, recorded on the reference
// (unchanged) library: a maintenance change must reproduce exactly the same
// tree shapes.
var (
	goldenSorted = map[string]uint64{
		"asc":        0x3bb94881132f95c6,
		"desc":       0x90b78ed680832e4e,
		"zigzag":     0x26afbbb3ea89d4a6,
		"outside-in": 0xa16144de8b47ed0e,
	}
	goldenExhaustiveInsert uint64 = 0xa3c3aa94181511c5
	goldenExhaustiveRemove uint64 = 0x944d785370e01a25
	goldenRandom                  = [12]uint64{
		0xd392a69fe15788c9, 0xc4e6309751d46c4b, 0x5ce43b7694ff1ad7, 0xe38d06801482e993,
		0x2fd440ad9bd7d916, 0xb3690ee2a4545568, 0x4ac0b4318ed41182, 0xcc16bfae700b31a0,
		0xc9a9073bf2a35bed, 0xb322a73bd9701c87, 0xf6a672de7fcc90f2, 0x1ba4ed4332450d9e,
	}
	goldenEqualValues     uint64 = 0xfd71775a8413c9f9
	goldenPlainDuplicates uint64 = 0xada706f602646905
	goldenConcurrent      uint64 = 0x8f75da18b921d2e8
)
