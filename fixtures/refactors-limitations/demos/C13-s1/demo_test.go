package demo_test

import (
	"fmt"
	"reflect"
	"testing"

	"gopkg.in/typ.v4/slices"
)

// piece describes a returned sub-slice by its position in the backing array,
// so that aliasing (start), length and spare capacity are all compared.
type piece struct {
	start, length, capacity int
}

type named []int

// describe locates p inside backing (full capacity view of the input).
func describe(t *testing.T, backing []int, p []int) piece {
	t.Helper()
	if cap(p) == 0 {
		return piece{-1, len(p), 0}
	}
	full := backing[:cap(backing)]
	pp := &p[:1][0]
	for i := range full {
		if &full[i] == pp {
			return piece{i, len(p), cap(p)}
		}
	}
	t.Fatalf("piece does not alias the input")
	return piece{}
}

// Reference models, written independently from the library code.

func refChunk(n, c, size int) []piece {
	var out []piece
	for start := 0; start < n; start += size {
		l := size
		if n-start < l {
			l = n - start
		}
		out = append(out, piece{start, l, c - start})
	}
	return out
}

func refWindowed(n, c, size int) []piece {
	var out []piece
	for start := 0; start+size <= n; start++ {
		out = append(out, piece{start, size, c - start})
	}
	return out
}

func refPairs(in []int) [][2]int {
	var out [][2]int
	for i := 1; i < len(in); i++ {
		out = append(out, [2]int{in[i-1], in[i]})
	}
	return out
}

func mkInput(n, spare int) named {
	s := make(named, n, n+spare)
	for i := range s {
		s[i] = 100 + i
	}
	return s
}

func TestChunkAndChunkFunc(t *testing.T) {
	for n := 0; n <= 24; n++ {
		for _, spare := range []int{0, 3} {
			for size := 1; size <= 27; size++ {
				in := mkInput(n, spare)
				want := refChunk(n, n+spare, size)

				got := slices.Chunk(in, size)
				if n == 0 {
					if got != nil {
						t.Fatalf("Chunk(empty,%d) = %#v, want nil", size, got)
					}
				} else if got == nil {
					t.Fatalf("Chunk(n=%d,%d) = nil", n, size)
				}
				if len(got) != len(want) || cap(got) != len(want) {
					t.Fatalf("Chunk(n=%d,size=%d): len=%d cap=%d want %d", n, size, len(got), cap(got), len(want))
				}
				if wantCount := (n + size - 1) / size; len(got) != wantCount {
					t.Fatalf("Chunk(n=%d,size=%d): %d pieces, want ceil=%d", n, size, len(got), wantCount)
				}
				var concat []int
				for i, p := range got {
					if d := describe(t, in, p); d != want[i] {
						t.Fatalf("Chunk(n=%d,size=%d)[%d] = %+v want %+v", n, size, i, d, want[i])
					}
					if len(p) == 0 {
						t.Fatalf("Chunk(n=%d,size=%d)[%d] is empty", n, size, i)
					}
					concat = append(concat, p...)
				}
				if n > 0 && !reflect.DeepEqual(concat, []int(in)) {
					t.Fatalf("Chunk(n=%d,size=%d): concat=%v", n, size, concat)
				}

				var cb []piece
				slices.ChunkFunc(in, size, func(chunk named) {
					cb = append(cb, describe(t, in, chunk))
				})
				if !reflect.DeepEqual(cb, want) {
					t.Fatalf("ChunkFunc(n=%d,size=%d) = %+v want %+v", n, size, cb, want)
				}
			}
		}
	}
}

func TestWindowedAndWindowedFunc(t *testing.T) {
	for n := 0; n <= 20; n++ {
		for _, spare := range []int{0, 2} {
			for size := 1; size <= 23; size++ {
				in := mkInput(n, spare)
				want := refWindowed(n, n+spare, size)

				got := slices.Windowed(in, size)
				if n < size {
					if got != nil {
						t.Fatalf("Windowed(n=%d,size=%d) = %#v, want nil", n, size, got)
					}
				} else {
					if got == nil || len(got) != n-size+1 || cap(got) != n-size+1 {
						t.Fatalf("Windowed(n=%d,size=%d): len=%d cap=%d", n, size, len(got), cap(got))
					}
				}
				if len(got) != len(want) {
					t.Fatalf("Windowed(n=%d,size=%d): %d windows want %d", n, size, len(got), len(want))
				}
				for i, w := range got {
					if d := describe(t, in, w); d != want[i] {
						t.Fatalf("Windowed(n=%d,size=%d)[%d] = %+v want %+v", n, size, i, d, want[i])
					}
					if !reflect.DeepEqual([]int(w), []int(in[i:i+size])) {
						t.Fatalf("Windowed(n=%d,size=%d)[%d] contents %v", n, size, i, w)
					}
				}

				var cb []piece
				slices.WindowedFunc(in, size, func(w named) {
					cb = append(cb, describe(t, in, w))
				})
				if !reflect.DeepEqual(cb, want) {
					t.Fatalf("WindowedFunc(n=%d,size=%d) = %+v want %+v", n, size, cb, want)
				}
			}
		}
	}
}

func TestPairsAndPairsFunc(t *testing.T) {
	for n := 0; n <= 30; n++ {
		in := mkInput(n, n%3)
		want := refPairs(in)

		got := slices.Pairs(in)
		if n < 2 {
			if got != nil {
				t.Fatalf("Pairs(n=%d) = %#v want nil", n, got)
			}
		} else if len(got) != n-1 || cap(got) != n-1 {
			t.Fatalf("Pairs(n=%d): len=%d cap=%d", n, len(got), cap(got))
		}
		if len(got) != len(want) || (len(want) > 0 && !reflect.DeepEqual(got, want)) {
			t.Fatalf("Pairs(n=%d) = %v want %v", n, got, want)
		}

		var cb [][2]int
		slices.PairsFunc(in, func(a, b int) { cb = append(cb, [2]int{a, b}) })
		if len(cb) != len(want) || (len(want) > 0 && !reflect.DeepEqual(cb, want)) {
			t.Fatalf("PairsFunc(n=%d) = %v want %v", n, cb, want)
		}
	}
}

// Callbacks may write to the input while iterating; every piece must be read
// at the moment of its own invocation (no snapshotting).
func TestCallbacksSeeLiveInput(t *testing.T) {
	in := mkInput(8, 0)
	var seen [][2]int
	slices.PairsFunc(in, func(a, b int) {
		seen = append(seen, [2]int{a, b})
		for i := range in {
			in[i]++
		}
	})
	var want [][2]int
	for i := 0; i < 7; i++ {
		want = append(want, [2]int{100 + i + i, 101 + i + i})
	}
	if !reflect.DeepEqual(seen, want) {
		t.Fatalf("PairsFunc live view: %v want %v", seen, want)
	}

	in = mkInput(7, 0)
	var firsts []int
	slices.ChunkFunc(in, 3, func(c named) {
		firsts = append(firsts, c[0])
		for i := range in {
			in[i] += 10
		}
	})
	if !reflect.DeepEqual(firsts, []int{100, 113, 126}) {
		t.Fatalf("ChunkFunc live view: %v", firsts)
	}

	in = mkInput(5, 0)
	firsts = nil
	slices.WindowedFunc(in, 2, func(w named) {
		firsts = append(firsts, w[1])
		for i := range in {
			in[i] += 10
		}
	})
	if !reflect.DeepEqual(firsts, []int{101, 112, 123, 134}) {
		t.Fatalf("WindowedFunc live view: %v", firsts)
	}
}

// outcome runs f and renders either its result or its panic message.
func outcome(f func() string) (s string) {
	defer func() {
		if r := recover(); r != nil {
			s = fmt.Sprintf("panic: %v", r)
		}
	}()
	return f()
}

// Pinned behaviour for sizes outside the property's domain (size <= 0) and nil
// inputs; the refactorings must not disturb these either.
func TestEdgeQuirks(t *testing.T) {
	shape := func(ps []named) string {
		s := fmt.Sprintf("nil=%v", ps == nil)
		for _, p := range ps {
			s += fmt.Sprintf(" %v/%d", []int(p), cap(p))
		}
		return s
	}
	cases := []struct {
		name string
		f    func() string
		want string
	}{
		{"Chunk nil 3", func() string { return shape(slices.Chunk(named(nil), 3)) }, "nil=true"},
		{"Chunk empty 0", func() string { return shape(slices.Chunk(named{}, 0)) }, "nil=true"},
		{"Chunk 3 by 0", func() string { return shape(slices.Chunk(mkInput(3, 0), 0)) }, "panic: runtime error: integer divide by zero"},
		{"Chunk 1 by -2", func() string { return shape(slices.Chunk(mkInput(1, 0), -2)) }, "nil=false [100]/1"},
		{"Chunk 5 by -3", func() string { return shape(slices.Chunk(mkInput(5, 0), -3)) }, "panic: runtime error: slice bounds out of range [:-3]"},
		{"Chunk 4 by -2", func() string { return shape(slices.Chunk(mkInput(4, 0), -2)) }, "panic: runtime error: makeslice: len out of range"},
		{"Windowed nil 1", func() string { return shape(slices.Windowed(named(nil), 1)) }, "nil=true"},
		{"Windowed 2 by 0", func() string { return shape(slices.Windowed(mkInput(2, 0), 0)) }, "nil=false []/2 []/1 []/0"},
		{"Windowed nil 0", func() string { return shape(slices.Windowed(named(nil), 0)) }, "nil=false []/0"},
		{"Windowed 3 by -1", func() string { return shape(slices.Windowed(mkInput(3, 0), -1)) }, "panic: runtime error: slice bounds out of range [:-1]"},
		{"ChunkFunc 3 by 0", func() string {
			slices.ChunkFunc(mkInput(3, 0), 0, func(named) {})
			return "ok"
		}, "panic: runtime error: integer divide by zero"},
		{"ChunkFunc empty 0", func() string {
			k := 0
			slices.ChunkFunc(named{}, 0, func(named) { k++ })
			return fmt.Sprint(k)
		}, "0"},
		{"ChunkFunc 2 by -5", func() string {
			s := ""
			slices.ChunkFunc(mkInput(2, 1), -5, func(c named) { s += fmt.Sprintf("%v/%d", []int(c), cap(c)) })
			return s
		}, "[100 101]/3"},
		{"ChunkFunc 5 by -3", func() string {
			k := 0
			slices.ChunkFunc(mkInput(5, 0), -3, func(named) { k++ })
			return fmt.Sprint(k)
		}, "panic: runtime error: slice bounds out of range [:-3]"},
		{"WindowedFunc 2 by 0", func() string {
			s := ""
			slices.WindowedFunc(mkInput(2, 0), 0, func(w named) { s += fmt.Sprintf("%d/%d ", len(w), cap(w)) })
			return s
		}, "0/2 0/1 0/0 "},
		{"WindowedFunc 3 by -1", func() string {
			k := 0
			slices.WindowedFunc(mkInput(3, 0), -1, func(named) { k++ })
			return fmt.Sprint(k)
		}, "panic: runtime error: slice bounds out of range [:-1]"},
		{"WindowedFunc 3 by minint", func() string {
			k := 0
			slices.WindowedFunc(mkInput(3, 0), -1<<63, func(named) { k++ })
			return fmt.Sprint(k)
		}, "0"},
		{"PairsFunc nil", func() string {
			k := 0
			slices.PairsFunc(named(nil), func(a, b int) { k++ })
			return fmt.Sprint(k)
		}, "0"},
	}
	for _, c := range cases {
		if got := outcome(c.f); got != c.want {
			t.Errorf("%s: got %q want %q", c.name, got, c.want)
		}
	}
}
