package demo

import (
	"fmt"
	"math/rand"
	"sort"
	"strconv"
	"strings"
	"sync"
	"sync/atomic"
	"testing"

	"gopkg.in/typ.v4/maps"
	"gopkg.in/typ.v4/sets"
	"gopkg.in/typ.v4/sync2"
)

// ---------------------------------------------------------------------------
// model

const universe = 14 // members are drawn from [0, universe)

type model map[int]bool

func (m model) sorted() []int {
	out := make([]int, 0, len(m))
	for v := range m {
		out = append(out, v)
	}
	sort.Ints(out)
	return out
}

func (m model) clone() model {
	c := make(model, len(m))
	for v := range m {
		c[v] = true
	}
	return c
}

func modelOf(vs []int) model {
	m := model{}
	for _, v := range vs {
		m[v] = true
	}
	return m
}

func mUnion(a, b model) model {
	r := a.clone()
	for v := range b {
		r[v] = true
	}
	return r
}

func mIntersect(a, b model) model {
	r := model{}
	for v := range a {
		if b[v] {
			r[v] = true
		}
	}
	return r
}

func mDiff(a, b model) model {
	r := model{}
	for v := range a {
		if !b[v] {
			r[v] = true
		}
	}
	return r
}

func mSym(a, b model) model {
	return mUnion(mDiff(a, b), mDiff(b, a))
}

func randomSubset(rng *rand.Rand) []int {
	var out []int
	switch rng.Intn(8) {
	case 0:
		return nil // empty set
	case 1:
		for v := 0; v < universe; v++ { // full set
			out = append(out, v)
		}
	default:
		p := rng.Float64()
		for v := 0; v < universe; v++ {
			if rng.Float64() < p {
				out = append(out, v)
			}
		}
	}
	rng.Shuffle(len(out), func(i, j int) { out[i], out[j] = out[j], out[i] })
	return out
}

// ---------------------------------------------------------------------------
// builders: every way of arriving at a set holding exactly the given members

type builder struct {
	name  string
	build func(members []int, rng *rand.Rand) sets.Set[int]
}

// churn drives a concurrent set through a random history of adds, removes,
// missing lookups and enumerations (which promote the dirty map and leave
// deleted and expunged entries behind), then settles on exactly members.
func churn(s sets.Set[int], members []int, rng *rand.Rand, steps int) {
	want := modelOf(members)
	for i := 0; i < steps; i++ {
		v := rng.Intn(universe + 6) // a few keys that never stay
		switch rng.Intn(7) {
		case 0, 1:
			s.Add(v)
		case 2, 3:
			s.Remove(v)
		case 4:
			s.Has(v)
		case 5:
			s.Len()
		case 6:
			s.Range(func(int) bool { return rng.Intn(3) != 0 })
		}
	}
	for v := 0; v < universe+6; v++ {
		if want[v] {
			s.Add(v)
		} else {
			s.Remove(v)
		}
		if rng.Intn(5) == 0 {
			s.Has(universe + 100) // a miss, counts towards promotion
		}
	}
}

var builders = []builder{
	{"maps/slice", func(members []int, _ *rand.Rand) sets.Set[int] {
		return maps.NewSetFromSlice(members)
	}},
	{"maps/literal", func(members []int, _ *rand.Rand) sets.Set[int] {
		s := make(maps.Set[int])
		for _, v := range members {
			s[v] = struct{}{}
		}
		return s
	}},
	{"maps/churn", func(members []int, rng *rand.Rand) sets.Set[int] {
		s := make(maps.Set[int])
		churn(s, members, rng, 40)
		return s
	}},
	{"sync2/slice", func(members []int, _ *rand.Rand) sets.Set[int] {
		return sync2.NewSetFromSlice(members)
	}},
	{"sync2/promoted", func(members []int, _ *rand.Rand) sets.Set[int] {
		s := new(sync2.Set[int])
		for _, v := range members {
			s.Add(v)
		}
		s.Len() // everything now lives in the read map
		return s
	}},
	{"sync2/deleted", func(members []int, _ *rand.Rand) sets.Set[int] {
		// all of the universe is promoted, the rest then deleted in place
		s := new(sync2.Set[int])
		for v := 0; v < universe; v++ {
			s.Add(v)
		}
		s.Len()
		want := modelOf(members)
		for v := 0; v < universe; v++ {
			if !want[v] {
				s.Remove(v)
			}
		}
		return s
	}},
	{"sync2/expunged", func(members []int, _ *rand.Rand) sets.Set[int] {
		// deleted entries of the read map get expunged by a later store of a
		// fresh key; half of the members come back through expunged entries
		s := new(sync2.Set[int])
		for v := 0; v < universe; v++ {
			s.Add(v)
		}
		s.Len()
		for v := 0; v < universe; v++ {
			s.Remove(v)
		}
		s.Add(universe + 1) // new dirty map; nil entries become expunged
		for i, v := range members {
			if i%2 == 0 {
				s.Add(v)
			}
		}
		s.Remove(universe + 1)
		s.Len()
		for i, v := range members {
			if i%2 == 1 {
				s.Add(v)
			}
		}
		return s
	}},
	{"sync2/dirty", func(members []int, _ *rand.Rand) sets.Set[int] {
		// half promoted, half still only in the dirty map
		s := new(sync2.Set[int])
		for i, v := range members {
			if i%2 == 0 {
				s.Add(v)
			}
		}
		s.Len()
		for i, v := range members {
			if i%2 == 1 {
				s.Add(v)
			}
		}
		return s
	}},
	{"sync2/churn", func(members []int, rng *rand.Rand) sets.Set[int] {
		s := new(sync2.Set[int])
		churn(s, members, rng, 60)
		return s
	}},
	{"sync2/clone-of-churn", func(members []int, rng *rand.Rand) sets.Set[int] {
		s := new(sync2.Set[int])
		churn(s, members, rng, 30)
		return s.Clone()
	}},
}

// ---------------------------------------------------------------------------
// observation

func sortedSlice(s sets.Set[int]) []int {
	out := append([]int(nil), s.Slice()...)
	sort.Ints(out)
	return out
}

func equalInts(a, b []int) bool {
	if len(a) != len(b) {
		return false
	}
	for i := range a {
		if a[i] != b[i] {
			return false
		}
	}
	return true
}

// checkSet compares every reading method of s with the model.
func checkSet(t *testing.T, what string, s sets.Set[int], want model) {
	t.Helper()
	ws := want.sorted()
	if got := s.Len(); got != len(ws) {
		t.Fatalf("%s: Len = %d, want %d (%v)", what, got, len(ws), ws)
	}
	for v := -1; v < universe+7; v++ {
		if got := s.Has(v); got != want[v] {
			t.Fatalf("%s: Has(%d) = %v, want %v", what, v, got, want[v])
		}
	}
	if got := sortedSlice(s); !equalInts(got, ws) {
		t.Fatalf("%s: Slice = %v, want %v", what, got, ws)
	}
	var ranged []int
	s.Range(func(v int) bool {
		ranged = append(ranged, v)
		return true
	})
	sort.Ints(ranged)
	if !equalInts(ranged, ws) {
		t.Fatalf("%s: Range enumerated %v, want %v", what, ranged, ws)
	}
	str := s.String()
	if !strings.HasPrefix(str, "{") || !strings.HasSuffix(str, "}") {
		t.Fatalf("%s: String = %q", what, str)
	}
	var parsed []int
	if inner := str[1 : len(str)-1]; inner != "" {
		for _, f := range strings.Split(inner, " ") {
			n, err := strconv.Atoi(f)
			if err != nil {
				t.Fatalf("%s: String = %q: %v", what, str, err)
			}
			parsed = append(parsed, n)
		}
	}
	sort.Ints(parsed)
	if !equalInts(parsed, ws) {
		t.Fatalf("%s: String = %q, want members %v", what, str, ws)
	}
	// Range stops as soon as told to, for every stopping point.
	for stop := 1; stop <= len(ws); stop++ {
		calls := 0
		s.Range(func(int) bool {
			calls++
			return calls < stop
		})
		if calls != stop {
			t.Fatalf("%s: Range made %d calls after being stopped at %d", what, calls, stop)
		}
	}
}

// checkDetached mutates result heavily and checks the operands do not move,
// then mutates the operands and checks the result does not move.
func checkDetached(t *testing.T, what string, res sets.Set[int], wantRes model, ops []sets.Set[int], wantOps []model) {
	t.Helper()
	snap := res.Clone()
	for v := 0; v < universe; v++ {
		if wantRes[v] {
			res.Remove(v)
		} else {
			res.Add(v)
		}
	}
	for i, op := range ops {
		checkSet(t, what+": operand after mutating result", op, wantOps[i])
	}
	checkSet(t, what+": clone of result after mutating result", snap, wantRes)
	// put the result back, then move the operands instead
	for v := 0; v < universe; v++ {
		if wantRes[v] {
			res.Add(v)
		} else {
			res.Remove(v)
		}
	}
	for i, op := range ops {
		for v := 0; v < universe; v++ {
			if wantOps[i][v] {
				op.Remove(v)
			} else {
				op.Add(v)
			}
		}
	}
	checkSet(t, what+": result after mutating operands", res, wantRes)
	for i, op := range ops { // restore
		for v := 0; v < universe; v++ {
			if wantOps[i][v] {
				op.Add(v)
			} else {
				op.Remove(v)
			}
		}
		checkSet(t, what+": operand restored", op, wantOps[i])
	}
}

// ---------------------------------------------------------------------------
// tests

func TestReadersAgreeWithModel(t *testing.T) {
	rng := rand.New(rand.NewSource(301))
	for round := 0; round < 60; round++ {
		members := randomSubset(rng)
		want := modelOf(members)
		for _, b := range builders {
			s := b.build(members, rng)
			checkSet(t, fmt.Sprintf("round %d %s %v", round, b.name, want.sorted()), s, want)
		}
	}
}

type binop struct {
	name  string
	apply func(a, b sets.Set[int]) sets.Set[int]
	model func(a, b model) model
}

var binops = []binop{
	{"Union", func(a, b sets.Set[int]) sets.Set[int] { return a.Union(b) }, mUnion},
	{"Intersect", func(a, b sets.Set[int]) sets.Set[int] { return a.Intersect(b) }, mIntersect},
	{"SetDiff", func(a, b sets.Set[int]) sets.Set[int] { return a.SetDiff(b) }, mDiff},
	{"SymDiff", func(a, b sets.Set[int]) sets.Set[int] { return a.SymDiff(b) }, mSym},
}

func TestBinaryOperationsAllPairings(t *testing.T) {
	rng := rand.New(rand.NewSource(302))
	for round := 0; round < 12; round++ {
		am, bm := randomSubset(rng), randomSubset(rng)
		if round == 0 {
			am, bm = nil, nil
		}
		if round == 1 {
			bm = append([]int(nil), am...)
		}
		wa, wb := modelOf(am), modelOf(bm)
		for _, ba := range builders {
			for _, bb := range builders {
				for _, op := range binops {
					a, b := ba.build(am, rng), bb.build(bm, rng)
					what := fmt.Sprintf("round %d: %s(%s %v, %s %v)", round, op.name, ba.name, wa.sorted(), bb.name, wb.sorted())
					res := op.apply(a, b)
					wr := op.model(wa, wb)
					checkSet(t, what+": result", res, wr)
					checkSet(t, what+": receiver", a, wa)
					checkSet(t, what+": argument", b, wb)
					// the result is of the receiver's implementation
					if fmt.Sprintf("%T", res) != fmt.Sprintf("%T", a) {
						t.Fatalf("%s: result is a %T, receiver a %T", what, res, a)
					}
					checkDetached(t, what, res, wr, []sets.Set[int]{a, b}, []model{wa, wb})
				}
			}
		}
	}
}

func TestBinaryOperationsOnSelf(t *testing.T) {
	rng := rand.New(rand.NewSource(303))
	for round := 0; round < 25; round++ {
		am := randomSubset(rng)
		wa := modelOf(am)
		for _, ba := range builders {
			for _, op := range binops {
				a := ba.build(am, rng)
				what := fmt.Sprintf("round %d: %s of %s %v with itself", round, op.name, ba.name, wa.sorted())
				res := op.apply(a, a)
				wr := op.model(wa, wa)
				checkSet(t, what+": result", res, wr)
				checkSet(t, what+": operand", a, wa)
				checkDetached(t, what, res, wr, []sets.Set[int]{a}, []model{wa})
			}
		}
	}
}

func TestAddRemoveReportChange(t *testing.T) {
	rng := rand.New(rand.NewSource(304))
	for round := 0; round < 20; round++ {
		members := randomSubset(rng)
		for _, b := range builders {
			s := b.build(members, rng)
			want := modelOf(members)
			for step := 0; step < 120; step++ {
				v := rng.Intn(universe)
				what := fmt.Sprintf("round %d %s step %d", round, b.name, step)
				switch rng.Intn(5) {
				case 0, 1:
					if got := s.Add(v); got != !want[v] {
						t.Fatalf("%s: Add(%d) = %v with membership %v", what, v, got, want[v])
					}
					want[v] = true
					if !s.Has(v) {
						t.Fatalf("%s: Has(%d) false after Add", what, v)
					}
					if s.Add(v) {
						t.Fatalf("%s: second Add(%d) reported a change", what, v)
					}
				case 2, 3:
					if got := s.Remove(v); got != want[v] {
						t.Fatalf("%s: Remove(%d) = %v with membership %v", what, v, got, want[v])
					}
					delete(want, v)
					if s.Has(v) {
						t.Fatalf("%s: Has(%d) true after Remove", what, v)
					}
					if s.Remove(v) {
						t.Fatalf("%s: second Remove(%d) reported a change", what, v)
					}
				case 4:
					if got := s.Len(); got != len(want) {
						t.Fatalf("%s: Len = %d, want %d", what, got, len(want))
					}
				}
			}
			checkSet(t, fmt.Sprintf("round %d %s at the end", round, b.name), s, want)
		}
	}
}

func TestAddSetRemoveSetCounts(t *testing.T) {
	rng := rand.New(rand.NewSource(305))
	for round := 0; round < 10; round++ {
		am, bm := randomSubset(rng), randomSubset(rng)
		wa, wb := modelOf(am), modelOf(bm)
		for _, ba := range builders {
			for _, bb := range builders {
				what := fmt.Sprintf("round %d: %s %v with %s %v", round, ba.name, wa.sorted(), bb.name, wb.sorted())
				a, b := ba.build(am, rng), bb.build(bm, rng)
				if got, want := a.AddSet(b), len(mDiff(wb, wa)); got != want {
					t.Fatalf("%s: AddSet = %d, want %d", what, got, want)
				}
				checkSet(t, what+": receiver after AddSet", a, mUnion(wa, wb))
				checkSet(t, what+": argument after AddSet", b, wb)
				if got := a.AddSet(b); got != 0 {
					t.Fatalf("%s: second AddSet = %d, want 0", what, got)
				}

				a, b = ba.build(am, rng), bb.build(bm, rng)
				if got, want := a.RemoveSet(b), len(mIntersect(wa, wb)); got != want {
					t.Fatalf("%s: RemoveSet = %d, want %d", what, got, want)
				}
				checkSet(t, what+": receiver after RemoveSet", a, mDiff(wa, wb))
				checkSet(t, what+": argument after RemoveSet", b, wb)
				if got := a.RemoveSet(b); got != 0 {
					t.Fatalf("%s: second RemoveSet = %d, want 0", what, got)
				}
			}
			// with itself
			a := ba.build(am, rng)
			if got := a.AddSet(a); got != 0 {
				t.Fatalf("round %d %s: AddSet(self) = %d", round, ba.name, got)
			}
			checkSet(t, "after AddSet(self)", a, wa)
			if got := a.RemoveSet(a); got != len(wa) {
				t.Fatalf("round %d %s: RemoveSet(self) = %d, want %d", round, ba.name, got, len(wa))
			}
			checkSet(t, "after RemoveSet(self)", a, model{})
		}
	}
}

func TestCloneIsDetachedCopy(t *testing.T) {
	rng := rand.New(rand.NewSource(306))
	for round := 0; round < 30; round++ {
		am := randomSubset(rng)
		wa := modelOf(am)
		for _, ba := range builders {
			a := ba.build(am, rng)
			c := a.Clone()
			what := fmt.Sprintf("round %d: Clone of %s %v", round, ba.name, wa.sorted())
			if fmt.Sprintf("%T", c) != fmt.Sprintf("%T", a) {
				t.Fatalf("%s: is a %T, original a %T", what, c, a)
			}
			checkSet(t, what, c, wa)
			checkSet(t, what+": original", a, wa)
			checkDetached(t, what, c, wa, []sets.Set[int]{a}, []model{wa})
		}
	}
}

func TestConstructors(t *testing.T) {
	rng := rand.New(rand.NewSource(307))
	for round := 0; round < 40; round++ {
		n := rng.Intn(20)
		slice := make([]int, n)
		m := map[int]int{}
		for i := range slice {
			slice[i] = rng.Intn(universe) // duplicates are likely
			m[rng.Intn(universe)] = rng.Intn(universe)
		}
		if round == 0 {
			slice, m = nil, nil
		}
		keys, values := model{}, model{}
		for k, v := range m {
			keys[k], values[v] = true, true
		}
		sliceCopy := append([]int(nil), slice...)
		checkSet(t, "maps.NewSetFromSlice", maps.NewSetFromSlice(slice), modelOf(slice))
		checkSet(t, "sync2.NewSetFromSlice", sync2.NewSetFromSlice(slice), modelOf(slice))
		checkSet(t, "maps.NewSetFromKeys", maps.NewSetFromKeys(m), keys)
		checkSet(t, "sync2.NewSetFromKeys", sync2.NewSetFromKeys(m), keys)
		checkSet(t, "maps.NewSetFromValues", maps.NewSetFromValues(m), values)
		checkSet(t, "sync2.NewSetFromValues", sync2.NewSetFromValues(m), values)
		if !equalInts(slice, sliceCopy) {
			t.Fatalf("constructor modified its input slice")
		}
		// detached from the input
		s1, s2 := maps.NewSetFromSlice(slice), sync2.NewSetFromSlice(slice)
		for i := range slice {
			slice[i] = universe + 3
		}
		checkSet(t, "maps.NewSetFromSlice after input changed", s1, modelOf(sliceCopy))
		checkSet(t, "sync2.NewSetFromSlice after input changed", s2, modelOf(sliceCopy))
	}
	type named []int
	checkSet(t, "named slice", maps.NewSetFromSlice(named{3, 3, 1}), model{1: true, 3: true})
	checkSet(t, "named slice", sync2.NewSetFromSlice(named{3, 3, 1}), model{1: true, 3: true})
}

func TestCartesianProduct(t *testing.T) {
	rng := rand.New(rand.NewSource(308))
	for round := 0; round < 8; round++ {
		am, bm := randomSubset(rng), randomSubset(rng)
		wa, wb := modelOf(am), modelOf(bm)
		for _, ba := range builders {
			for _, bb := range builders {
				a, b := ba.build(am, rng), bb.build(bm, rng)
				what := fmt.Sprintf("round %d: %s %v x %s %v", round, ba.name, wa.sorted(), bb.name, wb.sorted())
				prod := sets.CartesianProduct(a, b)
				if len(prod) != len(wa)*len(wb) {
					t.Fatalf("%s: %d pairs, want %d", what, len(prod), len(wa)*len(wb))
				}
				if len(prod) == 0 && prod != nil {
					t.Fatalf("%s: empty product is not nil", what)
				}
				seen := map[sets.Product[int, int]]bool{}
				for _, p := range prod {
					if !wa[p.A] || !wb[p.B] {
						t.Fatalf("%s: pair %v is not of the operands", what, p)
					}
					if seen[p] {
						t.Fatalf("%s: pair %v twice", what, p)
					}
					seen[p] = true
				}
				checkSet(t, what+": left operand", a, wa)
				checkSet(t, what+": right operand", b, wb)
			}
		}
	}
	// operands of different element types, and a set with itself
	l := maps.NewSetFromSlice([]string{"x", "y"})
	r := sync2.NewSetFromSlice([]int{1, 2, 3})
	got := map[string]int{}
	for _, p := range sets.CartesianProduct(l, r) {
		got[fmt.Sprint(p.A, p.B)]++
	}
	if len(got) != 6 {
		t.Fatalf("mixed product = %v", got)
	}
	for k, n := range got {
		if n != 1 {
			t.Fatalf("pair %s %d times", k, n)
		}
	}
	if n := len(sets.CartesianProduct(r, r)); n != 9 {
		t.Fatalf("product with itself has %d pairs", n)
	}
}

func mustNotPanic(t *testing.T, what string, f func()) {
	t.Helper()
	defer func() {
		if r := recover(); r != nil {
			t.Fatalf("%s: panicked: %v", what, r)
		}
	}()
	f()
}

func mustPanic(t *testing.T, what string, f func()) {
	t.Helper()
	defer func() {
		if recover() == nil {
			t.Fatalf("%s: did not panic", what)
		}
	}()
	f()
}

func TestEdgeCases(t *testing.T) {
	// the zero values of both implementations are empty sets
	var nilMap maps.Set[int]
	var zero sync2.Set[int]
	other := maps.NewSetFromSlice([]int{1, 2})
	otherSync := sync2.NewSetFromSlice([]int{2, 3})
	for _, e := range []sets.Set[int]{nilMap, &zero} {
		checkSet(t, fmt.Sprintf("zero %T", e), e, model{})
		checkSet(t, "zero Clone", e.Clone(), model{})
		checkSet(t, "zero Union", e.Union(other), model{1: true, 2: true})
		checkSet(t, "zero Union", e.Union(otherSync), model{2: true, 3: true})
		checkSet(t, "zero Intersect", e.Intersect(other), model{})
		checkSet(t, "zero SetDiff", e.SetDiff(other), model{})
		checkSet(t, "zero SymDiff", e.SymDiff(otherSync), model{2: true, 3: true})
		checkSet(t, "Union with zero", other.Union(e), model{1: true, 2: true})
		checkSet(t, "Intersect with zero", otherSync.Intersect(e), model{})
		checkSet(t, "SetDiff with zero", otherSync.SetDiff(e), model{2: true, 3: true})
		checkSet(t, "SymDiff with zero", other.SymDiff(e), model{1: true, 2: true})
		if e.Remove(1) || e.RemoveSet(other) != 0 || e.AddSet(e) != 0 {
			t.Fatalf("zero %T: reported a change", e)
		}
		if e.String() != "{}" {
			t.Fatalf("zero %T: String = %q", e, e.String())
		}
		if len(sets.CartesianProduct(e, other)) != 0 || len(sets.CartesianProduct(other, e)) != 0 {
			t.Fatalf("zero %T: product not empty", e)
		}
		// results of a zero receiver are usable, writable sets
		u := e.Intersect(other)
		if !u.Add(7) || !u.Has(7) || u.Len() != 1 {
			t.Fatalf("zero %T: Intersect result is not writable", e)
		}
	}
	mustPanic(t, "Add to a nil maps.Set", func() { nilMap.Add(1) })
	mustPanic(t, "AddSet into a nil maps.Set", func() { nilMap.AddSet(other) })
	if nilMap.AddSet(maps.Set[int]{}) != 0 {
		t.Fatalf("nil maps.Set: AddSet of nothing")
	}
	if !zero.Add(1) || zero.Len() != 1 {
		t.Fatalf("zero sync2.Set is not writable")
	}

	// a nil argument is only touched when there is something to ask it
	for _, e := range []sets.Set[int]{maps.Set[int]{}, maps.Set[int](nil), new(sync2.Set[int])} {
		mustNotPanic(t, fmt.Sprintf("%T empty Intersect(nil)", e), func() { checkSet(t, "Intersect(nil)", e.Intersect(nil), model{}) })
		mustNotPanic(t, fmt.Sprintf("%T empty SetDiff(nil)", e), func() { checkSet(t, "SetDiff(nil)", e.SetDiff(nil), model{}) })
		mustPanic(t, fmt.Sprintf("%T empty Union(nil)", e), func() { e.Union(nil) })
		mustPanic(t, fmt.Sprintf("%T empty SymDiff(nil)", e), func() { e.SymDiff(nil) })
		mustPanic(t, fmt.Sprintf("%T empty AddSet(nil)", e), func() { e.AddSet(nil) })
		mustPanic(t, fmt.Sprintf("%T empty RemoveSet(nil)", e), func() { e.RemoveSet(nil) })
	}
	for _, e := range []sets.Set[int]{maps.NewSetFromSlice([]int{1}), sync2.NewSetFromSlice([]int{1})} {
		mustPanic(t, fmt.Sprintf("%T Intersect(nil)", e), func() { e.Intersect(nil) })
		mustPanic(t, fmt.Sprintf("%T SetDiff(nil)", e), func() { e.SetDiff(nil) })
		checkSet(t, "after panics", e, model{1: true})
	}

	// shape of the empty results
	if s := (maps.Set[int]{}).Slice(); s == nil || len(s) != 0 {
		t.Fatalf("maps empty Slice = %#v", s)
	}
	if s := maps.Set[int](nil).Slice(); s == nil || len(s) != 0 {
		t.Fatalf("maps nil Slice = %#v", s)
	}
	if s := new(sync2.Set[int]).Slice(); s != nil {
		t.Fatalf("sync2 empty Slice = %#v", s)
	}
	if s := maps.NewSetFromSlice([]int{4, 5, 6}).Slice(); len(s) != 3 || cap(s) != 3 {
		t.Fatalf("maps Slice len %d cap %d", len(s), cap(s))
	}
	emptied := sync2.NewSetFromSlice([]int{1, 2})
	emptied.Remove(1)
	emptied.Remove(2)
	if s := emptied.Slice(); s != nil {
		t.Fatalf("sync2 emptied Slice = %#v", s)
	}

	// Slice hands out a fresh slice every time
	for _, e := range []sets.Set[int]{maps.NewSetFromSlice([]int{1, 2, 3}), sync2.NewSetFromSlice([]int{1, 2, 3})} {
		s1 := e.Slice()
		for i := range s1 {
			s1[i] = 99
		}
		checkSet(t, "after scribbling on Slice", e, model{1: true, 2: true, 3: true})
	}

	// String separates members by exactly one space, also empty-looking ones
	for _, e := range []sets.Set[string]{
		maps.NewSetFromSlice([]string{"", "a", "b"}),
		sync2.NewSetFromSlice([]string{"", "a", "b"}),
	} {
		str := e.String()
		if len(str) != 6 || strings.Count(str, " ") != 2 || strings.Count(str, "a") != 1 || strings.Count(str, "b") != 1 {
			t.Fatalf("%T String = %q", e, str)
		}
		if str[0] != '{' || str[5] != '}' {
			t.Fatalf("%T String = %q", e, str)
		}
	}
	for _, e := range []sets.Set[string]{
		maps.NewSetFromSlice([]string{"solo"}),
		sync2.NewSetFromSlice([]string{"solo"}),
	} {
		if e.String() != "{solo}" {
			t.Fatalf("%T String = %q", e, e.String())
		}
	}
	for _, e := range []sets.Set[string]{
		maps.NewSetFromSlice([]string{""}),
		sync2.NewSetFromSlice([]string{""}),
	} {
		if e.String() != "{}" || e.Len() != 1 || !e.Has("") {
			t.Fatalf("%T String = %q", e, e.String())
		}
	}
}

// A set whose Range is watched: the operations may enumerate an argument
// but have to leave it alone.
type watched struct {
	sets.Set[int]
	writes int32
}

func (w *watched) Add(v int) bool             { atomic.AddInt32(&w.writes, 1); return w.Set.Add(v) }
func (w *watched) Remove(v int) bool          { atomic.AddInt32(&w.writes, 1); return w.Set.Remove(v) }
func (w *watched) AddSet(s sets.Set[int]) int { atomic.AddInt32(&w.writes, 1); return w.Set.AddSet(s) }
func (w *watched) RemoveSet(s sets.Set[int]) int {
	atomic.AddInt32(&w.writes, 1)
	return w.Set.RemoveSet(s)
}

func TestArgumentIsOnlyRead(t *testing.T) {
	rng := rand.New(rand.NewSource(309))
	for round := 0; round < 20; round++ {
		am, bm := randomSubset(rng), randomSubset(rng)
		wa, wb := modelOf(am), modelOf(bm)
		for _, ba := range builders {
			for _, op := range binops {
				a := ba.build(am, rng)
				w := &watched{Set: maps.NewSetFromSlice(bm)}
				res := op.apply(a, w)
				checkSet(t, op.name+" with a foreign implementation", res, op.model(wa, wb))
				if w.writes != 0 {
					t.Fatalf("%s wrote to its argument", op.name)
				}
				checkSet(t, op.name+": foreign argument", w, wb)
			}
			a := ba.build(am, rng)
			w := &watched{Set: maps.NewSetFromSlice(bm)}
			a.AddSet(w)
			a.RemoveSet(w)
			sets.CartesianProduct[int, int](a, w)
			sets.CartesianProduct[int, int](w, a)
			if w.writes != 0 {
				t.Fatalf("AddSet/RemoveSet/CartesianProduct wrote to the argument")
			}
		}
	}
}

// ---------------------------------------------------------------------------
// concurrency

func TestConcurrentSetDisjointWriters(t *testing.T) {
	const writers, perWriter, rounds = 8, 16, 60
	var s sync2.Set[int]
	stableA := sync2.NewSetFromSlice([]int{-1, -2, -3, -4})
	stableB := maps.NewSetFromSlice([]int{-3, -4, -5})
	finals := make([]model, writers)
	var wg sync.WaitGroup
	var stop int32
	for w := 0; w < writers; w++ {
		wg.Add(1)
		go func(w int) {
			defer wg.Done()
			rng := rand.New(rand.NewSource(int64(400 + w)))
			mine := model{}
			for i := 0; i < perWriter*rounds; i++ {
				v := w*perWriter + rng.Intn(perWriter)
				if rng.Intn(2) == 0 {
					if got := s.Add(v); got != !mine[v] {
						t.Errorf("writer %d: Add(%d) = %v with membership %v", w, v, got, mine[v])
						return
					}
					mine[v] = true
				} else {
					if got := s.Remove(v); got != mine[v] {
						t.Errorf("writer %d: Remove(%d) = %v with membership %v", w, v, got, mine[v])
						return
					}
					delete(mine, v)
				}
				if got := s.Has(v); got != mine[v] {
					t.Errorf("writer %d: Has(%d) = %v, want %v", w, v, got, mine[v])
					return
				}
			}
			finals[w] = mine
		}(w)
	}
	var readers sync.WaitGroup
	for r := 0; r < 4; r++ {
		readers.Add(1)
		go func(r int) {
			defer readers.Done()
			for first := true; first || atomic.LoadInt32(&stop) == 0; first = false {
				// enumerations of the moving set never repeat a member
				seen := map[int]bool{}
				s.Range(func(v int) bool {
					if seen[v] {
						t.Errorf("Range enumerated %d twice", v)
					}
					seen[v] = true
					return true
				})
				if n := s.Len(); n < 0 || n > writers*perWriter {
					t.Errorf("Len = %d", n)
				}
				for _, v := range s.Slice() {
					if v < 0 || v >= writers*perWriter {
						t.Errorf("Slice holds %d", v)
					}
				}
				_ = s.String()
				// operations between sets nobody writes to stay exact
				if got := sortedSlice(stableA.Union(stableB)); !equalInts(got, []int{-5, -4, -3, -2, -1}) {
					t.Errorf("Union = %v", got)
				}
				if got := sortedSlice(stableB.Intersect(stableA)); !equalInts(got, []int{-4, -3}) {
					t.Errorf("Intersect = %v", got)
				}
				if got := sortedSlice(stableA.SymDiff(stableB)); !equalInts(got, []int{-5, -2, -1}) {
					t.Errorf("SymDiff = %v", got)
				}
				// the moving set as an operand: the stable part is exact
				u := s.Union(stableB)
				for _, v := range []int{-3, -4, -5} {
					if !u.Has(v) {
						t.Errorf("Union with moving receiver lost %d", v)
					}
				}
				d := stableA.SetDiff(&s)
				if got := sortedSlice(d); !equalInts(got, []int{-4, -3, -2, -1}) {
					t.Errorf("SetDiff against moving argument = %v", got)
				}
				if n := s.Intersect(stableA).Len(); n != 0 {
					t.Errorf("Intersect of disjoint sets has %d members", n)
				}
			}
		}(r)
	}
	wg.Wait()
	atomic.StoreInt32(&stop, 1)
	readers.Wait()
	want := model{}
	for _, m := range finals {
		for v := range m {
			want[v] = true
		}
	}
	if !t.Failed() {
		checkSet(t, "after the writers", &s, want)
	}
}

func TestConcurrentSameKey(t *testing.T) {
	const goroutines = 8
	for round := 0; round < 200; round++ {
		s := new(sync2.Set[int])
		if round%2 == 1 {
			// the key exists as a deleted entry of the read map
			s.Add(7)
			s.Add(8)
			s.Len()
			s.Remove(7)
			if round%4 == 3 {
				s.Add(9) // and now as an expunged one
			}
		}
		var added, removed int32
		var wg sync.WaitGroup
		start := make(chan struct{})
		for g := 0; g < goroutines; g++ {
			wg.Add(1)
			go func() {
				defer wg.Done()
				<-start
				if s.Add(7) {
					atomic.AddInt32(&added, 1)
				}
			}()
		}
		close(start)
		wg.Wait()
		if added != 1 || !s.Has(7) {
			t.Fatalf("round %d: %d of %d concurrent Adds reported a change", round, added, goroutines)
		}
		start = make(chan struct{})
		for g := 0; g < goroutines; g++ {
			wg.Add(1)
			go func() {
				defer wg.Done()
				<-start
				if s.Remove(7) {
					atomic.AddInt32(&removed, 1)
				}
			}()
		}
		close(start)
		wg.Wait()
		if removed != 1 || s.Has(7) {
			t.Fatalf("round %d: %d of %d concurrent Removes reported a change", round, removed, goroutines)
		}
	}
}

func TestConcurrentAddSetCounts(t *testing.T) {
	// several goroutines pour overlapping sets into one concurrent set: every
	// member is counted as gained by exactly one of them.
	for round := 0; round < 40; round++ {
		rng := rand.New(rand.NewSource(int64(500 + round)))
		var dst sync2.Set[int]
		var srcs []sets.Set[int]
		all := model{}
		for g := 0; g < 6; g++ {
			members := randomSubset(rng)
			for _, v := range members {
				all[v] = true
			}
			srcs = append(srcs, builders[rng.Intn(len(builders))].build(members, rng))
		}
		var gained, lost int32
		var wg sync.WaitGroup
		for _, src := range srcs {
			wg.Add(1)
			go func(src sets.Set[int]) {
				defer wg.Done()
				atomic.AddInt32(&gained, int32(dst.AddSet(src)))
			}(src)
		}
		wg.Wait()
		if int(gained) != len(all) {
			t.Fatalf("round %d: AddSet calls gained %d in total, want %d", round, gained, len(all))
		}
		checkSet(t, "after concurrent AddSet", &dst, all)
		for _, src := range srcs {
			wg.Add(1)
			go func(src sets.Set[int]) {
				defer wg.Done()
				atomic.AddInt32(&lost, int32(dst.RemoveSet(src)))
			}(src)
		}
		wg.Wait()
		if int(lost) != len(all) {
			t.Fatalf("round %d: RemoveSet calls lost %d in total, want %d", round, lost, len(all))
		}
		checkSet(t, "after concurrent RemoveSet", &dst, model{})
	}
}

func TestSharedOperandsAreOnlyRead(t *testing.T) {
	// Map-backed sets are safe to share between goroutines that only read.
	// Every operation below must treat its operands as read-only, which the
	// race detector verifies.
	rng := rand.New(rand.NewSource(310))
	am, bm := []int{1, 2, 3, 4, 5, 6}, []int{4, 5, 6, 7, 8}
	wa, wb := modelOf(am), modelOf(bm)
	for _, ba := range builders {
		for _, bb := range builders {
			a, b := ba.build(am, rng), bb.build(bm, rng)
			var wg sync.WaitGroup
			for g := 0; g < 6; g++ {
				wg.Add(1)
				go func(g int) {
					defer wg.Done()
					for i := 0; i < 5; i++ {
						for _, op := range binops {
							if got := sortedSlice(op.apply(a, b)); !equalInts(got, op.model(wa, wb).sorted()) {
								t.Errorf("%s(%s, %s) = %v", op.name, ba.name, bb.name, got)
							}
							if got := sortedSlice(op.apply(b, a)); !equalInts(got, op.model(wb, wa).sorted()) {
								t.Errorf("%s(%s, %s) = %v", op.name, bb.name, ba.name, got)
							}
						}
						if got := sortedSlice(a.Clone()); !equalInts(got, wa.sorted()) {
							t.Errorf("Clone = %v", got)
						}
						if n := len(sets.CartesianProduct(a, b)); n != len(wa)*len(wb) {
							t.Errorf("product has %d pairs", n)
						}
						if a.Len() != len(wa) || !a.Has(1) || a.Has(8) || len(a.String()) != 13 {
							t.Errorf("readers disagree with the model")
						}
						// no-op writes do not touch the set either
						if a.Add(1) || a.Remove(8) || a.AddSet(a) != 0 || b.RemoveSet(maps.Set[int]{1: {}, 2: {}}) != 0 {
							t.Errorf("a no-op write reported a change")
						}
						fresh := maps.Set[int]{}
						if fresh.AddSet(a) != len(wa) || fresh.RemoveSet(b) != 3 {
							t.Errorf("AddSet/RemoveSet from shared operands")
						}
					}
				}(g)
			}
			wg.Wait()
			checkSet(t, "shared receiver", a, wa)
			checkSet(t, "shared argument", b, wb)
		}
	}
}
