package demo

import (
	"fmt"
	"math/rand"
	"sort"
	"strconv"
	"strings"
	"sync"
	"testing"

	"gopkg.in/typ.v4/maps"
	"gopkg.in/typ.v4/sets"
	"gopkg.in/typ.v4/sync2"
)

const universe = 12

type model map[int]bool

func (m model) sorted() []int {
	out := make([]int, 0, len(m))
	for v, ok := range m {
		if ok {
			out = append(out, v)
		}
	}
	sort.Ints(out)
	return out
}

func (m model) clone() model {
	c := model{}
	for _, v := range m.sorted() {
		c[v] = true
	}
	return c
}

func randModel(rng *rand.Rand) model {
	m := model{}
	switch rng.Intn(6) {
	case 0: // empty
		return m
	case 1: // full
		for v := 0; v < universe; v++ {
			m[v] = true
		}
		return m
	}
	p := rng.Float64()
	for v := 0; v < universe; v++ {
		if rng.Float64() < p {
			m[v] = true
		}
	}
	return m
}

// builder makes a set whose membership equals the model, by some history.
type builder struct {
	name string
	mk   func(rng *rand.Rand, want model) sets.Set[int]
}

// churn applies a random history of operations to s (tracking it in cur) and
// then fixes the membership up so it equals want. The history decides the
// read-map/dirty-map/deleted-entry layout of the concurrent set.
func churn(t testing.TB, rng *rand.Rand, s sets.Set[int], cur model, want model) {
	steps := rng.Intn(40)
	for i := 0; i < steps; i++ {
		v := rng.Intn(universe)
		switch rng.Intn(7) {
		case 0, 1:
			got := s.Add(v)
			if got != !cur[v] {
				t.Fatalf("history Add(%d) = %v, model has=%v", v, got, cur[v])
			}
			cur[v] = true
		case 2, 3:
			got := s.Remove(v)
			if got != cur[v] {
				t.Fatalf("history Remove(%d) = %v, model has=%v", v, got, cur[v])
			}
			delete(cur, v)
		case 4:
			// lookups (misses promote the dirty map of the concurrent set)
			n := rng.Intn(6)
			for j := 0; j < n; j++ {
				w := rng.Intn(universe + 3)
				if s.Has(w) != cur[w] {
					t.Fatalf("history Has(%d) = %v, want %v", w, s.Has(w), cur[w])
				}
			}
		case 5:
			if s.Len() != len(cur.sorted()) {
				t.Fatalf("history Len = %d, want %d", s.Len(), len(cur.sorted()))
			}
		case 6:
			s.Range(func(int) bool { return false })
		}
	}
	order := rng.Perm(universe)
	for _, v := range order {
		switch {
		case want[v] && !cur[v]:
			if !s.Add(v) {
				t.Fatalf("fixup Add(%d) = false", v)
			}
			cur[v] = true
		case !want[v] && cur[v]:
			if !s.Remove(v) {
				t.Fatalf("fixup Remove(%d) = false", v)
			}
			delete(cur, v)
		}
	}
	if rng.Intn(2) == 0 {
		for j := 0; j < 4; j++ {
			s.Has(universe + j)
		}
	}
}

func builders(t testing.TB) []builder {
	return []builder{
		{"maps", func(rng *rand.Rand, want model) sets.Set[int] {
			switch rng.Intn(3) {
			case 0:
				return maps.NewSetFromSlice(want.sorted())
			case 1:
				s := make(maps.Set[int])
				churn(t, rng, s, model{}, want)
				return s
			default:
				start := randModel(rng)
				s := maps.NewSetFromSlice(start.sorted())
				churn(t, rng, s, start.clone(), want)
				return s
			}
		}},
		{"sync2", func(rng *rand.Rand, want model) sets.Set[int] {
			switch rng.Intn(4) {
			case 0:
				return sync2.NewSetFromSlice(want.sorted())
			case 1:
				s := new(sync2.Set[int])
				churn(t, rng, s, model{}, want)
				return s
			case 2:
				// everything added, promoted, then the unwanted removed
				// (nil entries in the read map), then a new key to force
				// expunging, then removed again.
				s := new(sync2.Set[int])
				for v := 0; v < universe; v++ {
					s.Add(v)
				}
				s.Len()
				for v := 0; v < universe; v++ {
					if !want[v] {
						s.Remove(v)
					}
				}
				if rng.Intn(2) == 0 {
					s.Add(universe + 1)
					s.Remove(universe + 1)
				}
				return s
			default:
				start := randModel(rng)
				s := sync2.NewSetFromSlice(start.sorted())
				churn(t, rng, s, start.clone(), want)
				return s
			}
		}},
	}
}

func members(s sets.Set[int]) []int {
	out := s.Slice()
	sort.Ints(out)
	return out
}

func eq(a, b []int) bool {
	if len(a) != len(b) {
		return false
	}
	for i := range a {
		if a[i] != b[i] {
			return false
		}
	}
	return true
}

// checkAgainstModel verifies all the read-only observers against the model.
func checkAgainstModel(t testing.TB, what string, s sets.Set[int], m model) {
	t.Helper()
	want := m.sorted()
	if got := members(s); !eq(got, want) {
		t.Fatalf("%s: Slice = %v, want %v", what, got, want)
	}
	if s.Len() != len(want) {
		t.Fatalf("%s: Len = %d, want %d", what, s.Len(), len(want))
	}
	for v := -1; v < universe+3; v++ {
		if s.Has(v) != m[v] {
			t.Fatalf("%s: Has(%d) = %v, want %v", what, v, s.Has(v), m[v])
		}
	}
	var ranged []int
	s.Range(func(v int) bool {
		ranged = append(ranged, v)
		return true
	})
	sort.Ints(ranged)
	if !eq(ranged, want) {
		t.Fatalf("%s: Range visited %v, want %v", what, ranged, want)
	}
	// Range stops as soon as the callback says so.
	for stopAfter := 1; stopAfter <= len(want); stopAfter++ {
		calls := 0
		seen := map[int]bool{}
		s.Range(func(v int) bool {
			calls++
			if seen[v] || !m[v] {
				t.Fatalf("%s: Range gave %d (dup or not member)", what, v)
			}
			seen[v] = true
			return calls < stopAfter
		})
		if calls != stopAfter {
			t.Fatalf("%s: Range made %d calls, want stop after %d", what, calls, stopAfter)
		}
	}
	if len(want) == 0 {
		s.Range(func(v int) bool {
			t.Fatalf("%s: Range on empty set called back with %d", what, v)
			return true
		})
	}
	// String
	str := s.String()
	if !strings.HasPrefix(str, "{") || !strings.HasSuffix(str, "}") {
		t.Fatalf("%s: String = %q", what, str)
	}
	inner := str[1 : len(str)-1]
	var parsed []int
	if inner != "" {
		for _, f := range strings.Split(inner, " ") {
			n, err := strconv.Atoi(f)
			if err != nil {
				t.Fatalf("%s: String = %q: %v", what, str, err)
			}
			parsed = append(parsed, n)
		}
	}
	sort.Ints(parsed)
	if !eq(parsed, want) {
		t.Fatalf("%s: String = %q, want members %v", what, str, want)
	}
}

// checkDetached verifies that res shares no state with the operands.
func checkDetached(t testing.TB, what string, res sets.Set[int], resModel model, ops []sets.Set[int], opModels []model) {
	t.Helper()
	// mutate the result: operands must not change
	for v := 0; v < universe; v++ {
		if resModel[v] {
			if !res.Remove(v) {
				t.Fatalf("%s: result.Remove(%d) = false", what, v)
			}
		} else {
			if !res.Add(v) {
				t.Fatalf("%s: result.Add(%d) = false", what, v)
			}
		}
	}
	inv := model{}
	for v := 0; v < universe; v++ {
		if !resModel[v] {
			inv[v] = true
		}
	}
	checkAgainstModel(t, what+" (result after flip)", res, inv)
	for i, op := range ops {
		checkAgainstModel(t, fmt.Sprintf("%s (operand %d after result flip)", what, i), op, opModels[i])
	}
}

func TestSetAlgebraAllPairings(t *testing.T) {
	bs := builders(t)
	for _, ba := range bs {
		for _, bb := range bs {
			ba, bb := ba, bb
			t.Run(ba.name+"_"+bb.name, func(t *testing.T) {
				rng := rand.New(rand.NewSource(20240611))
				for iter := 0; iter < 400; iter++ {
					ma, mb := randModel(rng), randModel(rng)
					if iter%7 == 0 {
						mb = ma.clone()
					}
					type binop struct {
						name string
						call func(a, b sets.Set[int]) sets.Set[int]
						in   func(x, y bool) bool
					}
					binops := []binop{
						{"Union", func(a, b sets.Set[int]) sets.Set[int] { return a.Union(b) }, func(x, y bool) bool { return x || y }},
						{"Intersect", func(a, b sets.Set[int]) sets.Set[int] { return a.Intersect(b) }, func(x, y bool) bool { return x && y }},
						{"SetDiff", func(a, b sets.Set[int]) sets.Set[int] { return a.SetDiff(b) }, func(x, y bool) bool { return x && !y }},
						{"SymDiff", func(a, b sets.Set[int]) sets.Set[int] { return a.SymDiff(b) }, func(x, y bool) bool { return x != y }},
					}
					for _, op := range binops {
						a, b := ba.mk(rng, ma), bb.mk(rng, mb)
						checkAgainstModel(t, "A built", a, ma)
						checkAgainstModel(t, "B built", b, mb)
						want := model{}
						for v := 0; v < universe; v++ {
							if op.in(ma[v], mb[v]) {
								want[v] = true
							}
						}
						res := op.call(a, b)
						what := fmt.Sprintf("iter %d %s A=%v B=%v", iter, op.name, ma.sorted(), mb.sorted())
						checkAgainstModel(t, what+" result", res, want)
						checkAgainstModel(t, what+" A after", a, ma)
						checkAgainstModel(t, what+" B after", b, mb)
						// mutate operands: result must not change
						res2 := op.call(a, b)
						a.Add(universe + 1)
						b.Add(universe + 2)
						for v := 0; v < universe; v++ {
							if v%2 == 0 {
								a.Remove(v)
								b.Add(v)
							} else {
								a.Add(v)
								b.Remove(v)
							}
						}
						checkAgainstModel(t, what+" result after operand mutation", res2, want)
						// fresh operands, mutate result: operands must not change
						a, b = ba.mk(rng, ma), bb.mk(rng, mb)
						res3 := op.call(a, b)
						checkDetached(t, what, res3, want, []sets.Set[int]{a, b}, []model{ma, mb})
					}

					// self as argument
					{
						a := ba.mk(rng, ma)
						checkAgainstModel(t, "A∪A", a.Union(a), ma)
						checkAgainstModel(t, "A∩A", a.Intersect(a), ma)
						checkAgainstModel(t, "A\\A", a.SetDiff(a), model{})
						checkAgainstModel(t, "A△A", a.SymDiff(a), model{})
						checkAgainstModel(t, "A after self ops", a, ma)
						if n := a.AddSet(a); n != 0 {
							t.Fatalf("A.AddSet(A) = %d", n)
						}
						checkAgainstModel(t, "A after AddSet(A)", a, ma)
					}

					// AddSet / RemoveSet
					{
						a, b := ba.mk(rng, ma), bb.mk(rng, mb)
						gain := 0
						un := model{}
						for v := 0; v < universe; v++ {
							if mb[v] && !ma[v] {
								gain++
							}
							if ma[v] || mb[v] {
								un[v] = true
							}
						}
						if got := a.AddSet(b); got != gain {
							t.Fatalf("iter %d AddSet = %d, want %d (A=%v B=%v)", iter, got, gain, ma.sorted(), mb.sorted())
						}
						checkAgainstModel(t, "A after AddSet", a, un)
						checkAgainstModel(t, "B after AddSet", b, mb)
						if got := a.AddSet(b); got != 0 {
							t.Fatalf("second AddSet = %d, want 0", got)
						}

						a, b = ba.mk(rng, ma), bb.mk(rng, mb)
						loss := 0
						diff := model{}
						for v := 0; v < universe; v++ {
							if ma[v] && mb[v] {
								loss++
							}
							if ma[v] && !mb[v] {
								diff[v] = true
							}
						}
						if got := a.RemoveSet(b); got != loss {
							t.Fatalf("iter %d RemoveSet = %d, want %d (A=%v B=%v)", iter, got, loss, ma.sorted(), mb.sorted())
						}
						checkAgainstModel(t, "A after RemoveSet", a, diff)
						checkAgainstModel(t, "B after RemoveSet", b, mb)
						if got := a.RemoveSet(b); got != 0 {
							t.Fatalf("second RemoveSet = %d, want 0", got)
						}
					}

					// Clone
					{
						a := ba.mk(rng, ma)
						c := a.Clone()
						checkAgainstModel(t, "clone", c, ma)
						checkDetached(t, "clone", c, ma, []sets.Set[int]{a}, []model{ma})
						c2 := a.Clone()
						for v := 0; v < universe; v++ {
							if ma[v] {
								a.Remove(v)
							} else {
								a.Add(v)
							}
						}
						checkAgainstModel(t, "clone after original flip", c2, ma)
					}

					// Add / Remove reporting
					{
						a := ba.mk(rng, ma)
						cur := ma.clone()
						for k := 0; k < 30; k++ {
							v := rng.Intn(universe)
							if rng.Intn(2) == 0 {
								if got := a.Add(v); got != !cur[v] {
									t.Fatalf("Add(%d) = %v with has=%v", v, got, cur[v])
								}
								cur[v] = true
							} else {
								if got := a.Remove(v); got != cur[v] {
									t.Fatalf("Remove(%d) = %v with has=%v", v, got, cur[v])
								}
								delete(cur, v)
							}
							if k%5 == 0 {
								checkAgainstModel(t, "after add/remove", a, cur)
							}
						}
						checkAgainstModel(t, "after add/remove", a, cur)
					}

					// CartesianProduct
					{
						a, b := ba.mk(rng, ma), bb.mk(rng, mb)
						prod := sets.CartesianProduct(a, b)
						if len(prod) != len(ma.sorted())*len(mb.sorted()) {
							t.Fatalf("CartesianProduct len = %d, want %d", len(prod), len(ma.sorted())*len(mb.sorted()))
						}
						seen := map[sets.Product[int, int]]bool{}
						for _, p := range prod {
							if seen[p] {
								t.Fatalf("CartesianProduct duplicate %v", p)
							}
							seen[p] = true
							if !ma[p.A] || !mb[p.B] {
								t.Fatalf("CartesianProduct foreign pair %v", p)
							}
						}
						checkAgainstModel(t, "A after product", a, ma)
						checkAgainstModel(t, "B after product", b, mb)
					}
				}
			})
		}
	}
}

func TestConstructors(t *testing.T) {
	rng := rand.New(rand.NewSource(99))
	for iter := 0; iter < 300; iter++ {
		n := rng.Intn(20)
		slice := make([]int, n)
		want := model{}
		for i := range slice {
			slice[i] = rng.Intn(universe)
			want[slice[i]] = true
		}
		checkAgainstModel(t, "maps.NewSetFromSlice", maps.NewSetFromSlice(slice), want)
		checkAgainstModel(t, "sync2.NewSetFromSlice", sync2.NewSetFromSlice(slice), want)

		m := map[int]int{}
		keys, vals := model{}, model{}
		for i := 0; i < n; i++ {
			k, v := rng.Intn(universe), rng.Intn(universe)
			m[k] = v
		}
		for k, v := range m {
			keys[k] = true
			vals[v] = true
		}
		checkAgainstModel(t, "maps.NewSetFromKeys", maps.NewSetFromKeys(m), keys)
		checkAgainstModel(t, "sync2.NewSetFromKeys", sync2.NewSetFromKeys(m), keys)
		checkAgainstModel(t, "maps.NewSetFromValues", maps.NewSetFromValues(m), vals)
		checkAgainstModel(t, "sync2.NewSetFromValues", sync2.NewSetFromValues(m), vals)

		// the constructed set is detached from its source
		s1 := maps.NewSetFromKeys(m)
		s2 := sync2.NewSetFromKeys(m)
		m[universe+1] = 1
		for k := range keys {
			delete(m, k)
		}
		checkAgainstModel(t, "maps.NewSetFromKeys detached", s1, keys)
		checkAgainstModel(t, "sync2.NewSetFromKeys detached", s2, keys)
	}
	// nil inputs
	checkAgainstModel(t, "maps nil slice", maps.NewSetFromSlice([]int(nil)), model{})
	checkAgainstModel(t, "sync2 nil slice", sync2.NewSetFromSlice([]int(nil)), model{})
	checkAgainstModel(t, "maps nil map keys", maps.NewSetFromKeys(map[int]string(nil)), model{})
	checkAgainstModel(t, "sync2 nil map keys", sync2.NewSetFromKeys(map[int]string(nil)), model{})
	checkAgainstModel(t, "maps nil map values", maps.NewSetFromValues(map[string]int(nil)), model{})
	checkAgainstModel(t, "sync2 nil map values", sync2.NewSetFromValues(map[string]int(nil)), model{})
	// constructed sets are writable
	for _, s := range []sets.Set[int]{
		maps.NewSetFromSlice([]int(nil)), sync2.NewSetFromSlice([]int(nil)),
		maps.NewSetFromKeys(map[int]string(nil)), sync2.NewSetFromKeys(map[int]string(nil)),
		maps.NewSetFromValues(map[string]int(nil)), sync2.NewSetFromValues(map[string]int(nil)),
	} {
		if !s.Add(3) || s.Add(3) || !s.Has(3) || s.Len() != 1 {
			t.Fatalf("constructed empty set not usable")
		}
	}
}

func TestEdgeCases(t *testing.T) {
	// nil map-backed set: read-only operations work like the empty set.
	var nilSet maps.Set[int]
	other := maps.NewSetFromSlice([]int{1, 2})
	checkAgainstModel(t, "nil maps.Set", nilSet, model{})
	if nilSet.Remove(1) {
		t.Fatal("nil set Remove = true")
	}
	if nilSet.RemoveSet(other) != 0 {
		t.Fatal("nil set RemoveSet != 0")
	}
	if got := nilSet.Slice(); got == nil || len(got) != 0 {
		t.Fatalf("nil maps.Set Slice = %#v, want empty non-nil", got)
	}
	checkAgainstModel(t, "nil∪B", nilSet.Union(other), model{1: true, 2: true})
	checkAgainstModel(t, "nil∩B", nilSet.Intersect(other), model{})
	checkAgainstModel(t, "nil\\B", nilSet.SetDiff(other), model{})
	checkAgainstModel(t, "nil△B", nilSet.SymDiff(other), model{1: true, 2: true})
	checkAgainstModel(t, "B∪nil", other.Union(nilSet), model{1: true, 2: true})
	checkAgainstModel(t, "B\\nil", other.SetDiff(nilSet), model{1: true, 2: true})
	c := nilSet.Clone()
	if !c.Add(1) {
		t.Fatal("clone of nil set not writable")
	}
	func() {
		defer func() {
			if recover() == nil {
				t.Fatal("Add on nil maps.Set must panic")
			}
		}()
		nilSet.Add(1)
	}()
	if nilSet.AddSet(maps.Set[int]{}) != 0 {
		t.Fatal("nil.AddSet(empty) != 0")
	}

	// Slice results: fresh, and nil-ness for the empty sets.
	if got := (maps.Set[int]{}).Slice(); got == nil || len(got) != 0 {
		t.Fatalf("empty maps.Set Slice = %#v", got)
	}
	if got := new(sync2.Set[int]).Slice(); len(got) != 0 {
		t.Fatalf("empty sync2.Set Slice = %#v", got)
	}
	if got := new(sync2.Set[int]).Slice(); got != nil {
		t.Fatalf("empty sync2.Set Slice = %#v, want nil as before", got)
	}
	for _, s := range []sets.Set[int]{maps.NewSetFromSlice([]int{1, 2, 3}), sync2.NewSetFromSlice([]int{1, 2, 3})} {
		sl := s.Slice()
		if len(sl) != 3 {
			t.Fatalf("Slice len = %d", len(sl))
		}
		for i := range sl {
			sl[i] = 99
		}
		checkAgainstModel(t, "after slice scribble", s, model{1: true, 2: true, 3: true})
	}

	// Empty operands with a nil interface argument: nothing is asked of it by
	// the filtering operations on an empty receiver.
	for _, s := range []sets.Set[int]{maps.Set[int]{}, new(sync2.Set[int])} {
		checkAgainstModel(t, "empty∩nil", s.Intersect(nil), model{})
		checkAgainstModel(t, "empty\\nil", s.SetDiff(nil), model{})
	}
	// ... and a non-empty receiver panics on a nil argument.
	for _, s := range []sets.Set[int]{maps.Set[int]{1: {}}, sync2.NewSetFromSlice([]int{1})} {
		for name, f := range map[string]func(){
			"Intersect": func() { s.Intersect(nil) },
			"SetDiff":   func() { s.SetDiff(nil) },
			"Union":     func() { s.Union(nil) },
			"SymDiff":   func() { s.SymDiff(nil) },
		} {
			func() {
				defer func() {
					if recover() == nil {
						t.Fatalf("%s(nil) on non-empty set must panic", name)
					}
				}()
				f()
			}()
		}
	}

	// NaN members: never equal to themselves, so each Add adds.
	nan := func() float64 { var z float64; return z / z }()
	for _, s := range []sets.Set[float64]{maps.Set[float64]{}, new(sync2.Set[float64])} {
		if !s.Add(nan) || !s.Add(nan) {
			t.Fatal("Add(NaN) must report true every time")
		}
		if s.Has(nan) || s.Remove(nan) {
			t.Fatal("NaN must not be found")
		}
		if s.Len() != 2 || len(s.Slice()) != 2 {
			t.Fatalf("NaN set Len = %d Slice = %v", s.Len(), s.Slice())
		}
		if s.Clone().Len() != 2 {
			t.Fatalf("NaN set Clone Len = %d", s.Clone().Len())
		}
	}

	// String with strings and a single member.
	for _, s := range []sets.Set[string]{maps.NewSetFromSlice([]string{"x"}), sync2.NewSetFromSlice([]string{"x"})} {
		if s.String() != "{x}" {
			t.Fatalf("String = %q", s.String())
		}
		s.Remove("x")
		if s.String() != "{}" {
			t.Fatalf("String = %q", s.String())
		}
	}

	// Removing everything while ranging over oneself.
	for _, s := range []sets.Set[int]{maps.NewSetFromSlice([]int{1, 2, 3, 4}), sync2.NewSetFromSlice([]int{1, 2, 3, 4})} {
		if n := s.RemoveSet(s); n != 4 {
			t.Fatalf("S.RemoveSet(S) = %d", n)
		}
		checkAgainstModel(t, "after RemoveSet(self)", s, model{})
	}
}

// TestConcurrentSet: the concurrent set under concurrent use, with each
// goroutine owning a disjoint slice of the key space so the outcome is exact.
func TestConcurrentSet(t *testing.T) {
	const workers = 8
	const perWorker = 200
	var s sync2.Set[int]
	shared := sync2.NewSetFromSlice([]int{-1, -2, -3})
	var wg sync.WaitGroup
	errs := make(chan error, workers*4)
	for w := 0; w < workers; w++ {
		w := w
		wg.Add(1)
		go func() {
			defer wg.Done()
			rng := rand.New(rand.NewSource(int64(w) + 1))
			base := w * perWorker
			mine := map[int]bool{}
			for i := 0; i < 3000; i++ {
				v := base + rng.Intn(perWorker)
				switch rng.Intn(6) {
				case 0, 1:
					if got := s.Add(v); got != !mine[v] {
						errs <- fmt.Errorf("Add(%d) = %v, has=%v", v, got, mine[v])
						return
					}
					mine[v] = true
				case 2:
					if got := s.Remove(v); got != mine[v] {
						errs <- fmt.Errorf("Remove(%d) = %v, has=%v", v, got, mine[v])
						return
					}
					delete(mine, v)
				case 3:
					if got := s.Has(v); got != mine[v] {
						errs <- fmt.Errorf("Has(%d) = %v, has=%v", v, got, mine[v])
						return
					}
				case 4:
					// everything seen in my range must be mine, at most once
					seen := map[int]bool{}
					bad := false
					s.Range(func(x int) bool {
						if x >= base && x < base+perWorker {
							if !mine[x] || seen[x] {
								bad = true
								return false
							}
							seen[x] = true
						}
						return true
					})
					if bad || len(seen) != len(mine) {
						errs <- fmt.Errorf("Range saw %d of my %d members (bad=%v)", len(seen), len(mine), bad)
						return
					}
				case 5:
					// binary operations against a quiescent set, concurrently
					// with writers on s
					if i%50 == 0 {
						u := s.Union(shared)
						if !u.Has(-1) || !u.Has(-2) || !u.Has(-3) {
							errs <- fmt.Errorf("Union lost shared members")
							return
						}
						for x := range mine {
							if !u.Has(x) {
								errs <- fmt.Errorf("Union lost my member %d", x)
								return
							}
						}
						if n := s.Intersect(shared).Len(); n != 0 {
							errs <- fmt.Errorf("Intersect with disjoint = %d", n)
							return
						}
						d := shared.SetDiff(&s)
						if d.Len() != 3 {
							errs <- fmt.Errorf("shared\\s Len = %d", d.Len())
							return
						}
						sd := shared.SymDiff(&s)
						for x := range mine {
							if !sd.Has(x) {
								errs <- fmt.Errorf("SymDiff lost my member %d", x)
								return
							}
						}
						c := s.Clone()
						for x := range mine {
							if !c.Has(x) {
								errs <- fmt.Errorf("Clone lost my member %d", x)
								return
							}
						}
					}
				}
			}
			// final: exact check of my slice
			for v := base; v < base+perWorker; v++ {
				if s.Has(v) != mine[v] {
					errs <- fmt.Errorf("final Has(%d) = %v", v, s.Has(v))
					return
				}
			}
			// leave exactly the even members of my range
			for v := base; v < base+perWorker; v++ {
				if v%2 == 0 {
					s.Add(v)
				} else {
					s.Remove(v)
				}
			}
		}()
	}
	wg.Wait()
	close(errs)
	for err := range errs {
		t.Fatal(err)
	}
	if s.Len() != workers*perWorker/2 {
		t.Fatalf("final Len = %d, want %d", s.Len(), workers*perWorker/2)
	}
	sl := s.Slice()
	sort.Ints(sl)
	for i, v := range sl {
		if v != 2*i {
			t.Fatalf("final Slice[%d] = %d", i, v)
		}
	}
	if got := shared.Slice(); len(got) != 3 || shared.Len() != 3 {
		t.Fatalf("shared changed: %v", got)
	}
}
