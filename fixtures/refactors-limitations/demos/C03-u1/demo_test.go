package demo

import (
	"fmt"
	"math/rand"
	"sort"
	"strings"
	"sync"
	"testing"

	"gopkg.in/typ.v4/maps"
	"gopkg.in/typ.v4/sets"
	"gopkg.in/typ.v4/sync2"
)

const universe = 12

type model map[int]bool

func (m model) clone() model {
	c := model{}
	for k := range m {
		c[k] = true
	}
	return c
}

func (m model) sorted() []int {
	out := make([]int, 0, len(m))
	for k := range m {
		out = append(out, k)
	}
	sort.Ints(out)
	return out
}

func sortedCopy(in []int) []int {
	out := append([]int{}, in...)
	sort.Ints(out)
	return out
}

func equalInts(a, b []int) bool {
	if len(a) != len(b) {
		return false
	}
	for i := range a {
		if a[i] != b[i] {
			return false
		}
	}
	return true
}

// checkSet compares every read-only observation of s with the model.
func checkSet(t *testing.T, what string, s sets.Set[int], m model) {
	t.Helper()
	want := m.sorted()
	if got := s.Len(); got != len(want) {
		t.Fatalf("%s: Len=%d want %d (%v)", what, got, len(want), want)
	}
	for v := -1; v <= universe; v++ {
		if got := s.Has(v); got != m[v] {
			t.Fatalf("%s: Has(%d)=%v want %v", what, v, got, m[v])
		}
	}
	sl := s.Slice()
	if got := sortedCopy(sl); !equalInts(got, want) {
		t.Fatalf("%s: Slice=%v want %v", what, got, want)
	}
	// The slice is new: scribbling over it must not affect the set.
	for i := range sl {
		sl[i] = -99
	}
	if got := sortedCopy(s.Slice()); !equalInts(got, want) {
		t.Fatalf("%s: Slice after scribble=%v want %v", what, got, want)
	}
	var ranged []int
	s.Range(func(v int) bool {
		ranged = append(ranged, v)
		return true
	})
	if got := sortedCopy(ranged); !equalInts(got, want) {
		t.Fatalf("%s: Range=%v want %v", what, got, want)
	}
	// Range stops as soon as the callback says so.
	for stop := 1; stop <= len(want)+1; stop++ {
		calls := 0
		s.Range(func(int) bool {
			calls++
			return calls < stop
		})
		exp := stop
		if exp > len(want) {
			exp = len(want)
		}
		if calls != exp {
			t.Fatalf("%s: Range stop=%d made %d calls, want %d", what, stop, calls, exp)
		}
	}
	str := s.String()
	if !strings.HasPrefix(str, "{") || !strings.HasSuffix(str, "}") {
		t.Fatalf("%s: String=%q", what, str)
	}
	inner := str[1 : len(str)-1]
	var fields []string
	if inner != "" {
		fields = strings.Split(inner, " ")
	}
	wantStr := make([]string, len(want))
	for i, v := range want {
		wantStr[i] = fmt.Sprint(v)
	}
	sort.Strings(fields)
	sort.Strings(wantStr)
	if strings.Join(fields, ",") != strings.Join(wantStr, ",") {
		t.Fatalf("%s: String=%q want members %v", what, str, want)
	}
}

const (
	implMap = iota
	implSync
)

func implName(i int) string {
	if i == implMap {
		return "maps"
	}
	return "sync2"
}

func randSlice(r *rand.Rand) []int {
	n := r.Intn(universe + 4)
	out := make([]int, n)
	for i := range out {
		out[i] = r.Intn(universe)
	}
	return out
}

func newSet(r *rand.Rand, impl int) (sets.Set[int], model) {
	m := model{}
	switch r.Intn(4) {
	case 0: // empty
		if impl == implMap {
			return make(maps.Set[int]), m
		}
		return new(sync2.Set[int]), m
	case 1: // from slice (with duplicates)
		sl := randSlice(r)
		for _, v := range sl {
			m[v] = true
		}
		if impl == implMap {
			return maps.NewSetFromSlice(sl), m
		}
		return sync2.NewSetFromSlice(sl), m
	case 2: // from keys
		src := map[int]string{}
		for _, v := range randSlice(r) {
			src[v] = "x"
			m[v] = true
		}
		if impl == implMap {
			return maps.NewSetFromKeys(src), m
		}
		return sync2.NewSetFromKeys(src), m
	default: // from values (with duplicates)
		src := map[string]int{}
		for i, v := range randSlice(r) {
			src[fmt.Sprint("k", i)] = v
			m[v] = true
		}
		if impl == implMap {
			return maps.NewSetFromValues(src), m
		}
		return sync2.NewSetFromValues(src), m
	}
}

// build creates a set through a random construction history, so that the
// concurrent implementation ends up with a mix of read-map, dirty-map, deleted
// and expunged entries.
func build(t *testing.T, r *rand.Rand, impl int) (sets.Set[int], model) {
	t.Helper()
	s, m := newSet(r, impl)
	steps := r.Intn(40)
	for i := 0; i < steps; i++ {
		v := r.Intn(universe)
		switch r.Intn(10) {
		case 0, 1, 2:
			if got := s.Add(v); got != !m[v] {
				t.Fatalf("build %s: Add(%d)=%v want %v", implName(impl), v, got, !m[v])
			}
			m[v] = true
		case 3, 4, 5:
			if got := s.Remove(v); got != m[v] {
				t.Fatalf("build %s: Remove(%d)=%v want %v", implName(impl), v, got, m[v])
			}
			delete(m, v)
		case 6: // misses promote the dirty map
			for j := 0; j < universe; j++ {
				if got := s.Has(j); got != m[j] {
					t.Fatalf("build %s: Has(%d)=%v want %v", implName(impl), j, got, m[j])
				}
			}
		case 7: // Range promotes the dirty map
			if got := s.Len(); got != len(m) {
				t.Fatalf("build %s: Len=%d want %d", implName(impl), got, len(m))
			}
		case 8:
			s.Range(func(int) bool { return false })
		default:
			// remove then re-add: deleted entry revived
			if got := s.Remove(v); got != m[v] {
				t.Fatalf("build %s: Remove(%d)=%v want %v", implName(impl), v, got, m[v])
			}
			if got := s.Add(v); !got {
				t.Fatalf("build %s: re-Add(%d)=false", implName(impl), v)
			}
			m[v] = true
		}
	}
	return s, m
}

func union(a, b model) model {
	r := a.clone()
	for k := range b {
		r[k] = true
	}
	return r
}

func intersect(a, b model) model {
	r := model{}
	for k := range a {
		if b[k] {
			r[k] = true
		}
	}
	return r
}

func setDiff(a, b model) model {
	r := model{}
	for k := range a {
		if !b[k] {
			r[k] = true
		}
	}
	return r
}

func symDiff(a, b model) model {
	return union(setDiff(a, b), setDiff(b, a))
}

// checkDetached verifies that res is a new set sharing no state with the
// operands: mutating res leaves the operands alone and vice versa.
func checkDetached(t *testing.T, what string, res sets.Set[int], rm model, a sets.Set[int], am model, b sets.Set[int], bm model) {
	t.Helper()
	checkSet(t, what+" result", res, rm)
	checkSet(t, what+" lhs after op", a, am)
	checkSet(t, what+" rhs after op", b, bm)
	// mutate the result
	rm = rm.clone()
	for v := 0; v < universe; v++ {
		if v%2 == 0 {
			if got := res.Add(v); got != !rm[v] {
				t.Fatalf("%s: result.Add(%d)=%v want %v", what, v, got, !rm[v])
			}
			rm[v] = true
		} else {
			if got := res.Remove(v); got != rm[v] {
				t.Fatalf("%s: result.Remove(%d)=%v want %v", what, v, got, rm[v])
			}
			delete(rm, v)
		}
	}
	checkSet(t, what+" result after mutation", res, rm)
	checkSet(t, what+" lhs after result mutation", a, am)
	checkSet(t, what+" rhs after result mutation", b, bm)
}

func TestSetAlgebraAllPairings(t *testing.T) {
	for seed := int64(1); seed <= 150; seed++ {
		r := rand.New(rand.NewSource(seed))
		for ia := implMap; ia <= implSync; ia++ {
			for ib := implMap; ib <= implSync; ib++ {
				a, am := build(t, r, ia)
				b, bm := build(t, r, ib)
				name := fmt.Sprintf("seed %d %s/%s A=%v B=%v", seed, implName(ia), implName(ib), am.sorted(), bm.sorted())
				checkSet(t, name+" A", a, am)
				checkSet(t, name+" B", b, bm)

				checkDetached(t, name+" Union", a.Union(b), union(am, bm), a, am, b, bm)
				checkDetached(t, name+" Intersect", a.Intersect(b), intersect(am, bm), a, am, b, bm)
				checkDetached(t, name+" SetDiff", a.SetDiff(b), setDiff(am, bm), a, am, b, bm)
				checkDetached(t, name+" SymDiff", a.SymDiff(b), symDiff(am, bm), a, am, b, bm)
				checkDetached(t, name+" Intersect rev", b.Intersect(a), intersect(bm, am), b, bm, a, am)
				checkDetached(t, name+" SetDiff rev", b.SetDiff(a), setDiff(bm, am), b, bm, a, am)
				checkDetached(t, name+" Clone", a.Clone(), am, a, am, b, bm)

				// the same object on both sides
				checkDetached(t, name+" Union self", a.Union(a), am, a, am, b, bm)
				checkDetached(t, name+" Intersect self", a.Intersect(a), am, a, am, b, bm)
				checkDetached(t, name+" SetDiff self", a.SetDiff(a), model{}, a, am, b, bm)
				checkDetached(t, name+" SymDiff self", a.SymDiff(a), model{}, a, am, b, bm)

				// operand mutated afterwards must not leak into an earlier result
				res := a.Intersect(b)
				resM := intersect(am, bm)
				un := a.Union(b)
				unM := union(am, bm)
				v := r.Intn(universe)
				a.Add(v)
				am[v] = true
				w := r.Intn(universe)
				b.Remove(w)
				delete(bm, w)
				checkSet(t, name+" earlier Intersect", res, resM)
				checkSet(t, name+" earlier Union", un, unM)

				// AddSet / RemoveSet counts
				c := a.Clone()
				cm := am.clone()
				wantAdded := len(setDiff(bm, cm))
				if got := c.AddSet(b); got != wantAdded {
					t.Fatalf("%s: AddSet=%d want %d", name, got, wantAdded)
				}
				cm = union(cm, bm)
				checkSet(t, name+" after AddSet", c, cm)
				checkSet(t, name+" arg after AddSet", b, bm)
				if got := c.AddSet(b); got != 0 {
					t.Fatalf("%s: second AddSet=%d want 0", name, got)
				}
				d := a.Clone()
				dm := am.clone()
				wantRemoved := len(intersect(dm, bm))
				if got := d.RemoveSet(b); got != wantRemoved {
					t.Fatalf("%s: RemoveSet=%d want %d", name, got, wantRemoved)
				}
				dm = setDiff(dm, bm)
				checkSet(t, name+" after RemoveSet", d, dm)
				checkSet(t, name+" arg after RemoveSet", b, bm)
				if got := d.RemoveSet(b); got != 0 {
					t.Fatalf("%s: second RemoveSet=%d want 0", name, got)
				}
				checkSet(t, name+" A at end", a, am)
				checkSet(t, name+" B at end", b, bm)
			}
		}
	}
}

func TestEdgeCases(t *testing.T) {
	mk := []func(...int) sets.Set[int]{
		func(v ...int) sets.Set[int] { return maps.NewSetFromSlice(v) },
		func(v ...int) sets.Set[int] { return sync2.NewSetFromSlice(v) },
	}
	toModel := func(v ...int) model {
		m := model{}
		for _, x := range v {
			m[x] = true
		}
		return m
	}
	cases := [][2][]int{
		{nil, nil},
		{nil, {1, 2, 3}},
		{{1, 2, 3}, nil},
		{{1}, {1}},
		{{1}, {2}},
		{{1, 2, 3}, {2, 3, 4}},
		{{1, 2, 3, 4, 5, 6, 7}, {3}},
		{{3}, {1, 2, 3, 4, 5, 6, 7}},
		{{1, 2, 3, 4, 5, 6, 7}, {8}},
		{{0, 1, 2, 3}, {0, 1, 2, 3}},
		{{1, 1, 1, 2, 2}, {2, 2, 2}},
	}
	for _, mkA := range mk {
		for _, mkB := range mk {
			for _, c := range cases {
				a, b := mkA(c[0]...), mkB(c[1]...)
				am, bm := toModel(c[0]...), toModel(c[1]...)
				name := fmt.Sprintf("%T/%T %v %v", a, b, c[0], c[1])
				checkDetached(t, name+" Union", a.Union(b), union(am, bm), a, am, b, bm)
				checkDetached(t, name+" Intersect", a.Intersect(b), intersect(am, bm), a, am, b, bm)
				checkDetached(t, name+" SetDiff", a.SetDiff(b), setDiff(am, bm), a, am, b, bm)
				checkDetached(t, name+" SymDiff", a.SymDiff(b), symDiff(am, bm), a, am, b, bm)
			}
		}
	}
	// nil map-backed set is a valid empty set for reading
	var nilSet maps.Set[int]
	full := maps.NewSetFromSlice([]int{1, 2, 3})
	fm := toModel(1, 2, 3)
	checkSet(t, "nil set", nilSet, model{})
	checkDetached(t, "full∩nil", full.Intersect(nilSet), model{}, full, fm, nilSet, model{})
	checkDetached(t, "full∪nil", full.Union(nilSet), fm, full, fm, nilSet, model{})
	checkDetached(t, "full\\nil", full.SetDiff(nilSet), fm, full, fm, nilSet, model{})
	checkDetached(t, "full△nil", full.SymDiff(nilSet), fm, full, fm, nilSet, model{})
	checkDetached(t, "nil∩full", nilSet.Intersect(full), model{}, full, fm, nilSet, model{})
	checkDetached(t, "nil\\full", nilSet.SetDiff(full), model{}, full, fm, nilSet, model{})
	if nilSet.Remove(1) {
		t.Fatal("Remove on nil set reported true")
	}
	// zero value of the concurrent set
	var zs sync2.Set[int]
	checkSet(t, "zero sync2 set", &zs, model{})
	if zs.Remove(1) {
		t.Fatal("Remove on zero sync2 set reported true")
	}
	checkDetached(t, "full∩zero", full.Intersect(&zs), model{}, full, fm, &zs, model{})
	checkDetached(t, "zero∩full", zs.Intersect(full), model{}, full, fm, &zs, model{})

	// nil interface operand: empty receiver never touches it, non-empty panics
	for _, mkA := range mk {
		e := mkA()
		checkSet(t, "empty∩<nil>", e.Intersect(nil), model{})
		checkSet(t, "empty\\<nil>", e.SetDiff(nil), model{})
		ne := mkA(1, 2)
		for opName, op := range map[string]func(){
			"Intersect": func() { ne.Intersect(nil) },
			"SetDiff":   func() { ne.SetDiff(nil) },
			"Union":     func() { ne.Union(nil) },
			"SymDiff":   func() { ne.SymDiff(nil) },
		} {
			func() {
				defer func() {
					if recover() == nil {
						t.Fatalf("%T.%s(nil) did not panic", ne, opName)
					}
				}()
				op()
			}()
		}
		checkSet(t, "non-empty after panics", ne, toModel(1, 2))
	}
}

func TestFloatNaN(t *testing.T) {
	nan := func() float64 { var z float64; return z / z }()
	a := make(maps.Set[float64])
	if !a.Add(nan) || !a.Add(nan) || !a.Add(1) || a.Add(1) {
		t.Fatal("Add reporting with NaN")
	}
	if a.Len() != 3 || a.Has(nan) || a.Remove(nan) || a.Len() != 3 {
		t.Fatal("NaN membership")
	}
	b := maps.NewSetFromSlice([]float64{1})
	if got := a.Intersect(b); got.Len() != 1 || !got.Has(1) {
		t.Fatalf("a∩b=%v", got)
	}
	if got := b.Intersect(a); got.Len() != 1 || !got.Has(1) {
		t.Fatalf("b∩a=%v", got)
	}
	if got := a.SetDiff(b); got.Len() != 2 || got.Has(1) {
		t.Fatalf("a\\b=%v", got)
	}
	if a.Len() != 3 || b.Len() != 1 {
		t.Fatal("operands changed")
	}
}

func TestCartesianProduct(t *testing.T) {
	for seed := int64(1); seed <= 40; seed++ {
		r := rand.New(rand.NewSource(seed))
		for ia := implMap; ia <= implSync; ia++ {
			for ib := implMap; ib <= implSync; ib++ {
				a, am := build(t, r, ia)
				var strs []string
				bm := map[string]bool{}
				for i, n := 0, r.Intn(6); i < n; i++ {
					s := fmt.Sprint("s", r.Intn(6))
					strs = append(strs, s)
					bm[s] = true
				}
				var b sets.Set[string]
				if ib == implMap {
					b = maps.NewSetFromSlice(strs)
				} else {
					b = sync2.NewSetFromSlice(strs)
					// add some deleted entries
					b.Add("gone")
					b.Len()
					b.Remove("gone")
					b.Add("gone2")
					b.Remove("gone2")
				}
				prod := sets.CartesianProduct[int, string](a, b)
				if len(prod) != len(am)*len(bm) {
					t.Fatalf("seed %d: %d pairs, want %d", seed, len(prod), len(am)*len(bm))
				}
				seen := map[sets.Product[int, string]]bool{}
				for _, p := range prod {
					if seen[p] {
						t.Fatalf("seed %d: duplicate pair %v", seed, p)
					}
					seen[p] = true
					if !am[p.A] || !bm[p.B] {
						t.Fatalf("seed %d: foreign pair %v", seed, p)
					}
				}
				checkSet(t, "A after product", a, am)
				if b.Len() != len(bm) {
					t.Fatalf("B changed by product")
				}
			}
		}
	}
}

// TestConcurrent exercises the concurrent set from many goroutines: writers
// own disjoint key ranges (so their Add/Remove reports are deterministic),
// readers run the binary operations against a stable set meanwhile.
func TestConcurrent(t *testing.T) {
	const writers = 6
	const perWriter = 40
	const rounds = 30
	var shared sync2.Set[int]
	stableVals := []int{-1, -2, -3, -4, -5}
	stable := sync2.NewSetFromSlice(stableVals)
	stableMap := maps.NewSetFromSlice([]int{-1, -2, -3, -4, -5, -6, -7, -8})
	for _, v := range stableVals {
		shared.Add(v)
	}
	var wg sync.WaitGroup
	errs := make(chan string, 1000)
	fail := func(format string, args ...interface{}) {
		select {
		case errs <- fmt.Sprintf(format, args...):
		default:
		}
	}
	for w := 0; w < writers; w++ {
		wg.Add(1)
		go func(w int) {
			defer wg.Done()
			base := w * perWriter
			for round := 0; round < rounds; round++ {
				for i := 0; i < perWriter; i++ {
					if !shared.Add(base + i) {
						fail("Add(%d) false on absent key", base+i)
					}
					if shared.Add(base + i) {
						fail("Add(%d) true on present key", base+i)
					}
					if !shared.Has(base + i) {
						fail("Has(%d) false after Add", base+i)
					}
				}
				own := make([]int, perWriter)
				for i := range own {
					own[i] = base + i
				}
				if got := shared.AddSet(maps.NewSetFromSlice(own)); got != 0 {
					fail("AddSet own = %d", got)
				}
				if round%2 == 0 {
					for i := 0; i < perWriter; i++ {
						if !shared.Remove(base + i) {
							fail("Remove(%d) false on present key", base+i)
						}
						if shared.Remove(base + i) {
							fail("Remove(%d) true on absent key", base+i)
						}
					}
				} else {
					if got := shared.RemoveSet(sync2.NewSetFromSlice(own)); got != perWriter {
						fail("RemoveSet own = %d", got)
					}
				}
			}
		}(w)
	}
	for rd := 0; rd < 4; rd++ {
		wg.Add(1)
		go func(rd int) {
			defer wg.Done()
			for i := 0; i < 150; i++ {
				// stable ∩ shared: the stable members are never removed from shared.
				in := stable.Intersect(&shared)
				if got := sortedCopy(in.Slice()); !equalInts(got, []int{-5, -4, -3, -2, -1}) {
					fail("stable∩shared = %v", got)
				}
				in2 := stableMap.Intersect(&shared)
				if got := sortedCopy(in2.Slice()); !equalInts(got, []int{-5, -4, -3, -2, -1}) {
					fail("stableMap∩shared = %v", got)
				}
				df := stableMap.SetDiff(&shared)
				if got := sortedCopy(df.Slice()); !equalInts(got, []int{-8, -7, -6}) {
					fail("stableMap\\shared = %v", got)
				}
				in3 := shared.Intersect(stableMap)
				if got := sortedCopy(in3.Slice()); !equalInts(got, []int{-5, -4, -3, -2, -1}) {
					fail("shared∩stableMap = %v", got)
				}
				if got := shared.SetDiff(stable).Has(-1); got {
					fail("shared\\stable has -1")
				}
				un := shared.Union(stable)
				for _, v := range stableVals {
					if !un.Has(v) {
						fail("shared∪stable lacks %d", v)
					}
				}
				sd := shared.SymDiff(stable)
				for _, v := range stableVals {
					if sd.Has(v) {
						fail("shared△stable has %d", v)
					}
				}
				if n := shared.Len(); n < len(stableVals) || n > len(stableVals)+writers*perWriter {
					fail("Len=%d out of bounds", n)
				}
				seen := map[int]bool{}
				for _, v := range shared.Clone().Slice() {
					if seen[v] {
						fail("duplicate %d in clone", v)
					}
					seen[v] = true
				}
				_ = shared.String()
			}
		}(rd)
	}
	wg.Wait()
	close(errs)
	for e := range errs {
		t.Error(e)
	}
	want := model{}
	for _, v := range stableVals {
		want[v] = true
	}
	if got := sortedCopy(shared.Slice()); !equalInts(got, want.sorted()) {
		t.Fatalf("final shared = %v", got)
	}
}
