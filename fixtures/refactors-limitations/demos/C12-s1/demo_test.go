package demo_test

import (
	"fmt"
	"reflect"
	"runtime"
	"testing"

	"gopkg.in/typ.v4/slices"
)

// IntS is a named slice type so that the S type parameter is exercised.
type IntS []int

const sentinel = -7

// mk returns a slice with values 1..n, backed by an array of n+spare
// elements whose spare part is filled with distinct negative sentinels.
// The second result is the full backing array view.
func mk(n, spare int) (IntS, IntS) {
	full := make(IntS, n+spare)
	for i := range full {
		if i < n {
			full[i] = i + 1
		} else {
			full[i] = sentinel - i
		}
	}
	return full[: n : n+spare], full
}

func vals(n int) IntS {
	v := make(IntS, n)
	for i := range v {
		v[i] = 100 + i
	}
	return v
}

// modelInsert is the splice reference: old[:idx] ++ ins ++ old[idx:].
func modelInsert(old IntS, idx int, ins IntS) IntS {
	var out IntS
	for i := 0; i < idx; i++ {
		out = append(out, old[i])
	}
	for _, v := range ins {
		out = append(out, v)
	}
	for i := idx; i < len(old); i++ {
		out = append(out, old[i])
	}
	return out
}

// modelRemove is the splice reference: old[:idx] ++ old[idx+n:].
func modelRemove(old IntS, idx, n int) IntS {
	var out IntS
	for i := 0; i < idx; i++ {
		out = append(out, old[i])
	}
	for i := idx + n; i < len(old); i++ {
		out = append(out, old[i])
	}
	return out
}

func eq(a, b IntS) bool {
	if len(a) != len(b) {
		return false
	}
	for i := range a {
		if a[i] != b[i] {
			return false
		}
	}
	return true
}

func sameBacking(a, b IntS) bool {
	if cap(a) == 0 || cap(b) == 0 {
		return false
	}
	return &a[:1][0] == &b[:1][0]
}

// catch runs f and returns the panic message ("" if none) and whether the
// panic value was a runtime.Error.
func catch(f func()) (msg string, isRuntime bool) {
	defer func() {
		if r := recover(); r != nil {
			msg = fmt.Sprint(r)
			_, isRuntime = r.(runtime.Error)
		}
	}()
	f()
	return "", false
}

func TestInsert(t *testing.T) {
	for n := 0; n <= 7; n++ {
		for spare := 0; spare <= 3; spare++ {
			for idx := 0; idx <= n; idx++ {
				s, full := mk(n, spare)
				old := append(IntS(nil), s...)
				oldFull := append(IntS(nil), full...)
				slices.Insert(&s, idx, 999)
				want := modelInsert(old, idx, IntS{999})
				if !eq(s, want) {
					t.Fatalf("Insert n=%d spare=%d idx=%d: got %v want %v", n, spare, idx, s, want)
				}
				if spare > 0 {
					if !sameBacking(s, full) {
						t.Fatalf("Insert n=%d spare=%d idx=%d: expected in-place", n, spare, idx)
					}
					if cap(s) != n+spare {
						t.Fatalf("Insert cap changed: %d", cap(s))
					}
					if !eq(full[n+1:], oldFull[n+1:]) {
						t.Fatalf("Insert touched spare capacity beyond new length: %v", full)
					}
				} else {
					if sameBacking(s, full) {
						t.Fatalf("Insert n=%d spare=0: expected reallocation", n)
					}
					if ref := append(make(IntS, n, n), 999); cap(s) != cap(ref) {
						t.Fatalf("Insert n=%d: grown capacity %d, plain append gives %d", n, cap(s), cap(ref))
					}
					if !eq(full, oldFull) {
						t.Fatalf("Insert with reallocation modified old array: %v", full)
					}
				}
			}
		}
	}
	// nil slice
	var s IntS
	slices.Insert(&s, 0, 5)
	if !eq(s, IntS{5}) {
		t.Fatalf("Insert into nil: %v", s)
	}
	// strings
	ss := []string{"a", "b", "c"}
	slices.Insert(&ss, 1, "x")
	if !reflect.DeepEqual(ss, []string{"a", "x", "b", "c"}) {
		t.Fatalf("Insert strings: %v", ss)
	}
}

func TestInsertSlice(t *testing.T) {
	for n := 0; n <= 6; n++ {
		for spare := 0; spare <= 5; spare++ {
			for k := 0; k <= 4; k++ {
				for idx := 0; idx <= n; idx++ {
					s, full := mk(n, spare)
					old := append(IntS(nil), s...)
					oldFull := append(IntS(nil), full...)
					ins := vals(k)
					insCopy := append(IntS(nil), ins...)
					slices.InsertSlice(&s, idx, ins)
					want := modelInsert(old, idx, insCopy)
					if !eq(s, want) {
						t.Fatalf("InsertSlice n=%d spare=%d k=%d idx=%d: got %v want %v", n, spare, k, idx, s, want)
					}
					if !eq(ins, insCopy) {
						t.Fatalf("InsertSlice modified values: %v", ins)
					}
					if k <= spare && n+spare > 0 {
						if !sameBacking(s, full) || cap(s) != n+spare {
							t.Fatalf("InsertSlice n=%d spare=%d k=%d: expected in-place", n, spare, k)
						}
						if !eq(full[n+k:], oldFull[n+k:]) {
							t.Fatalf("InsertSlice touched spare beyond new length: %v", full)
						}
					} else if k > spare {
						if sameBacking(s, full) {
							t.Fatalf("InsertSlice expected reallocation")
						}
						if ref := append(make(IntS, n, n+spare), insCopy...); cap(s) != cap(ref) {
							t.Fatalf("InsertSlice: grown capacity %d, plain append gives %d", cap(s), cap(ref))
						}
						if !eq(full, oldFull) {
							t.Fatalf("InsertSlice with reallocation modified old array: %v", full)
						}
					}
				}
			}
		}
	}
	var s IntS
	slices.InsertSlice(&s, 0, nil)
	if s != nil {
		t.Fatalf("InsertSlice nil into nil should stay nil: %#v", s)
	}
	slices.InsertSlice(&s, 0, IntS{1, 2})
	if !eq(s, IntS{1, 2}) {
		t.Fatalf("InsertSlice into nil: %v", s)
	}
}

func TestRemove(t *testing.T) {
	for n := 1; n <= 7; n++ {
		for spare := 0; spare <= 2; spare++ {
			for idx := 0; idx < n; idx++ {
				s, full := mk(n, spare)
				old := append(IntS(nil), s...)
				oldFull := append(IntS(nil), full...)
				slices.Remove(&s, idx)
				want := modelRemove(old, idx, 1)
				if !eq(s, want) {
					t.Fatalf("Remove n=%d spare=%d idx=%d: got %v want %v", n, spare, idx, s, want)
				}
				if !sameBacking(s, full) && n > 0 {
					t.Fatalf("Remove must stay in place")
				}
				if cap(s) != n+spare {
					t.Fatalf("Remove changed cap: %d", cap(s))
				}
				// vacated slot keeps the old last element, the rest is untouched.
				if !eq(full[n-1:], oldFull[n-1:]) {
					t.Fatalf("Remove: tail of backing array changed: %v vs %v", full, oldFull)
				}
			}
		}
	}
}

func TestRemoveSlice(t *testing.T) {
	for n := 0; n <= 7; n++ {
		for spare := 0; spare <= 2; spare++ {
			for idx := 0; idx <= n; idx++ {
				for k := 0; idx+k <= n; k++ {
					s, full := mk(n, spare)
					old := append(IntS(nil), s...)
					oldFull := append(IntS(nil), full...)
					slices.RemoveSlice(&s, idx, k)
					want := modelRemove(old, idx, k)
					if !eq(s, want) {
						t.Fatalf("RemoveSlice n=%d spare=%d idx=%d k=%d: got %v want %v", n, spare, idx, k, s, want)
					}
					if cap(s) != n+spare {
						t.Fatalf("RemoveSlice changed cap: %d", cap(s))
					}
					if n+spare > 0 && !sameBacking(s, full) {
						t.Fatalf("RemoveSlice must stay in place")
					}
					if !eq(full[n-k:], oldFull[n-k:]) {
						t.Fatalf("RemoveSlice: tail of backing array changed: %v vs %v", full, oldFull)
					}
				}
			}
		}
	}
	var s IntS
	slices.RemoveSlice(&s, 0, 0)
	if s != nil {
		t.Fatalf("RemoveSlice(nil,0,0) should stay nil")
	}
}

// TestInvalidPositions pins the panics (and the state left behind) for
// positions outside the valid range.
func TestInvalidPositions(t *testing.T) {
	type tc struct {
		name    string
		run     func(s *IntS)
		wantMsg string
		after   IntS
	}
	cases := []tc{
		{"Insert idx=len+1", func(s *IntS) { slices.Insert(s, 4, 9) },
			"runtime error: slice bounds out of range [5:4]", IntS{1, 2, 3, 9}},
		{"Insert idx=-1", func(s *IntS) { slices.Insert(s, -1, 9) },
			"runtime error: slice bounds out of range [-1:]", IntS{1, 2, 3, 9}},
		{"Insert idx=-3", func(s *IntS) { slices.Insert(s, -3, 9) },
			"runtime error: slice bounds out of range [-2:]", IntS{1, 2, 3, 9}},
		{"InsertSlice idx=len+1", func(s *IntS) { slices.InsertSlice(s, 4, IntS{8, 9}) },
			"runtime error: slice bounds out of range [6:5]", IntS{1, 2, 3, 8, 9}},
		{"InsertSlice idx=-1", func(s *IntS) { slices.InsertSlice(s, -1, IntS{8, 9}) },
			"runtime error: slice bounds out of range [-1:]", IntS{1, 2, 3, 8, 9}},
		{"Remove idx=len", func(s *IntS) { slices.Remove(s, 3) },
			"runtime error: slice bounds out of range [4:3]", IntS{1, 2, 3}},
		{"Remove idx=len+1", func(s *IntS) { slices.Remove(s, 4) },
			"runtime error: slice bounds out of range [4:3]", IntS{1, 2, 3}},
		{"Remove idx=-1", func(s *IntS) { slices.Remove(s, -1) },
			"runtime error: slice bounds out of range [-1:]", IntS{1, 2, 3}},
		{"Remove idx=-2", func(s *IntS) { slices.Remove(s, -2) },
			"runtime error: slice bounds out of range [-2:]", IntS{1, 2, 3}},
		{"RemoveSlice too long", func(s *IntS) { slices.RemoveSlice(s, 2, 2) },
			"runtime error: slice bounds out of range [4:3]", IntS{1, 2, 3}},
		{"RemoveSlice idx>len", func(s *IntS) { slices.RemoveSlice(s, 5, 0) },
			"runtime error: slice bounds out of range [5:3]", IntS{1, 2, 3}},
		{"RemoveSlice idx=-1", func(s *IntS) { slices.RemoveSlice(s, -1, 1) },
			"runtime error: slice bounds out of range [-1:]", IntS{1, 2, 3}},
	}
	for _, c := range cases {
		for spare := 0; spare <= 2; spare += 2 {
			s, _ := mk(3, spare)
			msg, isRT := catch(func() { c.run(&s) })
			if msg != c.wantMsg || !isRT {
				t.Errorf("%s spare=%d: panic %q (runtime=%v), want %q", c.name, spare, msg, isRT, c.wantMsg)
			}
			if !eq(s, c.after) {
				t.Errorf("%s spare=%d: state after panic %v, want %v", c.name, spare, s, c.after)
			}
		}
	}
	// Remove on empty and nil slices.
	for _, s := range []IntS{nil, {}} {
		s := s
		msg, _ := catch(func() { slices.Remove(&s, 0) })
		if msg != "runtime error: slice bounds out of range [1:0]" {
			t.Errorf("Remove on empty: %q", msg)
		}
	}
	// nil pointers.
	for name, f := range map[string]func(){
		"Insert":      func() { slices.Insert[IntS](nil, 0, 1) },
		"InsertSlice": func() { slices.InsertSlice[IntS](nil, 0, IntS{1}) },
		"Remove":      func() { slices.Remove[IntS](nil, 0) },
		"RemoveSlice": func() { slices.RemoveSlice[IntS](nil, 0, 0) },
	} {
		msg, isRT := catch(f)
		if msg != "runtime error: invalid memory address or nil pointer dereference" || !isRT {
			t.Errorf("%s(nil pointer): %q", name, msg)
		}
	}
}

func TestFillRepeat(t *testing.T) {
	lengths := []int{}
	for n := 0; n <= 70; n++ {
		lengths = append(lengths, n)
	}
	lengths = append(lengths, 127, 128, 129, 255, 256, 257, 1000, 4097)
	for _, n := range lengths {
		for spare := 0; spare <= 2; spare++ {
			s, full := mk(n, spare)
			oldFull := append(IntS(nil), full...)
			slices.Fill(s, 42)
			if len(s) != n {
				t.Fatalf("Fill changed len")
			}
			for i, v := range s {
				if v != 42 {
					t.Fatalf("Fill n=%d: s[%d]=%d", n, i, v)
				}
			}
			if !eq(full[n:], oldFull[n:]) {
				t.Fatalf("Fill n=%d wrote past len: %v", n, full[n:])
			}
		}
		r := slices.Repeat("ab", n)
		if r == nil || len(r) != n || cap(r) != n {
			t.Fatalf("Repeat n=%d: nil=%v len=%d cap=%d", n, r == nil, len(r), cap(r))
		}
		for i, v := range r {
			if v != "ab" {
				t.Fatalf("Repeat n=%d: r[%d]=%q", n, i, v)
			}
		}
	}
	slices.Fill(IntS(nil), 1) // must not panic
	slices.Fill(IntS{}, 1)
	type pt struct {
		x, y int
		p    *int
	}
	one := 1
	ps := make([]pt, 37)
	slices.Fill(ps, pt{1, 2, &one})
	for i, p := range ps {
		if p != (pt{1, 2, &one}) {
			t.Fatalf("Fill struct: ps[%d]=%v", i, p)
		}
	}
	// zero-sized elements, just no panic and len kept
	zs := make([]struct{}, 1000)
	slices.Fill(zs, struct{}{})
	if len(zs) != 1000 {
		t.Fatal("Fill zero-size")
	}
	msg, isRT := catch(func() { slices.Repeat(1, -1) })
	if msg != "runtime error: makeslice: len out of range" || !isRT {
		t.Errorf("Repeat(-1): %q", msg)
	}
}

func TestReverse(t *testing.T) {
	for n := 0; n <= 65; n++ {
		for spare := 0; spare <= 1; spare++ {
			s, full := mk(n, spare)
			oldFull := append(IntS(nil), full...)
			slices.Reverse(s)
			if len(s) != n {
				t.Fatal("Reverse changed len")
			}
			for i := range s {
				if s[i] != n-i {
					t.Fatalf("Reverse n=%d: got %v", n, s)
				}
			}
			if !eq(full[n:], oldFull[n:]) {
				t.Fatalf("Reverse n=%d wrote past len", n)
			}
			slices.Reverse(s)
			if !eq(full, oldFull) {
				t.Fatalf("Reverse twice n=%d is not identity: %v", n, s)
			}
		}
	}
	slices.Reverse(IntS(nil))
	str := []string{"a", "b", "c", "d"}
	slices.Reverse(str[1:]) // sub-slice only
	if !reflect.DeepEqual(str, []string{"a", "d", "c", "b"}) {
		t.Fatalf("Reverse sub-slice: %v", str)
	}
}

func TestConcatClone(t *testing.T) {
	for na := 0; na <= 5; na++ {
		for nb := 0; nb <= 5; nb++ {
			for spare := 0; spare <= 6; spare += 3 {
				a, fullA := mk(na, spare)
				b := vals(nb)
				oldA := append(IntS(nil), fullA...)
				oldB := append(IntS(nil), b...)
				r := slices.Concat(a, b)
				want := modelInsert(a, na, b)
				if r == nil || !eq(r, want) || cap(r) != na+nb {
					t.Fatalf("Concat na=%d nb=%d: got %v (nil=%v cap=%d) want %v", na, nb, r, r == nil, cap(r), want)
				}
				for i := range r {
					r[i] = -1000 - i
				}
				if !eq(fullA, oldA) || !eq(b, oldB) {
					t.Fatalf("Concat result shares memory with inputs")
				}
				r = slices.Concat(a, b)
				for i := range fullA {
					fullA[i] = 7777
				}
				for i := range b {
					b[i] = 8888
				}
				if !eq(r, want) {
					t.Fatalf("Concat result changed when inputs were mutated")
				}
			}
		}
	}
	if r := slices.Concat(IntS(nil), IntS(nil)); r == nil || len(r) != 0 || cap(r) != 0 {
		t.Fatalf("Concat(nil,nil): %#v", r)
	}
	// overlapping inputs
	base := IntS{1, 2, 3, 4}
	if r := slices.Concat(base[:3], base[1:]); !eq(r, IntS{1, 2, 3, 2, 3, 4}) {
		t.Fatalf("Concat overlapping: %v", r)
	}

	for n := 0; n <= 9; n++ {
		for spare := 0; spare <= 3; spare += 3 {
			s, full := mk(n, spare)
			old := append(IntS(nil), full...)
			c := slices.Clone(s)
			if c == nil || !eq(c, s) || cap(c) != n {
				t.Fatalf("Clone n=%d: %v nil=%v cap=%d", n, c, c == nil, cap(c))
			}
			for i := range c {
				c[i] = -5
			}
			if !eq(full, old) {
				t.Fatalf("Clone shares memory with input")
			}
			c = slices.Clone(s)
			for i := range full {
				full[i] = 31337
			}
			if !eq(c, old[:n]) {
				t.Fatalf("Clone changed when input mutated")
			}
		}
	}
	if c := slices.Clone(IntS(nil)); c == nil || len(c) != 0 || cap(c) != 0 {
		t.Fatalf("Clone(nil): %#v", c)
	}
	var _ IntS = slices.Clone(IntS{1}) // keeps the named type
	var _ IntS = slices.Concat(IntS{1}, IntS{2})
}

func TestGrow(t *testing.T) {
	for n := 0; n <= 5; n++ {
		for spare := 0; spare <= 4; spare++ {
			for g := 0; g <= 6; g++ {
				s, full := mk(n, spare)
				old := append(IntS(nil), full...)
				r := slices.Grow(s, g)
				if len(r) != n+g {
					t.Fatalf("Grow n=%d spare=%d g=%d: len %d", n, spare, g, len(r))
				}
				if !eq(r[:n], old[:n]) {
					t.Fatalf("Grow changed prefix: %v", r)
				}
				for i := n; i < n+g; i++ {
					if r[i] != 0 {
						t.Fatalf("Grow n=%d spare=%d g=%d: r[%d]=%d not zero", n, spare, g, i, r[i])
					}
				}
				if g <= spare {
					if n+spare > 0 && (!sameBacking(r, full) || cap(r) != n+spare) {
						t.Fatalf("Grow should be in place")
					}
					if !eq(full[n+g:], old[n+g:]) {
						t.Fatalf("Grow wrote past new len")
					}
				} else {
					if sameBacking(r, full) {
						t.Fatalf("Grow should reallocate")
					}
					if !eq(full, old) {
						t.Fatalf("Grow modified the old array")
					}
				}
				if len(s) != n {
					t.Fatal("Grow changed caller's slice len")
				}
			}
		}
	}
	if r := slices.Grow(IntS(nil), 0); r != nil {
		t.Fatalf("Grow(nil,0) = %#v", r)
	}
	if r := slices.Grow(IntS(nil), 3); !eq(r, IntS{0, 0, 0}) {
		t.Fatalf("Grow(nil,3) = %v", r)
	}
	msg, isRT := catch(func() { slices.Grow(IntS{1}, -1) })
	if msg != "runtime error: makeslice: len out of range" || !isRT {
		t.Errorf("Grow(-1): %q", msg)
	}
}
