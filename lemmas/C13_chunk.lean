import Mathlib

/-- The counted loop `j := 0; j < q*s; j += s` (s > 0) visits exactly `j = k*s` for `k < q`:
the k-th value passes the loop test iff `k < q`. -/
theorem chunk_loop_trip (q s k : ℕ) (hs : 0 < s) : k * s < q * s ↔ k < q :=
  Nat.mul_lt_mul_right hs

/-- Chunk's allocation: the number of full chunks plus one for a remainder is the ceiling of n/s. -/
theorem chunk_count (n s : ℕ) (hs : 0 < s) :
    n / s + (if n / s * s ≠ n then 1 else 0) = (n + s - 1) / s := by
  have hdm : s * (n / s) + n % s = n := Nat.div_add_mod n s
  have hlt : n % s < s := Nat.mod_lt n hs
  have hcomm : n / s * s = s * (n / s) := Nat.mul_comm _ _
  by_cases h : n / s * s = n
  · have hr : n % s = 0 := by omega
    rw [if_neg (by simpa using h)]
    symm
    apply Nat.div_eq_of_lt_le
    · have : (n / s + 0) * s = s * (n / s) := by ring
      rw [this]; omega
    · have : (n / s + 0 + 1) * s = s * (n / s) + s := by ring
      rw [this]; omega
  · have hr : 0 < n % s := by
      rcases Nat.eq_zero_or_pos (n % s) with h0 | hp
      · exfalso; apply h; omega
      · exact hp
    rw [if_pos h]
    symm
    apply Nat.div_eq_of_lt_le
    · have : (n / s + 1) * s = s * (n / s) + s := by ring
      rw [this]; omega
    · have : (n / s + 1 + 1) * s = s * (n / s) + s + s := by ring
      rw [this]; omega

/-- Every position of the input lies in exactly one piece `[k*s, min ((k+1)*s) n)`, namely `k = i / s`:
consecutive, non-overlapping, non-empty pieces whose concatenation is the input. -/
theorem chunk_cover (n s i : ℕ) (hs : 0 < s) (hi : i < n) :
    (i / s) * s ≤ i ∧ i < min ((i / s + 1) * s) n ∧
    ∀ k, k * s ≤ i → i < (k + 1) * s → k = i / s := by
  have hdm := Nat.div_add_mod i s
  have hlt := Nat.mod_lt i hs
  refine ⟨by nlinarith [Nat.div_mul_le_self i s], ?_, ?_⟩
  · rw [lt_min_iff]
    refine ⟨?_, hi⟩
    have : (i / s + 1) * s = s * (i / s) + s := by ring
    omega
  · intro k hk1 hk2
    have h1 : k ≤ i / s := by
      rw [Nat.le_div_iff_mul_le hs]; exact hk1
    have h2 : i / s < k + 1 := by
      rw [Nat.div_lt_iff_lt_mul hs]; exact hk2
    omega

/-- The rounded length `(n / s) * s` never leaves `[0, n]`: a defensive guard `rounded < 0 || rounded > len` in
Chunk can never fire (the check treats such a panic row as unreachable). -/
theorem chunk_rounded_in_range (n s : ℕ) : 0 ≤ n / s * s ∧ n / s * s ≤ n :=
  ⟨Nat.zero_le _, Nat.div_mul_le_self n s⟩
