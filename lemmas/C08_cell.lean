import Mathlib

/-- Row-major addressing with stride `W` is injective on `[0,W) × ℕ`. -/
theorem cell_injective (W x y x' y' : ℕ) (hx : x < W) (hx' : x' < W)
    (h : x + y * W = x' + y' * W) : x = x' ∧ y = y' := by
  have hW : 0 < W := by omega
  have h1 : (x + y * W) % W = (x' + y' * W) % W := by rw [h]
  rw [Nat.add_mul_mod_self_right, Nat.add_mul_mod_self_right,
    Nat.mod_eq_of_lt hx, Nat.mod_eq_of_lt hx'] at h1
  subst h1
  have h2 : y * W = y' * W := by omega
  exact ⟨rfl, Nat.eq_of_mul_eq_mul_right hW h2⟩

/-- ... and its image lies inside the backing slice of `W * H` cells. -/
theorem cell_in_range (W H x y : ℕ) (hx : x < W) (hy : y < H) : x + y * W < W * H := by
  have h1 : (y + 1) * W ≤ H * W := Nat.mul_le_mul_right W hy
  nlinarith

/-- With any other stride `S ≠ W` (and at least two rows and two columns' worth of room) two different
cells collide or a cell falls outside `W * H`: the stride must be the width. -/
theorem stride_must_be_width (W H S : ℕ) (hW : 2 ≤ W) (hH : 2 ≤ H)
    (inj : ∀ x y x' y', x < W → x' < W → y < H → y' < H → x + y * S = x' + y' * S → x = x' ∧ y = y')
    (rng : ∀ x y, x < W → y < H → x + y * S < W * H) : S = W := by
  by_contra hne
  rcases Nat.lt_or_gt_of_ne hne with hlt | hgt
  · -- S < W: cell (S, 0) and cell (0, 1) collide
    have := inj S 0 0 1 hlt (by omega) (by omega) (by omega) (by simp)
    omega
  · -- S > W: the last cell (W-1, H-1) falls outside
    have h := rng (W - 1) (H - 1) (by omega) (by omega)
    have hS : W + 1 ≤ S := hgt
    have : (H - 1) * (W + 1) ≤ (H - 1) * S := Nat.mul_le_mul_left _ hS
    have hH' : H - 1 + 1 = H := by omega
    have hW' : W - 1 + 1 = W := by omega
    nlinarith [Nat.sub_add_cancel (by omega : 1 ≤ H), Nat.sub_add_cancel (by omega : 1 ≤ W)]
