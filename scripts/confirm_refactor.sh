#!/bin/sh
# usage: confirm_refactor.sh <candidate dir with patch.diff, demo/> <worktree>
# Confirms independently that a refactoring is behaviour-preserving as far as its demonstration goes: the demo passes
# on the pristine tree; with the patch the tree builds, the pinned tests pass and the demo still passes.
d=$1; wt=$2
export GOFLAGS=-mod=mod GOPROXY=off GOSUMDB=off GOTOOLCHAIN=local; unset GOWORK
if [ ! -d "$wt" ]; then git -C /repo worktree add -q --detach "$wt" HEAD; fi
git -C "$wt" checkout -q --detach $(git -C /repo rev-parse HEAD) 2>/dev/null
git -C "$wt" checkout -- . && git -C "$wt" clean -fdq
demo=$(mktemp -d /tmp/demo.XXXXXX); cp -r $d/demo/. $demo/
sed -i "s#=> /[a-zA-Z0-9/_-]*\$#=> $wt#" $demo/go.mod
( cd $demo && timeout 300 go test -race -count=1 ./... >$demo/pristine.log 2>&1 ); p=$?
git -C "$wt" apply $d/patch.diff || { echo "RESULT $d patch-does-not-apply"; rm -rf $demo; exit 1; }
( cd $wt && go build ./... >$demo/build.log 2>&1 ); b=$?
( cd $wt && go test -vet=off -count=1 ./... >$demo/tests.log 2>&1 ); t=$?
( cd $demo && timeout 300 go test -race -count=1 ./... >$demo/patched.log 2>&1 ); m=$?
git -C "$wt" checkout -- . && git -C "$wt" clean -fdq
ok=CONFIRMED
[ $p -eq 0 ] && [ $b -eq 0 ] && [ $t -eq 0 ] && [ $m -eq 0 ] || ok=REJECTED
echo "RESULT $d $ok pristine_demo=$p build=$b tests=$t patched_demo=$m"
rm -rf $demo
