#!/bin/sh
# usage: sweep_prop.sh <Cxx> : generates the sweep's AST mutants of the property's anchored ranges into /tmp/gm/<Cxx>,
# analyses each in memory (overlay) and prints the survivors (mutants the check stays silent on) for triage.
prop=$1; dir=/tmp/gm/$prop
rm -rf $dir; mkdir -p $dir
/verif/bin/typcheck -prop $prop -genmutants $dir
one() {
  name=$1; file=$2; shift 2; desc="$*"
  out=$(mktemp -d /tmp/vt.XXXXXX); cp /verif/known_findings.json $out/
  /verif/bin/typcheck -prop $prop -verif $out -nofixtures -overlay $file=$dir/$name >/dev/null 2>&1; rc=$?
  rm -rf $out
  echo "$rc	$name	$desc"
}
export prop dir
while IFS='	' read -r name file desc; do
  echo "$name	$file	$desc"
done < $dir/index.txt | xargs -P 12 -d '\n' -n 1 sh -c '
  line="$0"; name=$(echo "$line" | cut -f1); file=$(echo "$line" | cut -f2); desc=$(echo "$line" | cut -f3)
  out=$(mktemp -d /tmp/vt.XXXXXX); cp /verif/known_findings.json $out/
  /verif/bin/typcheck -prop $prop -verif $out -nofixtures -overlay $file=$dir/$name >/dev/null 2>&1; rc=$?
  rm -rf $out
  echo "$rc	$name	$desc"' > $dir/results.txt
echo "killed $(grep -c '^1	' $dir/results.txt) survived $(grep -c '^0	' $dir/results.txt) invalid $(grep -vc '^[01]	' $dir/results.txt)"
grep '^0	' $dir/results.txt | sort -t: -k3 -n | cut -f2,3
