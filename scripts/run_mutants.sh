#!/bin/sh
# Both-ways test of the rules: applies each single-instance mutant under /verif/mutants
# (named <prop>-<what>.diff; the first entries are the reverses of the fix: commits) to a scratch
# worktree, and requires the property's check to report it. usage: run_mutants.sh [prefix]
wt=/tmp/wt/scratch
if [ ! -d "$wt" ]; then git -C /repo worktree add -q --detach "$wt" HEAD; fi
git -C "$wt" checkout -q --detach $(git -C /repo rev-parse HEAD) 2>/dev/null
out=/tmp/vtest; mkdir -p $out; cp /verif/known_findings.json $out/
for f in /verif/mutants/${1}*.diff; do
  id=$(basename $f .diff); prop=$(echo $id | cut -d- -f1)
  git -C "$wt" checkout -- . && git -C "$wt" clean -fdq
  if ! git -C "$wt" apply $f 2>/dev/null; then echo "$id PATCH-DOES-NOT-APPLY"; continue; fi
  res=$(/verif/bin/typcheck -prop "$prop" -repo "$wt" -verif $out -nofixtures 2>&1); rc=$?
  if [ $rc -eq 1 ]; then echo "$id caught: $(echo "$res" | grep -E '^(REFUTED|UNPROVEN)' | head -2 | cut -c1-200 | tr '\n' '|')"
  elif [ $rc -eq 0 ]; then echo "$id MISSED"; else echo "$id ERROR rc=$rc $(echo "$res" | tail -1)"; fi
done
git -C "$wt" checkout -- . && git -C "$wt" clean -fdq
