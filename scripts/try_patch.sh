#!/bin/sh
# usage: try_patch.sh <patch.diff> <prop> [worktree]
# Applies a patch to a scratch worktree of /repo (never /repo itself), runs one check against it, restores.
patch=$1; prop=$2; wt=${3:-/tmp/wt/scratch}
if [ ! -d "$wt" ]; then git -C /repo worktree add -q --detach "$wt" HEAD; fi
git -C "$wt" checkout -q --detach $(git -C /repo rev-parse HEAD) 2>/dev/null
git -C "$wt" checkout -- . && git -C "$wt" clean -fdq
git -C "$wt" apply "$patch" || { echo "PATCH DOES NOT APPLY"; exit 3; }
out=/tmp/vtest; mkdir -p $out; cp /verif/known_findings.json $out/
/verif/bin/typcheck -prop "$prop" -repo "$wt" -verif $out -nofixtures | grep -v '^VIOLATION' | cut -c1-400
rc=$?
git -C "$wt" checkout -- . && git -C "$wt" clean -fdq
