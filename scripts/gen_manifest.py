#!/usr/bin/env python3
"""Regenerates /verif/MANIFEST.json from the table below (one entry per claimed property)."""
import json, os
V = os.path.dirname(os.path.dirname(os.path.abspath(__file__)))
props = [json.loads(l) for l in open(os.path.join(V, 'properties.jsonl'))]

NOTE_COMMON = ("Trusted: go/parser, go/types, go/ssa, go/packages (x/tools v0.29.0, default go toolchain); the Go memory model and the documented "
               "contracts of the wrapped standard-library primitives; the rule tables in /verif/checker. Fails closed: an idiom the rules do not "
               "recognise, an anchor that no longer resolves, or a tree that does not type-check is reported, never passed silently. "
               "Dependency closure (every check): each function of the module that the examined code calls - in whatever file or package - is itself "
               "examined by a rule of the same check (helpers through their own helper rule, re-run there), or the check fails. Guard order (every check): no examined function evaluates a partial operation - index, slice, make, integer division, dereference, call of a function value - before the test, on the same path, under which it is defined, nor on a path whose earlier conditions contradict its definedness (rule guard-precedes-use).")

CLAIMS = {
 "C06": dict(cat="translation_validation", sec="4 C06 / E6",
   technique="static translation validation: AST normal form + canonical SSA path summaries vs GOROOT container/list|ring",
   text="Every function of container/list and container/ring (read from GOROOT on each run) is paired with the fork's function and shown equal modulo generic erasure and alpha-renaming, at the AST level or, failing that, as sets of canonical path summaries; struct declarations and the API surface are compared too. Equal programs behave identically for every operation sequence, which is the property.",
   note="Assumes GOROOT's container/list|ring is the reference the property names. Decides the whole property when all pairs are equal; a pair not shown equal is reported (fails closed)."),
 "C20": dict(cat="other", sec="4 C20",
   technique="static path tables decided by order abstraction (all total preorders) and interval abstraction over go/ssa path summaries; constraint type-set table (go/types)",
   text="Min/Max/Clamp/Clamp01/Compare/Less/Abs are decided for every argument value at once by evaluating their path conditions under every total preorder of the compared values; Digits10 by turning its paths into magnitude intervals that must partition [0,2^64) decade by decade, with the widening-before-negation rule that fixes the type-minimum case; DigitsSign10, Sum, Product, Coal, Tern, TernCast, IsZero, Zero, ZeroOf, Ref, DerefZero, IsNil as path tables; and the domain of each numeric helper - the type set of its constraint, flattened through the embedded constraints - is shown to admit every predeclared type of the class the property names, named types included.",
   note="Not decided: wrapping/floating-point semantics of the operators themselves (language), NaN."),
 "C15": dict(cat="other", sec="4 C15",
   technique="static path tables over go/ssa: entry point + adapter + predicate checks, comparisons decided by order abstraction",
   text="Each Sort* helper is shown to make exactly one call of sort.Sort (sort.Stable where stability is promised) on an adapter of its own slice whose Len/Swap/Less are checked (Less decided under every ordering of the two elements), with the net direction from the Reverse count; BinarySearch* return sort.Search over the whole length with a lower-bound predicate; Shuffle/ShuffleRand call rand.Shuffle resp. the Shuffle method of the supplied generator with a swap closure. With the documented contracts of package sort and math/rand that is the property.",
   note="Not decided: that sort.Sort/Stable/Search and rand.Shuffle meet their contracts (trusted)."),
 "C16": dict(cat="other", sec="4 C16",
   technique="static path tables over go/ssa: opposite-ends and same-element rules for Queue, last-index rules for Stack",
   text="Every path of every Queue/Stack method is matched against the wrapper table: Enqueue inserts once at one end, Dequeue/Peek read the opposite end with the same accessor, Dequeue removes exactly what it read, Stack acts on index len-1 of the slice as loaded on entry and truncates by exactly one, empty rows change nothing; Queue keeps no state outside the List. The container/list half of C06's translation validation is re-run here (list/* obligations), so that with append semantics this is FIFO/LIFO for every history.",
   note="Language semantics of append/slicing trusted; GOROOT container/list is the reference for List."),
 "C17": dict(cat="other", sec="4 C17",
   technique="static wrapper-protocol check over go/ssa paths and closures (sync.Once usage discipline)",
   text="Each Do is shown to call sync.Once.Do exactly once on the receiver's own Once field, with a closure that calls the user function exactly once and stores every result field from that call; Do returns the fields loaded after once.Do returned; nobody else writes those fields. With sync.Once's contract these are jointly sufficient for exactly-once execution and shared, visible results under every schedule.",
   note="Trusts the contract of sync.Once."),
 "C18": dict(cat="other", sec="4 C18",
   technique="static wrapper-protocol check over go/ssa paths: one-primitive-operation-per-path tables, receiver-write (data race) rule, hand-out flow rule",
   text="Each AtomicValue method is exactly one atomic.Value operation per path with arguments/results mapped as specified (so a Load+Store swap or a shortcut path is refuted); no Pool/AtomicValue method stores to receiver-reachable memory (the data race of the pinned tree); Pool.Get hands out the wrapped pool's value or New()/zero and keeps no reference, Put is one wrapped Put.",
   note="Register linearizability and the one-holder discipline are the contracts of atomic.Value and sync.Pool (trusted); the rules decide that the wrapper preserves them."),
 "C19": dict(cat="other", sec="4 C19",
   technique="static path summaries over select arms (go/ssa): transfer-iff-reported tables, comma-ok typestate, non-blocking/bounded loop shape",
   text="Because exactly one select arm runs, a path through the send/receive arm is a transfer and one through the timer/Done/default arm is not; the check shows each helper returns the constant true / the received (value, ok) exactly on transfer paths and false / (zero,false) exactly on the others, never transfers twice, gives up only on paths that established timeout > 0 and transfers un-timed only on paths that established timeout <= 0, and that the queued receivers accumulate only on the comma-ok true edge inside a bounded loop over a select with default.",
   note="Not decided: fairness between ready arms (either outcome allowed). Trusts Go's select and closed-channel semantics."),
 "C04": dict(cat="other", sec="4 C04",
   technique="static lock-set / typestate / atomic-protocol analysis over go/ssa path summaries with interprocedural requires-lock summaries",
   text="Decides the necessary conditions of the read/dirty algorithm on all paths of all functions of sync2/map.go: guarded-by (dirty, misses, read.Store under mu, through callers for unexported helpers), lock pairing, atomic-only access to entry.p, re-check under the lock (no use of a pre-Lock snapshot after Lock), promotion only after a fresh amended/dirty-hit test, the CAS protocol on entry.p (expunged only by CAS from nil under mu, plain stores only under mu into non-expungeable entries), unexpunge-reinserts, amended-on-new-key, promotion pairing, read-map immutability, Range's promote-then-iterate-unlocked shape, no callback under the lock, the entry helpers' result rows against what the path knows about the loaded word, re-load in every CAS retry iteration (a retry only after a failed CAS, a CAS from a fixed old value only after that value was seen, a CAS from nil only to a non-nil word), the sequential meaning of the lookups (lookup-justified: an entry is used only where its lookup found it; 'absent' is answered and a new entry inserted only after misses in the latest snapshot and, when it is amended, in dirty; the function that creates dirty leaves it non-nil; Load writes no map; the dirty copy loop runs to exhaustion; Range iterates a snapshot found complete), and effect completeness of Store/Load/LoadOrStore/LoadAndDelete/Delete. In the thorough tier the same rules are run on GOROOT's sync/map.go as a negative control and must report nothing. Each violated rule corresponds to a data race or a lost/resurrected key under some schedule.",
   note="NOT decided: linearizability proper (that the local disciplines compose), Range completeness, memory-model reasoning beyond lock/atomic protection - a static argument in reach cannot bound schedules; these necessary conditions are what is claimed."),
 "C05": dict(cat="other", sec="4 C05",
   technique="static wrapper-protocol check (one atomic map operation per path, flag mapping, counting closure) + the C04 map protocol rules",
   text="Add/Remove/Has are each shown to be exactly one LoadOrStore/LoadAndDelete/Load of the value on the set's map whose own flag is reported (check-then-act is refuted), AddSet/RemoveSet to count exactly the per-element successes over a full enumeration, and Set to hold no state but the Map; the atomic-set property then reduces to the Map operations' atomicity, whose protocol rules (C04) are re-run as map/* obligations.",
   note="Real-time ordering of successes follows from linearizability of Map, which is covered only by its necessary protocol conditions."),
 "C09": dict(cat="other", sec="4 C09",
   technique="static wrapper-protocol check (single LoadOrStore, operate on its result, method table, nothing held while blocking) + the C04 map protocol rules",
   text="Every locking method is shown, on all paths, to perform exactly one LoadOrStore(key, fresh mutex) on the key map, to operate on that call's first result with exactly the matching sync.(RW)Mutex operation (Try* returning its result), with nothing else held or done around it; ClearKey = Delete(key). With the contracts of sync.Mutex/RWMutex and the atomicity of Map.LoadOrStore (map/* rules) this is per-key mutual exclusion and cross-key independence.",
   note="Fairness and ClearKey under contention are outside the property. Map.LoadOrStore's atomicity is covered by necessary protocol conditions, not a linearizability proof."),
 "C08": dict(cat="other", sec="4 C08",
   technique="static address-arithmetic analysis: polynomial normal forms of every index/span on the backing slice, bounds from path guards/loop headers/call-site obligations (go/ssa path summaries)",
   text="Every index and span applied to Array2D's backing slice is split as Q1*width + Q0 and shown, on every path reaching it, to satisfy 0<=Q1<height and 0<=Q0<width (spans: ordered, within one row), with bounds taken from the path's own guards, loop headers and, for helpers and internally called methods, obligations at each call site. By the stated lemma this is exactly injectivity of the cell mapping for every shape; constructors (incl. New2DFromJagged), Fill's rectangle, Clone's detachment, the exact windows of Row/RowSpan, complete and exact coordinate guards on every returning/panicking path, and String's one-print-per-cell loop nest are decided as tables; slices.Fill, through which the fill operations write, is re-checked here with C12's rule.",
   note="Not decided: String's punctuation; copy's truncation semantics (language). The arithmetic lemma the rule rests on (x + y*W is injective on [0,W)x[0,H) with image in [0,W*H), and the stride must be the width) is machine-checked with Lean 4 + Mathlib in /verif/lemmas/C08_cell.lean (an auxiliary artifact, re-checked by scripts/check_lemmas.sh; the check itself is static analysis of the source)."),
 "C07": dict(cat="other", sec="4 C07",
   technique="static ownership/encapsulation, sentinel-flow and path-table analysis over go/ssa (closures resolved through their bindings)",
   text="Decides who may write Sorted's backing slice (only Insert in Add, Remove in Remove/RemoveAt), that it is never aliased in or out (NewSorted makes+copies on every path and leaves its argument alone; nothing returns the slice), that positions come from sort.Search over the whole length with the lower-bound predicate !less(s[i],value), that Index validates with == and < Len, that Remove deletes only at a validated position and otherwise returns -1 unchanged, that Get/RemoveAt proceed exactly on 0 <= index < Len and panic exactly outside, that explicit panics are justified, that the Insert/Remove primitives shift by exactly one on the grown slice (C12's rows, re-run here), that every constructor returning a Sorted copies and sorts, and package-wide that a -1 sentinel never reaches an index.",
   note="Not decided: the inductive step to 'sorted after every history' (needs sort.Search's semantics on sorted data, trusted, plus C12's splice clauses)."),
 "C01": dict(cat="other", sec="4 C01",
   technique="static path-table and flow rules over go/ssa: size-cache coherence, definite assignment of the comparator, descent agreement, traversal-order tables, subtree conservation; abstract execution of every mutator on symbolic in-order sequences (shape.go); null-guard; search decision table; who-may-write frame rule over the package; dependency closure with helper rules",
   text="Decides the structural necessary conditions of the sorted-multiset property on all paths of avl/avl.go: Len's cache changes exactly with successful insertions/removals, every Tree built in the package has a comparator and keeps it, Clone re-inserts a walk into a fresh tree, add/find/remove agree on which child holds smaller/larger values and test == first, the three walkers visit in their order recursing into themselves and the public walkers/slices dispatch to the matching one, node.remove hands every child subtree of the unlinked node to the result exactly once; and - the inductive step of the property - every mutator is executed abstractly on symbolic in-order sequences: rotations and rebalance return their receiver's sequence, add returns it with the value inserted exactly once on the side the comparison selects, remove returns it without the unlinked node or with the child's removal spliced in exactly on success, popLeftMost splits it into first and rest, Tree.Add/Remove install that at the root; no child/root pointer is dereferenced untested; Contains/find are decided as a table; who-may-write (state-frame): every function of the package other than the modelled mutators stores to no value/left/right of an existing node and to no root/count/comparator of a tree, so the helpers, walkers and accessors the mutators call cannot change the tree behind them; typ.Compare, the comparator NewOrdered installs, is re-checked with C20's rule.",
   note="Not decided: the induction itself over all histories (each step is decided, under the tree-shape assumption that distinct access paths denote distinct nodes and a callee changes only the subtree it was handed); comparators inconsistent with ==."),
 "C02": dict(cat="other", sec="4 C02",
   technique="static typestate/path-table rules over go/ssa: height-refresh-before-escape, rebalance-on-return, height convention by constant propagation, rotation decision table, exact rotation shape by abstract execution (shape.go); who-may-write frame rule over the package",
   text="Decides that avl/avl.go is the textbook AVL update: after every child store the node's cached height is recomputed before the node flows upwards, every modified subtree root is returned through rebalance, the empty-subtree height is one less than a leaf's, balance() leans exactly at a difference above one, rebalance maps (outer lean, strict sign of the heavy child's lean) to the four rotations which are recognised by structure and whose result shape is computed symbolically ((L n RL) r RR for a left rotation), typ.Max (used by calcHeight) is re-checked here with C20's rule, and rotations re-height the demoted node before the promoted one; who-may-write (state-frame): no function of the package other than the modelled ones stores to a height or child field of an existing node.",
   note="Not decided: the induction from these rules to |lean| <= 1 everywhere and the 1.44 log2 depth bound (needs a height/shape abstract domain with an inductive proof; out of reach)."),
 "C03": dict(cat="other", sec="4 C03",
   technique="static pass-table extraction over go/ssa (loops and Range-closures), effect/ownership rules (operands read-only, results fresh), counting-closure tables + the C04 map protocol rules",
   text="Both Set implementations are read as lists of passes (set enumerated, membership test, polarity, sink) and compared with the definitions of Clone/Intersect/SetDiff/SymDiff/Union (hence with each other); every mutation in the read-only and binary operations is shown to target storage created in the same call and the result to be that storage on every path; Add/Remove/AddSet/RemoveSet change reporting, Range's early stop, the enumeration source of sync2.Set's Len/Slice/String (Map.Range), the constructors and CartesianProduct are decided as tables. The concurrent set's internal layouts are covered through the map protocol rules (map/*).",
   note="Not decided: element-level equality of results for all operand pairs and histories (follows from the pass table plus Go map / Map.Range semantics, which are assumed, not analysed)."),
 "C10": dict(cat="other", sec="4 C10",
   technique="static lock-region / typestate / dataflow rules over go/ssa path summaries (RWMutex modes, goroutine join before unlock, WaitGroup accounting as polynomial equality, loop tables)",
   text="Decides lock discipline on the subscriber list, that every send on a subscriber channel is covered by the lock region that excludes close (synchronously, by joining the goroutines before unlocking, or by a launched function that takes the lock itself and re-validates membership before it sends), that channels do not migrate between PubSub values with different mutexes, WaitGroup accounting, fan-out completeness and order, close/removal pairing, the timeout-or-delivery dichotomy, the error table, the WithOnly filter (own storage for the clone's list), Sub/SubBuf, RWMutex mode pairing on every path, subIndex's scan, that search/close/splice of Unsub share one write-locked region, and SendTimeout's transfer-iff-true table (C19's row, re-run here). Three genuine violations on the current tree (Pub, PubSlice, WithOnly) are listed in known_findings.json with concrete crashing schedules.",
   note="Not decided: eventual delivery of Pub/PubSlice, liveness, deadlock freedom (schedules)."),
 "C11": dict(cat="other", sec="4 C11",
   technique="static pairing rules over go/ssa paths: paired map writes, partner-from-hit-lookup deletes, eviction table, ownership/escape",
   text="Every write to one index of the Bimap is shown to be paired on the same path with the matching write to the other (inserts mirrored; deletes paired with the partner's delete or overwrite, the partner coming from a lookup known to have hit); Add decides both collisions on every path and evicts stale entries first; only Add/RemoveForward/RemoveReverse/Clear write the maps and nothing returns them; Clone copies both maps freshly on every path; the two maps are created together, only when absent, and written only when present; the views are single lookups; a removal is a no-op only where a lookup missed and deletes only after finding its own argument (comma-ok).",
   note="Not decided: the inductive step from paired writes to 'inverse bijections after every history' (an argument over runtime state; immediate for Go maps)."),
 "C12": dict(cat="other", sec="4 C12",
   technique="static index-relation checks (polynomial normal forms) and origin (freshness) analysis over go/ssa paths",
   text="Insert/InsertSlice/Remove/RemoveSlice are decided by the linear relations between growth/shrink amount and shift distance, which slice header the shift writes to, and which positions are written; Concat/Clone/Repeat by the origin of the result (make on every path) and the copy layout; Fill, Reverse and Grow as loop/path tables.",
   note="Not decided: resulting contents for every (len, cap, index) - depends on append/copy run-time semantics (trusted)."),
 "C13": dict(cat="other", sec="4 C13",
   technique="static emitter extraction (guard / counted loop / tail) with polynomial normal forms; sibling comparison; allocation-equals-writes",
   text="Chunk/Windowed/Pairs and their Func siblings are read as emitters and compared with the definition (start, step, bound, piece expression, tail guard) and with each other; the slice-returning variants are shown to allocate exactly what they write. Every piece is then non-empty, consecutive and their concatenation the input.",
   note="Uses the lemmas that j=0; j<q*size; j+=size visits exactly j=k*size for k<q, that len/size plus one for a remainder is ceil(len/size), and that the pieces [k*size, min((k+1)*size, n)) partition [0,n) - machine-checked with Lean 4 + Mathlib in /verif/lemmas/C13_chunk.lean (auxiliary; scripts/check_lemmas.sh). Other ways of writing the count (a ceiling formula) are not equated by the normal forms and fail closed."),
 "C14": dict(cat="other", sec="4 C14",
   technique="static effect (read-only inputs), origin (fresh results), def-use (callback result used), loop-direction and per-function path tables over go/ssa",
   text="For the functional helpers the handful of path rows is the definition: early-exit tables (Index*, Contains*, Any, All, maps.KeyOf/ContainsValue/HasKey), Map/MapErr/Filter/Distinct*/Except* rows, Fold/FoldReverse accumulator threading and direction, GroupBy/CountBy bookkeeping, TryGet/SafeGet*/Last/Trim*, maps.Keys/Values/Clear; plus, for all of them, inputs are only read, promised-new results come from make/append-to-fresh on every path, and callback results are used. The loop-direction rule runs over the whole tree; the set constructors Except relies on (returning their freshly filled set on every path) and maps.Set's Has/Add are re-checked with C03's rows, typ.Zero with C20's.",
   note="Not decided: equality with the definitions for all inputs beyond these tables (for GroupBy/CountBy/Distinct they are necessary bookkeeping conditions)."),
}

checks, na = [], []
for p in props:
    pid = p['id']
    c = CLAIMS.get(pid)
    if not c:
        na.append({"property_id": pid, "reason": "check not built yet (construction in progress; DESIGN.md section 4 describes the planned static rules)"})
        continue
    checks.append({
        "property_id": pid,
        "quick_cmd": f"bin/typcheck -prop {pid} -tier quick",
        "thorough_cmd": f"bin/typcheck -prop {pid} -tier thorough",
        "evidence_file": f"/verif/evidence/{pid}.json",
        "replay_cmd_template": f"bin/typcheck -prop {pid} -tier quick   # static: re-derives the obligation recorded in {{path}} from /repo's source",
        "engine": "typcheck",
        "level_claimed": {"category": c['cat'], "text": c['text'], "design_ref": "DESIGN.md section " + c['sec']},
        "level_note": c['note'] + " " + NOTE_COMMON,
        "technique": c['technique'],
    })
m = {
 "version": 1,
 "setup_cmd": "./build.sh",
 "hooks": {
  "guard": "verif",
  "enable": "no hooks are needed: every check is a static analysis of /repo's source; the loader passes -tags verif so that guarded files, should any appear, are analysed too",
  "baseline_off_cmd": "cd /repo && go build ./... && go test -vet=off -count=1 ./...",
  "source_commits": [],
  "add_only": True
 },
 "engines": [{"name": "typcheck", "path": "/verif/checker", "serves_properties": [c['property_id'] for c in checks],
   "kind_free_text": "one Go program (go/packages + go/ssa, x/tools v0.29.0): loader, canonical terms with polynomial normal forms, all-paths summaries with loop summarisation, effect summaries, per-property rule sets; writes evidence/<id>.json and replay/<id>-NNN.json"}],
 "checks": checks,
 "notes": "Static analysis only: no registered command runs go-typ/typ, its tests, a solver or a model checker. Genuine defects found on the pinned tree were repaired by fix: commits in /repo or are listed in known_findings.json (see DESIGN.md).",
 "not_applicable": na,
}
json.dump(m, open(os.path.join(V, 'MANIFEST.json'), 'w'), indent=1)
print("claimed:", [c['property_id'] for c in checks])
