#!/bin/sh
# Re-checks the arithmetic lemmas that the static rules rest on with Lean 4 + Mathlib (pre-installed in this sandbox;
# not part of any registered check: the checks decide properties of /repo's source, these are facts about integers).
set -e
cd "$(dirname "$0")/../lemmas"
for f in *.lean; do
  echo "lean $f"
  lean "$f"
done
echo "all lemmas check"
