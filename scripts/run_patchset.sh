#!/bin/sh
# usage: run_patchset.sh <root> [prop]   : for each <root>/<Cxx>/<k>/patch.diff run the check of Cxx on /repo with
# the patch applied in memory; prints SILENT / ALARM (+first lines) per patch.
root=$1; only=$2
for d in $root/C*/[0-9]*/; do
  [ -f $d/patch.diff ] || continue
  prop=$(basename $(dirname $d)); k=$(basename $d)
  [ -n "$only" ] && [ "$only" != "$prop" ] && continue
  out=$(mktemp -d /tmp/vt.XXXXXX); cp /verif/known_findings.json $out/
  res=$(/verif/bin/typcheck -prop $prop -verif $out -nofixtures -patch $d/patch.diff 2>&1); rc=$?
  rm -rf $out
  case $rc in
    0) echo "$prop/$k SILENT";;
    1) echo "$prop/$k ALARM: $(echo "$res" | grep -E '^(REFUTED|UNPROVEN)' | head -3 | cut -c1-260 | tr '\n' '|')";;
    3) echo "$prop/$k STALE";;
    *) echo "$prop/$k ERROR rc=$rc $(echo "$res" | tail -1 | cut -c1-200)";;
  esac
done
