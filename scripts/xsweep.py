#!/usr/bin/env python3
"""Cross-property mutation sweep (SWEEP_WHOLE=1: whole anchored files instead of the anchored line ranges): a mutant of file f (generated from property p's anchored ranges) is a candidate
gap only if EVERY property anchored in f stays silent on it. Prints those, then checks them against the pinned tests."""
import json, os, subprocess, sys, tempfile, shutil, concurrent.futures as cf
V='/verif'
BIN=os.environ.get('XS_BIN',V+'/bin/typcheck')   # a development binary while a run uses bin/typcheck
GM=os.environ.get('XS_GM','/tmp/gm')
OPS=[o for o in os.environ.get('XS_OPS','').split(',') if o]   # restrict to these operators
props=[json.loads(l) for l in open(V+'/properties.jsonl')]
files_of={p['id']:p['anchors']['files'] for p in props}
by_file={}
for pid,fs in files_of.items():
    for f in fs: by_file.setdefault(f,[]).append(pid)
def check(prop, file, mut):
    out=tempfile.mkdtemp(prefix='vt.')
    shutil.copy(V+'/known_findings.json', out); shutil.copy(V+'/properties.jsonl', out)
    r=subprocess.run([BIN,'-prop',prop,'-verif',out,'-nofixtures','-overlay',f'{file}={mut}'],capture_output=True,text=True)
    shutil.rmtree(out)
    return r.returncode
only=sys.argv[1:]
# triaged survivors: description<TAB>verdict (equivalent / outside the properties / now refuted)
triaged={}
tf=os.path.join(os.path.dirname(os.path.abspath(__file__)),'xsweep_triaged.tsv')
if os.path.exists(tf):
    for l in open(tf):
        if '\t' in l:
            k,v=l.rstrip('\n').split('\t',1); triaged[k]=v
seen=set()
cands=[]
for p in props:
    pid=p['id']
    if only and pid not in only: continue
    d=f'{GM}/{pid}'
    shutil.rmtree(d,ignore_errors=True); os.makedirs(d)
    subprocess.run([BIN,'-prop',pid,'-genmutants',d],capture_output=True,env=dict(os.environ,SWEEP_MAX='20000'))
    idx=[l.rstrip('\n').split('\t') for l in open(d+'/index.txt')] if os.path.exists(d+'/index.txt') else []
    jobs=[]
    for name,file,desc in idx:
        if OPS and desc.split(':')[0] not in OPS: continue
        key=(file,desc)
        if key in seen: continue
        seen.add(key)
        jobs.append((name,file,desc))
    def run(j):
        name,file,desc=j
        rcs={}
        for q in by_file.get(file,[pid]):
            rc=check(q,file,f'{d}/{name}')
            rcs[q]=rc
            if rc==1: break
        return j,rcs
    with cf.ThreadPoolExecutor(12) as ex:
        for j,rcs in ex.map(run,jobs):
            if all(rc==0 for rc in rcs.values()) and rcs:
                cands.append((pid,)+j)
    print(pid,'mutants',len(jobs),'cross-survivors so far',len(cands),flush=True)
# tests
wt=os.environ.get('XS_WT','/tmp/wt/scratch')
env=dict(os.environ,GOFLAGS='-mod=mod',GOPROXY='off',GOSUMDB='off',GOTOOLCHAIN='local')
env.pop('GOWORK',None)
subprocess.run(['git','-C',wt,'checkout','-q','--','.'])
for pid,name,file,desc in cands:
    shutil.copy(f'{GM}/{pid}/{name}', f'{wt}/{file}')
    try:
        r=subprocess.run(['go','test','-vet=off','-count=1','./'+os.path.dirname(file) if os.path.dirname(file) else '.'],cwd=wt,env=env,capture_output=True,text=True,timeout=120)
        rc=r.returncode
    except subprocess.TimeoutExpired:
        rc=99
    subprocess.run(['git','-C',wt,'checkout','-q','--','.'])
    tag='TESTS-PASS' if rc==0 else 'tests-kill'
    tk=[k for k in triaged if desc.startswith(k)]   # keys are description prefixes (operator: file:line)
    if tk: tag='triaged   ' if rc==0 else 'triaged-tk'
    print(tag, pid, desc, ('# '+triaged[tk[0]]) if tk else '', flush=True)
