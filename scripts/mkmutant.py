#!/usr/bin/env python3
"""mkmutant.py <name> <file> <<< 'old\n====\nnew'  : writes /verif/mutants/<name>.diff by replacing one occurrence in a scratch worktree of /repo."""
import sys, subprocess, os
name, path = sys.argv[1], sys.argv[2]
wt = '/tmp/wt/scratch'
if not os.path.isdir(wt):
    subprocess.check_call(['git','-C','/repo','worktree','add','-q','--detach',wt,'HEAD'])
subprocess.check_call(['git','-C',wt,'checkout','-q','--detach',subprocess.check_output(['git','-C','/repo','rev-parse','HEAD']).decode().strip()])
subprocess.check_call(['git','-C',wt,'checkout','--','.'])
old, new = sys.stdin.read().split('\n====\n')
new = new.rstrip('\n')
old = old.rstrip('\n')
s = open(os.path.join(wt, path)).read()
n = s.count(old)
if n != 1:
    print(f"{name}: pattern occurs {n} times"); sys.exit(1)
open(os.path.join(wt, path), 'w').write(s.replace(old, new))
env = dict(os.environ, GOFLAGS='-mod=mod', GOPROXY='off', GOSUMDB='off', GOTOOLCHAIN='local')
r = subprocess.run(['go','build','./...'], cwd=wt, env=env, capture_output=True, text=True)
if r.returncode != 0:
    print(f"{name}: does not compile: {r.stderr[:300]}"); subprocess.check_call(['git','-C',wt,'checkout','--','.']); sys.exit(1)
t = subprocess.run(['go','test','-vet=off','-count=1','./...'], cwd=wt, env=env, capture_output=True, text=True)
d = subprocess.check_output(['git','-C',wt,'diff']).decode()
open(f'/verif/mutants/{name}.diff','w').write(d)
subprocess.check_call(['git','-C',wt,'checkout','--','.'])
print(f"{name}: ok (pinned tests {'pass' if t.returncode==0 else 'FAIL: suite already rejects it'})")
