#!/bin/sh
# usage: survivor_tests.sh <Cxx> : for each survivor of the last sweep_prop.sh run, apply the mutant to a scratch
# worktree and run the pinned tests of its package; prints TESTS-PASS (a change the suite does not notice) or tests-kill.
prop=$1; dir=/tmp/gm/$prop; wt=/tmp/wt/scratch
export GOFLAGS=-mod=mod GOPROXY=off GOSUMDB=off GOTOOLCHAIN=local; unset GOWORK
if [ ! -d "$wt" ]; then git -C /repo worktree add -q --detach "$wt" HEAD; fi
git -C $wt checkout -q --detach $(git -C /repo rev-parse HEAD) 2>/dev/null; git -C $wt checkout -q -- .
grep '^0	' $dir/results.txt | while IFS='	' read rc name desc; do
  file=$(grep "^$name	" $dir/index.txt | cut -f2)
  cp $dir/$name $wt/$file
  pkg=./$(dirname $file)
  if (cd $wt && timeout 180 go test -vet=off -count=1 $pkg >/dev/null 2>&1); then echo "TESTS-PASS $desc"; else echo "tests-kill $desc"; fi
  git -C $wt checkout -q -- .
done
