#!/bin/sh
# Runs every seeded breaking change against the check of the property it breaks (in a scratch
# worktree of /repo, never /repo itself) and prints caught / MISSED per change.
# usage: run_seeded.sh [id-prefix]
wt=/tmp/wt/scratch
if [ ! -d "$wt" ]; then git -C /repo worktree add -q --detach "$wt" HEAD; fi
git -C "$wt" checkout -q --detach $(git -C /repo rev-parse HEAD) 2>/dev/null
out=/tmp/vtest; mkdir -p $out; cp /verif/known_findings.json $out/
for d in /verif/seeded/${1}*/; do
  id=$(basename $d); prop=$(echo $id | cut -d- -f1)
  [ -f $d/patch.diff ] || continue
  git -C "$wt" checkout -- . && git -C "$wt" clean -fdq
  if ! git -C "$wt" apply $d/patch.diff 2>/dev/null; then echo "$id PATCH-DOES-NOT-APPLY"; continue; fi
  res=$(/verif/bin/typcheck -prop "$prop" -repo "$wt" -verif $out -nofixtures 2>&1)
  rc=$?
  if [ $rc -eq 1 ]; then
    echo "$id caught: $(echo "$res" | grep -E '^(REFUTED|UNPROVEN)' | head -2 | cut -c1-220 | tr '\n' '|')"
  elif [ $rc -eq 0 ]; then echo "$id MISSED"
  else echo "$id ERROR rc=$rc $(echo "$res" | tail -1)"; fi
done
git -C "$wt" checkout -- . && git -C "$wt" clean -fdq
