#!/usr/bin/env python3
"""Refactor-mutant sweep (not a registered check): every accepted behaviour-preserving control in fixtures/refactors is
applied to a scratch worktree and the lines it ADDED are mutated with the sweep operators. The rules accepted the
control because of what its new code establishes; a mutant of that new code that no check reports is a candidate for
an acceptance that is too lenient. Survivors are then run against the pinned tests (informational) and printed.
usage: rsweep.py [Cxx ...]   (verdicts in scripts/rsweep_triaged.tsv are shown next to known survivors)"""
import json, os, re, subprocess, sys, tempfile, shutil, glob, concurrent.futures as cf, threading, queue
V='/verif'
ENV=dict(os.environ,GOFLAGS='-mod=mod',GOPROXY='off',GOSUMDB='off',GOTOOLCHAIN='local',SWEEP_WHOLE='1',SWEEP_MAX='100000')
ENV.pop('GOWORK',None)
BIN=os.environ.get('TYPCHECK',V+'/bin/typcheck')
props=[json.loads(l) for l in open(V+'/properties.jsonl')]
by_file={}
for p in props:
    for f in p['anchors']['files']: by_file.setdefault(f,[]).append(p['id'])
only=sys.argv[1:]
triaged={}
tf=V+'/scripts/rsweep_triaged.tsv'
if os.path.exists(tf):
    for l in open(tf):
        if '\t' in l:
            k,v=l.rstrip('\n').split('\t',1); triaged[k]=v
NW=12
OPS=[o for o in os.environ.get('RS_OPS','').split(',') if o]   # restrict to these operators
root='/tmp/rs'
shutil.rmtree(root,ignore_errors=True); os.makedirs(root)
subprocess.run(['git','-C','/repo','worktree','prune'])
wts=queue.Queue()
for k in range(NW):
    d=f'{root}/w{k}'
    subprocess.run(['git','-C','/repo','worktree','add','--detach','-f',d,'HEAD'],capture_output=True)
    wts.put(d)
def added_lines(diff):
    out={}; cur=None; n=0
    for l in open(diff, errors='replace'):
        if l.startswith('+++ '):
            cur=l[4:].strip(); cur=cur[2:] if cur.startswith('b/') else cur; out.setdefault(cur,set())
        elif l.startswith('@@'):
            m=re.match(r'@@ -\d+(?:,\d+)? \+(\d+)',l); n=int(m.group(1))
        elif cur is not None and l.startswith('+') and not l.startswith('+++'):
            out[cur].add(n); n+=1
        elif cur is not None and l.startswith('-') and not l.startswith('---'):
            pass
        elif cur is not None and not l.startswith('\\'):
            n+=1
    return out
def check(prop, wt, file, mut):
    out=tempfile.mkdtemp(prefix='vt.')
    shutil.copy(V+'/known_findings.json', out); shutil.copy(V+'/properties.jsonl', out)
    r=subprocess.run([BIN,'-prop',prop,'-repo',wt,'-verif',out,'-nofixtures','-overlay',f'{file}={mut}'],capture_output=True,text=True,env=ENV)
    shutil.rmtree(out)
    return r.returncode
def one(diff):
    name=os.path.basename(diff)[:-5]; P=name[:3]
    wt=wts.get()
    res=[]
    try:
        subprocess.run(['git','-C',wt,'checkout','-q','--','.']); subprocess.run(['git','-C',wt,'clean','-fdq'])
        if subprocess.run(['git','-C',wt,'apply',diff],capture_output=True).returncode!=0:
            return name,None
        add=added_lines(diff)
        gm=f'{root}/gm-{name}'; os.makedirs(gm,exist_ok=True)
        o=tempfile.mkdtemp(prefix='vt.'); shutil.copy(V+'/properties.jsonl',o)
        subprocess.run([BIN,'-prop',P,'-repo',wt,'-verif',o,'-genmutants',gm],capture_output=True,env=ENV)
        shutil.rmtree(o)
        idx=[l.rstrip('\n').split('\t') for l in open(gm+'/index.txt')] if os.path.exists(gm+'/index.txt') else []
        n=0
        for mname,file,desc in idx:
            if OPS and desc.split(':')[0] not in OPS: continue
            m=re.search(r':(\d+) ',desc)
            if not m or int(m.group(1)) not in add.get(file,()): continue
            n+=1
            silent=True
            for q in by_file.get(file,[P]):
                if check(q,wt,file,f'{gm}/{mname}')!=0: silent=False; break
            if silent:
                shutil.copy(f'{gm}/{mname}',f'{wt}/{file}')
                try:
                    r=subprocess.run(['go','test','-vet=off','-count=1','./'+os.path.dirname(file) if os.path.dirname(file) else '.'],cwd=wt,env=ENV,capture_output=True,text=True,timeout=180)
                    rc=r.returncode
                except subprocess.TimeoutExpired:
                    rc=99
                subprocess.run(['git','-C',wt,'checkout','-q','--',file]); subprocess.run(['git','-C',wt,'apply',diff],capture_output=True) if False else None
                # restore the refactored file
                subprocess.run(['git','-C',wt,'checkout','-q','--','.']); subprocess.run(['git','-C',wt,'clean','-fdq']); subprocess.run(['git','-C',wt,'apply',diff],capture_output=True)
                keep=f'{root}/surv-{name}-{mname}'; shutil.copy(f'{gm}/{mname}',keep)
                res.append((desc,'TESTS-PASS' if rc==0 else 'tests-kill',keep))
        shutil.rmtree(gm,ignore_errors=True)
        return name,(n,res)
    finally:
        subprocess.run(['git','-C',wt,'checkout','-q','--','.']); subprocess.run(['git','-C',wt,'clean','-fdq'])
        wts.put(wt)
diffs=sorted(glob.glob(V+'/fixtures/refactors/C*.diff'))
if only: diffs=[d for d in diffs if os.path.basename(d)[:3] in only]
if os.environ.get('RS_MATCH'): diffs=[d for d in diffs if re.search(os.environ['RS_MATCH'], os.path.basename(d))]
tot=surv=0
with cf.ThreadPoolExecutor(NW) as ex:
    for name,r in ex.map(one,diffs):
        if r is None: print('STALE',name,flush=True); continue
        n,res=r; tot+=n; surv+=len(res)
        for desc,t,keep in res:
            key=name+' '+desc
            print(('triaged   ' if key in triaged else t), name, desc, ('# '+triaged[key]) if key in triaged else keep, flush=True)
print('mutants of added lines',tot,'survivors',surv)
for k in range(NW):
    subprocess.run(['git','-C','/repo','worktree','remove','--force',f'{root}/w{k}'],capture_output=True)
subprocess.run(['git','-C','/repo','worktree','prune'])
