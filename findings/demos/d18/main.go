package main

import (
	"time"

	"gopkg.in/typ.v4/chans"
)

func main() {
	var ps chans.PubSub[int]
	sub := ps.Sub()
	only := ps.WithOnly(sub)
	go only.PubSync(1) // blocks sending to sub, holding only's mutex, not ps's
	time.Sleep(10 * time.Millisecond)
	ps.Unsub(sub) // ps's mutex is free: closes sub under the blocked send
	time.Sleep(50 * time.Millisecond)
}
