package demo

import (
	"math"
	"sync"
	"testing"
	"time"

	"gopkg.in/typ.v4"
	"gopkg.in/typ.v4/arrays"
	"gopkg.in/typ.v4/avl"
	"gopkg.in/typ.v4/chans"
	"gopkg.in/typ.v4/slices"
	"gopkg.in/typ.v4/sync2"
)

func noPanic(t *testing.T, name string, f func()) {
	t.Helper()
	defer func() {
		if r := recover(); r != nil {
			t.Errorf("%s: panic: %v", name, r)
		}
	}()
	f()
}

// D1: Remove(absent) must not change Len.
func TestD1_RemoveAbsent(t *testing.T) {
	tr := avl.NewOrdered[int]()
	tr.Add(1)
	if tr.Remove(7) {
		t.Error("Remove(absent) returned true")
	}
	if tr.Len() != 1 {
		t.Errorf("Len after Remove(absent) = %d, want 1", tr.Len())
	}
}

// D2: Clone of a tree with >= 2 elements.
func TestD2_Clone(t *testing.T) {
	tr := avl.NewOrdered[int]()
	tr.Add(1)
	tr.Add(2)
	tr.Add(3)
	noPanic(t, "Clone", func() {
		c := tr.Clone()
		if c.Len() != 3 || !c.Contains(2) {
			t.Errorf("clone wrong: %v", c.String())
		}
	})
}

func depth(pre, in []int) int {
	if len(pre) == 0 {
		return 0
	}
	root := pre[0]
	i := 0
	for in[i] != root {
		i++
	}
	l := depth(pre[1:1+i], in[:i])
	r := depth(pre[1+i:], in[i+1:])
	if l > r {
		return l + 1
	}
	return r + 1
}

func balanced(pre, in []int) (int, bool) {
	if len(pre) == 0 {
		return 0, true
	}
	root := pre[0]
	i := 0
	for in[i] != root {
		i++
	}
	l, lo := balanced(pre[1:1+i], in[:i])
	r, ro := balanced(pre[1+i:], in[i+1:])
	h := l
	if r > h {
		h = r
	}
	d := l - r
	return h + 1, lo && ro && d >= -1 && d <= 1
}

// D3-D6: balance after sorted inserts, zig-zag inserts and deletions.
func TestD3456_Balance(t *testing.T) {
	check := func(name string, tr *avl.Tree[int]) {
		t.Helper()
		if _, ok := balanced(tr.SlicePreOrder(), tr.SliceInOrder()); !ok {
			t.Errorf("%s: not AVL balanced: pre=%v", name, tr.SlicePreOrder())
		}
	}
	tr := avl.NewOrdered[int]()
	for i := 0; i < 200; i++ {
		tr.Add(i)
		check("sorted", &tr)
	}
	tr2 := avl.NewOrdered[int]()
	for _, v := range []int{10, 30, 20} { // right-left case
		tr2.Add(v)
	}
	check("zigzag", &tr2)
	tr3 := avl.NewOrdered[int]()
	for _, v := range []int{30, 10, 20} { // left-right case
		tr3.Add(v)
	}
	check("zagzig", &tr3)
	// deletions
	seq := []int{50, 25, 75, 12, 37, 62, 87, 6, 18, 31, 43, 56, 68, 81, 93, 3, 9, 15, 21, 28, 34, 40, 46, 53, 59, 65, 71, 78, 84, 90, 96}
	for rm := 0; rm < len(seq); rm++ {
		tr4 := avl.NewOrdered[int]()
		for _, v := range seq {
			tr4.Add(v)
		}
		for k := 0; k < len(seq); k++ {
			tr4.Remove(seq[(rm+k*7)%len(seq)])
			check("delete", &tr4)
		}
	}
}

// D7
func TestD7_SortedRemoveAbsent(t *testing.T) {
	s := slices.NewSortedOrdered(1, 3, 5)
	noPanic(t, "Sorted.Remove(absent)", func() {
		if got := s.Remove(4); got != -1 {
			t.Errorf("Remove(absent)=%d", got)
		}
		if got := s.Remove(9); got != -1 {
			t.Errorf("Remove(absent above)=%d", got)
		}
	})
	if s.Len() != 3 {
		t.Errorf("Len=%d", s.Len())
	}
}

// D8
func TestD8_Rect(t *testing.T) {
	for _, sh := range [][2]int{{3, 2}, {2, 3}, {5, 1}, {1, 5}} {
		w, h := sh[0], sh[1]
		noPanic(t, "rect", func() {
			a := arrays.New2D[int](w, h)
			for y := 0; y < h; y++ {
				for x := 0; x < w; x++ {
					a.Set(x, y, 1+x+y*w)
				}
			}
			for y := 0; y < h; y++ {
				for x := 0; x < w; x++ {
					if a.Get(x, y) != 1+x+y*w {
						t.Errorf("%dx%d: cell (%d,%d)=%d", w, h, x, y, a.Get(x, y))
					}
				}
				row := a.Row(y)
				if len(row) != w || row[0] != 1+y*w {
					t.Errorf("%dx%d row %d = %v", w, h, y, row)
				}
			}
			a.Fill(0, 0, w-1, h-1, 9)
			for y := 0; y < h; y++ {
				for x := 0; x < w; x++ {
					if a.Get(x, y) != 9 {
						t.Errorf("fill")
					}
				}
			}
		})
	}
}

// D9
func TestD9_JaggedExtraRows(t *testing.T) {
	noPanic(t, "jagged", func() {
		a := arrays.New2DFromJagged(2, 2, [][]int{{1, 2, 3}, {4}, {5, 6}})
		if a.Get(0, 0) != 1 || a.Get(1, 0) != 2 || a.Get(0, 1) != 4 || a.Get(1, 1) != 0 {
			t.Errorf("got %v", a)
		}
	})
}

// D10
func TestD10_Chunk(t *testing.T) {
	for n := 0; n < 12; n++ {
		for size := 1; size < 14; size++ {
			s := make([]int, n)
			for i := range s {
				s[i] = i
			}
			got := slices.Chunk(s, size)
			want := (n + size - 1) / size
			if len(got) != want {
				t.Errorf("Chunk(n=%d,size=%d): %d chunks, want %d", n, size, len(got), want)
				continue
			}
			k := 0
			for ci, c := range got {
				if len(c) == 0 || (len(c) != size && ci != len(got)-1) {
					t.Errorf("Chunk(n=%d,size=%d) chunk %d len %d", n, size, ci, len(c))
				}
				for _, v := range c {
					if v != k {
						t.Errorf("content")
					}
					k++
				}
			}
		}
	}
}

// D11/D12
func TestD11_Fold(t *testing.T) {
	got := slices.Fold([]string{"a", "b", "c"}, "", func(s string, v string) string { return s + v })
	if got != "abc" {
		t.Errorf("Fold=%q", got)
	}
}
func TestD12_FoldReverse(t *testing.T) {
	noPanic(t, "FoldReverse", func() {
		got := slices.FoldReverse([]string{"a", "b", "c"}, "", func(s string, v string) string { return s + v })
		if got != "cba" {
			t.Errorf("FoldReverse=%q", got)
		}
	})
}

// D13: run with -race
func TestD13_PoolRace(t *testing.T) {
	p := sync2.Pool[int]{New: func() int { return 1 }}
	var wg sync.WaitGroup
	for i := 0; i < 4; i++ {
		wg.Add(1)
		go func() {
			defer wg.Done()
			for j := 0; j < 1000; j++ {
				p.Put(p.Get())
			}
		}()
	}
	wg.Wait()
}

// D14
func TestD14_RecvQueuedClosed(t *testing.T) {
	ch := make(chan int, 4)
	ch <- 1
	ch <- 2
	close(ch)
	got := chans.RecvQueued[<-chan int](ch, 5)
	if len(got) != 2 {
		t.Errorf("RecvQueued closed = %v", got)
	}
	ch2 := make(chan int, 4)
	ch2 <- 1
	close(ch2)
	buf := make([]int, 3)
	if n := chans.RecvQueuedFull[<-chan int](ch2, buf); n != 1 {
		t.Errorf("RecvQueuedFull closed = %d", n)
	}
}

// D15
func TestD15_Digits(t *testing.T) {
	if d := typ.Digits10(int8(-128)); d != 3 {
		t.Errorf("Digits10(int8 min)=%d", d)
	}
	if d := typ.DigitsSign10(int8(-128)); d != 4 {
		t.Errorf("DigitsSign10(int8 min)=%d", d)
	}
	if d := typ.Digits10(int64(math.MinInt64)); d != 19 {
		t.Errorf("Digits10(int64 min)=%d", d)
	}
	if d := typ.DigitsSign10(int16(math.MinInt16)); d != 6 {
		t.Errorf("DigitsSign10(int16 min)=%d", d)
	}
	if d := typ.Digits10(int32(-99)); d != 2 {
		t.Errorf("Digits10(-99)=%d", d)
	}
	if d := typ.Digits10(uint64(math.MaxUint64)); d != 20 {
		t.Errorf("Digits10(maxuint64)=%d", d)
	}
}

// D16: PubWait vs Unsub: send on closed channel. Needs a schedule: subscriber
// not receiving, timeout long; PubWait's goroutines in flight while Unsub closes.
func TestD16_PubWaitUnsub(t *testing.T) {
	for i := 0; i < 200; i++ {
		var ps chans.PubSub[int]
		sub := ps.Sub()
		done := make(chan struct{})
		go func() {
			ps.PubWait(1) // blocks: nobody receives
			close(done)
		}()
		time.Sleep(200 * time.Microsecond)
		unsubDone := make(chan struct{})
		go func() { ps.Unsub(sub); close(unsubDone) }()
		time.Sleep(200 * time.Microsecond)
		// now receive to release
		select {
		case <-sub:
		case <-time.After(time.Second):
		}
		<-done
		<-unsubDone
	}
}
