package main

import (
	"time"

	"gopkg.in/typ.v4/chans"
)

func main() {
	var ps chans.PubSub[int]
	sub := ps.Sub()
	ps.Pub(1) // returns at once; a goroutine is now blocked sending to sub
	time.Sleep(10 * time.Millisecond)
	ps.Unsub(sub) // closes sub under the in-flight send
	time.Sleep(50 * time.Millisecond)
}
