package demo

import (
	"math/rand"
	"sort"
	"testing"

	"gopkg.in/typ.v4/avl"
)

type nd struct{ v int; l, r *nd }

func TestAVLRandom(t *testing.T) {
	rng := rand.New(rand.NewSource(1))
	for iter := 0; iter < 3000; iter++ {
		tr := avl.NewOrdered[int]()
		var model []int
		n := 1 + rng.Intn(60)
		for i := 0; i < n; i++ {
			v := rng.Intn(12)
			switch rng.Intn(4) {
			case 0, 1:
				tr.Add(v)
				model = append(model, v)
				sort.Ints(model)
			case 2:
				got := tr.Remove(v)
				idx := sort.SearchInts(model, v)
				want := idx < len(model) && model[idx] == v
				if want {
					model = append(model[:idx:idx], model[idx+1:]...)
				}
				if got != want {
					t.Fatalf("Remove(%d)=%v want %v", v, got, want)
				}
			case 3:
				c := tr.Clone()
				c.Add(99)
				if tr.Contains(99) { t.Fatal("clone shares") }
			}
			in := tr.SliceInOrder()
			if len(in) != len(model) || tr.Len() != len(model) {
				t.Fatalf("len mismatch %v vs %v", in, model)
			}
			for k := range in {
				if in[k] != model[k] {
					t.Fatalf("order %v vs %v", in, model)
				}
			}
			for q := 0; q < 12; q++ {
				idx := sort.SearchInts(model, q)
				want := idx < len(model) && model[idx] == q
				if tr.Contains(q) != want {
					t.Fatalf("Contains(%d) = %v, model %v pre %v", q, !want, model, tr.SlicePreOrder())
				}
			}
		}
	}
}
