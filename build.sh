#!/bin/sh
# Builds the checker offline from the files on disk.
set -e
cd "$(dirname "$0")/checker"
export GOFLAGS=-mod=mod GOPROXY=off GOSUMDB=off GOTOOLCHAIN=local
unset GOWORK
mkdir -p ../bin
go build -o ../bin/typcheck .
