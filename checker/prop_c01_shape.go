package main

import (
	"fmt"
	"go/types"
	"strings"
)

// C01 rules built on the symbolic in-order sequences of shape.go.

func isNodePtrType(a *avlAnchors, t types.Type) bool {
	p, ok := t.(*types.Pointer)
	if !ok {
		return false
	}
	st, ok := p.Elem().Underlying().(*types.Struct)
	if !ok {
		return false
	}
	for i := 0; i < st.NumFields(); i++ {
		if sameField(st.Field(i), a.nLeft) {
			return true
		}
	}
	return false
}

// conservers: methods of node with no argument but the receiver that return one node pointer (rebalance and
// the rotations). Each is shown to return a tree with its receiver's in-order sequence; calls to them are then
// transparent for the other functions.
func c01Conservers(c *Ctx, a *avlAnchors) map[string]*FuncInfo {
	out := map[string]*FuncInfo{}
	for _, fi := range c.P.FuncsOfPkg("avl") {
		sig := fi.Obj.Type().(*types.Signature)
		if sig.Recv() == nil || !isNodePtrType(a, sig.Recv().Type()) || sig.Params().Len() != 0 || sig.Results().Len() != 1 {
			continue
		}
		if !isNodePtrType(a, sig.Results().At(0).Type()) {
			continue
		}
		out[fi.Name] = fi
	}
	return out
}

func c01Inorder(c *Ctx, a *avlAnchors) {
	rule := "inorder-conservation"
	R := c.R
	cons := c01Conservers(c, a)
	conserve := func(name string) bool { return cons[name] != nil }
	show := func(xs []string) string {
		if len(xs) == 0 {
			return "(empty)"
		}
		return join(xs)
	}
	// 1. the conservers themselves
	for _, fi := range c.P.FuncsOfPkg("avl") {
		if cons[fi.Name] == nil {
			continue
		}
		ps := c.paths(rule, fi)
		if ps == nil {
			continue
		}
		recv := paramOf(fi, 0)
		ok, why := true, ""
		n := 0
		for _, p := range ps {
			if p.End != EndReturn || len(p.Rets) != 1 {
				continue
			}
			n++
			s := newShapeEnv(a, p, conserve)
			want := s.seq(shapeMem{}, recv, 0)
			got := s.norm(s.seq(s.final(), p.Rets[0], 0))
			if !seqEq(got, want) {
				ok, why = false, fmt.Sprintf("on path (%s) the tree handed in reads %s in order, the tree returned reads %s", p.CondString(), show(want), show(got))
			}
		}
		if n == 0 {
			ok, why = false, "no returning path"
		}
		o := R.Decide(ok, rule, fi.Name, "same-sequence", c.pos(fi), "every path returns a tree with the in-order sequence of the receiver's tree", why)
		if !ok {
			o.Breaks = "a rotation loses, duplicates or reorders a subtree: the walks no longer list the multiset in order"
		}
	}
	// 2. node.add
	if fi := c.fn(rule, "avl.(*node).add"); fi != nil {
		if ps := c.paths(rule, fi); ps != nil {
			recv, valueT := paramOf(fi, 0), paramOf(fi, 1)
			ok, why := true, ""
			for _, p := range ps {
				if p.End != EndReturn || len(p.Rets) != 1 {
					continue
				}
				s := newShapeEnv(a, p, conserve)
				L := s.seq(shapeMem{}, a.initLoad(recv, a.nLeft), 1)
				Rr := s.seq(shapeMem{}, a.initLoad(recv, a.nRight), 1)
				V := "V(" + nodeKey(a.initLoad(recv, a.nValue)) + ")"
				insOf := func(x []string) []string {
					if len(x) == 0 {
						return []string{"V(" + nodeKey(valueT) + ")"}
					}
					return []string{"ins(" + join(x) + "," + nodeKey(valueT) + ")"}
				}
				wantL := append(append(append([]string{}, insOf(L)...), V), Rr...)
				wantR := append(append(append([]string{}, L...), V), insOf(Rr)...)
				got := s.norm(s.seq(s.final(), p.Rets[0], 0))
				sign := 0
				isNodeVal := func(t *Term) bool { return isFieldLoad(t, a.nValue, recv) }
				for _, cd := range p.Conds {
					if sg := belowSign(cd, valueT, isNodeVal); sg != 0 {
						sign = sg
					}
				}
				switch {
				case seqEq(got, wantL) && (sign == 0 || sign == 1 || sign == 2):
				case seqEq(got, wantR) && (sign == 0 || sign == -1 || sign == -2):
				case seqEq(got, wantL) || seqEq(got, wantR):
					ok, why = false, fmt.Sprintf("on path (%s) the value is inserted on the side the comparison excludes", p.CondString())
				default:
					ok, why = false, fmt.Sprintf("on path (%s) the returned tree reads %s; expected the receiver's tree with the value inserted once into one child: %s or %s", p.CondString(), show(got), show(wantL), show(wantR))
				}
			}
			o := R.Decide(ok, rule, fi.Name, "inserts-once", c.pos(fi), "every path returns the receiver's tree with the value inserted exactly once, into the child the comparison selects", why)
			if !ok {
				o.Breaks = "an added value is missing from (or doubled in) the walks, or sits on the wrong side of its parent"
			}
		}
	}
	// 3. node.remove
	if fi := c.fn(rule, "avl.(*node).remove"); fi != nil {
		if ps := c.paths(rule, fi); ps != nil {
			recv, valueT := paramOf(fi, 0), paramOf(fi, 1)
			ok, why := true, ""
			for _, p := range ps {
				if p.End != EndReturn || len(p.Rets) != 2 {
					continue
				}
				s := newShapeEnv(a, p, conserve)
				L := s.seq(shapeMem{}, a.initLoad(recv, a.nLeft), 1)
				Rr := s.seq(shapeMem{}, a.initLoad(recv, a.nRight), 1)
				V := "V(" + nodeKey(a.initLoad(recv, a.nValue)) + ")"
				init := append(append(append([]string{}, L...), V), Rr...)
				found := false
				for _, cd := range p.Conds {
					r := cd.Rel()
					if r.B != nil && r.Op == "==" && ((isFieldLoad(r.A, a.nValue, recv) && r.B.Key() == valueT.Key()) || (isFieldLoad(r.B, a.nValue, recv) && r.A.Key() == valueT.Key())) {
						found = true
					}
				}
				got := s.norm(s.seq(s.final(), p.Rets[0], 0))
				flagRet := p.Rets[1]
				bad := func(msg string) {
					ok, why = false, fmt.Sprintf("on path (%s) %s", p.CondString(), msg)
				}
				if found {
					want := append(append([]string{}, L...), Rr...)
					if !seqEq(got, want) {
						bad(fmt.Sprintf("the node holding the value is unlinked but the returned tree reads %s, expected %s", show(got), show(want)))
					}
					if !flagRet.IsConst("true") {
						bad("a removal is not reported as true")
					}
					continue
				}
				rec := callsNamed(p, "avl.(*node).remove")
				switch len(rec) {
				case 0:
					if !seqEq(got, init) || p.Rets[0].Key() != recv.Key() {
						bad(fmt.Sprintf("nothing was removed but the returned tree reads %s instead of %s", show(got), show(init)))
					}
					if !flagRet.IsConst("false") {
						bad("reports a removal although none happened")
					}
				case 1:
					call := rec[0]
					flag := &Term{Op: "extract", Args: []*Term{call.Res}, N: 1}
					edge := "untested"
					for _, cd := range p.Conds {
						t, pol := stripNot(cd.T, cd.Pol)
						if t.Key() == flag.Key() {
							edge = map[bool]string{true: "true", false: "false"}[pol]
						}
					}
					side := a.childField(call.Args[0])
					if side == "" || len(call.Args) < 2 || call.Args[1].Key() != valueT.Key() || !isFieldLoad(call.Args[0], map[string]*types.Var{"left": a.nLeft, "right": a.nRight}[side], recv) {
						bad("the recursive removal is not applied to a child of the receiver with the same value")
						continue
					}
					rmOf := func(x []string) []string { return []string{"rm(" + join(x) + "," + nodeKey(valueT) + ")"} }
					var want []string
					if side == "left" {
						want = append(append(append([]string{}, rmOf(L)...), V), Rr...)
					} else {
						want = append(append(append([]string{}, L...), V), rmOf(Rr)...)
					}
					switch edge {
					case "true":
						if !seqEq(got, want) {
							bad(fmt.Sprintf("the child's removal succeeded but the returned tree reads %s, expected %s", show(got), show(want)))
						}
						if !flagRet.IsConst("true") && flagRet.Key() != flag.Key() {
							bad("a successful removal in a child is not reported")
						}
					case "false":
						if !seqEq(got, init) {
							bad(fmt.Sprintf("the child's removal failed but the returned tree reads %s instead of the unchanged %s", show(got), show(init)))
						}
						if !flagRet.IsConst("false") && flagRet.Key() != flag.Key() {
							bad("a failed removal in a child is reported as success")
						}
					default:
						if !seqEq(got, want) || flagRet.Key() != flag.Key() {
							bad("the child's result is used without its success flag being looked at or passed on")
						}
					}
				default:
					bad("removes in more than one child")
				}
			}
			o := R.Decide(ok, rule, fi.Name, "removes-once", c.pos(fi), "found: the two subtrees of the unlinked node, in order; descent: the child's removal spliced in exactly when it succeeded, the flag passed up; otherwise unchanged and false", why)
			if !ok {
				o.Breaks = "Remove loses values it was not asked to remove, keeps the one it was, or reports the wrong outcome (Len drifts)"
			}
		}
	}
	// 4. popLeftMost
	if fi := c.fn(rule, "avl.(*node).popLeftMost"); fi != nil {
		if ps := c.paths(rule, fi); ps != nil {
			recv := paramOf(fi, 0)
			ok, why := true, ""
			for _, p := range ps {
				if p.End != EndReturn || len(p.Rets) != 2 {
					continue
				}
				s := newShapeEnv(a, p, conserve)
				want := s.seq(shapeMem{}, recv, 0)
				fin := s.final()
				got := append([]string{s.valueAtom(fin, p.Rets[1])}, s.seq(fin, p.Rets[0], 0)...)
				got = s.norm(got)
				if !seqEq(got, want) {
					ok, why = false, fmt.Sprintf("on path (%s): popped node followed by the remainder reads %s, the tree handed in reads %s", p.CondString(), show(got), show(want))
				}
				if l := s.seq(fin, s.read(fin, p.Rets[1], a.nLeft), 1); len(l) != 0 {
					ok, why = false, fmt.Sprintf("on path (%s) the popped node may still have a left subtree (%s): it is not the leftmost", p.CondString(), show(l))
				}
			}
			R.Decide(ok, rule, fi.Name, "first-and-rest", c.pos(fi), "returns the leftmost node (no left child) and a remainder that reads as the rest of the sequence", why)
		}
	}
	// 5. Tree.Add / Tree.Remove at the root
	if fi := c.fn(rule, "avl.(*Tree).Add"); fi != nil {
		if ps := c.paths(rule, fi); ps != nil {
			recv, valueT := paramOf(fi, 0), paramOf(fi, 1)
			ok, why := true, ""
			for _, p := range ps {
				if p.End != EndReturn {
					continue
				}
				s := newShapeEnv(a, p, conserve)
				r0 := s.seq(shapeMem{}, a.initLoad(recv, a.tRoot), 1)
				want := []string{"V(" + nodeKey(valueT) + ")"}
				if len(r0) > 0 {
					want = []string{"ins(" + join(r0) + "," + nodeKey(valueT) + ")"}
				}
				fin := s.final()
				got := s.norm(s.seq(fin, s.read(fin, recv, a.tRoot), 1))
				if !seqEq(got, want) {
					ok, why = false, fmt.Sprintf("on path (%s) the tree reads %s afterwards, expected %s", p.CondString(), show(got), show(want))
				}
			}
			R.Decide(ok, rule, fi.Name, "root", c.pos(fi), "the root becomes the old tree with the value inserted once (a single node when it was empty)", why)
		}
	}
	if fi := c.fn(rule, "avl.(*Tree).Remove"); fi != nil {
		if ps := c.paths(rule, fi); ps != nil {
			recv, valueT := paramOf(fi, 0), paramOf(fi, 1)
			ok, why := true, ""
			for _, p := range ps {
				if p.End != EndReturn || len(p.Rets) != 1 {
					continue
				}
				s := newShapeEnv(a, p, conserve)
				r0 := s.seq(shapeMem{}, a.initLoad(recv, a.tRoot), 1)
				fin := s.final()
				got := s.norm(s.seq(fin, s.read(fin, recv, a.tRoot), 1))
				rec := callsNamed(p, "avl.(*node).remove")
				edge := ""
				if len(rec) == 1 {
					flag := &Term{Op: "extract", Args: []*Term{rec[0].Res}, N: 1}
					for _, cd := range p.Conds {
						t, pol := stripNot(cd.T, cd.Pol)
						if t.Key() == flag.Key() {
							edge = map[bool]string{true: "true", false: "false"}[pol]
						}
					}
					if len(rec[0].Args) < 2 || !isFieldLoad(rec[0].Args[0], a.tRoot, recv) || rec[0].Args[1].Key() != valueT.Key() {
						ok, why = false, "the removal is not applied to the root with the given value"
					}
				}
				want := r0
				if edge == "true" {
					want = []string{"rm(" + join(r0) + "," + nodeKey(valueT) + ")"}
				}
				// on the flag-false edge the node-level result may be installed as well: node.remove's own obligation
				// (removes-once) shows that a removal reporting false returns a tree with the sequence it was handed
				unchangedByContract := edge == "false" && seqEq(got, []string{"rm(" + join(r0) + "," + nodeKey(valueT) + ")"})
				if !seqEq(got, want) && !unchangedByContract {
					ok, why = false, fmt.Sprintf("on path (%s) the tree reads %s afterwards, expected %s", p.CondString(), show(got), show(want))
				}
				if len(rec) == 0 && len(r0) != 0 {
					ok, why = false, fmt.Sprintf("on path (%s) a non-empty tree is not searched", p.CondString())
				}
			}
			R.Decide(ok, rule, fi.Name, "root", c.pos(fi), "the root becomes the node-level removal's result exactly when it succeeded; an empty tree is left alone", why)
		}
	}
}

// ---------------------------------------------------------------------------
// null-guard: child and root pointers are dereferenced only where the path has established them non-nil.

func c01NullGuard(c *Ctx, a *avlAnchors) {
	rule := "null-guard"
	R := c.R
	cons := c01Conservers(c, a)
	// the rotations proper run under rebalance's precondition (the heavy side exists): conservers that are only
	// called from other conservers are exempt; C02's rotation-table covers their call sites
	calledFromOutside := map[string]bool{}
	for _, fi := range c.P.FuncsOfPkg("avl") {
		if cons[fi.Name] != nil {
			continue
		}
		fp := c.An.PathsOf(fi.SSA)
		for _, p := range fp.Paths {
			for i := range p.Events {
				if e := &p.Events[i]; e.Kind == "call" && cons[e.Name] != nil {
					calledFromOutside[e.Name] = true
				}
			}
		}
	}
	// nil-safe methods: every dereference of the receiver happens after the method itself has tested it non-nil;
	// calling such a method on an untested pointer is fine
	nilSafe := map[string]bool{}
	for _, fi := range c.P.FuncsOfPkg("avl") {
		sig := fi.Obj.Type().(*types.Signature)
		if sig.Recv() == nil || !isNodePtrType(a, sig.Recv().Type()) {
			continue
		}
		fp := c.An.PathsOf(fi.SSA)
		if fp.Unproven != "" {
			continue
		}
		safe, tested := true, false
		for _, p := range fp.Paths {
			guardAt := -1
			for i, cd := range p.Conds {
				r := cd.Rel()
				if r.B != nil && r.B.IsNil() && isParam(r.A, 0) {
					tested = true
					if r.Op == "!=" && guardAt < 0 {
						guardAt = i
					}
				}
			}
			touches := func(t *Term, ncond int) {
				if t != nil && t.Op == "faddr" && isParam(t.Args[0], 0) && (guardAt < 0 || ncond <= guardAt) {
					safe = false
				}
			}
			for i := range p.Events {
				e := &p.Events[i]
				if e.Kind == "store" {
					touches(e.Addr, e.NCond)
				}
				if e.Kind == "call" && len(e.Args) > 0 && isParam(e.Args[0], 0) && strings.Contains(e.Name, "(*node).") && e.Name != fi.Name && (guardAt < 0 || e.NCond <= guardAt) {
					safe = false
				}
			}
			for _, ac := range p.Acc {
				if ac.Kind == "load" {
					touches(ac.Addr, ac.NCond)
				}
			}
		}
		if safe && tested {
			nilSafe[fi.Name] = true
		}
	}
	for _, fi := range c.P.FuncsOfPkg("avl") {
		// inside a rotation the child being promoted exists by precondition; everything deeper needs its own test
		recvChildOK := cons[fi.Name] != nil && !calledFromOutside[fi.Name]
		fp := c.An.PathsOf(fi.SSA)
		if fp.Unproven != "" {
			continue // reported by the rules that need this function
		}
		ps := fp.Paths
		loops := findLoops(ps)
		ok, why := true, ""
		nDeref := 0
		for _, p := range ps {
			nonNilBefore := func(x *Term, ncond int) bool {
				x = stripIface(x)
				switch x.Op {
				case "param", "alloc", "free":
					return true
				case "extract":
					if x.N == 1 && x.Args[0].Op == "call" && strings.HasSuffix(x.Args[0].Sym, "popLeftMost") {
						return true
					}
				case "loopvar":
					// tested on this very path, before the use (for cur != nil && ... { })
					for i, cd := range p.Conds {
						if i >= ncond {
							break
						}
						r := cd.Rel()
						if r.B != nil && r.Op == "!=" && ((r.B.IsNil() && r.A.Key() == x.Key()) || (r.A.IsNil() && r.B.Key() == x.Key())) {
							return true
						}
					}
					for _, li := range loops {
						for phi, lv := range li.LV {
							if lv.Key() != x.Key() {
								continue
							}
							in := li.Init[phi]
							if in == nil {
								return false
							}
							if !(in.Op == "param" || in.Op == "alloc") {
								// the value the loop starts from was tested non-nil on the way in (if root == nil { return })
								initOK := false
								kin := nodeKey(in)
								for _, cd := range p.Conds {
									r := cd.Rel()
									if r.B != nil && r.Op == "!=" && ((r.B.IsNil() && nodeKey(r.A) == kin) || (r.A.IsNil() && nodeKey(r.B) == kin)) {
										initOK = true
									}
								}
								if !initOK {
									return false
								}
							}
							for _, q := range li.Back {
								nx := q.Next[phi]
								if nx == nil {
									return false
								}
								if nx.Key() == lv.Key() {
									continue
								}
								good := false
								for _, cd := range q.Conds {
									r := cd.Rel()
									if r.B != nil && r.Op == "!=" && r.B.IsNil() && nodeKey(r.A) == nodeKey(nx) {
										good = true
									}
								}
								if !good {
									return false
								}
							}
							return true
						}
					}
					return false
				}
				if recvChildOK && x.Op == "load" && len(x.Args) == 1 && x.Args[0].Op == "faddr" && isParam(x.Args[0].Args[0], 0) {
					return true
				}
				if recvChildOK && x.Op == "field" && x.Args[0].Op == "load" && len(x.Args[0].Args) == 1 && isParam(x.Args[0].Args[0], 0) {
					return true
				}
				k := nodeKey(x)
				for i, cd := range p.Conds {
					if i >= ncond {
						break
					}
					r := cd.Rel()
					if r.B != nil && r.Op == "!=" && ((r.B.IsNil() && nodeKey(r.A) == k) || (r.A.IsNil() && nodeKey(r.B) == k)) {
						return true
					}
				}
				return false
			}
			isPtrSlot := func(t *Term) bool {
				return isFieldLoad(t, a.nLeft, nil) || isFieldLoad(t, a.nRight, nil) || isFieldLoad(t, a.tRoot, nil) || t.Op == "loopvar" || (t.Op == "call" && isNodePtrType(a, t.Typ))
			}
			check := func(x *Term, ncond int, what string) {
				x = stripIface(x)
				if x == nil || !isPtrSlot(x) {
					return
				}
				nDeref++
				if !nonNilBefore(x, ncond) {
					ok, why = false, fmt.Sprintf("%s dereferences %s on a path (%s) that has not established it non-nil", what, x.String(), p.CondString())
				}
			}
			for i := range p.Events {
				e := &p.Events[i]
				switch e.Kind {
				case "call", "defer", "go":
					if (strings.Contains(e.Name, "(*node).") || strings.Contains(e.Name, "(*Tree).")) && len(e.Args) > 0 && !nilSafe[e.Name] {
						check(e.Args[0], e.NCond, "the call of "+e.Name)
					}
				case "store":
					if e.Addr != nil && e.Addr.Op == "faddr" {
						check(e.Addr.Args[0], e.NCond, "a store")
					}
				}
			}
			for _, ac := range p.Acc {
				if ac.Kind == "load" && ac.Addr != nil && ac.Addr.Op == "faddr" {
					check(ac.Addr.Args[0], ac.NCond, "a read")
				}
			}
		}
		if nDeref == 0 {
			continue
		}
		o := R.Decide(ok, rule, fi.Name, "derefs", c.pos(fi), fmt.Sprintf("%d dereferences of child/root pointers, each after a non-nil test on its path", nDeref), why)
		if !ok {
			o.Breaks = "nil pointer dereference for some tree shape (or an existing subtree is skipped because the test is inverted)"
		}
	}
}

// ---------------------------------------------------------------------------
// contains-table: Contains is 'the search finds a node', and the search gives up only where no eligible child is left.

func c01Contains(c *Ctx, a *avlAnchors) {
	rule := "contains-table"
	R := c.R
	if fi := c.fn(rule, "avl.(*Tree).Contains"); fi != nil {
		if ps := c.paths(rule, fi); ps != nil {
			recv, valueT := paramOf(fi, 0), paramOf(fi, 1)
			ok, why := true, ""
			rows := 0
			for _, p := range ps {
				if p.End != EndReturn || len(p.Rets) != 1 {
					continue
				}
				rootNil := ""
				for _, cd := range p.Conds {
					r := cd.Rel()
					if r.B != nil && r.B.IsNil() && isFieldLoad(r.A, a.tRoot, recv) {
						rootNil = r.Op
					}
				}
				ret := p.Rets[0]
				switch rootNil {
				case "==":
					rows++
					if !ret.IsConst("false") {
						ok, why = false, "an empty tree does not report false"
					}
				case "!=":
					rows++
					if !(ret.Op == "call" && (strings.HasSuffix(ret.Sym, "(*node).contains") || strings.HasSuffix(ret.Sym, "(*node).find")) && isFieldLoad(ret.Args[0], a.tRoot, recv) && len(ret.Args) >= 3 && ret.Args[1].Key() == valueT.Key() && isFieldLoad(ret.Args[2], a.tCompare, recv)) {
						// find(...) != nil written inline
						inner := ret
						if ret.Op == "bin" && ret.Sym == "!=" && len(ret.Args) == 2 && ret.Args[1].IsNil() {
							inner = ret.Args[0]
						}
						if !(inner.Op == "call" && strings.HasSuffix(inner.Sym, "(*node).find") && isFieldLoad(inner.Args[0], a.tRoot, recv) && inner.Args[1].Key() == valueT.Key() && isFieldLoad(inner.Args[2], a.tCompare, recv) && inner != ret) {
							ok, why = false, "a non-empty tree does not return the root's search for the value with the tree's comparator: "+ret.String()
						}
					}
				default:
					ok, why = false, "a path does not test the root"
				}
			}
			if ok && rows != 2 {
				ok, why = false, "expected the empty and the non-empty row"
			}
			R.Decide(ok, rule, fi.Name, "rows", c.pos(fi), "empty -> false; otherwise the root's search", why)
		}
	}
	if fi := c.P.Func("avl.(*node).contains"); fi != nil {
		if ps := c.paths(rule, fi); ps != nil {
			ok, why := len(ps) == 1 && len(ps[0].Rets) == 1, "contains branches"
			if ok {
				r := ps[0].Rets[0]
				good := r.Op == "bin" && r.Sym == "!=" && len(r.Args) == 2 && r.Args[1].IsNil() && r.Args[0].Op == "call" && strings.HasSuffix(r.Args[0].Sym, "(*node).find") &&
					isParam(r.Args[0].Args[0], 0) && isParam(r.Args[0].Args[1], 1) && isParam(r.Args[0].Args[2], 2)
				if !good {
					ok, why = false, "contains is not 'find(value, compare) != nil': "+r.String()
				}
			}
			R.Decide(ok, rule, fi.Name, "found-iff-non-nil", c.pos(fi), "find(value, compare) != nil", why)
		}
	}
	if fi := c.fn(rule, "avl.(*node).find"); fi != nil {
		if ps := c.paths(rule, fi); ps != nil {
			valueT := paramOf(fi, 1)
			ok, why := true, ""
			loops := findLoops(ps)
			var cur *Term
			if len(loops) == 1 && len(loops[0].Phis) == 1 {
				cur = loops[0].LV[loops[0].Phis[0]]
				if in := loops[0].Init[loops[0].Phis[0]]; in == nil || !isParam(in, 0) {
					ok, why = false, "the search does not start at the receiver"
				}
			} else {
				ok, why = false, "find is not one loop over one current node"
			}
			hits, gives := 0, 0
			for _, p := range ps {
				if !ok || p.End != EndReturn || len(p.Rets) != 1 {
					continue
				}
				isNodeVal := func(t *Term) bool { return isFieldLoad(t, a.nValue, cur) }
				eq := ""
				sign := 0
				for _, cd := range p.Conds {
					r := cd.Rel()
					if r.B != nil && (r.Op == "==" || r.Op == "!=") && ((isNodeVal(r.A) && r.B.Key() == valueT.Key()) || (isNodeVal(r.B) && r.A.Key() == valueT.Key())) {
						eq = r.Op
					}
					if sg := belowSign(cd, valueT, isNodeVal); sg != 0 {
						sign = sg
					}
				}
				ret := p.Rets[0]
				curNil := false
				for _, cd := range p.Conds {
					r := cd.Rel()
					if r.B != nil && r.Op == "==" && ((r.A.Key() == cur.Key() && r.B.IsNil()) || (r.B.Key() == cur.Key() && r.A.IsNil())) {
						curNil = true
					}
				}
				switch {
				case (ret.Key() == cur.Key() || ret.IsNil()) && curNil:
					// "stepped off the tree": the current node is nil and is returned as the not-found answer. That the step
					// which got here went to the side the value belongs on is descent-agreement's business (every descent
					// follows the comparator, or goes to the only child there is).
					gives++
				case ret.Key() == cur.Key():
					hits++
					if eq != "==" {
						ok, why = false, "a node is returned whose value has not been found equal"
					}
				case ret.IsNil():
					gives++
					if eq != "!=" {
						ok, why = false, "gives up at a node without having compared its value"
					}
					nilOf := func(f *types.Var) bool {
						for _, cd := range p.Conds {
							r := cd.Rel()
							if r.B != nil && r.Op == "==" && r.B.IsNil() && isFieldLoad(r.A, f, cur) {
								return true
							}
						}
						return false
					}
					// a child may be skipped only if it is nil or the comparison rules it out
					if !nilOf(a.nLeft) && !(sign == -1 || sign == -2) {
						ok, why = false, fmt.Sprintf("gives up (%s) although the left child may exist and the value may be below the node", p.CondString())
					}
					if !nilOf(a.nRight) && !(sign == 1) {
						ok, why = false, fmt.Sprintf("gives up (%s) although the right child may exist and the value may be above the node", p.CondString())
					}
				default:
					ok, why = false, "returns something other than the current node or nil: "+ret.String()
				}
			}
			if ok && (hits == 0 || gives == 0) {
				ok, why = false, "missing the found or the not-found exit"
			}
			o := R.Decide(ok, rule, fi.Name, "exits", c.pos(fi), "returns the node whose value equals the argument; gives up only where no eligible child is left", why)
			if !ok {
				o.Breaks = "Contains misses values that are present, or reports absent ones"
			}
		}
	}
}
